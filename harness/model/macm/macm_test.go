package macm

import (
	"bytes"
	"crypto/aes"
	"crypto/cipher"
	"crypto/des"
	"encoding/hex"
	"fmt"
	"hash"
	"math/rand"
	"testing"

	"github.com/emmansun/gmsm/cbcmac"
	"github.com/emmansun/gmsm/padding"
	"github.com/emmansun/gmsm/sm4"
)

// The tests in this file compare the library with the model. Tests named
// TestDefect* / subtests that t.Log "DISAGREE" document library deviations;
// they FAIL while the library deviates (the model is never adapted).

type ciph struct {
	name     string
	nb       NewBlock
	key      []byte // master / first key
	key2     []byte // second key for two key constructions
	lmacOK   bool   // len(key) == block size, so the library's LMAC derivation is usable
	blockLen int
}

func ciphers() []ciph {
	seq := func(n int, start byte) []byte {
		b := make([]byte, n)
		for i := range b {
			b[i] = start + byte(i)*7
		}
		return b
	}
	return []ciph{
		{"SM4", sm4.NewCipher, seq(16, 1), seq(16, 0x41), true, 16},
		{"AES128", aes.NewCipher, seq(16, 2), seq(16, 0x51), true, 16},
		{"AES256", aes.NewCipher, seq(32, 3), seq(32, 0x61), false, 16},
		{"DES", des.NewCipher, seq(8, 4), seq(8, 0x71), true, 8},
		{"3DES", des.NewTripleDESCipher, seq(24, 5), seq(24, 0x81), false, 8},
	}
}

var pads = []struct {
	id   int
	name string
	f    padding.NewPaddingFunc
}{
	{PadM2, "M2", padding.NewISO9797M2Padding},
	{PadM3, "M3", padding.NewISO9797M3Padding},
	{PadPKCS7, "PKCS7", padding.NewPKCS7Padding},
	{PadX923, "X923", padding.NewANSIX923Padding},
}

func message(n int) []byte {
	m := make([]byte, n)
	for i := range m {
		m[i] = byte(i*i*31 + i*5 + 0xa7)
	}
	return m
}

// exact returns a copy with len == cap, so that the library's padding cannot
// write into spare capacity (that hazard is tested separately).
func exact(m []byte) []byte { return append(make([]byte, 0, len(m)), m...) }

// try calls f and turns a panic into an error string.
func try(f func() []byte) (out []byte, panicked string) {
	defer func() {
		if r := recover(); r != nil {
			panicked = fmt.Sprint(r)
		}
	}()
	return f(), ""
}

// mismatch collects disagreements compactly: one line per (size) set and length list.
type mismatch struct {
	lens  map[int]bool
	sizes map[int]bool
	first string
	n     int
}

func (m *mismatch) add(l, size int, detail string) {
	if m.lens == nil {
		m.lens, m.sizes = map[int]bool{}, map[int]bool{}
		m.first = detail
	}
	m.lens[l], m.sizes[size] = true, true
	m.n++
}

func keys(m map[int]bool) string {
	var s []int
	for i := 0; i <= 200; i++ {
		if m[i] {
			s = append(s, i)
		}
	}
	// compress into ranges
	out := ""
	for i := 0; i < len(s); {
		j := i
		for j+1 < len(s) && s[j+1] == s[j]+1 {
			j++
		}
		if out != "" {
			out += ","
		}
		if j > i {
			out += fmt.Sprintf("%d-%d", s[i], s[j])
		} else {
			out += fmt.Sprint(s[i])
		}
		i = j + 1
	}
	return out
}

func (m *mismatch) report(t *testing.T, what string) {
	t.Helper()
	if m.n == 0 {
		return
	}
	t.Errorf("DISAGREE %s: %d cases, lengths {%s}, sizes {%s}; first: %s", what, m.n, keys(m.lens), keys(m.sizes), m.first)
}

func TestSelfTest(t *testing.T) {
	if err := SelfTest(sm4.NewCipher); err != nil {
		t.Fatal(err)
	}
}

// sweep compares lib(size,msg) against model(size,msg) for lengths 0..100 and sizes 1..n.
func sweep(t *testing.T, what string, n int, lib func(size int, msg []byte) []byte, model func(size int, msg []byte) ([]byte, error)) {
	t.Helper()
	var mm mismatch
	for l := 0; l <= 100; l++ {
		msg := message(l)
		for size := 1; size <= n; size++ {
			want, err := model(size, msg)
			if err != nil {
				t.Fatalf("%s: model error len=%d size=%d: %v", what, l, size, err)
			}
			in := exact(msg)
			got, p := try(func() []byte { return lib(size, in) })
			switch {
			case p != "":
				mm.add(l, size, fmt.Sprintf("len=%d size=%d library panics: %s", l, size, p))
			case !bytes.Equal(got, want):
				mm.add(l, size, fmt.Sprintf("len=%d size=%d lib=%x model=%x", l, size, got, want))
			case !bytes.Equal(in, msg):
				mm.add(l, size, fmt.Sprintf("len=%d size=%d library modified its input", l, size))
			}
		}
	}
	mm.report(t, what)
}

func TestPaddedConstructions(t *testing.T) {
	for _, c := range ciphers() {
		for _, p := range pads {
			c, p := c, p
			name := c.name + "/" + p.name
			t.Run("CBCMAC/"+name, func(t *testing.T) {
				b, _ := c.nb(c.key)
				sweep(t, "CBCMAC/"+name, c.blockLen,
					func(size int, m []byte) []byte { return cbcmac.NewCBCMACWithPadding(b, size, p.f).MAC(m) },
					func(size int, m []byte) ([]byte, error) { return CBCMAC(c.nb, c.key, p.id, size, m) })
			})
			t.Run("EMAC/"+name, func(t *testing.T) {
				sweep(t, "EMAC/"+name, c.blockLen,
					func(size int, m []byte) []byte {
						return cbcmac.NewEMACWithPadding(c.nb, c.key, c.key2, size, p.f).MAC(m)
					},
					func(size int, m []byte) ([]byte, error) { return EMAC(c.nb, c.key, c.key2, p.id, size, m) })
			})
			t.Run("ANSI/"+name, func(t *testing.T) {
				sweep(t, "ANSI/"+name, c.blockLen,
					func(size int, m []byte) []byte {
						return cbcmac.NewANSIRetailMACWithPadding(c.nb, c.key, c.key2, size, p.f).MAC(m)
					},
					func(size int, m []byte) ([]byte, error) { return ANSIRetailMAC(c.nb, c.key, c.key2, p.id, size, m) })
			})
			t.Run("MACDES/"+name, func(t *testing.T) {
				sweep(t, "MACDES/"+name, c.blockLen,
					func(size int, m []byte) []byte {
						return cbcmac.NewMACDESWithPadding(c.nb, c.key, c.key2, size, p.f).MAC(m)
					},
					func(size int, m []byte) ([]byte, error) { return MACDES(c.nb, c.key, c.key2, p.id, size, m) })
			})
			t.Run("LMAC/"+name, func(t *testing.T) {
				sweep(t, "LMAC/"+name, c.blockLen,
					func(size int, m []byte) []byte { return cbcmac.NewLMACWithPadding(c.nb, c.key, size, p.f).MAC(m) },
					func(size int, m []byte) ([]byte, error) { return LMAC(c.nb, c.key, p.id, size, m) })
			})
			// LMAC at full tag size only, so that the "size ignored" defect does not hide anything else.
			t.Run("LMACfull/"+name, func(t *testing.T) {
				var mm mismatch
				for l := 0; l <= 100; l++ {
					msg := message(l)
					want, err := LMAC(c.nb, c.key, p.id, c.blockLen, msg)
					if err != nil {
						t.Fatal(err)
					}
					got, pn := try(func() []byte {
						return cbcmac.NewLMACWithPadding(c.nb, c.key, c.blockLen, p.f).MAC(exact(msg))
					})
					if pn != "" {
						mm.add(l, c.blockLen, "library panics: "+pn)
					} else if !bytes.Equal(got, want) {
						mm.add(l, c.blockLen, fmt.Sprintf("len=%d lib=%x model=%x", l, got, want))
					}
				}
				mm.report(t, "LMACfull/"+name)
			})
		}
	}
}

// The default constructors must be padding method 2.
func TestDefaultConstructors(t *testing.T) {
	for _, c := range ciphers() {
		c := c
		b, _ := c.nb(c.key)
		n := c.blockLen
		sweep(t, "NewCBCMAC/"+c.name, n,
			func(size int, m []byte) []byte { return cbcmac.NewCBCMAC(b, size).MAC(m) },
			func(size int, m []byte) ([]byte, error) { return CBCMAC(c.nb, c.key, PadM2, size, m) })
		sweep(t, "NewEMAC/"+c.name, n,
			func(size int, m []byte) []byte { return cbcmac.NewEMAC(c.nb, c.key, c.key2, size).MAC(m) },
			func(size int, m []byte) ([]byte, error) { return EMAC(c.nb, c.key, c.key2, PadM2, size, m) })
		sweep(t, "NewANSIRetailMAC/"+c.name, n,
			func(size int, m []byte) []byte { return cbcmac.NewANSIRetailMAC(c.nb, c.key, c.key2, size).MAC(m) },
			func(size int, m []byte) ([]byte, error) { return ANSIRetailMAC(c.nb, c.key, c.key2, PadM2, size, m) })
		sweep(t, "NewMACDES/"+c.name, n,
			func(size int, m []byte) []byte { return cbcmac.NewMACDES(c.nb, c.key, c.key2, size).MAC(m) },
			func(size int, m []byte) ([]byte, error) { return MACDES(c.nb, c.key, c.key2, PadM2, size, m) })
	}
}

func TestUnpaddedConstructions(t *testing.T) {
	for _, c := range ciphers() {
		c := c
		b, _ := c.nb(c.key)
		t.Run("CMAC/"+c.name, func(t *testing.T) {
			sweep(t, "CMAC/"+c.name, c.blockLen,
				func(size int, m []byte) []byte { return cbcmac.NewCMAC(b, size).MAC(m) }, // fresh object every time
				func(size int, m []byte) ([]byte, error) { return CMAC(c.nb, c.key, size, m) })
		})
		t.Run("TRCBC/"+c.name, func(t *testing.T) {
			sweep(t, "TRCBC/"+c.name, c.blockLen,
				func(size int, m []byte) []byte { return cbcmac.NewTRCBCMAC(b, size).MAC(m) },
				func(size int, m []byte) ([]byte, error) { return TRCBCMAC(c.nb, c.key, size, m) })
		})
		t.Run("CBCR/"+c.name, func(t *testing.T) {
			sweep(t, "CBCR/"+c.name, c.blockLen,
				func(size int, m []byte) []byte { return cbcmac.NewCBCRMAC(b, size).MAC(m) },
				func(size int, m []byte) ([]byte, error) { return CBCRMAC(c.nb, c.key, size, m) })
		})
		// The library must at least be exactly the shift variant, nothing else.
		t.Run("CBCRvsDefectModel/"+c.name, func(t *testing.T) {
			sweep(t, "CBCRvsDefectModel/"+c.name, c.blockLen,
				func(size int, m []byte) []byte { return cbcmac.NewCBCRMAC(b, size).MAC(m) },
				func(size int, m []byte) ([]byte, error) { return CBCRMACDefect(c.nb, c.key, size, m) })
		})
	}
}

// (c) CBCR: left rotation implemented as shift -> trivial collision.
func TestDefectCBCRCollision(t *testing.T) {
	key := ciphers()[0].key
	b, _ := sm4.NewCipher(key)
	m0 := []byte{0, 0, 0, 0, 0}
	m1 := []byte{0x80, 0, 0, 0, 0}
	l0 := cbcmac.NewCBCRMAC(b, 16).MAC(exact(m0))
	l1 := cbcmac.NewCBCRMAC(b, 16).MAC(exact(m1))
	r0, _ := CBCRMAC(sm4.NewCipher, key, 16, m0)
	r1, _ := CBCRMAC(sm4.NewCipher, key, 16, m1)
	if bytes.Equal(r0, r1) {
		t.Fatal("model collides, model is broken")
	}
	if bytes.Equal(l0, l1) {
		t.Errorf("DISAGREE CBCR: library tags of 0000000000 and 8000000000 collide (%x); model gives %x and %x", l0, r0, r1)
	}
}

// Which of the repository's CBCR vectors fit rotate, which only shift.
func TestCBCRRepoVectors(t *testing.T) {
	key, _ := hex.DecodeString("0123456789abcdeffedcba9876543210")
	for i, v := range []struct {
		msg  []byte
		want string
	}{
		{nil, "909f5e6ed15518c01252302383c63e8c"},
		{[]byte("This is the test message for mac"), "e40ed79c3149a1c9d42f04c423049935"},
		{[]byte("This is the test message "), "a99d13013e892ee2c25be2daaa6c82e8"},
	} {
		rot, _ := CBCRMAC(sm4.NewCipher, key, 16, v.msg)
		shf, _ := CBCRMACDefect(sm4.NewCipher, key, 16, v.msg)
		t.Logf("repo CBCR vector #%d (len %d): want %s rotate-model %x (match=%v) shift-model %x (match=%v)",
			i, len(v.msg), v.want, rot, hex.EncodeToString(rot) == v.want, shf, hex.EncodeToString(shf) == v.want)
		if hex.EncodeToString(rot) != v.want {
			t.Errorf("DISAGREE repo CBCR vector #%d does not match the rotate model", i)
		}
	}
}

// (b) LMAC ignores the tag size.
func TestDefectLMACSize(t *testing.T) {
	c := ciphers()[0]
	m := cbcmac.NewLMAC(c.nb, c.key, 8)
	tag := m.MAC([]byte("abc"))
	want, _ := LMAC(c.nb, c.key, PadM2, 8, []byte("abc"))
	if m.Size() != 8 || len(tag) != 8 {
		t.Errorf("DISAGREE LMAC size=8: library Size()=%d len(tag)=%d tag=%x, model=%x", m.Size(), len(tag), tag, want)
	}
	if !bytes.HasPrefix(tag, want) {
		t.Errorf("library tag %x does not even start with model tag %x", tag, want)
	}
}

func newCMACs() []struct {
	name string
	c    ciph
} {
	var out []struct {
		name string
		c    ciph
	}
	for _, c := range ciphers() {
		if c.blockLen == 16 { // 8 byte blocks are wrong already for one shot use (Rb), see TestUnpaddedConstructions
			out = append(out, struct {
				name string
				c    ciph
			}{c.name, c})
		}
	}
	return out
}

// (a) CMAC as hash.Hash: split writes, Sum, Reset, reuse, MAC() after use.
func TestCMACHashUsage(t *testing.T) {
	rng := rand.New(rand.NewSource(1))
	for _, cc := range newCMACs() {
		c := cc.c
		b, _ := c.nb(c.key)
		model := func(size int, m []byte) []byte {
			out, err := CMAC(c.nb, c.key, size, m)
			if err != nil {
				t.Fatal(err)
			}
			return out
		}

		t.Run("FreshSplitWrites/"+c.name, func(t *testing.T) {
			var mm mismatch
			for l := 0; l <= 100; l++ {
				msg := message(l)
				for rep := 0; rep < 20; rep++ {
					var h hash.Hash = cbcmac.NewCMAC(b, 16)
					var cuts []int
					for rest := msg; len(rest) > 0; {
						k := 1 + rng.Intn(len(rest))
						if rng.Intn(3) == 0 {
							k = min(len(rest), 1+rng.Intn(20))
						}
						h.Write(rest[:k])
						cuts = append(cuts, k)
						rest = rest[k:]
					}
					got := h.Sum(nil)
					if want := model(16, msg); !bytes.Equal(got, want) {
						mm.add(l, 16, fmt.Sprintf("len=%d writes=%v lib=%x model=%x", l, cuts, got, want))
					}
					// Sum must not change state, and must append.
					if again := h.Sum([]byte{1, 2}); !bytes.Equal(again[2:], got) || again[0] != 1 || again[1] != 2 {
						t.Errorf("second Sum differs: %x vs %x", again, got)
					}
				}
			}
			mm.report(t, "CMAC fresh object, split writes/"+c.name)
		})

		t.Run("Split16plus5/"+c.name, func(t *testing.T) {
			msg := message(21)
			h := cbcmac.NewCMAC(b, 16)
			h.Write(msg[:16])
			h.Write(msg[16:])
			got, want := h.Sum(nil), model(16, msg)
			one := cbcmac.NewCMAC(b, 16).MAC(exact(msg))
			if !bytes.Equal(one, want) {
				t.Errorf("fresh one-shot wrong: %x vs %x", one, want)
			}
			if !bytes.Equal(got, want) {
				t.Errorf("DISAGREE CMAC Write(16)+Write(5) on fresh object: lib=%x model=%x (fresh one-shot MAC()=%x)", got, want, one)
			}
		})

		t.Run("ResetReuse/"+c.name, func(t *testing.T) {
			var mm mismatch
			h := cbcmac.NewCMAC(b, 16)
			for i := 0; i < 300; i++ {
				l := rng.Intn(101)
				msg := message(l)
				h.Reset()
				h.Write(msg)
				got := h.Sum(nil)
				if want := model(16, msg); !bytes.Equal(got, want) {
					mm.add(l, 16, fmt.Sprintf("iteration %d len=%d lib=%x model=%x", i, l, got, want))
				}
			}
			mm.report(t, "CMAC Reset+Write+Sum on reused object/"+c.name)
		})

		t.Run("MACOnUsedObject/"+c.name, func(t *testing.T) {
			var mm mismatch
			for size := 1; size <= 16; size++ {
				h := cbcmac.NewCMAC(b, size)
				for i := 0; i < 100; i++ {
					l := rng.Intn(101)
					msg := message(l)
					got := h.MAC(exact(msg))
					if want := model(size, msg); !bytes.Equal(got, want) {
						mm.add(l, size, fmt.Sprintf("size=%d call %d len=%d lib=%x model=%x", size, i, l, got, want))
					}
				}
			}
			mm.report(t, "CMAC MAC() on previously used object/"+c.name)
		})

		t.Run("MinimalReuse/"+c.name, func(t *testing.T) {
			h := cbcmac.NewCMAC(b, 16)
			long, short := message(16), message(5)
			h.MAC(long)
			got, want := h.MAC(short), model(16, short)
			if !bytes.Equal(got, want) {
				t.Errorf("DISAGREE CMAC MAC(16 bytes) then MAC(5 bytes) on same object: lib=%x model=%x", got, want)
			}
		})
	}
}

// (d) padding method 3 hazards, seen through the MAC API.
func TestDefectM3SpareCapacity(t *testing.T) {
	c := ciphers()[0]
	b, _ := c.nb(c.key)
	for _, p := range pads {
		var mm mismatch
		for l := 0; l <= 100; l++ {
			msg := message(l)
			in := make([]byte, l, l+64) // spare capacity
			copy(in, msg)
			spare := in[l : l+64]
			want, _ := CBCMAC(c.nb, c.key, p.id, 16, msg)
			got, pn := try(func() []byte { return cbcmac.NewCBCMACWithPadding(b, 16, p.f).MAC(in) })
			switch {
			case pn != "":
				mm.add(l, 16, fmt.Sprintf("len=%d panic %s", l, pn))
			case !bytes.Equal(got, want):
				mm.add(l, 16, fmt.Sprintf("len=%d wrong tag lib=%x model=%x; caller slice now %x was %x", l, got, want, in, msg))
			case !bytes.Equal(in, msg):
				mm.add(l, 16, fmt.Sprintf("len=%d tag ok but caller's message bytes changed", l))
			case !bytes.Equal(spare, make([]byte, 64)):
				mm.add(l, 16, fmt.Sprintf("len=%d tag ok, message intact, but spare capacity written: %x", l, spare))
			}
		}
		mm.report(t, "CBCMAC/SM4/"+p.name+" with spare capacity in src")
	}
}

func TestLMACKeysAgainstLibraryTestVectorKeys(t *testing.T) {
	// Observation only: how is key2 of the appendix vectors related to key1?
	k1, _ := hex.DecodeString("0123456789abcdeffedcba9876543210")
	a, b, _ := LMACKeys(sm4.NewCipher, k1)
	t.Logf("e_K(0..01)=%x e_K(0..02)=%x ; appendix K'=4149d2aded9456681ec8b511d9e7ee04", a, b)
}

var _ cipher.Block
