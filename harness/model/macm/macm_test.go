package macm

import (
	"bytes"
	"crypto/aes"
	"crypto/des"
	"encoding/hex"
	"fmt"
	"hash"
	"math/rand"
	"testing"

	"github.com/emmansun/gmsm/cbcmac"
	"github.com/emmansun/gmsm/padding"
	"github.com/emmansun/gmsm/sm4"
)

// Layout of this file:
//
//	TestSelfTest, TestPad   model only, must always pass
//	TestAgree*              library == model; pass on the pinned tree
//	TestDefect*             library != model (model follows the standard);
//	                        these FAIL while the library deviates. The model
//	                        is never adapted.

type ciph struct {
	name      string
	nb        NewBlock
	key, key2 []byte
	n         int // block length
}

func seq(n int, start byte) []byte {
	b := make([]byte, n)
	for i := range b {
		b[i] = start + byte(i)*7
	}
	return b
}

var ciphers = []ciph{
	{"SM4", sm4.NewCipher, seq(16, 1), seq(16, 0x41), 16},
	{"AES128", aes.NewCipher, seq(16, 2), seq(16, 0x51), 16},
	{"AES256", aes.NewCipher, seq(32, 3), seq(32, 0x61), 16},
	{"DES", des.NewCipher, seq(8, 4), seq(8, 0x71), 8},
	{"3DES", des.NewTripleDESCipher, seq(24, 5), seq(24, 0x81), 8},
}

type padOpt struct {
	id   int
	name string
	f    padding.NewPaddingFunc
}

var pads = []padOpt{
	{PadM2, "M2", padding.NewISO9797M2Padding},
	{PadM3, "M3", padding.NewISO9797M3Padding},
	{PadPKCS7, "PKCS7", padding.NewPKCS7Padding},
	{PadX923, "X923", padding.NewANSIX923Padding},
}

func message(n int) []byte {
	m := make([]byte, n)
	for i := range m {
		m[i] = byte(i*i*31 + i*5 + 0xa7)
	}
	return m
}

// exact returns a copy with len == cap, so that the library's padding cannot
// write into spare capacity (that hazard is tested separately).
func exact(m []byte) []byte { return append(make([]byte, 0, len(m)), m...) }

// try calls f and turns a panic into a string.
func try(f func() []byte) (out []byte, panicked string) {
	defer func() {
		if r := recover(); r != nil {
			panicked = fmt.Sprint(r)
		}
	}()
	return f(), ""
}

// mismatch collects disagreements compactly.
type mismatch struct {
	lens, sizes map[int]bool
	first       string
	n           int
}

func (m *mismatch) add(l, size int, detail string) {
	if m.lens == nil {
		m.lens, m.sizes = map[int]bool{}, map[int]bool{}
		m.first = detail
	}
	m.lens[l], m.sizes[size] = true, true
	m.n++
}

func ranges(m map[int]bool) string {
	out := ""
	for i := 0; i <= 200; i++ {
		if !m[i] {
			continue
		}
		j := i
		for m[j+1] {
			j++
		}
		if out != "" {
			out += ","
		}
		if j > i {
			out += fmt.Sprintf("%d-%d", i, j)
		} else {
			out += fmt.Sprint(i)
		}
		i = j
	}
	return out
}

func (m *mismatch) report(t *testing.T, what string) {
	t.Helper()
	if m.n > 0 {
		t.Errorf("DISAGREE %s: %d cases, lengths {%s}, sizes {%s}; first: %s", what, m.n, ranges(m.lens), ranges(m.sizes), m.first)
	}
}

// sweep compares lib against model for message lengths 0..100 and tag sizes sizes.
func sweep(t *testing.T, what string, sizes []int, lib func(size int, msg []byte) []byte, model func(size int, msg []byte) ([]byte, error)) {
	t.Helper()
	var mm mismatch
	for l := 0; l <= 100; l++ {
		msg := message(l)
		for _, size := range sizes {
			want, err := model(size, msg)
			if err != nil {
				t.Fatalf("%s: model error len=%d size=%d: %v", what, l, size, err)
			}
			in := exact(msg)
			got, p := try(func() []byte { return lib(size, in) })
			switch {
			case p != "":
				mm.add(l, size, fmt.Sprintf("len=%d size=%d library panics: %s", l, size, p))
			case !bytes.Equal(got, want):
				mm.add(l, size, fmt.Sprintf("len=%d size=%d lib=%x model=%x", l, size, got, want))
			case !bytes.Equal(in, msg):
				mm.add(l, size, fmt.Sprintf("len=%d size=%d library modified its input", l, size))
			}
		}
	}
	mm.report(t, what)
}

func upTo(n int) []int {
	var s []int
	for i := 1; i <= n; i++ {
		s = append(s, i)
	}
	return s
}

// ---------------------------------------------------------------- model only

func TestSelfTest(t *testing.T) {
	if err := SelfTest(sm4.NewCipher); err != nil {
		t.Fatal(err)
	}
}

func TestPad(t *testing.T) {
	for _, v := range []struct {
		pad, n int
		msg    string
		want   string
	}{
		{PadM1, 8, "", "0000000000000000"},
		{PadM1, 8, "aabbcc", "aabbcc0000000000"},
		{PadM1, 8, "0102030405060708", "0102030405060708"},
		{PadM2, 8, "", "8000000000000000"},
		{PadM2, 8, "aabbcc", "aabbcc8000000000"},
		{PadM2, 8, "0102030405060708", "01020304050607088000000000000000"},
		{PadM3, 8, "", "00000000000000000000000000000000"},
		{PadM3, 8, "aabbcc", "0000000000000018aabbcc0000000000"},
		{PadM3, 8, "0102030405060708", "00000000000000400102030405060708"},
		{PadM3, 16, "aabbcc", "00000000000000000000000000000018aabbcc00000000000000000000000000"},
		{PadPKCS7, 8, "aabbcc", "aabbcc0505050505"},
		{PadPKCS7, 8, "0102030405060708", "01020304050607080808080808080808"},
		{PadX923, 8, "aabbcc", "aabbcc0000000005"},
		{PadNone, 8, "0102030405060708", "0102030405060708"},
	} {
		msg, _ := hex.DecodeString(v.msg)
		got, err := Pad(v.pad, v.n, msg)
		if err != nil || hex.EncodeToString(got) != v.want {
			t.Errorf("Pad(%d,%d,%s) = %x, %v; want %s", v.pad, v.n, v.msg, got, err, v.want)
		}
	}
	for _, l := range []int{0, 3, 9} {
		if _, err := Pad(PadNone, 8, make([]byte, l)); err == nil {
			t.Errorf("PadNone accepted length %d", l)
		}
	}
}

// ------------------------------------------------- algorithms 1-4 and 6 (padded)

type padded struct {
	name  string
	lib   func(c ciph, p padOpt, size int, m []byte) []byte
	model func(c ciph, p padOpt, size int, m []byte) ([]byte, error)
}

var paddedAlgs = []padded{
	{"CBCMAC",
		func(c ciph, p padOpt, size int, m []byte) []byte {
			b, _ := c.nb(c.key)
			return cbcmac.NewCBCMACWithPadding(b, size, p.f).MAC(m)
		},
		func(c ciph, p padOpt, size int, m []byte) ([]byte, error) { return CBCMAC(c.nb, c.key, p.id, size, m) }},
	{"EMAC",
		func(c ciph, p padOpt, size int, m []byte) []byte {
			return cbcmac.NewEMACWithPadding(c.nb, c.key, c.key2, size, p.f).MAC(m)
		},
		func(c ciph, p padOpt, size int, m []byte) ([]byte, error) {
			return EMAC(c.nb, c.key, c.key2, p.id, size, m)
		}},
	{"ANSI",
		func(c ciph, p padOpt, size int, m []byte) []byte {
			return cbcmac.NewANSIRetailMACWithPadding(c.nb, c.key, c.key2, size, p.f).MAC(m)
		},
		func(c ciph, p padOpt, size int, m []byte) ([]byte, error) {
			return ANSIRetailMAC(c.nb, c.key, c.key2, p.id, size, m)
		}},
	{"MACDES",
		func(c ciph, p padOpt, size int, m []byte) []byte {
			return cbcmac.NewMACDESWithPadding(c.nb, c.key, c.key2, size, p.f).MAC(m)
		},
		func(c ciph, p padOpt, size int, m []byte) ([]byte, error) {
			return MACDES(c.nb, c.key, c.key2, p.id, size, m)
		}},
	{"LMAC",
		func(c ciph, p padOpt, size int, m []byte) []byte {
			return cbcmac.NewLMACWithPadding(c.nb, c.key, size, p.f).MAC(m)
		},
		func(c ciph, p padOpt, size int, m []byte) ([]byte, error) { return LMAC(c.nb, c.key, p.id, size, m) }},
}

// Where the pinned library is expected to agree: every padding on 16 byte
// blocks, every padding but method 3 on 8 byte blocks; LMAC only at full tag
// size and only when len(key) == block length.
func TestAgreePadded(t *testing.T) {
	for _, a := range paddedAlgs {
		for _, c := range ciphers {
			for _, p := range pads {
				if p.id == PadM3 && c.n == 8 {
					continue // TestDefectM3On8ByteBlocks
				}
				sizes := upTo(c.n)
				if a.name == "LMAC" {
					if len(c.key) != c.n {
						continue // TestDefectLMACKeyLength
					}
					sizes = []int{c.n} // TestDefectLMACSize
				}
				what := a.name + "/" + c.name + "/" + p.name
				sweep(t, what, sizes,
					func(size int, m []byte) []byte { return a.lib(c, p, size, m) },
					func(size int, m []byte) ([]byte, error) { return a.model(c, p, size, m) })
			}
		}
	}
}

// The constructors without a padding argument use padding method 2.
func TestAgreeDefaultPaddingIsM2(t *testing.T) {
	for _, c := range ciphers {
		b, _ := c.nb(c.key)
		sizes := []int{1, c.n / 2, c.n}
		sweep(t, "NewCBCMAC/"+c.name, sizes,
			func(size int, m []byte) []byte { return cbcmac.NewCBCMAC(b, size).MAC(m) },
			func(size int, m []byte) ([]byte, error) { return CBCMAC(c.nb, c.key, PadM2, size, m) })
		sweep(t, "NewEMAC/"+c.name, sizes,
			func(size int, m []byte) []byte { return cbcmac.NewEMAC(c.nb, c.key, c.key2, size).MAC(m) },
			func(size int, m []byte) ([]byte, error) { return EMAC(c.nb, c.key, c.key2, PadM2, size, m) })
		sweep(t, "NewANSIRetailMAC/"+c.name, sizes,
			func(size int, m []byte) []byte { return cbcmac.NewANSIRetailMAC(c.nb, c.key, c.key2, size).MAC(m) },
			func(size int, m []byte) ([]byte, error) { return ANSIRetailMAC(c.nb, c.key, c.key2, PadM2, size, m) })
		sweep(t, "NewMACDES/"+c.name, sizes,
			func(size int, m []byte) []byte { return cbcmac.NewMACDES(c.nb, c.key, c.key2, size).MAC(m) },
			func(size int, m []byte) ([]byte, error) { return MACDES(c.nb, c.key, c.key2, PadM2, size, m) })
		if len(c.key) == c.n {
			sweep(t, "NewLMAC/"+c.name, []int{c.n},
				func(size int, m []byte) []byte { return cbcmac.NewLMAC(c.nb, c.key, size).MAC(m) },
				func(size int, m []byte) ([]byte, error) { return LMAC(c.nb, c.key, PadM2, size, m) })
		}
	}
}

// (b) LMAC ignores the requested tag size (Size() and the returned slice).
func TestDefectLMACSize(t *testing.T) {
	for _, c := range ciphers {
		if len(c.key) != c.n {
			continue
		}
		if got := cbcmac.NewLMAC(c.nb, c.key, c.n/2).Size(); got != c.n/2 {
			t.Errorf("DISAGREE LMAC/%s: NewLMAC(size=%d).Size() = %d", c.name, c.n/2, got)
		}
		for _, p := range pads {
			if p.id == PadM3 && c.n == 8 {
				continue
			}
			a := paddedAlgs[4]
			sweep(t, "LMAC/"+c.name+"/"+p.name, upTo(c.n-1),
				func(size int, m []byte) []byte { return a.lib(c, p, size, m) },
				func(size int, m []byte) ([]byte, error) { return a.model(c, p, size, m) })
		}
	}
}

// LMAC with len(key) != block length. The model's derivation for this case is
// from memory of ISO/IEC 9797-1:2011 (derived keys have the length of the
// master key); the library always derives block length keys.
func TestDefectLMACKeyLength(t *testing.T) {
	for _, c := range ciphers {
		if len(c.key) == c.n {
			continue
		}
		a := paddedAlgs[4]
		sweep(t, "LMAC/"+c.name+"/M2 (key "+fmt.Sprint(len(c.key))+" bytes, block "+fmt.Sprint(c.n)+")", []int{c.n},
			func(size int, m []byte) []byte { return a.lib(c, pads[0], size, m) },
			func(size int, m []byte) ([]byte, error) { return a.model(c, pads[0], size, m) })
	}
}

// (d) Padding method 3 on 8 byte blocks: the library writes the length at byte
// offset 8 (on top of the first data block) instead of into the 8 byte block L.
func TestDefectM3On8ByteBlocks(t *testing.T) {
	for _, a := range paddedAlgs {
		for _, c := range ciphers {
			if c.n != 8 || (a.name == "LMAC" && len(c.key) != c.n) {
				continue
			}
			sizes := upTo(c.n)
			if a.name == "LMAC" {
				sizes = []int{c.n}
			}
			sweep(t, a.name+"/"+c.name+"/M3", sizes,
				func(size int, m []byte) []byte { return a.lib(c, pads[1], size, m) },
				func(size int, m []byte) ([]byte, error) { return a.model(c, pads[1], size, m) })
		}
	}
}

// (d) Source slice with spare capacity. A MAC must not write to its input nor
// to the memory behind it.
func TestDefectSpareCapacity(t *testing.T) {
	for _, c := range []ciph{ciphers[0], ciphers[3]} { // SM4, DES
		b, _ := c.nb(c.key)
		for _, p := range pads {
			var panics, wrongTag, msgChanged, behind mismatch
			for l := 0; l <= 100; l++ {
				msg := message(l)
				buf := bytes.Repeat([]byte{0xEE}, l+64) // message followed by 64 bytes of other live data
				copy(buf, msg)
				in := buf[:l]
				// Judge the tag against what the library itself returns for a src without spare
				// capacity, so that this test shows the aliasing hazard only.
				want := cbcmac.NewCBCMACWithPadding(b, c.n, p.f).MAC(exact(msg))
				got, pn := try(func() []byte { return cbcmac.NewCBCMACWithPadding(b, c.n, p.f).MAC(in) })
				if pn != "" {
					panics.add(l, c.n, fmt.Sprintf("len=%d panic %s", l, pn))
					continue
				}
				if !bytes.Equal(got, want) {
					wrongTag.add(l, c.n, fmt.Sprintf("len=%d tag %x, with exact capacity %x", l, got, want))
				}
				if !bytes.Equal(in, msg) {
					msgChanged.add(l, c.n, fmt.Sprintf("len=%d caller's message now %x was %x", l, in, msg))
				}
				if !bytes.Equal(buf[l:], bytes.Repeat([]byte{0xEE}, 64)) {
					behind.add(l, c.n, fmt.Sprintf("len=%d bytes behind the message now %x...", l, buf[l:l+20]))
				}
			}
			what := "CBCMAC/" + c.name + "/" + p.name + " src=buf[:len] with cap>len: "
			panics.report(t, what+"PANIC")
			wrongTag.report(t, what+"TAG DIFFERS from exact-capacity call")
			msgChanged.report(t, what+"CALLER'S MESSAGE BYTES CHANGED")
			behind.report(t, what+"bytes behind the message overwritten")
		}
	}
}

// ------------------------------------------------- algorithms 5, 7, 8 (own padding)

func TestAgreeTRCBC(t *testing.T) {
	for _, c := range ciphers {
		b, _ := c.nb(c.key)
		sweep(t, "TRCBC/"+c.name, upTo(c.n),
			func(size int, m []byte) []byte { return cbcmac.NewTRCBCMAC(b, size).MAC(m) },
			func(size int, m []byte) ([]byte, error) { return TRCBCMAC(c.nb, c.key, size, m) })
	}
}

// One shot MAC() on a FRESH object, 16 byte blocks.
func TestAgreeCMACFresh(t *testing.T) {
	for _, c := range ciphers {
		if c.n != 16 {
			continue
		}
		b, _ := c.nb(c.key)
		sweep(t, "CMAC/"+c.name, upTo(c.n),
			func(size int, m []byte) []byte { return cbcmac.NewCMAC(b, size).MAC(m) },
			func(size int, m []byte) ([]byte, error) { return CMAC(c.nb, c.key, size, m) })
	}
}

// CMAC over a 64 bit block cipher needs R_64 = 0x1b; the library always uses
// 0x87. Visible whenever the top bit of L or K1 is set, e.g. NIST's own TDEA key.
func TestDefectCMAC64BitBlocks(t *testing.T) {
	nist, _ := hex.DecodeString("8aa83bf8cbda10620bc1bf19fbb6cd58bc313d4a371ca8b5")
	b, _ := des.NewTripleDESCipher(nist)
	msg, _ := hex.DecodeString("6bc1bee22e409f96e93d7e117393172aae2d8a57")
	if got := cbcmac.NewCMAC(b, 8).MAC(exact(msg)); hex.EncodeToString(got) != "743ddbe0ce2dc2ed" {
		t.Errorf("DISAGREE CMAC/TDEA NIST SP 800-38B example Mlen=160: lib=%x, NIST (and model) = 743ddbe0ce2dc2ed", got)
	}
	for _, c := range ciphers {
		if c.n != 8 {
			continue
		}
		for k := 0; k < 8; k++ { // several keys: the bug needs msb(L)=1 or msb(K1)=1
			key := seq(len(c.key), byte(16*k+3))
			b, _ := c.nb(key)
			sweep(t, fmt.Sprintf("CMAC/%s/key#%d", c.name, k), upTo(c.n),
				func(size int, m []byte) []byte { return cbcmac.NewCMAC(b, size).MAC(m) },
				func(size int, m []byte) ([]byte, error) { return CMAC(c.nb, key, size, m) })
		}
	}
}

// The library's CBCR must at least be exactly the "shift" variant.
func TestAgreeCBCRWithDefectModel(t *testing.T) {
	for _, c := range ciphers {
		b, _ := c.nb(c.key)
		sweep(t, "CBCR(lib) vs CBCRMACDefect/"+c.name, upTo(c.n),
			func(size int, m []byte) []byte { return cbcmac.NewCBCRMAC(b, size).MAC(m) },
			func(size int, m []byte) ([]byte, error) { return CBCRMACDefect(c.nb, c.key, size, m) })
	}
}

// (c) CBCR: the left rotation of the padded branch is a shift.
func TestDefectCBCR(t *testing.T) {
	for _, c := range ciphers {
		b, _ := c.nb(c.key)
		sweep(t, "CBCR/"+c.name, upTo(c.n),
			func(size int, m []byte) []byte { return cbcmac.NewCBCRMAC(b, size).MAC(m) },
			func(size int, m []byte) ([]byte, error) { return CBCRMAC(c.nb, c.key, size, m) })
	}
}

func TestDefectCBCRCollision(t *testing.T) {
	c := ciphers[0]
	b, _ := c.nb(c.key)
	m0 := []byte{0, 0, 0, 0, 0}
	m1 := []byte{0x80, 0, 0, 0, 0}
	l0 := cbcmac.NewCBCRMAC(b, 16).MAC(exact(m0))
	l1 := cbcmac.NewCBCRMAC(b, 16).MAC(exact(m1))
	r0, _ := CBCRMAC(c.nb, c.key, 16, m0)
	r1, _ := CBCRMAC(c.nb, c.key, 16, m1)
	if bytes.Equal(r0, r1) {
		t.Fatal("model collides, model is broken")
	}
	if bytes.Equal(l0, l1) {
		t.Errorf("DISAGREE CBCR: library tags of 0000000000 and 8000000000 collide (%x); model gives %x and %x", l0, r0, r1)
	}
}

// Which of the repository's own CBCR vectors fit rotate, which only shift.
func TestDefectCBCRRepoVectors(t *testing.T) {
	key, _ := hex.DecodeString("0123456789abcdeffedcba9876543210")
	b, _ := sm4.NewCipher(key)
	l := make([]byte, 16)
	b.Encrypt(l, l)
	t.Logf("e_K(0^128) = %x (top bit %d)", l, l[0]>>7)
	for i, v := range []struct {
		msg  []byte
		want string
	}{
		{nil, "909f5e6ed15518c01252302383c63e8c"},
		{[]byte("This is the test message for mac"), "e40ed79c3149a1c9d42f04c423049935"},
		{[]byte("This is the test message "), "a99d13013e892ee2c25be2daaa6c82e8"},
	} {
		rot, _ := CBCRMAC(sm4.NewCipher, key, 16, v.msg)
		shf, _ := CBCRMACDefect(sm4.NewCipher, key, 16, v.msg)
		t.Logf("repo CBCR vector #%d (len %d): want %s; rotate model %x match=%v; shift model %x match=%v",
			i, len(v.msg), v.want, rot, hex.EncodeToString(rot) == v.want, shf, hex.EncodeToString(shf) == v.want)
		if hex.EncodeToString(rot) != v.want {
			t.Errorf("DISAGREE repo CBCR vector #%d does not match the rotate model", i)
		}
	}
	// Observation: vector #0 would also be produced by a ROTATING implementation
	// that pads the empty message with 0^n instead of 1 0^(n-1).
	alt := make([]byte, 16)
	b.Encrypt(alt, rotl1(l))
	t.Logf("e_K(e_K(0) <<< 1) (rotate, empty message taken as the zero block) = %x", alt)
}

// ------------------------------------------------- CMAC as hash.Hash

func cmacModel(t *testing.T, c ciph, size int, m []byte) []byte {
	out, err := CMAC(c.nb, c.key, size, m)
	if err != nil {
		t.Fatal(err)
	}
	return out
}

func randomCuts(rng *rand.Rand, l int) []int {
	var cuts []int
	for l > 0 {
		k := 1 + rng.Intn(l)
		if rng.Intn(3) > 0 {
			k = min(l, 1+rng.Intn(20))
		}
		cuts = append(cuts, k)
		l -= k
	}
	return cuts
}

// Chunking logic of Write/Sum/Reset in isolation: with all-zero messages stale
// buffer bytes are zero and cannot hurt, so everything must agree.
func TestAgreeCMACWriteChunkingZeroMessages(t *testing.T) {
	rng := rand.New(rand.NewSource(2))
	for _, c := range ciphers {
		if c.n != 16 {
			continue
		}
		b, _ := c.nb(c.key)
		var mm mismatch
		var h hash.Hash = cbcmac.NewCMAC(b, 16) // one object for everything
		if h.Size() != 16 || h.BlockSize() != 16 {
			t.Errorf("Size/BlockSize = %d/%d", h.Size(), h.BlockSize())
		}
		for l := 0; l <= 100; l++ {
			for rep := 0; rep < 20; rep++ {
				h.Reset()
				cuts := randomCuts(rng, l)
				done := 0
				for _, k := range cuts {
					h.Write(make([]byte, k))
					done += k
					// Sum in the middle must be the MAC of the prefix and must not disturb the state.
					if got, want := h.Sum([]byte{1, 2}), cmacModel(t, c, 16, make([]byte, done)); !bytes.Equal(got[2:], want) || got[0] != 1 || got[1] != 2 {
						mm.add(l, 16, fmt.Sprintf("len=%d writes=%v after %d bytes lib=%x model=%x", l, cuts, done, got, want))
					}
				}
				if got, want := h.Sum(nil), cmacModel(t, c, 16, make([]byte, l)); !bytes.Equal(got, want) {
					mm.add(l, 16, fmt.Sprintf("len=%d writes=%v lib=%x model=%x", l, cuts, got, want))
				}
			}
		}
		mm.report(t, "CMAC zero messages, split writes, reused object/"+c.name)
	}
}

// Reuse is fine once the internal buffer has been scrubbed from outside
// (Write of a zero block, then Reset): stale bytes are the only reuse problem.
func TestAgreeCMACReuseAfterScrub(t *testing.T) {
	rng := rand.New(rand.NewSource(3))
	for _, c := range ciphers {
		if c.n != 16 {
			continue
		}
		b, _ := c.nb(c.key)
		h := cbcmac.NewCMAC(b, 16)
		var mm mismatch
		for i := 0; i < 500; i++ {
			l := rng.Intn(101)
			msg := message(l)
			h.Reset()
			h.Write(make([]byte, 16))
			h.Reset()
			h.Write(msg)
			if got, want := h.Sum(nil), cmacModel(t, c, 16, msg); !bytes.Equal(got, want) {
				mm.add(l, 16, fmt.Sprintf("iteration %d len=%d lib=%x model=%x", i, l, got, want))
			}
		}
		mm.report(t, "CMAC scrubbed reuse/"+c.name)
	}
}

// (a) CMAC folds stale buffer bytes into a short final block.
func TestDefectCMACStaleBuffer(t *testing.T) {
	rng := rand.New(rand.NewSource(1))
	for _, c := range ciphers {
		if c.n != 16 {
			continue
		}
		b, _ := c.nb(c.key)

		t.Run("FreshObjectWrite16Then5/"+c.name, func(t *testing.T) {
			msg := message(21)
			h := cbcmac.NewCMAC(b, 16)
			h.Write(msg[:16])
			h.Write(msg[16:])
			got, want := h.Sum(nil), cmacModel(t, c, 16, msg)
			one := cbcmac.NewCMAC(b, 16).MAC(exact(msg))
			if !bytes.Equal(got, want) {
				t.Errorf("DISAGREE CMAC Write(16)+Write(5) on fresh object: lib=%x model=%x (library's own fresh one-shot MAC()=%x)", got, want, one)
			}
		})

		t.Run("FreshObjectRandomSplits/"+c.name, func(t *testing.T) {
			var mm mismatch
			for l := 0; l <= 100; l++ {
				msg := message(l)
				for rep := 0; rep < 20; rep++ {
					var h hash.Hash = cbcmac.NewCMAC(b, 16)
					cuts := randomCuts(rng, l)
					rest := msg
					for _, k := range cuts {
						h.Write(rest[:k])
						rest = rest[k:]
					}
					if got, want := h.Sum(nil), cmacModel(t, c, 16, msg); !bytes.Equal(got, want) {
						mm.add(l, 16, fmt.Sprintf("len=%d writes=%v lib=%x model=%x", l, cuts, got, want))
					}
				}
			}
			mm.report(t, "CMAC fresh object, split writes/"+c.name)
		})

		t.Run("ResetWriteSumOnReusedObject/"+c.name, func(t *testing.T) {
			var mm mismatch
			h := cbcmac.NewCMAC(b, 16)
			for i := 0; i < 300; i++ {
				l := rng.Intn(101)
				msg := message(l)
				h.Reset()
				h.Write(msg)
				if got, want := h.Sum(nil), cmacModel(t, c, 16, msg); !bytes.Equal(got, want) {
					mm.add(l, 16, fmt.Sprintf("iteration %d len=%d lib=%x model=%x", i, l, got, want))
				}
			}
			mm.report(t, "CMAC Reset+Write+Sum on reused object/"+c.name)
		})

		t.Run("MACOnUsedObject/"+c.name, func(t *testing.T) {
			var mm mismatch
			for _, size := range upTo(16) {
				h := cbcmac.NewCMAC(b, size)
				for i := 0; i < 100; i++ {
					l := rng.Intn(101)
					msg := message(l)
					if got, want := h.MAC(exact(msg)), cmacModel(t, c, size, msg); !bytes.Equal(got, want) {
						mm.add(l, size, fmt.Sprintf("size=%d call %d len=%d lib=%x model=%x", size, i, l, got, want))
					}
				}
			}
			mm.report(t, "CMAC MAC() on previously used object/"+c.name)
		})

		t.Run("MAC16ThenMAC5/"+c.name, func(t *testing.T) {
			h := cbcmac.NewCMAC(b, 16)
			h.MAC(message(16))
			short := message(5)
			if got, want := h.MAC(short), cmacModel(t, c, 16, short); !bytes.Equal(got, want) {
				t.Errorf("DISAGREE CMAC MAC(16 bytes) then MAC(5 bytes) on same object: lib=%x model=%x", got, want)
			}
		})
	}
}
