// Package macm holds slow, obvious reference models of the eight block cipher
// MAC algorithms of GB/T 15852.1-2020 (ISO/IEC 9797-1:2011 algorithms 1..6
// plus TrCBC and CBCR). Every function is a pure function of its arguments,
// written from the definition of the construction; nothing is shared with
// github.com/emmansun/gmsm. Block ciphers are handed in by the caller.
//
// Notation (ISO/IEC 9797-1): n = block length, D_1..D_q = padded data blocks,
// H_0 = 0^n, H_i = e_K(D_i xor H_{i-1}), G = output transformation(H_q),
// MAC = leftmost m bits of G (m = 8*size).
package macm

import (
	"bytes"
	"crypto/aes"
	"crypto/cipher"
	"crypto/des"
	"encoding/hex"
	"errors"
	"fmt"
)

// NewBlock keys a block cipher.
type NewBlock func(key []byte) (cipher.Block, error)

// Padding selectors. 1, 2, 3 are the padding methods of ISO/IEC 9797-1 with the
// same numbers. PKCS7 and X923 are not MAC paddings of the standard; they are
// modelled only because the library accepts any padding.NewPaddingFunc.
const (
	PadNone  = 0   // no padding: len(msg) must be a positive multiple of n
	PadM1    = 1   // zeros, as few as possible (none if aligned); empty message -> one zero block
	PadM2    = 2   // one 1 bit (byte 0x80) then as few zeros as possible; ALWAYS adds 1..n bytes
	PadM3    = 3   // method 1 zeros on the right, then block L = bit length of msg (n byte big endian) on the left
	PadPKCS7 = 7   // p bytes of value p, p in 1..n
	PadX923  = 923 // p-1 zero bytes then one byte of value p, p in 1..n
)

// Pad returns a fresh slice holding msg padded to a positive multiple of n bytes.
func Pad(pad, n int, msg []byte) ([]byte, error) {
	out := append([]byte{}, msg...)
	p := n - len(msg)%n // 1..n
	switch pad {
	case PadNone:
		if len(msg) == 0 || len(msg)%n != 0 {
			return nil, errors.New("macm: unpadded message must be a positive multiple of the block size")
		}
	case PadM1, PadM3:
		for len(out) == 0 || len(out)%n != 0 {
			out = append(out, 0)
		}
		if pad == PadM3 {
			l := make([]byte, n)
			bitLen := uint64(len(msg)) * 8
			for i := 0; i < 8 && i < n; i++ {
				l[n-1-i] = byte(bitLen >> (8 * i))
			}
			out = append(l, out...)
		}
	case PadM2:
		out = append(out, 0x80)
		out = append(out, make([]byte, p-1)...)
	case PadPKCS7:
		out = append(out, bytes.Repeat([]byte{byte(p)}, p)...)
	case PadX923:
		out = append(out, make([]byte, p-1)...)
		out = append(out, byte(p))
	default:
		return nil, fmt.Errorf("macm: unknown padding %d", pad)
	}
	return out, nil
}

func checkSize(b cipher.Block, size int) error {
	if size < 1 || size > b.BlockSize() {
		return errors.New("macm: tag size must be 1..block size")
	}
	return nil
}

func xor(a, b []byte) []byte {
	out := make([]byte, len(a))
	for i := range a {
		out[i] = a[i] ^ b[i]
	}
	return out
}

func enc(b cipher.Block, x []byte) []byte {
	out := make([]byte, len(x))
	b.Encrypt(out, x)
	return out
}

func dec(b cipher.Block, x []byte) []byte {
	out := make([]byte, len(x))
	b.Decrypt(out, x)
	return out
}

// chain runs H_i = e_K(D_i xor H_{i-1}) over all whole blocks of d, starting from h.
func chain(b cipher.Block, h, d []byte) []byte {
	n := b.BlockSize()
	for ; len(d) > 0; d = d[n:] {
		h = enc(b, xor(h, d[:n]))
	}
	return h
}

// CBCMAC is MAC algorithm 1: G = H_q.
func CBCMAC(nb NewBlock, key []byte, pad int, size int, msg []byte) ([]byte, error) {
	k, err := nb(key)
	if err != nil {
		return nil, err
	}
	if err := checkSize(k, size); err != nil {
		return nil, err
	}
	d, err := Pad(pad, k.BlockSize(), msg)
	if err != nil {
		return nil, err
	}
	g := chain(k, make([]byte, k.BlockSize()), d)
	return g[:size], nil
}

// EMAC is MAC algorithm 2: G = e_K'(H_q). key1 = K, key2 = K' (given, not derived here).
func EMAC(nb NewBlock, key1, key2 []byte, pad int, size int, msg []byte) ([]byte, error) {
	k1, k2, d, err := twoKeys(nb, key1, key2, pad, size, msg)
	if err != nil {
		return nil, err
	}
	g := enc(k2, chain(k1, make([]byte, k1.BlockSize()), d))
	return g[:size], nil
}

// ANSIRetailMAC is MAC algorithm 3: G = e_K(d_K'(H_q)). key1 = K, key2 = K'.
func ANSIRetailMAC(nb NewBlock, key1, key2 []byte, pad int, size int, msg []byte) ([]byte, error) {
	k1, k2, d, err := twoKeys(nb, key1, key2, pad, size, msg)
	if err != nil {
		return nil, err
	}
	g := enc(k1, dec(k2, chain(k1, make([]byte, k1.BlockSize()), d)))
	return g[:size], nil
}

// MACDES is MAC algorithm 4: H_1 = e_K”(e_K(D_1)), H_i as usual under K,
// G = e_K'(H_q). key1 = K, key2 = K', and K” is K' with alternate 4 bit
// substrings complemented starting with the first four bits (every key byte
// xor 0xF0), which is the derivation ISO/IEC 9797-1 prescribes for K”.
func MACDES(nb NewBlock, key1, key2 []byte, pad int, size int, msg []byte) ([]byte, error) {
	k1, k2, d, err := twoKeys(nb, key1, key2, pad, size, msg)
	if err != nil {
		return nil, err
	}
	k3, err := nb(xor(key2, bytes.Repeat([]byte{0xF0}, len(key2))))
	if err != nil {
		return nil, err
	}
	n := k1.BlockSize()
	h1 := enc(k3, enc(k1, d[:n]))
	g := enc(k2, chain(k1, h1, d[n:]))
	return g[:size], nil
}

func twoKeys(nb NewBlock, key1, key2 []byte, pad, size int, msg []byte) (k1, k2 cipher.Block, d []byte, err error) {
	if k1, err = nb(key1); err != nil {
		return
	}
	if k2, err = nb(key2); err != nil {
		return
	}
	if err = checkSize(k1, size); err != nil {
		return
	}
	d, err = Pad(pad, k1.BlockSize(), msg)
	return
}

// shl1 is x << 1 over the whole string (most significant bit first); the bit
// shifted out is returned separately.
func shl1(x []byte) (out []byte, carry byte) {
	out = make([]byte, len(x))
	for i := range x {
		out[i] = x[i] << 1
		if i+1 < len(x) {
			out[i] |= x[i+1] >> 7
		}
	}
	return out, x[0] >> 7
}

func rotl1(x []byte) []byte {
	out, carry := shl1(x)
	out[len(out)-1] |= carry
	return out
}

func rotr1(x []byte) []byte {
	out := make([]byte, len(x))
	for i := range x {
		out[i] = x[i] >> 1
		if i > 0 {
			out[i] |= x[i-1] << 7
		}
	}
	out[0] |= x[len(x)-1] << 7
	return out
}

// CMAC is MAC algorithm 5 = NIST SP 800-38B / RFC 4493 (OMAC1).
// L = e_K(0^n); K1 = L*x; K2 = K1*x in GF(2^n) with R_128 = 0x87, R_64 = 0x1b.
// Last block: complete -> M_q xor K1; incomplete or empty -> (M_q || 1 0*) xor K2.
func CMAC(nb NewBlock, key []byte, size int, msg []byte) ([]byte, error) {
	k, err := nb(key)
	if err != nil {
		return nil, err
	}
	if err := checkSize(k, size); err != nil {
		return nil, err
	}
	n := k.BlockSize()
	var rb byte
	switch n {
	case 16:
		rb = 0x87
	case 8:
		rb = 0x1b
	default:
		return nil, errors.New("macm: CMAC is defined for 64 and 128 bit blocks only")
	}
	dbl := func(x []byte) []byte {
		out, carry := shl1(x)
		if carry == 1 {
			out[n-1] ^= rb
		}
		return out
	}
	k1 := dbl(enc(k, make([]byte, n)))
	k2 := dbl(k1)

	var d []byte
	if len(msg) > 0 && len(msg)%n == 0 {
		d = append([]byte{}, msg...)
		copy(d[len(d)-n:], xor(d[len(d)-n:], k1))
	} else {
		d, _ = Pad(PadM2, n, msg)
		copy(d[len(d)-n:], xor(d[len(d)-n:], k2))
	}
	return chain(k, make([]byte, n), d)[:size], nil
}

// LMACKeys derives the two working keys of MAC algorithm 6 from the master key:
// S = e_K(CT_1) || e_K(CT_2) || ... with CT_i the n byte big endian counter i;
// K' is the first len(key) bytes made of whole counter blocks, K” the next.
// For len(key) == n this is K' = e_K(0..01), K” = e_K(0..02), which is what
// the GB/T 15852.1 appendix vectors confirm. For len(key) != n the layout is
// written from memory of ISO/IEC 9797-1:2011 key derivation and is UNVERIFIED.
func LMACKeys(nb NewBlock, key []byte) (k1, k2 []byte, err error) {
	k, err := nb(key)
	if err != nil {
		return nil, nil, err
	}
	n := k.BlockSize()
	t := (len(key) + n - 1) / n // counter blocks per derived key
	var s []byte
	for i := 1; i <= 2*t; i++ {
		ct := make([]byte, n)
		ct[n-1] = byte(i)
		s = append(s, enc(k, ct)...)
	}
	return s[:len(key)], s[t*n : t*n+len(key)], nil
}

// LMAC is MAC algorithm 6: CBC-MAC under K' where the last block is encrypted
// under K” instead: H_q = e_K”(D_q xor H_{q-1}), G = H_q.
func LMAC(nb NewBlock, key []byte, pad int, size int, msg []byte) ([]byte, error) {
	key1, key2, err := LMACKeys(nb, key)
	if err != nil {
		return nil, err
	}
	k1, k2, d, err := twoKeys(nb, key1, key2, pad, size, msg)
	if err != nil {
		return nil, err
	}
	n := k1.BlockSize()
	h := chain(k1, make([]byte, n), d[:len(d)-n])
	g := enc(k2, xor(h, d[len(d)-n:]))
	return g[:size], nil
}

// TRCBCMAC is MAC algorithm 7 (TrCBC, Zhang/Wu/Wang/Sui): plain CBC-MAC of the
// message; if the message is a positive number of whole blocks it is not padded
// and the tag is the LEFTMOST size bytes, otherwise it is padded with 1 0* and
// the tag is the RIGHTMOST size bytes.
func TRCBCMAC(nb NewBlock, key []byte, size int, msg []byte) ([]byte, error) {
	k, err := nb(key)
	if err != nil {
		return nil, err
	}
	if err := checkSize(k, size); err != nil {
		return nil, err
	}
	n := k.BlockSize()
	if len(msg) > 0 && len(msg)%n == 0 {
		return chain(k, make([]byte, n), msg)[:size], nil
	}
	d, _ := Pad(PadM2, n, msg)
	return chain(k, make([]byte, n), d)[n-size:], nil
}

// CBCRMAC is MAC algorithm 8 (CBCR0, Zhang/Wu/Zhang/Wang): H_0 = e_K(0^n),
// H_i = e_K(H_{i-1} xor D_i) for i < q, then
//
//	whole last block:           G = e_K((H_{q-1} xor D_q) >>> 1)
//	short/empty, padded 1 0*:   G = e_K((H_{q-1} xor D_q) <<< 1)
//
// where >>> and <<< are one bit ROTATIONS of the n bit string.
func CBCRMAC(nb NewBlock, key []byte, size int, msg []byte) ([]byte, error) {
	return cbcr(nb, key, size, msg, rotl1)
}

// CBCRMACDefect is CBCRMAC with the library's deviation: in the padded branch
// the one bit left rotation is a left SHIFT (the top bit is dropped).
func CBCRMACDefect(nb NewBlock, key []byte, size int, msg []byte) ([]byte, error) {
	return cbcr(nb, key, size, msg, func(x []byte) []byte { out, _ := shl1(x); return out })
}

func cbcr(nb NewBlock, key []byte, size int, msg []byte, left func([]byte) []byte) ([]byte, error) {
	k, err := nb(key)
	if err != nil {
		return nil, err
	}
	if err := checkSize(k, size); err != nil {
		return nil, err
	}
	n := k.BlockSize()
	d, turn := msg, rotr1
	if len(msg) == 0 || len(msg)%n != 0 {
		d, _ = Pad(PadM2, n, msg)
		turn = left
	}
	h := chain(k, enc(k, make([]byte, n)), d[:len(d)-n])
	return enc(k, turn(xor(h, d[len(d)-n:])))[:size], nil
}

// SelfTest checks the models against published vectors: RFC 4493 AES-128 CMAC,
// NIST SP 800-38B three key TDEA CMAC, and the GB/T 15852.1-2020 appendix B
// SM4 vectors as quoted in the library's cbcmac_test.go, and a few DES examples
// of the ISO/IEC 9797-1 annex (these also pin padding methods 1 and 3 for 8 byte
// blocks). sm4 must key SM4.
// CBCR vector "empty message" of that file is NOT included: it only holds for
// CBCRMACDefect (left shift), see the package tests.
func SelfTest(sm4 NewBlock) error {
	h := func(s string) []byte {
		b, err := hex.DecodeString(s)
		if err != nil {
			panic(err)
		}
		return b
	}
	check := func(name string, got []byte, err error, want string) error {
		if err != nil {
			return fmt.Errorf("macm selftest %s: %v", name, err)
		}
		if !bytes.Equal(got, h(want)) {
			return fmt.Errorf("macm selftest %s: got %x want %s", name, got, want)
		}
		return nil
	}
	aesNB := func(key []byte) (cipher.Block, error) { return aes.NewCipher(key) }
	tdesNB := func(key []byte) (cipher.Block, error) { return des.NewTripleDESCipher(key) }

	m := h("6bc1bee22e409f96e93d7e117393172aae2d8a571e03ac9c9eb76fac45af8e5130c81c46a35ce411e5fbc1191a0a52eff69f2445df4f9b17ad2b417be66c3710")
	ak := h("2b7e151628aed2a6abf7158809cf4f3c")
	tk := h("8aa83bf8cbda10620bc1bf19fbb6cd58bc313d4a371ca8b5")
	for _, v := range []struct {
		nb   NewBlock
		key  []byte
		n    int
		want string
	}{
		{aesNB, ak, 0, "bb1d6929e95937287fa37d129b756746"},
		{aesNB, ak, 16, "070a16b46b4d4144f79bdd9dd04a287c"},
		{aesNB, ak, 40, "dfa66747de9ae63030ca32611497c827"},
		{aesNB, ak, 64, "51f0bebf7e3b9d92fc49741779363cfe"},
		{tdesNB, tk, 0, "b7a688e122ffaf95"},
		{tdesNB, tk, 8, "8e8f293136283797"},
		{tdesNB, tk, 20, "743ddbe0ce2dc2ed"},
		{tdesNB, tk, 32, "33e6b1092400eae5"},
	} {
		got, err := CMAC(v.nb, v.key, len(v.want)/2, m[:v.n])
		if err := check(fmt.Sprintf("CMAC/%d/%d", len(v.key), v.n), got, err, v.want); err != nil {
			return err
		}
	}

	type keys struct {
		nb     NewBlock
		k1, k2 []byte
	}
	// GB/T 15852.1-2020 appendix B (SM4), as quoted by the library's tests.
	gb := keys{sm4, h("0123456789abcdeffedcba9876543210"), h("4149d2aded9456681ec8b511d9e7ee04")}
	m32 := []byte("This is the test message for mac")
	m25 := []byte("This is the test message ")
	// ISO/IEC 9797-1 annex examples (DES, MAC of 32 bits). Quoted from memory;
	// a 32 bit match with an independently written model is its own evidence.
	iso := keys{func(key []byte) (cipher.Block, error) { return des.NewCipher(key) }, h("0123456789abcdef"), h("fedcba9876543210")}
	ds1 := []byte("Now is the time for all ")
	ds2 := []byte("Now is the time for it")
	for _, v := range []struct {
		k    keys
		name string
		pad  int
		msg  []byte
		want string
	}{
		{gb, "CBCMAC", PadM2, nil, "8c338e5a27e349beae39214feda97099"},
		{gb, "CBCMAC", PadM2, m32, "4b6553af3c4e27448412315ac7849535"},
		{gb, "CBCMAC", PadM2, m25, "421ad1690aa152e2846fa2a5d83445a9"},
		{gb, "CBCMAC", PadM3, m32, "71af7e4553404cbcc4f2973cdbd0f063"},
		{gb, "CBCMAC", PadM3, m25, "6a4a86f5b5e468dad27df25fb9d9be16"},
		{gb, "EMAC", PadM2, nil, "2cf6edf63cce144489eaddf07b4938db"},
		{gb, "EMAC", PadM2, m32, "e423e35599afd948aec50bdee838e9ea"},
		{gb, "EMAC", PadM2, m25, "f02625cead008d4efbf3f0b2b0c2a75b"},
		{gb, "EMAC", PadM3, m32, "4003ba1b6adc53a826e82fcea16afaac"},
		{gb, "EMAC", PadM3, m25, "ffd5f1f2e5eda5cbf402d65a5b0b1953"},
		{gb, "ANSI", PadM2, nil, "b4736be9a174faa34db1e9f1dacd5d62"},
		{gb, "ANSI", PadM2, m32, "51e9928c2238330c3231b8752a9afd7f"},
		{gb, "ANSI", PadM2, m25, "197247229ce9d7b6ae405bf885b27057"},
		{gb, "ANSI", PadM3, m32, "7cd48c4242e45575e51aaf0dcc7a208c"},
		{gb, "ANSI", PadM3, m25, "3c430f1ea43b540c68457e249c46f1db"},
		{gb, "MACDES", PadM2, nil, "0c560096b609ed0eaa39afd6e2666511"},
		{gb, "MACDES", PadM2, m32, "7e1a9a5e0ef0947f25cb9485261c985c"},
		{gb, "MACDES", PadM2, m25, "949476d35f17261e1fb8c4396d62dc05"},
		{gb, "MACDES", PadM3, m32, "28a70d6bccf74422462058abbc27f6ae"},
		{gb, "MACDES", PadM3, m25, "c9d34e16c49ab64357a2618debd1032f"},
		{gb, "CMAC", 0, nil, "29e154322e5c7bd8ee6a25ba549b24bc"},
		{gb, "CMAC", 0, m32, "692c437100f3b5ee2b8abcef373d990c"},
		{gb, "CMAC", 0, m25, "4738a6c760b280fc0c8a8af3886e9f5d"},
		{gb, "LMAC", PadM2, nil, "cd7ed27964e257c077f055f8ee383c3f"},
		{gb, "LMAC", PadM2, m32, "a0c465ee5896972f8337aa1f92c99d10"},
		{gb, "LMAC", PadM2, m25, "60dd955ed0ca3d7a64227174dd98dd81"},
		{gb, "LMAC", PadM3, m32, "43050d51c656ae60be273fbea4870ef1"},
		{gb, "LMAC", PadM3, m25, "61e00049e26962a36fedba8d4f52f0ad"},
		{gb, "TRCBC", 0, nil, "ae39214feda97099"},
		{gb, "TRCBC", 0, m32, "16e02904efb765b7"},
		{gb, "TRCBC", 0, m25, "846fa2a5d83445a9"},
		{gb, "CBCR", 0, m32, "e40ed79c3149a1c9d42f04c423049935"},
		{gb, "CBCR", 0, m25, "a99d13013e892ee2c25be2daaa6c82e8"},
		{iso, "CBCMAC", PadM1, ds1, "70a30640"},
		{iso, "CBCMAC", PadM1, ds2, "e45b3ad2"},
		{iso, "CBCMAC", PadM3, ds1, "2c58fb8f"},
		{iso, "ANSI", PadM1, ds1, "a1c72e74"},
		{iso, "ANSI", PadM1, ds2, "2e2b1428"},
		{iso, "ANSI", PadM2, ds1, "e9086230"},
		{iso, "ANSI", PadM3, ds2, "c59f7eed"},
	} {
		size := len(v.want) / 2
		nb, k1, k2 := v.k.nb, v.k.k1, v.k.k2
		var got []byte
		var err error
		switch v.name {
		case "CBCMAC":
			got, err = CBCMAC(nb, k1, v.pad, size, v.msg)
		case "EMAC":
			got, err = EMAC(nb, k1, k2, v.pad, size, v.msg)
		case "ANSI":
			got, err = ANSIRetailMAC(nb, k1, k2, v.pad, size, v.msg)
		case "MACDES":
			got, err = MACDES(nb, k1, k2, v.pad, size, v.msg)
		case "CMAC":
			got, err = CMAC(nb, k1, size, v.msg)
		case "LMAC":
			got, err = LMAC(nb, k1, v.pad, size, v.msg)
		case "TRCBC":
			got, err = TRCBCMAC(nb, k1, size, v.msg)
		case "CBCR":
			got, err = CBCRMAC(nb, k1, size, v.msg)
		}
		if err := check(fmt.Sprintf("%s/pad%d/len%d", v.name, v.pad, len(v.msg)), got, err, v.want); err != nil {
			return err
		}
	}
	return nil
}
