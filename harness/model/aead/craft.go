package aead

import (
	"crypto/cipher"
	"encoding/binary"
)

func gfInverse(h block) block {
	r := block{0x80} // the polynomial 1
	sq := h
	for i := 1; i < 128; i++ {
		sq = gfMul(sq, sq)
		r = gfMul(r, sq)
	}
	return r
}

// NonceForJ0 returns the 16-byte GCM nonce N for which the pre-counter block
// J0 = GHASH_H(N || 0^64 || [128]_64) = ((N*H) ^ L)*H equals j0 (GHASH is
// invertible for H != 0). Used to drive the 32-bit counter across its wrap.
func NonceForJ0(b cipher.Block, j0 []byte) []byte {
	h := encrypt(b, block{})
	hi := gfInverse(h)
	var l, j block
	copy(j[:], j0)
	binary.BigEndian.PutUint64(l[8:], 128)
	n := gfMul(xor(gfMul(j, hi), l), hi)
	if gcmJ0(h, n[:]) != j {
		panic("aead model: nonce crafting failed")
	}
	return n[:]
}
