// Package aead is a slow, obvious reference implementation of GCM
// (NIST SP 800-38D) and CCM (RFC 3610 / NIST SP 800-38C) over any block cipher
// with a 16-byte block. Everything is written straight from the specifications:
// GF(2^128) multiplication is bit serial (SP 800-38D algorithm 1), there are no
// tables and no shared code with github.com/emmansun/gmsm or crypto/cipher's
// AEAD implementations.
package aead

import (
	"crypto/cipher"
	"encoding/binary"
)

const blockSize = 16

type block = [blockSize]byte

func encrypt(b cipher.Block, in block) (out block) {
	if b.BlockSize() != blockSize {
		panic("aead model: block size must be 16")
	}
	b.Encrypt(out[:], in[:])
	return out
}

func xor(x, y block) (z block) {
	for i := range z {
		z[i] = x[i] ^ y[i]
	}
	return z
}

// equal compares two tags; the model makes no constant time claim.
func equal(x, y []byte) bool {
	if len(x) != len(y) {
		return false
	}
	for i := range x {
		if x[i] != y[i] {
			return false
		}
	}
	return true
}

// ---------------------------------------------------------------- GCM

// bit returns bit i of x where bit 0 is the leftmost (most significant) bit of
// x[0], the convention of SP 800-38D 6.3.
func bit(x block, i int) byte { return (x[i/8] >> (7 - i%8)) & 1 }

// shiftRight is V >> 1 on the 128-bit string V.
func shiftRight(v block) (r block) {
	var carry byte
	for i := 0; i < blockSize; i++ {
		r[i] = v[i]>>1 | carry<<7
		carry = v[i] & 1
	}
	return r
}

// gfMul is SP 800-38D algorithm 1: Z = X * Y in GF(2^128), R = 11100001||0^120.
func gfMul(x, y block) (z block) {
	v := y
	for i := 0; i < 128; i++ {
		if bit(x, i) == 1 {
			z = xor(z, v)
		}
		lsb := v[blockSize-1] & 1
		v = shiftRight(v)
		if lsb == 1 {
			v[0] ^= 0xe1
		}
	}
	return z
}

// pad16 returns x followed by the minimum number of zero bytes that makes the
// length a multiple of 16.
func pad16(x []byte) []byte {
	out := append([]byte{}, x...)
	for len(out)%blockSize != 0 {
		out = append(out, 0)
	}
	return out
}

// ghash is SP 800-38D algorithm 2. len(x) must be a multiple of 16.
func ghash(h block, x []byte) (y block) {
	if len(x)%blockSize != 0 {
		panic("aead model: ghash input not block aligned")
	}
	for ; len(x) > 0; x = x[blockSize:] {
		y = gfMul(xor(y, block(x[:blockSize])), h)
	}
	return y
}

// inc32 increments the rightmost 32 bits of x modulo 2^32 and leaves the
// leftmost 96 bits alone (SP 800-38D 6.2).
func inc32(x block) block {
	binary.BigEndian.PutUint32(x[12:], binary.BigEndian.Uint32(x[12:])+1)
	return x
}

// gctr is SP 800-38D algorithm 3.
func gctr(b cipher.Block, icb block, x []byte) []byte {
	out := make([]byte, len(x))
	cb := icb
	for i := 0; i < len(x); i += blockSize {
		ks := encrypt(b, cb)
		for j := i; j < i+blockSize && j < len(x); j++ {
			out[j] = x[j] ^ ks[j-i]
		}
		cb = inc32(cb)
	}
	return out
}

func be64(v uint64) []byte { return binary.BigEndian.AppendUint64(nil, v) }

// gcmJ0 is step 2 of SP 800-38D algorithm 4.
func gcmJ0(h block, nonce []byte) (j0 block) {
	if len(nonce) == 0 {
		panic("aead model: empty GCM nonce")
	}
	if len(nonce) == 12 {
		copy(j0[:], nonce)
		j0[15] = 1
		return j0
	}
	in := pad16(nonce)
	in = append(in, be64(0)...)
	in = append(in, be64(uint64(len(nonce))*8)...)
	return ghash(h, in)
}

// gcmTag is steps 4-6 of SP 800-38D algorithm 4 (the full 16-byte tag).
func gcmTag(b cipher.Block, h, j0 block, aad, ciphertext []byte) block {
	in := pad16(aad)
	in = append(in, pad16(ciphertext)...)
	in = append(in, be64(uint64(len(aad))*8)...)
	in = append(in, be64(uint64(len(ciphertext))*8)...)
	s := ghash(h, in)
	return block(gctr(b, j0, s[:]))
}

func checkGCMTagSize(tagSize int) {
	if tagSize < 12 || tagSize > 16 {
		panic("aead model: GCM tag size must be in 12..16")
	}
}

// GCMSeal returns ciphertext||tag (SP 800-38D algorithm 4). nonce may have any
// length >= 1, tagSize is in 12..16 and the tag is the leftmost tagSize bytes
// of the full tag.
func GCMSeal(b cipher.Block, nonce, plaintext, aad []byte, tagSize int) []byte {
	checkGCMTagSize(tagSize)
	h := encrypt(b, block{})
	j0 := gcmJ0(h, nonce)
	c := gctr(b, inc32(j0), plaintext)
	t := gcmTag(b, h, j0, aad, c)
	return append(c, t[:tagSize]...)
}

// GCMOpen is SP 800-38D algorithm 5. ok is false (and plaintext nil) when the
// input is shorter than the tag or the tag does not verify.
func GCMOpen(b cipher.Block, nonce, sealed, aad []byte, tagSize int) (plaintext []byte, ok bool) {
	checkGCMTagSize(tagSize)
	if len(sealed) < tagSize {
		return nil, false
	}
	c, tag := sealed[:len(sealed)-tagSize], sealed[len(sealed)-tagSize:]
	h := encrypt(b, block{})
	j0 := gcmJ0(h, nonce)
	t := gcmTag(b, h, j0, aad, c)
	if !equal(t[:tagSize], tag) {
		return nil, false
	}
	return gctr(b, inc32(j0), c), true
}

// ---------------------------------------------------------------- CCM

func checkCCMParams(nonce []byte, tagSize int) {
	if len(nonce) < 7 || len(nonce) > 13 {
		panic("aead model: CCM nonce size must be in 7..13")
	}
	if tagSize < 4 || tagSize > 16 || tagSize%2 != 0 {
		panic("aead model: CCM tag size must be one of 4,6,8,10,12,14,16")
	}
}

// ccmLenField encodes v in L = 15-len(nonce) bytes, most significant first.
func ccmLenField(l int, v uint64) []byte {
	if l < 8 && v>>(8*uint(l)) != 0 {
		panic("aead model: CCM message too long for this nonce size")
	}
	return be64(v)[8-l:]
}

// ccmAadLen is the encoding of l(a) from RFC 3610 section 2.2.
func ccmAadLen(n uint64) []byte {
	switch {
	case n == 0:
		return nil
	case n < 0xff00: // 2^16 - 2^8
		return []byte{byte(n >> 8), byte(n)}
	case n < 1<<32:
		return append([]byte{0xff, 0xfe}, be64(n)[4:]...)
	default:
		return append([]byte{0xff, 0xff}, be64(n)...)
	}
}

// ccmCtrBlock is A_i of RFC 3610 section 2.3: flags = L-1, nonce, counter i.
func ccmCtrBlock(nonce []byte, i uint64) (a block) {
	l := 15 - len(nonce)
	a[0] = byte(l - 1)
	copy(a[1:], nonce)
	copy(a[1+len(nonce):], ccmLenField(l, i))
	return a
}

// ccmMAC is RFC 3610 section 2.2: the CBC-MAC value T (first tagSize bytes of
// X_n+1) over B_0, the encoded and padded aad and the padded message.
func ccmMAC(b cipher.Block, nonce, msg, aad []byte, tagSize int) []byte {
	l := 15 - len(nonce)
	var b0 block
	if len(aad) > 0 {
		b0[0] |= 64 // Adata
	}
	b0[0] |= byte((tagSize-2)/2) << 3 // M'
	b0[0] |= byte(l - 1)              // L'
	copy(b0[1:], nonce)
	copy(b0[1+len(nonce):], ccmLenField(l, uint64(len(msg))))

	blocks := append([]byte{}, b0[:]...)
	if len(aad) > 0 {
		blocks = append(blocks, pad16(append(ccmAadLen(uint64(len(aad))), aad...))...)
	}
	blocks = append(blocks, pad16(msg)...)

	var x block
	for ; len(blocks) > 0; blocks = blocks[blockSize:] {
		x = encrypt(b, xor(x, block(blocks[:blockSize])))
	}
	return x[:tagSize]
}

// ccmCTR is RFC 3610 section 2.3 for the message: S_1, S_2, ... xor msg.
func ccmCTR(b cipher.Block, nonce, msg []byte) []byte {
	out := make([]byte, len(msg))
	for i := 0; i < len(msg); i += blockSize {
		s := encrypt(b, ccmCtrBlock(nonce, uint64(i/blockSize)+1))
		for j := i; j < i+blockSize && j < len(msg); j++ {
			out[j] = msg[j] ^ s[j-i]
		}
	}
	return out
}

// CCMSeal returns ciphertext||U where U = T xor first tagSize bytes of S_0.
func CCMSeal(b cipher.Block, nonce, plaintext, aad []byte, tagSize int) []byte {
	checkCCMParams(nonce, tagSize)
	t := ccmMAC(b, nonce, plaintext, aad, tagSize)
	s0 := encrypt(b, ccmCtrBlock(nonce, 0))
	out := ccmCTR(b, nonce, plaintext)
	for i := range t {
		out = append(out, t[i]^s0[i])
	}
	return out
}

// CCMOpen is RFC 3610 section 2.5/2.6. ok is false (and plaintext nil) when
// the input is shorter than the tag or the tag does not verify.
func CCMOpen(b cipher.Block, nonce, sealed, aad []byte, tagSize int) (plaintext []byte, ok bool) {
	checkCCMParams(nonce, tagSize)
	if len(sealed) < tagSize {
		return nil, false
	}
	c, u := sealed[:len(sealed)-tagSize], sealed[len(sealed)-tagSize:]
	msg := ccmCTR(b, nonce, c)
	t := ccmMAC(b, nonce, msg, aad, tagSize)
	s0 := encrypt(b, ccmCtrBlock(nonce, 0))
	for i := range t {
		t[i] ^= s0[i]
	}
	if !equal(t, u) {
		return nil, false
	}
	return msg, true
}
