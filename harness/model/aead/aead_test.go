package aead

import (
	"bytes"
	"crypto/aes"
	"crypto/cipher"
	"encoding/binary"
	"fmt"
	"math/rand"
	"testing"

	gmcipher "github.com/emmansun/gmsm/cipher"
	"github.com/emmansun/gmsm/sm4"

	"verif/harness/model/sm4m"
)

const (
	maxPlain = 300
	maxAAD   = 70
)

func TestSelf(t *testing.T) {
	if err := SelfTest(); err != nil {
		t.Fatal(err)
	}
}

func randBytes(r *rand.Rand, n int) []byte {
	b := make([]byte, n)
	r.Read(b)
	return b
}

// blocks returns the library SM4 block (fused GCM on amd64/arm64) and the model
// SM4 block for the same key.
func blocks(t testing.TB, key []byte) (lib, model cipher.Block) {
	lib, err := sm4.NewCipher(key)
	if err != nil {
		t.Fatal(err)
	}
	model, err = sm4m.NewCipher(key)
	if err != nil {
		t.Fatal(err)
	}
	return lib, model
}

type sealFn func(nonce, pt, aad []byte) []byte
type openFn func(nonce, sealed, aad []byte) ([]byte, bool)

// compare runs one (nonce, plaintext, aad) case through library and model in
// both directions, plus three forgeries and a truncated input. No buffers alias.
func compare(r *rand.Rand, lib cipher.AEAD, seal sealFn, open openFn, nonce, pt, aad []byte) error {
	want := seal(nonce, pt, aad)
	got := lib.Seal(nil, nonce, pt, aad)
	if !bytes.Equal(got, want) {
		return fmt.Errorf("Seal: library %x model %x", got, want)
	}
	if p, err := lib.Open(nil, nonce, want, aad); err != nil || !bytes.Equal(p, pt) {
		return fmt.Errorf("library Open of model output: err=%v got %x want %x", err, p, pt)
	}
	if p, ok := open(nonce, got, aad); !ok || !bytes.Equal(p, pt) {
		return fmt.Errorf("model Open of library output: ok=%v got %x want %x", ok, p, pt)
	}
	// forgeries: one flipped bit in sealed / aad / nonce
	for _, what := range []string{"sealed", "aad", "nonce"} {
		s, a, n := append([]byte{}, want...), append([]byte{}, aad...), append([]byte{}, nonce...)
		target := map[string][]byte{"sealed": s, "aad": a, "nonce": n}[what]
		if len(target) == 0 {
			continue
		}
		target[r.Intn(len(target))] ^= 1 << r.Intn(8)
		p, err := lib.Open(nil, n, s, a)
		_, ok := open(n, s, a)
		if err == nil || p != nil || ok {
			return fmt.Errorf("forged %s: library err=%v plaintext=%x, model ok=%v", what, err, p, ok)
		}
	}
	// truncated below the tag size
	short := want[len(pt)+1:]
	if _, err := lib.Open(nil, nonce, short, aad); err == nil {
		return fmt.Errorf("library accepted input shorter than the tag")
	}
	if _, ok := open(nonce, short, aad); ok {
		return fmt.Errorf("model accepted input shorter than the tag")
	}
	return nil
}

// compareInPlace repeats Seal and Open with dst aliasing the input exactly,
// which the cipher.AEAD contract allows ("must overlap exactly or not at all").
// The buffer has spare capacity so the library cannot silently reallocate.
func compareInPlace(lib cipher.AEAD, seal sealFn, nonce, pt, aad []byte) error {
	want := seal(nonce, pt, aad)
	buf := make([]byte, 6+len(pt), 6+len(pt)+lib.Overhead())
	copy(buf, "prefix")
	copy(buf[6:], pt)
	out := lib.Seal(buf[:6], nonce, buf[6:], aad)
	if &out[0] != &buf[0] {
		return fmt.Errorf("in-place Seal reallocated")
	}
	if string(out[:6]) != "prefix" || !bytes.Equal(out[6:], want) {
		return fmt.Errorf("in-place Seal: ciphertext equal=%v, library tag %x model tag %x",
			bytes.Equal(out[6:6+len(pt)], want[:len(pt)]), out[6+len(pt):], want[len(pt):])
	}
	buf = append([]byte{}, want...)
	if p, err := lib.Open(buf[:0], nonce, buf, aad); err != nil || !bytes.Equal(p, pt) {
		return fmt.Errorf("in-place Open of model output: err=%v plaintext equal=%v", err, bytes.Equal(p, pt))
	}
	return nil
}

// gridInPlace runs compareInPlace over plaintext lengths 0..maxPlain and a few
// aad lengths; it reports the first disagreement and the total count.
func gridInPlace(t *testing.T, seed int64, nonceSize int, mk func(lib, model cipher.Block) (cipher.AEAD, sealFn, openFn)) {
	r := rand.New(rand.NewSource(seed))
	bad, total := 0, 0
	for pl := 0; pl <= maxPlain; pl++ {
		libB, modB := blocks(t, randBytes(r, 16))
		lib, seal, _ := mk(libB, modB)
		for _, al := range []int{0, 1, 16, 37} {
			nonce, pt, aad := randBytes(r, nonceSize), randBytes(r, pl), randBytes(r, al)
			total++
			if err := compareInPlace(lib, seal, nonce, pt, aad); err != nil {
				if bad++; bad == 1 {
					t.Errorf("DISAGREEMENT (first) nonce=%x len(pt)=%d len(aad)=%d: %v", nonce, pl, al, err)
				}
			}
		}
	}
	if bad > 0 {
		t.Errorf("%d of %d in-place cases disagree", bad, total)
	}
}

// grid runs compare over all plaintext lengths 0..maxPlain and aad lengths
// 0..maxAAD, with a fresh key per plaintext length.
func grid(t *testing.T, seed int64, nonceSize int, mk func(lib, model cipher.Block) (cipher.AEAD, sealFn, openFn)) {
	r := rand.New(rand.NewSource(seed))
	bad := 0
	for pl := 0; pl <= maxPlain; pl++ {
		libB, modB := blocks(t, randBytes(r, 16))
		lib, seal, open := mk(libB, modB)
		if pl == 0 {
			t.Logf("library AEAD type %T", lib)
		}
		for al := 0; al <= maxAAD; al++ {
			nonce, pt, aad := randBytes(r, nonceSize), randBytes(r, pl), randBytes(r, al)
			if err := compare(r, lib, seal, open, nonce, pt, aad); err != nil {
				t.Errorf("DISAGREEMENT nonce=%x len(pt)=%d len(aad)=%d: %v", nonce, pl, al, err)
				if bad++; bad >= 5 {
					t.Fatal("too many disagreements")
				}
			}
		}
	}
}

type gcmAble interface {
	NewGCM(nonceSize, tagSize int) (cipher.AEAD, error)
}

// libGCM builds the library GCM through the public crypto/cipher constructors
// where they can express (nonceSize, tagSize); other combinations go straight
// to the hook crypto/cipher itself calls.
func libGCM(t testing.TB, b cipher.Block, nonceSize, tagSize int) cipher.AEAD {
	var a cipher.AEAD
	var err error
	switch {
	case nonceSize == 12 && tagSize == 16:
		a, err = cipher.NewGCM(b)
	case tagSize == 16:
		a, err = cipher.NewGCMWithNonceSize(b, nonceSize)
	case nonceSize == 12:
		a, err = cipher.NewGCMWithTagSize(b, tagSize)
	default:
		g, ok := b.(gcmAble)
		if !ok {
			t.Skip("library block has no NewGCM hook; combination not constructible")
		}
		a, err = g.NewGCM(nonceSize, tagSize)
	}
	if err != nil {
		t.Fatal(err)
	}
	if a.NonceSize() != nonceSize || a.Overhead() != tagSize {
		t.Fatalf("NonceSize/Overhead = %d/%d want %d/%d", a.NonceSize(), a.Overhead(), nonceSize, tagSize)
	}
	return a
}

func gcmMaker(t testing.TB, nonceSize, tagSize int) func(lib, model cipher.Block) (cipher.AEAD, sealFn, openFn) {
	return func(lib, model cipher.Block) (cipher.AEAD, sealFn, openFn) {
		return libGCM(t, lib, nonceSize, tagSize),
			func(n, p, a []byte) []byte { return GCMSeal(model, n, p, a, tagSize) },
			func(n, s, a []byte) ([]byte, bool) { return GCMOpen(model, n, s, a, tagSize) }
	}
}

func TestGCMAgainstLibrarySM4(t *testing.T) {
	for _, ns := range []int{1, 8, 12, 13, 16, 33} {
		for ts := 12; ts <= 16; ts++ {
			t.Run(fmt.Sprintf("nonce%d_tag%d", ns, ts), func(t *testing.T) {
				t.Parallel()
				grid(t, int64(1000*ns+ts), ns, gcmMaker(t, ns, ts))
			})
		}
	}
}

func TestGCMInPlaceAgainstLibrarySM4(t *testing.T) {
	for _, ns := range []int{1, 8, 12, 13, 16, 33} {
		for ts := 12; ts <= 16; ts++ {
			t.Run(fmt.Sprintf("nonce%d_tag%d", ns, ts), func(t *testing.T) {
				t.Parallel()
				gridInPlace(t, int64(3000*ns+ts), ns, gcmMaker(t, ns, ts))
			})
		}
	}
}

// A few longer messages so the library's multi-block assembly loops run many
// iterations.
func TestGCMAgainstLibrarySM4Long(t *testing.T) {
	r := rand.New(rand.NewSource(7))
	for _, ns := range []int{12, 16} {
		for i := 0; i < 40; i++ {
			libB, modB := blocks(t, randBytes(r, 16))
			lib, seal, open := gcmMaker(t, ns, 16)(libB, modB)
			nonce, pt, aad := randBytes(r, ns), randBytes(r, 1000+r.Intn(3200)), randBytes(r, r.Intn(600))
			if err := compare(r, lib, seal, open, nonce, pt, aad); err != nil {
				t.Errorf("DISAGREEMENT nonce=%x len(pt)=%d len(aad)=%d: %v", nonce, len(pt), len(aad), err)
			}
		}
	}
}

// gfInv is h^(2^128-2) = product of h^(2^i), i = 1..127.

// nonceFor solves J0 = ((N*H) ^ L)*H for the 16-byte nonce N, L = 0^64||[128]_64.
func nonceFor(h, j0 block) []byte {
	hi := gfInverse(h)
	var l block
	binary.BigEndian.PutUint64(l[8:], 128)
	n := gfMul(xor(gfMul(j0, hi), l), hi)
	return n[:]
}

// The 32-bit counter must wrap without carrying into the upper 96 bits. 16-byte
// nonces are crafted (GHASH is invertible) so that J0 ends just below 2^32.
func TestGCMCounterWrapCrafted(t *testing.T) {
	r := rand.New(rand.NewSource(99))
	for _, low := range []uint32{0xffffffff, 0xfffffffe, 0xfffffffd, 0xfffffff8, 0xfffffff7, 0xfffffff0, 0xffffffef, 0xffffffed, 0xffffff00} {
		for _, allOnes := range []bool{false, true} {
			key := randBytes(r, 16)
			libB, modB := blocks(t, key)
			h := encrypt(modB, block{})
			var j0 block
			r.Read(j0[:])
			if allOnes {
				j0 = block(bytes.Repeat([]byte{0xff}, 16))
			}
			binary.BigEndian.PutUint32(j0[12:], low)
			nonce := nonceFor(h, j0)
			if got := gcmJ0(h, nonce); got != j0 {
				t.Fatalf("crafted nonce gives J0 %x want %x", got, j0)
			}
			lib, seal, open := gcmMaker(t, 16, 16)(libB, modB)
			for _, pl := range []int{0, 1, 15, 16, 17, 31, 32, 33, 127, 128, 129, 255, 256, 257, 16*17 + 1, 300, 4200} {
				pt, aad := randBytes(r, pl), randBytes(r, r.Intn(40))
				if err := compare(r, lib, seal, open, nonce, pt, aad); err != nil {
					t.Errorf("DISAGREEMENT key=%x J0=%x nonce=%x len(pt)=%d len(aad)=%d: %v", key, j0, nonce, pl, len(aad), err)
					break
				}
			}
		}
	}
}

// Nonces from /repo/cipher/gcm_sm4_test.go TestGCMCounterWrap (zero key). Its
// "counter:" comments are the AES values of Go's own test; under AES the model
// must reproduce them and agree with Go's GCM across the wrap. Under SM4 the
// same nonces do NOT put J0 near 2^32 (logged), so for SM4 the wrap is covered
// by TestGCMCounterWrapCrafted; library and model are still compared here.
func TestGCMCounterWrapRepoNonces(t *testing.T) {
	r := rand.New(rand.NewSource(5))
	libB, modB := blocks(t, make([]byte, 16))
	aesB, _ := aes.NewCipher(make([]byte, 16))
	for _, v := range []struct {
		nonce string
		low   uint32
	}{
		{"0fa72e25", 0xfffffff0}, {"afe05cc1", 0xfffffff4}, {"9ffecbef", 0xfffffff5}, {"ffc3e5b3", 0xfffffff6},
		{"cfdd729d", 0xfffffff7}, {"010ae3d486", 0xfffffff8}, {"01b1107a9d", 0xffffffff},
	} {
		nonce := unhex(v.nonce)
		if j0 := gcmJ0(encrypt(aesB, block{}), nonce); binary.BigEndian.Uint32(j0[12:]) != v.low {
			t.Fatalf("nonce %s: model AES J0 %x, expected low word %08x", v.nonce, j0, v.low)
		}
		t.Logf("nonce %s: SM4 J0 %x (no wrap)", v.nonce, gcmJ0(encrypt(modB, block{}), nonce))
		std, _ := cipher.NewGCMWithNonceSize(aesB, len(nonce))
		lib, seal, open := gcmMaker(t, len(nonce), 16)(libB, modB)
		for pl := 0; pl <= maxPlain; pl++ {
			pt := make([]byte, pl)
			if got, want := GCMSeal(aesB, nonce, pt, nil, 16), std.Seal(nil, nonce, pt, nil); !bytes.Equal(got, want) {
				t.Fatalf("AES nonce=%s len(pt)=%d: model %x stdlib %x", v.nonce, pl, got, want)
			}
			if err := compare(r, lib, seal, open, nonce, pt, nil); err != nil {
				t.Errorf("DISAGREEMENT nonce=%s len(pt)=%d: %v", v.nonce, pl, err)
				break
			}
		}
	}
}

func libCCM(t testing.TB, b cipher.Block, nonceSize, tagSize int) cipher.AEAD {
	var a cipher.AEAD
	var err error
	switch {
	case nonceSize == 12 && tagSize == 16:
		a, err = gmcipher.NewCCM(b)
	case tagSize == 16:
		a, err = gmcipher.NewCCMWithNonceSize(b, nonceSize)
	case nonceSize == 12:
		a, err = gmcipher.NewCCMWithTagSize(b, tagSize)
	default:
		a, err = gmcipher.NewCCMWithNonceAndTagSize(b, nonceSize, tagSize)
	}
	if err != nil {
		t.Fatal(err)
	}
	if a.NonceSize() != nonceSize || a.Overhead() != tagSize {
		t.Fatalf("NonceSize/Overhead = %d/%d want %d/%d", a.NonceSize(), a.Overhead(), nonceSize, tagSize)
	}
	return a
}

func ccmMaker(t testing.TB, nonceSize, tagSize int) func(lib, model cipher.Block) (cipher.AEAD, sealFn, openFn) {
	return func(lib, model cipher.Block) (cipher.AEAD, sealFn, openFn) {
		return libCCM(t, lib, nonceSize, tagSize),
			func(n, p, a []byte) []byte { return CCMSeal(model, n, p, a, tagSize) },
			func(n, s, a []byte) ([]byte, bool) { return CCMOpen(model, n, s, a, tagSize) }
	}
}

func TestCCMAgainstLibrarySM4(t *testing.T) {
	for ns := 7; ns <= 13; ns++ {
		for ts := 4; ts <= 16; ts += 2 {
			t.Run(fmt.Sprintf("nonce%d_tag%d", ns, ts), func(t *testing.T) {
				t.Parallel()
				grid(t, int64(2000*ns+ts), ns, ccmMaker(t, ns, ts))
			})
		}
	}
}

func TestCCMInPlaceAgainstLibrarySM4(t *testing.T) {
	for ns := 7; ns <= 13; ns++ {
		for ts := 4; ts <= 16; ts += 2 {
			t.Run(fmt.Sprintf("nonce%d_tag%d", ns, ts), func(t *testing.T) {
				t.Parallel()
				gridInPlace(t, int64(4000*ns+ts), ns, ccmMaker(t, ns, ts))
			})
		}
	}
}

// The library's in-place CCM Seal judged against the RFC 3610 vectors alone
// (AES, no model code involved in the expected value).
func TestCCMInPlaceSealRFC3610(t *testing.T) {
	for i, v := range ccmVectors {
		b, _ := aes.NewCipher(unhex(v.key))
		lib := libCCM(t, b, len(unhex(v.nonce)), v.tagSize)
		pt, want := unhex(v.pt), unhex(v.out)
		if got := lib.Seal(nil, unhex(v.nonce), pt, unhex(v.aad)); !bytes.Equal(got, want) {
			t.Errorf("DISAGREEMENT packet vector #%d: library Seal(nil, ...) %x want %x", i+1, got, want)
		}
		buf := make([]byte, len(pt), len(want))
		copy(buf, pt)
		if got := lib.Seal(buf[:0], unhex(v.nonce), buf, unhex(v.aad)); !bytes.Equal(got, want) {
			t.Errorf("DISAGREEMENT packet vector #%d: library in-place Seal %x want %x", i+1, got, want)
		}
	}
}

// The aad length encoding switches from 2 to 6 bytes at 0xff00; also the
// largest message a 13-byte nonce (L = 2) allows.
func TestCCMAgainstLibrarySM4Boundaries(t *testing.T) {
	r := rand.New(rand.NewSource(11))
	for _, ns := range []int{7, 12, 13} {
		for _, ts := range []int{4, 16} {
			libB, modB := blocks(t, randBytes(r, 16))
			lib, seal, open := ccmMaker(t, ns, ts)(libB, modB)
			for _, c := range [][2]int{{33, 0xfeff}, {33, 0xff00}, {0, 0xff01}, {17, 0x10000}, {0, 0x10003}, {0xffff, 5}, {0xffff, 0}, {0xfff0, 0xff00}} {
				nonce, pt, aad := randBytes(r, ns), randBytes(r, c[0]), randBytes(r, c[1])
				if err := compare(r, lib, seal, open, nonce, pt, aad); err != nil {
					t.Errorf("DISAGREEMENT nonce=%x tag=%d len(pt)=%d len(aad)=%d: %.300v", nonce, ts, c[0], c[1], err)
				}
			}
		}
	}
}

// Independent check of the model itself: Go's own GCM over AES (which does not
// involve gmsm at all), including odd nonce and tag sizes.
func TestGCMModelAgainstStdlibAES(t *testing.T) {
	r := rand.New(rand.NewSource(3))
	for i := 0; i < 3000; i++ {
		b, _ := aes.NewCipher(randBytes(r, []int{16, 24, 32}[r.Intn(3)]))
		ns, ts := 12, 16
		var std cipher.AEAD
		switch r.Intn(3) {
		case 0:
			ns = 1 + r.Intn(40)
			std, _ = cipher.NewGCMWithNonceSize(b, ns)
		case 1:
			ts = 12 + r.Intn(5)
			std, _ = cipher.NewGCMWithTagSize(b, ts)
		default:
			std, _ = cipher.NewGCM(b)
		}
		nonce, pt, aad := randBytes(r, ns), randBytes(r, r.Intn(200)), randBytes(r, r.Intn(70))
		want := std.Seal(nil, nonce, pt, aad)
		if got := GCMSeal(b, nonce, pt, aad, ts); !bytes.Equal(got, want) {
			t.Fatalf("ns=%d ts=%d: model %x stdlib %x", ns, ts, got, want)
		}
		if p, ok := GCMOpen(b, nonce, want, aad, ts); !ok || !bytes.Equal(p, pt) {
			t.Fatalf("ns=%d ts=%d: model failed to open stdlib output", ns, ts)
		}
	}
}
