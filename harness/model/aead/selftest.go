package aead

import (
	"bytes"
	"crypto/aes"
	"encoding/hex"
	"fmt"
)

func unhex(s string) []byte {
	b, err := hex.DecodeString(s)
	if err != nil {
		panic(err)
	}
	return b
}

// GCM spec (McGrew & Viega, "The Galois/Counter Mode of Operation", appendix B)
// test cases 1-6, all AES-128. out is ciphertext||tag.
var gcmVectors = []struct{ key, nonce, pt, aad, out string }{
	{ // test case 1
		"00000000000000000000000000000000", "000000000000000000000000", "", "",
		"58e2fccefa7e3061367f1d57a4e7455a",
	},
	{ // test case 2
		"00000000000000000000000000000000", "000000000000000000000000",
		"00000000000000000000000000000000", "",
		"0388dace60b6a392f328c2b971b2fe78" + "ab6e47d42cec13bdf53a67b21257bddf",
	},
	{ // test case 3
		"feffe9928665731c6d6a8f9467308308", "cafebabefacedbaddecaf888",
		"d9313225f88406e5a55909c5aff5269a86a7a9531534f7da2e4c303d8a318a721c3c0c95956809532fcf0e2449a6b525b16aedf5aa0de657ba637b391aafd255", "",
		"42831ec2217774244b7221b784d0d49ce3aa212f2c02a4e035c17e2329aca12e21d514b25466931c7d8f6a5aac84aa051ba30b396a0aac973d58e091473f5985" +
			"4d5c2af327cd64a62cf35abd2ba6fab4",
	},
	{ // test case 4
		"feffe9928665731c6d6a8f9467308308", "cafebabefacedbaddecaf888",
		"d9313225f88406e5a55909c5aff5269a86a7a9531534f7da2e4c303d8a318a721c3c0c95956809532fcf0e2449a6b525b16aedf5aa0de657ba637b39",
		"feedfacedeadbeeffeedfacedeadbeefabaddad2",
		"42831ec2217774244b7221b784d0d49ce3aa212f2c02a4e035c17e2329aca12e21d514b25466931c7d8f6a5aac84aa051ba30b396a0aac973d58e091" +
			"5bc94fbc3221a5db94fae95ae7121a47",
	},
	{ // test case 5: 64-bit IV
		"feffe9928665731c6d6a8f9467308308", "cafebabefacedbad",
		"d9313225f88406e5a55909c5aff5269a86a7a9531534f7da2e4c303d8a318a721c3c0c95956809532fcf0e2449a6b525b16aedf5aa0de657ba637b39",
		"feedfacedeadbeeffeedfacedeadbeefabaddad2",
		"61353b4c2806934a777ff51fa22a4755699b2a714fcdc6f83766e5f97b6c742373806900e49f24b22b097544d4896b424989b5e1ebac0f07c23f4598" +
			"3612d2e79e3b0785561be14aaca2fccb",
	},
	{ // test case 6: 480-bit IV
		"feffe9928665731c6d6a8f9467308308",
		"9313225df88406e555909c5aff5269aa6a7a9538534f7da1e4c303d2a318a728c3c0c95156809539fcf0e2429a6b525416aedbf5a0de6a57a637b39b",
		"d9313225f88406e5a55909c5aff5269a86a7a9531534f7da2e4c303d8a318a721c3c0c95956809532fcf0e2449a6b525b16aedf5aa0de657ba637b39",
		"feedfacedeadbeeffeedfacedeadbeefabaddad2",
		"8ce24998625615b603a033aca13fb894be9112a5c3a211a8ba262a3cca7e2ca701e4a9a4fba43c90ccdcb281d48c7c6fd62875d2aca417034c34aee5" +
			"619cc5aefffe0bfa462af43c1699d050",
	},
}

// RFC 3610 section 8 packet vectors #1..#3 (AES-128, M = 8, L = 2).
var ccmVectors = []struct {
	key, nonce, aad, pt, out string
	tagSize                  int
}{
	{
		"c0c1c2c3c4c5c6c7c8c9cacbcccdcecf", "00000003020100a0a1a2a3a4a5", "0001020304050607",
		"08090a0b0c0d0e0f101112131415161718191a1b1c1d1e",
		"588c979a61c663d2f066d0c2c0f989806d5f6b61dac384" + "17e8d12cfdf926e0", 8,
	},
	{
		"c0c1c2c3c4c5c6c7c8c9cacbcccdcecf", "00000004030201a0a1a2a3a4a5", "0001020304050607",
		"08090a0b0c0d0e0f101112131415161718191a1b1c1d1e1f",
		"72c91a36e135f8cf291ca894085c87e3cc15c439c9e43a3b" + "a091d56e10400916", 8,
	},
	{
		"c0c1c2c3c4c5c6c7c8c9cacbcccdcecf", "00000005040302a0a1a2a3a4a5", "0001020304050607",
		"08090a0b0c0d0e0f101112131415161718191a1b1c1d1e1f20",
		"51b1e5f44a197d1da46b0f8e2d282ae871e838bb64da859657" + "4adaa76fbd9fb0c5", 8,
	},
}

// SelfTest checks the model against published AES vectors: GCM spec test cases
// 1-6 (5 and 6 have non 96-bit IVs) and RFC 3610 packet vectors #1-#3.
func SelfTest() error {
	for i, v := range gcmVectors {
		b, err := aes.NewCipher(unhex(v.key))
		if err != nil {
			return err
		}
		nonce, pt, aad, want := unhex(v.nonce), unhex(v.pt), unhex(v.aad), unhex(v.out)
		if got := GCMSeal(b, nonce, pt, aad, 16); !bytes.Equal(got, want) {
			return fmt.Errorf("aead model: GCM test case %d: seal got %x want %x", i+1, got, want)
		}
		if got, ok := GCMOpen(b, nonce, want, aad, 16); !ok || !bytes.Equal(got, pt) {
			return fmt.Errorf("aead model: GCM test case %d: open ok=%v got %x want %x", i+1, ok, got, pt)
		}
		want[len(want)-1] ^= 1
		if _, ok := GCMOpen(b, nonce, want, aad, 16); ok {
			return fmt.Errorf("aead model: GCM test case %d: forged tag accepted", i+1)
		}
	}
	for i, v := range ccmVectors {
		b, err := aes.NewCipher(unhex(v.key))
		if err != nil {
			return err
		}
		nonce, pt, aad, want := unhex(v.nonce), unhex(v.pt), unhex(v.aad), unhex(v.out)
		if got := CCMSeal(b, nonce, pt, aad, v.tagSize); !bytes.Equal(got, want) {
			return fmt.Errorf("aead model: CCM packet vector #%d: seal got %x want %x", i+1, got, want)
		}
		if got, ok := CCMOpen(b, nonce, want, aad, v.tagSize); !ok || !bytes.Equal(got, pt) {
			return fmt.Errorf("aead model: CCM packet vector #%d: open ok=%v got %x want %x", i+1, ok, got, pt)
		}
		want[len(want)-1] ^= 1
		if _, ok := CCMOpen(b, nonce, want, aad, v.tagSize); ok {
			return fmt.Errorf("aead model: CCM packet vector #%d: forged tag accepted", i+1)
		}
	}
	return nil
}
