package zucm

import "encoding/binary"

// msgBit is bit i of m, bit 0 being the most significant bit of m[0].
func msgBit(m []byte, i int) uint32 { return uint32(m[i/8]>>(7-i%8)) & 1 }

// ksBit is bit i of the keystream bit string z[0] || z[1] || ...
func ksBit(z []uint32, i int) uint32 { return z[i/32] >> (31 - i%32) & 1 }

// window returns keystream bits i .. i+n-1 as n/8 bytes.
func window(z []uint32, i, n int) []byte {
	w := make([]byte, n/8)
	for k := 0; k < n; k++ {
		w[k/8] |= byte(ksBit(z, i+k)) << (7 - k%8)
	}
	return w
}

func xorInto(t, w []byte) {
	for i := range t {
		t[i] ^= w[i]
	}
}

// EIAIV builds the 128-EIA3 IV (TS 35.222 4.3).
func EIAIV(count, bearer, direction uint32) []byte {
	iv := make([]byte, 16)
	binary.BigEndian.PutUint32(iv, count)
	iv[4] = byte(bearer&0x1f) << 3
	copy(iv[8:], iv[:8])
	iv[8] ^= byte(direction&1) << 7
	iv[14] ^= byte(direction&1) << 7
	return iv
}

// EIA3 is the bit-serial 128-EIA3 MAC (TS 35.222 4.4) over the first nbits
// bits of msg (MSB first) with an already-built 16-byte iv.
func EIA3(key, iv, msg []byte, nbits int) uint32 {
	L := (nbits+31)/32 + 2 // keystream words
	z := Keystream128(key, iv, L)
	w := func(i int) uint32 { return binary.BigEndian.Uint32(window(z, i, 32)) } // z_i = z[i] .. z[i+31]
	var t uint32
	for i := 0; i < nbits; i++ {
		if msgBit(msg, i) == 1 {
			t ^= w(i)
		}
	}
	t ^= w(nbits)
	return t ^ w(32*(L-1))
}

func d256Mac(tagSize int) *[16]byte {
	switch tagSize {
	case 4:
		return &d256Mac32
	case 8:
		return &d256Mac64
	case 16:
		return &d256Mac128
	}
	panic("zucm: ZUC-256 MAC tag size must be 4, 8 or 16 bytes")
}

// MAC256 is the bit-serial ZUC-256 MAC with tagSize in {4,8,16} bytes over the
// first nbits bits of msg. With t = 8*tagSize and l = nbits, the document says:
// produce l+2t keystream bits z; Tag = z[0..t-1]; for i = 0..l-1, if m_i = 1
// then Tag ^= W_i, W_i = z[t+i .. t+i+t-1]; finally Tag ^= W_l.
func MAC256(key, iv []byte, tagSize int, msg []byte, nbits int) []byte {
	t := 8 * tagSize
	z := keystream256(key, iv, d256Mac(tagSize), (nbits+2*t+31)/32)
	tag := window(z, 0, t)
	for i := 0; i < nbits; i++ {
		if msgBit(msg, i) == 1 {
			xorInto(tag, window(z, t+i, t))
		}
	}
	xorInto(tag, window(z, t+nbits, t))
	return tag
}

// MAC256Defect is MAC256 plus exactly one deviation, and reproduces what
// github.com/emmansun/gmsm internal/zuc (*ZUC256Mac).checkSum computes at the
// pinned revision.
//
// The library works on 128-bit message blocks with an 8 word keystream buffer
// k0 (k0[0] is the keystream word aligned with the first message bit of the
// block). For the last, partial block of r = nbits%128 bits it first handles
// the q = (r-1)/32 complete 32-bit words by sliding the tag-wide window IN
// PLACE in k0[0..tw-1] (tw = tagSize/4), and then handles the remaining 1..32
// bits, and the final mask W_l, with a window read from k0[q..q+tw]. For
// 1 <= q < tw the words k0[q..tw-1] of that range have been overwritten by the
// in-place slide: k0[j] holds the original k0[j+q].
//
// So: the keystream the library uses for the message bits after the last
// complete word of the partial block, and for W_l, has words q..tw-1 of the
// last block replaced by words 2q..tw-1+q of that block. Nothing else differs.
// The deviation is void for tagSize 4 (tw = 1), for r <= 32 (q = 0), and for
// q >= tw; i.e. the library is wrong exactly when
//
//	tagSize  8: 33 <= nbits%128 <= 64
//	tagSize 16: 33 <= nbits%128 <= 127
func MAC256Defect(key, iv []byte, tagSize int, msg []byte, nbits int) []byte {
	t := 8 * tagSize
	z := keystream256(key, iv, d256Mac(tagSize), (nbits+2*t+31)/32+8)

	// ---- the deviation ----
	tw := tagSize / 4
	r := nbits % 128
	q := 0
	if r > 0 {
		q = (r - 1) / 32
	}
	tailStart := nbits - r + 32*q // first message bit handled with the clobbered buffer
	zBad := append([]uint32(nil), z...)
	blk := tw + (nbits-r)/32 // index in z of k0[0] for the last block
	for j := q; j < tw && q > 0; j++ {
		zBad[blk+j] = z[blk+j+q]
	}
	ks := func(i int) []uint32 {
		if i >= tailStart {
			return zBad
		}
		return z
	}
	// -----------------------

	tag := window(z, 0, t)
	for i := 0; i < nbits; i++ {
		if msgBit(msg, i) == 1 {
			xorInto(tag, window(ks(i), t+i, t))
		}
	}
	xorInto(tag, window(ks(nbits), t+nbits, t))
	return tag
}
