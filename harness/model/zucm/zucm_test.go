package zucm

import (
	"bytes"
	"crypto/sha256"
	"encoding/binary"
	"encoding/hex"
	"fmt"
	"math/rand/v2"
	"sort"
	"strings"
	"testing"

	lib "github.com/emmansun/gmsm/zuc"
)

func TestSelf(t *testing.T) {
	if err := SelfTest(); err != nil {
		t.Fatal(err)
	}
}

// TS 35.223 128-EIA3 test set 5 (5670 bits), too long for SelfTest.
func TestEIA3Set5(t *testing.T) {
	msg := unhex(strings.Join(strings.Fields(`
		5bad7247 10ba1c56 d5a315f8 d40f6e09 3780be8e 8de07b69 92432018 e08ed96a 5734af8b ad8a575d 3a1f162f 85045cc7
		70925571 d9f5b94e 454a77c1 6e72936b f016ae15 7499f054 3b5d52ca a6dbeab6 97d2bb73 e41b8075 dce79b4b 86044f66
		1d4485a5 43dd7860 6e0419e8 059859d3 cb2b67ce 0977603f 81ff839e 33185954 4cfbc8d0 0fef1a4c 8510fb54 7d6b06c6
		11ef44f1 bce107cf a45a06aa b360152b 28dc1ebe 6f7fe09b 0516f9a5 b02a1bd8 4bb0181e 2e89e19b d8125930 d178682f
		3862dc51 b636f04e 720c47c3 ce51ad70 d94b9b22 55fbae90 6549f499 f8c6d399 47ed5e5d f8e2def1 13253e7b 08d0a76b
		6bfc68c8 12f375c7 9b8fe5fd 85976aa6 d46b4a23 39d8ae51 47f680fb e70f978b 38effd7b 2f7866a2 2554e193 a94e98a6
		8b74bd25 bb2b3f5f b0a5fd59 887f9ab6 8159b717 8d5b7b67 7cb546bf 41eadca2 16fc1085 0128f8bd ef5c8d89 f96afa4f
		a8b54885 565ed838 a950fee5 f1c3b0a4 f6fb71e5 4dfd169e 82cecc72 66c850e6 7c5ef0ba 960f5214 060e71eb 172a75fc
		1486835c bea65344 65b055c9 6a72e410 52241823 25d83041 4b40214d aa8091d2 e0fb010a e15c6de9 0850973b df1e423b
		e148a237 b87a0c9f 34d4b476 05b803d7 43a86a90 399a4af3 96d3a120 0a62f3d9 507962e8 e5bee6d3 da2bb3f7 237664ac
		7a292823 900bc635 03b29e80 d63f6067 bf8e1716 ac25beba 350deb62 a99fe031 85eb4f69 937ecd38 7941fda5 44ba67db
		09117749 38b01827 bcc69c92 b3f772a9 d2859ef0 03398b1f 6bbad7b5 74f7989a 1d10b2df 798e0dbf 30d65874 64d24878
		cd00c0ea ee8a1a0c c753a279 79e11b41 db1de3d5 038afaf4 9f5c682c 3748d8a3 a9ec54e6 a371275f 1683510f 8e4f9093
		8f9ab6e1 34c2cfdf 4841cba8 8e0cff2b 0bcc8e6a dcb71109 b5198fec f1bb7e5c 531aca50 a56a8a3b 6de59862 d41fa113
		d9cd9578 08f08571 d9a4bb79 2af271f6 cc6dbb8d c7ec36e3 6be1ed30 8164c31c 7c0afc54 1c000000`), ""))
	got := EIA3(unhex("6b8b08ee79e0b5982d6d128ea9f220cb"), EIAIV(0x561eb2dd, 0x1c, 0), msg, 5670)
	if got != 0x0ca12792 {
		t.Fatalf("got %08x want 0ca12792", got)
	}
}

// ---- cross-checks against github.com/emmansun/gmsm/zuc ----------------------

func rnd(r *rand.Rand, n int) []byte {
	b := make([]byte, n)
	for i := range b {
		b[i] = byte(r.Uint32())
	}
	return b
}

// libDigest accumulates every byte the library returns, so that two builds of
// the library (asm / purego / GODEBUG=cpu.*=off) can be compared through one
// number. TestLibraryDigest compares it with a frozen value.
type libDigest struct{ h [32]byte }

func (d *libDigest) add(b []byte) { d.h = sha256.Sum256(append(d.h[:], b...)) }

func keystreamCheck(t *testing.T, d *libDigest) {
	r := rand.New(rand.NewPCG(1, 1))
	for _, sz := range []struct{ k, iv int }{{16, 16}, {32, 23}} {
		for trial := 0; trial < 3; trial++ {
			key, iv := rnd(r, sz.k), rnd(r, sz.iv)
			want := KeystreamBytes(key, iv, 0, 3000)
			// one shot, every length 0..700 and some longer ones
			lens := []int{1023, 1024, 1025, 2047, 2048, 2049, 3000}
			for n := 0; n <= 700; n++ {
				lens = append(lens, n)
			}
			for _, n := range lens {
				c, err := lib.NewCipher(key, iv)
				if err != nil {
					t.Fatal(err)
				}
				got := make([]byte, n)
				c.XORKeyStream(got, got)
				d.add(got)
				if !bytes.Equal(got, want[:n]) {
					t.Errorf("keystream key=%d len=%d differs", sz.k, n)
				}
			}
			// incremental calls with odd chunk sizes on one cipher
			c, _ := lib.NewCipher(key, iv)
			got := make([]byte, 3000)
			for off := 0; off < len(got); {
				n := min(1+int(r.Uint32()%300), len(got)-off)
				c.XORKeyStream(got[off:off+n], got[off:off+n])
				off += n
			}
			d.add(got)
			if !bytes.Equal(got, want) {
				t.Errorf("keystream key=%d chunked differs", sz.k)
			}
			// seeking, with and without state buckets
			for _, bucket := range []int{0, 1, 128, 200, 1024} {
				c, err := lib.NewCipherWithBucketSize(key, iv, bucket)
				if err != nil {
					t.Fatal(err)
				}
				for i := 0; i < 200; i++ {
					off := int(r.Uint32() % 2900)
					n := min(int(r.Uint32()%400), 3000-off)
					got := make([]byte, n)
					c.XORKeyStreamAt(got, got, uint64(off))
					d.add(got)
					if !bytes.Equal(got, KeystreamBytes(key, iv, off, n)) {
						t.Errorf("keystream key=%d bucket=%d XORKeyStreamAt(off=%d,n=%d) differs", sz.k, bucket, off, n)
					}
				}
			}
		}
	}
	// 128-EEA3 IV construction
	for i := 0; i < 200; i++ {
		key := rnd(r, 16)
		count, bearer, dir := r.Uint32(), r.Uint32()%32, r.Uint32()%2
		c, err := lib.NewEEACipher(key, count, bearer, dir)
		if err != nil {
			t.Fatal(err)
		}
		got := make([]byte, 40)
		c.XORKeyStream(got, got)
		d.add(got)
		if !bytes.Equal(got, KeystreamBytes(key, EEAIV(count, bearer, dir), 0, 40)) {
			t.Errorf("EEA3 count=%08x bearer=%d dir=%d differs", count, bearer, dir)
		}
	}
}

func eia3Check(t *testing.T, d *libDigest) {
	r := rand.New(rand.NewPCG(2, 2))
	be := func(x uint32) []byte { return binary.BigEndian.AppendUint32(nil, x) }
	for trial := 0; trial < 3; trial++ {
		key, iv := rnd(r, 16), rnd(r, 16)
		hh, err := lib.NewHash(key, iv)
		if err != nil {
			t.Fatal(err)
		}
		for nbits := 0; nbits <= 600; nbits++ {
			msg := rnd(r, (nbits+7)/8)
			if trial == 2 {
				msg = rep(0xff, len(msg))
			}
			want := be(EIA3(key, iv, msg, nbits))
			got := hh.Finish(msg, nbits) // Finish resets, the hash is reused
			d.add(got)
			if !bytes.Equal(got, want) {
				t.Errorf("EIA3 Finish nbits=%d: lib %x model %x", nbits, got, want)
			}
			if nbits%8 == 0 { // Write in odd pieces + Sum
				for p := msg; len(p) > 0; {
					n := min(1+int(r.Uint32()%40), len(p))
					hh.Write(p[:n])
					p = p[n:]
				}
				got := hh.Sum(nil)
				hh.Reset()
				d.add(got)
				if !bytes.Equal(got, want) {
					t.Errorf("EIA3 Write/Sum nbytes=%d: lib %x model %x", nbits/8, got, want)
				}
			}
		}
	}
	for i := 0; i < 200; i++ { // longer messages, IV construction
		key := rnd(r, 16)
		count, bearer, dir := r.Uint32(), r.Uint32()%32, r.Uint32()%2
		nbits := int(r.Uint32() % 20000)
		msg := rnd(r, (nbits+7)/8)
		hh, err := lib.NewEIAHash(key, count, bearer, dir)
		if err != nil {
			t.Fatal(err)
		}
		got := hh.Finish(msg, nbits)
		d.add(got)
		if want := be(EIA3(key, EIAIV(count, bearer, dir), msg, nbits)); !bytes.Equal(got, want) {
			t.Errorf("EIA3 count=%08x bearer=%d dir=%d nbits=%d: lib %x model %x", count, bearer, dir, nbits, got, want)
		}
	}
}

// knownMAC256Defect says whether (tagSize, nbits) is in the class for which the
// pinned library is known to deviate from the ZUC-256 MAC definition.
func knownMAC256Defect(tagSize, nbits int) bool {
	r := nbits % 128
	return tagSize == 8 && r >= 33 && r <= 64 || tagSize == 16 && r >= 33
}

// mac256Check compares the library with the bit-serial model and with the
// defect model. It returns the (tagSize, nbits%128) classes where the library
// disagrees with the textbook model and the number of inputs where it differs
// from the defect model.
func mac256Check(t *testing.T, d *libDigest) (wrong map[int]map[int]bool, notDefect int) {
	r := rand.New(rand.NewPCG(3, 3))
	wrong = map[int]map[int]bool{4: {}, 8: {}, 16: {}}
	right := map[int]map[int]bool{4: {}, 8: {}, 16: {}}
	one := func(hh lib.EIA, how string, key, iv []byte, tagSize int, msg []byte, nbits int, got []byte) {
		d.add(got)
		want, defect := MAC256(key, iv, tagSize, msg, nbits), MAC256Defect(key, iv, tagSize, msg, nbits)
		if !bytes.Equal(got, defect) {
			notDefect++
		}
		switch {
		case bytes.Equal(got, want):
			right[tagSize][nbits%128] = true
		case knownMAC256Defect(tagSize, nbits) && bytes.Equal(got, defect):
			wrong[tagSize][nbits%128] = true
		default:
			wrong[tagSize][nbits%128] = true
			t.Errorf("MAC256 %s tag=%d nbits=%d: lib %x, model %x, defect model %x: NOT the known defect", how, tagSize, nbits, got, want, defect)
		}
	}
	for _, tagSize := range []int{4, 8, 16} {
		for trial := 0; trial < 3; trial++ {
			key, iv := rnd(r, 32), rnd(r, 23)
			hh, err := lib.NewHash256(key, iv, tagSize)
			if err != nil {
				t.Fatal(err)
			}
			for nbits := 0; nbits <= 600; nbits++ {
				msg := rnd(r, (nbits+7)/8)
				if trial == 2 {
					msg = rep(0, len(msg)) // only the final mask W_l matters
				}
				one(hh, "Finish", key, iv, tagSize, msg, nbits, hh.Finish(msg, nbits))
				if nbits%8 == 0 {
					for p := msg; len(p) > 0; {
						n := min(1+int(r.Uint32()%40), len(p))
						hh.Write(p[:n])
						p = p[n:]
					}
					got := hh.Sum(nil)
					hh.Reset()
					one(hh, "Write/Sum", key, iv, tagSize, msg, nbits, got)
				}
			}
		}
		for i := 0; i < 100; i++ { // longer messages
			key, iv := rnd(r, 32), rnd(r, 23)
			nbits := int(r.Uint32() % 20000)
			msg := rnd(r, (nbits+7)/8)
			hh, _ := lib.NewHash256(key, iv, tagSize)
			one(hh, "Finish", key, iv, tagSize, msg, nbits, hh.Finish(msg, nbits))
		}
	}
	// Inside a defect class the library can still be right by coincidence: the
	// wrong keystream bits only enter through message bits that are 1 and
	// through the final mask, e.g. 8 byte tag, nbits%128 == 64 and the last 32
	// message bits zero is always right. (trial 2 above produces such inputs.)
	for _, tagSize := range []int{4, 8, 16} {
		both := map[int]bool{}
		for c := range wrong[tagSize] {
			if right[tagSize][c] {
				both[c] = true
			}
		}
		if len(both) > 0 {
			t.Logf("MAC256 tag=%d: nbits%%128 in {%s} right for some inputs, wrong for others (data dependent)", tagSize, classes(both))
		}
	}
	return
}

func classes(m map[int]bool) string {
	var k []int
	for c := range m {
		k = append(k, c)
	}
	sort.Ints(k)
	var s []string
	for i := 0; i < len(k); {
		j := i
		for j+1 < len(k) && k[j+1] == k[j]+1 {
			j++
		}
		s = append(s, fmt.Sprintf("%d..%d", k[i], k[j]))
		i = j + 1
	}
	if len(s) == 0 {
		return "none"
	}
	return strings.Join(s, ",")
}

func TestKeystreamVsLibrary(t *testing.T) { keystreamCheck(t, new(libDigest)) }
func TestEIA3VsLibrary(t *testing.T)      { eia3Check(t, new(libDigest)) }

// TestMAC256VsLibrary fails only for disagreements that are NOT the known
// defect; the known defect is reported with t.Log.
func TestMAC256VsLibrary(t *testing.T) {
	wrong, notDefect := mac256Check(t, new(libDigest))
	for _, tagSize := range []int{4, 8, 16} {
		t.Logf("ZUC-256 MAC, %2d byte tag: library != bit-serial model for nbits%%128 in {%s}", tagSize, classes(wrong[tagSize]))
	}
	t.Logf("inputs where library != MAC256Defect: %d", notDefect)
}

// TestMAC256DefectExact pins the current state: the library equals
// MAC256Defect on every input, and is wrong exactly on the predicted classes.
// It is skipped if the library has been repaired.
func TestMAC256DefectExact(t *testing.T) {
	wrong, notDefect := mac256Check(t, new(libDigest))
	if len(wrong[4])+len(wrong[8])+len(wrong[16]) == 0 {
		t.Skip("library agrees with the textbook model everywhere: defect repaired")
	}
	if notDefect != 0 {
		t.Errorf("library differs from MAC256Defect on %d inputs", notDefect)
	}
	for tagSize, want := range map[int]string{4: "none", 8: "33..64", 16: "33..127"} {
		if got := classes(wrong[tagSize]); got != want {
			t.Errorf("tag=%d: library wrong for nbits%%128 in {%s}, predicted {%s}", tagSize, got, want)
		}
	}
}

// TestLibraryDigest: every byte the library returned in the three sweeps above,
// hashed. The value is the same for the assembly build, the purego build and
// GODEBUG=cpu.*=off variants, which is how "all builds agree with each other"
// is checked.
const (
	libraryDigestPinned   = "178325b13d9910f705a2430c497508d10dbeeb9903fb0aa57e1b0cc19448ebb5" // pinned revision, with the known MAC defect
	libraryDigestRepaired = "a523bdb657e82dcc59ca16190eef3c57222d1c2bb10385e780d893170967405c" // library == textbook model everywhere
)

func TestLibraryDigest(t *testing.T) {
	d := new(libDigest)
	keystreamCheck(t, d)
	eia3Check(t, d)
	mac256Check(t, d)
	got := hex.EncodeToString(d.h[:])
	t.Logf("library output digest %s", got)
	if got != libraryDigestPinned && got != libraryDigestRepaired {
		t.Errorf("library output digest %s is neither the pinned (%s) nor the repaired (%s) one", got, libraryDigestPinned, libraryDigestRepaired)
	}
}
