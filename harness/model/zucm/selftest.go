package zucm

import (
	"bytes"
	"encoding/hex"
	"fmt"
)

func unhex(s string) []byte {
	b, err := hex.DecodeString(s)
	if err != nil {
		panic(err)
	}
	return b
}

func rep(b byte, n int) []byte { return bytes.Repeat([]byte{b}, n) }

func eqWords(a, b []uint32) bool {
	if len(a) != len(b) {
		return false
	}
	for i := range a {
		if a[i] != b[i] {
			return false
		}
	}
	return true
}

// SelfTest runs the published vectors through the textbook model.
func SelfTest() error {
	// --- ZUC-128 keystream: ZUC spec (ETSI/SAGE "Document 3", GB/T 33133.1 annex) ---
	for i, v := range []struct {
		key, iv string
		z       []uint32
	}{
		{"00000000000000000000000000000000", "00000000000000000000000000000000", []uint32{0x27bede74, 0x018082da}},
		{"ffffffffffffffffffffffffffffffff", "ffffffffffffffffffffffffffffffff", []uint32{0x0657cfa0, 0x7096398b}},
		{"3d4c4be96a82fdaeb58f641db17b455b", "84319aa8de6915ca1f6bda6bfbd8c766", []uint32{0x14f1c272, 0x3279c419}},
	} {
		if got := Keystream128(unhex(v.key), unhex(v.iv), 2); !eqWords(got, v.z) {
			return fmt.Errorf("zucm: ZUC-128 keystream vector %d: got %08x want %08x", i+1, got, v.z)
		}
	}
	// test vector 4 of the same document: z1, z2 and z2000
	z := Keystream128(unhex("4d320bfad4c285bfd6b8bd00f39d8b41"), unhex("52959daba0bf176ece2dc315049eb574"), 2000)
	if z[0] != 0xed4400e7 || z[1] != 0x0633e5c5 || z[1999] != 0x7a574cdb {
		return fmt.Errorf("zucm: ZUC-128 keystream vector 4: got %08x %08x .. %08x", z[0], z[1], z[1999])
	}

	// --- 128-EEA3: TS 35.223 test sets 1 (193 bits) and 2 (800 bits) ---
	for i, v := range []struct {
		key                      string
		count, bearer, direction uint32
		nbits                    int
		in, out                  string
	}{
		{"173d14ba5003731d7a60049470f00a29", 0x66035492, 0xf, 0, 193,
			"6cf65340735552ab0c9752fa6f9025fe0bd675d9005875b200",
			"a6c85fc66afb8533aafc2518dfe784940ee1e4b030238cc800"},
		{"e5bd3ea0eb55ade866c6ac58bd54302a", 0x56823, 0x18, 1, 800,
			"14a8ef693d678507bbe7270a7f67ff5006c3525b9807e467c4e56000ba338f5d429559036751822246c80d3b38f07f4be2d8ff5805f5132229bde93bbbdcaf382bf1ee972fbf9977bada8945847a2a6c9ad34a667554e04d1f7fa2c33241bd8f01ba220d",
			"131d43e0dea1be5c5a1bfd971d852cbf712d7b4f57961fea3208afa8bca433f456ad09c7417e58bc69cf8866d1353f74865e80781d202dfb3ecff7fcbc3b190fe82a204ed0e350fc0f6f2613b2f2bca6df5a473a57a4a00d985ebad880d6f23864a07b01"},
	} {
		if got := EEA3(unhex(v.key), v.count, v.bearer, v.direction, unhex(v.in), v.nbits); !bytes.Equal(got, unhex(v.out)) {
			return fmt.Errorf("zucm: 128-EEA3 test set %d: got %x want %s", i+1, got, v.out)
		}
	}

	// --- 128-EIA3: TS 35.223 test sets 1 (1 bit), 2 (90 bits), 3 (577 bits) ---
	for _, v := range []struct {
		set                      int
		key                      string
		count, bearer, direction uint32
		nbits                    int
		msg                      string
		mac                      uint32
	}{
		{1, "00000000000000000000000000000000", 0, 0, 0, 1, "00000000", 0xc8a9595e},
		{2, "47054125561eb2dda94059da05097850", 0x561eb2dd, 0x14, 0, 90, "000000000000000000000000", 0x6719a088},
		{3, "c9e6cec4607c72db000aefa88385ab0a", 0xa94059da, 0x0a, 1, 577,
			"983b41d47d780c9e1ad11d7eb70391b1de0b35da2dc62f83e7b78d6306ca0ea07e941b7be91348f9fcb170e2217fecd9" +
				"7f9f68adb16e5d7d21e569d280ed775cebde3f4093c5388100000000", 0xfae8ff0b},
	} {
		if got := EIA3(unhex(v.key), EIAIV(v.count, v.bearer, v.direction), unhex(v.msg), v.nbits); got != v.mac {
			return fmt.Errorf("zucm: 128-EIA3 test set %d: got %08x want %08x", v.set, got, v.mac)
		}
	}

	// --- ZUC-256 keystream and MAC: "The ZUC-256 Stream Cipher" (2018), test vectors ---
	// The all-ones IV of the document is 17 bytes ff and eight 6-bit values 3f,
	// which is 23 bytes ff in the packed form; both forms are exercised.
	k0, k1 := rep(0, 32), rep(0xff, 32)
	iv0, iv1 := rep(0, 25), append(rep(0xff, 17), rep(0x3f, 8)...)
	iv0p, iv1p := rep(0, 23), rep(0xff, 23)
	ks0 := []uint32{
		0x58d03ad6, 0x2e032ce2, 0xdafc683a, 0x39bdcb03, 0x52a2bc67, 0xf1b7de74, 0x163ce3a1, 0x01ef5558, 0x9639d75b, 0x95fa681b,
		0x7f090df7, 0x56391ccc, 0x903b7612, 0x744d544c, 0x17bc3fad, 0x8b163b08, 0x21787c0b, 0x97775bb8, 0x4943c6bb, 0xe8ad8afd}
	ks1 := []uint32{
		0x3356cbae, 0xd1a1c18b, 0x6baa4ffe, 0x343f777c, 0x9e15128f, 0x251ab65b, 0x949f7b26, 0xef7157f2, 0x96dd2fa9, 0xdf95e3ee,
		0x7a5be02e, 0xc32ba585, 0x505af316, 0xc2f9ded2, 0x7cdbd935, 0xe441ce11, 0x15fd0a80, 0xbb7aef67, 0x68989416, 0xb8fac8c2}
	for i, v := range []struct {
		key, iv []byte
		z       []uint32
	}{{k0, iv0, ks0}, {k0, iv0p, ks0}, {k1, iv1, ks1}, {k1, iv1p, ks1}} {
		if got := Keystream256(v.key, v.iv, 20); !eqWords(got, v.z) {
			return fmt.Errorf("zucm: ZUC-256 keystream vector %d: got %08x", i, got)
		}
	}
	m0, m1 := rep(0, 50), rep(0x11, 500) // 400 zero bits; 4000 bits of 0x11
	for i, v := range []struct {
		key, iv, ivp, msg    []byte
		mac32, mac64, mac128 string
	}{
		{k0, iv0, iv0p, m0, "9b972a74", "673e54990034d38c", "d85e54bbcb9600967084c952a1654b26"},
		{k0, iv0, iv0p, m1, "8754f5cf", "130dc225e72240cc", "df1e8307b31cc62beca1ac6f8190c22f"},
		{k1, iv1, iv1p, m0, "1f3079b4", "8c71394d39957725", "a35bb274b567c48b28319f111af34fbd"},
		{k1, iv1, iv1p, m1, "5c7c8b88", "ea1dee544bb6223b", "3a83b554be408ca5494124ed9d473205"},
	} {
		for _, iv := range [][]byte{v.iv, v.ivp} {
			for _, w := range []struct {
				size int
				mac  string
			}{{4, v.mac32}, {8, v.mac64}, {16, v.mac128}} {
				if got := MAC256(v.key, iv, w.size, v.msg, 8*len(v.msg)); !bytes.Equal(got, unhex(w.mac)) {
					return fmt.Errorf("zucm: ZUC-256 MAC vector %d, %d byte tag, %d byte iv: got %x want %s", i+1, w.size, len(iv), got, w.mac)
				}
			}
		}
	}
	return nil
}
