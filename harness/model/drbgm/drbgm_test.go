package drbgm

import (
	"bytes"
	"crypto/aes"
	"crypto/cipher"
	"crypto/sha1"
	"crypto/sha256"
	"crypto/sha512"
	"errors"
	"fmt"
	"hash"
	"io"
	"math/rand/v2"
	"strings"
	"testing"
	"testing/synctest"
	"time"

	"github.com/emmansun/gmsm/drbg"
	"github.com/emmansun/gmsm/sm3"
	"github.com/emmansun/gmsm/sm4"
)

func TestSelfTest(t *testing.T) {
	if err := SelfTest(); err != nil {
		t.Fatal(err)
	}
}

// ---- configurations: mechanism x {NIST, GM} x hash/cipher ----

type config struct {
	name string
	p    Params
}

func (c config) lib(level drbg.SecurityLevel, ent, nonce, pers []byte) (drbg.DRBG, error) {
	var d drbg.DRBG
	var err error
	switch {
	case c.name == "Hash/GM/SM3": // exercise the convenience constructors too
		d, err = drbg.NewGMHashDrbg(level, ent, nonce, pers)
	case c.name == "CTR/GM/SM4":
		d, err = drbg.NewGMCtrDrbg(level, ent, nonce, pers)
	case c.p.Kind == Hash && !c.p.GM:
		d, err = drbg.NewNISTHashDrbg(c.p.NewHash, level, ent, nonce, pers)
	case c.p.Kind == HMAC && !c.p.GM:
		d, err = drbg.NewNISTHmacDrbg(c.p.NewHash, level, ent, nonce, pers)
	case c.p.Kind == CTR && !c.p.GM:
		d, err = drbg.NewNISTCtrDrbg(c.p.NewBlock, c.p.KeyLen, level, ent, nonce, pers)
	case c.p.Kind == Hash:
		d, err = drbg.NewHashDrbg(c.p.NewHash, level, true, ent, nonce, pers)
	case c.p.Kind == HMAC:
		d, err = drbg.NewHmacDrbg(c.p.NewHash, level, true, ent, nonce, pers)
	default:
		d, err = drbg.NewCtrDrbg(c.p.NewBlock, c.p.KeyLen, level, true, ent, nonce, pers)
	}
	if err != nil {
		return nil, err
	}
	return d, nil
}

func configs() []config {
	hashes := []struct {
		n string
		f func() hash.Hash
	}{
		{"SHA-1", sha1.New}, {"SHA-224", sha256.New224}, {"SHA-256", sha256.New}, {"SHA-384", sha512.New384},
		{"SHA-512", sha512.New}, {"SHA-512/224", sha512.New512_224}, {"SHA-512/256", sha512.New512_256}, {"SM3", sm3.New},
	}
	var cs []config
	for _, k := range []Kind{Hash, HMAC} {
		kn := map[Kind]string{Hash: "Hash", HMAC: "HMAC"}[k]
		for _, h := range hashes {
			cs = append(cs, config{kn + "/NIST/" + h.n, Params{Kind: k, NewHash: h.f}})
		}
		for _, h := range hashes { // the library accepts gm with any hash
			if h.n == "SM3" || h.n == "SHA-256" || h.n == "SHA-512" {
				cs = append(cs, config{kn + "/GM/" + h.n, Params{Kind: k, GM: true, NewHash: h.f}})
			}
		}
	}
	blocks := []struct {
		n string
		f func([]byte) (cipher.Block, error)
		k int
	}{{"AES-128", aes.NewCipher, 16}, {"AES-192", aes.NewCipher, 24}, {"AES-256", aes.NewCipher, 32}, {"SM4", sm4.NewCipher, 16}}
	for _, b := range blocks {
		cs = append(cs, config{"CTR/NIST/" + b.n, Params{Kind: CTR, NewBlock: b.f, KeyLen: b.k}})
	}
	cs = append(cs, config{"CTR/GM/SM4", Params{Kind: CTR, GM: true, NewBlock: sm4.NewCipher, KeyLen: 16}})
	cs = append(cs, config{"CTR/GM/AES-256", Params{Kind: CTR, GM: true, NewBlock: aes.NewCipher, KeyLen: 32}})
	return cs
}

func randBytes(r *rand.Rand, n int) []byte {
	b := make([]byte, n)
	for i := range b {
		b[i] = byte(r.Uint32())
	}
	return b
}

// optional input: nil, empty non-nil, or 1..70 random bytes
func optBytes(r *rand.Rand) []byte {
	switch r.IntN(5) {
	case 0, 1:
		return nil
	case 2:
		return []byte{}
	}
	return randBytes(r, 1+r.IntN(70))
}

// TestCrossCheck: 200 random histories of up to 6 ops per configuration, every
// output byte compared. Disagreements are reported, the model is never adapted.
func TestCrossCheck(t *testing.T) {
	const seed = 0x5eed0105
	for ci, c := range configs() {
		t.Run(c.name, func(t *testing.T) {
			r := rand.New(rand.NewPCG(seed, uint64(ci)))
			L := LimitsFor(c.p, LevelOne)
			sizes := []int{0, 1, 15, 16, 17, 31, 32, 33, 55, 64, 100, L.MaxBytesPerRequest, L.MaxBytesPerRequest + 1, 5000}
			bad, gens, reseeds, refused, nbytes := 0, 0, 0, 0, 0
			defer func() {
				t.Logf("%d Generate outputs (%d bytes) and %d Reseeds compared, %d oversized requests refused by both", gens, nbytes, reseeds, refused)
			}()
			for h := 0; h < 200 && bad < 3; h++ {
				ent := randBytes(r, L.MinEntropy+r.IntN(48))
				nonce := randBytes(r, L.MinNonce+r.IntN(24))
				pers := optBytes(r)
				hist := []string{fmt.Sprintf("Instantiate(entropy=%x nonce=%x pers=%x)", ent, nonce, pers)}
				fail := func(format string, a ...any) {
					bad++
					t.Errorf("DISAGREEMENT %s history %d, first differing op #%d: %s\n  history:\n    %s",
						c.name, h, len(hist)-1, fmt.Sprintf(format, a...), strings.Join(hist, "\n    "))
				}
				lib, err := c.lib(drbg.SECURITY_LEVEL_ONE, ent, nonce, pers)
				if err != nil {
					fail("library constructor: %v", err)
					continue
				}
				m := Instantiate(c.p, ent, nonce, pers)
				if got, want := lib.MaxBytesPerRequest(), L.MaxBytesPerRequest; got != want {
					fail("MaxBytesPerRequest lib=%d limits=%d", got, want)
					continue
				}
				nops := 1 + r.IntN(6)
			ops:
				for op := 0; op <= nops; op++ {
					switch {
					case op < nops && r.IntN(4) == 0:
						e, a := randBytes(r, L.MinReseedEntropy+r.IntN(48)), optBytes(r)
						hist = append(hist, fmt.Sprintf("Reseed(entropy=%x additional=%x)", e, a))
						if err := lib.Reseed(e, a); err != nil {
							fail("library Reseed: %v", err)
							break ops
						}
						m.Reseed(e, a)
						reseeds++
					default:
						n, a := sizes[r.IntN(len(sizes))], optBytes(r)
						if op == nops { // final flush: exposes a state difference left by the last op
							n, a = min(64, L.MaxBytesPerRequest), nil
						}
						hist = append(hist, fmt.Sprintf("Generate(n=%d additional=%x)", n, a))
						out := make([]byte, n)
						err := lib.Generate(out, a)
						if n > L.MaxBytesPerRequest && L.RequestSizeEnforced {
							// gating, not algorithm: library must refuse and leave its state alone
							// (later ops of this history check the state); model skips the op.
							if err == nil {
								fail("library accepted n=%d > MaxBytesPerRequest", n)
								break ops
							}
							if c.p.GM && m.Clone().Generate(n, a) != nil {
								fail("model defines GM output for n=%d", n)
							}
							refused++
							continue
						}
						if err != nil {
							fail("library Generate: %v", err)
							break ops
						}
						if want := m.Generate(n, a); !bytes.Equal(out, want) {
							i := 0
							for i < n && out[i] == want[i] {
								i++
							}
							fail("first differing byte %d\n  lib   %x\n  model %x", i, out, want)
							break ops
						}
						gens, nbytes = gens+1, nbytes+n
					}
				}
			}
		})
	}
}

// ---- limits.go against the library ----

func TestLimitsBoundaries(t *testing.T) {
	for _, c := range configs() {
		L := LimitsFor(c.p, LevelOne)
		z := make([]byte, 256)
		mk := func(e, n int) error { _, err := c.lib(drbg.SECURITY_LEVEL_ONE, z[:e], z[:n], nil); return err }
		if err := mk(L.MinEntropy, L.MinNonce); err != nil {
			t.Errorf("%s: min entropy/nonce rejected: %v", c.name, err)
			continue
		}
		if mk(L.MinEntropy-1, L.MinNonce) == nil {
			t.Errorf("%s: entropy %d accepted", c.name, L.MinEntropy-1)
		}
		if mk(L.MinEntropy, L.MinNonce-1) == nil {
			t.Errorf("%s: nonce %d accepted", c.name, L.MinNonce-1)
		}
		d, _ := c.lib(drbg.SECURITY_LEVEL_ONE, z[:L.MinEntropy], z[:L.MinNonce], nil)
		if err := d.Reseed(z[:L.MinReseedEntropy], nil); err != nil {
			t.Errorf("%s: reseed entropy %d rejected: %v", c.name, L.MinReseedEntropy, err)
		}
		if d.Reseed(z[:L.MinReseedEntropy-1], nil) == nil {
			t.Errorf("%s: reseed entropy %d accepted", c.name, L.MinReseedEntropy-1)
		}
		if got := d.MaxBytesPerRequest(); got != L.MaxBytesPerRequest {
			t.Errorf("%s: MaxBytesPerRequest %d, limits %d", c.name, got, L.MaxBytesPerRequest)
		}
		if err := d.Generate(make([]byte, L.MaxBytesPerRequest), nil); err != nil {
			t.Errorf("%s: max request rejected: %v", c.name, err)
		}
		if err := d.Generate(make([]byte, L.MaxBytesPerRequest+1), nil); (err != nil) != L.RequestSizeEnforced {
			t.Errorf("%s: max+1 request: err=%v, limits say enforced=%v", c.name, err, L.RequestSizeEnforced)
		}
	}
}

// Upper bounds: every check is `len >= MAX` => reject. The reject side is cheap
// (checks precede allocation); the accept side (MAX-1) is probed once.
func TestLimitsUpperBounds(t *testing.T) {
	big := make([]byte, 1<<27)
	for _, c := range configs() {
		L := LimitsFor(c.p, LevelOne)
		e, n := big[:L.MinEntropy], big[:L.MinNonce]
		mk := func(e, n, p []byte) error { _, err := c.lib(drbg.SECURITY_LEVEL_ONE, e, n, p); return err }
		if mk(big[:L.MaxEntropy+1], n, nil) == nil || mk(e, big[:L.MaxNonce+1], nil) == nil || mk(e, n, big[:L.MaxPers+1]) == nil {
			t.Errorf("%s: over-long entropy/nonce/personalization accepted", c.name)
		}
		d, _ := c.lib(drbg.SECURITY_LEVEL_ONE, e, n, nil)
		if d.Reseed(big[:L.MaxEntropy+1], nil) == nil || d.Reseed(big[:L.MinReseedEntropy], big[:L.MaxAdditional+1]) == nil {
			t.Errorf("%s: over-long reseed entropy/additional accepted", c.name)
		}
	}
	if testing.Short() {
		return
	}
	c := config{"Hash/NIST/SHA-256", Params{Kind: Hash, NewHash: sha256.New}}
	L := LimitsFor(c.p, LevelOne)
	d, err := c.lib(drbg.SECURITY_LEVEL_ONE, big[:L.MaxEntropy], big[:1], nil)
	if err != nil {
		t.Fatalf("entropy of MaxEntropy bytes rejected: %v", err)
	}
	if _, err := c.lib(drbg.SECURITY_LEVEL_ONE, big[:1], big[:L.MaxNonce], nil); err != nil {
		t.Errorf("nonce of MaxNonce bytes rejected: %v", err)
	}
	if err := d.Reseed(big[:1], big[:L.MaxAdditional]); err != nil {
		t.Errorf("additional of MaxAdditional bytes rejected: %v", err)
	}
}

// Rule 1: exactly I successful Generate calls between seeds, strict >.
func TestReseedCounterRule(t *testing.T) {
	levels := []struct {
		lib drbg.SecurityLevel
		m   SecurityLevel
	}{{drbg.SECURITY_LEVEL_TEST, LevelTest}, {drbg.SECURITY_LEVEL_TWO, LevelTwo}, {drbg.SecurityLevel(0x55), SecurityLevel(0x55)}}
	for _, c := range configs() {
		for _, lv := range levels {
			L := LimitsFor(c.p, lv.m)
			if lv.m == SecurityLevel(0x55) { // unknown level == level one; too long to count, check the others only
				if L != LimitsFor(c.p, LevelOne) {
					t.Errorf("unknown level limits differ from level one")
				}
				continue
			}
			z := make([]byte, 64)
			d, err := c.lib(lv.lib, z[:L.MinEntropy], z[:L.MinNonce], nil)
			if err != nil {
				t.Fatal(err)
			}
			for round := 0; round < 2; round++ { // after instantiate, after reseed
				ok := uint64(0)
				for ; ok < L.ReseedIntervalCounter+5; ok++ {
					if err := d.Generate(make([]byte, ok%2), nil); err != nil { // 0- and 1-byte requests both count
						if err != drbg.ErrReseedRequired {
							t.Fatal(err)
						}
						break
					}
				}
				if ok != L.ReseedIntervalCounter || !d.NeedReseed() {
					t.Errorf("%s level %#x round %d: %d successful Generates, limits say %d", c.name, int(lv.m), round, ok, L.ReseedIntervalCounter)
				}
				if err := d.Generate(make([]byte, 1), nil); err != drbg.ErrReseedRequired {
					t.Errorf("%s: ErrReseedRequired is not sticky: %v", c.name, err)
				}
				if err := d.Generate(make([]byte, 5000), nil); c.p.Kind != HMAC && err != drbg.ErrReseedRequired {
					t.Errorf("%s: oversized request on exhausted DRBG: %v (reseed test should come first)", c.name, err)
				}
				if err := d.Reseed(z[:L.MinReseedEntropy], nil); err != nil {
					t.Fatal(err)
				}
			}
		}
	}
}

// Rule 2: GM time rule, strict >, time.Since on the (fake) monotonic clock.
func TestGMTimeRule(t *testing.T) {
	for _, c := range configs() {
		synctest.Test(t, func(t *testing.T) {
			L := LimitsFor(c.p, LevelTest)
			z := make([]byte, 64)
			d, err := c.lib(drbg.SECURITY_LEVEL_TEST, z[:L.MinEntropy], z[:L.MinNonce], nil)
			if err != nil {
				t.Fatal(err)
			}
			gen := func() error { return d.Generate(make([]byte, 1), nil) }
			if !c.p.GM {
				if L.ReseedIntervalTime != 0 {
					t.Errorf("%s: non-GM time interval", c.name)
				}
				time.Sleep(1000 * time.Hour)
				if err := gen(); err != nil {
					t.Errorf("%s: NIST instance affected by time: %v", c.name, err)
				}
				return
			}
			for round := 0; round < 2; round++ {
				time.Sleep(L.ReseedIntervalTime) // elapsed == interval: still fine
				if err := gen(); err != nil {
					t.Errorf("%s round %d: at elapsed==interval: %v", c.name, round, err)
				}
				time.Sleep(1) // successful Generate must not have refreshed reseedTime
				if err := gen(); err != drbg.ErrReseedRequired {
					t.Errorf("%s round %d: at interval+1ns: %v", c.name, round, err)
				}
				if err := d.Reseed(z[:L.MinReseedEntropy], nil); err != nil {
					t.Fatal(err)
				}
			}
		})
	}
}

// ---- Rule 3: DrbgPrng.Read against a simulation built from the model ----

// source is a deterministic entropy source that logs every Read size and can
// be told to misbehave on the k-th Read.
type source struct {
	next  byte
	reads []int
	fault func(call int, p []byte) (int, error, bool)
}

func (s *source) Read(p []byte) (int, error) {
	s.reads = append(s.reads, len(p))
	for i := range p {
		p[i] = s.next
		s.next++
	}
	if s.fault != nil {
		if n, err, hit := s.fault(len(s.reads), p); hit {
			return n, err
		}
	}
	return len(p), nil
}

func newPrng(c config, src io.Reader, strength int, level drbg.SecurityLevel, pers []byte) (*drbg.DrbgPrng, error) {
	switch c.p.Kind {
	case Hash:
		return drbg.NewHashDrbgPrng(c.p.NewHash, src, strength, c.p.GM, level, pers)
	case HMAC:
		return drbg.NewHmacDrbgPrng(c.p.NewHash, src, strength, c.p.GM, level, pers)
	}
	return drbg.NewCtrDrbgPrng(c.p.NewBlock, c.p.KeyLen, src, strength, c.p.GM, level, pers)
}

func selectStrength(req int) int {
	for _, s := range []int{14, 16, 24, 32} {
		if req <= s {
			return s
		}
	}
	return req
}

func TestPrngRead(t *testing.T) {
	for ci, c := range configs() {
		synctest.Test(t, func(t *testing.T) {
			r := rand.New(rand.NewPCG(7, uint64(ci)))
			L := LimitsFor(c.p, LevelTest)
			for _, req := range []int{0, 15, 16, 20, 32, 40, 64} {
				ss := selectStrength(req)
				lsrc, msrc := &source{}, &source{}
				pers := optBytes(r)
				prng, err := newPrng(c, lsrc, req, drbg.SECURITY_LEVEL_TEST, pers)
				wantErr := (c.p.GM && c.p.Kind != HMAC && req < 32) || ss < L.MinEntropy || ss/2 < L.MinNonce
				if (err != nil) != wantErr {
					t.Errorf("%s strength %d: constructor err=%v, predicted error=%v", c.name, req, err, wantErr)
				}
				if err != nil {
					continue
				}
				take := func(n int) []byte { b := make([]byte, n); msrc.Read(b); return b }
				ent := take(ss)
				m := Instantiate(c.p, ent, take(ss/2), pers)
				seeded := time.Now()
				reseedBroken := ss < L.MinReseedEntropy // gm HMAC asymmetry
				for i := 0; i < 12; i++ {
					n := []int{0, 1, 16, 33, 100, 2048, 2049, 5000}[r.IntN(8)]
					if r.IntN(4) == 0 {
						time.Sleep([]time.Duration{time.Second, 6 * time.Second, 6*time.Second + 1}[r.IntN(3)])
					}
					var want []byte
					wantFail := false
					for left := n; left > 0 && !wantFail; {
						chunk := min(left, L.MaxBytesPerRequest)
						if m.ReseedCounter > L.ReseedIntervalCounter || (c.p.GM && time.Since(seeded) > L.ReseedIntervalTime) {
							e := take(ss)
							if reseedBroken {
								wantFail = true
								break
							}
							m.Reseed(e, nil)
							seeded = time.Now()
						}
						want = append(want, m.Generate(chunk, nil)...)
						left -= chunk
					}
					got := make([]byte, n)
					k, err := prng.Read(got)
					if wantFail {
						if err == nil || k != 0 {
							t.Errorf("%s strength %d: expected reseed failure, got n=%d err=%v", c.name, req, k, err)
						}
						if !bytes.Equal(got[:len(want)], want) {
							t.Errorf("%s: bytes delivered before the failure differ", c.name)
						}
						continue
					}
					if err != nil || k != n || !bytes.Equal(got, want) {
						t.Errorf("%s strength %d Read #%d (n=%d): k=%d err=%v equal=%v", c.name, req, i, n, k, err, bytes.Equal(got, want))
						break
					}
				}
				if fmt.Sprint(lsrc.reads) != fmt.Sprint(msrc.reads) {
					t.Errorf("%s strength %d: entropy source reads\n lib   %v\n model %v", c.name, req, lsrc.reads, msrc.reads)
				}
			}
		})
	}
}

func TestPrngEntropyErrors(t *testing.T) {
	c := config{"Hash/NIST/SHA-256", Params{Kind: Hash, NewHash: sha256.New}}
	boom := errors.New("boom")
	faultAt := func(call int, f func(p []byte) (int, error)) func(int, []byte) (int, error, bool) {
		return func(k int, p []byte) (int, error, bool) {
			if k == call {
				n, err := f(p)
				return n, err, true
			}
			return 0, nil, false
		}
	}
	short := func(p []byte) (int, error) { return len(p) - 1, nil }
	fullEOF := func(p []byte) (int, error) { return len(p), io.EOF }
	fail := func(p []byte) (int, error) { return 0, boom }

	// construction: call 1 = entropy, call 2 = nonce
	for call := 1; call <= 2; call++ {
		if _, err := newPrng(c, &source{fault: faultAt(call, short)}, 32, drbg.SECURITY_LEVEL_TEST, nil); err == nil || err.Error() != "drbg: fail to read enough entropy input" {
			t.Errorf("short read at construction call %d: %v", call, err)
		}
		if _, err := newPrng(c, &source{fault: faultAt(call, fullEOF)}, 32, drbg.SECURITY_LEVEL_TEST, nil); err != io.EOF {
			t.Errorf("(len, EOF) at construction call %d: %v", call, err)
		}
	}
	// reseed (call 3) fails in the middle of a Read spanning the interval
	for name, f := range map[string]func([]byte) (int, error){"short": short, "eof": fullEOF, "err": fail} {
		src := &source{fault: faultAt(3, f)}
		prng, err := newPrng(c, src, 32, drbg.SECURITY_LEVEL_TEST, nil)
		if err != nil {
			t.Fatal(err)
		}
		buf := make([]byte, 9*2048) // 9 chunks, interval 8
		n, err := prng.Read(buf)
		if n != 0 || err == nil {
			t.Errorf("%s: Read = %d, %v; want 0, error", name, n, err)
		}
		if name == "err" && err != boom {
			t.Errorf("entropy error not returned verbatim: %v", err)
		}
		if bytes.Equal(buf[:8*2048], make([]byte, 8*2048)) || !bytes.Equal(buf[8*2048:], make([]byte, 2048)) {
			t.Errorf("%s: expected first 8 chunks filled and last chunk untouched although n == 0", name)
		}
		// next Read retries the reseed (call 4 succeeds) and works
		if n, err := prng.Read(buf[:10]); n != 10 || err != nil {
			t.Errorf("%s: Read after failed reseed = %d, %v", name, n, err)
		}
		if fmt.Sprint(src.reads) != "[32 16 32 32]" {
			t.Errorf("%s: source reads %v", name, src.reads)
		}
	}
}
