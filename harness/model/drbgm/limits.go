package drbgm

import "time"

// This file is a BOOKKEEPING model of the library's gating rules (which inputs
// are accepted, when a reseed is demanded), read from /repo/drbg/common.go,
// hash_drbg.go, hmac_drbg.go, ctr_drbg.go. Anchor: SP 800-90A rev.1 tables 2/3
// and 9.3.1 where a rule exists there; otherwise the library source itself
// (weak anchor, stated per item).
//
// # Comparison with SP 800-90A tables 2 and 3
//
//	                             SP 800-90A               library
//	min entropy (NIST mode)      security_strength        1 byte  ("we just check <=0 now",
//	                                                      hash_drbg.go:34-35, hmac_drbg.go:31-32, ctr_drbg.go:28-29)
//	                                                      => WEAKER than the standard: 8.6.3/8.6.7
//	                                                      minimum lengths are not enforced.
//	max entropy/pers/additional  2^35 bits = 2^32 bytes   < MAX_BYTES = 2^27 bytes (common.go:24), stricter, allowed
//	max nonce                    -                        < MAX_BYTES>>1 = 2^26 bytes
//	max bytes per request        2^19 bits = 65536 bytes  MAX_BYTES_PER_GENERATE = 2^11 bytes (common.go:25), stricter, allowed
//	reseed_interval              2^48 requests            level 1: 2^20, level 2: 2^10, test: 8 (common.go:16-18), stricter, allowed
//
// Every length test in the library is `len(x) >= MAX` => reject, so the largest
// accepted length is MAX-1.
//
// # GM mode (library-anchored; GM/T 0105-2021 text unavailable)
//
//	Hash: entropy >= hashSize bytes at instantiate AND reseed (hash_drbg.go:35,94),
//	      nonce >= hashSize/2 (hash_drbg.go:40), request <= hashSize (hash_drbg.go:155,166).
//	CTR:  entropy >= 32 at instantiate AND reseed (ctr_drbg.go:29,80), nonce >= 16
//	      (ctr_drbg.go:34), request <= blocklen = len(V) (ctr_drbg.go:117,128).
//	      The 32/16 are literals, not derived from keyLen.
//	HMAC: gm flag accepted although the standard has no HMAC mechanism. Only
//	      effect on lengths: RESEED entropy >= hashSize (hmac_drbg.go:98). Instantiate
//	      has no gm length check (hmac_drbg.go:32,37): MinEntropy 1, MinReseedEntropy hashSize.
//	All:  a time based reseed interval on top of the counter (rule 2 below).
//
// # Quirks worth knowing when driving the library
//
//   - HmacDrbg.Generate has NO request size check at all (hmac_drbg.go:65-92);
//     MaxBytesPerRequest() still advertises 2048 (hmac_drbg.go:111-113). Limits
//     reports this as RequestSizeEnforced=false.
//   - No Generate checks len(additional); MaxAdditional applies to Reseed only
//     (hash_drbg.go:98, hmac_drbg.go:102, ctr_drbg.go:84).
//   - In Generate the reseed test comes first, the size test second
//     (hash_drbg.go:163,166; ctr_drbg.go:124,128): an oversized request on a
//     DRBG that needs reseeding reports ErrReseedRequired.
//   - A rejected Generate/Reseed leaves V, C/Key, reseed counter and reseed time
//     untouched (all checks precede all state writes).
//   - An unknown SecurityLevel value silently gets the level-1 constants
//     (default branch, common.go:253-255).
//
// # Rule 1: ErrReseedRequired and the reseed counter
//
// reseedCounter is set to 1 by every constructor (hash_drbg.go:75,
// hmac_drbg.go:53, ctr_drbg.go:63) and by every successful Reseed
// (hash_drbg.go:125, hmac_drbg.go:106, ctr_drbg.go:102). The first statement
// of every Generate is `if hd.NeedReseed() { return ErrReseedRequired }`
// (hash_drbg.go:163, hmac_drbg.go:67, ctr_drbg.go:124) with
//
//	NeedReseed = reseedCounter > reseedIntervalInCounter || (gm && time.Since(reseedTime) > reseedIntervalInTime)
//	                                                                         (common.go:241)
//
// i.e. a STRICT `>`. A successful Generate ends with reseedCounter++
// (hash_drbg.go:202, hmac_drbg.go:90, ctr_drbg.go:153); a failing one does not
// touch it. So the k-th Generate after a (re)seed sees counter == k and
// succeeds iff k <= I: exactly I successful Generate calls are possible between
// seeds for interval I, the (I+1)-th returns ErrReseedRequired, and keeps
// doing so until Reseed. The unit is CALLS, not bytes (a 0-byte Generate
// counts). This equals SP 800-90A 10.1.1.4/10.1.2.5/10.2.1.5.2 step 1
// ("If reseed_counter > reseed_interval") with reseed_counter = 1 after
// (re)seeding, so the library agrees with the standard here.
//
// # Rule 2: GM time rule
//
// reseedTime = time.Now() in every constructor and successful Reseed
// (hash_drbg.go:76,126; hmac_drbg.go:54,107; ctr_drbg.go:64,103). The test is
// `hd.gm && time.Since(hd.reseedTime) > hd.reseedIntervalInTime` (common.go:241):
// clock call time.Since (monotonic reading of time.Now, hence the fake clock
// inside a testing/synctest bubble), STRICT `>`: at elapsed == interval
// Generate still succeeds, at interval+1ns it returns ErrReseedRequired. The
// interval (6s / 60s / 600s for test / level 2 / level 1, common.go:20-22) is
// stored for NIST instances too but never consulted (`hd.gm &&`). Time is only
// looked at inside Generate; nothing reseeds spontaneously.
//
// # Rule 3: DrbgPrng (common.go)
//
// Construction (NewCtrDrbgPrng common.go:45-79, NewHashDrbgPrng :92-125,
// NewHmacDrbgPrng :138-168): entropySource nil => crypto/rand.Reader.
// securityStrength (BYTES) = selectSecurityStrength(requested) (common.go:261-274):
// <=14 -> 14, <=16 -> 16, <=24 -> 24, <=32 -> 32, larger values unchanged
// (zero/negative -> 14). Hash and CTR reject `gm && requested < 32`
// (common.go:54,100; checked on the raw argument); HMAC has no such check.
// Then exactly two getEntropy calls, in this order: securityStrength bytes of
// entropy input (common.go:59-60,105-106,148-149), then securityStrength/2
// bytes of nonce (common.go:66-67,112-113,155-156), both from the same source;
// then the mechanism constructor (whose own length checks may still fail, e.g.
// gm Hash with a 64-byte hash and strength 32).
//
// getEntropy (common.go:175-184) issues ONE entropySource.Read(buf) - not
// io.ReadFull. err != nil => that error is returned verbatim (also when n ==
// len(buf), e.g. a reader returning (n, io.EOF)); err == nil but n != len(buf)
// => errors.New("drbg: fail to read enough entropy input"). A short read that
// io.Reader permits is therefore an error, and the bytes already consumed from
// the source are lost.
//
// Read(data) (common.go:186-215): loop while len(data) > 0; chunk b = the
// first min(len(data), impl.MaxBytesPerRequest()) bytes (2048 NIST and any
// HMAC; hashSize for gm Hash; blocklen for gm CTR); impl.Generate(b, nil).
//   - nil error: advance by len(b). Each chunk costs one reseed-counter tick.
//   - ErrReseedRequired (counter or gm time, rule 1/2): read securityStrength
//     bytes with getEntropy (one Read call), impl.Reseed(entropy, nil), then
//     retry THE SAME chunk. No nonce, no additional input, no prediction
//     resistance; reseeding only ever happens lazily here.
//   - any entropy/Reseed/other Generate error: return (0, err) - n is 0 even if
//     earlier chunks of data were already filled; the DRBG state has advanced
//     for those chunks and is not rolled back. A later Read retries the reseed.
//
// Read(empty) returns (0, nil) without touching the DRBG. On success n ==
// len(data). With interval I a Read of L bytes performs ceil(L/max) Generate
// calls; a reseed happens before the chunk that would be call I+1.
// Consequence of the HMAC gm asymmetry: NewHmacDrbgPrng(gm=true) with
// securityStrength < hashSize constructs fine but every reseed fails with
// "drbg: invalid entropy length", so Read returns (0, err) forever once the
// first interval is used up.
type Limits struct {
	MinEntropy, MaxEntropy int // bytes accepted as entropy by the constructor
	MinReseedEntropy       int // bytes; differs from MinEntropy only for gm HMAC
	MinNonce, MaxNonce     int
	MaxPers, MaxAdditional int           // MaxAdditional: Reseed only, Generate never checks
	MaxBytesPerRequest     int           // what MaxBytesPerRequest() reports
	RequestSizeEnforced    bool          // false: Generate accepts longer requests (HMAC)
	ReseedIntervalCounter  uint64        // successful Generate calls between (re)seeds
	ReseedIntervalTime     time.Duration // GM mode only, 0 if none; strict >
}

// SecurityLevel mirrors drbg.SecurityLevel (common.go:29-35), same values.
type SecurityLevel int

const (
	LevelOne  SecurityLevel = 0x01 // drbg.SECURITY_LEVEL_ONE
	LevelTwo  SecurityLevel = 0x02 // drbg.SECURITY_LEVEL_TWO
	LevelTest SecurityLevel = 0x99 // drbg.SECURITY_LEVEL_TEST
)

const (
	maxBytes           = 1 << 27 // drbg.MAX_BYTES
	maxBytesPerRequest = 1 << 11 // drbg.MAX_BYTES_PER_GENERATE
)

func LimitsFor(p Params, level SecurityLevel) Limits {
	l := Limits{
		MinEntropy: 1, MinReseedEntropy: 1, MaxEntropy: maxBytes - 1,
		MinNonce: 1, MaxNonce: maxBytes>>1 - 1,
		MaxPers: maxBytes - 1, MaxAdditional: maxBytes - 1,
		MaxBytesPerRequest: maxBytesPerRequest, RequestSizeEnforced: p.Kind != HMAC,
	}
	switch level { // common.go:244-257
	case LevelTwo:
		l.ReseedIntervalCounter, l.ReseedIntervalTime = 1<<10, 60*time.Second
	case LevelTest:
		l.ReseedIntervalCounter, l.ReseedIntervalTime = 8, 6*time.Second
	default:
		l.ReseedIntervalCounter, l.ReseedIntervalTime = 1<<20, 600*time.Second
	}
	if !p.GM {
		l.ReseedIntervalTime = 0
		return l
	}
	d := &DRBG{P: p}
	switch p.Kind {
	case Hash:
		l.MinEntropy, l.MinReseedEntropy, l.MinNonce = d.outLen(), d.outLen(), d.outLen()/2
		l.MaxBytesPerRequest = d.outLen()
	case HMAC:
		l.MinReseedEntropy = d.outLen()
	case CTR:
		l.MinEntropy, l.MinReseedEntropy, l.MinNonce = 32, 32, 16
		l.MaxBytesPerRequest = d.outLen()
	}
	return l
}
