package drbgm

import (
	"bytes"
	"crypto/aes"
	"crypto/sha256"
	"crypto/sha512"
	"encoding/hex"
	"fmt"
)

// SelfTest runs the embedded NIST CAVP known answers (vectors.go) through the
// model: Instantiate; Reseed; Generate (discarded); Generate -> ReturnedBits.
// It also checks V after Instantiate and after the last Generate.
func SelfTest() error {
	unhex := func(s string) []byte {
		b, err := hex.DecodeString(s)
		if err != nil {
			panic(err)
		}
		return b
	}
	for i, k := range kats {
		p := Params{Kind: k.kind, KeyLen: k.keyLen}
		switch k.alg {
		case "SHA-256":
			p.NewHash = sha256.New
		case "SHA-512":
			p.NewHash = sha512.New
		case "AES":
			p.NewBlock = aes.NewCipher
		}
		d := Instantiate(p, unhex(k.entropy), unhex(k.nonce), unhex(k.pers))
		if !bytes.Equal(d.V, unhex(k.v0)) {
			return fmt.Errorf("drbgm: KAT %d: V after Instantiate = %x, want %s", i, d.V, k.v0)
		}
		d.Reseed(unhex(k.entropyReseed), unhex(k.addReseed))
		n := len(k.returned) / 2
		d.Generate(n, unhex(k.add1))
		got := d.Generate(n, unhex(k.add2))
		if !bytes.Equal(got, unhex(k.returned)) {
			return fmt.Errorf("drbgm: KAT %d: ReturnedBits = %x, want %s", i, got, k.returned)
		}
		if !bytes.Equal(d.V, unhex(k.v3)) {
			return fmt.Errorf("drbgm: KAT %d: final V = %x, want %s", i, d.V, k.v3)
		}
		if d.ReseedCounter != 3 {
			return fmt.Errorf("drbgm: KAT %d: reseed_counter = %d, want 3", i, d.ReseedCounter)
		}
	}
	return nil
}
