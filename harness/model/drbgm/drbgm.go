// Package drbgm is a slow, obvious reference model of the three DRBG
// mechanisms of NIST SP 800-90A rev.1, written from the specification text:
//
//	Hash_DRBG  10.1.1 (Hash_df 10.3.1, Hashgen 10.1.1.4)
//	HMAC_DRBG  10.1.2 (HMAC_DRBG_Update 10.1.2.2)
//	CTR_DRBG   10.2.1, the variant WITH derivation function
//	           (CTR_DRBG_Update 10.2.1.2, Block_Cipher_df 10.3.2, BCC 10.3.3),
//	           ctr_len = blocklen.
//
// It shares no code with github.com/emmansun/gmsm: the hash / block cipher are
// handed in by the caller, HMAC is written out from RFC 2104, and this package
// imports only the standard library.
//
// The model is the ALGORITHM only: no length validation and no reseed gating.
// Those are bookkeeping rules and live in limits.go.
//
// # GM mode (Params.GM) - deviations from the NIST model
//
// GM/T 0105-2021 is not available offline. Everything in the list below was
// learnt by reading the library under test (/repo/drbg/hash_drbg.go,
// ctr_drbg.go, hmac_drbg.go, common.go: every `gm` branch), so for these
// points the model is anchored on the library, NOT on an independent text.
// A model/library agreement in GM mode therefore only shows that the library
// is self-consistent with my reading of it. Deviations, complete list (G1 is
// the only one that changes a computed value; the code has exactly two GM
// branches: the G1 order in Reseed and the one-block cap in MaxRequest):
//
//	G1 Hash reseed: seed_material = 0x01 || entropy_input || V || additional_input
//	   (NIST 10.1.1.3 step 1: 0x01 || V || entropy_input || additional_input).
//	   [hash_drbg.go:103-109]
//	G2 Hash generate: returned_bits = leftmost(Hash(V), n), ONE hash block, no
//	   Hashgen counter loop; n <= outlen (32 bytes for SM3). NIST Hashgen with
//	   m = 1 computes exactly leftmost(Hash(V), n), so like G3 this is purely a
//	   smaller max_number_of_bits_per_request and needs no code branch here
//	   (checked: forcing the NIST path in GM mode changes no output).
//	   [hash_drbg.go:166,182-185]
//	G3 CTR generate: at most ONE block cipher output block per request
//	   (n <= blocklen = 16 bytes for SM4). The algorithm itself is the NIST one
//	   (a NIST generate of <= 16 bytes also produces exactly one block), so G3
//	   is purely a smaller max_number_of_bits_per_request.
//	   [ctr_drbg.go:128]
//	G4 HMAC: the standard defines no HMAC mechanism (hmac_drbg.go:12); the
//	   library nevertheless accepts a gm flag, which changes gating only
//	   (limits.go). Algorithmically GM HMAC == NIST HMAC.
//	G5 Everything else (instantiate, Hash_df, C, the V update
//	   V+H+C+reseed_counter, Block_Cipher_df, CTR update, reseed_counter
//	   handling) is identical to NIST in the library, and so here.
//	G6 Gating differences (min entropy/nonce lengths, reseed by elapsed time,
//	   security levels) are in limits.go.
//
// A GM request longer than one block has no defined output; Generate returns
// nil and leaves the state untouched (the library returns an error).
package drbgm

import (
	"crypto/cipher"
	"hash"
	"math/big"
)

type Kind int

const (
	Hash Kind = iota
	HMAC
	CTR
)

type Params struct {
	Kind     Kind
	GM       bool
	NewHash  func() hash.Hash                       // Hash, HMAC
	NewBlock func(key []byte) (cipher.Block, error) // CTR
	KeyLen   int                                    // CTR: 16/24/32 bytes
}

// DRBG is the working state of 8.3 / 10.1.1.1 / 10.1.2.1 / 10.2.1.1.
type DRBG struct {
	P             Params
	V             []byte // Hash: seedlen bytes; HMAC: outlen bytes; CTR: blocklen bytes
	C             []byte // Hash only, seedlen bytes
	Key           []byte // HMAC: outlen bytes; CTR: keylen bytes
	ReseedCounter uint64
}

func cat(parts ...[]byte) []byte {
	var out []byte
	for _, p := range parts {
		out = append(out, p...)
	}
	return out
}

func (d *DRBG) hash(parts ...[]byte) []byte {
	h := d.P.NewHash()
	h.Write(cat(parts...))
	return h.Sum(nil)
}

// outLen is outlen (Hash/HMAC) or blocklen (CTR), in bytes.
func (d *DRBG) outLen() int {
	if d.P.Kind == CTR {
		return d.block(make([]byte, d.P.KeyLen)).BlockSize()
	}
	return d.P.NewHash().Size()
}

// seedLen in bytes. Hash: table 2, 440 bits for outlen <= 256 (SHA-1, SHA-224,
// SHA-512/224, SHA-256, SHA-512/256; SM3 has outlen 256 and is placed in the
// same row), 888 bits for SHA-384 / SHA-512. CTR: table 3, outlen + keylen.
func (d *DRBG) seedLen() int {
	switch {
	case d.P.Kind == CTR:
		return d.outLen() + d.P.KeyLen
	case d.outLen() <= 32:
		return 440 / 8
	default:
		return 888 / 8
	}
}

// MaxRequest is the longest request for which Generate is defined: 2^19 bits
// for NIST (tables 2 and 3); one output block in GM mode (G2, G3, not G4).
func (d *DRBG) MaxRequest() int {
	if d.P.GM && d.P.Kind != HMAC {
		return d.outLen()
	}
	return 1 << 16
}

func Instantiate(p Params, entropy, nonce, pers []byte) *DRBG {
	d := &DRBG{P: p}
	switch p.Kind {
	case Hash: // 10.1.1.2
		seedMaterial := cat(entropy, nonce, pers)
		d.V = d.hashDf(seedMaterial, d.seedLen())
		d.C = d.hashDf(cat([]byte{0x00}, d.V), d.seedLen())
	case HMAC: // 10.1.2.3
		d.Key = make([]byte, d.outLen()) // 0x00 00 ... 00
		d.V = make([]byte, d.outLen())   // 0x01 01 ... 01
		for i := range d.V {
			d.V[i] = 0x01
		}
		d.hmacUpdate(cat(entropy, nonce, pers))
	case CTR: // 10.2.1.3.2
		seedMaterial := d.blockCipherDf(cat(entropy, nonce, pers), d.seedLen())
		d.Key = make([]byte, p.KeyLen)
		d.V = make([]byte, d.outLen())
		d.ctrUpdate(seedMaterial)
	}
	d.ReseedCounter = 1
	return d
}

func (d *DRBG) Reseed(entropy, additional []byte) {
	switch d.P.Kind {
	case Hash: // 10.1.1.3
		seedMaterial := cat([]byte{0x01}, d.V, entropy, additional)
		if d.P.GM { // G1
			seedMaterial = cat([]byte{0x01}, entropy, d.V, additional)
		}
		d.V = d.hashDf(seedMaterial, d.seedLen())
		d.C = d.hashDf(cat([]byte{0x00}, d.V), d.seedLen())
	case HMAC: // 10.1.2.4
		d.hmacUpdate(cat(entropy, additional))
	case CTR: // 10.2.1.4.2
		d.ctrUpdate(d.blockCipherDf(cat(entropy, additional), d.seedLen()))
	}
	d.ReseedCounter = 1
}

// Generate returns n bytes. "additional_input = Null" is len(additional) == 0.
func (d *DRBG) Generate(n int, additional []byte) []byte {
	if n > d.MaxRequest() {
		return nil
	}
	var out []byte
	switch d.P.Kind {
	case Hash: // 10.1.1.4
		if len(additional) > 0 {
			w := d.hash([]byte{0x02}, d.V, additional)
			d.V = d.addMod(d.V, w)
		}
		out = d.hashgen(n) // GM (G2): n <= outlen, so this is leftmost(Hash(V), n)
		h := d.hash([]byte{0x03}, d.V)
		rc := new(big.Int).SetUint64(d.ReseedCounter).Bytes()
		d.V = d.addMod(d.V, h, d.C, rc)
	case HMAC: // 10.1.2.5
		if len(additional) > 0 {
			d.hmacUpdate(additional)
		}
		for len(out) < n {
			d.V = hmacSum(d.P.NewHash, d.Key, d.V)
			out = append(out, d.V...)
		}
		out = out[:n]
		d.hmacUpdate(additional)
	case CTR: // 10.2.1.5.2
		if len(additional) > 0 {
			additional = d.blockCipherDf(additional, d.seedLen())
			d.ctrUpdate(additional)
		} else {
			additional = make([]byte, d.seedLen())
		}
		for len(out) < n {
			d.V = inc(d.V)
			out = append(out, d.encrypt(d.Key, d.V)...)
		}
		out = out[:n]
		d.ctrUpdate(additional)
	}
	d.ReseedCounter++
	return out
}

func (d *DRBG) Clone() *DRBG {
	c := *d
	c.V, c.C, c.Key = cat(d.V), cat(d.C), cat(d.Key)
	return &c
}

// ---- Hash_DRBG helpers ----

// hashDf is Hash_df (10.3.1); n is no_of_bits_to_return / 8.
func (d *DRBG) hashDf(input []byte, n int) []byte {
	var temp []byte
	bits := uint32(n * 8)
	for counter := byte(1); len(temp) < n; counter++ {
		temp = append(temp, d.hash([]byte{counter}, []byte{byte(bits >> 24), byte(bits >> 16), byte(bits >> 8), byte(bits)}, input)...)
	}
	return temp[:n]
}

// hashgen is Hashgen (10.1.1.4): data = V; W ||= Hash(data); data = data+1 mod 2^seedlen.
func (d *DRBG) hashgen(n int) []byte {
	var w []byte
	for data := d.V; len(w) < n; data = d.addMod(data, []byte{1}) {
		w = append(w, d.hash(data)...)
	}
	return w[:n]
}

// addMod returns (v + sum of terms) mod 2^(8*len(v)) as a len(v)-byte big-endian string.
func (d *DRBG) addMod(v []byte, terms ...[]byte) []byte {
	sum := new(big.Int).SetBytes(v)
	for _, t := range terms {
		sum.Add(sum, new(big.Int).SetBytes(t))
	}
	sum.Mod(sum, new(big.Int).Lsh(big.NewInt(1), uint(8*len(v))))
	return sum.FillBytes(make([]byte, len(v)))
}

// ---- HMAC_DRBG helpers ----

// hmacSum is HMAC(key, text) of RFC 2104: H(K^opad || H(K^ipad || text)).
func hmacSum(newHash func() hash.Hash, key, text []byte) []byte {
	h := newHash()
	if len(key) > h.BlockSize() {
		h.Write(key)
		key = h.Sum(nil)
	}
	ipad, opad := make([]byte, h.BlockSize()), make([]byte, h.BlockSize())
	copy(ipad, key)
	copy(opad, key)
	for i := range ipad {
		ipad[i] ^= 0x36
		opad[i] ^= 0x5c
	}
	h = newHash()
	h.Write(cat(ipad, text))
	inner := h.Sum(nil)
	h = newHash()
	h.Write(cat(opad, inner))
	return h.Sum(nil)
}

// hmacUpdate is HMAC_DRBG_Update (10.1.2.2).
func (d *DRBG) hmacUpdate(provided []byte) {
	d.Key = hmacSum(d.P.NewHash, d.Key, cat(d.V, []byte{0x00}, provided))
	d.V = hmacSum(d.P.NewHash, d.Key, d.V)
	if len(provided) == 0 {
		return
	}
	d.Key = hmacSum(d.P.NewHash, d.Key, cat(d.V, []byte{0x01}, provided))
	d.V = hmacSum(d.P.NewHash, d.Key, d.V)
}

// ---- CTR_DRBG helpers ----

func (d *DRBG) block(key []byte) cipher.Block {
	b, err := d.P.NewBlock(key)
	if err != nil {
		panic(err)
	}
	return b
}

func (d *DRBG) encrypt(key, in []byte) []byte {
	out := make([]byte, len(in))
	d.block(key).Encrypt(out, in)
	return out
}

// inc returns (v + 1) mod 2^(8*len(v)); ctr_len = blocklen.
func inc(v []byte) []byte {
	out := cat(v)
	for i := len(out) - 1; i >= 0; i-- {
		out[i]++
		if out[i] != 0 {
			break
		}
	}
	return out
}

func xor(a, b []byte) []byte {
	out := make([]byte, len(a))
	for i := range a {
		out[i] = a[i] ^ b[i]
	}
	return out
}

// ctrUpdate is CTR_DRBG_Update (10.2.1.2); len(provided) == seedlen.
func (d *DRBG) ctrUpdate(provided []byte) {
	var temp []byte
	for len(temp) < d.seedLen() {
		d.V = inc(d.V)
		temp = append(temp, d.encrypt(d.Key, d.V)...)
	}
	temp = xor(temp[:d.seedLen()], provided)
	d.Key = temp[:d.P.KeyLen]
	d.V = temp[d.P.KeyLen:]
}

// bcc is BCC (10.3.3): CBC-MAC with zero IV over whole blocks.
func (d *DRBG) bcc(key, data []byte) []byte {
	n := d.outLen()
	chain := make([]byte, n)
	for ; len(data) > 0; data = data[n:] {
		chain = d.encrypt(key, xor(chain, data[:n]))
	}
	return chain
}

func be32(x int) []byte { return []byte{byte(x >> 24), byte(x >> 16), byte(x >> 8), byte(x)} }

// blockCipherDf is Block_Cipher_df (10.3.2); n = number_of_bits_to_return / 8.
func (d *DRBG) blockCipherDf(input []byte, n int) []byte {
	outlen, keylen := d.outLen(), d.P.KeyLen
	s := cat(be32(len(input)), be32(n), input, []byte{0x80}) // S = L || N || input_string || 0x80
	for len(s)%outlen != 0 {
		s = append(s, 0)
	}
	k := make([]byte, keylen) // K = leftmost(0x000102...1F, keylen)
	for i := range k {
		k[i] = byte(i)
	}
	var temp []byte
	for i := 0; len(temp) < keylen+outlen; i++ {
		iv := make([]byte, outlen) // IV = i (32 bits) || 0^(outlen-32)
		copy(iv, be32(i))
		temp = append(temp, d.bcc(k, cat(iv, s))...)
	}
	k, x := temp[:keylen], temp[keylen:keylen+outlen]
	temp = nil
	for len(temp) < n {
		x = d.encrypt(k, x)
		temp = append(temp, x...)
	}
	return temp[:n]
}
