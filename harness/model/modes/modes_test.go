package modes

import (
	"bytes"
	"crypto/aes"
	"crypto/cipher"
	"crypto/des"
	"fmt"
	"math/rand"
	"os"
	"os/exec"
	"strconv"
	"strings"
	"testing"

	gmcipher "github.com/emmansun/gmsm/cipher"
	"github.com/emmansun/gmsm/sm4"
	xxts "golang.org/x/crypto/xts"

	"verif/harness/model/sm4m"
)

const maxLen = 400

// strict turns the known, documented library deviations (HCTR tweak
// absorption, XTS decrypt crash) from log lines into test failures.
var strict = os.Getenv("MODES_STRICT") != ""

func known(t *testing.T, format string, args ...any) {
	t.Helper()
	if strict {
		t.Errorf("KNOWN LIBRARY DEVIATION: "+format, args...)
	} else {
		t.Logf("KNOWN LIBRARY DEVIATION: "+format, args...)
	}
}

func TestSelf(t *testing.T) {
	if err := SelfTest(); err != nil {
		t.Fatal(err)
	}
}

func rnd(rng *rand.Rand, n int) []byte {
	b := make([]byte, n)
	rng.Read(b)
	return b
}

func modelSM4(key []byte) cipher.Block {
	b, err := sm4m.NewCipher(key)
	if err != nil {
		panic(err)
	}
	return b
}

func newModelSM4(key []byte) (cipher.Block, error) { return sm4m.NewCipher(key) }

// The library is exercised twice: over its own SM4 (which selects the
// assembly / fused mode implementations) and over the bare model cipher (which
// forces the library's generic mode code).
var libCiphers = []struct {
	name string
	new  func(key []byte) (cipher.Block, error)
}{
	{"lib-sm4", sm4.NewCipher},
	{"lib-generic", newModelSM4},
}

func blockMode(m cipher.BlockMode, src []byte) []byte {
	dst := make([]byte, len(src))
	m.CryptBlocks(dst, src)
	return dst
}

func stream(s cipher.Stream, src []byte) []byte {
	dst := make([]byte, len(src))
	s.XORKeyStream(dst, src)
	return dst
}

// firstDiff is the index of the first differing byte, or -1.
func firstDiff(a, b []byte) int {
	for i := 0; i < len(a) && i < len(b); i++ {
		if a[i] != b[i] {
			return i
		}
	}
	if len(a) != len(b) {
		return min(len(a), len(b))
	}
	return -1
}

func diff(t *testing.T, what string, n int, model, lib []byte) {
	t.Helper()
	if i := firstDiff(model, lib); i >= 0 {
		t.Errorf("DISAGREE %s len=%d (first differing byte %d)\n  model %x\n  lib   %x", what, n, i, model, lib)
	}
}

// ---------------------------------------------------------------- block modes

func TestBlockModesVsLibrary(t *testing.T) {
	rng := rand.New(rand.NewSource(1))
	for _, lc := range libCiphers {
		for n := 0; n <= maxLen; n += 16 {
			key, iv, src := rnd(rng, 16), rnd(rng, 16), rnd(rng, n)
			m := modelSM4(key)
			l, err := lc.new(key)
			if err != nil {
				t.Fatal(err)
			}
			diff(t, lc.name+" ECB enc", n, ECBEncrypt(m, src), blockMode(gmcipher.NewECBEncrypter(l), src))
			diff(t, lc.name+" ECB dec", n, ECBDecrypt(m, src), blockMode(gmcipher.NewECBDecrypter(l), src))
			diff(t, lc.name+" CBC enc", n, CBCEncrypt(m, iv, src), blockMode(cipher.NewCBCEncrypter(l, iv), src))
			diff(t, lc.name+" CBC dec", n, CBCDecrypt(m, iv, src), blockMode(cipher.NewCBCDecrypter(l, iv), src))
			diff(t, lc.name+" BC enc", n, BCEncrypt(m, iv, src), blockMode(gmcipher.NewBCEncrypter(l, iv), src))
			diff(t, lc.name+" BC dec", n, BCDecrypt(m, iv, src), blockMode(gmcipher.NewBCDecrypter(l, iv), src))

			me, err := OFBNLFEncrypt(newModelSM4, key, iv, src)
			if err != nil {
				t.Fatal(err)
			}
			md, err := OFBNLFDecrypt(newModelSM4, key, iv, src)
			if err != nil {
				t.Fatal(err)
			}
			le, err := gmcipher.NewOFBNLFEncrypter(lc.new, key, iv)
			if err != nil {
				t.Fatal(err)
			}
			ld, err := gmcipher.NewOFBNLFDecrypter(lc.new, key, iv)
			if err != nil {
				t.Fatal(err)
			}
			diff(t, lc.name+" OFBNLF enc", n, me, blockMode(le, src))
			diff(t, lc.name+" OFBNLF dec", n, md, blockMode(ld, src))

			// round trips of the model itself
			diff(t, "model ECB roundtrip", n, ECBDecrypt(m, ECBEncrypt(m, src)), src)
			diff(t, "model CBC roundtrip", n, CBCDecrypt(m, iv, CBCEncrypt(m, iv, src)), src)
			diff(t, "model BC roundtrip", n, BCDecrypt(m, iv, BCEncrypt(m, iv, src)), src)
			rt, _ := OFBNLFDecrypt(newModelSM4, key, iv, me)
			diff(t, "model OFBNLF roundtrip", n, rt, src)
		}
	}
}

// ---------------------------------------------------------------- stream modes

func TestStreamModesVsLibrary(t *testing.T) {
	rng := rand.New(rand.NewSource(2))
	for _, lc := range libCiphers {
		for n := 0; n <= maxLen; n++ {
			key, iv, src := rnd(rng, 16), rnd(rng, 16), rnd(rng, n)
			if n%7 == 0 { // force counter carries through several bytes
				for i := 16 - 1 - n%13; i < 16; i++ {
					iv[i] = 0xff
				}
			}
			m := modelSM4(key)
			l, err := lc.new(key)
			if err != nil {
				t.Fatal(err)
			}
			diff(t, lc.name+" CFB enc", n, CFBEncrypt(m, iv, src), stream(cipher.NewCFBEncrypter(l, iv), src))
			diff(t, lc.name+" CFB dec", n, CFBDecrypt(m, iv, src), stream(cipher.NewCFBDecrypter(l, iv), src))
			diff(t, lc.name+" OFB", n, OFB(m, iv, src), stream(cipher.NewOFB(l, iv), src))
			diff(t, lc.name+" CTR", n, CTR(m, iv, src), stream(cipher.NewCTR(l, iv), src))
			diff(t, "model CFB roundtrip", n, CFBDecrypt(m, iv, CFBEncrypt(m, iv, src)), src)
		}
	}
}

// ---------------------------------------------------------------- XTS

// xtsDecryptCrashes reports the lengths for which the library's SM4 XTS
// decryption is known to take the process down on amd64.
func xtsDecryptCrashes(n int) bool { return n >= 64 && n%64 >= 1 && n%64 <= 15 }

// gbDecDeviates reports the lengths at which the library's SM4 GB-XTS
// *decryption* (AVX2 assembly, /repo/internal/sm4/xts_amd64.s decryptSm4XtsGB)
// is observed to return wrong plaintext: after a 4-block batch the
// block-at-a-time loop avx2XtsSm4DecSingles doubles the tweak with the IEEE
// macro (avxMul2Inline) instead of the GB one (avxMul2GBInline). The loop only
// runs when at least 32 bytes remain after the batch, so everything from byte
// 128*(n/128)+80 on is wrong when n mod 128 is in 96..127.
func gbDecDeviates(n int) bool { return n%128 >= 96 }

type xtsCase struct {
	gb                bool
	key1, key2, tweak []byte
	sector            uint64
	useSector         bool
	newCipher         func([]byte) (cipher.Block, error)
}

func (c xtsCase) String() string {
	s := "XTS"
	if c.gb {
		s = "GB-XTS"
	}
	if c.useSector {
		s += "(sector)"
	}
	return s
}

func (c xtsCase) plainTweak() []byte {
	if c.useSector {
		return SectorTweak(c.sector)
	}
	return c.tweak
}

func (c xtsCase) lib(decrypt bool) cipher.BlockMode {
	var m cipher.BlockMode
	var err error
	switch {
	case !c.gb && !c.useSector && !decrypt:
		m, err = gmcipher.NewXTSEncrypter(c.newCipher, c.key1, c.key2, c.tweak)
	case !c.gb && !c.useSector && decrypt:
		m, err = gmcipher.NewXTSDecrypter(c.newCipher, c.key1, c.key2, c.tweak)
	case !c.gb && c.useSector && !decrypt:
		m, err = gmcipher.NewXTSEncrypterWithSector(c.newCipher, c.key1, c.key2, c.sector)
	case !c.gb && c.useSector && decrypt:
		m, err = gmcipher.NewXTSDecrypterWithSector(c.newCipher, c.key1, c.key2, c.sector)
	case c.gb && !c.useSector && !decrypt:
		m, err = gmcipher.NewGBXTSEncrypter(c.newCipher, c.key1, c.key2, c.tweak)
	case c.gb && !c.useSector && decrypt:
		m, err = gmcipher.NewGBXTSDecrypter(c.newCipher, c.key1, c.key2, c.tweak)
	case c.gb && c.useSector && !decrypt:
		m, err = gmcipher.NewGBXTSEncrypterWithSector(c.newCipher, c.key1, c.key2, c.sector)
	default:
		m, err = gmcipher.NewGBXTSDecrypterWithSector(c.newCipher, c.key1, c.key2, c.sector)
	}
	if err != nil {
		panic(err)
	}
	return m
}

func TestXTSVsLibrary(t *testing.T) {
	rng := rand.New(rand.NewSource(3))
	skipped := 0
	var gbDecBad []int
	for _, lc := range libCiphers {
		for n := 16; n <= maxLen; n++ {
			for variant := 0; variant < 4; variant++ {
				c := xtsCase{
					gb: variant&1 != 0, useSector: variant&2 != 0,
					key1: rnd(rng, 16), key2: rnd(rng, 16), tweak: rnd(rng, 16),
					sector: rng.Uint64(), newCipher: lc.new,
				}
				src := rnd(rng, n)
				b1, b2 := modelSM4(c.key1), modelSM4(c.key2)
				name := lc.name + " " + c.String()
				ct := XTSEncrypt(b1, b2, c.plainTweak(), src, c.gb)
				diff(t, name+" enc", n, ct, blockMode(c.lib(false), src))
				diff(t, "model "+c.String()+" roundtrip", n, XTSDecrypt(b1, b2, c.plainTweak(), ct, c.gb), src)
				if lc.name == "lib-sm4" && xtsDecryptCrashes(n) {
					skipped++ // covered by TestXTSDecryptCrashLengths in a subprocess
					continue
				}
				mdec, ldec := XTSDecrypt(b1, b2, c.plainTweak(), src, c.gb), blockMode(c.lib(true), src)
				if lc.name == "lib-sm4" && c.gb && gbDecDeviates(n) && !bytes.Equal(mdec, ldec) {
					// Library defect, see gbDecDeviates. Pin it down exactly, and
					// show it without the model: the library cannot decrypt
					// its own ciphertext.
					if at, want := firstDiff(mdec, ldec), n-n%128+80; at != want {
						t.Errorf("%s dec len=%d: deviation starts at byte %d, expected %d", name, n, at, want)
					}
					if bytes.Equal(blockMode(c.lib(true), blockMode(c.lib(false), src)), src) {
						t.Errorf("%s len=%d: library round trip unexpectedly works", name, n)
					}
					if variant == 1 {
						gbDecBad = append(gbDecBad, n)
					}
					continue
				}
				diff(t, name+" dec", n, mdec, ldec)
			}
		}
	}
	t.Logf("skipped %d in-process lib-sm4 XTS decrypt checks at crash-prone lengths", skipped)
	if len(gbDecBad) > 0 {
		known(t, "lib-sm4 GB-XTS decrypt returns wrong plaintext (and fails its own round trip) at lengths %v", gbDecBad)
	}
}

// Several block-aligned CryptBlocks calls on one library object continue the
// running tweak; the model expresses that with XTSTweakAfter/XTS*From.
func TestXTSMultiCallVsLibrary(t *testing.T) {
	rng := rand.New(rand.NewSource(5))
	for _, lc := range libCiphers {
		for iter := 0; iter < 200; iter++ {
			c := xtsCase{gb: iter&1 != 0, key1: rnd(rng, 16), key2: rnd(rng, 16), tweak: rnd(rng, 16), newCipher: lc.new}
			b1, b2 := modelSM4(c.key1), modelSM4(c.key2)
			T := XTSInitialTweak(b2, c.tweak)
			enc, dec := c.lib(false), c.lib(true)
			blocksDone := 0
			decOff := false // library decrypter state is off after hitting gbDecDeviates
			for call := 0; call < 4; call++ {
				nb := 1 + rng.Intn(9)
				src := rnd(rng, 16*nb)
				run := XTSTweakAfter(T, blocksDone, c.gb)
				name := fmt.Sprintf("%s %s multi-call #%d after %d blocks", lc.name, c, call, blocksDone)
				diff(t, name+" enc", len(src), XTSEncryptFrom(b1, run, src, c.gb), blockMode(enc, src))
				if lc.name == "lib-sm4" && c.gb && gbDecDeviates(len(src)) {
					decOff = true
				}
				if !decOff {
					diff(t, name+" dec", len(src), XTSDecryptFrom(b1, run, src, c.gb), blockMode(dec, src))
				}
				blocksDone += nb
			}
		}
	}
}

// Child half of TestXTSDecryptCrashLengths: decrypt ONE length with the
// library in this (expendable) process.
func TestXTSDecryptChild(t *testing.T) {
	arg := os.Getenv("MODES_XTS_CHILD_LEN")
	if arg == "" {
		t.Skip("helper for TestXTSDecryptCrashLengths")
	}
	n, err := strconv.Atoi(arg)
	if err != nil {
		t.Fatal(err)
	}
	rng := rand.New(rand.NewSource(int64(n)))
	for _, gb := range []bool{os.Getenv("MODES_XTS_CHILD_GB") != ""} {
		c := xtsCase{gb: gb, key1: rnd(rng, 16), key2: rnd(rng, 16), tweak: rnd(rng, 16), newCipher: sm4.NewCipher}
		src := rnd(rng, n)
		want := XTSDecrypt(modelSM4(c.key1), modelSM4(c.key2), c.tweak, src, gb)
		fmt.Printf("CHILD begin gb=%v len=%d\n", gb, n)
		got := blockMode(c.lib(true), src)
		if bytes.Equal(got, want) {
			fmt.Printf("CHILD agree gb=%v len=%d\n", gb, n)
		} else {
			fmt.Printf("CHILD DISAGREE gb=%v len=%d model=%x lib=%x\n", gb, n, want, got)
		}
	}
}

func runXTSDecryptChild(n int, gb bool) (out string, crashed bool) {
	cmd := exec.Command(os.Args[0], "-test.run=^TestXTSDecryptChild$", "-test.v")
	cmd.Env = append(os.Environ(), "MODES_XTS_CHILD_LEN="+strconv.Itoa(n))
	if gb {
		cmd.Env = append(cmd.Env, "MODES_XTS_CHILD_GB=1")
	}
	b, err := cmd.CombinedOutput()
	return string(b), err != nil
}

// The library's SM4 XTS decryption at the crash-prone lengths, each in its own
// subprocess so that a SIGSEGV does not take this test binary down.
func TestXTSDecryptCrashLengths(t *testing.T) {
	if testing.Short() {
		t.Skip("spawns one subprocess per length")
	}
	for _, gb := range []bool{false, true} {
		var crashed, agreed []int
		for n := 16; n <= maxLen; n++ {
			if !xtsDecryptCrashes(n) {
				continue
			}
			out, died := runXTSDecryptChild(n, gb)
			switch {
			case strings.Contains(out, "CHILD DISAGREE"):
				t.Errorf("DISAGREE lib-sm4 XTS dec gb=%v len=%d:\n%s", gb, n, out)
			case died || !strings.Contains(out, "CHILD agree"):
				if len(crashed) == 0 {
					t.Logf("first crash (gb=%v len=%d) output:\n%s", gb, n, out[:min(len(out), 600)])
				}
				crashed = append(crashed, n)
			default:
				agreed = append(agreed, n)
			}
		}
		t.Logf("lib-sm4 XTS decrypt gb=%v in subprocesses: survived and agreed at %v", gb, agreed)
		if len(crashed) > 0 {
			known(t, "lib-sm4 XTS decrypt gb=%v killed its process at lengths %v", gb, crashed)
		}
	}
}

// ---------------------------------------------------------------- HCTR

func TestHCTRVsLibrary(t *testing.T) {
	rng := rand.New(rand.NewSource(6))
	deviates := map[int]bool{} // r = (len-16) mod 16 at which library != textbook
	for _, lc := range libCiphers {
		for n := 16; n <= maxLen; n++ {
			key, tweak, hkey, src := rnd(rng, 16), rnd(rng, 16), rnd(rng, 16), rnd(rng, n)
			m := modelSM4(key)
			l, err := lc.new(key)
			if err != nil {
				t.Fatal(err)
			}
			h, err := gmcipher.NewHCTR(l, tweak, hkey)
			if err != nil {
				t.Fatal(err)
			}
			libE, libD := make([]byte, n), make([]byte, n)
			h.EncryptBytes(libE, src)
			h.DecryptBytes(libD, src)

			txtE, txtD := HCTREncrypt(m, tweak, hkey, src), HCTRDecrypt(m, tweak, hkey, src)
			defE, defD := HCTRDefectEncrypt(m, tweak, hkey, src), HCTRDefectDecrypt(m, tweak, hkey, src)
			diff(t, "model HCTR roundtrip", n, HCTRDecrypt(m, tweak, hkey, txtE), src)
			diff(t, "model HCTRDefect roundtrip", n, HCTRDefectDecrypt(m, tweak, hkey, defE), src)

			r := (n - 16) % 16
			if r == 0 || r == 8 {
				// The defect model must coincide with the textbook here.
				diff(t, "HCTRDefect vs textbook enc", n, defE, txtE)
				diff(t, "HCTRDefect vs textbook dec", n, defD, txtD)
				diff(t, lc.name+" HCTR enc", n, txtE, libE)
				diff(t, lc.name+" HCTR dec", n, txtD, libD)
				continue
			}
			if bytes.Equal(libE, txtE) && bytes.Equal(libD, txtD) {
				continue // library follows the definition at this length
			}
			deviates[r] = true
			// Not the definition: it must at least be exactly the documented defect.
			diff(t, lc.name+" HCTR enc (library vs defect model)", n, defE, libE)
			diff(t, lc.name+" HCTR dec (library vs defect model)", n, defD, libD)
		}
	}
	if len(deviates) > 0 {
		var rs []int
		for r := 0; r < 16; r++ {
			if deviates[r] {
				rs = append(rs, r)
			}
		}
		known(t, "library HCTR != paper definition (== HCTRDefect model) when (len-16) mod 16 is in %v", rs)
	}
}

// The repo's own TestHCTR vectors, case by case, against both models.
func TestHCTRRepoVectors(t *testing.T) {
	key, hkey, tweak := unhex(kat38aKey), unhex(kat38aIV), unhex(kat38aCtr)
	m := modelSM4(key)
	for i, v := range HCTRVectors {
		pt, ct := unhex(v.PT), unhex(v.CT)
		txt := bytes.Equal(HCTREncrypt(m, tweak, hkey, pt), ct) && bytes.Equal(HCTRDecrypt(m, tweak, hkey, ct), pt)
		def := bytes.Equal(HCTRDefectEncrypt(m, tweak, hkey, pt), ct) && bytes.Equal(HCTRDefectDecrypt(m, tweak, hkey, ct), pt)
		t.Logf("repo HCTR vector %d: len=%d r=%d textbook=%v defect-model=%v", i+1, len(pt), (len(pt)-16)%16, txt, def)
		if txt != v.Textbook {
			t.Errorf("vector %d: textbook agreement is %v, table says %v", i+1, txt, v.Textbook)
		}
		if !def {
			t.Errorf("vector %d: defect model does not reproduce the repo vector", i+1)
		}
	}
}

// What the deviation means in practice: at the affected lengths part of the
// tweak never reaches the hash, so distinct tweaks give identical ciphertext.
// The textbook model must be sensitive to every tweak byte at every length.
func TestHCTRTweakSensitivity(t *testing.T) {
	rng := rand.New(rand.NewSource(7))
	key, hkey, tweak := rnd(rng, 16), rnd(rng, 16), rnd(rng, 16)
	m := modelSM4(key)
	l, _ := sm4.NewCipher(key)
	for r := 0; r < 16; r++ {
		n := 16 + 32 + r
		src := rnd(rng, n)
		base := HCTREncrypt(m, tweak, hkey, src)
		h0, _ := gmcipher.NewHCTR(l, tweak, hkey)
		libBase := make([]byte, n)
		h0.EncryptBytes(libBase, src)
		var ignored []int
		for i := 0; i < 16; i++ {
			tw := clone(tweak)
			tw[i] ^= 0x01
			if bytes.Equal(HCTREncrypt(m, tw, hkey, src), base) {
				t.Errorf("textbook HCTR ignores tweak byte %d at r=%d", i, r)
			}
			h1, _ := gmcipher.NewHCTR(l, tw, hkey)
			got := make([]byte, n)
			h1.EncryptBytes(got, src)
			if bytes.Equal(got, libBase) {
				ignored = append(ignored, i)
			}
		}
		if len(ignored) > 0 {
			known(t, "library HCTR at (len-16) mod 16 = %d ignores tweak bytes %v", r, ignored)
		}
	}
}

// ---------------------------------------------------------------- models vs stdlib / x/crypto (AES, DES)

func TestModelsVsStdlib(t *testing.T) {
	rng := rand.New(rand.NewSource(8))
	a, _ := aes.NewCipher(rnd(rng, 16))
	d, _ := des.NewCipher(rnd(rng, 8))
	for _, b := range []cipher.Block{a, d} {
		bs := b.BlockSize()
		name := fmt.Sprintf("stdlib bs=%d", bs)
		for n := 0; n <= 130; n++ {
			iv, src := rnd(rng, bs), rnd(rng, n)
			if n%5 == 0 {
				for i := range iv {
					iv[i] = 0xff
				}
				iv[0] = byte(n)
			}
			diff(t, name+" CFB enc", n, CFBEncrypt(b, iv, src), stream(cipher.NewCFBEncrypter(b, iv), src))
			diff(t, name+" CFB dec", n, CFBDecrypt(b, iv, src), stream(cipher.NewCFBDecrypter(b, iv), src))
			diff(t, name+" OFB", n, OFB(b, iv, src), stream(cipher.NewOFB(b, iv), src))
			diff(t, name+" CTR", n, CTR(b, iv, src), stream(cipher.NewCTR(b, iv), src))
			if n%bs != 0 {
				continue
			}
			diff(t, name+" CBC enc", n, CBCEncrypt(b, iv, src), blockMode(cipher.NewCBCEncrypter(b, iv), src))
			diff(t, name+" CBC dec", n, CBCDecrypt(b, iv, src), blockMode(cipher.NewCBCDecrypter(b, iv), src))
			diff(t, name+" ECB roundtrip", n, ECBDecrypt(b, ECBEncrypt(b, src)), src)
			diff(t, name+" BC roundtrip", n, BCDecrypt(b, iv, BCEncrypt(b, iv, src)), src)
		}
	}
	// IEEE XTS, whole blocks, against golang.org/x/crypto/xts over AES.
	for n := 16; n <= 256; n += 16 {
		k1, k2, src := rnd(rng, 16), rnd(rng, 16), rnd(rng, n)
		sector := rng.Uint64()
		x, err := xxts.NewCipher(aes.NewCipher, append(clone(k1), k2...))
		if err != nil {
			t.Fatal(err)
		}
		b1, _ := aes.NewCipher(k1)
		b2, _ := aes.NewCipher(k2)
		want := make([]byte, n)
		x.Encrypt(want, src, sector)
		diff(t, "x/crypto XTS-AES enc", n, XTSEncrypt(b1, b2, SectorTweak(sector), src, false), want)
		x.Decrypt(want, src, sector)
		diff(t, "x/crypto XTS-AES dec", n, XTSDecrypt(b1, b2, SectorTweak(sector), src, false), want)
	}
}

// GF(2^128) sanity: mulX agrees with mulPoly by x, multiplication is
// commutative and distributive, and 1 is the identity in both layouts.
func TestField(t *testing.T) {
	rng := rand.New(rand.NewSource(9))
	for _, refl := range []bool{false, true} {
		var x, one poly
		x[1], one[0] = 1, 1
		for i := 0; i < 50; i++ {
			ab, bb, cb := rnd(rng, 16), rnd(rng, 16), rnd(rng, 16)
			a, b, c := toPoly(ab, refl), toPoly(bb, refl), toPoly(cb, refl)
			if !bytes.Equal(fromPoly(a, refl), ab) {
				t.Fatal("toPoly/fromPoly not inverse")
			}
			if mulPoly(a, x) != mulX(a) || mulPoly(x, a) != mulX(a) {
				t.Fatal("mulX != mul by x")
			}
			if mulPoly(a, one) != a {
				t.Fatal("1 is not the identity")
			}
			if mulPoly(a, b) != mulPoly(b, a) {
				t.Fatal("not commutative")
			}
			if mulPoly(a, addPoly(b, c)) != addPoly(mulPoly(a, b), mulPoly(a, c)) {
				t.Fatal("not distributive")
			}
			if mulPoly(mulPoly(a, b), c) != mulPoly(a, mulPoly(b, c)) {
				t.Fatal("not associative")
			}
		}
	}
	// Layout spot checks: "1" and "x" in both conventions.
	if got := XTSTweakAfter(unhex("01000000000000000000000000000000"), 1, false); !bytes.Equal(got, unhex("02000000000000000000000000000000")) {
		t.Fatalf("IEEE 1*x = %x", got)
	}
	if got := XTSTweakAfter(unhex("00000000000000000000000000000080"), 1, false); !bytes.Equal(got, unhex("87000000000000000000000000000000")) {
		t.Fatalf("IEEE x^127*x = %x", got)
	}
	if got := XTSTweakAfter(unhex("80000000000000000000000000000000"), 1, true); !bytes.Equal(got, unhex("40000000000000000000000000000000")) {
		t.Fatalf("GB 1*x = %x", got)
	}
	if got := XTSTweakAfter(unhex("00000000000000000000000000000001"), 1, true); !bytes.Equal(got, unhex("e1000000000000000000000000000000")) {
		t.Fatalf("GB x^127*x = %x", got)
	}
}
