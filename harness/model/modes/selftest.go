package modes

import (
	"bytes"
	"crypto/aes"
	"crypto/cipher"
	"encoding/hex"
	"errors"
	"fmt"

	"verif/harness/model/sm4m"
)

func unhex(s string) []byte {
	b, err := hex.DecodeString(s)
	if err != nil {
		panic(err)
	}
	return b
}

func expect(name string, got, want []byte) error {
	if !bytes.Equal(got, want) {
		return fmt.Errorf("modes selftest %s: got %x want %x", name, got, want)
	}
	return nil
}

// The four-block message used by NIST SP 800-38A appendix F and by the
// GB/T 17964-2021 appendix B examples.
const (
	kat38aKey = "2b7e151628aed2a6abf7158809cf4f3c"
	kat38aIV  = "000102030405060708090a0b0c0d0e0f"
	kat38aCtr = "f0f1f2f3f4f5f6f7f8f9fafbfcfdfeff"
	kat38aPT  = "6bc1bee22e409f96e93d7e117393172a" + "ae2d8a571e03ac9c9eb76fac45af8e51" +
		"30c81c46a35ce411e5fbc1191a0a52ef" + "f69f2445df4f9b17ad2b417be66c3710"
)

// HCTRVectors are the four SM4-HCTR vectors of /repo/cipher/hctr_test.go
// (key 2B7E..., hash key 0001..0F, tweak F0F1..FF). Textbook says whether the
// paper-definition model reproduces the vector; vectors with Textbook=false
// are reproduced only by the HCTRDefect* model.
var HCTRVectors = []struct {
	PT, CT   string
	Textbook bool
}{
	{ // 192 bytes, (len-16) mod 16 = 0
		kat38aPT + kat38aPT + kat38aPT,
		"8858dda3034233e377936b76ce7edeb6a245075a37800b0b996e8e974c9032ac8de40d90ee4ee5fb58bc10cbc95779485ab38ffb0b4f961d85f086db705ff723edbeaec649b3b406b11b96a418a9c2c51ef41cdd24e472c18336e9efcd07b7e264a1e2d46615198eb74938d72104fa89294a6360cdb6b032a704cf07a087bb2283598552701b2f710d6528d9c3f4dab529afef4413f25169b6cbf8168ccbfa02a2f507513d0cb3802da34dbd928b67e6afc30ca91011070cfd40c2ef3d4ac041",
		true,
	},
	{ // 64 bytes, (len-16) mod 16 = 0
		kat38aPT,
		"9cd7481d3b7ca904b14b4084d9d4c83ed39eac8e16747895fc2ae1eecd220276af3d0d2f21cb3807561347c81ad138117dd85c652afe16a47dc68eb884068ae3",
		true,
	},
	{ // 60 bytes, (len-16) mod 16 = 12
		kat38aPT[:120],
		"f7505aff357ac13107cdb2848c6bb2dcdda473f7a6ea939d44f52c986c11ca9341042f2b0091a1ca5c8f708cae8ca6a5c59e2228b3616c4455627722",
		false, // only the defect model reproduces this one
	},
	{ // 16 bytes, (len-16) mod 16 = 0, empty N
		kat38aPT[:32],
		"b7b1dd75f608012dc69621d4ea720a60",
		true,
	},
}

// SelfTest runs known-answer tests for every mode.
func SelfTest() error {
	type check struct {
		name      string
		got, want []byte
	}
	var checks []check
	add := func(name string, got []byte, want string) {
		checks = append(checks, check{name, got, unhex(want)})
	}

	// ---- NIST SP 800-38A, AES-128 (F.1.1, F.2.1, F.3.13, F.4.1, F.5.1).
	a, err := aes.NewCipher(unhex(kat38aKey))
	if err != nil {
		return err
	}
	pt, iv, ctr := unhex(kat38aPT), unhex(kat38aIV), unhex(kat38aCtr)
	const (
		ecbCT = "3ad77bb40d7a3660a89ecaf32466ef97f5d3d58503b9699de785895a96fdbaaf43b1cd7f598ece23881b00e3ed0306887b0c785e27e8ad3f8223207104725dd4"
		cbcCT = "7649abac8119b246cee98e9b12e9197d5086cb9b507219ee95db113a917678b273bed6b8e3c1743b7116e69e222295163ff1caa1681fac09120eca307586e1a7"
		cfbCT = "3b3fd92eb72dad20333449f8e83cfb4ac8a64537a0b3a93fcde3cdad9f1ce58b26751f67a3cbb140b1808cf187a4f4dfc04b05357c5d1c0eeac4c66f9ff7f2e6"
		ofbCT = "3b3fd92eb72dad20333449f8e83cfb4a7789508d16918f03f53c52dac54ed8259740051e9c5fecf64344f7a82260edcc304c6528f659c77866a510d9c1d6ae5e"
		ctrCT = "874d6191b620e3261bef6864990db6ce9806f66b7970fdff8617187bb9fffdff5ae4df3edbd5d35e5b4f09020db03eab1e031dda2fbe03d1792170a0f3009cee"
	)
	add("ECB-AES128 enc", ECBEncrypt(a, pt), ecbCT)
	add("ECB-AES128 dec", ECBDecrypt(a, unhex(ecbCT)), kat38aPT)
	add("CBC-AES128 enc", CBCEncrypt(a, iv, pt), cbcCT)
	add("CBC-AES128 dec", CBCDecrypt(a, iv, unhex(cbcCT)), kat38aPT)
	add("CFB128-AES128 enc", CFBEncrypt(a, iv, pt), cfbCT)
	add("CFB128-AES128 dec", CFBDecrypt(a, iv, unhex(cfbCT)), kat38aPT)
	add("CFB128-AES128 enc, 37 bytes", CFBEncrypt(a, iv, pt[:37]), cfbCT[:74])
	add("CFB128-AES128 dec, 37 bytes", CFBDecrypt(a, iv, unhex(cfbCT[:74])), kat38aPT[:74])
	add("OFB-AES128", OFB(a, iv, pt), ofbCT)
	add("OFB-AES128, 37 bytes", OFB(a, iv, pt[:37]), ofbCT[:74])
	add("CTR-AES128", CTR(a, ctr, pt), ctrCT)
	add("CTR-AES128, 37 bytes", CTR(a, ctr, pt[:37]), ctrCT[:74])
	// counter carry across the whole block
	add("CTR wrap", CTR(a, unhex("ffffffffffffffffffffffffffffffff"), make([]byte, 32)),
		hex.EncodeToString(append(enc(a, unhex("ffffffffffffffffffffffffffffffff")), enc(a, make([]byte, 16))...)))

	// ---- IEEE Std 1619-2007 annex B, XTS-AES-128.
	xtsAES := func(name, k1, k2, tweak, p, c string) error {
		b1, err := aes.NewCipher(unhex(k1))
		if err != nil {
			return err
		}
		b2, err := aes.NewCipher(unhex(k2))
		if err != nil {
			return err
		}
		add(name+" enc", XTSEncrypt(b1, b2, unhex(tweak), unhex(p), false), c)
		add(name+" dec", XTSDecrypt(b1, b2, unhex(tweak), unhex(c), false), p)
		return nil
	}
	zero16 := "00000000000000000000000000000000"
	if err := xtsAES("XTS-AES vector 1", zero16, zero16, zero16, zero16+zero16,
		"917cf69ebd68b2ec9b9fe9a3eadda692cd43d2f59598ed858c02c2652fbf922e"); err != nil {
		return err
	}
	if err := xtsAES("XTS-AES vector 2",
		"11111111111111111111111111111111", "22222222222222222222222222222222",
		"33333333330000000000000000000000",
		"4444444444444444444444444444444444444444444444444444444444444444",
		"c454185e6a16936e39334038acef838bfb186fff7480adc4289382ecd6d394f0"); err != nil {
		return err
	}
	// vectors 15..18: ciphertext stealing, 17..20 bytes
	const k1cts, k2cts, twcts = "fffefdfcfbfaf9f8f7f6f5f4f3f2f1f0", "bfbebdbcbbbab9b8b7b6b5b4b3b2b1b0", "9a785634120000000000000000000000"
	for _, v := range []struct{ name, p, c string }{
		{"XTS-AES vector 15", "000102030405060708090a0b0c0d0e0f10", "6c1625db4671522d3d7599601de7ca09ed"},
		{"XTS-AES vector 16", "000102030405060708090a0b0c0d0e0f1011", "d069444b7a7e0cab09e24447d24deb1fedbf"},
		{"XTS-AES vector 17", "000102030405060708090a0b0c0d0e0f101112", "e5df1351c0544ba1350b3363cd8ef4beedbf9d"},
		{"XTS-AES vector 18", "000102030405060708090a0b0c0d0e0f10111213", "9d84c813f719aa2c7be3f66171c7c5c2edbf9dac"},
	} {
		if err := xtsAES(v.name, k1cts, k2cts, twcts, v.p, v.c); err != nil {
			return err
		}
	}

	// ---- SM4 (model cipher) vectors quoted from /repo/cipher/*_test.go.
	s, err := sm4m.NewCipher(unhex(kat38aKey))
	if err != nil {
		return err
	}
	s2, err := sm4m.NewCipher(unhex(kat38aIV)) // 000102..0f doubles as the second key
	if err != nil {
		return err
	}

	// GB/T 17964-2021 B.7 (XTS, 56 bytes: three blocks + 8 stolen bytes)
	const gbxtsPT = "6bc1bee22e409f96e93d7e117393172aae2d8a571e03ac9c9eb76fac45af8e5130c81c46a35ce411e5fbc1191a0a52eff69f2445df4f9b17"
	const gbxtsCT = "e9538251c71d7b80bbe4483fef497bd12c5c581bd6242fc51e08964fb4f60fdb0ba42f63499279213d318d2c11f6886e903be7f93a1b3479"
	add("GB-XTS-SM4 B.7 enc", XTSEncrypt(s, s2, ctr, unhex(gbxtsPT), true), gbxtsCT)
	add("GB-XTS-SM4 B.7 dec", XTSDecrypt(s, s2, ctr, unhex(gbxtsCT), true), gbxtsPT)
	// the split form must agree with the one-shot form
	T := XTSInitialTweak(s2, ctr)
	add("GB-XTS-SM4 B.7 enc, 32+24 split",
		append(XTSEncryptFrom(s, T, unhex(gbxtsPT)[:32], true), XTSEncryptFrom(s, XTSTweakAfter(T, 2, true), unhex(gbxtsPT)[32:], true)...), gbxtsCT)

	// XTS-SM4 with sector tweak: IEEE and GB conventions (25 bytes, stealing).
	{
		b1, _ := sm4m.NewCipher(unhex("c46acc2e7e013cb71cdbf750cf76b000"))
		b2, _ := sm4m.NewCipher(unhex("249fbf4fb6cd17607773c23ffa2c4330"))
		p := "7e9c2289cba460e470222953439cdaa892a5433d4dab2a3f67"
		add("XTS-SM4 sector 94 enc", XTSEncrypt(b1, b2, SectorTweak(94), unhex(p), false), "c3cf5445c64aa518f4abce2848faddfb4605d9fb66f1f12c0c")
		add("GB-XTS-SM4 sector 94 enc", XTSEncrypt(b1, b2, SectorTweak(94), unhex(p), true), "4d5501ea41cf6b6532b4b7129c6f6ee74605d9fb66f1f12c0c")
		add("XTS-SM4 sector 94 dec", XTSDecrypt(b1, b2, SectorTweak(94), unhex("c3cf5445c64aa518f4abce2848faddfb4605d9fb66f1f12c0c"), false), p)
		add("GB-XTS-SM4 sector 94 dec", XTSDecrypt(b1, b2, SectorTweak(94), unhex("4d5501ea41cf6b6532b4b7129c6f6ee74605d9fb66f1f12c0c"), true), p)
	}
	add("SectorTweak", SectorTweak(0x0102030405060708), "08070605040302010000000000000000")

	// GB/T 17964-2021 BC
	const bcCT = "ac529af989a62fce9cddc5ffb84125cafb8cde77339ffe481d113c40bbd5b6786ffc9916f98f94ff12d78319707e240428718707605bc1eac503153ebaa0fb1d"
	add("BC-SM4 enc", BCEncrypt(s, iv, pt), bcCT)
	add("BC-SM4 dec", BCDecrypt(s, iv, unhex(bcCT)), kat38aPT)

	// GB/T 17964-2021 OFBNLF
	const nlfCT = "00a5b5c9e645557c20ce7f267736f308a18037828850b9d78883ca622851f86cb7caefdfb6d4caba6ae2d2fce369ceb31001dd71fdda9341f8d221cb720ff27b"
	var newSM4 = func(k []byte) (cipher.Block, error) { return sm4m.NewCipher(k) }
	nlfE, err := OFBNLFEncrypt(newSM4, unhex(kat38aKey), iv, pt)
	if err != nil {
		return err
	}
	nlfD, err := OFBNLFDecrypt(newSM4, unhex(kat38aKey), iv, unhex(nlfCT))
	if err != nil {
		return err
	}
	add("OFBNLF-SM4 enc", nlfE, nlfCT)
	add("OFBNLF-SM4 dec", nlfD, kat38aPT)

	// HCTR
	for i, v := range HCTRVectors {
		name := fmt.Sprintf("HCTR-SM4 vector %d (%d bytes)", i+1, len(v.PT)/2)
		if v.Textbook {
			add(name+" enc", HCTREncrypt(s, ctr, iv, unhex(v.PT)), v.CT)
			add(name+" dec", HCTRDecrypt(s, ctr, iv, unhex(v.CT)), v.PT)
		}
		add(name+" defect-model enc", HCTRDefectEncrypt(s, ctr, iv, unhex(v.PT)), v.CT)
		add(name+" defect-model dec", HCTRDefectDecrypt(s, ctr, iv, unhex(v.CT)), v.PT)
	}

	var errs []error
	for _, c := range checks {
		if err := expect(c.name, c.got, c.want); err != nil {
			errs = append(errs, err)
		}
	}
	return errors.Join(errs...)
}
