// Package modes holds slow, textbook reference models of block cipher modes of
// operation over any cipher.Block. Every function is pure: it takes the whole
// message and returns a freshly allocated result. Stdlib only.
//
// Sources of the definitions:
//   - ECB/CBC/CFB/OFB/CTR: NIST SP 800-38A (= GB/T 17964-2021 ch. 5-9).
//   - XTS: IEEE Std 1619; GB variant: GB/T 17964-2021 ch. 10.
//   - HCTR: Wang/Feng/Wu, "HCTR: A Variable-Input-Length Enciphering Mode"
//     (CISC 2005) = GB/T 17964-2021 ch. 11.
//   - BC, OFBNLF: GB/T 17964-2021 ch. 12, 13 (Schneier, Applied Cryptography 9.10/9.11).
package modes

import (
	"crypto/cipher"
	"fmt"
)

// ---------------------------------------------------------------- helpers

func xor(a, b []byte) []byte {
	if len(a) != len(b) {
		panic("modes: xor length mismatch")
	}
	out := make([]byte, len(a))
	for i := range a {
		out[i] = a[i] ^ b[i]
	}
	return out
}

func clone(a []byte) []byte { return append([]byte{}, a...) }

func enc(b cipher.Block, in []byte) []byte {
	out := make([]byte, b.BlockSize())
	b.Encrypt(out, in)
	return out
}

func dec(b cipher.Block, in []byte) []byte {
	out := make([]byte, b.BlockSize())
	b.Decrypt(out, in)
	return out
}

// split cuts src into blocks of n bytes; the last one may be shorter.
func split(src []byte, n int) [][]byte {
	var blocks [][]byte
	for len(src) > n {
		blocks = append(blocks, src[:n])
		src = src[n:]
	}
	if len(src) > 0 {
		blocks = append(blocks, src)
	}
	return blocks
}

func checkFull(b cipher.Block, src []byte) {
	if len(src)%b.BlockSize() != 0 {
		panic(fmt.Sprintf("modes: input length %d is not a multiple of the block size", len(src)))
	}
}

func checkIV(b cipher.Block, iv []byte) {
	if len(iv) != b.BlockSize() {
		panic(fmt.Sprintf("modes: IV length %d != block size", len(iv)))
	}
}

// ---------------------------------------------------------------- ECB

// ECBEncrypt: C_i = E(P_i).
func ECBEncrypt(b cipher.Block, src []byte) []byte {
	checkFull(b, src)
	out := []byte{}
	for _, p := range split(src, b.BlockSize()) {
		out = append(out, enc(b, p)...)
	}
	return out
}

// ECBDecrypt: P_i = D(C_i).
func ECBDecrypt(b cipher.Block, src []byte) []byte {
	checkFull(b, src)
	out := []byte{}
	for _, c := range split(src, b.BlockSize()) {
		out = append(out, dec(b, c)...)
	}
	return out
}

// ---------------------------------------------------------------- CBC

// CBCEncrypt: C_0 = IV, C_i = E(P_i ^ C_{i-1}).
func CBCEncrypt(b cipher.Block, iv, src []byte) []byte {
	checkIV(b, iv)
	checkFull(b, src)
	out := []byte{}
	prev := iv
	for _, p := range split(src, b.BlockSize()) {
		c := enc(b, xor(p, prev))
		out = append(out, c...)
		prev = c
	}
	return out
}

// CBCDecrypt: C_0 = IV, P_i = D(C_i) ^ C_{i-1}.
func CBCDecrypt(b cipher.Block, iv, src []byte) []byte {
	checkIV(b, iv)
	checkFull(b, src)
	out := []byte{}
	prev := iv
	for _, c := range split(src, b.BlockSize()) {
		out = append(out, xor(dec(b, c), prev)...)
		prev = c
	}
	return out
}

// ---------------------------------------------------------------- CFB (full block feedback)

// CFBEncrypt: C_0 = IV, C_i = P_i ^ E(C_{i-1}); a short last block uses the
// leading bytes of E(C_{i-1}).
func CFBEncrypt(b cipher.Block, iv, src []byte) []byte {
	checkIV(b, iv)
	out := []byte{}
	prev := iv
	for _, p := range split(src, b.BlockSize()) {
		c := xor(p, enc(b, prev)[:len(p)])
		out = append(out, c...)
		prev = c // only used again if c was a full block
	}
	return out
}

// CFBDecrypt: C_0 = IV, P_i = C_i ^ E(C_{i-1}).
func CFBDecrypt(b cipher.Block, iv, src []byte) []byte {
	checkIV(b, iv)
	out := []byte{}
	prev := iv
	for _, c := range split(src, b.BlockSize()) {
		out = append(out, xor(c, enc(b, prev)[:len(c)])...)
		prev = c
	}
	return out
}

// ---------------------------------------------------------------- OFB

// OFB: O_0 = IV, O_i = E(O_{i-1}), out_i = in_i ^ O_i (truncated at the end).
func OFB(b cipher.Block, iv, src []byte) []byte {
	checkIV(b, iv)
	out := []byte{}
	o := iv
	for _, p := range split(src, b.BlockSize()) {
		o = enc(b, o)
		out = append(out, xor(p, o[:len(p)])...)
	}
	return out
}

// ---------------------------------------------------------------- CTR

// incBE returns ctr+1, the whole block taken as one big-endian integer
// (wrapping modulo 2^(8*len)).
func incBE(ctr []byte) []byte {
	out := clone(ctr)
	for i := len(out) - 1; i >= 0; i-- {
		out[i]++
		if out[i] != 0 {
			break
		}
	}
	return out
}

// CTR: T_1 = IV, T_{i+1} = T_i + 1, out_i = in_i ^ E(T_i).
func CTR(b cipher.Block, iv, src []byte) []byte {
	checkIV(b, iv)
	out := []byte{}
	ctr := iv
	for _, p := range split(src, b.BlockSize()) {
		out = append(out, xor(p, enc(b, ctr)[:len(p)])...)
		ctr = incBE(ctr)
	}
	return out
}

// ---------------------------------------------------------------- GF(2^128), bit serial

// poly is an element of GF(2)[x]/(x^128 + x^7 + x^2 + x + 1):
// poly[i] (0 or 1) is the coefficient of x^i.
type poly [128]byte

// Two ways of laying the 128 coefficients out in a 16-byte block.
//
// little (IEEE 1619): byte 0 holds x^0..x^7, and within a byte the least
// significant bit is the lowest power: x^i is bit (i%8) of byte i/8.
//
// reflected (GB/T 17964-2021 XTS and HCTR, same as GCM): the block read as a
// bit string from left to right is x^0, x^1, ... x^127: x^i is bit (7 - i%8)
// of byte i/8.
func bitPos(i int, reflected bool) (byteIdx int, shift uint) {
	if reflected {
		return i / 8, uint(7 - i%8)
	}
	return i / 8, uint(i % 8)
}

func toPoly(blk []byte, reflected bool) poly {
	if len(blk) != 16 {
		panic("modes: GF(2^128) element must be 16 bytes")
	}
	var p poly
	for i := range p {
		j, s := bitPos(i, reflected)
		p[i] = blk[j] >> s & 1
	}
	return p
}

func fromPoly(p poly, reflected bool) []byte {
	blk := make([]byte, 16)
	for i := range p {
		j, s := bitPos(i, reflected)
		blk[j] |= p[i] << s
	}
	return blk
}

// mulX returns p * x.
func mulX(p poly) poly {
	var q poly
	for i := 1; i < 128; i++ {
		q[i] = p[i-1]
	}
	if p[127] == 1 { // x^128 = x^7 + x^2 + x + 1
		q[7] ^= 1
		q[2] ^= 1
		q[1] ^= 1
		q[0] ^= 1
	}
	return q
}

func addPoly(a, b poly) poly {
	var z poly
	for i := range z {
		z[i] = a[i] ^ b[i]
	}
	return z
}

// mulPoly returns a*b = sum over i of a_i * (b * x^i).
func mulPoly(a, b poly) poly {
	var z poly
	for i := 0; i < 128; i++ {
		if a[i] == 1 {
			z = addPoly(z, b)
		}
		b = mulX(b)
	}
	return z
}

// ---------------------------------------------------------------- XTS

// XTSInitialTweak returns T_0 = E_K2(tweak).
func XTSInitialTweak(b2 cipher.Block, tweak []byte) []byte {
	if b2.BlockSize() != 16 || len(tweak) != 16 {
		panic("modes: XTS needs a 16-byte block cipher and a 16-byte tweak")
	}
	return enc(b2, tweak)
}

// XTSTweakAfter returns T * alpha^nblocks, alpha = x, in the IEEE (gb=false)
// or GB/T 17964 (gb=true) bit convention.
func XTSTweakAfter(T []byte, nblocks int, gb bool) []byte {
	p := toPoly(T, gb)
	for i := 0; i < nblocks; i++ {
		p = mulX(p)
	}
	return fromPoly(p, gb)
}

// SectorTweak is the 16-byte tweak for a sector number: little-endian.
func SectorTweak(sector uint64) []byte {
	t := make([]byte, 16)
	for i := 0; i < 8; i++ {
		t[i] = byte(sector >> (8 * i))
	}
	return t
}

// xtsTweaks returns a lookup for T_j = T * alpha^j, j = 0..n-1, computed
// incrementally (T_{j+1} = T_j * alpha) instead of from scratch per block.
func xtsTweaks(T []byte, n int, gb bool) func(j int) []byte {
	list := make([][]byte, n)
	p := toPoly(T, gb)
	for j := 0; j < n; j++ {
		list[j] = fromPoly(p, gb)
		p = mulX(p)
	}
	return func(j int) []byte { return list[j] }
}

func xexEnc(b1 cipher.Block, t, p []byte) []byte { return xor(enc(b1, xor(p, t)), t) }
func xexDec(b1 cipher.Block, t, c []byte) []byte { return xor(dec(b1, xor(c, t)), t) }

func checkXTS(b1 cipher.Block, T, src []byte) {
	if b1.BlockSize() != 16 || len(T) != 16 {
		panic("modes: XTS needs a 16-byte block cipher and a 16-byte tweak")
	}
	if len(src) < 16 {
		panic("modes: XTS input shorter than one block")
	}
}

// XTSEncryptFrom encrypts src starting at running tweak T (= E_K2(i) * alpha^j).
//
// IEEE 1619 5.3.2: with m = number of full blocks, T_j = T * alpha^j,
//
//	C_j = XEX-enc(T_j, P_j)                    for j = 0..m-2
//	no partial block:  C_{m-1} = XEX-enc(T_{m-1}, P_{m-1})
//	partial P_m of b bytes:
//	  CC      = XEX-enc(T_{m-1}, P_{m-1})
//	  C_m     = first b bytes of CC
//	  C_{m-1} = XEX-enc(T_m, P_m || last 16-b bytes of CC)
func XTSEncryptFrom(b1 cipher.Block, T []byte, src []byte, gb bool) []byte {
	checkXTS(b1, T, src)
	m, b := len(src)/16, len(src)%16
	tw := xtsTweaks(T, m+1, gb)
	out := []byte{}
	for j := 0; j < m-1; j++ {
		out = append(out, xexEnc(b1, tw(j), src[16*j:16*j+16])...)
	}
	last := src[16*(m-1) : 16*m]
	if b == 0 {
		return append(out, xexEnc(b1, tw(m-1), last)...)
	}
	cc := xexEnc(b1, tw(m-1), last)
	pp := append(clone(src[16*m:]), cc[b:]...)
	out = append(out, xexEnc(b1, tw(m), pp)...)
	return append(out, cc[:b]...)
}

// XTSDecryptFrom is the inverse of XTSEncryptFrom (IEEE 1619 5.4.2):
//
//	partial C_m of b bytes:
//	  PP      = XEX-dec(T_m, C_{m-1})
//	  P_m     = first b bytes of PP
//	  P_{m-1} = XEX-dec(T_{m-1}, C_m || last 16-b bytes of PP)
func XTSDecryptFrom(b1 cipher.Block, T []byte, src []byte, gb bool) []byte {
	checkXTS(b1, T, src)
	m, b := len(src)/16, len(src)%16
	tw := xtsTweaks(T, m+1, gb)
	out := []byte{}
	for j := 0; j < m-1; j++ {
		out = append(out, xexDec(b1, tw(j), src[16*j:16*j+16])...)
	}
	last := src[16*(m-1) : 16*m]
	if b == 0 {
		return append(out, xexDec(b1, tw(m-1), last)...)
	}
	pp := xexDec(b1, tw(m), last)
	cc := append(clone(src[16*m:]), pp[b:]...)
	out = append(out, xexDec(b1, tw(m-1), cc)...)
	return append(out, pp[:b]...)
}

// XTSEncrypt: b1 = data key cipher, b2 = tweak key cipher, tweak = plain
// 16-byte tweak value i.
func XTSEncrypt(b1, b2 cipher.Block, tweak []byte, src []byte, gb bool) []byte {
	return XTSEncryptFrom(b1, XTSInitialTweak(b2, tweak), src, gb)
}

func XTSDecrypt(b1, b2 cipher.Block, tweak []byte, src []byte, gb bool) []byte {
	return XTSDecryptFrom(b1, XTSInitialTweak(b2, tweak), src, gb)
}

// ---------------------------------------------------------------- BC

// BCEncrypt, GB/T 17964-2021 ch. 12: the block cipher input is the plaintext
// block xored with the IV and with ALL previous ciphertext blocks:
//
//	F_i = IV ^ C_1 ^ ... ^ C_{i-1},  C_i = E(P_i ^ F_i).
func BCEncrypt(b cipher.Block, iv, src []byte) []byte {
	checkIV(b, iv)
	checkFull(b, src)
	n := b.BlockSize()
	var cs [][]byte
	f := clone(iv) // F_1 = IV, F_{i+1} = F_i ^ C_i (the running form of F_i = IV ^ C_1 ^ ... ^ C_{i-1})
	for _, p := range split(src, n) {
		c := enc(b, xor(p, f))
		cs = append(cs, c)
		f = xor(f, c)
	}
	out := []byte{}
	for _, c := range cs {
		out = append(out, c...)
	}
	return out
}

// BCDecrypt: P_i = D(C_i) ^ F_i with F_i as above.
func BCDecrypt(b cipher.Block, iv, src []byte) []byte {
	checkIV(b, iv)
	checkFull(b, src)
	cs := split(src, b.BlockSize())
	out := []byte{}
	f := clone(iv)
	for _, c := range cs {
		out = append(out, xor(dec(b, c), f)...)
		f = xor(f, c)
	}
	return out
}

// ---------------------------------------------------------------- OFBNLF

// ofbnlf: GB/T 17964-2021 ch. 13: K_0 = IV, K_i = E_K(K_{i-1}), and block i
// is processed in ECB with the per-block key K_i: C_i = E_{K_i}(P_i).
func ofbnlf(newCipher func(key []byte) (cipher.Block, error), key, iv, src []byte, decrypt bool) ([]byte, error) {
	b, err := newCipher(key)
	if err != nil {
		return nil, err
	}
	if len(iv) != b.BlockSize() {
		return nil, fmt.Errorf("modes: IV length %d != block size", len(iv))
	}
	checkFull(b, src)
	out := []byte{}
	k := iv
	for _, blk := range split(src, b.BlockSize()) {
		k = enc(b, k)
		bi, err := newCipher(k)
		if err != nil {
			return nil, err
		}
		if decrypt {
			out = append(out, dec(bi, blk)...)
		} else {
			out = append(out, enc(bi, blk)...)
		}
	}
	return out, nil
}

func OFBNLFEncrypt(newCipher func(key []byte) (cipher.Block, error), key, iv, src []byte) ([]byte, error) {
	return ofbnlf(newCipher, key, iv, src, false)
}

func OFBNLFDecrypt(newCipher func(key []byte) (cipher.Block, error), key, iv, src []byte) ([]byte, error) {
	return ofbnlf(newCipher, key, iv, src, true)
}

// ---------------------------------------------------------------- HCTR

// be128 is the 128-bit big-endian encoding of v.
func be128(v uint64) []byte {
	out := make([]byte, 16)
	for i := 0; i < 8; i++ {
		out[15-i] = byte(v >> (8 * i))
	}
	return out
}

// polyEval evaluates, for blocks X_1..X_m and the bit length L,
//
//	X_1*h^(m+1) ^ X_2*h^m ^ ... ^ X_m*h^2 ^ (L)_2*h
//
// in GF(2^128) (reflected bit order, as GB/T 17964-2021 ch. 11 / GCM).
func polyEval(hkey []byte, blocks [][]byte, bitLen uint64) []byte {
	h := toPoly(hkey, true)
	terms := append(append([][]byte{}, blocks...), be128(bitLen))
	// pow[e] = h^e for e = 1..len(terms).
	pow := make([]poly, len(terms)+1)
	pow[1] = h
	for e := 2; e <= len(terms); e++ {
		pow[e] = mulPoly(pow[e-1], h)
	}
	var sum poly
	for i, blk := range terms {
		// term i (0-based) of len(terms) gets h^(len(terms)-i).
		sum = addPoly(sum, mulPoly(toPoly(blk, true), pow[len(terms)-i]))
	}
	return fromPoly(sum, true)
}

// hctrHash is the universal hash of the HCTR paper, section 3:
//
//	H_h(X) = X_1 h^(m+1) ^ ... ^ X_{m-1} h^3 ^ pad(X_m) h^2 ^ |X| h
//
// where X = N || T is ONE bit string (the tweak follows the message bytes
// directly, with no padding in between), cut into 128-bit blocks X_1..X_m,
// only the last of which may be short and is then padded with zero bits, and
// |X| is the bit length of X as a 128-bit integer.
func hctrHash(hkey, n, tweak []byte) []byte {
	x := append(clone(n), tweak...)
	blocks := split(x, 16)
	if last := len(blocks) - 1; last >= 0 && len(blocks[last]) < 16 {
		blocks[last] = append(clone(blocks[last]), make([]byte, 16-len(blocks[last]))...)
	}
	return polyEval(hkey, blocks, uint64(len(x))*8)
}

// hctrHashDefect reproduces what /repo/cipher/hctr.go uhash computes. It is
// identical to hctrHash when r = len(n) mod 16 is 0 or 8. For other r the
// library builds the last two blocks in one 16-byte scratch buffer:
//
//	A = n_tail(r bytes) || T[0:16-r]                     (correct)
//	B = copy T[r:16] to B[0:16-r], zero B[r:16]          (wrong)
//
// instead of B = T[16-r:16] || 0^(16-r). So for r < 8, B = T[r:2r] || 0..0,
// and for r > 8, B = T[r:16] || A[16-r:r] || 0..0 where A[16-r:r] are stale
// message bytes n_tail[16-r:r].
func hctrHashDefect(hkey, n, tweak []byte) []byte {
	r := len(n) % 16
	full := n[:len(n)-r]
	blocks := split(full, 16)
	if r == 0 {
		blocks = append(blocks, tweak)
	} else {
		scratch := make([]byte, 16)
		copy(scratch, n[len(n)-r:])
		copy(scratch[r:], tweak)
		blocks = append(blocks, clone(scratch))
		copy(scratch, tweak[r:])
		for i := r; i < 16; i++ {
			scratch[i] = 0
		}
		blocks = append(blocks, clone(scratch))
	}
	return polyEval(hkey, blocks, uint64(len(n)+16)*8)
}

// hctrCTR: keystream block i (i = 1, 2, ...) is E_K(S ^ (i)_2) with (i)_2 the
// 128-bit big-endian integer i.
func hctrCTR(b cipher.Block, s, src []byte) []byte {
	out := []byte{}
	for i, p := range split(src, 16) {
		ks := enc(b, xor(s, be128(uint64(i+1))))
		out = append(out, xor(p, ks[:len(p)])...)
	}
	return out
}

type hashFn func(hkey, n, tweak []byte) []byte

func checkHCTR(b cipher.Block, tweak, hkey, src []byte) {
	if b.BlockSize() != 16 || len(tweak) != 16 || len(hkey) != 16 {
		panic("modes: HCTR needs a 16-byte block cipher, tweak and hash key")
	}
	if len(src) < 16 {
		panic("modes: HCTR input shorter than one block")
	}
}

// hctrEncrypt, paper section 3 with M = M_1 || N:
//
//	MM = M_1 ^ H_h(N || T);  CC = E_K(MM);  S = MM ^ CC
//	D  = N ^ CTR_K^S;        C_1 = CC ^ H_h(D || T);   C = C_1 || D
func hctrEncrypt(b cipher.Block, tweak, hkey, src []byte, hash hashFn) []byte {
	checkHCTR(b, tweak, hkey, src)
	m1, n := src[:16], src[16:]
	mm := xor(m1, hash(hkey, n, tweak))
	cc := enc(b, mm)
	d := hctrCTR(b, xor(mm, cc), n)
	c1 := xor(cc, hash(hkey, d, tweak))
	return append(c1, d...)
}

// hctrDecrypt:
//
//	CC = C_1 ^ H_h(D || T);  MM = D_K(CC);  S = MM ^ CC
//	N  = D ^ CTR_K^S;        M_1 = MM ^ H_h(N || T)
func hctrDecrypt(b cipher.Block, tweak, hkey, src []byte, hash hashFn) []byte {
	checkHCTR(b, tweak, hkey, src)
	c1, d := src[:16], src[16:]
	cc := xor(c1, hash(hkey, d, tweak))
	mm := dec(b, cc)
	n := hctrCTR(b, xor(mm, cc), d)
	m1 := xor(mm, hash(hkey, n, tweak))
	return append(m1, n...)
}

// HCTREncrypt / HCTRDecrypt follow the paper's definition.
func HCTREncrypt(b cipher.Block, tweak, hkey, src []byte) []byte {
	return hctrEncrypt(b, tweak, hkey, src, hctrHash)
}

func HCTRDecrypt(b cipher.Block, tweak, hkey, src []byte) []byte {
	return hctrDecrypt(b, tweak, hkey, src, hctrHash)
}

// HCTRDefectEncrypt / HCTRDefectDecrypt reproduce the library's current
// output, which deviates from the definition when (len(src)-16) mod 16 is not
// 0 or 8 (see hctrHashDefect).
func HCTRDefectEncrypt(b cipher.Block, tweak, hkey, src []byte) []byte {
	return hctrEncrypt(b, tweak, hkey, src, hctrHashDefect)
}

func HCTRDefectDecrypt(b cipher.Block, tweak, hkey, src []byte) []byte {
	return hctrDecrypt(b, tweak, hkey, src, hctrHashDefect)
}
