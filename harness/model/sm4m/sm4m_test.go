package sm4m

import (
	"bytes"
	"crypto/cipher"
	"encoding/hex"
	"math/rand"
	"reflect"
	"testing"

	"github.com/emmansun/gmsm/sm4"
)

func TestSelf(t *testing.T) {
	if err := SelfTest(); err != nil {
		t.Fatal(err)
	}
}

// GB/T 32907-2016 A.2: 1,000,000 iterated encryptions.
func TestMillion(t *testing.T) {
	key, _ := hex.DecodeString("0123456789abcdeffedcba9876543210")
	want, _ := hex.DecodeString("595298c7c6fd271f0402f804c33d3f66")
	c, _ := NewCipher(key)
	buf := bytes.Clone(key)
	for i := 0; i < 1000000; i++ {
		c.Encrypt(buf, buf)
	}
	if !bytes.Equal(buf, want) {
		t.Fatalf("got %x want %x", buf, want)
	}
}

func TestSboxIsPermutation(t *testing.T) {
	var seen [256]bool
	for _, v := range sbox {
		if seen[v] {
			t.Fatalf("duplicate sbox value %#x", v)
		}
		seen[v] = true
	}
}

// The model must look like a bare cipher.Block: no fast-path interfaces.
func TestOnlyBlockMethods(t *testing.T) {
	c, _ := NewCipher(make([]byte, 16))
	typ := reflect.TypeOf(c)
	if typ.NumMethod() != 3 {
		t.Fatalf("model cipher exposes %d methods, want 3", typ.NumMethod())
	}
	for _, name := range []string{"BlockSize", "Encrypt", "Decrypt"} {
		if _, ok := typ.MethodByName(name); !ok {
			t.Fatalf("missing method %s", name)
		}
	}
	var _ cipher.Block = c
}

func TestKeySize(t *testing.T) {
	for _, n := range []int{0, 1, 15, 17, 24, 32} {
		if _, err := NewCipher(make([]byte, n)); err == nil {
			t.Errorf("key length %d accepted", n)
		}
	}
}

// Cross-check against the library's single-block Encrypt/Decrypt.
func TestAgainstLibrary(t *testing.T) {
	rng := rand.New(rand.NewSource(4))
	for i := 0; i < 20000; i++ {
		key := make([]byte, 16)
		in := make([]byte, 16)
		rng.Read(key)
		rng.Read(in)
		m, _ := NewCipher(key)
		l, err := sm4.NewCipher(key)
		if err != nil {
			t.Fatal(err)
		}
		a, b := make([]byte, 16), make([]byte, 16)
		m.Encrypt(a, in)
		l.Encrypt(b, in)
		if !bytes.Equal(a, b) {
			t.Fatalf("encrypt key=%x in=%x model=%x lib=%x", key, in, a, b)
		}
		m.Decrypt(a, in)
		l.Decrypt(b, in)
		if !bytes.Equal(a, b) {
			t.Fatalf("decrypt key=%x in=%x model=%x lib=%x", key, in, a, b)
		}
	}
}
