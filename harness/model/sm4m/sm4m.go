// Package sm4m is a slow, textbook reference model of the SM4 block cipher
// (GB/T 32907-2016). No T-tables, no batching, stdlib only.
package sm4m

import (
	"bytes"
	"crypto/cipher"
	"encoding/binary"
	"encoding/hex"
	"errors"
	"fmt"
	"math/bits"
)

// BlockSize is the SM4 block size in bytes.
const BlockSize = 16

// sbox is the SM4 S-box, GB/T 32907-2016 section 6.2 (frozen literal).
var sbox = [256]byte{
	0xd6, 0x90, 0xe9, 0xfe, 0xcc, 0xe1, 0x3d, 0xb7, 0x16, 0xb6, 0x14, 0xc2, 0x28, 0xfb, 0x2c, 0x05,
	0x2b, 0x67, 0x9a, 0x76, 0x2a, 0xbe, 0x04, 0xc3, 0xaa, 0x44, 0x13, 0x26, 0x49, 0x86, 0x06, 0x99,
	0x9c, 0x42, 0x50, 0xf4, 0x91, 0xef, 0x98, 0x7a, 0x33, 0x54, 0x0b, 0x43, 0xed, 0xcf, 0xac, 0x62,
	0xe4, 0xb3, 0x1c, 0xa9, 0xc9, 0x08, 0xe8, 0x95, 0x80, 0xdf, 0x94, 0xfa, 0x75, 0x8f, 0x3f, 0xa6,
	0x47, 0x07, 0xa7, 0xfc, 0xf3, 0x73, 0x17, 0xba, 0x83, 0x59, 0x3c, 0x19, 0xe6, 0x85, 0x4f, 0xa8,
	0x68, 0x6b, 0x81, 0xb2, 0x71, 0x64, 0xda, 0x8b, 0xf8, 0xeb, 0x0f, 0x4b, 0x70, 0x56, 0x9d, 0x35,
	0x1e, 0x24, 0x0e, 0x5e, 0x63, 0x58, 0xd1, 0xa2, 0x25, 0x22, 0x7c, 0x3b, 0x01, 0x21, 0x78, 0x87,
	0xd4, 0x00, 0x46, 0x57, 0x9f, 0xd3, 0x27, 0x52, 0x4c, 0x36, 0x02, 0xe7, 0xa0, 0xc4, 0xc8, 0x9e,
	0xea, 0xbf, 0x8a, 0xd2, 0x40, 0xc7, 0x38, 0xb5, 0xa3, 0xf7, 0xf2, 0xce, 0xf9, 0x61, 0x15, 0xa1,
	0xe0, 0xae, 0x5d, 0xa4, 0x9b, 0x34, 0x1a, 0x55, 0xad, 0x93, 0x32, 0x30, 0xf5, 0x8c, 0xb1, 0xe3,
	0x1d, 0xf6, 0xe2, 0x2e, 0x82, 0x66, 0xca, 0x60, 0xc0, 0x29, 0x23, 0xab, 0x0d, 0x53, 0x4e, 0x6f,
	0xd5, 0xdb, 0x37, 0x45, 0xde, 0xfd, 0x8e, 0x2f, 0x03, 0xff, 0x6a, 0x72, 0x6d, 0x6c, 0x5b, 0x51,
	0x8d, 0x1b, 0xaf, 0x92, 0xbb, 0xdd, 0xbc, 0x7f, 0x11, 0xd9, 0x5c, 0x41, 0x1f, 0x10, 0x5a, 0xd8,
	0x0a, 0xc1, 0x31, 0x88, 0xa5, 0xcd, 0x7b, 0xbd, 0x2d, 0x74, 0xd0, 0x12, 0xb8, 0xe5, 0xb4, 0xb0,
	0x89, 0x69, 0x97, 0x4a, 0x0c, 0x96, 0x77, 0x7e, 0x65, 0xb9, 0xf1, 0x09, 0xc5, 0x6e, 0xc6, 0x84,
	0x18, 0xf0, 0x7d, 0xec, 0x3a, 0xdc, 0x4d, 0x20, 0x79, 0xee, 0x5f, 0x3e, 0xd7, 0xcb, 0x39, 0x48,
}

// fk is the system parameter FK, GB/T 32907-2016 section 7.3.
var fk = [4]uint32{0xa3b1bac6, 0x56aa3350, 0x677d9197, 0xb27022dc}

// ck returns the fixed parameter CK_i: byte j of CK_i is (4i+j)*7 mod 256.
func ck(i int) uint32 {
	var w uint32
	for j := 0; j < 4; j++ {
		w = w<<8 | uint32(byte((4*i+j)*7))
	}
	return w
}

// tau applies the S-box to each of the four bytes of a.
func tau(a uint32) uint32 {
	return uint32(sbox[a>>24])<<24 | uint32(sbox[a>>16&0xff])<<16 |
		uint32(sbox[a>>8&0xff])<<8 | uint32(sbox[a&0xff])
}

// tEnc is the round transform T = L . tau, with
// L(B) = B ^ B<<<2 ^ B<<<10 ^ B<<<18 ^ B<<<24.
func tEnc(a uint32) uint32 {
	b := tau(a)
	return b ^ bits.RotateLeft32(b, 2) ^ bits.RotateLeft32(b, 10) ^
		bits.RotateLeft32(b, 18) ^ bits.RotateLeft32(b, 24)
}

// tKey is the key-schedule transform T' = L' . tau, with
// L'(B) = B ^ B<<<13 ^ B<<<23.
func tKey(a uint32) uint32 {
	b := tau(a)
	return b ^ bits.RotateLeft32(b, 13) ^ bits.RotateLeft32(b, 23)
}

// block is deliberately a plain struct with only the cipher.Block methods.
type block struct {
	rk [32]uint32
}

// NewCipher returns a textbook SM4 cipher.Block for the 16-byte key.
func NewCipher(key []byte) (cipher.Block, error) {
	if len(key) != 16 {
		return nil, fmt.Errorf("sm4m: invalid key size %d", len(key))
	}
	c := new(block)
	var k [36]uint32
	for i := 0; i < 4; i++ {
		k[i] = binary.BigEndian.Uint32(key[4*i:]) ^ fk[i]
	}
	for i := 0; i < 32; i++ {
		k[i+4] = k[i] ^ tKey(k[i+1]^k[i+2]^k[i+3]^ck(i))
		c.rk[i] = k[i+4]
	}
	return c, nil
}

func (c *block) BlockSize() int { return BlockSize }

// crypt runs the 32 rounds; decryption is the same with reversed round keys.
// (A plain function, so that *block has exactly the three cipher.Block methods.)
func crypt(c *block, dst, src []byte, decrypt bool) {
	if len(src) < BlockSize {
		panic("sm4m: input not full block")
	}
	if len(dst) < BlockSize {
		panic("sm4m: output not full block")
	}
	var x [36]uint32
	for i := 0; i < 4; i++ {
		x[i] = binary.BigEndian.Uint32(src[4*i:])
	}
	for i := 0; i < 32; i++ {
		rk := c.rk[i]
		if decrypt {
			rk = c.rk[31-i]
		}
		x[i+4] = x[i] ^ tEnc(x[i+1]^x[i+2]^x[i+3]^rk)
	}
	// Reverse transform R: output is (X35, X34, X33, X32).
	for i := 0; i < 4; i++ {
		binary.BigEndian.PutUint32(dst[4*i:], x[35-i])
	}
}

func (c *block) Encrypt(dst, src []byte) { crypt(c, dst, src, false) }
func (c *block) Decrypt(dst, src []byte) { crypt(c, dst, src, true) }

// SelfTest checks the GB/T 32907-2016 appendix A.1 vector in both directions,
// and a short prefix of the A.2 iterated vector (the full 1,000,000 iterations
// are run by the package test).
func SelfTest() error {
	key, _ := hex.DecodeString("0123456789abcdeffedcba9876543210")
	want, _ := hex.DecodeString("681edf34d206965e86b3e94f536e4246")
	if ck(0) != 0x00070e15 || ck(31) != 0x646b7279 {
		return errors.New("sm4m: CK generation wrong")
	}
	c, err := NewCipher(key)
	if err != nil {
		return err
	}
	got := make([]byte, 16)
	c.Encrypt(got, key)
	if !bytes.Equal(got, want) {
		return fmt.Errorf("sm4m: A.1 encrypt got %x want %x", got, want)
	}
	c.Decrypt(got, got)
	if !bytes.Equal(got, key) {
		return fmt.Errorf("sm4m: A.1 decrypt got %x want %x", got, key)
	}
	// Iterate 1000 times forward then 1000 times back.
	buf := bytes.Clone(key)
	for i := 0; i < 1000; i++ {
		c.Encrypt(buf, buf)
	}
	for i := 0; i < 1000; i++ {
		c.Decrypt(buf, buf)
	}
	if !bytes.Equal(buf, key) {
		return errors.New("sm4m: 1000x encrypt/decrypt round trip failed")
	}
	if _, err := NewCipher(key[:15]); err == nil {
		return errors.New("sm4m: 15-byte key accepted")
	}
	return nil
}
