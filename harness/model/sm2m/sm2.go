package sm2m

import (
	"bytes"
	"math/big"

	"verif/harness/model/sm3m"
)

var one = big.NewInt(1)

// DefaultUID is the conventional default user id (GM/T 0009 10).
var DefaultUID = []byte("1234567812345678")

// ZA = SM3(ENTL || uid || a || b || xG || yG || xA || yA) (GB/T 32918.2 5.5).
// ENTL is the bit length of uid as two bytes; uid must be shorter than 8192
// bytes.
func ZA(uid []byte, pub Point) [32]byte {
	mustFinite(pub)
	bits := len(uid) * 8
	if bits > 0xffff {
		panic("sm2m: uid too long")
	}
	entl := []byte{byte(bits >> 8), byte(bits)}
	return sm3m.SumParts(entl, uid, b32(A), b32(B), b32(Gx), b32(Gy), b32(pub.X), b32(pub.Y))
}

// DigestE returns e = SM3(ZA || M).
func DigestE(za [32]byte, msg []byte) [32]byte { return sm3m.SumParts(za[:], msg) }

// eInt converts the digest e to an integer (GB/T 32918.1 4.2.3/4.2.2, big
// endian). GB/T 32918.2 only defines 32-byte e. For longer inputs the model
// follows the SEC 1 4.1.3 convention (leftmost 256 bits), for shorter ones the
// bytes are taken as a big endian integer.
func eInt(e []byte) *big.Int {
	if len(e) > 32 {
		e = e[:32]
	}
	return new(big.Int).SetBytes(e)
}

func inRange1N(x *big.Int) bool { return x != nil && x.Sign() > 0 && x.Cmp(N) < 0 }

// SignWithK is GB/T 32918.2 6.1 steps A4-A6 for a given k in [1,n-1].
func SignWithK(d, k *big.Int, e []byte) (r, s *big.Int, ok bool) {
	if !inRange1N(k) || !inRange1N(d) {
		return nil, nil, false
	}
	dp1 := new(big.Int).Add(d, one)
	if dp1.Cmp(N) == 0 {
		return nil, nil, false // (1+d) not invertible
	}
	x1 := ScalarBaseMult(k).X
	r = new(big.Int).Add(eInt(e), x1)
	r.Mod(r, N)
	if r.Sign() == 0 || new(big.Int).Add(r, k).Cmp(N) == 0 {
		return nil, nil, false
	}
	s = new(big.Int).Mul(r, d)
	s.Sub(k, s)
	s.Mul(s, dp1.ModInverse(dp1, N))
	s.Mod(s, N)
	if s.Sign() == 0 {
		return nil, nil, false
	}
	return r, s, true
}

// VerifyRS is GB/T 32918.2 7.1 steps B1-B7 (pub must be a valid public key).
func VerifyRS(pub Point, e []byte, r, s *big.Int) bool {
	if !OnCurve(pub) || !inRange1N(r) || !inRange1N(s) {
		return false
	}
	t := new(big.Int).Add(r, s)
	t.Mod(t, N)
	if t.Sign() == 0 {
		return false
	}
	p := Add(ScalarBaseMult(s), ScalarMult(t, pub))
	if p.Inf {
		return false
	}
	R := new(big.Int).Add(eInt(e), p.X)
	return R.Mod(R, N).Cmp(r) == 0
}

// RecoverK returns the nonce of signature (r,s) under private key d:
// k = s(1+d) + r d mod n.
func RecoverK(d, r, s *big.Int) *big.Int {
	k := new(big.Int).Add(d, one)
	k.Mul(k, s)
	k.Add(k, new(big.Int).Mul(r, d))
	return k.Mod(k, N)
}

// VerifyASN1Model is the acceptance oracle for arbitrary signature bytes.
func VerifyASN1Model(pub Point, e []byte, sig []byte) bool {
	r, s, ok := ParseStrictDERSig(sig)
	return ok && VerifyRS(pub, e, r, s)
}

func allZero(b []byte) bool {
	for _, c := range b {
		if c != 0 {
			return false
		}
	}
	return true
}

func xor(a, b []byte) []byte {
	out := make([]byte, len(a))
	for i := range a {
		out[i] = a[i] ^ b[i]
	}
	return out
}

// MaskT returns t = KDF(x2||y2, n) with (x2,y2) = [k]pub.
func MaskT(pub Point, k *big.Int, n int) []byte {
	s := ScalarMult(k, pub)
	mustFinite(s)
	return sm3m.KDF(append(b32(s.X), b32(s.Y)...), n)
}

// EncryptWithK is GB/T 32918.4 6.1 for a given k in [1,n-1].
func EncryptWithK(pub Point, k *big.Int, msg []byte) (c1 Point, c2 []byte, c3 [32]byte, ok bool) {
	if !OnCurve(pub) || !inRange1N(k) {
		return Point{}, nil, c3, false
	}
	c1 = ScalarBaseMult(k)
	s := ScalarMult(k, pub) // h = 1, never infinity for k in [1,n-1]
	if s.Inf {
		return Point{}, nil, c3, false
	}
	t := sm3m.KDF(append(b32(s.X), b32(s.Y)...), len(msg))
	if allZero(t) { // includes the empty message
		return Point{}, nil, c3, false
	}
	return c1, xor(msg, t), sm3m.SumParts(b32(s.X), msg, b32(s.Y)), true
}

// Decrypt is GB/T 32918.4 7.1 for d in [1,n-1].
func Decrypt(d *big.Int, c1 Point, c2 []byte, c3 []byte) (msg []byte, ok bool) {
	if !OnCurve(c1) || !inRange1N(d) {
		return nil, false
	}
	s := ScalarMult(d, c1)
	if s.Inf {
		return nil, false
	}
	t := sm3m.KDF(append(b32(s.X), b32(s.Y)...), len(c2))
	if allZero(t) {
		return nil, false
	}
	msg = xor(c2, t)
	u := sm3m.SumParts(b32(s.X), msg, b32(s.Y))
	if !bytes.Equal(u[:], c3) {
		return nil, false
	}
	return msg, true
}

func marshalC1(c1 Point, compressed bool) []byte {
	if compressed {
		return MarshalCompressed(c1)
	}
	return MarshalUncompressed(c1)
}

// MarshalC1C3C2 returns C1||C3||C2 (GB/T 32918.4-2016 order).
func MarshalC1C3C2(c1 Point, c2 []byte, c3 []byte, compressed bool) []byte {
	return append(append(marshalC1(c1, compressed), c3...), c2...)
}

// MarshalC1C2C3 returns C1||C2||C3 (the 2010 draft order).
func MarshalC1C2C3(c1 Point, c2 []byte, c3 []byte, compressed bool) []byte {
	return append(append(marshalC1(c1, compressed), c2...), c3...)
}

// ParseRawCipher splits a raw ciphertext. c1c3c2 selects the order. C1 is
// decoded with Unmarshal (so it is on the curve), C3 is 32 bytes, C2 the
// remaining bytes (possibly none).
func ParseRawCipher(b []byte, c1c3c2 bool) (c1 Point, c2, c3 []byte, ok bool) {
	if len(b) == 0 {
		return Point{}, nil, nil, false
	}
	n := 65
	if b[0] == 2 || b[0] == 3 {
		n = 33
	}
	if len(b) < n+32 {
		return Point{}, nil, nil, false
	}
	if c1, ok = Unmarshal(b[:n]); !ok {
		return Point{}, nil, nil, false
	}
	b = b[n:]
	if c1c3c2 {
		return c1, b[32:], b[:32], true
	}
	return c1, b[:len(b)-32], b[len(b)-32:], true
}

// avf is x~ = 2^w + (x mod 2^w) with w = ceil(ceil(log2 n)/2) - 1 = 127.
func avf(x *big.Int) *big.Int {
	w2 := new(big.Int).Lsh(one, 127)
	t := new(big.Int).Mod(x, w2)
	return t.Add(t, w2)
}

// KAResult is the outcome of one side of the key agreement. S1 is the
// responder's confirmation SB (prefix 0x02), S2 the initiator's SA (0x03).
type KAResult struct {
	Key    []byte
	S1, S2 [32]byte
	V      Point
}

// KeyAgreement is one side of GB/T 32918.3 6.1. RA is the initiator's
// ephemeral point, RB the responder's; RPeer is the one received from the peer.
func KeyAgreement(initiator bool, dSelf, rSelf *big.Int, pubPeer, RPeer Point, zInitiator, zResponder [32]byte, RA, RB Point, klen int) (KAResult, bool) {
	if !OnCurve(pubPeer) || !OnCurve(RPeer) || !OnCurve(RA) || !OnCurve(RB) {
		return KAResult{}, false
	}
	rSelfPoint := RB
	if initiator {
		rSelfPoint = RA
	}
	t := new(big.Int).Mul(avf(rSelfPoint.X), rSelf)
	t.Add(t, dSelf)
	t.Mod(t, N)
	v := ScalarMult(t, Add(pubPeer, ScalarMult(avf(RPeer.X), RPeer))) // h = 1
	if v.Inf {
		return KAResult{}, false
	}
	xv, yv, za, zb := b32(v.X), b32(v.Y), zInitiator[:], zResponder[:]
	res := KAResult{V: v, Key: sm3m.KDF(bytes.Join([][]byte{xv, yv, za, zb}, nil), klen)}
	inner := sm3m.SumParts(xv, za, zb, b32(RA.X), b32(RA.Y), b32(RB.X), b32(RB.Y))
	res.S1 = sm3m.SumParts([]byte{2}, yv, inner[:])
	res.S2 = sm3m.SumParts([]byte{3}, yv, inner[:])
	return res, true
}
