package sm2m

import "math/big"

// Points with a tiny ordinate (frozen; roots of x^3 + ax + b - y^2 found offline with Cantor-Zassenhaus, checked
// by SelfTest). For such a point y + p still fits into 32 octets, so 04 || x || (y+p) is a NON-CANONICAL encoding
// that is congruent to a real point: GB/T 32918.1 4.2.10 (and every strict decoder) refuses it, a decoder that
// forgets the range check on y accepts it.
var smallY = []struct {
	y int64
	x string
}{
	{1, "9c17043effe1a805a74a9a5e70b9d659705d3242094a566dc016f49311178d1f"},
	{2, "3b404f94e46027d11401987cd5acb2953e4bff91a7d856b40986700015b4f8a6"},
	{3, "1800ffcb38194ce0905766dfd6b9ce196095203d481ba8e4e614749d615cd506"},
	{4, "6c504604f185db67ce1a538451c37804e2121d283e1e31ca3f9bad74b6a40cf5"},
	{5, "791c45d2c77b0437b92e8a1df6f6b8c37f7a16df8e59a8e1009854df57d20a4e"},
	{7, "f4301ef7f5d979d3125d530019737eb5d4a2fe8a556b219063cee83d68ffee61"},
}

// SmallYPoint returns the i-th frozen point with a tiny ordinate.
func SmallYPoint(i int) Point {
	e := smallY[((i%len(smallY))+len(smallY))%len(smallY)]
	return Point{X: hx(e.x), Y: big.NewInt(e.y)}
}

// SmallXPoint returns the first point with abscissa >= start whose abscissa is tiny (x + p fits into 32 octets).
func SmallXPoint(start int) Point {
	if start < 0 {
		start = -start
	}
	for x := big.NewInt(int64(start % 100000)); ; x.Add(x, one) {
		v := rhs(x)
		if y := new(big.Int).ModSqrt(v, P); y != nil {
			return Point{X: new(big.Int).Set(x), Y: y}
		}
	}
}

// NonCanonical returns the 65-octet string 04 || X' || Y' with X' = x + p (which == 0) or Y' = y + p (which == 1):
// congruent to the point mod p, but outside [0, p-1]. ok is false when the shifted coordinate does not fit.
func NonCanonical(pt Point, which int) (enc []byte, ok bool) {
	x, y := new(big.Int).Set(pt.X), new(big.Int).Set(pt.Y)
	if which == 0 {
		x.Add(x, P)
	} else {
		y.Add(y, P)
	}
	if x.BitLen() > 256 || y.BitLen() > 256 {
		return nil, false
	}
	return append(append([]byte{4}, b32(x)...), b32(y)...), true
}
