package sm2m

import "math/big"

// Hand written strict DER (X.690) reader/writer for the few shapes SM2 needs.

// derTLV reads one element with the given single-byte tag from the front of b.
// The length must be definite and minimally encoded. It returns the content
// octets and the remaining bytes.
func derTLV(b []byte, tag byte) (content, rest []byte, ok bool) {
	if len(b) < 2 || b[0] != tag {
		return nil, nil, false
	}
	n := int(b[1])
	b = b[2:]
	if n >= 0x80 {
		k := n & 0x7f // number of length octets
		if k == 0 || k > 4 || len(b) < k {
			return nil, nil, false // indefinite, or absurdly large
		}
		if b[0] == 0 {
			return nil, nil, false // leading zero length octet
		}
		n = 0
		for _, c := range b[:k] {
			n = n<<8 | int(c)
		}
		if n < 0x80 {
			return nil, nil, false // should have used the short form
		}
		b = b[k:]
	}
	if len(b) < n {
		return nil, nil, false
	}
	return b[:n], b[n:], true
}

// derUint reads a DER INTEGER that must be minimally encoded and non-negative.
func derUint(b []byte) (v *big.Int, rest []byte, ok bool) {
	c, rest, ok := derTLV(b, 0x02)
	if !ok || len(c) == 0 {
		return nil, nil, false
	}
	if len(c) > 1 && ((c[0] == 0x00 && c[1] < 0x80) || (c[0] == 0xff && c[1] >= 0x80)) {
		return nil, nil, false // non-minimal two's complement
	}
	if c[0] >= 0x80 {
		return nil, nil, false // negative
	}
	return new(big.Int).SetBytes(c), rest, true
}

func derWrap(tag byte, content []byte) []byte {
	out := []byte{tag}
	n := len(content)
	switch {
	case n < 0x80:
		out = append(out, byte(n))
	default:
		l := big.NewInt(int64(n)).Bytes() // minimal big endian
		out = append(out, 0x80|byte(len(l)))
		out = append(out, l...)
	}
	return append(out, content...)
}

func derInt(v *big.Int) []byte {
	if v.Sign() < 0 {
		panic("sm2m: negative INTEGER")
	}
	c := v.Bytes()
	if len(c) == 0 || c[0] >= 0x80 {
		c = append([]byte{0}, c...)
	}
	return derWrap(0x02, c)
}

// ParseStrictDERSig accepts exactly SEQUENCE { INTEGER r, INTEGER s } in DER
// with r, s >= 0 and no trailing bytes inside or after the sequence.
func ParseStrictDERSig(b []byte) (r, s *big.Int, ok bool) {
	seq, rest, ok := derTLV(b, 0x30)
	if !ok || len(rest) != 0 {
		return nil, nil, false
	}
	if r, seq, ok = derUint(seq); !ok {
		return nil, nil, false
	}
	if s, seq, ok = derUint(seq); !ok || len(seq) != 0 {
		return nil, nil, false
	}
	return r, s, true
}

// MarshalDERSig returns the DER encoding of SEQUENCE { INTEGER r, INTEGER s }.
func MarshalDERSig(r, s *big.Int) []byte {
	return derWrap(0x30, append(derInt(r), derInt(s)...))
}

// MarshalCipherASN1 returns SEQUENCE { INTEGER x1, INTEGER y1, OCTET STRING C3, OCTET STRING C2 }
// (GM/T 0009 7.2).
func MarshalCipherASN1(c1 Point, c2 []byte, c3 []byte) []byte {
	mustFinite(c1)
	body := append(derInt(c1.X), derInt(c1.Y)...)
	body = append(body, derWrap(0x04, c3)...)
	body = append(body, derWrap(0x04, c2)...)
	return derWrap(0x30, body)
}

// ParseCipherASN1 is the strict inverse of MarshalCipherASN1. It checks DER
// shape only (C1 is NOT checked to be on the curve, C3 may have any length).
func ParseCipherASN1(b []byte) (c1 Point, c2, c3 []byte, ok bool) {
	seq, rest, ok := derTLV(b, 0x30)
	if !ok || len(rest) != 0 {
		return Point{}, nil, nil, false
	}
	var x, y *big.Int
	if x, seq, ok = derUint(seq); !ok {
		return Point{}, nil, nil, false
	}
	if y, seq, ok = derUint(seq); !ok {
		return Point{}, nil, nil, false
	}
	if c3, seq, ok = derTLV(seq, 0x04); !ok {
		return Point{}, nil, nil, false
	}
	if c2, seq, ok = derTLV(seq, 0x04); !ok || len(seq) != 0 {
		return Point{}, nil, nil, false
	}
	return Point{X: x, Y: y}, c2, c3, true
}
