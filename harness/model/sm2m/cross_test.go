package sm2m

// Cross-checks of the model against github.com/emmansun/gmsm. Disagreements
// that are known library defects are logged with the prefix "KNOWN DEFECT";
// every other disagreement fails the test.

import (
	"bytes"
	"crypto/ecdsa"
	"fmt"
	"math/big"
	mrand "math/rand"
	"testing"

	"github.com/emmansun/gmsm/ecdh"
	"github.com/emmansun/gmsm/sm2"
	"github.com/emmansun/gmsm/sm2/sm2ec"
	"github.com/emmansun/gmsm/sm3"
)

type constReader byte

func (c constReader) Read(p []byte) (int, error) {
	for i := range p {
		p[i] = byte(c)
	}
	return len(p), nil
}

func constScalar(c byte) *big.Int { return new(big.Int).SetBytes(bytes.Repeat([]byte{c}, 32)) }

func rng(seed int64) *mrand.Rand { return mrand.New(mrand.NewSource(seed)) }

func randBytes(r *mrand.Rand, n int) []byte {
	b := make([]byte, n)
	r.Read(b)
	return b
}

// randScalar returns a value in [1, n-2].
func randScalar(r *mrand.Rand) *big.Int {
	k := new(big.Int).SetBytes(randBytes(r, 40))
	k.Mod(k, new(big.Int).Sub(N, big.NewInt(2)))
	return k.Add(k, one)
}

func libKey(t testing.TB, d *big.Int) *sm2.PrivateKey {
	t.Helper()
	k, err := sm2.NewPrivateKeyFromInt(d)
	if err != nil {
		t.Fatalf("NewPrivateKeyFromInt(%x): %v", d, err)
	}
	return k
}

func pt(pub *ecdsa.PublicKey) Point { return Point{X: pub.X, Y: pub.Y} }

func libPub(p Point) *ecdsa.PublicKey {
	return &ecdsa.PublicKey{Curve: sm2.P256(), X: p.X, Y: p.Y}
}

func nMinus(i int64) *big.Int { return new(big.Int).Sub(N, big.NewInt(i)) }

func testKeys(r *mrand.Rand) []*big.Int {
	return []*big.Int{big.NewInt(1), big.NewInt(2), nMinus(2), nMinus(3), randScalar(r), randScalar(r), randScalar(r)}
}

func TestCurveParams(t *testing.T) {
	p := sm2.P256().Params()
	if p.P.Cmp(P) != 0 || p.N.Cmp(N) != 0 || p.B.Cmp(B) != 0 || p.Gx.Cmp(Gx) != 0 || p.Gy.Cmp(Gy) != 0 {
		t.Fatal("curve parameters differ")
	}
	if new(big.Int).Add(A, big.NewInt(3)).Cmp(P) != 0 {
		t.Fatal("a != p-3")
	}
}

// libPoint maps the library's (0,0) convention to the model's infinity.
func libPoint(x, y *big.Int) Point {
	if x.Sign() == 0 && y.Sign() == 0 {
		return infinity
	}
	return Point{X: x, Y: y}
}

func TestGroupLawVsLibrary(t *testing.T) {
	c := sm2ec.P256()
	r := rng(1)
	two256 := new(big.Int).Lsh(one, 256)
	scalars := []*big.Int{big.NewInt(0), big.NewInt(1), big.NewInt(2), big.NewInt(3), nMinus(2), nMinus(1), new(big.Int).Set(N),
		new(big.Int).Add(N, one), new(big.Int).Sub(two256, one), new(big.Int).Lsh(one, 255), new(big.Int).Lsh(one, 128)}
	for i := 0; i < 20; i++ {
		scalars = append(scalars, new(big.Int).SetBytes(randBytes(r, 32)))
	}
	q := ScalarBaseMult(randScalar(r))
	for _, k := range scalars {
		kb := k.FillBytes(make([]byte, 32))
		x, y := c.ScalarBaseMult(kb)
		if want := ScalarBaseMult(k); !Equal(want, libPoint(x, y)) {
			t.Errorf("ScalarBaseMult(%x): lib (%x,%x) model %+v", k, x, y, want)
		}
		x, y = c.ScalarMult(q.X, q.Y, kb)
		if want := ScalarMult(k, q); !Equal(want, libPoint(x, y)) {
			t.Errorf("ScalarMult(%x): lib (%x,%x) model %+v", k, x, y, want)
		}
	}
	// Add: generic, equal, opposite, with infinity.
	a, b := ScalarBaseMult(randScalar(r)), ScalarBaseMult(randScalar(r))
	zero := new(big.Int)
	cases := [][2]Point{{a, b}, {a, a}, {a, Neg(a)}, {a, infinity}, {infinity, b}, {infinity, infinity}, {G(), G()}, {G(), Neg(G())}}
	for i, cs := range cases {
		xy := func(p Point) (*big.Int, *big.Int) {
			if p.Inf {
				return zero, zero
			}
			return p.X, p.Y
		}
		x1, y1 := xy(cs[0])
		x2, y2 := xy(cs[1])
		x, y := c.Add(x1, y1, x2, y2)
		if want := Add(cs[0], cs[1]); !Equal(want, libPoint(x, y)) {
			t.Errorf("Add case %d: lib (%x,%x) model %+v", i, x, y, want)
		}
		x, y = c.Double(x1, y1)
		if want := Double(cs[0]); !Equal(want, libPoint(x, y)) {
			t.Errorf("Double case %d: lib (%x,%x) model %+v", i, x, y, want)
		}
	}
	for i := 0; i < 50; i++ {
		p := ScalarBaseMult(randScalar(r))
		if !OnCurve(p) || !c.IsOnCurve(p.X, p.Y) {
			t.Fatal("on curve")
		}
		y1 := new(big.Int).Add(p.Y, one)
		if OnCurve(Point{X: p.X, Y: y1}) || c.IsOnCurve(p.X, y1) {
			t.Fatal("off curve accepted")
		}
	}
}

func TestUnmarshalVsLibrary(t *testing.T) {
	c := sm2ec.P256().(interface {
		Unmarshal([]byte) (*big.Int, *big.Int)
		UnmarshalCompressed([]byte) (*big.Int, *big.Int)
	})
	lib := func(b []byte) (Point, bool) {
		x, y := c.Unmarshal(b)
		if x == nil {
			x, y = c.UnmarshalCompressed(b)
		}
		if x == nil {
			return Point{}, false
		}
		return Point{X: x, Y: y}, true
	}
	check := func(name string, b []byte) {
		t.Helper()
		mp, mok := Unmarshal(b)
		lp, lok := lib(b)
		if mok != lok || (mok && !Equal(mp, lp)) {
			t.Errorf("%s %x: model (%v,%+v) lib (%v,%+v)", name, b, mok, mp, lok, lp)
		}
		if len(b) > 0 && b[0] == 4 {
			if _, err := sm2.NewPublicKey(b); (err == nil) != mok {
				t.Errorf("%s %x: sm2.NewPublicKey err=%v model %v", name, b, err, mok)
			}
		}
	}
	r := rng(2)
	for i := 0; i < 40; i++ {
		p := ScalarBaseMult(randScalar(r))
		u, cm := MarshalUncompressed(p), MarshalCompressed(p)
		check("uncompressed", u)
		check("compressed", cm)
		check("hybrid", MarshalHybrid(p))
		q, ok := Unmarshal(cm)
		if !ok || !Equal(p, q) {
			t.Fatal("compressed round trip")
		}
		cm[0] ^= 1
		q, ok = Unmarshal(cm)
		if !ok || !Equal(Neg(p), q) {
			t.Fatal("compressed negation")
		}
		check("short", u[:64])
		check("long", append(u, 0))
		check("short-c", cm[:32])
		check("long-c", append(cm, 0))
		u[1+r.Intn(64)] ^= 1 << r.Intn(8)
		check("bitflip", u)
		check("random-x", append([]byte{2}, randBytes(r, 32)...))
	}
	check("empty", nil)
	check("inf", []byte{0})
	check("inf65", make([]byte, 65))
	check("04zero", append([]byte{4}, make([]byte, 64)...))
	// Non-canonical coordinates: find points with small x so that x+p fits in 32 bytes.
	found := 0
	for x := int64(0); found < 3; x++ {
		bx := big.NewInt(x)
		p, ok := Unmarshal(append([]byte{2}, b32(bx)...))
		if !ok {
			continue
		}
		found++
		xp := new(big.Int).Add(bx, P)
		check("x+p", append(append([]byte{4}, b32(xp)...), b32(p.Y)...))
		check("x+p compressed", append([]byte{2}, b32(xp)...))
		check("x=p.. ok form", MarshalUncompressed(p))
	}
	check("x=p", append([]byte{3}, b32(P)...))
	AllowHybrid = true
	p := ScalarBaseMult(big.NewInt(7))
	h := MarshalHybrid(p)
	if q, ok := Unmarshal(h); !ok || !Equal(p, q) {
		t.Error("hybrid round trip")
	}
	h[0] ^= 1
	if _, ok := Unmarshal(h); ok {
		t.Error("hybrid with wrong parity accepted")
	}
	AllowHybrid = false
}

func TestZAVsLibrary(t *testing.T) {
	r := rng(3)
	for l := 0; l <= 300; l++ {
		d := randScalar(r)
		priv := libKey(t, d)
		uid := randBytes(r, l)
		want, err := sm2.CalculateZA(&priv.PublicKey, uid)
		if err != nil {
			t.Fatal(err)
		}
		got := ZA(uid, ScalarBaseMult(d))
		if !bytes.Equal(want, got[:]) {
			t.Errorf("uid length %d: sm2.CalculateZA %x model %x", l, want, got)
		}
		ek, err := priv.ECDH()
		if err != nil {
			t.Fatal(err)
		}
		want, err = ek.PublicKey().SM2ZA(sm3.New(), uid)
		if err != nil {
			t.Fatal(err)
		}
		if l == 0 {
			got = ZA(DefaultUID, ScalarBaseMult(d)) // documented: ecdh substitutes the default uid
		}
		if !bytes.Equal(want, got[:]) {
			t.Errorf("uid length %d: ecdh SM2ZA %x model %x", l, want, got)
		}
	}
	for _, l := range []int{4096, 8190, 8191} {
		priv := libKey(t, big.NewInt(5))
		uid := randBytes(r, l)
		want, err := sm2.CalculateZA(&priv.PublicKey, uid)
		got := ZA(uid, pt(&priv.PublicKey))
		if err != nil || !bytes.Equal(want, got[:]) {
			t.Errorf("uid length %d: %v %x %x", l, err, want, got)
		}
	}
}

func TestLibrarySignModelVerify(t *testing.T) {
	r := rng(4)
	for i, d := range testKeys(r) {
		priv := libKey(t, d)
		pub := ScalarBaseMult(d)
		if !Equal(pub, pt(&priv.PublicKey)) {
			t.Fatalf("public key of %x differs", d)
		}
		for j, uid := range [][]byte{nil, {}, []byte("a"), randBytes(r, 40), DefaultUID} {
			msg := randBytes(r, r.Intn(200))
			for _, random := range []interface{ Read([]byte) (int, error) }{r, constReader(0x11), constReader(0xee)} {
				sig, err := sm2.SignASN1(random, priv, msg, sm2.NewSM2SignerOption(true, uid))
				if err != nil {
					t.Fatal(err)
				}
				u := uid
				if len(u) == 0 {
					u = DefaultUID // documented library behaviour for signing
				}
				e := DigestE(ZA(u, pub), msg)
				if h, _ := sm2.CalculateSM2Hash(&priv.PublicKey, msg, uid); !bytes.Equal(h, e[:]) {
					t.Fatalf("e differs")
				}
				rr, ss, ok := ParseStrictDERSig(sig)
				if !ok || !VerifyRS(pub, e[:], rr, ss) || !VerifyASN1Model(pub, e[:], sig) {
					t.Fatalf("key %d uid %d: library signature %x rejected by model", i, j, sig)
				}
				if !bytes.Equal(MarshalDERSig(rr, ss), sig) {
					t.Fatalf("DER re-encoding differs: %x", sig)
				}
				k := RecoverK(d, rr, ss)
				r2, s2, ok := SignWithK(d, k, e[:])
				if !ok || r2.Cmp(rr) != 0 || s2.Cmp(ss) != 0 {
					t.Fatalf("recovered k %x does not reproduce signature", k)
				}
				if c, isConst := random.(constReader); isConst && k.Cmp(constScalar(byte(c))) != 0 {
					t.Fatalf("recovered k %x, reader fed %x", k, constScalar(byte(c)))
				}
				// wrong message / wrong key
				e2 := DigestE(ZA(u, pub), append(msg, 0))
				if VerifyRS(pub, e2[:], rr, ss) || VerifyRS(ScalarBaseMult(new(big.Int).Add(d, one)), e[:], rr, ss) {
					t.Fatal("model accepts signature for wrong message or key")
				}
			}
		}
	}
}

// Pre-hashed signing (no ZA) with digests of several lengths.
func TestLibrarySignHashLengths(t *testing.T) {
	r := rng(5)
	d := randScalar(r)
	priv := libKey(t, d)
	pub := ScalarBaseMult(d)
	for _, l := range []int{0, 1, 20, 31, 32, 33, 48, 64} {
		for _, fill := range []byte{0, 0xff} {
			h := randBytes(r, l)
			if fill == 0xff {
				h = bytes.Repeat([]byte{0xff}, l) // e >= n for l >= 32
			}
			sig, err := sm2.SignASN1(r, priv, h, nil)
			if err != nil {
				t.Fatal(err)
			}
			if !VerifyASN1Model(pub, h, sig) {
				t.Errorf("hash length %d: library signature rejected by model (eInt convention?)", l)
			}
			rr, ss, _ := ParseStrictDERSig(sig)
			k := RecoverK(d, rr, ss)
			if r2, s2, ok := SignWithK(d, k, h); !ok || r2.Cmp(rr) != 0 || s2.Cmp(ss) != 0 {
				t.Errorf("hash length %d: SignWithK does not reproduce", l)
			}
		}
	}
}

func TestModelSignLibraryVerify(t *testing.T) {
	r := rng(6)
	keys := append(testKeys(r), nMinus(2))
	for _, d := range keys {
		pub := ScalarBaseMult(d)
		lp := libPub(pub)
		for _, k := range []*big.Int{big.NewInt(1), big.NewInt(2), nMinus(1), randScalar(r), randScalar(r)} {
			uid := randBytes(r, 1+r.Intn(30))
			msg := randBytes(r, r.Intn(100))
			e := DigestE(ZA(uid, pub), msg)
			rr, ss, ok := SignWithK(d, k, e[:])
			if !ok {
				t.Logf("SignWithK refused d=%x k=%x", d, k)
				continue
			}
			sig := MarshalDERSig(rr, ss)
			if !sm2.VerifyASN1WithSM2(lp, uid, msg, sig) {
				t.Errorf("model signature rejected by library d=%x k=%x", d, k)
			}
			if sm2.VerifyASN1WithSM2(lp, uid, append(msg, 1), sig) {
				t.Errorf("library accepts wrong message")
			}
		}
	}
}

// Crafted signatures that make [s]G and [t]P equal (doubling inside the
// verification sum) or opposite (sum is infinity).
func TestVerifyDegenerateSums(t *testing.T) {
	r := rng(7)
	for i := 0; i < 5; i++ {
		d := randScalar(r)
		pub := ScalarBaseMult(d)
		rr := randScalar(r)
		// equal: s = (r+s) d  =>  s = r d / (1-d)
		den := new(big.Int).Sub(one, d)
		den.Mod(den, N)
		ss := new(big.Int).Mul(rr, d)
		ss.Mul(ss, new(big.Int).ModInverse(den, N)).Mod(ss, N)
		tt := new(big.Int).Add(rr, ss)
		tt.Mod(tt, N)
		if !Equal(ScalarBaseMult(ss), ScalarMult(tt, pub)) {
			t.Fatal("construction (equal) wrong")
		}
		x1 := Double(ScalarBaseMult(ss)).X
		e := new(big.Int).Sub(rr, x1)
		e.Mod(e, N)
		sig := MarshalDERSig(rr, ss)
		m, l := VerifyASN1Model(pub, b32(e), sig), sm2.VerifyASN1(libPub(pub), b32(e), sig)
		if !m || !l {
			t.Errorf("equal summands: model %v library %v (both should accept)", m, l)
		}
		// opposite: s = -(r+s) d  =>  s = -r d / (1+d)
		den = new(big.Int).Add(one, d)
		ss = new(big.Int).Mul(rr, d)
		ss.Neg(ss).Mul(ss, new(big.Int).ModInverse(den, N)).Mod(ss, N)
		tt = new(big.Int).Add(rr, ss)
		tt.Mod(tt, N)
		if !Add(ScalarBaseMult(ss), ScalarMult(tt, pub)).Inf {
			t.Fatal("construction (opposite) wrong")
		}
		sig = MarshalDERSig(rr, ss)
		for _, e := range []*big.Int{rr, new(big.Int), new(big.Int).Sub(rr, one)} { // e = r would match x1 = 0
			m, l = VerifyASN1Model(pub, b32(e), sig), sm2.VerifyASN1(libPub(pub), b32(e), sig)
			if m || l {
				t.Errorf("opposite summands: model %v library %v (both should reject)", m, l)
			}
		}
	}
}

// The acceptance oracle on arbitrary byte strings.
func TestVerifyAcceptanceVsLibrary(t *testing.T) {
	r := rng(8)
	d := randScalar(r)
	pub := ScalarBaseMult(d)
	lp := libPub(pub)
	msg := []byte("acceptance")
	e := DigestE(ZA(DefaultUID, pub), msg)
	n := 0
	check := func(name string, sig []byte) {
		t.Helper()
		n++
		m, l := VerifyASN1Model(pub, e[:], sig), sm2.VerifyASN1(lp, e[:], sig)
		if m != l {
			t.Errorf("%s: sig %x model %v library %v", name, sig, m, l)
		}
	}
	// Pick signatures whose r and s have different DER shapes.
	var sigs [][2]*big.Int
	// One signature per DER shape: top bit of r / s clear or set, and a short r.
	seen := map[string]bool{}
	want := 5
	if testing.Short() {
		want = 2
	}
	for len(sigs) < want {
		rr, ss, ok := SignWithK(d, randScalar(r), e[:])
		if !ok {
			continue
		}
		shape := fmt.Sprint(len(derInt(rr)), len(derInt(ss)))
		if len(seen) == 4 && len(derInt(rr)) >= 34 {
			continue // still looking for r < 2^247
		}
		if !seen[shape] {
			seen[shape] = true
			sigs = append(sigs, [2]*big.Int{rr, ss})
		}
	}
	seq := func(parts ...[]byte) []byte { return derWrap(0x30, bytes.Join(parts, nil)) }
	rawInt := func(c []byte) []byte { return derWrap(0x02, c) }
	for _, rs := range sigs {
		rr, ss := rs[0], rs[1]
		good := MarshalDERSig(rr, ss)
		check("valid", good)
		if !VerifyASN1Model(pub, e[:], good) {
			t.Fatal("valid signature rejected")
		}
		ri, si := derInt(rr), derInt(ss)
		check("trailing after", append(append([]byte{}, good...), 0))
		check("trailing inside", seq(ri, si, []byte{0}))
		check("trailing inside 2", seq(ri, si, []byte{5, 0}))
		check("third integer", seq(ri, si, derInt(one)))
		check("one integer", seq(ri))
		check("empty seq", seq())
		check("swapped", seq(si, ri))
		body := append(append([]byte{}, ri...), si...)
		check("seq long form", append([]byte{0x30, 0x81, byte(len(body))}, body...))
		check("seq long form 2", append([]byte{0x30, 0x82, 0, byte(len(body))}, body...))
		check("seq indefinite", append(append([]byte{0x30, 0x80}, body...), 0, 0))
		check("seq length too big", append([]byte{0x30, byte(len(body) + 1)}, body...))
		check("seq length too small", append([]byte{0x30, byte(len(body) - 1)}, body...))
		check("set tag", append([]byte{0x31}, good[1:]...))
		check("primitive seq tag", append([]byte{0x10}, good[1:]...))
		check("int long form", seq(append([]byte{0x02, 0x81, byte(len(ri) - 2)}, ri[2:]...), si))
		check("int leading zero r", seq(rawInt(append([]byte{0}, ri[2:]...)), si))
		check("int leading zero s", seq(ri, rawInt(append([]byte{0}, si[2:]...))))
		check("int unpadded r", seq(rawInt(rr.Bytes()), si)) // negative when the top bit is set
		check("int unpadded s", seq(ri, rawInt(ss.Bytes())))
		check("int constructed", seq(append([]byte{0x22}, ri[1:]...), si))
		check("int as octet string", seq(append([]byte{0x04}, ri[1:]...), si))
		check("empty int r", seq(rawInt(nil), si))
		check("empty int s", seq(ri, rawInt(nil)))
		check("r=0", MarshalDERSig(new(big.Int), ss))
		check("s=0", MarshalDERSig(rr, new(big.Int)))
		check("r=n", MarshalDERSig(N, ss))
		check("s=n", MarshalDERSig(rr, N))
		check("r+n", MarshalDERSig(new(big.Int).Add(rr, N), ss))
		check("s+n", MarshalDERSig(rr, new(big.Int).Add(ss, N)))
		check("s=n-r", MarshalDERSig(rr, new(big.Int).Sub(N, rr)))
		check("n-r", MarshalDERSig(new(big.Int).Sub(N, rr), ss))
		check("n-s", MarshalDERSig(rr, new(big.Int).Sub(N, ss)))
		check("-r", seq(rawInt(new(big.Int).Sub(new(big.Int).Lsh(one, 264), rr).Bytes()), si)) // two's complement of -r on 33 bytes
		check("huge r", MarshalDERSig(new(big.Int).Lsh(rr, 256), ss))
		for i := 0; i <= len(good); i++ {
			check("truncated", good[:i])
		}
		// every single-bit flip, and every byte value in the structural positions
		for i := range good {
			for b := 0; b < 8; b++ {
				m := append([]byte{}, good...)
				m[i] ^= 1 << b
				check(fmt.Sprintf("bitflip %d.%d", i, b), m)
			}
		}
		structural := []int{0, 1, 2, 3, 4, 5, 2 + len(ri), 3 + len(ri), 4 + len(ri), 5 + len(ri)}
		for _, i := range structural {
			for v := 0; v < 256; v++ {
				m := append([]byte{}, good...)
				m[i] = byte(v)
				check(fmt.Sprintf("byte %d=%02x", i, v), m)
			}
		}
		for i := 0; i < 200; i++ {
			m := append([]byte{}, good...)
			switch r.Intn(3) {
			case 0: // insert
				p := r.Intn(len(m) + 1)
				m = append(m[:p], append([]byte{byte(r.Intn(256))}, m[p:]...)...)
			case 1: // delete
				p := r.Intn(len(m))
				m = append(m[:p], m[p+1:]...)
			case 2: // insert/delete and fix outer length
				p := 2 + r.Intn(len(m)-2)
				m = append(m[:p], append([]byte{byte(r.Intn(256))}, m[p:]...)...)
				m[1]++
			}
			check("random edit", m)
		}
	}
	for i := 0; i < 300; i++ {
		check("random bytes", randBytes(r, r.Intn(80)))
	}
	// Invalid public keys must be rejected by both.
	_, s0 := sigs[0][0], sigs[0][1]
	bad := Point{X: pub.X, Y: new(big.Int).Add(pub.Y, one)}
	sig := MarshalDERSig(sigs[0][0], s0)
	if VerifyASN1Model(bad, e[:], sig) || sm2.VerifyASN1(libPub(bad), e[:], sig) {
		t.Error("off-curve public key accepted")
	}
	t.Logf("%d signature byte strings compared", n)
}

type layout struct {
	name       string
	enc        *sm2.EncrypterOpts
	dec        *sm2.DecrypterOpts
	c1c3c2     bool
	compressed bool
	asn1       bool
}

var layouts = []layout{
	{"C1C3C2", sm2.NewPlainEncrypterOpts(sm2.MarshalUncompressed, sm2.C1C3C2), sm2.NewPlainDecrypterOpts(sm2.C1C3C2), true, false, false},
	{"C1C3C2-compressed", sm2.NewPlainEncrypterOpts(sm2.MarshalCompressed, sm2.C1C3C2), sm2.NewPlainDecrypterOpts(sm2.C1C3C2), true, true, false},
	{"C1C2C3", sm2.NewPlainEncrypterOpts(sm2.MarshalUncompressed, sm2.C1C2C3), sm2.NewPlainDecrypterOpts(sm2.C1C2C3), false, false, false},
	{"C1C2C3-compressed", sm2.NewPlainEncrypterOpts(sm2.MarshalCompressed, sm2.C1C2C3), sm2.NewPlainDecrypterOpts(sm2.C1C2C3), false, true, false},
	{"ASN1", sm2.ASN1EncrypterOpts, sm2.ASN1DecrypterOpts, true, false, true},
}

func (l layout) marshal(c1 Point, c2, c3 []byte) []byte {
	switch {
	case l.asn1:
		return MarshalCipherASN1(c1, c2, c3)
	case l.c1c3c2:
		return MarshalC1C3C2(c1, c2, c3, l.compressed)
	}
	return MarshalC1C2C3(c1, c2, c3, l.compressed)
}

// modelDecrypt is the model's view of the library's decrypt entry point.
func (l layout) modelDecrypt(d *big.Int, ct []byte) ([]byte, bool) {
	var c1 Point
	var c2, c3 []byte
	var ok bool
	if l.asn1 {
		c1, c2, c3, ok = ParseCipherASN1(ct)
	} else {
		c1, c2, c3, ok = ParseRawCipher(ct, l.c1c3c2)
	}
	if !ok {
		return nil, false
	}
	return Decrypt(d, c1, c2, c3)
}

var msgLens = []int{1, 2, 15, 16, 19, 31, 32, 33, 55, 56, 63, 64, 65, 100, 127, 128, 129, 200, 255, 256, 257, 300, 1000}

// countReader counts Read calls, i.e. candidate scalars drawn by the library.
type countReader struct {
	r     interface{ Read([]byte) (int, error) }
	reads [][]byte
}

func (c *countReader) Read(p []byte) (int, error) {
	n, err := c.r.Read(p)
	c.reads = append(c.reads, append([]byte{}, p[:n]...))
	return n, err
}

func TestLibraryEncryptModelDecrypt(t *testing.T) {
	r := rng(9)
	for _, d := range testKeys(r)[2:6] {
		priv := libKey(t, d)
		pub := ScalarBaseMult(d)
		for _, n := range msgLens {
			msg := randBytes(r, n)
			for _, l := range layouts {
				for _, random := range []interface{ Read([]byte) (int, error) }{r, constReader(0x11)} {
					cr := &countReader{r: random}
					ct, err := sm2.Encrypt(cr, &priv.PublicKey, msg, l.enc)
					if err != nil {
						t.Fatal(err)
					}
					got, ok := l.modelDecrypt(d, ct)
					if len(cr.reads) > 1 && !ok {
						// see TestEncryptRetryAfterZeroMask
						t.Logf("NEW DEFECT (c): %s len %d d=%x: library drew %d scalars %x and produced an undecryptable ciphertext %x",
							l.name, n, d, len(cr.reads), cr.reads, ct)
						continue
					}
					if !ok || !bytes.Equal(got, msg) {
						t.Errorf("%s len %d d=%x reader=%T msg=%x: model cannot decrypt library ciphertext %x", l.name, n, d, random, msg, ct)
					}
					k := new(big.Int).SetBytes(cr.reads[len(cr.reads)-1])
					c1, c2, c3, ok := EncryptWithK(pub, k, msg)
					if !ok || !bytes.Equal(l.marshal(c1, c2, c3[:]), ct) {
						t.Errorf("%s len %d: ciphertext bytes differ from model for k=%x", l.name, n, k)
					}
					// and the library must decrypt its own output
					back, err := priv.Decrypt(nil, ct, l.dec)
					if err != nil || !bytes.Equal(back, msg) {
						t.Errorf("%s len %d: library cannot decrypt its own ciphertext (%d bytes): %v", l.name, n, len(ct), err)
					}
				}
			}
		}
	}
}

// GB/T 32918.4 6.1 A5: if t is all zero, go back to A1 (fresh k, everything
// recomputed from the ORIGINAL public key). The library's encryptSM2EC computes
// Q.ScalarMult(Q, k), overwriting the public key point Q with [k1]Q, so the
// retry uses [k2][k1]P for the mask while emitting C1 = [k2]G.
func TestEncryptRetryAfterZeroMask(t *testing.T) {
	r := rng(16)
	d := randScalar(r)
	priv := libKey(t, d)
	pub := ScalarBaseMult(d)
	msg := []byte{0x5a}
	var k1 *big.Int
	for {
		k1 = randScalar(r)
		if allZero(MaskT(pub, k1, len(msg))) {
			break
		}
	}
	if _, _, _, ok := EncryptWithK(pub, k1, msg); ok {
		t.Fatal("model must refuse k with all-zero mask")
	}
	var k2 *big.Int
	for {
		k2 = randScalar(r)
		k12 := new(big.Int).Mul(k1, k2)
		if !allZero(MaskT(pub, k2, len(msg))) && !allZero(MaskT(pub, k12.Mod(k12, N), len(msg))) {
			break
		}
	}
	for _, l := range layouts {
		ct, err := sm2.Encrypt(bytes.NewReader(append(b32(k1), b32(k2)...)), &priv.PublicKey, msg, l.enc)
		if err != nil {
			t.Fatal(err)
		}
		c1, c2, c3, _ := EncryptWithK(pub, k2, msg)
		want := l.marshal(c1, c2, c3[:])
		if bytes.Equal(ct, want) {
			continue // library behaves per the standard
		}
		// Reproduce the defective output exactly: mask and C3 from [k1 k2]P.
		s := ScalarMult(new(big.Int).Mul(k1, k2), pub)
		bad2 := xor(msg, MaskT(pub, new(big.Int).Mul(k1, k2), len(msg)))
		bad3 := DigestE([32]byte(b32(s.X)), append(append([]byte{}, msg...), b32(s.Y)...)) // SM3(x||M||y)
		_, lerr := priv.Decrypt(nil, ct, l.dec)
		_, mok := l.modelDecrypt(d, ct)
		if bytes.Equal(ct, l.marshal(c1, bad2, bad3[:])) && lerr != nil && !mok {
			t.Logf("NEW DEFECT (c): %s: after an A5 retry the library emits C1=[k2]G with C2,C3 derived from [k1*k2]P; nobody can decrypt (library: %v)", l.name, lerr)
		} else {
			t.Errorf("%s: unexplained ciphertext %x, model %x", l.name, ct, want)
		}
	}
}

func TestModelEncryptLibraryDecrypt(t *testing.T) {
	r := rng(10)
	for _, d := range testKeys(r)[2:6] {
		priv := libKey(t, d)
		pub := ScalarBaseMult(d)
		for _, n := range msgLens {
			msg := randBytes(r, n)
			k := randScalar(r)
			c1, c2, c3, ok := EncryptWithK(pub, k, msg)
			if !ok {
				t.Fatal("EncryptWithK")
			}
			for _, l := range layouts {
				ct := l.marshal(c1, c2, c3[:])
				got, err := priv.Decrypt(nil, ct, l.dec)
				if err != nil || !bytes.Equal(got, msg) {
					t.Errorf("%s len %d: library cannot decrypt model ciphertext (%d bytes): %v", l.name, n, len(ct), err)
				}
			}
		}
	}
}

// Known defect (a): a message equal to the KDF mask gives an all-zero C2.
func TestAllZeroC2(t *testing.T) {
	r := rng(11)
	d := randScalar(r)
	priv := libKey(t, d)
	pub := ScalarBaseMult(d)
	for _, n := range []int{1, 32, 33, 100} {
		k := randScalar(r)
		msg := MaskT(pub, k, n)
		c1, c2, c3, ok := EncryptWithK(pub, k, msg)
		if !ok || !allZero(c2) {
			t.Fatal("construction")
		}
		if got, ok := Decrypt(d, c1, c2, c3[:]); !ok || !bytes.Equal(got, msg) {
			t.Fatal("model must decrypt all-zero C2")
		}
		for _, l := range layouts {
			if _, err := priv.Decrypt(nil, l.marshal(c1, c2, c3[:]), l.dec); err != nil {
				t.Logf("KNOWN DEFECT (a): %s len %d: library refuses valid ciphertext with all-zero C2: %v", l.name, n, err)
			}
		}
	}
}

func TestDecryptRejectionVsLibrary(t *testing.T) {
	r := rng(12)
	d := randScalar(r)
	priv := libKey(t, d)
	pub := ScalarBaseMult(d)
	n := 0
	mlens := []int{1, 2, 33, 40, 130}
	if testing.Short() {
		mlens = []int{2, 40}
	}
	for _, mlen := range mlens {
		msg := randBytes(r, mlen)
		c1, c2, c3, _ := EncryptWithK(pub, randScalar(r), msg)
		for _, l := range layouts {
			good := l.marshal(c1, c2, c3[:])
			check := func(name string, ct []byte) {
				t.Helper()
				n++
				mm, mok := l.modelDecrypt(d, ct)
				lm, err := priv.Decrypt(nil, ct, l.dec)
				if mok != (err == nil) || !bytes.Equal(mm, lm) {
					t.Errorf("%s %s: ct %x model (%v,%x) library (%v,%x)", l.name, name, ct, mok, mm, err, lm)
				}
			}
			check("valid", good)
			for i := range good {
				m := append([]byte{}, good...)
				m[i] ^= 1 << r.Intn(8)
				check(fmt.Sprintf("bitflip %d", i), m)
			}
			for i := 0; i < 12 && i < len(good); i++ {
				for v := 0; v < 256; v += 5 {
					m := append([]byte{}, good...)
					m[i] = byte(v)
					check(fmt.Sprintf("byte %d=%02x", i, v), m)
				}
			}
			check("append", append(append([]byte{}, good...), 0))
			check("drop last", good[:len(good)-1])
			off := Point{X: c1.X, Y: new(big.Int).Add(c1.Y, one)}
			if !l.compressed {
				check("C1 off curve", l.marshal(off, c2, c3[:]))
			}
			if l.asn1 {
				check("short c3", MarshalCipherASN1(c1, c2, c3[:31]))
				check("long c3", MarshalCipherASN1(c1, c2, append(c3[:], 0)))
				check("x+p", MarshalCipherASN1(Point{X: new(big.Int).Add(c1.X, P), Y: c1.Y}, c2, c3[:]))
			}
		}
	}
	t.Logf("%d ciphertexts compared", n)
}

// A ciphertext with empty C2 and C3 = SM3(x2||y2): the mask t is the empty
// string, which is vacuously all zero, so the model refuses it.
func TestEmptyC2(t *testing.T) {
	r := rng(17)
	d := randScalar(r)
	priv := libKey(t, d)
	pub := ScalarBaseMult(d)
	k := randScalar(r)
	s := ScalarMult(k, pub)
	c3 := DigestE([32]byte(b32(s.X)), b32(s.Y))
	for _, l := range layouts {
		ct := l.marshal(ScalarBaseMult(k), nil, c3[:])
		_, mok := l.modelDecrypt(d, ct)
		m, err := priv.Decrypt(nil, ct, l.dec)
		if mok {
			t.Errorf("%s: model accepts empty C2", l.name)
		}
		if err == nil {
			t.Errorf("%s: library accepts a ciphertext with empty C2 (plaintext %x), model refuses", l.name, m)
		}
	}
}

// d = n-1 has no inverse of 1+d: the model refuses; the library must return
// an error on the FIRST call (the second call is known defect (b), not run).
func TestSignWithOrderMinusOne(t *testing.T) {
	d := nMinus(1)
	e := DigestE([32]byte{}, nil)
	if _, _, ok := SignWithK(d, big.NewInt(12345), e[:]); ok {
		t.Fatal("model signs with d = n-1")
	}
	if _, err := sm2.NewPrivateKeyFromInt(d); err == nil {
		t.Error("library accepts d = n-1 in NewPrivateKey")
	}
	pub := ScalarBaseMult(d)
	priv := new(sm2.PrivateKey)
	priv.Curve, priv.D, priv.X, priv.Y = sm2.P256(), d, pub.X, pub.Y
	if _, err := sm2.SignASN1(constReader(0x11), priv, e[:], nil); err == nil {
		t.Error("library signs with d = n-1")
	}
}

// Fixed ciphertexts quoted in /repo/sm2/example_test.go.
func TestRepoCiphertexts(t *testing.T) {
	d := hxs("6c5a0a0b2eed3cbec3e4f1252bfe0e28c504a1c6bf1999eebb0af9ef0f8e6c85")
	ct := unhex("308194022100bd31001ce8d39a4a0119ff96d71334cd12d8b75bbc780f5bfc6e1efab535e85a02201839c075ff8bf761dcbe185c9750816410517001d6a130f6ab97fb23337cce150420ea82bd58d6a5394eb468a769ab48b6a26870ca075377eb06663780c920ea5ee0042be22abcf48e56ae9d29ac770d9de0d6b7094a874a2f8d26c26e0b1daaf4ff50a484b88163d04785b04585bb")
	c1, c2, c3, ok := ParseCipherASN1(ct)
	if !ok {
		t.Fatal("parse")
	}
	m, ok := Decrypt(d, c1, c2, c3)
	if !ok || string(m) != "send reinforcements, we're going to advance" {
		t.Fatalf("got %q %v", m, ok)
	}
	pub, _ := Unmarshal(unhex("048356e642a40ebd18d29ba3532fbd9f3bbee8f027c3f6f39a5ba2f870369f9988981f5efe55d1c5cdf6c0ef2b070847a14f7fdf4272a8df09c442f3058af94ba1"))
	if !Equal(pub, ScalarBaseMult(d)) {
		t.Fatal("public key")
	}
	sig := unhex("304402205b3a799bd94c9063120d7286769220af6b0fa127009af3e873c0e8742edc5f890220097968a4c8b040fd548d1456b33f470cabd8456bfea53e8a828f92f6d4bdcd77")
	e := DigestE(ZA(DefaultUID, pub), []byte("ShangMi SM2 Sign Standard"))
	if !VerifyASN1Model(pub, e[:], sig) {
		t.Fatal("example signature rejected")
	}
}

func ecdhKey(t testing.TB, d *big.Int) *ecdh.PrivateKey {
	t.Helper()
	k, err := ecdh.P256().NewPrivateKey(b32(d))
	if err != nil {
		t.Fatalf("ecdh.NewPrivateKey(%x): %v", d, err)
	}
	return k
}

func ecdhPoint(t testing.TB, p *ecdh.PublicKey) Point {
	t.Helper()
	q, ok := Unmarshal(p.Bytes())
	if !ok {
		t.Fatalf("bad ecdh public key %x", p.Bytes())
	}
	return q
}

// sm2.KeyExchange (math/big implementation in the library) with ephemeral
// scalars forced by constant readers.
func TestKeyExchangeVsLibrary(t *testing.T) {
	r := rng(13)
	for i := 0; i < 6; i++ {
		dA, dB := randScalar(r), randScalar(r)
		uidA, uidB := randBytes(r, 1+r.Intn(40)), randBytes(r, 1+r.Intn(40))
		if i == 0 {
			uidA, uidB = nil, nil // library substitutes the default uid
		}
		klen := []int{16, 1, 32, 33, 48, 100}[i]
		ca, cb := byte(0x11+i), byte(0x80+i)
		rA, rB := constScalar(ca), constScalar(cb)
		privA, privB := libKey(t, dA), libKey(t, dB)
		ini, err := sm2.NewKeyExchange(privA, &privB.PublicKey, uidA, uidB, klen, true)
		if err != nil {
			t.Fatal(err)
		}
		rsp, err := sm2.NewKeyExchange(privB, &privA.PublicKey, uidB, uidA, klen, true)
		if err != nil {
			t.Fatal(err)
		}
		libRA, err := ini.InitKeyExchange(constReader(ca))
		if err != nil {
			t.Fatal(err)
		}
		libRB, sB, err := rsp.RepondKeyExchange(constReader(cb), libRA)
		if err != nil {
			t.Fatal(err)
		}
		keyA, sA, err := ini.ConfirmResponder(libRB, sB)
		if err != nil {
			t.Fatal(err)
		}
		keyB, err := rsp.ConfirmInitiator(sA)
		if err != nil {
			t.Fatal(err)
		}

		PA, PB, RA, RB := ScalarBaseMult(dA), ScalarBaseMult(dB), ScalarBaseMult(rA), ScalarBaseMult(rB)
		if !Equal(RA, pt(libRA)) || !Equal(RB, pt(libRB)) {
			t.Fatalf("ephemeral points differ: the reader trick failed")
		}
		ua, ub := uidA, uidB
		if i == 0 {
			ua, ub = DefaultUID, DefaultUID
		}
		zA, zB := ZA(ua, PA), ZA(ub, PB)
		mi, ok1 := KeyAgreement(true, dA, rA, PB, RB, zA, zB, RA, RB, klen)
		mr, ok2 := KeyAgreement(false, dB, rB, PA, RA, zA, zB, RA, RB, klen)
		if !ok1 || !ok2 {
			t.Fatal("model failed")
		}
		if !bytes.Equal(mi.Key, mr.Key) || mi.S1 != mr.S1 || mi.S2 != mr.S2 || !Equal(mi.V, mr.V) {
			t.Fatal("model sides disagree")
		}
		if !bytes.Equal(keyA, mi.Key) || !bytes.Equal(keyB, mi.Key) {
			t.Errorf("run %d: key: library A %x B %x model %x", i, keyA, keyB, mi.Key)
		}
		if !bytes.Equal(sB, mi.S1[:]) || !bytes.Equal(sA, mi.S2[:]) {
			t.Errorf("run %d: confirmation: library sB %x sA %x model S1 %x S2 %x", i, sB, sA, mi.S1, mi.S2)
		}

		// Same exchange through the ecdh package.
		eA, eB, eRA, eRB := ecdhKey(t, dA), ecdhKey(t, dB), ecdhKey(t, rA), ecdhKey(t, rB)
		vA, err := eA.SM2MQV(eRA, eB.PublicKey(), eRB.PublicKey())
		if err != nil {
			t.Fatal(err)
		}
		vB, err := eB.SM2MQV(eRB, eA.PublicKey(), eRA.PublicKey())
		if err != nil {
			t.Fatal(err)
		}
		if !Equal(ecdhPoint(t, vA), mi.V) || !Equal(ecdhPoint(t, vB), mi.V) {
			t.Errorf("run %d: ecdh V differs", i)
		}
		kA, err := vA.SM2SharedKey(false, klen, eA.PublicKey(), eB.PublicKey(), uidA, uidB)
		if err != nil {
			t.Fatal(err)
		}
		kB, err := vB.SM2SharedKey(true, klen, eB.PublicKey(), eA.PublicKey(), uidB, uidA)
		if err != nil {
			t.Fatal(err)
		}
		if !bytes.Equal(kA, mi.Key) || !bytes.Equal(kB, mi.Key) {
			t.Errorf("run %d: ecdh key A %x B %x model %x", i, kA, kB, mi.Key)
		}
	}
}

// Known answers quoted in /repo/ecdh/ecdh_test.go.
func TestECDHRepoVectors(t *testing.T) {
	vectors := [][6]string{
		{"e04c3fd77408b56a648ad439f673511a2ae248def3bab26bdfc9cdbd0ae9607e", "6fe0bac5b09d3ab10f724638811c34464790520e4604e71e6cb0e5310623b5b1",
			"7a1136f60d2c5531447e5a3093078c2a505abf74f33aefed927ac0a5b27e7dd7", "d0233bdbb0b8a7bfe1aab66132ef06fc4efaedd5d5000692bc21185242a31f6f",
			"046ab5c9709277837cedc515730d04751ef81c71e81e0e52357a98cf41796ab560508da6e858b40c6264f17943037434174284a847f32c4f54104a98af5148d89f",
			"1ad809ebc56ddda532020c352e1e60b121ebeb7b4e632db4dd90a362cf844f8bba85140e30984ddb581199bf5a9dda22"},
		{"cb5ac204b38d0e5c9fc38a467075986754018f7dbb7cbbc5b4c78d56a88a8ad8", "1681a66c02b67fdadfc53cba9b417b9499d0159435c86bb8760c3a03ae157539",
			"4f54b10e0d8e9e2fe5cc79893e37fd0fd990762d1372197ed92dde464b2773ef", "a2fe43dea141e9acc88226eaba8908ad17e81376c92102cb8186e8fef61a8700",
			"04677d055355a1dcc9de4df00d3a80b6daa76bdf54ff7e0a3a6359fcd0c6f1e4b4697fffc41bbbcc3a28ea3aa1c6c380d1e92f142233afa4b430d02ab4cebc43b2",
			"7a103ae61a30ed9df573a5febb35a9609cbed5681bcb98a8545351bf7d6824cc4635df5203712ea506e2e3c4ec9b12e7"},
		{"ee690a34a779ab48227a2f68b062a80f92e26d82835608dd01b7452f1e4fb296", "2046c6cee085665e9f3abeba41fd38e17a26c08f2f5e8f0e1007afc0bf6a2a5d",
			"8ef49ea427b13cc31151e1c96ae8a48cb7919063f2d342560fb7eaaffb93d8fe", "9baf8d602e43fbae83fedb7368f98c969d378b8a647318f8cafb265296ae37de",
			"04f7e9f1447968b284ff43548fcec3752063ea386b48bfabb9baf2f9c1caa05c2fb12c2cca37326ce27e68f8cc6414c2554895519c28da1ca21e61890d0bc525c4",
			"b18e78e5072f301399dc1f4baf2956c0ed2d5f52f19abb1705131b0865b079031259ee6c629b4faed528bcfa1c5d2cbc"},
	}
	for i, v := range vectors {
		dA, rA, dB, rB := hxs(v[0]), hxs(v[1]), hxs(v[2]), hxs(v[3])
		PA, PB, RA, RB := ScalarBaseMult(dA), ScalarBaseMult(dB), ScalarBaseMult(rA), ScalarBaseMult(rB)
		zA, zB := ZA([]byte("Alice"), PA), ZA([]byte("Bob"), PB)
		mi, ok1 := KeyAgreement(true, dA, rA, PB, RB, zA, zB, RA, RB, 48)
		mr, ok2 := KeyAgreement(false, dB, rB, PA, RA, zA, zB, RA, RB, 48)
		if !ok1 || !ok2 || !bytes.Equal(mi.Key, mr.Key) {
			t.Fatal("model")
		}
		if !bytes.Equal(MarshalUncompressed(mi.V), unhex(v[4])) || !bytes.Equal(mi.Key, unhex(v[5])) {
			t.Errorf("vector %d: V %x key %x", i, MarshalUncompressed(mi.V), mi.Key)
		}
	}
}

// A peer can choose its static key so that PPeer + [x~]RPeer is infinity
// (V infinity, must fail) or so that PPeer = [x~]RPeer (the inner addition is a
// doubling, must succeed). The own side can hit tSelf = 0 (V infinity).
func TestKeyAgreementDegenerate(t *testing.T) {
	r := rng(14)
	for i := 0; i < 4; i++ {
		dA, rA, rB := randScalar(r), randScalar(r), randScalar(r)
		RA, RB := ScalarBaseMult(rA), ScalarBaseMult(rB)
		PA := ScalarBaseMult(dA)
		xr := new(big.Int).Mul(avf(RB.X), rB)
		xr.Mod(xr, N)
		for _, tc := range []struct {
			name string
			dB   *big.Int
			ok   bool
		}{{"opposite", new(big.Int).Sub(N, xr), false}, {"equal", xr, true}} {
			dB := tc.dB
			PB := ScalarBaseMult(dB)
			zA, zB := ZA(DefaultUID, PA), ZA(DefaultUID, PB)
			mi, ok := KeyAgreement(true, dA, rA, PB, RB, zA, zB, RA, RB, 32)
			if ok != tc.ok {
				t.Fatalf("%s: model ok=%v", tc.name, ok)
			}
			// ecdh
			v, err := ecdhKey(t, dA).SM2MQV(ecdhKey(t, rA), ecdhKey(t, dB).PublicKey(), ecdhKey(t, rB).PublicKey())
			if (err == nil) != tc.ok {
				t.Errorf("%s: ecdh.SM2MQV err=%v, model ok=%v", tc.name, err, tc.ok)
			} else if tc.ok && !Equal(ecdhPoint(t, v), mi.V) {
				t.Errorf("%s: ecdh V differs", tc.name)
			}
			// sm2.KeyExchange, initiator side, rA forced to a constant
			cA := constScalar(0x33)
			cRA := ScalarBaseMult(cA)
			mi, ok = KeyAgreement(true, dA, cA, PB, RB, zA, zB, cRA, RB, 32)
			if ok != tc.ok {
				t.Fatalf("%s: model ok=%v", tc.name, ok)
			}
			ke, err := sm2.NewKeyExchange(libKey(t, dA), libPub(PB), nil, nil, 32, false)
			if err != nil {
				t.Fatal(err)
			}
			if _, err = ke.InitKeyExchange(constReader(0x33)); err != nil {
				t.Fatal(err)
			}
			key, _, err := ke.ConfirmResponder(libPub(RB), nil)
			if (err == nil) != tc.ok {
				t.Errorf("%s: sm2.KeyExchange err=%v, model ok=%v", tc.name, err, tc.ok)
			} else if tc.ok && !bytes.Equal(key, mi.Key) {
				t.Errorf("%s: sm2.KeyExchange key %x model %x", tc.name, key, mi.Key)
			}
		}
		// tSelf = 0: rA = -dA / x~A is not computable without knowing x~A first, so
		// instead fix rA and set dA = -x~A rA.
		dA0 := new(big.Int).Mul(avf(RA.X), rA)
		dA0.Neg(dA0).Mod(dA0, N)
		dB := randScalar(r)
		PB := ScalarBaseMult(dB)
		zA, zB := ZA(DefaultUID, ScalarBaseMult(dA0)), ZA(DefaultUID, PB)
		if _, ok := KeyAgreement(true, dA0, rA, PB, RB, zA, zB, RA, RB, 32); ok {
			t.Fatal("tSelf=0: model ok")
		}
		if _, err := ecdhKey(t, dA0).SM2MQV(ecdhKey(t, rA), ecdhKey(t, dB).PublicKey(), ecdhKey(t, rB).PublicKey()); err == nil {
			t.Errorf("tSelf=0: ecdh.SM2MQV succeeded")
		}
	}
	// Peer ephemeral point not on the curve.
	dA, dB, rA := randScalar(r), randScalar(r), randScalar(r)
	RA, PB := ScalarBaseMult(rA), ScalarBaseMult(dB)
	bad := Point{X: big.NewInt(1), Y: big.NewInt(1)}
	z := ZA(DefaultUID, PB)
	if _, ok := KeyAgreement(true, dA, rA, PB, bad, z, z, RA, bad, 16); ok {
		t.Error("model accepts off-curve RB")
	}
	ke, _ := sm2.NewKeyExchange(libKey(t, dA), libPub(PB), nil, nil, 16, false)
	ke.InitKeyExchange(r)
	if _, _, err := ke.ConfirmResponder(libPub(bad), nil); err == nil {
		t.Error("library accepts off-curve RB")
	}
}

func TestDERRoundTrip(t *testing.T) {
	r := rng(15)
	for i := 0; i < 200; i++ {
		a := new(big.Int).SetBytes(randBytes(r, r.Intn(40)))
		b := new(big.Int).SetBytes(randBytes(r, r.Intn(40)))
		x, y, ok := ParseStrictDERSig(MarshalDERSig(a, b))
		if !ok || x.Cmp(a) != 0 || y.Cmp(b) != 0 {
			t.Fatalf("round trip %x %x", a, b)
		}
	}
	for _, n := range []int{0, 1, 127, 128, 255, 256, 65535, 65536} {
		c2 := randBytes(r, n)
		c3 := randBytes(r, 32)
		p := ScalarBaseMult(randScalar(r))
		q, d2, d3, ok := ParseCipherASN1(MarshalCipherASN1(p, c2, c3))
		if !ok || !Equal(p, q) || !bytes.Equal(c2, d2) || !bytes.Equal(c3, d3) {
			t.Fatalf("cipher round trip %d", n)
		}
	}
}
