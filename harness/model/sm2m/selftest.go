package sm2m

import (
	"bytes"
	"encoding/hex"
	"errors"
	"math/big"
	"strings"
)

func unhex(s string) []byte {
	b, err := hex.DecodeString(strings.ReplaceAll(s, " ", ""))
	if err != nil {
		panic(err)
	}
	return b
}

func hxs(s string) *big.Int { return new(big.Int).SetBytes(unhex(s)) }

// SelfTest checks the model against the worked examples of GB/T 32918.5-2017
// (= GM/T 0003.5-2012) annexes A.2 (signature), A.3 (key exchange) and A.4
// (encryption), all on the recommended curve.
func SelfTest() error {
	if !OnCurve(G()) {
		return errors.New("sm2m: G not on curve")
	}
	if !ScalarBaseMult(N).Inf || ScalarBaseMult(new(big.Int).Sub(N, one)).Inf {
		return errors.New("sm2m: order of G")
	}
	if !Equal(Add(G(), Neg(G())), infinity) || !Equal(Add(G(), G()), Double(G())) {
		return errors.New("sm2m: group law")
	}
	for i := range smallY {
		pt := SmallYPoint(i)
		if !OnCurve(pt) {
			return errors.New("sm2m: frozen small-ordinate point not on the curve")
		}
		enc, ok := NonCanonical(pt, 1)
		if _, dec := Unmarshal(enc); !ok || dec {
			return errors.New("sm2m: non-canonical encoding must exist and must be refused by the model decoder")
		}
	}
	if enc, ok := NonCanonical(SmallXPoint(0), 0); !ok || !OnCurve(SmallXPoint(0)) {
		return errors.New("sm2m: small-abscissa point")
	} else if _, dec := Unmarshal(enc); dec {
		return errors.New("sm2m: non-canonical abscissa accepted by the model decoder")
	}

	// A.2 signature.
	d := hxs("3945208F 7B2144B1 3F36E38A C6D39F95 88939369 2860B51A 42FB81EF 4DF7C5B8")
	pub := ScalarBaseMult(d)
	if !bytes.Equal(MarshalUncompressed(pub), unhex("04"+
		"09F9DF31 1E5421A1 50DD7D16 1E4BC5C6 72179FAD 1833FC07 6BB08FF3 56F35020"+
		"CCEA490C E26775A5 2DC6EA71 8CC1AA60 0AED05FB F35E084A 6632F607 2DA9AD13")) {
		return errors.New("sm2m: A.2 public key")
	}
	za := ZA(DefaultUID, pub)
	if !bytes.Equal(za[:], unhex("B2E14C5C 79C6DF5B 85F4FE7E D8DB7A26 2B9DA7E0 7CCB0EA9 F4747B8C CDA8A4F3")) {
		return errors.New("sm2m: A.2 ZA")
	}
	e := DigestE(za, []byte("message digest"))
	if !bytes.Equal(e[:], unhex("F0B43E94 BA45ACCA ACE692ED 534382EB 17E6AB5A 19CE7B31 F4486FDF C0D28640")) {
		return errors.New("sm2m: A.2 e")
	}
	k := hxs("59276E27 D506861A 16680F3A D9C02DCC EF3CC1FA 3CDBE4CE 6D54B80D EAC1BC21")
	wr := hxs("F5A03B06 48D2C463 0EEAC513 E1BB81A1 5944DA38 27D5B741 43AC7EAC EEE720B3")
	ws := hxs("B1B6AA29 DF212FD8 763182BC 0D421CA1 BB9038FD 1F7F42D4 840B69C4 85BBC1AA")
	r, s, ok := SignWithK(d, k, e[:])
	if !ok || r.Cmp(wr) != 0 || s.Cmp(ws) != 0 {
		return errors.New("sm2m: A.2 signature")
	}
	if !VerifyRS(pub, e[:], r, s) || !VerifyASN1Model(pub, e[:], MarshalDERSig(r, s)) || RecoverK(d, r, s).Cmp(k) != 0 {
		return errors.New("sm2m: A.2 verification")
	}
	if VerifyRS(pub, e[:], r, new(big.Int).Add(s, one)) {
		return errors.New("sm2m: A.2 forged signature accepted")
	}

	// A.4 encryption (same key pair and k).
	msg := []byte("encryption standard")
	c1, c2, c3, ok := EncryptWithK(pub, k, msg)
	if !ok || !bytes.Equal(MarshalUncompressed(c1), unhex("04"+
		"04EBFC71 8E8D1798 62043226 8E77FEB6 415E2EDE 0E073C0F 4F640ECD 2E149A73"+
		"E858F9D8 1E5430A5 7B36DAAB 8F950A3C 64E6EE6A 63094D99 283AFF76 7E124DF0")) {
		return errors.New("sm2m: A.4 C1")
	}
	if !bytes.Equal(MaskT(pub, k, len(msg)), unhex("44E60F DBF0BAE8 14376653 74BEF267 49046C9E")) {
		return errors.New("sm2m: A.4 t")
	}
	if !bytes.Equal(c2, unhex("21886C A989CA9C 7D580873 07CA9309 2D651EFA")) {
		return errors.New("sm2m: A.4 C2")
	}
	if !bytes.Equal(c3[:], unhex("59983C18 F809E262 923C53AE C295D303 83B54E39 D609D160 AFCB1908 D0BD8766")) {
		return errors.New("sm2m: A.4 C3")
	}
	if m, ok := Decrypt(d, c1, c2, c3[:]); !ok || !bytes.Equal(m, msg) {
		return errors.New("sm2m: A.4 decrypt")
	}

	// A.3 key exchange.
	dA := hxs("81EB26E9 41BB5AF1 6DF11649 5F906952 72AE2CD6 3D6C4AE1 678418BE 48230029")
	dB := hxs("78512991 7D45A9EA 5437A593 56B82338 EAADDA6C EB199088 F14AE10D EFA229B5")
	rA := hxs("D4DE1547 4DB74D06 491C440D 305E0124 00990F3E 390C7E87 153C12DB 2EA60BB3")
	rB := hxs("7E071248 14B30948 9125EAED 10111316 4EBF0F34 58C5BD88 335C1F9D 596243D6")
	PA, PB, RA, RB := ScalarBaseMult(dA), ScalarBaseMult(dB), ScalarBaseMult(rA), ScalarBaseMult(rB)
	zA, zB := ZA(DefaultUID, PA), ZA(DefaultUID, PB)
	if !bytes.Equal(zA[:], unhex("3B85A571 79E11E7E 513AA622 991F2CA7 4D1807A0 BD4D4B38 F90987A1 7AC245B1")) ||
		!bytes.Equal(zB[:], unhex("79C988D6 3229D97E F19FE02C A1056E01 E6A7411E D24694AA 8F834F4A 4AB022F7")) {
		return errors.New("sm2m: A.3 ZA/ZB")
	}
	ini, ok1 := KeyAgreement(true, dA, rA, PB, RB, zA, zB, RA, RB, 16)
	rsp, ok2 := KeyAgreement(false, dB, rB, PA, RA, zA, zB, RA, RB, 16)
	if !ok1 || !ok2 || !Equal(ini.V, rsp.V) || !bytes.Equal(ini.Key, rsp.Key) || ini.S1 != rsp.S1 || ini.S2 != rsp.S2 {
		return errors.New("sm2m: A.3 sides disagree")
	}
	if !bytes.Equal(ini.Key, unhex("6C893473 54DE2484 C60B4AB1 FDE4C6E5")) {
		return errors.New("sm2m: A.3 key")
	}
	if !bytes.Equal(ini.S1[:], unhex("D3A0FE15 DEE185CE AE907A6B 595CC32A 266ED7B3 367E9983 A896DC32 FA20F8EB")) ||
		!bytes.Equal(ini.S2[:], unhex("18C7894B 3816DF16 CF07B05C 5EC0BEF5 D655D58F 779CC1B4 00A4F388 4644DB88")) {
		return errors.New("sm2m: A.3 confirmation values")
	}
	return nil
}
