// Package sm2m is a slow, obvious reference implementation of the SM2 public
// key algorithms (GB/T 32918 parts 2, 3 and 4) on the recommended curve
// sm2p256v1 of GB/T 32918.5. It uses math/big and affine curve arithmetic
// only and shares no code and no constants with github.com/emmansun/gmsm.
package sm2m

import "math/big"

func hx(s string) *big.Int {
	v, ok := new(big.Int).SetString(s, 16)
	if !ok {
		panic("sm2m: bad hex literal")
	}
	return v
}

// Curve y^2 = x^3 + a x + b over F_p, base point G of prime order n, cofactor 1.
// Frozen literals from GB/T 32918.5.
var (
	P  = hx("FFFFFFFEFFFFFFFFFFFFFFFFFFFFFFFFFFFFFFFF00000000FFFFFFFFFFFFFFFF")
	A  = hx("FFFFFFFEFFFFFFFFFFFFFFFFFFFFFFFFFFFFFFFF00000000FFFFFFFFFFFFFFFC")
	B  = hx("28E9FA9E9D9F5E344D5A9E4BCF6509A7F39789F515AB8F92DDBCBD414D940E93")
	N  = hx("FFFFFFFEFFFFFFFFFFFFFFFFFFFFFFFF7203DF6B21C6052B53BBF40939D54123")
	Gx = hx("32C4AE2C1F1981195F9904466A39C9948FE30BBFF2660BE1715A4589334C74C7")
	Gy = hx("BC3736A2F4F6779C59BDCEE36B692153D0A9877CC62A474002DF32E52139F0A0")
)

// Point is an affine point, or the point at infinity when Inf is set (X, Y are
// then ignored).
type Point struct {
	X, Y *big.Int
	Inf  bool
}

var infinity = Point{Inf: true}

// G returns the base point.
func G() Point { return Point{X: new(big.Int).Set(Gx), Y: new(big.Int).Set(Gy)} }

func mod(x *big.Int) *big.Int { return x.Mod(x, P) }

// OnCurve reports whether p is a finite point with 0 <= x,y < p satisfying the
// curve equation. The point at infinity is reported as false.
func OnCurve(p Point) bool {
	if p.Inf || p.X == nil || p.Y == nil {
		return false
	}
	if p.X.Sign() < 0 || p.Y.Sign() < 0 || p.X.Cmp(P) >= 0 || p.Y.Cmp(P) >= 0 {
		return false
	}
	lhs := mod(new(big.Int).Mul(p.Y, p.Y))
	return lhs.Cmp(rhs(p.X)) == 0
}

// rhs returns x^3 + a x + b mod p.
func rhs(x *big.Int) *big.Int {
	r := new(big.Int).Mul(x, x)
	r.Mul(r, x)
	r.Add(r, new(big.Int).Mul(A, x))
	r.Add(r, B)
	return mod(r)
}

// Equal reports whether p and q are the same point.
func Equal(p, q Point) bool {
	if p.Inf || q.Inf {
		return p.Inf && q.Inf
	}
	return p.X.Cmp(q.X) == 0 && p.Y.Cmp(q.Y) == 0
}

// Neg returns -p.
func Neg(p Point) Point {
	if p.Inf {
		return infinity
	}
	return Point{X: new(big.Int).Set(p.X), Y: mod(new(big.Int).Neg(p.Y))}
}

// Add returns p+q (GB/T 32918.1 3.2.3.1).
func Add(p, q Point) Point {
	switch {
	case p.Inf:
		return q
	case q.Inf:
		return p
	}
	if p.X.Cmp(q.X) == 0 {
		if p.Y.Cmp(q.Y) == 0 {
			return Double(p)
		}
		return infinity // q = -p
	}
	// lambda = (y2-y1)/(x2-x1)
	num := new(big.Int).Sub(q.Y, p.Y)
	den := mod(new(big.Int).Sub(q.X, p.X))
	return chord(p, q, mod(num.Mul(num, den.ModInverse(den, P))))
}

// Double returns 2p.
func Double(p Point) Point {
	if p.Inf || p.Y.Sign() == 0 {
		return infinity
	}
	// lambda = (3 x^2 + a)/(2 y)
	num := new(big.Int).Mul(p.X, p.X)
	num.Mul(num, big.NewInt(3))
	num.Add(num, A)
	den := mod(new(big.Int).Lsh(p.Y, 1))
	return chord(p, p, mod(num.Mul(num, den.ModInverse(den, P))))
}

// chord finishes an addition with slope l: x3 = l^2-x1-x2, y3 = l(x1-x3)-y1.
func chord(p, q Point, l *big.Int) Point {
	x3 := new(big.Int).Mul(l, l)
	x3.Sub(x3, p.X)
	mod(x3.Sub(x3, q.X))
	y3 := new(big.Int).Sub(p.X, x3)
	y3.Mul(y3, l)
	mod(y3.Sub(y3, p.Y))
	return Point{X: x3, Y: y3}
}

// ScalarMult returns [k]p by left-to-right double-and-add on the bits of k
// exactly as given (k >= 0, not reduced).
func ScalarMult(k *big.Int, p Point) Point {
	if k.Sign() < 0 {
		panic("sm2m: negative scalar")
	}
	r := infinity
	for i := k.BitLen() - 1; i >= 0; i-- {
		r = Double(r)
		if k.Bit(i) == 1 {
			r = Add(r, p)
		}
	}
	return r
}

// ScalarBaseMult returns [k]G.
func ScalarBaseMult(k *big.Int) Point { return ScalarMult(k, G()) }

func b32(x *big.Int) []byte { return x.FillBytes(make([]byte, 32)) }

// MarshalUncompressed returns 04||X||Y.
func MarshalUncompressed(p Point) []byte {
	mustFinite(p)
	return append(append([]byte{4}, b32(p.X)...), b32(p.Y)...)
}

// MarshalCompressed returns 02||X (y even) or 03||X (y odd).
func MarshalCompressed(p Point) []byte {
	mustFinite(p)
	return append([]byte{2 + byte(p.Y.Bit(0))}, b32(p.X)...)
}

// MarshalHybrid returns 06||X||Y (y even) or 07||X||Y (y odd).
func MarshalHybrid(p Point) []byte {
	mustFinite(p)
	return append(append([]byte{6 + byte(p.Y.Bit(0))}, b32(p.X)...), b32(p.Y)...)
}

func mustFinite(p Point) {
	if p.Inf {
		panic("sm2m: cannot marshal the point at infinity")
	}
}

// AllowHybrid makes Unmarshal also accept the 65-byte hybrid form 06/07||X||Y.
var AllowHybrid = false

// Unmarshal decodes a point (GB/T 32918.1 4.2.10). It accepts exactly the
// 65-byte 04 form, the 33-byte 02/03 form and, if AllowHybrid, the 65-byte
// 06/07 form whose tag parity matches y; coordinates must be < p and the point
// on the curve.
func Unmarshal(b []byte) (Point, bool) {
	if len(b) == 0 {
		return Point{}, false
	}
	switch {
	case len(b) == 65 && (b[0] == 4 || (AllowHybrid && (b[0] == 6 || b[0] == 7))):
		p := Point{X: new(big.Int).SetBytes(b[1:33]), Y: new(big.Int).SetBytes(b[33:65])}
		if !OnCurve(p) || (b[0] != 4 && p.Y.Bit(0) != uint(b[0]&1)) {
			return Point{}, false
		}
		return p, true
	case len(b) == 33 && (b[0] == 2 || b[0] == 3):
		x := new(big.Int).SetBytes(b[1:33])
		if x.Cmp(P) >= 0 {
			return Point{}, false
		}
		// p = 3 mod 4: a square root of v, if any, is v^((p+1)/4).
		v := rhs(x)
		y := new(big.Int).Exp(v, new(big.Int).Rsh(new(big.Int).Add(P, big.NewInt(1)), 2), P)
		if mod(new(big.Int).Mul(y, y)).Cmp(v) != 0 {
			return Point{}, false
		}
		if y.Bit(0) != uint(b[0]&1) {
			y = mod(y.Neg(y))
		}
		p := Point{X: x, Y: y}
		// y = 0 has no odd representative; re-check instead of reasoning.
		if !OnCurve(p) || p.Y.Bit(0) != uint(b[0]&1) {
			return Point{}, false
		}
		return p, true
	}
	return Point{}, false
}
