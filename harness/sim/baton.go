package sim

import (
	"sync"
	"syscall"
	"unsafe"
)

// Baton is the seeded cooperative scheduler of real goroutines used by C20.
//
// Every task parks before each of its operations in a raw read(2) on a
// private pipe; the scheduler releases exactly one task at a time with a raw
// write(2) and waits for its completion on another pipe. The raw system calls
// are issued from //go:norace functions and bypass the syscall package's
// wrappers, so the hand-off is invisible to the race detector: it creates NO
// happens-before edge. The detector's vector clocks therefore contain only
// the synchronisation the library itself performs, and two conflicting
// accesses of different tasks that the library does not order are reported
// whatever the physical timing - a deterministic verdict for a deterministic
// (serialised) schedule.
type Baton struct {
	goR, goW []int // per task: pipe on which the task waits for "go"
	doneR    int   // pipe on which tasks report completion
	doneW    int
	wg       sync.WaitGroup
}

//go:norace
func rawRead(fd int) byte {
	var b [1]byte
	for {
		n, _, e := syscall.Syscall(syscall.SYS_READ, uintptr(fd), uintptr(unsafe.Pointer(&b[0])), 1)
		if e == syscall.EINTR || (n == 0 && e == syscall.EAGAIN) {
			continue
		}
		if e != 0 || n != 1 {
			panic("sim: baton read failed")
		}
		return b[0]
	}
}

//go:norace
func rawWrite(fd int, v byte) {
	b := [1]byte{v}
	for {
		n, _, e := syscall.Syscall(syscall.SYS_WRITE, uintptr(fd), uintptr(unsafe.Pointer(&b[0])), 1)
		if e == syscall.EINTR {
			continue
		}
		if e != 0 || n != 1 {
			panic("sim: baton write failed")
		}
		return
	}
}

// NewBaton starts one goroutine per task. steps[t] is the list of operations
// of task t, prepared completely before the goroutines are created (the go
// statement is the only happens-before edge from the scheduler to a task).
func NewBaton(steps [][]func()) *Baton {
	b := &Baton{}
	var p [2]int
	if err := syscall.Pipe(p[:]); err != nil {
		panic(err)
	}
	b.doneR, b.doneW = p[0], p[1]
	for range steps {
		var q [2]int
		if err := syscall.Pipe(q[:]); err != nil {
			panic(err)
		}
		b.goR = append(b.goR, q[0])
		b.goW = append(b.goW, q[1])
	}
	for t := range steps {
		b.wg.Add(1)
		go taskLoop(&b.wg, b.goR[t], b.doneW, steps[t])
	}
	return b
}

func taskLoop(wg *sync.WaitGroup, goFd, doneFd int, steps []func()) {
	defer wg.Done()
	for _, f := range steps {
		if rawRead(goFd) == 0xff {
			return // aborted
		}
		f()
		rawWrite(doneFd, 1)
	}
}

// Step releases task t for exactly one operation and waits until it is done.
//
//go:norace
func (b *Baton) Step(t int) {
	rawWrite(b.goW[t], 1)
	rawRead(b.doneR)
}

// Close waits for all tasks (they must have run all their steps, or are
// aborted) and releases the pipes. The WaitGroup is the only ordinary
// synchronisation: it orders all task effects before the scheduler reads the
// results.
func (b *Baton) Close(remaining []int) {
	for t, n := range remaining {
		if n > 0 {
			rawWrite(b.goW[t], 0xff)
		}
	}
	b.wg.Wait()
	syscall.Close(b.doneR)
	syscall.Close(b.doneW)
	for t := range b.goR {
		syscall.Close(b.goR[t])
		syscall.Close(b.goW[t])
	}
}
