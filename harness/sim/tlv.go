package sim

// A small DER TLV reader/writer used by the transport and storage fault
// models: it locates value bytes inside containers and lets a Byzantine
// producer re-encode a structure with one element-level lie but consistent
// lengths. Definite lengths only; unknown or malformed parts stay opaque.

type TLV struct {
	Tag      byte
	Off      int    // offset of the tag byte in the original buffer
	HdrLen   int    // tag + length octets
	Content  []byte // content octets (for primitives, or opaque constructed)
	Children []*TLV // parsed children of a constructed element
}

// ParseTLV parses one element at the start of b (offset base in the original buffer).
func ParseTLV(b []byte, base int, depth int) (*TLV, int, bool) {
	if len(b) < 2 || depth > 32 {
		return nil, 0, false
	}
	tag := b[0]
	if tag&0x1f == 0x1f {
		return nil, 0, false // high tag numbers: not needed
	}
	l := int(b[1])
	hdr := 2
	if l&0x80 != 0 {
		n := l & 0x7f
		if n == 0 || n > 3 || len(b) < 2+n {
			return nil, 0, false
		}
		l = 0
		for i := 0; i < n; i++ {
			l = l<<8 | int(b[2+i])
		}
		hdr = 2 + n
	}
	if len(b) < hdr+l {
		return nil, 0, false
	}
	t := &TLV{Tag: tag, Off: base, HdrLen: hdr, Content: b[hdr : hdr+l]}
	if tag&0x20 != 0 {
		// constructed: try to parse all children
		var kids []*TLV
		rest := t.Content
		off := base + hdr
		ok := true
		for len(rest) > 0 {
			k, n, good := ParseTLV(rest, off, depth+1)
			if !good {
				ok = false
				break
			}
			kids = append(kids, k)
			rest = rest[n:]
			off += n
		}
		if ok {
			t.Children = kids
		}
	} else if tag == 0x04 || tag == 0x03 {
		// OCTET STRING / BIT STRING that wraps DER (keys, extensions): parse opportunistically
		c := t.Content
		skip := 0
		if tag == 0x03 && len(c) > 0 && c[0] == 0 {
			skip = 1
		}
		if len(c) > skip+1 && (c[skip] == 0x30 || c[skip] == 0x31) {
			if k, n, good := ParseTLV(c[skip:], base+hdr+skip, depth+1); good && n == len(c)-skip && k.Children != nil {
				t.Children = []*TLV{k}
			}
		}
	}
	return t, hdr + l, true
}

// ParseAllTLV parses a whole buffer that must be exactly one element.
func ParseAllTLV(b []byte) *TLV {
	t, n, ok := ParseTLV(b, 0, 0)
	if !ok || n != len(b) {
		return nil
	}
	return t
}

func derLen(n int) []byte {
	switch {
	case n < 0x80:
		return []byte{byte(n)}
	case n < 0x100:
		return []byte{0x81, byte(n)}
	case n < 0x10000:
		return []byte{0x82, byte(n >> 8), byte(n)}
	default:
		return []byte{0x83, byte(n >> 16), byte(n >> 8), byte(n)}
	}
}

// Encode re-encodes the element with consistent (minimal) lengths.
func (t *TLV) Encode() []byte {
	var body []byte
	if t.Children != nil {
		if t.Tag&0x20 == 0 {
			// wrapper primitive (OCTET/BIT STRING around DER)
			if t.Tag == 0x03 {
				body = append(body, 0)
			}
		}
		for _, k := range t.Children {
			body = append(body, k.Encode()...)
		}
	} else {
		body = t.Content
	}
	out := append([]byte{t.Tag}, derLen(len(body))...)
	return append(out, body...)
}

// Flatten lists all elements in document order (parents before children).
func (t *TLV) Flatten() []*TLV {
	out := []*TLV{t}
	for _, k := range t.Children {
		out = append(out, k.Flatten()...)
	}
	return out
}

// Clone deep-copies the tree.
func (t *TLV) Clone() *TLV {
	c := &TLV{Tag: t.Tag, Off: t.Off, HdrLen: t.HdrLen, Content: append([]byte{}, t.Content...)}
	if t.Children != nil {
		c.Children = make([]*TLV, len(t.Children))
		for i, k := range t.Children {
			c.Children[i] = k.Clone()
		}
	}
	return c
}

// ValueRanges returns the [start,end) offsets (in the original buffer) of the
// content octets of all leaf primitives.
func (t *TLV) ValueRanges() [][2]int {
	var out [][2]int
	for _, e := range t.Flatten() {
		if e.Children == nil && e.Tag&0x20 == 0 {
			out = append(out, [2]int{e.Off + e.HdrLen, e.Off + e.HdrLen + len(e.Content)})
		}
	}
	return out
}

// Lie kinds of the Byzantine producer.
const (
	LieGrow      = iota // append k bytes to a primitive
	LieShrink           // drop k bytes from the end of a primitive
	LieEmpty            // empty content
	LieDelete           // delete the element
	LieDuplicate        // duplicate the element
	LieSwapNext         // swap with the next sibling
	LieTag              // change the tag
	LieWrap             // wrap in an extra SEQUENCE
	LieZero             // zero the content
	LieKinds
)

// ApplyLie returns the re-encoding of root after applying lie kind to the
// idx-th element of Flatten() order (nil if not applicable).
func ApplyLie(root *TLV, idx, kind, k int) []byte {
	c := root.Clone()
	flat := c.Flatten()
	if idx < 0 || idx >= len(flat) {
		return nil
	}
	target := flat[idx]
	// find the parent
	var parent *TLV
	pos := -1
	for _, e := range flat {
		for i, kid := range e.Children {
			if kid == target {
				parent, pos = e, i
			}
		}
	}
	if k < 1 {
		k = 1
	}
	switch kind {
	case LieGrow:
		if target.Children != nil {
			return nil
		}
		for i := 0; i < k; i++ {
			target.Content = append(target.Content, byte(0xA0+i))
		}
	case LieShrink:
		if target.Children != nil || len(target.Content) == 0 {
			return nil
		}
		if k > len(target.Content) {
			k = len(target.Content)
		}
		target.Content = target.Content[:len(target.Content)-k]
	case LieEmpty:
		target.Children = nil
		target.Content = nil
	case LieZero:
		if target.Children != nil || len(target.Content) == 0 {
			return nil
		}
		target.Content = make([]byte, len(target.Content))
	case LieDelete:
		if parent == nil {
			return nil
		}
		parent.Children = append(parent.Children[:pos:pos], parent.Children[pos+1:]...)
	case LieDuplicate:
		if parent == nil {
			return nil
		}
		kids := append([]*TLV{}, parent.Children[:pos+1]...)
		kids = append(kids, target.Clone())
		parent.Children = append(kids, parent.Children[pos+1:]...)
	case LieSwapNext:
		if parent == nil || pos+1 >= len(parent.Children) {
			return nil
		}
		parent.Children[pos], parent.Children[pos+1] = parent.Children[pos+1], parent.Children[pos]
	case LieTag:
		tags := []byte{0x02, 0x03, 0x04, 0x05, 0x06, 0x0c, 0x30, 0x31, 0xa0, 0x80}
		nt := tags[k%len(tags)]
		if nt == target.Tag {
			nt = tags[(k+1)%len(tags)]
		}
		if target.Children != nil && nt&0x20 == 0 && target.Tag&0x20 != 0 {
			// constructed -> primitive: keep the encoded children as opaque content
			var body []byte
			for _, kid := range target.Children {
				body = append(body, kid.Encode()...)
			}
			target.Children = nil
			target.Content = body
		}
		target.Tag = nt
	case LieWrap:
		if parent == nil {
			return append([]byte{0x30}, append(derLen(len(c.Encode())), c.Encode()...)...)
		}
		w := &TLV{Tag: 0x30, Children: []*TLV{target}}
		parent.Children[pos] = w
	default:
		return nil
	}
	return c.Encode()
}
