package sim

// Shrink minimises a failing program with delta debugging over the op list,
// followed by per-argument simplification. exec must re-execute a candidate
// and return its violation (nil if none). A candidate is kept only if the
// same violation class persists. budget caps the number of executions.
func Shrink(p *Program, want *Violation, exec func(*Program) *Violation, budget int) (*Program, *Violation, int) {
	best := p.Clone()
	bestV := want
	used := 0
	try := func(c *Program) bool {
		if used >= budget {
			return false
		}
		used++
		v := exec(c)
		if v != nil && v.SameClass(want) {
			best = c
			bestV = v
			return true
		}
		return false
	}
	// 0. drop everything after the failing op
	if want.Op >= 0 && want.Op+1 < len(best.Ops) {
		c := best.Clone()
		c.Ops = c.Ops[:want.Op+1]
		try(c)
	}
	// 1. ddmin over ops
	n := 2
	for len(best.Ops) >= 2 && used < budget {
		chunk := (len(best.Ops) + n - 1) / n
		reduced := false
		for start := 0; start < len(best.Ops); start += chunk {
			end := start + chunk
			if end > len(best.Ops) {
				end = len(best.Ops)
			}
			c := best.Clone()
			c.Ops = append(append([]Op{}, best.Ops[:start]...), best.Ops[end:]...)
			if len(c.Ops) == 0 {
				continue
			}
			if try(c) {
				reduced = true
				if n > 2 {
					n--
				}
				break
			}
		}
		if !reduced {
			if chunk == 1 {
				break
			}
			n *= 2
			if n > len(best.Ops) {
				n = len(best.Ops)
			}
		}
	}
	// 2. argument simplification, repeated until no progress
	for pass := 0; pass < 4 && used < budget; pass++ {
		progress := false
		// knobs to default (0)
		for _, k := range SortedKeys(best.Cfg) {
			if best.Cfg[k] == 0 {
				continue
			}
			c := best.Clone()
			c.Cfg[k] = 0
			if try(c) {
				progress = true
			}
		}
		for i := range best.Ops {
			// integers: towards 0 (try 0, half, minus one)
			for j := range best.Ops[i].I {
				v := best.Ops[i].I[j]
				for _, cand := range []int64{0, v / 2, v - 1} {
					if cand == v || (v > 0 && cand < 0) {
						continue
					}
					c := best.Clone()
					c.Ops[i].I[j] = cand
					if try(c) {
						progress = true
						break
					}
				}
			}
			// byte strings: shorten (half, minus one), then zero
			for j := range best.Ops[i].B {
				b := best.Ops[i].B[j]
				for _, nl := range []int{0, len(b) / 2, len(b) - 1} {
					if nl < 0 || nl >= len(b) {
						continue
					}
					c := best.Clone()
					c.Ops[i].B[j] = append(Hex{}, b[:nl]...)
					if try(c) {
						progress = true
						break
					}
				}
				b = best.Ops[i].B[j]
				allZero := true
				for _, x := range b {
					if x != 0 {
						allZero = false
					}
				}
				if !allZero {
					c := best.Clone()
					c.Ops[i].B[j] = make(Hex, len(b))
					if try(c) {
						progress = true
					}
				}
			}
		}
		if !progress {
			break
		}
	}
	return best, bestV, used
}
