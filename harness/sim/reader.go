package sim

import (
	"errors"
	"io"
)

// ErrInjected is the error the scripted reader returns at a planned fault.
var ErrInjected = errors.New("sim: injected reader fault")

// Reader fault kinds.
const (
	RFNone       = 0
	RFError      = 1 // return (0, ErrInjected)
	RFEOF        = 2 // return (0, io.EOF)
	RFPartialErr = 3 // return (n<len, ErrInjected) with n>0 when possible
	RFPartialEOF = 4 // return (n<len, io.EOF)
)

// ScriptReader is the simulator-owned random source. Its content is an
// explicit byte string followed by a deterministic filler; reads are served
// in chunks of at most Chunk bytes (legal short reads); a fault fires at the
// FaultAt-th Read call (0-based) if FaultKind != RFNone.
type ScriptReader struct {
	Data      []byte // scripted prefix
	Fill      byte   // filler seed: bytes after Data are Fill+i*Step
	Step      byte
	Chunk     int // max bytes per Read (0 = unlimited)
	FaultAt   int
	FaultKind int
	Sticky    bool // fault persists for all later reads

	Off    int   // bytes delivered so far
	Calls  int   // Read calls so far
	Fired  bool  // the fault fired
	Reads  []int // sizes requested, per call (for the oracle)
	Served []int
}

func (r *ScriptReader) byteAt(i int) byte {
	if i < len(r.Data) {
		return r.Data[i]
	}
	return r.Fill + byte(i-len(r.Data))*r.Step
}

func (r *ScriptReader) Read(p []byte) (int, error) {
	call := r.Calls
	r.Calls++
	r.Reads = append(r.Reads, len(p))
	n := len(p)
	if r.Chunk > 0 && n > r.Chunk {
		n = r.Chunk
	}
	if r.FaultKind != RFNone && (call == r.FaultAt || (r.Sticky && call > r.FaultAt)) {
		r.Fired = true
		switch r.FaultKind {
		case RFError:
			r.Served = append(r.Served, 0)
			return 0, ErrInjected
		case RFEOF:
			r.Served = append(r.Served, 0)
			return 0, io.EOF
		case RFPartialErr, RFPartialEOF:
			if n > 1 {
				n = n / 2
			} else {
				n = 0
			}
			for i := 0; i < n; i++ {
				p[i] = r.byteAt(r.Off + i)
			}
			r.Off += n
			r.Served = append(r.Served, n)
			if r.FaultKind == RFPartialErr {
				return n, ErrInjected
			}
			return n, io.EOF
		}
	}
	for i := 0; i < n; i++ {
		p[i] = r.byteAt(r.Off + i)
	}
	r.Off += n
	r.Served = append(r.Served, n)
	return n, nil
}

// Stream returns the first n bytes the reader would deliver fault-free.
func (r *ScriptReader) Stream(n int) []byte {
	b := make([]byte, n)
	for i := range b {
		b[i] = r.byteAt(i)
	}
	return b
}
