package sim

import (
	"encoding/hex"
	"encoding/json"
	"fmt"
	"sort"
	"strings"
)

// Hex is a byte slice that serialises as a hex string.
type Hex []byte

func (h Hex) MarshalJSON() ([]byte, error) { return json.Marshal(hex.EncodeToString(h)) }
func (h *Hex) UnmarshalJSON(b []byte) error {
	var s string
	if err := json.Unmarshal(b, &s); err != nil {
		return err
	}
	d, err := hex.DecodeString(s)
	if err != nil {
		return err
	}
	*h = d
	return nil
}

// Op is one step of a program: an operation on the system under simulation
// or a fault. All arguments are explicit data.
type Op struct {
	K string   `json:"k"`
	I []int64  `json:"i,omitempty"`
	B []Hex    `json:"b,omitempty"`
	S []string `json:"s,omitempty"`
}

func (o Op) Int(i int) int {
	if i < len(o.I) {
		return int(o.I[i])
	}
	return 0
}
func (o Op) Bytes(i int) []byte {
	if i < len(o.B) {
		return []byte(o.B[i])
	}
	return nil
}
func (o Op) Str(i int) string {
	if i < len(o.S) {
		return o.S[i]
	}
	return ""
}

// Program is an explicit, serialisable execution: configuration knobs plus
// the list of operations and faults. Execution is a pure function of
// (program, node configuration, code).
type Program struct {
	Prop string            `json:"prop"`
	Cfg  map[string]int64  `json:"cfg,omitempty"`
	CfgB map[string]Hex    `json:"cfgb,omitempty"`
	CfgS map[string]string `json:"cfgs,omitempty"`
	Ops  []Op              `json:"ops"`
}

func (p *Program) C(k string) int {
	return int(p.Cfg[k])
}
func (p *Program) CB(k string) []byte { return []byte(p.CfgB[k]) }
func (p *Program) CS(k string) string { return p.CfgS[k] }

func (p *Program) SetC(k string, v int) {
	if p.Cfg == nil {
		p.Cfg = map[string]int64{}
	}
	p.Cfg[k] = int64(v)
}
func (p *Program) SetCB(k string, v []byte) {
	if p.CfgB == nil {
		p.CfgB = map[string]Hex{}
	}
	p.CfgB[k] = Hex(v)
}
func (p *Program) SetCS(k string, v string) {
	if p.CfgS == nil {
		p.CfgS = map[string]string{}
	}
	p.CfgS[k] = v
}

func (p *Program) Add(k string, ints ...int) *Op {
	o := Op{K: k}
	for _, v := range ints {
		o.I = append(o.I, int64(v))
	}
	p.Ops = append(p.Ops, o)
	return &p.Ops[len(p.Ops)-1]
}

func (o *Op) WithB(bs ...[]byte) *Op {
	for _, b := range bs {
		o.B = append(o.B, Hex(b))
	}
	return o
}
func (o *Op) WithS(ss ...string) *Op {
	o.S = append(o.S, ss...)
	return o
}

func (p *Program) Clone() *Program {
	b, _ := json.Marshal(p)
	q := &Program{}
	_ = json.Unmarshal(b, q)
	return q
}

func (p *Program) JSON() []byte {
	b, _ := json.Marshal(p)
	return b
}

func ParseProgram(b []byte) (*Program, error) {
	p := &Program{}
	if err := json.Unmarshal(b, p); err != nil {
		return nil, err
	}
	return p, nil
}

// SortedKeys returns the keys of a map in sorted order (no map iteration
// order ever reaches a decision or a trace).
func SortedKeys[V any](m map[string]V) []string {
	ks := make([]string, 0, len(m))
	for k := range m {
		ks = append(ks, k)
	}
	sort.Strings(ks)
	return ks
}

// Violation describes one property violation found in a run.
type Violation struct {
	Class  string `json:"class"`  // oracle that failed, e.g. "digest-mismatch", "panic", "crash"
	Op     int    `json:"op"`     // index of the operation at which it was observed
	OpKind string `json:"opkind"` // kind of that operation
	Detail string `json:"detail"`
	Known  string `json:"known,omitempty"` // key of a known finding whose predicate matched exactly
}

func (v *Violation) String() string {
	return fmt.Sprintf("%s at op %d (%s): %s", v.Class, v.Op, v.OpKind, v.Detail)
}

// SameClass is the criterion the shrinker uses: same oracle and same op kind.
func (v *Violation) SameClass(w *Violation) bool {
	if v == nil || w == nil {
		return false
	}
	return v.Class == w.Class && v.OpKind == w.OpKind && v.Known == w.Known
}

// Result is what executing one program yields.
type Result struct {
	V        *Violation       `json:"v,omitempty"`
	Trace    uint64           `json:"trace"`           // digest over every observable output byte
	Abstract uint64           `json:"abs"`             // digest of the abstract history (distinctness measure)
	Nontriv  bool             `json:"nt"`              // non-trivial by the property's rule
	Ops      int              `json:"ops"`             // operations executed
	SimNS    int64            `json:"simns,omitempty"` // simulated time covered
	Counters map[string]int64 `json:"c,omitempty"`     // fired faults, probes, known findings
	Log      []string         `json:"log,omitempty"`   // event log (only when tracing is on)
}

// Ctx collects observations during one execution.
type Ctx struct {
	trace    uint64
	abs      uint64
	Counters map[string]int64
	LogOn    bool
	Log      []string
	Known    map[string]bool // open known-finding keys (from known_findings.json via the driver)
	Node     string
	V        *Violation
	OpsDone  int
	SimNS    int64
	Nontriv  bool
}

func NewCtx(known map[string]bool, node string, logOn bool) *Ctx {
	return &Ctx{trace: 14695981039346656037, abs: 14695981039346656037, Counters: map[string]int64{}, Known: known, Node: node, LogOn: logOn}
}

// Out folds observable output bytes into the trace digest.
func (c *Ctx) Out(tag string, b []byte) {
	h := c.trace
	for i := 0; i < len(tag); i++ {
		h ^= uint64(tag[i])
		h *= 1099511628211
	}
	h ^= 0xff
	h *= 1099511628211
	for _, x := range b {
		h ^= uint64(x)
		h *= 1099511628211
	}
	h ^= uint64(len(b))
	h *= 1099511628211
	c.trace = h
	if c.LogOn {
		s := hex.EncodeToString(b)
		if len(s) > 96 {
			s = s[:96] + fmt.Sprintf("...(%d bytes,h=%x)", len(b), fnvBytes(b))
		}
		c.Log = append(c.Log, tag+" "+s)
	}
}

func fnvBytes(b []byte) uint64 {
	h := uint64(14695981039346656037)
	for _, x := range b {
		h ^= uint64(x)
		h *= 1099511628211
	}
	return h
}

// OutS folds a string observation.
func (c *Ctx) OutS(tag, s string) { c.Out(tag, []byte(s)) }

// OutErr folds whether an error occurred (not its text: texts may differ between configurations legitimately? no - keep text out to be safe).
func (c *Ctx) OutErr(tag string, err error) {
	if err != nil {
		c.Out(tag, []byte{1})
	} else {
		c.Out(tag, []byte{0})
	}
}

// Abs folds one element of the abstract history (op kind, argument classes, fault kind).
func (c *Ctx) Abs(parts ...any) {
	var sb strings.Builder
	for _, p := range parts {
		fmt.Fprint(&sb, p)
		sb.WriteByte(',')
	}
	s := sb.String()
	h := c.abs
	for i := 0; i < len(s); i++ {
		h ^= uint64(s[i])
		h *= 1099511628211
	}
	c.abs = h
}

// Hit increments a fired-fault or probe counter.
func (c *Ctx) Hit(name string)         { c.Counters[name]++ }
func (c *Ctx) HitN(name string, n int) { c.Counters[name] += int64(n) }

// Fail records the first violation of the run.
func (c *Ctx) Fail(class string, op int, kind string, format string, args ...any) {
	if c.V == nil {
		c.V = &Violation{Class: class, Op: op, OpKind: kind, Detail: fmt.Sprintf(format, args...)}
	}
}

// KnownOrFail: a mismatch whose exact signature matched the predicate of a
// known finding `key`. If the finding is listed as open it is only counted;
// otherwise it is an ordinary violation.
func (c *Ctx) KnownOrFail(key, class string, op int, kind string, format string, args ...any) {
	if c.Known[key] {
		c.Counters["known:"+key]++
		return
	}
	c.Fail(class, op, kind, format, args...)
}

func (c *Ctx) Failed() bool { return c.V != nil }

func (c *Ctx) Result() *Result {
	return &Result{V: c.V, Trace: c.trace, Abstract: c.abs, Nontriv: c.Nontriv, Ops: c.OpsDone, SimNS: c.SimNS, Counters: c.Counters, Log: c.Log}
}

// LenClass abstracts a length relative to a block size: block count class and residue class.
func LenClass(n, block int) string {
	if n == 0 {
		return "0"
	}
	q, r := n/block, n%block
	qc := "q0"
	switch {
	case q == 0:
	case q == 1:
		qc = "q1"
	case q < 4:
		qc = "q2-3"
	case q < 8:
		qc = "q4-7"
	case q < 16:
		qc = "q8-15"
	default:
		qc = "q16+"
	}
	rc := "r0"
	switch {
	case r == 0:
	case r == 1:
		rc = "r1"
	case r == block-1:
		rc = "r-1"
	case r < block/2:
		rc = "rlo"
	default:
		rc = "rhi"
	}
	return qc + rc
}
