package sim

import (
	"syscall"
)

const pageSize = 4096

// Guarded is a buffer placed flush against PROT_NONE pages: any access
// before Buf[0] - when the buffer is page aligned at its start - or after
// Buf[len-1] faults and kills the process (the driver attributes the death to
// the write-ahead-logged program).
type Guarded struct {
	Buf []byte
	mem []byte
}

// GuardEnd returns an n-byte buffer whose last byte is immediately followed
// by an inaccessible page.
func GuardEnd(n int) *Guarded {
	pages := (n + pageSize - 1) / pageSize
	if pages == 0 {
		pages = 1
	}
	total := (pages + 2) * pageSize
	mem, err := syscall.Mmap(-1, 0, total, syscall.PROT_READ|syscall.PROT_WRITE, syscall.MAP_ANON|syscall.MAP_PRIVATE)
	if err != nil {
		panic("sim: mmap: " + err.Error())
	}
	if err := syscall.Mprotect(mem[:pageSize], syscall.PROT_NONE); err != nil {
		panic(err)
	}
	if err := syscall.Mprotect(mem[(pages+1)*pageSize:], syscall.PROT_NONE); err != nil {
		panic(err)
	}
	end := (pages + 1) * pageSize
	return &Guarded{Buf: mem[end-n : end : end], mem: mem}
}

// GuardStart returns an n-byte buffer whose first byte is immediately preceded
// by an inaccessible page.
func GuardStart(n int) *Guarded {
	pages := (n + pageSize - 1) / pageSize
	if pages == 0 {
		pages = 1
	}
	total := (pages + 2) * pageSize
	mem, err := syscall.Mmap(-1, 0, total, syscall.PROT_READ|syscall.PROT_WRITE, syscall.MAP_ANON|syscall.MAP_PRIVATE)
	if err != nil {
		panic("sim: mmap: " + err.Error())
	}
	if err := syscall.Mprotect(mem[:pageSize], syscall.PROT_NONE); err != nil {
		panic(err)
	}
	if err := syscall.Mprotect(mem[(pages+1)*pageSize:], syscall.PROT_NONE); err != nil {
		panic(err)
	}
	return &Guarded{Buf: mem[pageSize : pageSize+n : pageSize+n], mem: mem}
}

func (g *Guarded) Free() {
	if g.mem != nil {
		_ = syscall.Munmap(g.mem)
		g.mem = nil
		g.Buf = nil
	}
}

// Canary-surrounded ordinary buffer: Buf = mem[pre:pre+n] with cap limited
// to n+spare; everything else is filled with a pattern and checked later.
type Canary struct {
	Buf  []byte
	mem  []byte
	pre  int
	n    int
	fill byte
}

func NewCanary(n, pre, post int, fill byte) *Canary {
	mem := make([]byte, pre+n+post)
	for i := range mem {
		mem[i] = fill
	}
	return &Canary{Buf: mem[pre : pre+n : pre+n], mem: mem, pre: pre, n: n, fill: fill}
}

// WithSpare re-slices Buf so that cap(Buf) extends spare bytes into the post canary.
func (c *Canary) WithSpare(spare int) []byte {
	if c.pre+c.n+spare > len(c.mem) {
		spare = len(c.mem) - c.pre - c.n
	}
	return c.mem[c.pre : c.pre+c.n : c.pre+c.n+spare]
}

// Intact reports whether every byte outside [pre, pre+upto) still holds the fill pattern.
func (c *Canary) Intact(upto int) (bool, int) {
	for i := 0; i < c.pre; i++ {
		if c.mem[i] != c.fill {
			return false, i - c.pre
		}
	}
	for i := c.pre + upto; i < len(c.mem); i++ {
		if c.mem[i] != c.fill {
			return false, i - c.pre
		}
	}
	return true, 0
}
