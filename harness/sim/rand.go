// Package sim is the simulator kernel shared by all property executors:
// the PRNG every choice is drawn from, the explicit program model, the
// scripted reader, guard-page allocator, trace/counter collection and the
// delta-debugging shrinker.
package sim

import "math/bits"

// SplitMix64 is the seed expander (Vigna).
func SplitMix64(x uint64) uint64 {
	x += 0x9e3779b97f4a7c15
	z := x
	z = (z ^ (z >> 30)) * 0xbf58476d1ce4e5b9
	z = (z ^ (z >> 27)) * 0x94d049bb133111eb
	return z ^ (z >> 31)
}

func fnv64(s string) uint64 {
	h := uint64(14695981039346656037)
	for i := 0; i < len(s); i++ {
		h ^= uint64(s[i])
		h *= 1099511628211
	}
	return h
}

// RunSeed derives the seed of run idx of property prop from VERIF_SEED.
func RunSeed(verifSeed uint64, prop string, idx uint64) uint64 {
	return SplitMix64(SplitMix64(verifSeed) ^ fnv64(prop) ^ SplitMix64(idx*0x9e3779b97f4a7c15+1))
}

// Rand is xoshiro256**; the only source of choices in a run.
type Rand struct{ s [4]uint64 }

func NewRand(seed uint64) *Rand {
	r := &Rand{}
	x := seed
	for i := range r.s {
		x = SplitMix64(x)
		r.s[i] = x
	}
	return r
}

func (r *Rand) Uint64() uint64 {
	s := &r.s
	res := bits.RotateLeft64(s[1]*5, 7) * 9
	t := s[1] << 17
	s[2] ^= s[0]
	s[3] ^= s[1]
	s[1] ^= s[2]
	s[0] ^= s[3]
	s[2] ^= t
	s[3] = bits.RotateLeft64(s[3], 45)
	return res
}

// Intn returns a value in [0,n). n<=0 returns 0.
func (r *Rand) Intn(n int) int {
	if n <= 1 {
		return 0
	}
	return int(r.Uint64() % uint64(n))
}

// Range returns a value in [lo,hi].
func (r *Rand) Range(lo, hi int) int {
	if hi <= lo {
		return lo
	}
	return lo + r.Intn(hi-lo+1)
}

func (r *Rand) Bool() bool { return r.Uint64()&1 == 1 }

// Chance is true with probability num/den.
func (r *Rand) Chance(num, den int) bool { return r.Intn(den) < num }

func (r *Rand) Bytes(n int) []byte {
	b := make([]byte, n)
	r.Fill(b)
	return b
}

func (r *Rand) Fill(b []byte) {
	for i := 0; i < len(b); {
		v := r.Uint64()
		for j := 0; j < 8 && i < len(b); j++ {
			b[i] = byte(v)
			v >>= 8
			i++
		}
	}
}

// PickInt picks one of vals.
func (r *Rand) PickInt(vals ...int) int { return vals[r.Intn(len(vals))] }

// PickStr picks one of vals.
func (r *Rand) PickStr(vals ...string) string { return vals[r.Intn(len(vals))] }

// Weighted returns index i with probability w[i]/sum(w).
func (r *Rand) Weighted(w ...int) int {
	sum := 0
	for _, x := range w {
		sum += x
	}
	k := r.Intn(sum)
	for i, x := range w {
		if k < x {
			return i
		}
		k -= x
	}
	return len(w) - 1
}

// Near returns a length biased to the neighbourhood of one of the given
// boundaries (b-2..b+2), or, with probability 1/4, uniform in [0,max].
func (r *Rand) Near(max int, boundaries ...int) int {
	if len(boundaries) == 0 || r.Chance(1, 4) {
		return r.Intn(max + 1)
	}
	b := boundaries[r.Intn(len(boundaries))]
	v := b + r.Range(-2, 2)
	if v < 0 {
		v = 0
	}
	if v > max {
		v = max
	}
	return v
}

// Perm returns a permutation of 0..n-1.
func (r *Rand) Perm(n int) []int {
	p := make([]int, n)
	for i := range p {
		p[i] = i
	}
	for i := n - 1; i > 0; i-- {
		j := r.Intn(i + 1)
		p[i], p[j] = p[j], p[i]
	}
	return p
}
