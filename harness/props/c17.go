package props

import (
	"bytes"
	"crypto/aes"
	"crypto/cipher"
	"crypto/sha1"
	"crypto/sha256"
	"crypto/sha512"
	"errors"
	"fmt"
	"hash"
	"io"
	"runtime/debug"
	"testing"
	"testing/synctest"
	"time"

	"github.com/emmansun/gmsm/drbg"
	"github.com/emmansun/gmsm/sm3"
	"github.com/emmansun/gmsm/sm4"

	"verif/harness/model/drbgm"
	"verif/harness/model/sm3m"
	"verif/harness/model/sm4m"
	"verif/harness/sim"
)

// C17: DRBG objects and the reader wrapper, inside a synctest bubble (fake
// clock), over seeded histories of generate / reseed / clock-advance / read
// with a scripted, failing entropy source.

func init() {
	selfTests("C17", sm3m.SelfTest, sm4m.SelfTest, drbgm.SelfTest)
	register(&Prop{
		ID:        "C17",
		Level:     "exploration",
		Nodes:     func(tier string) []string { return []string{"avx2", "purego"} },
		Cross:     true,
		Gen:       genC17,
		Exec:      execC17,
		QuickSecs: 25, ThoroughSecs: 600, RunsPerJob: 500,
		Rule: "a run fixes (mechanism Hash/HMAC/CTR, NIST or GM mode, hash or cipher, security level, instantiation inputs) and plays, inside a fake-clock bubble, either a direct history over {generate(n, additional?), reseed(entropy, additional?), advance-clock(d)} up to and past the reseed interval, or a reader-wrapper history over {read(n), advance-clock(d)} with a scripted entropy source that fails (error, EOF, short read, data+EOF) at chosen call indices; " +
			"abstract history = (mechanism, mode, algorithm, level, direct/wrapper) + sequence of (op kind, request-size class, whether the model expects refusal, fault kind); non-trivial = at least 2 ops; distinct = distinct abstract histories",
		Real:  []string{"drbg (Hash, HMAC, CTR generators; DrbgPrng wrapper)", "sm3 / sm4 as primitives on the library side; Go SHA-1/SHA-2/AES on both sides"},
		Stubs: []string{"wall clock: testing/synctest fake clock (moves only when the simulator sleeps)", "entropy source: scripted reader with planned faults"},
		Assume: []string{"model mechanisms (harness/model/drbgm) written from SP 800-90A rev.1 and anchored on CAVP vectors at worker start-up; the GM/T 0105 deviations (reseed seed-material order, one block per request) are taken from the package documentation because the standard's text is not available offline (weaker anchoring)",
			"input-length validation is not mirrored: a validation error must leave buffer and state untouched, an accepted input must match the model",
			"at elapsed time exactly equal to the GM interval either verdict is accepted (the statement says 'once the time has elapsed')",
			"synctest's clock cannot jump backwards"},
	})
}

var c17Hashes = []string{"sm3", "sha256", "sha512", "sha1", "sha224", "sha384", "sha512/224", "sha512/256"}
var c17Ciphers = []string{"sm4", "aes128", "aes256", "aes192"}

// sm3mHash adapts the model SM3 to hash.Hash (buffers everything).
type sm3mHash struct{ buf []byte }

func (h *sm3mHash) Write(p []byte) (int, error) { h.buf = append(h.buf, p...); return len(p), nil }
func (h *sm3mHash) Sum(b []byte) []byte         { d := sm3m.Sum(h.buf); return append(b, d[:]...) }
func (h *sm3mHash) Reset()                      { h.buf = h.buf[:0] }
func (h *sm3mHash) Size() int                   { return 32 }
func (h *sm3mHash) BlockSize() int              { return 64 }

func genC17(r *sim.Rand, tier string) *sim.Program {
	p := &sim.Program{Prop: "C17"}
	mech := r.Intn(3)
	gm := r.Intn(2)
	p.SetC("mech", mech)
	p.SetC("gm", gm)
	alg := r.Weighted(4, 2, 1, 1)
	if mech != 2 && r.Chance(1, 5) {
		alg = r.Range(4, 7) // the rest of the SHA-2 family (SP 800-90A table 2 keys seedlen on the OUTPUT length)
	}
	if gm == 1 && r.Chance(3, 4) {
		alg = 0
	}
	p.SetC("alg", alg)
	level := 0x99
	if (tier == "thorough" && r.Chance(1, 25)) || r.Chance(1, 120) {
		level = 2 // interval 2^10: histories of more than a thousand generate calls
	} else if r.Chance(1, 40) {
		level = 1
	}
	p.SetC("level", level)
	wrapper := r.Chance(1, 3)
	entLen := r.PickInt(64, 64, 96, 65, 32, 48)
	nonceLen := r.PickInt(32, 32, 48, 16, 24)
	if r.Chance(1, 12) {
		entLen = r.PickInt(0, 1, 15, 16, 31)
	}
	if r.Chance(1, 12) {
		nonceLen = r.PickInt(0, 1, 7, 8, 15)
	}
	p.SetCB("entropy", r.Bytes(entLen))
	p.SetCB("nonce", r.Bytes(nonceLen))
	p.SetCB("pers", r.Bytes(r.PickInt(0, 0, 1, 16, 55)))
	interval := 8
	if level == 2 {
		interval = 1024
	} else if level == 1 {
		interval = 0 // not reachable
	}
	tsec := 6
	if level == 2 {
		tsec = 60
	} else if level == 1 {
		tsec = 600
	}
	clockOp := func() {
		d := time.Duration(tsec) * time.Second
		switch r.Intn(6) {
		case 0:
			p.Add("clock", int(d-time.Nanosecond)) // just below
		case 1:
			p.Add("clock", int(d)) // exactly
		case 2:
			p.Add("clock", int(d+time.Nanosecond)) // just past
		case 3:
			p.Add("clock", int(d/2))
		case 4:
			p.Add("clock", int(d/3+1))
		default:
			p.Add("clock", r.Intn(int(2*d)))
		}
	}
	sizePick := func() int {
		return r.PickInt(0, 1, 15, 16, 17, 31, 32, 33, 55, 64, 100, 440, 2047, 2048, 2049, 3000)
	}
	addl := func() []byte {
		if r.Chance(2, 3) {
			return nil
		}
		return r.Bytes(r.PickInt(1, 16, 32, 48))
	}
	if wrapper {
		p.SetC("wrapper", 1)
		p.SetC("strength", r.PickInt(32, 32, 16, 24, 20, 14))
		p.SetC("chunk", 0)
		// fault plan for the entropy source: (call index, kind) pairs
		nf := r.PickInt(0, 0, 1, 1, 2)
		for i := 0; i < nf; i++ {
			p.Add("srcfault", r.Intn(6), r.Range(1, 4))
		}
		nops := r.Range(2, 14)
		if level == 2 {
			nops = r.Range(20, 40)
		}
		for i := 0; i < nops; i++ {
			if gm == 1 && r.Chance(1, 5) {
				clockOp()
				continue
			}
			n := r.PickInt(0, 1, 31, 32, 33, 64, 65, 100, 256, 257, 2048, 2049, 4100)
			if level == 2 {
				n = r.PickInt(32*40, 2048*30, 32*64, 1)
			}
			p.Add("read", n)
		}
		return p
	}
	nops := r.Range(2, 16)
	if level == 2 {
		nops = r.Range(1030, 1060)
	}
	burst := r.Chance(1, 2) // many generates in a row to cross the interval
	if level == 1 && r.Chance(1, 200) {
		// a long life without reseeding: the reseed counter passes 2^16 (only the highest level allows that many calls)
		p.Add("long", r.PickInt(66000, 66000, 70000, 131100), r.PickInt(1, 1, 16, 32))
	}
	for i := 0; i < nops; i++ {
		x := r.Intn(10)
		switch {
		case level == 2 && i < 1020:
			p.Add("gen", r.PickInt(0, 1, 32)).WithB(nil)
		case x < 6 || (burst && x < 8):
			n := sizePick()
			if gm == 1 && r.Chance(2, 3) {
				n = r.PickInt(0, 1, 15, 16, 17, 31, 32, 33)
			}
			p.Add("gen", n).WithB(addl())
		case x < 8:
			el := r.PickInt(64, 64, 96, 32, 48)
			if r.Chance(1, 8) {
				el = r.PickInt(0, 1, 16, 31)
			}
			p.Add("reseed").WithB(r.Bytes(el), addl())
		default:
			if gm == 1 || r.Chance(1, 4) {
				clockOp()
			} else {
				p.Add("gen", sizePick()).WithB(addl())
			}
		}
	}
	_ = interval
	return p
}

type c17Obj interface {
	Generate(b, additional []byte) error
	Reseed(entropy, additional []byte) error
	MaxBytesPerRequest() int
}

// planned entropy source
type c17Source struct {
	faults map[int]int // call index -> kind
	calls  int
	ctr    byte
	served [][]byte // bytes served per call (nil if the call faulted)
	fired  map[int]bool
}

func (s *c17Source) Read(p []byte) (int, error) {
	call := s.calls
	s.calls++
	for i := range p {
		s.ctr += 0x3d
		p[i] = s.ctr ^ byte(call*7)
	}
	kind := s.faults[call]
	switch kind {
	case 1: // error
		s.served = append(s.served, nil)
		s.fired[kind] = true
		return 0, errors.New("sim: entropy source failed")
	case 2: // EOF
		s.served = append(s.served, nil)
		s.fired[kind] = true
		return 0, io.EOF
	case 3: // short read without error
		s.served = append(s.served, nil)
		s.fired[kind] = true
		if len(p) == 0 {
			return 0, nil
		}
		return len(p) - 1, nil
	case 4: // all data, but with EOF
		s.served = append(s.served, nil)
		s.fired[kind] = true
		return len(p), io.EOF
	}
	s.served = append(s.served, append([]byte{}, p...))
	return len(p), nil
}

func execC17(t *testing.T, p *sim.Program, c *sim.Ctx) {
	var pan any
	var stack string
	synctest.Test(t, func(t *testing.T) {
		defer func() {
			if r := recover(); r != nil {
				pan = r
				stack = string(debug.Stack())
			}
		}()
		execC17Bubble(t, p, c)
	})
	if pan != nil {
		if len(stack) > 1500 {
			stack = stack[:1500]
		}
		kind := "?"
		if c.OpsDone-1 >= 0 && c.OpsDone-1 < len(p.Ops) {
			kind = p.Ops[c.OpsDone-1].K
		}
		c.V = nil
		c.Fail("panic", c.OpsDone-1, kind, "panic: %v\n%s", pan, stack)
	}
}

func execC17Bubble(t *testing.T, p *sim.Program, c *sim.Ctx) {
	mech := ((p.C("mech") % 3) + 3) % 3
	gm := p.C("gm")&1 == 1
	alg := ((p.C("alg") % 8) + 8) % 8
	if mech == 2 {
		alg %= 4
	}
	level := p.C("level")
	if level != 1 && level != 2 {
		level = 0x99
	}
	entropy, nonce, pers := p.CB("entropy"), p.CB("nonce"), p.CB("pers")
	if len(p.Ops) >= 2 {
		c.Nontriv = true
	}
	var interval uint64 = 8
	tint := 6 * time.Second
	switch level {
	case 2:
		interval, tint = 1024, 60*time.Second
	case 1:
		interval, tint = 1<<20, 600*time.Second
	}
	var libHash, modHash func() hash.Hash
	var libBlock, modBlock func([]byte) (cipher.Block, error)
	keyLen := 16
	mp := drbgm.Params{GM: gm}
	switch mech {
	case 0, 1:
		mp.Kind = drbgm.Hash
		if mech == 1 {
			mp.Kind = drbgm.HMAC
		}
		switch c17Hashes[alg] {
		case "sm3":
			libHash, modHash = sm3.New, func() hash.Hash { return &sm3mHash{} }
		case "sha256":
			libHash, modHash = sha256.New, sha256.New
		case "sha512":
			libHash, modHash = sha512.New, sha512.New
		case "sha224":
			libHash, modHash = sha256.New224, sha256.New224
		case "sha384":
			libHash, modHash = sha512.New384, sha512.New384
		case "sha512/224":
			libHash, modHash = sha512.New512_224, sha512.New512_224
		case "sha512/256":
			libHash, modHash = sha512.New512_256, sha512.New512_256
		default:
			libHash, modHash = sha1.New, sha1.New
		}
		mp.NewHash = modHash
	default:
		mp.Kind = drbgm.CTR
		switch c17Ciphers[alg] {
		case "sm4":
			libBlock, modBlock, keyLen = sm4.NewCipher, sm4m.NewCipher, 16
		case "aes128":
			libBlock, modBlock, keyLen = aes.NewCipher, aes.NewCipher, 16
		case "aes256":
			libBlock, modBlock, keyLen = aes.NewCipher, aes.NewCipher, 32
		default:
			libBlock, modBlock, keyLen = aes.NewCipher, aes.NewCipher, 24
		}
		mp.NewBlock, mp.KeyLen = modBlock, keyLen
	}
	wrapper := p.C("wrapper") == 1
	c.Abs(mech, gm, alg, level, wrapper)
	start := time.Now()
	defer func() { c.SimNS += int64(time.Since(start)) }()

	// gate bookkeeping of the model (SP 800-90A 9.3.1 step 1: refuse when reseed_counter > reseed_interval;
	// reseed_counter is 1 after (re)seeding and is incremented by every successful generate)
	counter := uint64(1)
	seeded := time.Now()
	// needReseed: 1 = must refuse, 0 = must serve, 2 = either (exact time boundary)
	needReseed := func() int {
		if counter > interval {
			return 1
		}
		if gm {
			el := time.Since(seeded)
			if el > tint {
				return 1
			}
			if el == tint {
				return 2
			}
		}
		return 0
	}

	if wrapper {
		execC17Wrapper(p, c, mech, gm, level, libHash, libBlock, keyLen, mp, pers, &counter, &seeded, needReseed)
		return
	}

	var obj c17Obj
	var err error
	lvl := drbg.SecurityLevel(level)
	switch mech {
	case 0:
		obj, err = drbg.NewHashDrbg(libHash, lvl, gm, entropy, nonce, pers)
	case 1:
		obj, err = drbg.NewHmacDrbg(libHash, lvl, gm, entropy, nonce, pers)
	default:
		obj, err = drbg.NewCtrDrbg(libBlock, keyLen, lvl, gm, entropy, nonce, pers)
	}
	if err != nil {
		// instantiation refused (input validation): nothing to play; an accepted below-minimum input is played against the model
		c.Abs("inst-refused", len(entropy) < 64, len(nonce) < 32)
		c.Hit("probe:instantiate-refused")
		if len(entropy) >= 64 && len(entropy) <= 128 && len(nonce) >= 32 && len(nonce) <= 64 {
			c.Fail("instantiate-refused", -1, "instantiate", "mechanism %d gm=%v: valid instantiation inputs (entropy %d, nonce %d bytes) refused: %v", mech, gm, len(entropy), len(nonce), err)
		}
		return
	}
	m := drbgm.Instantiate(mp, entropy, nonce, pers)

	for i, op := range p.Ops {
		if c.Failed() {
			return
		}
		c.OpsDone++
		// the object's own answer to "must I be reseeded" follows the same bookkeeping as the refusals
		if nr, ok := obj.(interface{ NeedReseed() bool }); ok {
			if want := needReseed(); want != 2 && nr.NeedReseed() != (want == 1) {
				c.Fail("need-reseed-wrong", i, op.K, "NeedReseed() = %v before this operation, but %d generate calls were made since the last (re)seed (interval %d) and %v elapsed (limit %v, gm=%v)", nr.NeedReseed(), counter-1, interval, time.Since(seeded), tint, gm)
				return
			}
		}
		switch op.K {
		case "clock":
			d := time.Duration(op.Int(0))
			if d < 0 {
				d = 0
			}
			c.Abs("clk", d > tint, d == tint)
			time.Sleep(d)
			c.Hit("fault:clock-advance")
		case "reseed":
			ent, ad := op.Bytes(0), op.Bytes(1)
			c.Abs("rs", len(ent) < 64, len(ad) > 0, needReseed())
			err := obj.Reseed(ent, ad)
			c.OutErr("reseed", err)
			if err != nil {
				if len(ent) >= 64 && len(ent) <= 128 {
					c.Fail("reseed-refused", i, op.K, "reseed with %d bytes of entropy refused: %v", len(ent), err)
				}
				c.Hit("probe:reseed-input-refused")
				continue // a refused reseed must not change the state: decided by the following operations
			}
			m.Reseed(ent, ad)
			counter = 1
			seeded = time.Now()
			c.Hit("probe:reseed")
		case "long":
			cnt, n := op.Int(0), op.Int(1)
			if cnt < 0 {
				cnt = 0
			}
			if cnt > 140000 {
				cnt = 140000
			}
			if n < 1 || n > 32 {
				n = 1
			}
			if mr := m.MaxRequest(); n > mr {
				n = mr // GM mode serves at most one output block per request
			}
			c.Abs("long", cnt > 65536, n)
			out := make([]byte, n)
			for j := 0; j < cnt; j++ {
				if needReseed() != 0 {
					break
				}
				if err := obj.Generate(out, nil); err != nil {
					c.Fail("generate-refused", i, op.K, "generate #%d of a long history (%d bytes, no additional input) failed: %v", counter, n, err)
					return
				}
				want := m.Generate(n, nil)
				counter++
				if !bytes.Equal(out, want) {
					c.Fail("output-mismatch", i, op.K, "mechanism %d gm=%v alg %d: generate #%d of %d bytes in a long history without reseeding differs from the model", mech, gm, alg, counter-1, n)
					return
				}
			}
			if counter > 65536 {
				c.Hit("probe:reseed-counter-past-2^16")
			}
			c.Out("long", out)
		case "gen":
			n := op.Int(0)
			ad := op.Bytes(0)
			if n < 0 {
				n = 0
			}
			if n > 65536 {
				n = 65536
			}
			need := needReseed()
			buf := sim.NewCanary(n, 8, 8, 0xE7)
			for j := range buf.Buf {
				buf.Buf[j] = 0xE7
			}
			err := obj.Generate(buf.Buf, ad)
			c.Abs("g", n == 0, n <= 32, n > 2048, len(ad) > 0, need, err != nil)
			if ok, off := buf.Intact(n); !ok {
				c.Fail("out-of-slice-write", i, op.K, "Generate wrote outside its buffer at %d", off)
				return
			}
			untouched := true
			for _, x := range buf.Buf {
				if x != 0xE7 {
					untouched = false
				}
			}
			if err == drbg.ErrReseedRequired {
				c.Out("gen-refused", nil)
				if need == 0 {
					c.Fail("refused-too-early", i, op.K, "generate refused with reseed-required although only %d of %d generate calls were made since the last (re)seed and %v of %v elapsed (gm=%v)", counter-1, interval, time.Since(seeded), tint, gm)
					return
				}
				if !untouched {
					c.Fail("refusal-touched-buffer", i, op.K, "a refused generate modified the output buffer")
					return
				}
				c.Hit("probe:refused-reseed-required")
				if counter > interval {
					c.Hit("probe:refused-by-counter")
				} else {
					c.Hit("probe:refused-by-time")
				}
				continue // state must be untouched: the model is not advanced
			}
			if need == 1 {
				c.Fail("served-past-reseed-limit", i, op.K, "generate call served (err=%v) although the reseed limit was reached: %d generate calls since the last (re)seed (interval %d), %v elapsed (limit %v, gm=%v)", err, counter-1, interval, time.Since(seeded), tint, gm)
				return
			}
			if err != nil {
				// validation error (request too large): buffer and state must be untouched
				c.Out("gen-error", nil)
				if !untouched {
					c.Fail("error-touched-buffer", i, op.K, "a failed generate (%v) modified the output buffer", err)
					return
				}
				if n <= m.MaxRequest() && n <= 2048 {
					c.Fail("generate-refused", i, op.K, "generate of %d bytes refused: %v", n, err)
					return
				}
				c.Hit("probe:request-too-large-refused")
				continue
			}
			want := m.Generate(n, ad)
			if want == nil && n > 0 {
				c.Fail("oversize-served", i, op.K, "generate of %d bytes served in GM mode, where one request yields at most one output block (%d bytes)", n, m.MaxRequest())
				return
			}
			counter++
			c.Out("gen", buf.Buf)
			if !bytes.Equal(buf.Buf, want) {
				c.Fail("output-mismatch", i, op.K, "mechanism %d gm=%v alg %d: generate #%d of %d bytes (additional %d) differs from the model at byte %d", mech, gm, alg, counter-1, n, len(ad), firstDiff(buf.Buf, want))
				return
			}
		}
	}
}

func execC17Wrapper(p *sim.Program, c *sim.Ctx, mech int, gm bool, level int, libHash func() hash.Hash, libBlock func([]byte) (cipher.Block, error), keyLen int, mp drbgm.Params, pers []byte, counter *uint64, seeded *time.Time, needReseed func() int) {
	src := &c17Source{faults: map[int]int{}, fired: map[int]bool{}}
	for _, op := range p.Ops {
		if op.K == "srcfault" {
			k := op.Int(1)
			if k >= 1 && k <= 4 && op.Int(0) >= 0 {
				src.faults[op.Int(0)] = k
			}
		}
	}
	strength := p.C("strength")
	if strength < 0 || strength > 64 {
		strength = 32
	}
	lvl := drbg.SecurityLevel(level)
	var prng *drbg.DrbgPrng
	var err error
	switch mech {
	case 0:
		prng, err = drbg.NewHashDrbgPrng(libHash, src, strength, gm, lvl, pers)
	case 1:
		prng, err = drbg.NewHmacDrbgPrng(libHash, src, strength, gm, lvl, pers)
	default:
		prng, err = drbg.NewCtrDrbgPrng(libBlock, keyLen, src, strength, gm, lvl, pers)
	}
	faultedEarly := src.faults[0] != 0 || src.faults[1] != 0
	if err != nil {
		c.Abs("ctor-err", faultedEarly)
		if faultedEarly {
			c.Hit("fault:entropy-source-at-construction")
		}
		// refused construction (source fault or parameter validation): nothing more to check
		return
	}
	if faultedEarly && src.calls >= 2 {
		c.Fail("source-fault-ignored", -1, "construct", "the entropy source failed during construction (call 0 or 1) but the wrapper was constructed")
		return
	}
	if len(src.served) < 2 || src.served[0] == nil || src.served[1] == nil {
		c.Fail("construction-reads", -1, "construct", "wrapper constructed after %d successful entropy-source reads (expected entropy then nonce)", len(src.served))
		return
	}
	m := drbgm.Instantiate(mp, src.served[0], src.served[1], pers)
	probeReseedRefused := func(n int) bool {
		long := make([]byte, 128)
		var o c17Obj
		var err error
		switch mech {
		case 0:
			o, err = drbg.NewHashDrbg(libHash, lvl, gm, long, long[:64], nil)
		case 1:
			o, err = drbg.NewHmacDrbg(libHash, lvl, gm, long, long[:64], nil)
		default:
			o, err = drbg.NewCtrDrbg(libBlock, keyLen, lvl, gm, long, long[:64], nil)
		}
		if err != nil {
			return false
		}
		return o.Reseed(make([]byte, n), nil) != nil
	}
	nextCall := 2
	maxReq := m.MaxRequest()
	if maxReq > 2048 {
		maxReq = 2048 // the library's self-imposed per-request limit (smaller than the standard's; permitted)
	}
	stuck := false // GM HMAC with a short strength can never reseed: reads fail for ever, which is an error report, allowed
	for i, op := range p.Ops {
		if c.Failed() {
			return
		}
		switch op.K {
		case "srcfault":
			continue
		case "clock":
			c.OpsDone++
			d := time.Duration(op.Int(0))
			if d < 0 {
				d = 0
			}
			c.Abs("clk")
			time.Sleep(d)
			c.Hit("fault:clock-advance")
		case "read":
			c.OpsDone++
			n := op.Int(0)
			if n < 0 {
				n = 0
			}
			if n > 1<<17 {
				n = 1 << 17
			}
			buf := sim.NewCanary(n, 8, 8, 0xE7)
			got, err := prng.Read(buf.Buf)
			if ok, off := buf.Intact(n); !ok {
				c.Fail("out-of-slice-write", i, op.K, "Read wrote outside its buffer at %d", off)
				return
			}
			// model: chain requests; at a refusal take the bytes of exactly one source read as entropy
			var want []byte
			var wantErr bool
			ambiguous := false
			reseeds := 0
			for rem := n; rem > 0 && !wantErr; {
				need := needReseed()
				if need == 2 {
					ambiguous = true
					break
				}
				if need == 1 {
					if nextCall >= len(src.served)+0 && nextCall >= src.calls {
						// the library did not consult the source although a reseed was due
						c.Fail("no-reseed", i, op.K, "a reseed was due during Read(%d) but the entropy source was not read", n)
						return
					}
					e := src.served[nextCall]
					nextCall++
					if e == nil {
						wantErr = true
						c.Hit("fault:entropy-source-during-read")
						break
					}
					// an entropy length the mechanism itself refuses (decided by asking a scratch object of the
					// same mechanism directly) surfaces as an error: the wrapper is stuck, which is an error report
					if probeReseedRefused(len(e)) {
						wantErr = true
						stuck = true
						c.Hit("probe:wrapper-stuck-reseed-input-refused")
						break
					}
					m.Reseed(e, nil)
					*counter = 1
					*seeded = time.Now()
					reseeds++
					c.Hit("probe:wrapper-reseed")
					continue
				}
				k := rem
				if k > maxReq {
					k = maxReq
				}
				want = append(want, m.Generate(k, nil)...)
				*counter++
				rem -= k
			}
			c.Abs("rd", n == 0, n > maxReq, reseeds, wantErr)
			if ambiguous {
				// exact time boundary: follow the library (resynchronise the model is impossible) - end the run here
				c.Hit("probe:exact-time-boundary-in-wrapper")
				return
			}
			if wantErr {
				c.Out("read-err", nil)
				if err == nil {
					c.Fail("source-fault-ignored", i, op.K, "Read(%d) returned n=%d, err=nil although the entropy source failed or was short during the reseed", n, got)
					return
				}
				if stuck {
					return
				}
				// bytes generated before the failing reseed have advanced the state; the prefix must equal the model
				if !bytes.Equal(buf.Buf[:len(want)], want) {
					c.Fail("output-mismatch", i, op.K, "Read(%d): bytes produced before the failed reseed differ from the model", n)
				}
				continue
			}
			if err != nil {
				c.Fail("read-error", i, op.K, "Read(%d) failed (%v) although the entropy source delivered everything that was asked", n, err)
				return
			}
			if got != n {
				c.Fail("short-read", i, op.K, "Read(%d) returned %d", n, got)
				return
			}
			c.Out("read", buf.Buf)
			if !bytes.Equal(buf.Buf, want) {
				c.Fail("output-mismatch", i, op.K, "Read(%d) with %d reseeds differs from the chained model requests at byte %d", n, reseeds, firstDiff(buf.Buf, want))
				return
			}
			if nextCall != src.calls {
				c.Fail("extra-entropy-reads", i, op.K, "Read(%d): the wrapper read the entropy source %d times, the model expects %d", n, src.calls, nextCall)
				return
			}
		}
	}
	for _, k := range []int{1, 2, 3, 4} {
		if src.fired[k] {
			c.Hit(fmt.Sprintf("fault:entropy-kind-%d", k))
		}
	}
}
