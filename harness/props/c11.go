package props

import (
	"bytes"
	"encoding/binary"
	"testing"

	gcipher "github.com/emmansun/gmsm/cipher"
	"github.com/emmansun/gmsm/zuc"

	"verif/harness/model/zucm"
	"verif/harness/sim"
)

// C11: one seekable ZUC cipher object and one ZUC MAC object per run, driven
// through seeded histories and checked call by call against the bit-serial
// models.

func init() {
	selfTests("C11", zucm.SelfTest)
	register(&Prop{
		ID:        "C11",
		Level:     "exploration",
		Nodes:     func(tier string) []string { return []string{"avx2", "sse", "noaes", "noclmul", "purego"} },
		Cross:     true,
		Gen:       genC11,
		Exec:      execC11,
		QuickSecs: 25, ThoroughSecs: 600, RunsPerJob: 1500,
		Rule: "a run creates one cipher object (ZUC-128 / ZUC-256 / 128-EEA3, default or explicit state-bucket size) and one MAC object (128-EIA3 by iv or by count/bearer/direction, ZUC-256 MAC with 4/8/16-byte tags) and plays a history over {xor(len), xorat(offset,len) forwards/backwards, in-place / disjoint / guard-page buffers} and {write(chunk), sum, sum-append, finish(bits), reset}; " +
			"abstract history = (cipher kind, bucket class, mac kind) + sequence of (op kind, length class mod 128 and mod 4, seek direction and whether it crosses a bucket, bit-length class mod 32 / 128); non-trivial = at least 2 ops; distinct = distinct abstract histories",
		Real:  []string{"zuc", "internal/zuc (asm / Go per node)"},
		Stubs: []string{"caller-chosen call partition (simulated pipe)", "guard-page buffers"},
		Assume: []string{"models (harness/model/zucm) anchored on the 3GPP / ZUC-256 vectors at worker start-up; MACs are bit-serial per the specification",
			"known finding zuc256-mac-tail is recognised by exact equality with the model carrying precisely that deviation"},
	})
}

func genC11(r *sim.Rand, tier string) *sim.Program {
	p := &sim.Program{Prop: "C11"}
	ck := r.Intn(3)
	p.SetC("ck", ck)
	p.SetC("bucket", r.PickInt(-1, -1, 0, 1, 127, 128, 129, 256, 300, 1024))
	mk := r.Intn(5)
	p.SetC("mk", mk)
	p.SetCB("key", r.Bytes(32))
	p.SetCB("iv", r.Bytes(23))
	p.SetC("count", int(r.Uint64()&0x7fffffff))
	p.SetC("bearer", r.Intn(32))
	p.SetC("dir", r.Intn(2))
	cipherOps := r.Chance(2, 3)
	macOps := !cipherOps || r.Chance(1, 2)
	big := r.Chance(1, 30)
	nops := r.Range(2, 16)
	pos := 0
	maxPos := 3000
	if big {
		maxPos = 40000
	}
	lenPick := func() int {
		n := r.Near(700, 0, 1, 3, 4, 5, 127, 128, 129, 255, 256, 257, 384, 512)
		if big && r.Chance(1, 3) {
			n = r.Range(1000, 9000)
		}
		return n
	}
	if cipherOps && r.Chance(1, 300) {
		// a long life: the stream runs far past a thousand buckets / rounds, then the caller seeks back to positions
		// on both sides of bucket 1024 (and of 2^16 and 2^17 octets)
		far := r.PickInt(132000, 140000, 200000, 270000)
		p.Add("xor", far, 0, r.Intn(256))
		pos = far
		for k := r.Range(2, 5); k > 0; k-- {
			off := r.PickInt(131072, 131071, 131200, 65536, 65535, 131072+r.Intn(far-131072), r.Intn(far), 1024*r.PickInt(127, 128, 129, 255, 256, 257))
			n := lenPick()
			p.Add("xorat", n, 0, r.Intn(256), off)
			pos = off + n
		}
	}
	for i := 0; i < nops; i++ {
		useCipher := cipherOps && (!macOps || r.Bool())
		if useCipher {
			n := lenPick()
			knob := r.Weighted(4, 3, 1, 1) // 0 disjoint, 1 in place, 2 guard pages, 3 dst larger
			if r.Chance(1, 2) {
				p.Add("xor", n, knob, r.Intn(256))
				pos += n
			} else {
				var off int
				switch r.Intn(5) {
				case 0:
					off = pos // same position
				case 1:
					off = r.Intn(pos + 1) // backwards
				case 2:
					off = pos + r.Near(600, 1, 3, 4, 127, 128, 129, 256) // forwards
				case 3:
					off = 128*r.Intn(12) + r.PickInt(-1, 0, 1, 4) // round boundaries
				default:
					off = r.Intn(maxPos)
				}
				if off < 0 {
					off = 0
				}
				p.Add("xorat", n, knob, r.Intn(256), off)
				pos = off + n
			}
			continue
		}
		switch r.Intn(8) {
		case 0, 1, 2:
			wl := r.Near(80, 0, 1, 3, 4, 5, 15, 16, 17, 31, 32, 33, 64)
			if big && r.Chance(1, 2) {
				wl = r.Range(200, 6000)
			}
			p.Add("write").WithB(r.Bytes(wl))
		case 3:
			p.Add("sum")
		case 4:
			p.Add("sumapp")
		case 5, 6:
			nb := r.Near(600, 0, 1, 31, 32, 33, 63, 64, 65, 127, 128, 129, 160, 161, 255, 256)
			b := r.Bytes((nb+7)/8 + r.PickInt(0, 0, 1, 4, 17)) // the buffer may be longer than the bits it is asked to absorb
			p.Add("finish", nb).WithB(b)
		default:
			p.Add("reset")
		}
	}
	return p
}

type c11KS struct {
	key, iv []byte
	buf     []byte
}

func (k *c11KS) upto(n int) []byte {
	if len(k.buf) < n {
		want := n + 1024
		k.buf = zucm.KeystreamBytes(k.key, k.iv, 0, want)
	}
	return k.buf
}

func execC11(t *testing.T, p *sim.Program, c *sim.Ctx) {
	key32 := fitKey(p.CB("key"), 32)
	iv23 := fitKey(p.CB("iv"), 23)
	count, bearer, dir := uint32(p.C("count")), uint32(p.C("bearer"))&0x1f, uint32(p.C("dir"))&1
	ck := ((p.C("ck") % 3) + 3) % 3
	mk := ((p.C("mk") % 5) + 5) % 5
	bucket := p.C("bucket")
	if len(p.Ops) >= 2 {
		c.Nontriv = true
	}
	// cipher object
	// The objects are constructed on first use, in the order in which the operations need them: which constructor is
	// the FIRST one of the process (lazily built package tables) is part of the history when this run is the first of
	// its worker process - as it always is on replay.
	var st gcipher.SeekableStream
	var err error
	ks := &c11KS{}
	switch ck {
	case 0:
		ks.key, ks.iv = key32[:16], iv23[:16]
	case 1:
		ks.key, ks.iv = key32, iv23
	default:
		ks.key, ks.iv = key32[:16], zucm.EEAIV(count, bearer, dir)
	}
	cipherObj := func() gcipher.SeekableStream {
		if st != nil {
			return st
		}
		switch {
		case ck <= 1 && bucket < 0:
			st, err = zuc.NewCipher(ks.key, ks.iv)
		case ck <= 1:
			st, err = zuc.NewCipherWithBucketSize(ks.key, ks.iv, bucket)
		case bucket < 0:
			st, err = zuc.NewEEACipher(ks.key, count, bearer, dir)
		default:
			st, err = zuc.NewEEACipherWithBucketSize(ks.key, count, bearer, dir, bucket)
		}
		if err != nil {
			c.Fail("setup", -1, "setup", "cipher constructor: %v", err)
			return nil
		}
		return st
	}
	// mac object
	var mac zuc.EIA
	var macKey, macIV []byte
	tagSize := 4
	switch mk {
	case 0:
		macKey, macIV = key32[:16], iv23[:16]
	case 1:
		macKey, macIV = key32[:16], zucm.EIAIV(count, bearer, dir)
	default:
		tagSize = []int{4, 8, 16}[mk-2]
		macKey, macIV = key32, iv23
	}
	macObj := func() zuc.EIA {
		if mac != nil {
			return mac
		}
		switch mk {
		case 0:
			mac, err = zuc.NewHash(macKey, macIV)
		case 1:
			mac, err = zuc.NewEIAHash(macKey, count, bearer, dir)
		default:
			mac, err = zuc.NewHash256(macKey, macIV, tagSize)
		}
		if err != nil {
			c.Fail("setup", -1, "setup", "mac constructor: %v", err)
			return nil
		}
		return mac
	}
	bclass := "d"
	if bucket >= 0 {
		bclass = "b0"
		if bucket > 0 {
			bclass = "b" + sim.LenClass(bucket, 128)
		}
	}
	c.Abs(ck, bclass, mk)
	effBucket := 0
	if bucket > 0 {
		effBucket = (bucket + 127) / 128 * 128
	}
	modelMAC := func(msg []byte, nbits int) []byte {
		if mk < 2 {
			var o [4]byte
			binary.BigEndian.PutUint32(o[:], zucm.EIA3(macKey, macIV, msg, nbits))
			return o[:]
		}
		return zucm.MAC256(macKey, macIV, tagSize, msg, nbits)
	}
	checkMAC := func(i int, kind string, msg []byte, nbits int, got []byte) {
		c.Out(kind, got)
		want := modelMAC(msg, nbits)
		if bytes.Equal(got, want) {
			return
		}
		if mk >= 3 && nbits%128 > 32 {
			if d := zucm.MAC256Defect(macKey, macIV, tagSize, msg, nbits); bytes.Equal(got, d) {
				c.KnownOrFail("zuc256-mac-tail", "mac-mismatch", i, kind, "ZUC-256 MAC tag %d bytes, %d bits (%d mod 128): %x, bit-serial model %x", tagSize, nbits, nbits%128, got, want)
				return
			}
		}
		c.Fail("mac-mismatch", i, kind, "mac kind %d tag %d bytes, %d bits: got %x, model %x", mk, tagSize, nbits, got, want)
	}
	pos := 0
	var streamed []byte
	for i, op := range p.Ops {
		if c.Failed() {
			return
		}
		c.OpsDone++
		if op.K == "xor" || op.K == "xorat" {
			if cipherObj() == nil {
				return
			}
		} else if macObj() == nil {
			return
		}
		switch op.K {
		case "xor", "xorat":
			n, knob, pat := op.Int(0), op.Int(1), byte(op.Int(2))
			if n < 0 {
				n = 0
			}
			if n > 1<<20 {
				n = 1 << 20
			}
			off := pos
			if op.K == "xorat" {
				off = op.Int(3)
				if off < 0 {
					off = 0
				}
				if off > 1<<22 {
					off = 1 << 22
				}
				dirc := "fwd"
				if off < pos {
					dirc = "back"
					c.Hit("probe:seek-backwards")
				} else if off == pos {
					dirc = "same"
				}
				crosses := effBucket > 0 && off/effBucket != pos/effBucket
				if crosses && off < pos {
					c.Hit("probe:seek-backwards-across-bucket")
				}
				c.Abs("xa", sim.LenClass(n, 128), n%4, dirc, crosses, off%128 == 0, off%4)
			} else {
				c.Abs("x", sim.LenClass(n, 128), n%4, pos%128 == 0, pos%4)
			}
			src := make([]byte, n)
			for j := range src {
				src[j] = pat + byte(j)*31
			}
			want := make([]byte, n)
			k := ks.upto(off + n)
			for j := 0; j < n; j++ {
				want[j] = src[j] ^ k[off+j]
			}
			var dst []byte
			var cn *sim.Canary
			var g1, g2 *sim.Guarded
			extra := 0
			switch knob {
			case 1: // in place
				cn = sim.NewCanary(n, 16, 16, 0x6b)
				copy(cn.Buf, src)
				dst = cn.Buf
				src = cn.Buf
			case 2: // guard pages behind src and dst
				g1, g2 = sim.GuardEnd(n), sim.GuardEnd(n)
				copy(g1.Buf, src)
				src = g1.Buf
				dst = g2.Buf
				c.Hit("probe:guard-page-buffers")
			case 3: // dst larger than src
				extra = 1 + n%37
				cn = sim.NewCanary(n+extra, 16, 16, 0x6b)
				dst = cn.Buf
				for j := range dst {
					dst[j] = 0x6b
				}
			default:
				cn = sim.NewCanary(n, 16, 16, 0x6b)
				dst = cn.Buf
			}
			if op.K == "xorat" {
				cipherObj().XORKeyStreamAt(dst, src, uint64(off))
			} else {
				cipherObj().XORKeyStream(dst, src)
			}
			c.Out(op.K, dst[:n])
			if !bytes.Equal(dst[:n], want) {
				d := 0
				for d < n && dst[d] == want[d] {
					d++
				}
				c.Fail("keystream-mismatch", i, op.K, "cipher kind %d bucket %d: %d bytes at offset %d (previous position %d): first wrong byte at +%d", ck, bucket, n, off, pos, d)
			}
			if cn != nil {
				if ok, o := cn.Intact(n + extra); !ok {
					c.Fail("out-of-slice-write", i, op.K, "write outside dst at offset %d", o)
				}
				for j := n; j < n+extra; j++ {
					if dst[j] != 0x6b {
						c.Fail("out-of-slice-write", i, op.K, "dst[%d] beyond len(src)=%d was modified", j, n)
						break
					}
				}
			}
			if g1 != nil {
				g1.Free()
				g2.Free()
			}
			pos = off + n
		case "write":
			b := op.Bytes(0)
			c.Abs("w", sim.LenClass(len(b), 16), len(b)%4, len(streamed)%16, len(streamed) >= 16)
			n, err := macObj().Write(b)
			if n != len(b) || err != nil {
				c.Fail("write-result", i, op.K, "Write returned %d,%v", n, err)
			}
			streamed = append(streamed, b...)
		case "sum":
			c.Abs("s", (len(streamed)*8)%128/32, len(streamed) >= 16)
			checkMAC(i, op.K, streamed, len(streamed)*8, macObj().Sum(nil))
		case "sumapp":
			c.Abs("sa", (len(streamed)*8)%128/32)
			out := macObj().Sum([]byte{1, 2})
			if len(out) < 2 || out[0] != 1 || out[1] != 2 {
				c.Fail("sum-prefix", i, op.K, "Sum did not keep the prefix")
				break
			}
			checkMAC(i, op.K, streamed, len(streamed)*8, out[2:])
		case "finish":
			nb := op.Int(0)
			b := op.Bytes(0)
			if nb < 0 {
				nb = 0
			}
			if nb > len(b)*8 {
				nb = len(b) * 8
			}
			total := len(streamed)*8 + nb
			c.Abs("f", total%32, total%128/32, total >= 128, nb%8)
			if total%128 > 32 {
				c.Hit("probe:mac-tail>32bits")
			}
			msg := append(append([]byte{}, streamed...), b[:(nb+7)/8]...)
			if len(b) > (nb+7)/8 {
				c.Hit("probe:finish-buffer-longer-than-nbits")
			}
			arg := append([]byte{}, b...)
			got := macObj().Finish(arg, nb)
			if !bytes.Equal(arg, b) {
				c.Fail("message-modified", i, op.K, "Finish modified its argument")
			}
			checkMAC(i, op.K, msg, total, got)
			streamed = streamed[:0] // Finish returns the object to its initial state
		case "reset":
			c.Abs("r", len(streamed)%16)
			if len(streamed) > 0 {
				c.Hit("fault:abandoned-message")
			}
			macObj().Reset()
			streamed = streamed[:0]
		}
	}
	if !c.Failed() && macObj() != nil {
		checkMAC(len(p.Ops)-1, "final", streamed, len(streamed)*8, macObj().Sum(nil))
	}
}
