package props

import (
	"crypto"
	"crypto/ecdsa"
	"crypto/ed25519"
	"crypto/elliptic"
	"crypto/x509"
	"encoding/pem"
	"fmt"
	"strings"
	"time"

	"github.com/emmansun/gmsm/sm2"
	"github.com/emmansun/gmsm/smx509"

	"verif/harness/fixtures"
	"verif/harness/sim"
)

// ---------------------------------------------------------------------------
// keys

const (
	c15SM2 = iota
	c15P256
	c15P384
	c15RSA1024
	c15RSA2048
	c15Ed
	c15KeyTypes
)

var c15KeyNames = [c15KeyTypes]string{"sm2", "p256", "p384", "rsa1024", "rsa2048", "ed25519"}

// c15Key is one key pair of the simulated PKI. id is the KEY IDENTITY the
// topology model reasons with (two certificates carry the same key iff their
// ids are equal).
type c15Key struct {
	id     string
	typ    int
	signer crypto.Signer
	pub    crypto.PublicKey
}

// fixture keys (RSA key generation is forbidden at run time): parsed once per process
var c15Fix [c15KeyTypes]crypto.Signer

func c15Init() error {
	for typ, pemText := range map[int]string{c15RSA1024: fixtures.RSAKey0PEM, c15RSA2048: fixtures.RSAKey1PEM, c15P256: fixtures.ECDSAKey0PEM, c15P384: fixtures.ECDSAKey1PEM} {
		if c15Fix[typ] != nil {
			continue
		}
		blk, _ := pem.Decode([]byte(pemText))
		if blk == nil {
			return fmt.Errorf("c15: fixture key %s: no PEM block", c15KeyNames[typ])
		}
		k, err := smx509.ParsePKCS8PrivateKey(blk.Bytes)
		if err != nil {
			return fmt.Errorf("c15: fixture key %s: %v", c15KeyNames[typ], err)
		}
		s, ok := k.(crypto.Signer)
		if !ok {
			return fmt.Errorf("c15: fixture key %s: %T is not a signer", c15KeyNames[typ], k)
		}
		c15Fix[typ] = s
	}
	return nil
}

// c15MakeKey returns key (typ, idx) of the run. idx 0 of the ECDSA types and
// both RSA types are the fixtures; everything else is derived from the seed.
func c15MakeKey(seed []byte, typ, idx int) (*c15Key, error) {
	typ = ((typ % c15KeyTypes) + c15KeyTypes) % c15KeyTypes
	idx = ((idx % 4) + 4) % 4
	if typ == c15RSA1024 || typ == c15RSA2048 {
		idx = 0
	}
	k := &c15Key{id: fmt.Sprintf("%s/%d", c15KeyNames[typ], idx), typ: typ}
	tag := "c15key-" + k.id
	switch typ {
	case c15SM2:
		priv, err := sm2.NewPrivateKey(scalarFrom(seed, tag))
		if err != nil {
			return nil, err
		}
		k.signer = priv
	case c15P256, c15P384:
		if idx == 0 {
			if c15Fix[typ] == nil {
				if err := c15Init(); err != nil {
					return nil, err
				}
			}
			k.signer = c15Fix[typ]
			break
		}
		curve, n := elliptic.P256(), 32
		if typ == c15P384 {
			curve, n = elliptic.P384(), 48
		}
		b := derive(seed, tag, n)
		b[0] &= 0x7f // below the group order of both curves
		b[n-1] |= 1
		priv, err := ecdsa.ParseRawPrivateKey(curve, b)
		if err != nil {
			return nil, err
		}
		k.signer = priv
	case c15RSA1024, c15RSA2048:
		if c15Fix[typ] == nil {
			if err := c15Init(); err != nil {
				return nil, err
			}
		}
		k.signer = c15Fix[typ]
	default:
		k.signer = ed25519.NewKeyFromSeed(derive(seed, tag, ed25519.SeedSize))
	}
	k.pub = k.signer.Public()
	return k, nil
}

func c15PubEqual(a, b crypto.PublicKey) bool {
	type eq interface{ Equal(crypto.PublicKey) bool }
	x, ok := a.(eq)
	return ok && b != nil && x.Equal(b)
}

// c15SigAlg maps (signer key type, selector) to the template's
// SignatureAlgorithm (0 = library default), the algorithm the parsed object
// must report, whether it is a SHA-1 algorithm and whether creation is
// expected to be refused (mismatching / unsupported choice).
func c15SigAlg(typ, sel int) (tmpl, want x509.SignatureAlgorithm, sha1, refuse bool) {
	def := map[int]x509.SignatureAlgorithm{c15SM2: smx509.SM2WithSM3, c15P256: x509.ECDSAWithSHA256, c15P384: x509.ECDSAWithSHA384,
		c15RSA1024: x509.SHA256WithRSA, c15RSA2048: x509.SHA256WithRSA, c15Ed: x509.PureEd25519}[typ]
	var table []x509.SignatureAlgorithm
	switch typ {
	case c15RSA1024, c15RSA2048:
		table = []x509.SignatureAlgorithm{0, x509.SHA384WithRSA, x509.SHA512WithRSA, x509.SHA256WithRSAPSS, x509.SHA384WithRSAPSS, x509.SHA512WithRSAPSS, x509.SHA1WithRSA, x509.SHA256WithRSA, x509.MD5WithRSA, x509.ECDSAWithSHA256}
	case c15P256, c15P384:
		table = []x509.SignatureAlgorithm{0, x509.ECDSAWithSHA256, x509.ECDSAWithSHA384, x509.ECDSAWithSHA512, x509.ECDSAWithSHA1, x509.SHA256WithRSA, smx509.SM2WithSM3}
	case c15SM2:
		table = []x509.SignatureAlgorithm{0, smx509.SM2WithSM3, x509.ECDSAWithSHA256}
	default:
		table = []x509.SignatureAlgorithm{0, x509.PureEd25519, x509.ECDSAWithSHA256}
	}
	tmpl = table[((sel%len(table))+len(table))%len(table)]
	want = tmpl
	if tmpl == 0 {
		want = def
	}
	switch tmpl {
	case x509.SHA1WithRSA, x509.ECDSAWithSHA1:
		sha1 = true
	case x509.MD5WithRSA:
		refuse = true
	}
	// algorithm family must match the key family
	fam := func(a x509.SignatureAlgorithm) int {
		switch a {
		case x509.SHA1WithRSA, x509.SHA256WithRSA, x509.SHA384WithRSA, x509.SHA512WithRSA, x509.SHA256WithRSAPSS, x509.SHA384WithRSAPSS, x509.SHA512WithRSAPSS, x509.MD5WithRSA:
			return 1
		case x509.ECDSAWithSHA1, x509.ECDSAWithSHA256, x509.ECDSAWithSHA384, x509.ECDSAWithSHA512:
			return 2
		case smx509.SM2WithSM3:
			return 3
		case x509.PureEd25519:
			return 4
		}
		return 0
	}
	if fam(want) != fam(def) {
		refuse = true
	}
	return
}

// ---------------------------------------------------------------------------
// topology model

// c15Cert is the model's record of one issued certificate: everything in it
// comes from the issuing request (template, keys), never from the parsed
// certificate.
type c15Cert struct {
	idx       int
	der       []byte
	x         *smx509.Certificate // as parsed by the library (used only to call the library)
	key       *c15Key             // subject key
	signer    *c15Key             // key that produced the signature
	cn        string              // subject common name
	issuerCN  string
	nb, na    time.Time
	bc, ca    bool // BasicConstraints present, cA asserted (ca implies bc)
	pathLen   int  // -1: none
	ku        x509.KeyUsage
	eku       []x509.ExtKeyUsage
	dns       []string
	permitted []string
	excluded  []string
	sha1      bool
}

// canSignCerts: the certificate may act as an issuer in a path (CA with keyCertSign if a key usage is present).
func (m *c15Cert) canSignCerts() bool {
	return m.bc && m.ca && (m.ku == 0 || m.ku&x509.KeyUsageCertSign != 0)
}

func (m *c15Cert) canSignCRLs() bool {
	return m.bc && m.ca && (m.ku == 0 || m.ku&x509.KeyUsageCRLSign != 0)
}

func (m *c15Cert) inWindow(t time.Time) bool { return !t.Before(m.nb) && !t.After(m.na) }

func (m *c15Cert) comfortablyInWindow(t time.Time) bool {
	return t.After(m.nb.Add(time.Hour)) && t.Before(m.na.Add(-time.Hour))
}

// c15DNSMatch: does the DNS name fall under the constraint (RFC 5280 4.2.1.10;
// a leading period demands at least one additional label). Written
// independently of smx509.matchDomainConstraint.
func c15DNSMatch(name, constraint string) bool {
	must := false
	if strings.HasPrefix(constraint, ".") {
		must = true
		constraint = constraint[1:]
	}
	nl := strings.Split(strings.ToLower(name), ".")
	cl := strings.Split(strings.ToLower(constraint), ".")
	if len(nl) < len(cl) || (must && len(nl) == len(cl)) {
		return false
	}
	for i := 1; i <= len(cl); i++ {
		if nl[len(nl)-i] != cl[len(cl)-i] {
			return false
		}
	}
	return true
}

// c15NamesAllowed: do all names satisfy the constraints of ca.
func c15NamesAllowed(ca *c15Cert, names []string) (bool, string) {
	for _, n := range names {
		for _, ex := range ca.excluded {
			if c15DNSMatch(n, ex) {
				return false, fmt.Sprintf("DNS name %q lies in the excluded subtree %q of %q", n, ex, ca.cn)
			}
		}
		if len(ca.permitted) > 0 {
			ok := false
			for _, pe := range ca.permitted {
				if c15DNSMatch(n, pe) {
					ok = true
				}
			}
			if !ok {
				return false, fmt.Sprintf("DNS name %q lies in none of the permitted subtrees %v of %q", n, ca.permitted, ca.cn)
			}
		}
	}
	return true, ""
}

// c15JudgeChain checks one chain returned by Verify (as model records, leaf
// first) against the model. Returns "" or the reason for which the chain must
// not have been returned.
func c15JudgeChain(chain []*c15Cert, t time.Time, roots map[int]bool) (class, why string) {
	if len(chain) == 0 {
		return "empty-chain", "an empty chain was returned"
	}
	for i, m := range chain {
		if !m.inWindow(t) {
			return "chain-outside-validity", fmt.Sprintf("certificate #%d (%q, position %d of %d) is valid from %s to %s but the verification time is %s",
				m.idx, m.cn, i, len(chain), m.nb.Format(time.RFC3339), m.na.Format(time.RFC3339), t.Format(time.RFC3339Nano))
		}
		if i+1 < len(chain) {
			next := chain[i+1]
			if m.signer.id != next.key.id {
				return "chain-link-not-signed", fmt.Sprintf("certificate #%d (%q) was signed with key %s, but the next certificate of the chain, #%d (%q), carries key %s",
					m.idx, m.cn, m.signer.id, next.idx, next.cn, next.key.id)
			}
		}
		if i >= 1 {
			if !m.bc || !m.ca {
				return "chain-through-non-ca", fmt.Sprintf("certificate #%d (%q) at position %d issues a certificate of the chain but is not a CA (basicConstraints present=%v, cA=%v)", m.idx, m.cn, i, m.bc, m.ca)
			}
			if m.ku != 0 && m.ku&x509.KeyUsageCertSign == 0 {
				return "chain-through-no-certsign", fmt.Sprintf("certificate #%d (%q) at position %d issues a certificate of the chain but its key usage %#x lacks keyCertSign", m.idx, m.cn, i, int(m.ku))
			}
			if m.pathLen >= 0 && i-1 > m.pathLen {
				return "chain-exceeds-pathlen", fmt.Sprintf("certificate #%d (%q) has pathLenConstraint %d but %d intermediate certificates follow it", m.idx, m.cn, m.pathLen, i-1)
			}
			for _, below := range chain[:i] {
				if ok, why := c15NamesAllowed(m, below.dns); !ok {
					return "chain-violates-name-constraints", why
				}
			}
		}
	}
	last := chain[len(chain)-1]
	if !roots[last.idx] {
		return "chain-ends-outside-roots", fmt.Sprintf("the chain ends in certificate #%d (%q), which is not one of the configured roots", last.idx, last.cn)
	}
	return "", ""
}

// c15ModelChains enumerates the chains the MODEL considers valid the way a
// name-driven path builder can find them: parents are looked up by issuer name
// among the configured roots (terminal) and intermediates, an entity (subject,
// key) appears at most once. exact=false additionally demands a "plain" chain:
// every window contains t with more than an hour to spare, no path length or
// name constraint anywhere, no SHA-1 signature, no extended key usage unless
// ekuFree. Used only for the completeness direction.
func c15ModelChains(all []*c15Cert, leaf *c15Cert, roots, inters map[int]bool, t time.Time, comfortable, ekuFree bool, pc *c15PoolCons) bool {
	okTime := func(m *c15Cert) bool {
		if comfortable {
			return m.comfortablyInWindow(t)
		}
		return m.inWindow(t)
	}
	okEKU := func(m *c15Cert) bool { return ekuFree || len(m.eku) == 0 }
	if !okTime(leaf) || !okEKU(leaf) {
		return false
	}
	if roots[leaf.idx] {
		return true
	}
	var walk func(chain []*c15Cert) bool
	walk = func(chain []*c15Cert) bool {
		if len(chain) > 8 {
			return false
		}
		cur := chain[len(chain)-1]
		if cur.sha1 {
			return false
		}
		cands := func(set map[int]bool, asRoot bool) []*c15Cert {
			var out []*c15Cert
			for _, m := range all {
				if !set[m.idx] || m.cn != cur.issuerCN || m.key.id != cur.signer.id {
					continue
				}
				if !pc.okAt(asRoot, m, chain) {
					continue
				}
				if !m.canSignCerts() || m.pathLen >= 0 || len(m.permitted) > 0 || len(m.excluded) > 0 || !okTime(m) || !okEKU(m) {
					continue
				}
				dup := false
				for _, e := range chain {
					if e.cn == m.cn && e.key.id == m.key.id {
						dup = true
					}
				}
				if !dup {
					out = append(out, m)
				}
			}
			return out
		}
		if len(cands(roots, true)) > 0 {
			return true
		}
		for _, m := range cands(inters, false) {
			if walk(append(append([]*c15Cert{}, chain...), m)) {
				return true
			}
		}
		return false
	}
	return walk([]*c15Cert{leaf})
}

// ---------------------------------------------------------------------------
// DER regions of a signed object: SEQUENCE { tbs, signatureAlgorithm, BIT STRING signature }

type c15Regions struct {
	tbs, sig [2]int // [start,end): whole tbs element; content of the signature BIT STRING behind the unused-bits octet
	ok       bool
}

func c15Locate(der []byte) c15Regions {
	root := sim.ParseAllTLV(der)
	if root == nil || len(root.Children) != 3 || root.Children[2].Tag != 0x03 || len(root.Children[2].Content) < 2 {
		return c15Regions{}
	}
	tbs, sig := root.Children[0], root.Children[2]
	return c15Regions{
		tbs: [2]int{tbs.Off, tbs.Off + tbs.HdrLen + len(tbs.Content)},
		sig: [2]int{sig.Off + sig.HdrLen + 1, sig.Off + sig.HdrLen + len(sig.Content)},
		ok:  true,
	}
}

// region of position p: 0 = signed portion, 1 = signature value, 2 = envelope
// (outer header, outer algorithm identifier, BIT STRING header / unused-bits octet)
func (r c15Regions) class(p int) int {
	switch {
	case p >= r.tbs[0] && p < r.tbs[1]:
		return 0
	case p >= r.sig[0] && p < r.sig[1]:
		return 1
	}
	return 2
}

// c15CleanNames splits a comma separated list and keeps only syntactically
// plain DNS names / constraints (the program may have been edited by hand).
func c15CleanNames(csv string, constraint bool) []string {
	var out []string
	for _, n := range strings.Split(csv, ",") {
		if n == "" || len(n) > 60 {
			continue
		}
		body := n
		if constraint && strings.HasPrefix(body, ".") {
			body = body[1:]
		}
		good := body != ""
		for i, lab := range strings.Split(body, ".") {
			if lab == "" {
				good = false
				break
			}
			if lab == "*" && i == 0 && !constraint {
				continue
			}
			for j, ch := range lab {
				switch {
				case ch >= 'a' && ch <= 'z', ch >= 'A' && ch <= 'Z', ch >= '0' && ch <= '9':
				case ch == '-' && j > 0:
				default:
					good = false
				}
			}
		}
		if good && len(out) < 4 {
			out = append(out, n)
		}
	}
	return out
}

func c15CleanCN(s string) string {
	var sb strings.Builder
	for _, ch := range s {
		if (ch >= 'a' && ch <= 'z') || (ch >= 'A' && ch <= 'Z') || (ch >= '0' && ch <= '9') || ch == ' ' || ch == '-' || ch == '.' {
			sb.WriteRune(ch)
		}
	}
	out := sb.String()
	if len(out) > 40 {
		out = out[:40]
	}
	return out
}

func c15SameStrings(a, b []string) bool {
	if len(a) != len(b) {
		return false
	}
	for i := range a {
		if a[i] != b[i] {
			return false
		}
	}
	return true
}

// c15ModelPaths enumerates every path from leaf to a configured root along
// genuine signatures (issuer name and key identity, intermediates from the
// bag, an entity at most once) and returns the model's verdict class for each
// ("" = valid). Used for coverage probes only.
func c15ModelPaths(all []*c15Cert, leaf *c15Cert, roots, inters map[int]bool, t time.Time) []string {
	var out []string
	if roots[leaf.idx] {
		cl, _ := c15JudgeChain([]*c15Cert{leaf}, t, roots)
		return []string{cl}
	}
	var walk func(chain []*c15Cert)
	walk = func(chain []*c15Cert) {
		if len(chain) > 8 || len(out) > 32 {
			return
		}
		cur := chain[len(chain)-1]
		for _, m := range all {
			if m.cn != cur.issuerCN || m.key.id != cur.signer.id || (!roots[m.idx] && !inters[m.idx]) {
				continue
			}
			dup := false
			for _, e := range chain {
				if e.cn == m.cn && e.key.id == m.key.id {
					dup = true
				}
			}
			if dup {
				continue
			}
			next := append(append([]*c15Cert{}, chain...), m)
			if roots[m.idx] {
				cl, _ := c15JudgeChain(next, t, roots)
				out = append(out, cl)
			}
			if inters[m.idx] {
				walk(next)
			}
		}
	}
	walk([]*c15Cert{leaf})
	return out
}

// c15ExactPathExists: is there a genuinely signed path that the model accepts
// at exactly time t, with constraints allowed as long as they are satisfied
// in a way no reading of RFC 5280 disputes: windows inclusive, path length at
// least the number of intermediates that follow (no self-issued certificates
// exist in the simulation), DNS constraints without leading period applied to
// non-wildcard names of every certificate below, no SHA-1 link, extended key
// usages absent unless the verifier accepts any.
func c15ExactPathExists(all []*c15Cert, leaf *c15Cert, roots, inters map[int]bool, t time.Time, ekuFree bool, pc *c15PoolCons, noNC bool) bool {
	simple := func(ss []string, constraint bool) bool {
		for _, s := range ss {
			if strings.HasPrefix(s, ".") || strings.Contains(s, "*") {
				return false
			}
		}
		return true
	}
	okChain := func(chain []*c15Cert) bool {
		if cl, _ := c15JudgeChain(chain, t, roots); cl != "" {
			return false
		}
		for i, m := range chain {
			if !ekuFree && len(m.eku) > 0 {
				return false
			}
			if i+1 < len(chain) && m.sha1 {
				return false
			}
			if i >= 1 && !pc.okAt(i == len(chain)-1, m, chain[:i]) {
				return false
			}
			if i >= 1 && noNC && (len(m.permitted) > 0 || len(m.excluded) > 0) {
				return false // a budget of constraint comparisons is in force: no completeness claim through name constraints
			}
			if i >= 1 && (len(m.permitted) > 0 || len(m.excluded) > 0) {
				if !simple(m.permitted, true) || !simple(m.excluded, true) {
					return false
				}
				for _, below := range chain[:i] {
					if !simple(below.dns, false) {
						return false
					}
					if ok, _ := c15NamesAllowed(m, below.dns); !ok {
						return false
					}
				}
			}
		}
		return true
	}
	if roots[leaf.idx] {
		return okChain([]*c15Cert{leaf})
	}
	found := false
	var walk func(chain []*c15Cert)
	walk = func(chain []*c15Cert) {
		if found || len(chain) > 8 {
			return
		}
		cur := chain[len(chain)-1]
		for _, m := range all {
			if m.cn != cur.issuerCN || m.key.id != cur.signer.id || (!roots[m.idx] && !inters[m.idx]) {
				continue
			}
			dup := false
			for _, e := range chain {
				if e.cn == m.cn && e.key.id == m.key.id {
					dup = true
				}
			}
			if dup {
				continue
			}
			next := append(append([]*c15Cert{}, chain...), m)
			if roots[m.idx] && okChain(next) {
				found = true
				return
			}
			if inters[m.idx] {
				walk(next)
			}
		}
	}
	walk([]*c15Cert{leaf})
	return found
}
