package props

import (
	"bytes"
	"crypto/elliptic"
	"fmt"
	"math/big"
	"testing"

	"github.com/emmansun/gmsm/sm2"
	"github.com/emmansun/gmsm/verifhook"

	"verif/harness/model/sm2m"
	"verif/harness/model/sm3m"
	"verif/harness/sim"
)

// C07: encryptor, relay (format converters) and decryptor nodes; the
// ephemeral scalar comes from the scripted reader so that the model knows it;
// ciphertexts are delivered untouched, through converter chains, and altered.

func init() {
	register(&Prop{
		ID:        "C07",
		Level:     "exploration",
		Nodes:     func(tier string) []string { return []string{"avx2", "avx", "noadx", "purego"} },
		Cross:     true,
		Gen:       genC07,
		Exec:      execC07,
		QuickSecs: 30, ThoroughSecs: 600, RunsPerJob: 40,
		Rule: "a run fixes a key pair and plays a history over {encrypt(message length over every KDF block class, layout C1C3C2 / C1C2C3 / ASN.1, compressed / uncompressed C1, scripted ephemeral scalar), constructive zero-C2 (message := mask of the chosen scalar), constructive A5 retry (first scalar whose mask is all zero), decrypt, relay through a chain of layout converters, deliver with a byte altered / every byte position altered / truncated / C1 replaced by an off-curve point, infinity or another ciphertext's C1 / decrypted with another private key}; the library's result (message or error) for every delivered byte string is compared with the model's GB/T 32918.4 decryption; " +
			"abstract history = sequence of (op kind, layout, message-length class, mutation kind); non-trivial = at least 2 ops; distinct = distinct abstract histories",
		Real:  []string{"sm2 (Encrypt, EncryptASN1, Decrypt, PrivateKey.Decrypt, AdjustCiphertextSplicingOrder, ASN1Ciphertext2Plain, PlainCiphertext2ASN1)", "internal/sm3 KDF, internal/sm2ec (per node)"},
		Stubs: []string{"ephemeral scalar source: scripted reader", "relays and transport (layout conversion chains, alteration, truncation, C1 substitution, wrong recipient)"},
		Assume: []string{"model: GB/T 32918.4 encryption/decryption with math/big affine arithmetic and the SM3 model (anchored on the GB/T 32918.5 example at worker start-up)",
			"a key object is given another key only through the exported FromECPrivateKey (operation rekey); overwriting the exported embedded ecdsa key of a used object by plain assignment is not exercised (nothing in the library can notice it); the legacy-curve path (P-224/256/384/521) is checked by round trip and tamper refusal only (no model for those curves)",
			"the constructive A5-retry generator searches the first scalar with the library's curve arithmetic and confirms it with the model",
			"an altered byte string that the library decrypts to the ORIGINAL message (an equivalent re-encoding) is not a violation; any other plaintext is"},
	})
}

func genC07(r *sim.Rand, tier string) *sim.Program {
	p := &sim.Program{Prop: "C07"}
	p.SetCB("d", r.Bytes(32))
	p.SetCB("d2", r.Bytes(32))
	nops := r.Range(2, 10)
	nct := 0
	msgLen := func() int {
		return r.PickInt(1, 1, 2, 31, 32, 33, 64, 96, 97, 128, 129, 224, 256, 257, 300, 1000)
	}
	for i := 0; i < nops; i++ {
		if nct == 0 || r.Chance(1, 3) {
			lay := r.Intn(5) // 0 C1C3C2, 1 C1C2C3, 2 ASN.1, 3 C1C3C2 compressed, 4 C1C2C3 compressed
			switch r.Intn(12) {
			case 0, 1:
				p.Add("zeroc2", lay, r.PickInt(1, 1, 2, 32, 33, 100), r.Intn(1<<30))
			case 2:
				p.Add("retry", lay, r.Intn(1<<30))
			case 10:
				// ephemeral scalars whose point has a coordinate with two or more leading zero bytes (facts about the curve,
				// re-checked with the model at run time): minimal INTEGER / fixed-width encodings of C1
				p.Add("smallc1", lay, r.PickInt(17883, 60190, 84295, 126495, 173403, 193197, 252436, 302857)).WithB(r.Bytes(msgLen()))
			case 11:
				// the same algorithms over another curve (sm2_legacy.go): round trip and tamper checks only
				p.Add("legacy", r.Intn(4), r.Intn(5), r.Intn(1<<30), r.PickInt(0, 0, 1, 2, 2, 3)).WithB(r.Bytes(r.PickInt(1, 32, 33, 100)))
			default:
				p.Add("enc", lay, r.Intn(1<<30)).WithB(r.Bytes(msgLen()))
			}
			nct++
			continue
		}
		ct := r.Intn(nct)
		switch r.Intn(11) {
		case 10:
			if r.Chance(1, 3) {
				p.Add("rekey", ct, r.Intn(1<<30))
			} else {
				p.Add("extend", ct, r.PickInt(1, 1, 2, 16, 32, 33)).WithB(r.Bytes(33))
			}
		case 0:
			p.Add("dec", ct)
		case 1, 2:
			o := p.Add("relay", ct)
			for k := r.Range(1, 4); k > 0; k-- {
				o.I = append(o.I, int64(r.Intn(5)+5*r.PickInt(0, 0, 1, 2))) // target layout + how the options object is supplied
			}
		case 3, 4, 5:
			p.Add("subst", ct, r.Intn(1<<16), 1+r.Intn(255))
		case 6:
			p.Add("allbytes", ct, 1+r.Intn(255))
		case 7:
			p.Add("trunc", ct, 1+r.Intn(70))
		case 8:
			p.Add("c1", ct, r.Intn(8), r.Intn(nct))
		default:
			p.Add("wrongkey", ct)
		}
	}
	return p
}

type c07CT struct {
	lay int
	msg []byte
	ct  []byte
	c1  sm2m.Point
	c2  []byte
	c3  []byte
}

func c07Opts(lay int) *sm2.EncrypterOpts {
	switch lay {
	case 1:
		return sm2.NewPlainEncrypterOpts(sm2.MarshalUncompressed, sm2.C1C2C3)
	case 2:
		return sm2.ASN1EncrypterOpts
	case 3:
		return sm2.NewPlainEncrypterOpts(sm2.MarshalCompressed, sm2.C1C3C2)
	case 4:
		return sm2.NewPlainEncrypterOpts(sm2.MarshalCompressed, sm2.C1C2C3)
	}
	return sm2.NewPlainEncrypterOpts(sm2.MarshalUncompressed, sm2.C1C3C2)
}

func c07Marshal(lay int, c1 sm2m.Point, c2, c3 []byte) []byte {
	switch lay {
	case 1:
		return sm2m.MarshalC1C2C3(c1, c2, c3, false)
	case 2:
		return sm2m.MarshalCipherASN1(c1, c2, c3)
	case 3:
		return sm2m.MarshalC1C3C2(c1, c2, c3, true)
	case 4:
		return sm2m.MarshalC1C2C3(c1, c2, c3, true)
	}
	return sm2m.MarshalC1C3C2(c1, c2, c3, false)
}

// c07LibDecrypt decrypts a byte string delivered in layout lay.
func c07LibDecrypt(priv *sm2.PrivateKey, lay int, ct []byte) ([]byte, error) {
	switch lay {
	case 1, 4:
		return priv.Decrypt(nil, ct, sm2.NewPlainDecrypterOpts(sm2.C1C2C3))
	case 2:
		return priv.Decrypt(nil, ct, sm2.ASN1DecrypterOpts)
	}
	return sm2.Decrypt(priv, ct)
}

// c07ModelDecrypt: the model's verdict for a delivered byte string.
func c07ModelDecrypt(d *big.Int, lay int, ct []byte) ([]byte, bool) {
	var c1 sm2m.Point
	var c2, c3 []byte
	var ok bool
	if len(ct) > 0 && ct[0] == 0x30 {
		c1, c2, c3, ok = sm2m.ParseCipherASN1(ct)
	} else {
		c1, c2, c3, ok = sm2m.ParseRawCipher(ct, lay == 0 || lay == 3 || lay == 2)
	}
	if !ok {
		return nil, false
	}
	return sm2m.Decrypt(d, c1, c2, c3)
}

func execC07(t *testing.T, p *sim.Program, c *sim.Ctx) {
	verifhook.SetMaybeReadDecider(func() bool { return false })
	defer verifhook.SetMaybeReadDecider(nil)
	priv, d, err := c06Key(0, p.CB("d"))
	if err != nil {
		c.Fail("setup", -1, "setup", "%v", err)
		return
	}
	other, _, _ := c06Key(0, p.CB("d2"))
	pub := sm2m.Point{X: priv.X, Y: priv.Y}
	if len(p.Ops) >= 2 {
		c.Nontriv = true
	}
	var cts []*c07CT
	scalar := func(seed int, tag string) *big.Int {
		b := derive(append([]byte(fmt.Sprint(seed)), p.CB("d")...), tag, 32)
		b[0] &= 0x7f
		b[31] |= 1
		return new(big.Int).SetBytes(b)
	}
	// deliver a byte string to the decryptor and compare with the model
	deliver := func(i int, kind string, key *sm2.PrivateKey, dk *big.Int, lay int, ct, orig []byte) {
		want, wantOK := c07ModelDecrypt(dk, lay, ct)
		got, err := c07LibDecrypt(key, lay, ct)
		c.OutErr(kind, err)
		if err == nil {
			c.Out("pt", got)
		}
		switch {
		case wantOK && err != nil:
			c.Fail("valid-ciphertext-refused", i, kind, "decryption refused a ciphertext the GB/T 32918.4 algorithm accepts (%s, layout %d, %d bytes): %v", kind, lay, len(ct), err)
		case wantOK && !bytes.Equal(got, want):
			c.Fail("wrong-plaintext", i, kind, "decryption returned a wrong message (%s, layout %d)", kind, lay)
		case !wantOK && err == nil && !(orig != nil && bytes.Equal(got, orig)):
			c.Fail("invalid-ciphertext-accepted", i, kind, "decryption accepted a byte string the model rejects (%s, layout %d, %d bytes) and returned %d bytes", kind, lay, len(ct), len(got))
		}
		if !wantOK {
			c.Hit("fault:altered-ciphertext-delivered")
		}
	}
	record := func(i int, kind string, lay int, msg, ct []byte, k *big.Int) {
		// the ciphertext must be exactly what the standard algorithm produces for this k
		c1, c2, c3, ok := sm2m.EncryptWithK(pub, k, msg)
		if !ok {
			// the scripted scalar has an all-zero mask for this message length (1 in 256 for one byte): the
			// algorithm legitimately drew another one from the filler; this delivery is not judged
			// (the retry branch has its own constructive operation)
			c.Hit("probe:natural-zero-mask-not-judged")
			return
		}
		want := c07Marshal(lay, c1, c2, c3[:])
		c.Out("ct", ct)
		if !bytes.Equal(ct, want) {
			c.Fail("ciphertext-mismatch", i, kind, "ciphertext (layout %d, %d-byte message) differs from the GB/T 32918.4 output for the scripted scalar at byte %d", lay, len(msg), firstDiff(ct, want))
			return
		}
		rec := &c07CT{lay: lay, msg: msg, ct: ct, c1: c1, c2: c2, c3: c3[:]}
		cts = append(cts, rec)
		deliver(i, kind, priv, d, lay, ct, msg)
	}
	for i, op := range p.Ops {
		if c.Failed() {
			return
		}
		c.OpsDone++
		switch op.K {
		case "enc":
			lay := ((op.Int(0) % 5) + 5) % 5
			msg := op.Bytes(0)
			if len(msg) == 0 {
				msg = []byte{0x5a}
			}
			k := scalar(op.Int(1), "k")
			c.Abs("enc", lay, sim.LenClass(len(msg), 32))
			rd := &sim.ScriptReader{Data: k.FillBytes(make([]byte, 32)), Fill: 9, Step: 5}
			var ct []byte
			var err error
			if lay == 2 && op.Int(1)%2 == 0 {
				ct, err = sm2.EncryptASN1(rd, &priv.PublicKey, msg)
			} else {
				ct, err = sm2.Encrypt(rd, &priv.PublicKey, msg, c07Opts(lay))
			}
			if err != nil {
				c.Fail("encrypt-failed", i, op.K, "encryption of %d bytes failed: %v", len(msg), err)
				return
			}
			record(i, op.K, lay, msg, ct, k)
		case "smallc1":
			lay := ((op.Int(0) % 5) + 5) % 5
			kv := op.Int(1)
			if kv < 1 {
				kv = 17883
			}
			k := big.NewInt(int64(kv))
			msg := op.Bytes(0)
			if len(msg) == 0 {
				msg = []byte{0x5a}
			}
			pt := sm2m.ScalarBaseMult(k)
			if pt.X.BitLen() <= 240 || pt.Y.BitLen() <= 240 {
				c.Hit("probe:c1-coordinate-with-leading-zero-bytes")
			}
			c.Abs("smallc1", lay)
			rd := &sim.ScriptReader{Data: k.FillBytes(make([]byte, 32)), Fill: 9, Step: 5}
			ct, err := sm2.Encrypt(rd, &priv.PublicKey, msg, c07Opts(lay))
			if err != nil {
				c.Fail("encrypt-failed", i, op.K, "encryption failed: %v", err)
				return
			}
			record(i, op.K, lay, msg, ct, k)
		case "legacy":
			curves := []elliptic.Curve{elliptic.P224(), elliptic.P256(), elliptic.P384(), elliptic.P521()}
			cv := curves[((op.Int(0)%4)+4)%4]
			lay := ((op.Int(1) % 5) + 5) % 5
			msg := op.Bytes(0)
			if len(msg) == 0 {
				msg = []byte{0x5a}
			}
			c.Abs("legacy", op.Int(0)%4, lay)
			c.Hit("probe:legacy-curve-round-trip")
			bl := (cv.Params().BitSize + 7) / 8
			db := derive(append([]byte(fmt.Sprint(op.Int(2))), p.CB("d")...), "ld", bl)
			db[0] = 0
			db[bl-1] |= 1
			lp := new(sm2.PrivateKey)
			lp.Curve = cv
			lp.D = new(big.Int).SetBytes(db)
			lp.X, lp.Y = cv.ScalarBaseMult(db)
			kb := derive(append([]byte(fmt.Sprint(op.Int(2))), p.CB("d")...), "lk", 2*bl+16)
			for j := range kb {
				if j%bl == 0 {
					kb[j] = 0 // every scripted block is below the group order
				}
			}
			if op.Int(3)&2 == 2 && bl <= 48 {
				// constructive: an ephemeral scalar whose shared point [k]P has a coordinate with a leading zero octet (1 in
				// 128 by chance): the KDF and C3 inputs are the FIXED-LENGTH coordinates (GB/T 32918.4 with 4.2.6 of part 1)
				for j := 0; j < 400; j++ {
					cand := derive(append([]byte{byte(j), byte(j >> 8)}, kb[:bl]...), "lz", bl)
					cand[0] = 0
					kx := new(big.Int).SetBytes(cand)
					if kx.Sign() == 0 || kx.Cmp(cv.Params().N) >= 0 {
						continue
					}
					x2, y2 := cv.ScalarMult(lp.X, lp.Y, kx.Bytes())
					if x2.BitLen() <= 8*bl-8 || y2.BitLen() <= 8*bl-8 {
						copy(kb, cand)
						c.Hit("probe:legacy-shared-point-with-leading-zero-octet")
						break
					}
				}
			}
			if op.Int(3)&1 == 1 {
				// constructive: the message equals the mask of the first scripted scalar, so that C2 is all zero - a
				// legitimate output of the algorithm on this curve too
				kx := new(big.Int).SetBytes(kb[:bl])
				if kx.Sign() > 0 && kx.Cmp(cv.Params().N) < 0 {
					x2, y2 := cv.ScalarMult(lp.X, lp.Y, kx.Bytes())
					z := append(x2.FillBytes(make([]byte, bl)), y2.FillBytes(make([]byte, bl))...)
					if mask := sm3m.KDF(z, len(msg)); !bytes.Equal(mask, make([]byte, len(mask))) {
						msg = mask
						c.Hit("probe:legacy-all-zero-c2")
					}
				}
			}
			ct, err := sm2.Encrypt(&sim.ScriptReader{Data: kb, Fill: 1, Step: 0}, &lp.PublicKey, msg, c07Opts(lay))
			c.OutErr("legacy-enc", err)
			if err != nil {
				c.Fail("encrypt-failed", i, op.K, "encryption over %s failed: %v", cv.Params().Name, err)
				return
			}
			c.Out("legacy-ct", ct)
			got, err := c07LibDecrypt(lp, lay, ct)
			if err != nil || !bytes.Equal(got, msg) {
				c.Fail("roundtrip", i, op.K, "%s, layout %d: decrypting what the library encrypted does not return the message: %v", cv.Params().Name, lay, err)
				return
			}
			if lay == 0 || lay == 1 {
				// the ciphertext against GB/T 32918.4 computed with crypto/elliptic and the model SM3: (x2, y2) = [d]C1,
				// t = KDF(x2 || y2), M = C2 xor t, C3 = SM3(x2 || M || y2) with fixed-length coordinates
				if len(ct) == 1+2*bl+32+len(msg) && ct[0] == 4 {
					cx, cy := new(big.Int).SetBytes(ct[1:1+bl]), new(big.Int).SetBytes(ct[1+bl:1+2*bl])
					rest := ct[1+2*bl:]
					c3, c2 := rest[:32], rest[32:]
					if lay == 1 {
						c2, c3 = rest[:len(msg)], rest[len(msg):]
					}
					if cv.IsOnCurve(cx, cy) {
						x2, y2 := cv.ScalarMult(cx, cy, lp.D.Bytes())
						xb, yb := x2.FillBytes(make([]byte, bl)), y2.FillBytes(make([]byte, bl))
						t := sm3m.KDF(append(append([]byte{}, xb...), yb...), len(c2))
						m2 := make([]byte, len(c2))
						for j := range m2 {
							m2[j] = c2[j] ^ t[j]
						}
						u := sm3m.SumParts(xb, m2, yb)
						if !bytes.Equal(m2, msg) || !bytes.Equal(u[:], c3) {
							c.Fail("ciphertext-mismatch", i, op.K, "%s, layout %d: the ciphertext does not decrypt under GB/T 32918.4 computed independently (fixed-length x2 || y2 in the KDF and in C3; x2 has %d bits, y2 %d bits of %d)", cv.Params().Name, lay, x2.BitLen(), y2.BitLen(), 8*bl)
							return
						}
						c.Hit("probe:legacy-ciphertext-checked-against-model")
					}
				}
			}
			if lay == 2 {
				// the layout is recognised by its first byte whatever the options (sm2.Decrypt, Decrypt(nil opts)): only
				// CONSISTENCY between the curves is demanded - what works for an SM2-curve key must work here
				sct, serr := sm2.Encrypt(&sim.ScriptReader{Data: scalarFrom(kb, "auto"), Fill: 9, Step: 5}, &priv.PublicKey, msg, sm2.ASN1EncrypterOpts)
				if serr == nil {
					g1, e1 := sm2.Decrypt(priv, sct)
					g2, e2 := priv.Decrypt(nil, sct, nil)
					h1, f1 := sm2.Decrypt(lp, ct)
					h2, f2 := lp.Decrypt(nil, ct, nil)
					c.OutErr("legacy-auto", f1)
					if (e1 == nil && bytes.Equal(g1, msg) && (f1 != nil || !bytes.Equal(h1, msg))) || (e2 == nil && bytes.Equal(g2, msg) && (f2 != nil || !bytes.Equal(h2, msg))) {
						c.Fail("roundtrip", i, op.K, "%s: an ASN.1 ciphertext decrypted with default options is refused (%v / %v) although the same call works for an SM2-curve key", cv.Params().Name, f1, f2)
						return
					}
				}
			}
			// every truncation must be refused without a panic
			for k := 1; k < len(ct) && k <= 140; k += 1 + k/16 {
				if g, err := c07LibDecrypt(lp, lay, ct[:len(ct)-k]); err == nil && len(g) >= len(msg) {
					c.Fail("invalid-ciphertext-accepted", i, op.K, "%s: a truncated ciphertext decrypts", cv.Params().Name)
					return
				}
			}
			// every sampled byte alteration must be refused (or, for an equivalent re-encoding, return the message)
			stride := 1 + len(ct)/24
			for pos := 0; pos < len(ct); pos += stride {
				m := append([]byte{}, ct...)
				m[pos] ^= 0x20
				if g, err := c07LibDecrypt(lp, lay, m); err == nil && !bytes.Equal(g, msg) {
					c.Fail("invalid-ciphertext-accepted", i, op.K, "%s: an altered ciphertext decrypts to another message", cv.Params().Name)
					return
				}
			}
		case "zeroc2":
			// constructive: the message equals the mask, so C2 is all zero - a legitimate output of the algorithm
			lay := ((op.Int(0) % 5) + 5) % 5
			n := op.Int(1)
			if n < 1 || n > 4096 {
				n = 1
			}
			k := scalar(op.Int(2), "kz")
			msg := sm2m.MaskT(pub, k, n)
			c.Abs("z", lay, sim.LenClass(n, 32))
			c.Hit("probe:c2-all-zero-produced")
			rd := &sim.ScriptReader{Data: k.FillBytes(make([]byte, 32)), Fill: 9, Step: 5}
			ct, err := sm2.Encrypt(rd, &priv.PublicKey, msg, c07Opts(lay))
			if err != nil {
				c.Fail("encrypt-failed", i, op.K, "encryption failed: %v", err)
				return
			}
			record(i, op.K, lay, msg, ct, k)
		case "retry":
			// constructive: the first scripted scalar has an all-zero mask for a 1-byte message, so step A5 returns to A1
			lay := ((op.Int(0) % 5) + 5) % 5
			var k1 *big.Int
			for j := 0; j < 6000; j++ {
				cand := scalar(op.Int(1)+j*7919, "kr")
				x, y := priv.Curve.ScalarMult(priv.X, priv.Y, cand.Bytes())
				z := append(x.FillBytes(make([]byte, 32)), y.FillBytes(make([]byte, 32))...)
				if sm3m.KDF(z, 1)[0] == 0 {
					k1 = cand
					break
				}
			}
			if k1 == nil || sm2m.MaskT(pub, k1, 1)[0] != 0 {
				continue // none found within the budget (or the helper disagrees with the model): nothing to play
			}
			k2 := scalar(op.Int(1), "kr2")
			if sm2m.MaskT(pub, k2, 1)[0] == 0 {
				// the second scripted scalar has an all-zero mask as well (1 in 256): the algorithm legitimately draws a
				// third one; this program is not played
				c.Hit("probe:natural-zero-mask-not-judged")
				continue
			}
			msg := []byte{byte(op.Int(1)) | 1}
			c.Abs("rt", lay)
			c.Hit("probe:a5-retry-branch-taken")
			rd := &sim.ScriptReader{Data: append(k1.FillBytes(make([]byte, 32)), k2.FillBytes(make([]byte, 32))...), Fill: 9, Step: 5}
			ct, err := sm2.Encrypt(rd, &priv.PublicKey, msg, c07Opts(lay))
			if err != nil {
				c.Fail("encrypt-failed", i, op.K, "encryption failed: %v", err)
				return
			}
			if rd.Off != 64 {
				c.Fail("retry-not-taken", i, op.K, "the first scalar has an all-zero mask but %d bytes of randomness were consumed", rd.Off)
				return
			}
			record(i, op.K, lay, msg, ct, k2)
		default:
			if len(cts) == 0 {
				continue
			}
			rec := cts[((op.Int(0)%len(cts))+len(cts))%len(cts)]
			switch op.K {
			case "dec":
				c.Abs("dec", rec.lay)
				deliver(i, "untouched", priv, d, rec.lay, rec.ct, rec.msg)
			case "relay":
				cur, lay := rec.ct, rec.lay
				chain := ""
				sharedOpts := false
				for _, t64 := range op.I[1:] {
					to := ((int(t64) % 5) + 5) % 5
					optsHow := ((int(t64) / 5 % 3) + 3) % 3 // 0: an options object built for the call; 1: the package's ASN1EncrypterOpts (its point format and order are those of layout 0); 2: nil (the default options)
					chain += fmt.Sprint(to)
					var next []byte
					var err error
					from := sm2.C1C3C2
					if lay == 1 || lay == 4 {
						from = sm2.C1C2C3
					}
					switch {
					case to == lay:
						next = cur
					case lay == 2 && to == 0 && optsHow == 1: // ASN.1 -> plain with the package-level options object that EncryptASN1 uses too
						next, err = sm2.ASN1Ciphertext2Plain(cur, sm2.ASN1EncrypterOpts)
						sharedOpts = true
					case lay == 2 && to == 0 && optsHow == 2:
						next, err = sm2.ASN1Ciphertext2Plain(cur, nil)
						sharedOpts = true
					case lay == 2: // ASN.1 -> plain
						next, err = sm2.ASN1Ciphertext2Plain(cur, c07Opts(to))
					case to == 2: // plain -> ASN.1
						next, err = sm2.PlainCiphertext2ASN1(cur, from)
					default: // plain -> plain: only the splicing order can change; the point form is kept
						toOrder := sm2.C1C3C2
						if to == 1 || to == 4 {
							toOrder = sm2.C1C2C3
						}
						next, err = sm2.AdjustCiphertextSplicingOrder(cur, from, toOrder)
						// the converter keeps the C1 form of its input
						comp := lay == 3 || lay == 4
						switch {
						case toOrder == sm2.C1C3C2 && comp:
							to = 3
						case toOrder == sm2.C1C3C2:
							to = 0
						case comp:
							to = 4
						default:
							to = 1
						}
					}
					if err != nil {
						c.Fail("converter-failed", i, op.K, "layout converter %d -> %d failed on a valid ciphertext: %v", lay, to, err)
						return
					}
					want := c07Marshal(to, rec.c1, rec.c2, rec.c3)
					if !bytes.Equal(next, want) {
						c.Fail("converter-mismatch", i, op.K, "layout converter %d -> %d produced bytes that are not the target layout of the same (C1, C2, C3)", lay, to)
						return
					}
					cur, lay = next, to
				}
				c.Abs("relay", rec.lay, chain, sharedOpts)
				c.Hit("probe:relay-chain")
				if sharedOpts {
					// the converter was handed an options object that other calls use as well: they must not notice
					c.Hit("probe:converter-with-package-level-options")
					kb := scalarFrom(append([]byte{byte(i)}, rec.ct...), "after-relay")
					a1, e1 := sm2.EncryptASN1(&sim.ScriptReader{Data: kb, Fill: 3, Step: 5}, &priv.PublicKey, []byte("after the relay"))
					p1, e2 := sm2.Encrypt(&sim.ScriptReader{Data: kb, Fill: 3, Step: 5}, &priv.PublicKey, []byte("after the relay"), nil)
					if e1 != nil || e2 != nil {
						c.Fail("encrypt-failed", i, op.K, "encryption after a relay failed: %v %v", e1, e2)
						return
					}
					if _, _, _, ok := sm2m.ParseCipherASN1(a1); !ok {
						c.Fail("ciphertext-mismatch", i, op.K, "after ASN1Ciphertext2Plain was called with the package-level options, EncryptASN1 no longer produces the ASN.1 layout: %x...", a1[:8])
						return
					}
					if _, _, _, ok := sm2m.ParseRawCipher(p1, true); !ok || len(p1) != 1+64+32+len("after the relay") {
						c.Fail("ciphertext-mismatch", i, op.K, "after a converter was called with nil options, Encrypt with default options no longer produces the plain C1C3C2 layout")
						return
					}
				}
				deliver(i, "relayed", priv, d, lay, cur, rec.msg)
			case "subst":
				m := append([]byte{}, rec.ct...)
				pos := op.Int(1) % len(m)
				if pos < 0 {
					pos = -pos
				}
				x := byte(op.Int(2))
				if x == 0 {
					x = 1
				}
				m[pos] ^= x
				c.Abs("sub", rec.lay, pos < 70)
				deliver(i, "byte-altered", priv, d, rec.lay, m, rec.msg)
			case "allbytes":
				x := byte(op.Int(1))
				if x == 0 {
					x = 1
				}
				c.Abs("all", rec.lay)
				stride := 1
				if len(rec.ct) > 260 {
					stride = (len(rec.ct) + 259) / 260
				}
				for pos := 0; pos < len(rec.ct) && !c.Failed(); pos += stride {
					m := append([]byte{}, rec.ct...)
					m[pos] ^= x
					deliver(i, "every-byte-position", priv, d, rec.lay, m, rec.msg)
				}
				c.HitN("fault:exhaustive-byte-positions", (len(rec.ct)+stride-1)/stride)
			case "trunc":
				k := op.Int(1)
				if k < 1 {
					k = 1
				}
				if k >= len(rec.ct) {
					k = len(rec.ct) - 1
				}
				c.Abs("tr", rec.lay)
				deliver(i, "truncated", priv, d, rec.lay, rec.ct[:len(rec.ct)-k], rec.msg)
			case "rekey":
				// ONE key object that decrypted with another key first and was then given this run's key through the
				// exported FromECPrivateKey: from then on it is this run's key, for the right and for the wrong ciphertexts
				c.Abs("rekey", rec.lay)
				c.Hit("probe:key-object-rekeyed")
				obj := new(sm2.PrivateKey)
				if _, err := obj.FromECPrivateKey(&other.PrivateKey); err != nil {
					c.Fail("setup", i, op.K, "FromECPrivateKey: %v", err)
					return
				}
				oct, err := sm2.Encrypt(&sim.ScriptReader{Data: scalar(op.Int(1), "rekey k").FillBytes(make([]byte, 32)), Fill: 9, Step: 5}, &other.PublicKey, rec.msg, c07Opts(rec.lay))
				if err != nil {
					c.Fail("encrypt-failed", i, op.K, "%v", err)
					return
				}
				if got, err := c07LibDecrypt(obj, rec.lay, oct); err != nil || !bytes.Equal(got, rec.msg) {
					if _, _, _, ok := sm2m.EncryptWithK(sm2m.Point{X: other.X, Y: other.Y}, scalar(op.Int(1), "rekey k"), rec.msg); ok {
						c.Fail("valid-ciphertext-refused", i, op.K, "the object does not decrypt for its first key: %v", err)
						return
					}
				}
				if _, err := obj.FromECPrivateKey(&priv.PrivateKey); err != nil {
					c.Fail("setup", i, op.K, "FromECPrivateKey (second key): %v", err)
					return
				}
				deliver(i, "rekeyed-object", obj, d, rec.lay, rec.ct, rec.msg)
				if !c.Failed() {
					// the ciphertext for the FIRST key is now a wrong-key delivery
					deliver(i, "rekeyed-object-old-ciphertext", obj, d, rec.lay, oct, nil)
				}
			case "extend":
				// bytes appended behind a valid ciphertext: no layout has room for them (ASN.1: trailing data; plain: C2
				// grows and C3 no longer fits), so neither decryption nor a converter-then-decryption chain may return a message
				k := op.Int(1)
				if k < 1 || k > 64 {
					k = 1
				}
				ext := append(append([]byte{}, rec.ct...), fitKey(op.Bytes(0), k)...)
				c.Abs("ext", rec.lay, k)
				c.Hit("fault:extended")
				deliver(i, "extended", priv, d, rec.lay, ext, nil)
				if !c.Failed() && rec.lay == 2 {
					if plain, err := sm2.ASN1Ciphertext2Plain(ext, nil); err == nil {
						if got, err := sm2.Decrypt(priv, plain); err == nil {
							c.Fail("invalid-ciphertext-accepted", i, op.K, "ASN1Ciphertext2Plain turns an ASN.1 ciphertext with %d trailing bytes into a plain ciphertext that decrypts (%d bytes)", k, len(got))
						}
					}
				}
			case "c1":
				if (rec.lay == 0 || rec.lay == 1) && len(rec.ct) > 65 && rec.ct[0] == 4 && op.Int(2)&1 == 1 {
					// the hybrid point form 06 / 07 || x || y names the parity of y in its first octet (GB/T 32918.1 4.2.9): with the
					// WRONG parity the octet string is not a point encoding under any reading, and the ciphertext must be refused
					// (an implementation that does not support the hybrid form refuses both; the right parity is not judged)
					m := append([]byte{}, rec.ct...)
					m[0] = 6 + (1 - rec.ct[64]&1)
					c.Hit("fault:c1-hybrid-form-with-wrong-parity")
					if got, err := c07LibDecrypt(priv, rec.lay, m); err == nil {
						c.Fail("invalid-ciphertext-accepted", i, op.K, "a ciphertext whose C1 is in the hybrid form %02x with the wrong parity of y decrypts (%d bytes returned)", m[0], len(got))
						return
					}
				}
				if op.Int(1)&7 >= 4 {
					// the ASN.1 layout with the INTEGER of x1 (or y1, or both) replaced by its NEGATION in DER (two's complement):
					// a structurally valid element, consistent lengths, a coordinate outside [0, p-1]
					tr := sim.ParseAllTLV(c07Marshal(2, rec.c1, rec.c2, rec.c3))
					if tr == nil || len(tr.Children) != 4 {
						continue
					}
					which := op.Int(1)&7 - 3 // 1: x, 2: y, 3: both, 4: x again
					neg := func(t *sim.TLV) {
						v := new(big.Int).SetBytes(t.Content)
						if v.Sign() == 0 {
							return
						}
						// minimal two's complement of -v
						n := (v.BitLen() + 8) / 8 // room for the sign bit
						tw := new(big.Int).Sub(new(big.Int).Lsh(big.NewInt(1), uint(8*n)), v)
						b := tw.FillBytes(make([]byte, n))
						for len(b) > 1 && b[0] == 0xff && b[1]&0x80 != 0 {
							b = b[1:]
						}
						t.Content = b
					}
					if which&1 == 1 || which == 4 {
						neg(tr.Children[0])
					}
					if which&2 == 2 {
						neg(tr.Children[1])
					}
					m := tr.Encode()
					c.Abs("c1neg", which)
					c.Hit("fault:c1-coordinate-negated")
					deliver(i, fmt.Sprintf("c1-negated-%d", which), priv, d, 2, m, rec.msg)
					if !c.Failed() {
						if plain, err := sm2.ASN1Ciphertext2Plain(m, nil); err == nil {
							c.Fail("invalid-ciphertext-accepted", i, op.K, "ASN1Ciphertext2Plain converts an ASN.1 ciphertext with a NEGATIVE C1 coordinate into a plain ciphertext (%d bytes)", len(plain))
						}
					}
					continue
				}
				kind := op.Int(1) & 3
				var c1 sm2m.Point
				var m []byte
				switch kind {
				case 0: // off-curve: y+1
					c1 = sm2m.Point{X: rec.c1.X, Y: new(big.Int).Add(rec.c1.Y, big.NewInt(1))}
					if c1.Y.Cmp(sm2m.P) >= 0 {
						c1.Y.SetInt64(1)
					}
				case 1: // coordinates 0,0 ("infinity" in the affine encoding)
					c1 = sm2m.Point{X: new(big.Int), Y: new(big.Int)}
				case 2: // x >= p
					c1 = sm2m.Point{X: new(big.Int).Add(rec.c1.X, sm2m.P), Y: rec.c1.Y}
				default: // the C1 of another ciphertext
					o := cts[((op.Int(2)%len(cts))+len(cts))%len(cts)]
					c1 = o.c1
				}
				lay := rec.lay
				if lay >= 3 {
					lay -= 3 // substitute in the uncompressed layouts
				}
				if kind == 2 && lay != 2 {
					// x >= p does not fit 32 bytes: only expressible in the ASN.1 layout
					lay = 2
				}
				func() {
					defer func() {
						if recover() != nil {
							m = nil
						}
					}()
					m = c07Marshal(lay, c1, rec.c2, rec.c3)
				}()
				if m == nil {
					continue
				}
				c.Abs("c1", lay, kind)
				c.Hit("fault:c1-substituted")
				deliver(i, fmt.Sprintf("c1-substituted-%d", kind), priv, d, lay, m, rec.msg)
			case "wrongkey":
				c.Abs("wk", rec.lay)
				c.Hit("fault:wrong-recipient")
				deliver(i, "wrong-private-key", other, new(big.Int).Set(other.D), rec.lay, rec.ct, nil)
			}
		}
	}
}
