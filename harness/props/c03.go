package props

import (
	"bytes"
	"crypto/cipher"
	"fmt"
	"testing"

	gcipher "github.com/emmansun/gmsm/cipher"
	"github.com/emmansun/gmsm/sm4"

	"verif/harness/model/modes"
	"verif/harness/model/sm4m"
	"verif/harness/sim"
)

// C03: one mode object per run over SM4; the run's message reaches it through
// a sequence of calls whose sizes the simulator decides; every call's output is
// compared with the textbook model at the same stream position; buffers carry
// canaries or sit flush against guard pages.

func init() {
	selfTests("C03", sm4m.SelfTest, modes.SelfTest)
	register(&Prop{
		ID:        "C03",
		Level:     "exploration",
		Nodes:     func(tier string) []string { return []string{"avx2", "avx", "sse", "noaes", "aesni1", "purego"} },
		Cross:     true,
		Gen:       genC03,
		Exec:      execC03,
		QuickSecs: 30, ThoroughSecs: 900, RunsPerJob: 400,
		Rule: "a run fixes (mode in ECB/CBC/CFB/OFB/CTR/XTS/GB-XTS/BC/OFBNLF/HCTR, direction, code path in {real sm4 block: fused asm where present, Block-only wrapper: generic composition, Block+batch wrapper: batched Go paths}, key, IV/tweak with carry-biased counters, sector form) and plays a history of CryptBlocks/XORKeyStream/EncryptBytes calls partitioning one message (plus SetIV re-synchronisation, XTS block-aligned continuation calls followed by a unit with a partial tail, HCTR per-call messages), each with a buffer placement knob (disjoint, in place, dst larger, guard page after / before, unaligned); a final one-call decryption of everything encrypted checks inversion; " +
			"abstract history = (mode, direction, path, iv class) + sequence of (length class mod 16/64/128, knob); non-trivial = at least 2 calls or a partial XTS/HCTR tail; distinct = distinct abstract histories",
		Real:  []string{"cipher (ECB, XTS front-ends, BC, OFBNLF, HCTR)", "internal/cipher/xts", "internal/sm4 (fused CBC/ECB/CTR/XTS asm per node; generic in purego)", "Go crypto/cipher CBC/CFB/OFB/CTR over the sm4 block (picks the library's fast paths through the upgrade interfaces)"},
		Stubs: []string{"caller-chosen call partition (simulated pipe)", "guard-page / canary buffers"},
		Assume: []string{"models (harness/model/modes over harness/model/sm4m) anchored on SP 800-38A, IEEE 1619 and GB/T 17964 vectors at worker start-up",
			"known finding hctr-tweak-split is recognised by exact equality with the model carrying precisely that deviation"},
	})
}

var c03Modes = []string{"ecb", "cbc", "cfb", "ofb", "ctr", "xts", "gbxts", "bc", "ofbnlf", "hctr"}

// plainBlock exposes only cipher.Block: constructors fall back to generic composition.
type plainBlock struct{ b cipher.Block }

func (p plainBlock) BlockSize() int          { return p.b.BlockSize() }
func (p plainBlock) Encrypt(dst, src []byte) { p.b.Encrypt(dst, src) }
func (p plainBlock) Decrypt(dst, src []byte) { p.b.Decrypt(dst, src) }

// batchBlock exposes Block plus the batch interface the Go XTS/HCTR code uses
// on other architectures. The contract (see sm4CipherAsm.EncryptBlocks) is:
// exactly Concurrency() blocks are processed, whatever the slice lengths.
// When the wrapped block offers the interface itself it is forwarded (real
// batch assembly); otherwise it is emulated block by block.
type batchBlock struct {
	plainBlock
	n int
}

type batcher interface {
	Concurrency() int
	EncryptBlocks(dst, src []byte)
	DecryptBlocks(dst, src []byte)
}

func (p batchBlock) Concurrency() int {
	if bb, ok := p.b.(batcher); ok {
		return bb.Concurrency()
	}
	return p.n
}
func (p batchBlock) EncryptBlocks(dst, src []byte) {
	if bb, ok := p.b.(batcher); ok {
		n := 16 * bb.Concurrency()
		bb.EncryptBlocks(dst[:n], src[:n]) // exactly one batch (the amd64 assembly sizes its work from len(src))
		return
	}
	for i := 0; i < p.n; i++ {
		p.b.Encrypt(dst[16*i:], src[16*i:])
	}
}
func (p batchBlock) DecryptBlocks(dst, src []byte) {
	if bb, ok := p.b.(batcher); ok {
		n := 16 * bb.Concurrency()
		bb.DecryptBlocks(dst[:n], src[:n])
		return
	}
	for i := 0; i < p.n; i++ {
		p.b.Decrypt(dst[16*i:], src[16*i:])
	}
}

func c03Creator(path, conc int) func(key []byte) (cipher.Block, error) {
	return func(key []byte) (cipher.Block, error) {
		b, err := sm4.NewCipher(key)
		if err != nil {
			return nil, err
		}
		switch path {
		case 1:
			return plainBlock{b}, nil
		case 2:
			return batchBlock{plainBlock{b}, conc}, nil
		}
		return b, nil
	}
}

func genC03(r *sim.Rand, tier string) *sim.Program {
	p := &sim.Program{Prop: "C03"}
	mode := r.Weighted(2, 3, 2, 2, 4, 5, 5, 2, 2, 4)
	p.SetC("mode", mode)
	p.SetC("dir", r.Intn(2))
	p.SetC("path", r.Weighted(3, 1, 1))
	p.SetC("conc", r.PickInt(4, 8, 2, 1))
	p.SetCB("key", r.Bytes(16))
	p.SetCB("key2", r.Bytes(16))
	iv := r.Bytes(16)
	switch r.Intn(5) {
	case 0: // carry across 32 bits soon
		copy(iv[12:], []byte{0xff, 0xff, 0xff, byte(0xff - r.Intn(20))})
	case 1: // carry across 64 bits
		copy(iv[8:], []byte{0xff, 0xff, 0xff, 0xff, 0xff, 0xff, 0xff, byte(0xff - r.Intn(20))})
	case 2: // carry across 128 bits
		for i := range iv {
			iv[i] = 0xff
		}
		iv[15] = byte(0xff - r.Intn(20))
	}
	p.SetCB("iv", iv)
	p.SetCB("hkey", r.Bytes(16))
	if r.Chance(1, 3) {
		p.SetC("sector", 1+r.Intn(1<<20))
	}
	m := c03Modes[mode]
	big := r.Chance(1, 40)
	knob := func() int { return r.Weighted(6, 4, 2, 3, 1, 2) }
	blockLen := func() int {
		n := 16 * r.Near(40, 0, 1, 2, 3, 4, 5, 7, 8, 9, 15, 16, 17, 31, 32, 33)
		if big && r.Chance(1, 3) {
			n = 16 * r.Range(64, 4200)
		}
		return n
	}
	anyLen := func() int {
		n := r.Near(640, 0, 1, 15, 16, 17, 31, 32, 63, 64, 65, 127, 128, 129, 255, 256, 257, 511, 512, 513)
		if big && r.Chance(1, 3) {
			n = r.Range(1024, 70000)
		}
		return n
	}
	unitLen := func() int { // XTS / HCTR message: >= 16, every tail after 0..40 full blocks
		full := r.Near(40, 1, 2, 3, 4, 5, 7, 8, 9, 15, 16, 17, 31, 32, 33)
		if full < 1 {
			full = 1
		}
		tail := 0
		if r.Chance(3, 4) {
			tail = r.Intn(16)
		}
		n := 16*full + tail
		if big && r.Chance(1, 4) {
			n = 16*r.Range(64, 4200) + tail
		}
		return n
	}
	ncalls := r.Range(1, 8)
	switch m {
	case "ecb", "cbc", "bc", "ofbnlf":
		for i := 0; i < ncalls; i++ {
			if i > 0 && m != "ecb" && r.Chance(1, 8) {
				p.Add("setiv").WithB(r.Bytes(16))
			}
			p.Add("crypt", blockLen(), knob(), r.Intn(256))
		}
	case "cfb", "ofb", "ctr":
		for i := 0; i < ncalls; i++ {
			p.Add("crypt", anyLen(), knob(), r.Intn(256))
		}
	case "xts", "gbxts":
		if r.Chance(1, 2) {
			ncalls = 1
		}
		for i := 0; i < ncalls-1; i++ {
			n := blockLen()
			if n == 0 {
				n = 16
			}
			p.Add("crypt", n, knob(), r.Intn(256))
		}
		p.Add("crypt", unitLen(), knob(), r.Intn(256))
	case "hctr":
		for i := 0; i < ncalls; i++ {
			p.Add("crypt", unitLen(), knob(), r.Intn(256))
		}
	}
	p.SetC("sib", r.PickInt(0, 0, 0, 1, 2, 3, 4))
	return p
}

type c03Seg struct { // a maximal stretch of calls under one IV
	iv  []byte
	in  []byte
	out []byte
}

func execC03(t *testing.T, p *sim.Program, c *sim.Ctx) {
	mode := c03Modes[((p.C("mode")%10)+10)%10]
	dec := p.C("dir")&1 == 1
	path := ((p.C("path") % 3) + 3) % 3
	conc := p.C("conc")
	if conc < 1 || conc > 64 {
		conc = 4
	}
	key, key2, iv, hkey := fitKey(p.CB("key"), 16), fitKey(p.CB("key2"), 16), fitKey(p.CB("iv"), 16), fitKey(p.CB("hkey"), 16)
	sector := p.C("sector")
	if sector < 0 {
		sector = 0
	}
	if (mode == "xts" || mode == "gbxts") && sector > 0 {
		iv = modes.SectorTweak(uint64(sector))
	}
	creator := c03Creator(path, conc)
	mb, _ := sm4m.NewCipher(key)
	mb2, _ := sm4m.NewCipher(key2)
	lb, err := creator(key)
	if err != nil {
		c.Fail("setup", -1, "setup", "%v", err)
		return
	}
	ivc := "rnd"
	if iv[15] >= 0xeb && iv[14] == 0xff {
		ivc = "carry"
	}
	c.Abs(mode, dec, path, ivc, sector > 0)
	ncrypt := 0
	for _, op := range p.Ops {
		if op.K == "crypt" {
			ncrypt++
		}
	}
	if ncrypt >= 2 {
		c.Nontriv = true
	}

	// build the library object
	var bm cipher.BlockMode
	var st cipher.Stream
	var lp gcipher.LengthPreservingMode
	newObj := func(dec bool) error {
		var err error
		switch mode {
		case "ecb":
			if dec {
				bm = gcipher.NewECBDecrypter(lb)
			} else {
				bm = gcipher.NewECBEncrypter(lb)
			}
		case "cbc":
			if dec {
				bm = cipher.NewCBCDecrypter(lb, iv)
			} else {
				bm = cipher.NewCBCEncrypter(lb, iv)
			}
		case "cfb":
			if dec {
				st = cipher.NewCFBDecrypter(lb, iv)
			} else {
				st = cipher.NewCFBEncrypter(lb, iv)
			}
		case "ofb":
			st = cipher.NewOFB(lb, iv)
		case "ctr":
			st = cipher.NewCTR(lb, iv)
		case "xts", "gbxts":
			gb := mode == "gbxts"
			switch {
			case sector > 0 && !gb && !dec:
				bm, err = gcipher.NewXTSEncrypterWithSector(creator, key, key2, uint64(sector))
			case sector > 0 && !gb && dec:
				bm, err = gcipher.NewXTSDecrypterWithSector(creator, key, key2, uint64(sector))
			case sector > 0 && gb && !dec:
				bm, err = gcipher.NewGBXTSEncrypterWithSector(creator, key, key2, uint64(sector))
			case sector > 0 && gb && dec:
				bm, err = gcipher.NewGBXTSDecrypterWithSector(creator, key, key2, uint64(sector))
			case !gb && !dec:
				bm, err = gcipher.NewXTSEncrypter(creator, key, key2, iv)
			case !gb && dec:
				bm, err = gcipher.NewXTSDecrypter(creator, key, key2, iv)
			case gb && !dec:
				bm, err = gcipher.NewGBXTSEncrypter(creator, key, key2, iv)
			default:
				bm, err = gcipher.NewGBXTSDecrypter(creator, key, key2, iv)
			}
		case "bc":
			if dec {
				bm = gcipher.NewBCDecrypter(lb, iv)
			} else {
				bm = gcipher.NewBCEncrypter(lb, iv)
			}
		case "ofbnlf":
			if dec {
				bm, err = gcipher.NewOFBNLFDecrypter(creator, key, iv)
			} else {
				bm, err = gcipher.NewOFBNLFEncrypter(creator, key, iv)
			}
		case "hctr":
			lp, err = gcipher.NewHCTR(lb, iv, hkey)
		}
		return err
	}
	if err := newObj(dec); err != nil {
		c.Fail("setup", -1, "setup", "constructor: %v", err)
		return
	}

	// the model of one segment (whole message under one IV)
	model := func(dec bool, iv, in []byte) []byte {
		switch mode {
		case "ecb":
			if dec {
				return modes.ECBDecrypt(mb, in)
			}
			return modes.ECBEncrypt(mb, in)
		case "cbc":
			if dec {
				return modes.CBCDecrypt(mb, iv, in)
			}
			return modes.CBCEncrypt(mb, iv, in)
		case "cfb":
			if dec {
				return modes.CFBDecrypt(mb, iv, in)
			}
			return modes.CFBEncrypt(mb, iv, in)
		case "ofb":
			return modes.OFB(mb, iv, in)
		case "ctr":
			return modes.CTR(mb, iv, in)
		case "xts", "gbxts":
			if len(in) < 16 {
				return nil
			}
			if dec {
				return modes.XTSDecrypt(mb, mb2, iv, in, mode == "gbxts")
			}
			return modes.XTSEncrypt(mb, mb2, iv, in, mode == "gbxts")
		case "bc":
			if dec {
				return modes.BCDecrypt(mb, iv, in)
			}
			return modes.BCEncrypt(mb, iv, in)
		case "ofbnlf":
			var o []byte
			if dec {
				o, _ = modes.OFBNLFDecrypt(sm4m.NewCipher, key, iv, in)
			} else {
				o, _ = modes.OFBNLFEncrypt(sm4m.NewCipher, key, iv, in)
			}
			return o
		}
		return nil
	}

	// one library call with buffer knobs; returns the output bytes
	call := func(i int, kind string, in []byte, knob int, f func(dst, src []byte)) []byte {
		n := len(in)
		var dst, src []byte
		var cn, cs *sim.Canary
		var g1, g2 *sim.Guarded
		extra := 0
		switch knob {
		case 1: // in place
			cn = sim.NewCanary(n, 32, 32, 0x9d)
			copy(cn.Buf, in)
			dst, src = cn.Buf, cn.Buf
		case 2: // guard page directly behind src and dst
			g1, g2 = sim.GuardEnd(n), sim.GuardEnd(n)
			copy(g1.Buf, in)
			src, dst = g1.Buf, g2.Buf
			c.Hit("probe:guard-page-after")
		case 3: // dst larger than src
			extra = 1 + n%29
			cn = sim.NewCanary(n+extra, 32, 32, 0x9d)
			dst = cn.Buf
			for j := range dst {
				dst[j] = 0x9d
			}
			cs = sim.NewCanary(n, 32, 32, 0x4e)
			copy(cs.Buf, in)
			src = cs.Buf
		case 4: // guard page directly before src and dst
			g1, g2 = sim.GuardStart(n), sim.GuardStart(n)
			copy(g1.Buf, in)
			src, dst = g1.Buf, g2.Buf
			c.Hit("probe:guard-page-before")
		case 5: // unaligned
			cn = sim.NewCanary(n, 33+n%7, 32, 0x9d)
			dst = cn.Buf
			cs = sim.NewCanary(n, 35+n%5, 32, 0x4e)
			copy(cs.Buf, in)
			src = cs.Buf
		default:
			cn = sim.NewCanary(n, 32, 32, 0x9d)
			dst = cn.Buf
			cs = sim.NewCanary(n, 32, 32, 0x4e)
			copy(cs.Buf, in)
			src = cs.Buf
		}
		f(dst, src)
		out := append([]byte{}, dst[:n]...)
		if cn != nil {
			if ok, o := cn.Intact(n + extra); !ok {
				c.Fail("out-of-slice-write", i, kind, "%s: write outside dst at offset %d (len %d)", mode, o, n)
			}
			for j := n; j < n+extra; j++ {
				if dst[j] != 0x9d {
					c.Fail("out-of-slice-write", i, kind, "%s: dst[%d] beyond len(src)=%d was modified", mode, j, n)
					break
				}
			}
		}
		if cs != nil {
			if ok, o := cs.Intact(n); !ok {
				c.Fail("out-of-slice-write", i, kind, "%s: write around src at offset %d", mode, o)
			}
			if !bytes.Equal(cs.Buf, in) {
				c.Fail("source-modified", i, kind, "%s: the source buffer was modified", mode)
			}
		}
		if g1 != nil {
			if knob != 1 && !bytes.Equal(g1.Buf, in) {
				c.Fail("source-modified", i, kind, "%s: the source buffer was modified", mode)
			}
			g1.Free()
			g2.Free()
		}
		return out
	}

	var segs []*c03Seg
	cur := &c03Seg{iv: iv}
	segs = append(segs, cur)
	checked := 0 // bytes of cur.out already compared with the model
	ended := false
	for i, op := range p.Ops {
		if c.Failed() {
			return
		}
		if sib := p.C("sib"); sib > 0 && op.K == "crypt" {
			// other mode objects are made from the SAME block value in the middle of this object's stream and used: this
			// object must not notice (every mode object owns its chaining state; the block value only holds round keys)
			siv := fitKey(append([]byte{byte(i), byte(sib)}, p.CB("iv")...), 16)
			tmp := make([]byte, 96)
			for j := range tmp {
				tmp[j] = byte(j*7 + i)
			}
			switch (sib + i) % 5 {
			case 0:
				cipher.NewCBCEncrypter(lb, siv).CryptBlocks(tmp, tmp)
			case 1:
				cipher.NewCBCDecrypter(lb, siv).CryptBlocks(tmp, tmp)
			case 2:
				cipher.NewCTR(lb, siv).XORKeyStream(tmp, tmp[:77])
			case 3:
				gcipher.NewECBEncrypter(lb).CryptBlocks(tmp, tmp)
			default:
				if a, err := cipher.NewGCM(lb); err == nil {
					a.Seal(nil, siv[:12], tmp[:33], nil)
				}
			}
			c.Hit("probe:sibling-mode-object-from-same-block")
		}
		switch op.K {
		case "setiv":
			s, ok := bm.(interface{ SetIV([]byte) })
			if !ok || bm == nil {
				continue
			}
			c.OpsDone++
			niv := fitKey(op.Bytes(0), 16)
			c.Abs("setiv")
			c.Hit("probe:setiv")
			s.SetIV(niv)
			cur = &c03Seg{iv: niv}
			segs = append(segs, cur)
			checked = 0
		case "crypt":
			n, knob, pat := op.Int(0), op.Int(1), byte(op.Int(2))
			if n < 0 {
				n = 0
			}
			if n > 1<<21 {
				n = 1 << 21
			}
			if knob < 0 || knob > 5 {
				knob = 0
			}
			in := make([]byte, n)
			for j := range in {
				in[j] = pat + byte(j)*17 + byte(j>>8)*3
			}
			switch mode {
			case "ecb", "cbc", "bc", "ofbnlf":
				n = n / 16 * 16
				in = in[:n]
			case "xts", "gbxts":
				if ended || n < 16 {
					continue // nothing may follow a unit that ended with a partial block
				}
				if n%16 != 0 {
					ended = true
					c.Hit("probe:xts-partial-tail")
					c.Nontriv = true
				}
			case "hctr":
				if n < 16 {
					continue
				}
			}
			c.OpsDone++
			c.Abs("c", sim.LenClass(n, 16), n/64%2, n/128%2, sim.LenClass(n, 128), knob)
			if mode == "hctr" {
				out := call(i, op.K, in, knob, func(dst, src []byte) {
					if dec {
						lp.DecryptBytes(dst, src)
					} else {
						lp.EncryptBytes(dst, src)
					}
				})
				c.Out("hctr", out)
				var want []byte
				if dec {
					want = modes.HCTRDecrypt(mb, iv, hkey, in)
				} else {
					want = modes.HCTREncrypt(mb, iv, hkey, in)
				}
				if n%16 != 0 {
					c.Nontriv = true
				}
				if !bytes.Equal(out, want) {
					r := (n - 16) % 16
					var d []byte
					if dec {
						d = modes.HCTRDefectDecrypt(mb, iv, hkey, in)
					} else {
						d = modes.HCTRDefectEncrypt(mb, iv, hkey, in)
					}
					if r != 0 && r != 8 && bytes.Equal(out, d) {
						c.KnownOrFail("hctr-tweak-split", "mode-mismatch", i, op.K, "hctr dec=%v len %d ((len-16) mod 16 = %d): output equals the variant that absorbs the tweak from offset len instead of 16-len", dec, n, r)
					} else {
						c.Fail("mode-mismatch", i, op.K, "hctr dec=%v path %d len %d: output differs from the model at byte %d", dec, path, n, firstDiff(out, want))
					}
				}
				if !dec && !c.Failed() {
					// inversion, on a second object
					back := make([]byte, n)
					lp.DecryptBytes(back, out)
					if !bytes.Equal(back, in) {
						c.Fail("roundtrip", i, op.K, "hctr len %d: decrypt(encrypt(m)) != m", n)
					}
				}
				continue
			}
			out := call(i, op.K, in, knob, func(dst, src []byte) {
				if st != nil {
					st.XORKeyStream(dst, src)
				} else {
					bm.CryptBlocks(dst, src)
				}
			})
			c.Out(mode, out)
			cur.in = append(cur.in, in...)
			cur.out = append(cur.out, out...)
			want := model(dec, cur.iv, cur.in)
			if len(want) != len(cur.out) || !bytes.Equal(want[checked:], cur.out[checked:]) {
				d := firstDiff(cur.out, want)
				c.Fail("mode-mismatch", i, op.K, "%s dec=%v path %d: call of %d bytes at stream position %d: output differs from the model at stream byte %d", mode, dec, path, n, checked, d)
			}
			checked = len(cur.out)
		}
	}
	// inversion: everything that was encrypted is decrypted by a fresh object in ONE call per segment
	if !dec && !c.Failed() && mode != "hctr" {
		for si, s := range segs {
			if len(s.out) == 0 || ((mode == "xts" || mode == "gbxts") && len(s.out) < 16) {
				continue
			}
			iv = s.iv
			if err := newObj(true); err != nil {
				c.Fail("setup", len(p.Ops)-1, "roundtrip", "decrypter: %v", err)
				return
			}
			if (mode == "xts" || mode == "gbxts") && sector > 0 && si > 0 {
				continue
			}
			back := make([]byte, len(s.out))
			if st != nil {
				st.XORKeyStream(back, s.out)
			} else {
				bm.CryptBlocks(back, s.out)
			}
			c.Out("roundtrip", back)
			if !bytes.Equal(back, s.in) {
				c.Fail("roundtrip", len(p.Ops)-1, "roundtrip", "%s path %d: one-call decryption of %d encrypted bytes differs from the plaintext at byte %d", mode, path, len(s.out), firstDiff(back, s.in))
				return
			}
		}
	}
}

func firstDiff(a, b []byte) int {
	i := 0
	for i < len(a) && i < len(b) && a[i] == b[i] {
		i++
	}
	return i
}

var _ = fmt.Sprint
