package props

import (
	"bytes"
	"crypto"
	"crypto/ecdsa"
	"crypto/rand"
	"crypto/rsa"
	"crypto/sha1"
	"crypto/sha256"
	"crypto/sha512"
	"encoding/asn1"
	"io"
	"math/big"
	"runtime/debug"
	"testing"
	"testing/synctest"
	"time"

	"github.com/emmansun/gmsm/cfca"
	"github.com/emmansun/gmsm/pkcs"
	"github.com/emmansun/gmsm/pkcs7"
	"github.com/emmansun/gmsm/sm2"
	"github.com/emmansun/gmsm/smx509"
	"github.com/emmansun/gmsm/verifhook"

	"verif/harness/model/sm2m"
	"verif/harness/model/sm3m"
	"verif/harness/sim"
)

var c16Ciphers = []struct {
	name  string
	c     pkcs.Cipher
	gcm   bool
	block int
}{
	{"sm4cbc", pkcs.SM4CBC, false, 16}, {"sm4gcm", pkcs.SM4GCM, true, 16}, {"sm4ecb", pkcs.SM4ECB, false, 16}, {"sm4", pkcs.SM4, false, 16},
	{"des", pkcs.DESCBC, false, 8}, {"3des", pkcs.TripleDESCBC, false, 8},
	{"aes128cbc", pkcs.AES128CBC, false, 16}, {"aes192cbc", pkcs.AES192CBC, false, 16}, {"aes256cbc", pkcs.AES256CBC, false, 16},
	{"aes128gcm", pkcs.AES128GCM, true, 16}, {"aes192gcm", pkcs.AES192GCM, true, 16}, {"aes256gcm", pkcs.AES256GCM, true, 16},
}

var c16DigestOID = []asn1.ObjectIdentifier{pkcs7.OIDDigestAlgorithmSHA1, pkcs7.OIDDigestAlgorithmSHA256, pkcs7.OIDDigestAlgorithmSHA384, pkcs7.OIDDigestAlgorithmSHA512, pkcs7.OIDDigestAlgorithmSM3}
var c16CryptoHash = []crypto.Hash{crypto.SHA1, crypto.SHA256, crypto.SHA384, crypto.SHA512, 0}

func c16Hash(alg int, parts ...[]byte) []byte {
	switch alg {
	case 0:
		h := sha1.New()
		for _, p := range parts {
			h.Write(p)
		}
		return h.Sum(nil)
	case 1:
		h := sha256.New()
		for _, p := range parts {
			h.Write(p)
		}
		return h.Sum(nil)
	case 2:
		h := sha512.New384()
		for _, p := range parts {
			h.Write(p)
		}
		return h.Sum(nil)
	case 3:
		h := sha512.New()
		for _, p := range parts {
			h.Write(p)
		}
		return h.Sum(nil)
	default:
		d := sm3m.SumParts(parts...)
		return d[:]
	}
}

func c16Mod(x, n int) int {
	if n <= 0 {
		return 0
	}
	return ((x % n) + n) % n
}

// c16Rec is one honest signature of the run (the signature ledger).
type c16Rec struct {
	party   int
	alg     int
	hasAttr bool
	za      bool   // the signed digest is SM3(ZA || content) (SM2 without attributes)
	D       []byte // ledger side: the digest that was signed, resp. stored as messageDigest
	attrs   []byte // canonical attribute set; nil without attributes
	sig     []byte
}

const (
	c16KSign = iota
	c16KEnv
	c16KPsk
	c16KSed
)

type c16Msg struct {
	kind     int
	der      []byte
	content  []byte // ledger content M
	digest   []byte // digest-only: D handed to the library
	asDigest bool
	detached bool
	noattr   bool
	recs     []*c16Rec
	signSec  int64
	chainOK  bool
	hasCerts bool
	cipher   int
	flavour  int
	recips   []int
	psk      []byte
	legacy   []bool   // per recipient: SM2-wrapped key in the CFCA-legacy C1C2C3 form
	sess     *c16Sess // the caller-supplied session the builder used (nil: none / default)
	stripped bool     // authenticated attributes removed after signing: the message must not verify
	sigExtra bool     // every signer added the extra signed attribute 1.2.3.4.5.6
}

type c16X struct {
	t      *testing.T
	c      *sim.Ctx
	p      *sim.Program
	w      *c16World
	msgs   []*c16Msg
	recs   []*c16Rec
	op     int
	kind   string
	judged int
	mv     bool
	via    int  // parse path of the current delivery (see parse)
	at     int  // explicit time of VerifyWithChainAtTime (0: the simulated now)
	empty  bool // the verifier's trust store is a non-nil pool WITHOUT any certificate
}

func (x *c16X) fail(class, format string, args ...any) {
	x.c.Fail(class, x.op, x.kind, format, args...)
}

func execC16(t *testing.T, p *sim.Program, c *sim.Ctx) {
	if c16W == nil {
		if err := c16Init(); err != nil {
			c.Fail("setup", -1, "setup", "%v", err)
			return
		}
	}
	pre := p.C("pre")&1 == 1
	verifhook.SetMaybeReadDecider(func() bool { return pre })
	defer verifhook.SetMaybeReadDecider(nil)
	savedReader := rand.Reader
	defer func() { rand.Reader = savedReader }()
	var pan any
	var stack string
	synctest.Test(t, func(t *testing.T) {
		defer func() {
			if r := recover(); r != nil {
				pan = r
				stack = string(debug.Stack())
			}
		}()
		x := &c16X{t: t, c: c, p: p, w: c16W, mv: p.C("mv")&1 == 1}
		x.run()
	})
	if pan != nil {
		if i := bytes.Index([]byte(stack), []byte("panic(")); i > 0 {
			stack = stack[i:]
		}
		if len(stack) > 1500 {
			stack = stack[:1500]
		}
		kind := "?"
		if c.OpsDone-1 >= 0 && c.OpsDone-1 < len(p.Ops) {
			kind = p.Ops[c.OpsDone-1].K
		}
		c.V = nil
		c.Fail("panic", c.OpsDone-1, kind, "panic: %v\n%s", pan, stack)
	}
}

func (x *c16X) sleepTo(sec int64) {
	now := time.Now()
	target := time.Unix(sec, 0)
	if target.After(now) {
		d := target.Sub(now)
		time.Sleep(d)
		// multi-decade jumps are counted as one day each: the per-job sum of int64 nanoseconds cannot hold them
		if d > 24*time.Hour {
			d = 24 * time.Hour
		}
		x.c.SimNS += int64(d)
	}
}

func c16ClockClass(sec int64) string {
	switch {
	case sec < c16NB:
		return "before"
	case sec == c16NB:
		return "nb"
	case sec < c16Y2050:
		return "utc"
	case sec < c16NA:
		return "gen"
	case sec == c16NA:
		return "na"
	default:
		return "after"
	}
}

func (x *c16X) run() {
	p, c := x.p, x.c
	if p.C("early")&1 == 0 {
		t0 := p.C("t0")
		if t0 < 0 {
			t0 = 0
		}
		if t0 > c16NA-c16NB+86400*400 {
			t0 = c16NA - c16NB + 86400*400
		}
		x.sleepTo(int64(c16NB + 1 + t0))
	}
	c.Abs("clock", c16ClockClass(time.Now().Unix()))
	for i, o := range p.Ops {
		if c.Failed() {
			return
		}
		c.OpsDone = i + 1
		x.op, x.kind = i, o.K
		switch o.K {
		case "clockto":
			sec := int64(o.Int(0))
			if sec < 0 {
				sec = 0
			}
			if sec > c16NA+86400*365*30 {
				sec = c16NA + 86400*365*30
			}
			if sec > time.Now().Unix() {
				c.Hit("fault:clock-advance")
			}
			x.sleepTo(sec)
			c.Abs("clockto", c16ClockClass(time.Now().Unix()))
		case "sign":
			x.doSign(o)
		case "env":
			x.doEnv(o)
		case "psk":
			x.doPsk(o)
		case "sed":
			x.doSed(o)
		case "envs":
			x.doEnvS(o)
		case "degen":
			x.doDegen(o)
		case "dlv":
			x.doDeliver(o)
		case "all":
			x.doAll(o)
		case "der":
			x.doDER(o)
		}
	}
	if len(x.msgs) > 0 && x.judged > 0 {
		c.Nontriv = true
	}
}

// ---- randomness seam: legal short reads / one zero-length read around crypto/rand.Reader ----

type c16Chunk struct {
	r      io.Reader
	chunk  int
	zeroAt int
	calls  int
	short  int
	zero   int
}

func (k *c16Chunk) Read(p []byte) (int, error) {
	call := k.calls
	k.calls++
	if call == k.zeroAt {
		k.zero++
		return 0, nil
	}
	if len(p) > k.chunk {
		k.short++
		p = p[:k.chunk]
	}
	return k.r.Read(p)
}

func (x *c16X) withRand(rch int, f func()) {
	if rch <= 0 {
		f()
		return
	}
	k := &c16Chunk{r: rand.Reader, chunk: rch, zeroAt: -1}
	if rch >= 100 {
		k.chunk, k.zeroAt = 5, (rch-100)%8
	}
	if k.chunk > 64 {
		k.chunk = 64
	}
	prev := rand.Reader
	rand.Reader = k
	defer func() {
		rand.Reader = prev
		if k.short > 0 {
			x.c.Hit("fault:rand-short-read")
		}
		if k.zero > 0 {
			x.c.Hit("fault:rand-zero-length-read")
		}
	}()
	f()
}

// libBuf hands the library a copy of the content whose spare capacity holds a canary;
// spareTouched tells whether the library wrote beyond len() of its input.
func c16LibBuf(content []byte) []byte {
	b := make([]byte, len(content)+40)
	copy(b, content)
	for i := len(content); i < len(b); i++ {
		b[i] = 0xc5
	}
	return b[:len(content)]
}

func (x *c16X) spareCheck(b []byte, ledger []byte) {
	full := b[:cap(b)]
	for _, v := range full[len(b):] {
		if v != 0xc5 {
			x.c.Hit("probe:input-spare-capacity-overwritten")
			break
		}
	}
	if !bytes.Equal(b, ledger) {
		x.fail("input-modified", "the library modified the content slice it was given (first difference at %d)", firstDiff(b, ledger))
	}
}

// ---- signing ----

func (x *c16X) za(party int) []byte {
	pub, ok := x.w.parties[party].cert.PublicKey.(*ecdsa.PublicKey)
	if !ok {
		return nil
	}
	z := sm2m.ZA(sm2m.DefaultUID, sm2m.Point{X: pub.X, Y: pub.Y})
	return z[:]
}

func (x *c16X) recDigest(rec *c16Rec, content []byte) []byte {
	if rec.za {
		return c16Hash(4, x.za(rec.party), content)
	}
	return c16Hash(rec.alg, content)
}

func c16SameIAS(a, b *smx509.Certificate) bool {
	return a.SerialNumber.Cmp(b.SerialNumber) == 0 && bytes.Equal(a.RawIssuer, b.RawIssuer)
}

type c16Sg struct{ party, alg int }

// signerList reads (party, digest) pairs from the op, coerces unsupported pairings and drops duplicates.
func (x *c16X) signerList(o sim.Op, at, n int) []c16Sg {
	if n < 1 {
		n = 1
	}
	if n > 3 {
		n = 3
	}
	var out []c16Sg
	for i := 0; i < n; i++ {
		pi := c16Mod(o.Int(at+2*i), c16NParties)
		alg := c16Mod(o.Int(at+2*i+1), 4)
		if x.w.parties[pi].kind == c16SM2 {
			alg = 4
		}
		dup := false
		for _, s := range out {
			if c16SameIAS(x.w.parties[s.party].cert, x.w.parties[pi].cert) {
				dup = true
			}
		}
		if !dup {
			out = append(out, c16Sg{pi, alg})
		}
	}
	return out
}

func (x *c16X) doSign(o sim.Op) {
	c, w := x.c, x.w
	smOID := o.Int(0)&1 == 1
	mode := c16Mod(o.Int(1), 6)
	detached := o.Int(2)&1 == 1
	certopt := c16Mod(o.Int(3), 4)
	extras := c16Mod(o.Int(4), 4)
	rch := o.Int(5)
	content := append([]byte{}, o.Bytes(0)...) // ledger copy
	sgs := x.signerList(o, 7, o.Int(6))
	nlist := o.Int(6)
	if nlist < 1 {
		nlist = 1
	}
	if nlist > 3 {
		nlist = 3
	}
	post := c16Mod(o.Int(7+2*nlist), 4)   // 1: RemoveUnauthenticatedAttributes, 2: RemoveAuthenticatedAttributes, 3: both
	encSel := c16Mod(o.Int(8+2*nlist), 3) // SetEncryptionAlgorithm before each signer: 0 never, 1 / 2 an identifier fitting key and digest
	switch mode {
	case 2: // digest-only with attributes: one digest for all signers
		keep := sgs[:1]
		for _, s := range sgs[1:] {
			if s.alg == sgs[0].alg {
				keep = append(keep, s)
			}
		}
		sgs = keep
	case 3:
		sgs = sgs[:1]
	case 4, 5:
		sgs = sgs[:1]
		if w.parties[sgs[0].party].kind != c16SM2 || sgs[0].party == 9 {
			sgs[0] = c16Sg{0, 4}
		}
	}
	noattr := mode == 1 || mode == 3 || mode >= 4
	digestOnly := mode == 2 || mode == 3 || mode == 5
	if mode >= 4 {
		smOID = true
		certopt = 1
		extras = 0
		post, encSel = 0, 0
		if mode == 5 {
			detached = true
		}
	}
	if digestOnly {
		detached = true // the message never carries content
	}
	abs := []any{"sign", smOID, mode, detached, certopt, extras, rch != 0, sim.LenClass(len(content), 16), post, encSel}
	for _, s := range sgs {
		abs = append(abs, w.parties[s.party].name, s.alg)
	}
	c.Abs(abs...)

	m := &c16Msg{kind: c16KSign, content: content, detached: detached, noattr: noattr, asDigest: digestOnly, hasCerts: certopt != 3}
	m.stripped = post&2 == 2 && !noattr
	m.sigExtra = extras&1 == 1 && !noattr
	var snap []c16Snap
	// ledger side of the digests
	for _, s := range sgs {
		rec := &c16Rec{party: s.party, alg: s.alg, hasAttr: !noattr}
		rec.za = noattr && w.parties[s.party].kind == c16SM2
		rec.D = x.recDigest(rec, content)
		m.recs = append(m.recs, rec)
	}
	if digestOnly {
		m.digest = m.recs[0].D
	}
	var der []byte
	var err error
	m.signSec = time.Now().Unix()
	lb := c16LibBuf(content)
	x.withRand(rch, func() {
		if mode >= 4 {
			pt := w.parties[sgs[0].party]
			switch {
			case mode == 5:
				der, err = cfca.SignDigestDetach(m.digest, pt.cert, pt.key)
			case detached:
				der, err = cfca.SignMessageDetach(lb, pt.cert, pt.key)
			default:
				der, err = cfca.SignMessageAttach(lb, pt.cert, pt.key)
			}
			return
		}
		var sd *pkcs7.SignedData
		switch {
		case digestOnly && smOID:
			sd, err = pkcs7.NewSMSignedDataWithDigest(m.digest)
		case digestOnly:
			sd, err = pkcs7.NewSignedDataWithDigest(m.digest)
		case smOID:
			sd, err = pkcs7.NewSMSignedData(lb)
		default:
			sd, err = pkcs7.NewSignedData(lb)
		}
		if err != nil {
			return
		}
		for _, s := range sgs {
			pt := w.parties[s.party]
			sd.SetDigestAlgorithm(c16DigestOID[s.alg])
			if encSel > 0 {
				sd.SetEncryptionAlgorithm(c16EncOID(pt, s.alg, encSel))
			}
			cfg := pkcs7.SignerInfoConfig{SkipCertificates: certopt == 3}
			if extras&1 == 1 && !noattr {
				cfg.ExtraSignedAttributes = []pkcs7.Attribute{{Type: asn1.ObjectIdentifier{1, 2, 3, 4, 5, 6}, Value: "verif signed " + pt.name}}
			}
			if extras&2 == 2 && !noattr {
				cfg.ExtraUnsignedAttributes = []pkcs7.Attribute{{Type: asn1.ObjectIdentifier{1, 2, 3, 4, 5, 7}, Value: "verif unsigned"}}
			}
			switch {
			case noattr:
				err = sd.SignWithoutAttr(pt.cert, pt.key, cfg)
			case certopt == 0 && pt.chain != nil:
				err = sd.AddSignerChain(pt.cert, pt.key, pt.chain, cfg)
			default:
				err = sd.AddSigner(pt.cert, pt.key, cfg)
			}
			if err != nil {
				return
			}
		}
		if certopt == 2 || (certopt == 0 && noattr) {
			added := false
			for _, s := range sgs {
				if w.parties[s.party].chain != nil && !added {
					sd.AddCertificate(w.inter)
					added = true
				}
			}
		}
		if post != 0 {
			snap = c16SnapSigners(sd)
			if post&2 == 2 {
				sd.RemoveAuthenticatedAttributes()
			}
			if post&1 == 1 {
				sd.RemoveUnauthenticatedAttributes()
			}
		}
		if detached && !digestOnly {
			sd.Detach()
		}
		der, err = sd.Finish()
	})
	c.OutErr("sign.err", err)
	x.spareCheck(lb, content)
	if x.c.Failed() {
		return
	}
	if err != nil {
		x.fail("create-failed", "signing with a supported option set failed: %v", err)
		return
	}
	c.Out("sign.der", der)
	m.der = der
	m.chainOK = true
	if certopt == 1 {
		for _, s := range sgs {
			if w.parties[s.party].chain != nil {
				m.chainOK = false
			}
		}
	}
	// the harness' own reading of the produced message
	_, body := c16Body(der)
	views, ok := c16ReadSigners(der, body)
	if !ok || len(views) != len(m.recs) {
		x.fail("malformed-output", "produced SignedData cannot be read as DER with %d signer-infos (got %d, ok=%v)", len(m.recs), len(views), ok)
		return
	}
	if tc, has := c16AttachedContent(body); has != !detached || (has && !bytes.Equal(tc.Content, content)) {
		x.fail("malformed-output", "attached content of the produced message differs from the signed content (present=%v, detached=%v)", has, detached)
		return
	}
	if post != 0 && len(snap) != len(m.recs) {
		x.fail("malformed-output", "GetSignedData lists %d signer-infos before Finish, %d signers were added", len(snap), len(m.recs))
		return
	}
	for ri, rec := range m.recs {
		pc := w.parties[rec.party].cert
		var v *c16SIView
		for i := range views {
			if bytes.Equal(views[i].issuer, pc.RawIssuer) && new(big.Int).SetBytes(views[i].serial).Cmp(pc.SerialNumber) == 0 {
				v = &views[i]
			}
		}
		if v == nil {
			x.fail("malformed-output", "no signer-info names issuer+serial of signer %s", w.parties[rec.party].name)
			return
		}
		// unauthenticated attributes: present exactly when asked for and not removed afterwards
		wantUnauth := extras&2 == 2 && !noattr && post&1 == 0
		hasExtra := false
		for _, u := range v.unauth {
			hasExtra = hasExtra || bytes.Equal(u, c16OIDUnsignedExtra)
		}
		if wantUnauth != v.hasUnauth || wantUnauth != hasExtra {
			x.fail("malformed-output", "signer %s: unauthenticated attributes present=%v (the configured one: %v), expected %v (ExtraUnsignedAttributes=%v, RemoveUnauthenticatedAttributes=%v)", w.parties[rec.party].name, v.hasUnauth, hasExtra, wantUnauth, extras&2 == 2 && !noattr, post&1 == 1)
			return
		}
		if post&1 == 1 {
			c.Hit("probe:unauth-removed")
		}
		if noattr && encSel > 0 {
			// SignWithoutAttr names the identifier set by SetEncryptionAlgorithm
			want := c16OIDContent(c16EncOID(w.parties[rec.party], rec.alg, encSel))
			if !bytes.Equal(v.encOID, want) {
				x.fail("malformed-output", "signer %s: digestEncryptionAlgorithm %x, SetEncryptionAlgorithm was given %x", w.parties[rec.party].name, v.encOID, want)
				return
			}
			c.Hit("probe:enc-alg-set")
		}
		if m.stripped {
			// the builder dropped the attributes after signing: the signature value stays the one made over them
			sn := snap[ri]
			if v.hasAttr {
				x.fail("malformed-output", "signer %s: RemoveAuthenticatedAttributes left authenticated attributes in the message", w.parties[rec.party].name)
				return
			}
			if !bytes.Equal(v.sig, sn.sig) || sn.attrs == nil {
				x.fail("malformed-output", "signer %s: signature value changed by RemoveAuthenticatedAttributes (or no attributes before it)", w.parties[rec.party].name)
				return
			}
			rec.sig, rec.attrs = v.sig, sn.attrs
			if !x.indepVerify(rec, &c16SIView{attrsSet: sn.attrsSet}) {
				x.fail("independent-verify-failed", "signer %s: the signature kept by RemoveAuthenticatedAttributes is not one over the attributes the builder held", w.parties[rec.party].name)
				return
			}
			c.Hit("probe:attr-removed")
			x.recs = append(x.recs, rec)
			continue
		}
		if post != 0 && !bytes.Equal(v.sig, snap[ri].sig) {
			x.fail("malformed-output", "signer %s: signature value differs from the one the builder held before Remove*Attributes", w.parties[rec.party].name)
			return
		}
		if v.hasAttr != rec.hasAttr {
			x.fail("malformed-output", "signer %s: authenticated attributes present=%v, expected %v", w.parties[rec.party].name, v.hasAttr, rec.hasAttr)
			return
		}
		rec.sig, rec.attrs = v.sig, v.attrs
		if rec.hasAttr {
			if !bytes.Equal(v.mdAttr, rec.D) {
				x.fail("message-digest-attr-wrong", "signer %s: messageDigest attribute %x, digest of the content %x", w.parties[rec.party].name, v.mdAttr, rec.D)
				return
			}
			var st time.Time
			if _, e := asn1.Unmarshal(v.stAttr, &st); e == nil && st.Unix() == m.signSec {
				c.Hit("probe:signing-time-attr-equals-sim-clock")
			}
		}
		if !x.indepVerify(rec, v) {
			x.fail("independent-verify-failed", "signer %s (digest %d, attrs=%v): an independent verifier rejects the produced signature", w.parties[rec.party].name, rec.alg, rec.hasAttr)
			return
		}
		x.recs = append(x.recs, rec)
	}
	x.msgs = append(x.msgs, m)
	x.berIdentity(der)
}

// indepVerify checks an honest signature with code that is not pkcs7: over the
// DER SET OF encoding of the attributes, or over the content digest.
func (x *c16X) indepVerify(rec *c16Rec, v *c16SIView) bool {
	pt := x.w.parties[rec.party]
	var dg []byte
	switch {
	case rec.hasAttr && pt.kind == c16SM2:
		dg = c16Hash(4, x.za(rec.party), v.attrsSet)
	case rec.hasAttr:
		dg = c16Hash(rec.alg, v.attrsSet)
	default:
		dg = rec.D
	}
	switch pub := pt.cert.PublicKey.(type) {
	case *rsa.PublicKey:
		return rsa.VerifyPKCS1v15(pub, c16CryptoHash[rec.alg], dg, rec.sig) == nil
	case *ecdsa.PublicKey:
		if pt.kind == c16SM2 {
			if x.mv {
				x.c.Hit("probe:sm2-model-verify")
				return sm2m.VerifyASN1Model(sm2m.Point{X: pub.X, Y: pub.Y}, dg, rec.sig)
			}
			return sm2.VerifyASN1(pub, dg, rec.sig)
		}
		return ecdsa.VerifyASN1(pub, dg, rec.sig)
	}
	return false
}

// berIdentity: clause (3) on a DER message produced in the run, plus the
// indefinite-length forms normalise back to it.
func (x *c16X) berIdentity(der []byte) {
	out, err := pkcs7.Ber2Der(der)
	if err != nil || !bytes.Equal(out, der) {
		x.fail("ber2der-changes-der", "Ber2Der of a produced DER message: err=%v, first difference at %d of %d", err, firstDiff(out, der), len(der))
		return
	}
	x.c.Hit("probe:ber2der-identity")
}

// ---- envelopes ----

func (x *c16X) recipList(o sim.Op, at, n int) []int {
	if n < 1 {
		n = 1
	}
	if n > 4 {
		n = 4
	}
	var out []int
	for i := 0; i < n; i++ {
		pi := c16Mod(o.Int(at+i), c16NParties)
		dup := false
		for _, q := range out {
			if q == pi || c16SameIAS(x.w.parties[q].cert, x.w.parties[pi].cert) {
				dup = true
			}
		}
		if !dup {
			out = append(out, pi)
		}
	}
	return out
}

func (x *c16X) certsOf(ps []int) []*smx509.Certificate {
	var out []*smx509.Certificate
	for _, p := range ps {
		out = append(out, x.w.parties[p].cert)
	}
	return out
}

// ivProbe counts content-cipher IVs / nonces that a short read left mostly zero.
func (x *c16X) ivProbe(der []byte, rch int) {
	if rch <= 0 {
		return
	}
	_, body := c16Body(der)
	eci := c16EncContent(body)
	if eci == nil || len(eci.Children) < 2 || len(eci.Children[1].Children) < 2 {
		return
	}
	par := eci.Children[1].Children[1]
	iv := par.Content
	if par.Tag == 0x30 && len(par.Children) > 0 {
		iv = par.Children[0].Content
	}
	if len(iv) >= 8 && bytes.Equal(iv[len(iv)-6:], make([]byte, 6)) {
		x.c.Hit("probe:iv-left-zero-by-short-read")
	}
}

func (x *c16X) doEnv(o sim.Op) {
	c, w := x.c, x.w
	ci := c16Mod(o.Int(0), len(c16Ciphers))
	flav := c16Mod(o.Int(1), 6)
	rch := o.Int(2)
	rs := x.recipList(o, 4, o.Int(3))
	content := append([]byte{}, o.Bytes(0)...) // ledger copy
	abs := []any{"env", c16Ciphers[ci].name, flav, rch != 0, sim.LenClass(len(content), c16Ciphers[ci].block)}
	supported := true
	for _, r := range rs {
		pt := w.parties[r]
		abs = append(abs, pt.name)
		if !pt.canRecv || ((flav == 3 || flav == 4) && !pt.ski) {
			supported = false
		}
	}
	c.Abs(abs...)
	var der []byte
	var err error
	certs := x.certsOf(rs)
	lb := c16LibBuf(content)
	x.withRand(rch, func() {
		switch flav {
		case 0:
			der, err = pkcs7.Encrypt(c16Ciphers[ci].c, lb, certs)
		case 1:
			der, err = pkcs7.EncryptSM(c16Ciphers[ci].c, lb, certs)
		case 2:
			der, err = pkcs7.EncryptCFCA(c16Ciphers[ci].c, lb, certs)
		case 3:
			der, err = pkcs7.EnvelopeMessageCFCA(c16Ciphers[ci].c, lb, certs)
		case 4:
			der, err = cfca.EnvelopeMessage(c16Ciphers[ci].c, lb, certs)
		default:
			der, err = cfca.EnvelopeMessageLegacy(c16Ciphers[ci].c, lb, certs)
		}
	})
	c.OutErr("env.err", err)
	x.spareCheck(lb, content)
	if x.c.Failed() {
		return
	}
	if err != nil {
		if supported {
			x.fail("create-failed", "enveloping for supported recipients failed: %v", err)
		} else {
			c.Hit("probe:unsupported-recipient-refused")
		}
		return
	}
	if !supported {
		c.Hit("probe:unsupported-recipient-accepted")
		return // nothing is demanded of such a message
	}
	c.Out("env.der", der)
	legacy := make([]bool, len(rs))
	for i := range legacy {
		legacy[i] = flav == 2 || flav == 5
	}
	x.msgs = append(x.msgs, &c16Msg{kind: c16KEnv, der: der, content: content, cipher: ci, flavour: flav, recips: rs, legacy: legacy})
	x.ivProbe(der, rch)
	x.berIdentity(der)
}

func (x *c16X) doPsk(o sim.Op) {
	c := x.c
	ci := c16Mod(o.Int(0), len(c16Ciphers))
	sm := o.Int(1)&1 == 1
	rch := o.Int(2)
	content := append([]byte{}, o.Bytes(0)...) // ledger copy
	key := fitKey(o.Bytes(1), c16Ciphers[ci].c.KeySize())
	c.Abs("psk", c16Ciphers[ci].name, sm, rch != 0, sim.LenClass(len(content), c16Ciphers[ci].block))
	var der []byte
	var err error
	lb := c16LibBuf(content)
	x.withRand(rch, func() {
		if sm {
			der, err = pkcs7.EncryptSMUsingPSK(c16Ciphers[ci].c, lb, key)
		} else {
			der, err = pkcs7.EncryptUsingPSK(c16Ciphers[ci].c, lb, key)
		}
	})
	c.OutErr("psk.err", err)
	x.spareCheck(lb, content)
	if x.c.Failed() {
		return
	}
	if err != nil {
		x.fail("create-failed", "EncryptUsingPSK with a key of the cipher's size failed: %v", err)
		return
	}
	c.Out("psk.der", der)
	x.msgs = append(x.msgs, &c16Msg{kind: c16KPsk, der: der, content: content, cipher: ci, psk: key})
	x.ivProbe(der, rch)
	x.berIdentity(der)
}

func (x *c16X) doSed(o sim.Op) {
	c, w := x.c, x.w
	ci := c16Mod(o.Int(0), len(c16Ciphers))
	sm := o.Int(1)&1 == 1
	rch := o.Int(2)
	ns, nr := o.Int(3), o.Int(4)
	if ns < 1 {
		ns = 1
	}
	if ns > 3 {
		ns = 3
	}
	sgs := x.signerList(o, 5, ns)
	rs0 := x.recipList(o, 5+2*ns, nr)
	var rs []int
	for _, r := range rs0 {
		if w.parties[r].canRecv {
			rs = append(rs, r)
		}
	}
	if len(rs) == 0 {
		rs = []int{6}
	}
	content := append([]byte{}, o.Bytes(0)...) // ledger copy
	abs := []any{"sed", c16Ciphers[ci].name, sm, rch != 0, sim.LenClass(len(content), c16Ciphers[ci].block)}
	for _, s := range sgs {
		abs = append(abs, w.parties[s.party].name, s.alg)
	}
	for _, r := range rs {
		abs = append(abs, w.parties[r].name)
	}
	c.Abs(abs...)
	m := &c16Msg{kind: c16KSed, content: content, noattr: true, hasCerts: true, chainOK: true, cipher: ci, recips: rs}
	for _, s := range sgs {
		rec := &c16Rec{party: s.party, alg: s.alg, za: w.parties[s.party].kind == c16SM2}
		rec.D = x.recDigest(rec, content)
		m.recs = append(m.recs, rec)
	}
	var der []byte
	var err error
	m.signSec = time.Now().Unix()
	lb := c16LibBuf(content)
	x.withRand(rch, func() {
		var sed *pkcs7.SignedAndEnvelopedData
		if sm {
			sed, err = pkcs7.NewSMSignedAndEnvelopedData(lb, c16Ciphers[ci].c)
		} else {
			sed, err = pkcs7.NewSignedAndEnvelopedData(lb, c16Ciphers[ci].c)
		}
		if err != nil {
			return
		}
		for _, s := range sgs {
			pt := w.parties[s.party]
			sed.SetDigestAlgorithm(c16DigestOID[s.alg])
			if pt.chain != nil {
				err = sed.AddSignerChain(pt.cert, pt.key, pt.chain)
			} else {
				err = sed.AddSigner(pt.cert, pt.key)
			}
			if err != nil {
				return
			}
		}
		for _, r := range rs {
			if err = sed.AddRecipient(w.parties[r].cert); err != nil {
				return
			}
		}
		if o.Int(5+2*ns+c16SedNR(nr))&1 == 1 {
			sed.AddCertificate(w.extra) // a neutral addition to the certificate list
			c.Hit("probe:sed-certificate-added")
		}
		der, err = sed.Finish()
	})
	c.OutErr("sed.err", err)
	x.spareCheck(lb, content)
	if x.c.Failed() {
		return
	}
	if err != nil {
		x.fail("create-failed", "sign-and-envelope with supported parties failed: %v", err)
		return
	}
	c.Out("sed.der", der)
	m.der = der
	_, body := c16Body(der)
	views, ok := c16ReadSigners(der, body)
	if !ok || len(views) != len(m.recs) {
		x.fail("malformed-output", "produced SignedAndEnvelopedData cannot be read as DER with %d signer-infos (got %d, ok=%v)", len(m.recs), len(views), ok)
		return
	}
	for _, rec := range m.recs {
		pc := w.parties[rec.party].cert
		var v *c16SIView
		for i := range views {
			if bytes.Equal(views[i].issuer, pc.RawIssuer) && new(big.Int).SetBytes(views[i].serial).Cmp(pc.SerialNumber) == 0 {
				v = &views[i]
			}
		}
		if v == nil || v.hasAttr {
			x.fail("malformed-output", "no attribute-less signer-info names issuer+serial of signer %s", w.parties[rec.party].name)
			return
		}
		rec.sig = v.sig
		if !x.indepVerify(rec, v) {
			x.fail("independent-verify-failed", "signer %s (digest %d) of SignedAndEnvelopedData: an independent verifier rejects the produced signature", w.parties[rec.party].name, rec.alg)
			return
		}
		x.recs = append(x.recs, rec)
	}
	x.msgs = append(x.msgs, m)
	x.ivProbe(der, rch)
	x.berIdentity(der)
}

// c16SedNR is the number of recipient ints a "sed" op carries (recipList's clamp).
func c16SedNR(n int) int {
	if n < 1 {
		n = 1
	}
	if n > 4 {
		n = 4
	}
	return n
}

// ---- the DER inputs of the BER normaliser ----

func (x *c16X) doDER(o sim.Op) {
	c := x.c
	c.Abs("der", o.Int(1)%3)
	check := func(what string, der []byte) bool {
		out, err := pkcs7.Ber2Der(der)
		if err != nil || !bytes.Equal(out, der) {
			x.fail("ber2der-changes-der", "Ber2Der(%s, %d bytes, head %x): err=%v, first difference at %d", what, len(der), trunc(der, 24), err, firstDiff(out, der))
			return false
		}
		c.Hit("probe:ber2der-identity")
		return true
	}
	switch c16Mod(o.Int(1), 3) {
	case 0:
		for _, pt := range x.w.parties {
			if !check("certificate "+pt.name, pt.cert.Raw) {
				return
			}
		}
		for _, rec := range x.recs {
			if x.w.parties[rec.party].kind != c16RSA && !check("signature value", rec.sig) {
				return
			}
		}
	default:
		r := sim.NewRand(uint64(o.Int(0)))
		n := 1 + r.Intn(4)
		for i := 0; i < n; i++ {
			budget := 3000
			if r.Chance(1, 6) {
				budget = 150000
			}
			der := c16GenDER(r, 0, &budget)
			if sim.ParseAllTLV(der) == nil && len(der) < 60000 && der[0]&0x1f != 0x1f && !bytes.Contains(der, []byte{0x1f}) {
				c.Hit("probe:der-generator-unparsed")
			}
			if len(der) > 65536 {
				c.Hit("probe:der-3-byte-length")
			}
			if !check("generated element", der) {
				return
			}
		}
	}
	x.judged++
}
