package props

import (
	"bytes"
	"crypto/cipher"
	"testing"

	gcipher "github.com/emmansun/gmsm/cipher"
	"github.com/emmansun/gmsm/sm4"

	"verif/harness/model/aead"
	"verif/harness/model/sm4m"
	"verif/harness/sim"
)

// C04: a sender seals records, a faulty transport delivers them untouched and
// altered (every single-byte position of nonce, AAD, ciphertext and tag;
// truncation, extension, cross-delivery of fields between two records), a
// receiver opens them. (Weak fit: the AEAD object has no seam; only the
// record in transit is simulated.)

func init() {
	selfTests("C04", sm4m.SelfTest, aead.SelfTest)
	register(&Prop{
		ID:    "C04",
		Level: "exploration",
		Nodes: func(tier string) []string {
			return []string{"avx2", "avx", "sse", "noclmul", "noclmul-avx", "noaes", "purego"}
		},
		Cross:     true,
		Gen:       genC04,
		Exec:      execC04,
		QuickSecs: 25, ThoroughSecs: 600, RunsPerJob: 300,
		Rule: "a run fixes (GCM or CCM, nonce size, tag size, key, code path: real sm4 block or Block-only wrapper) and plays {seal(plaintext length, AAD length, dst prefix / in place / spare capacity / guard page)} followed by deliveries {open untouched, open with one altered byte at a chosen field and offset, exhaustive single-byte alteration of every position of nonce|AAD|ciphertext|tag, truncation, extension, tag/nonce/AAD/ciphertext swapped in from another record}; GCM nonces include crafted 16-byte nonces whose derived 32-bit counter wraps; " +
			"abstract history = (kind, nonce size, tag size, path) + sequence of (op kind, plaintext/AAD length classes mod 16/64/128, knob, altered field); non-trivial = at least one seal and one delivery; distinct = distinct abstract histories",
		Real:  []string{"internal/sm4 GCM (fused asm, table-driven over asm block, per node)", "Go crypto/cipher generic GCM over the sm4 block (noaes / purego / wrapper path)", "cipher/ccm.go"},
		Stubs: []string{"transport between sealer and opener (byte alteration, truncation, extension, field substitution)", "guard-page / canary buffers"},
		Assume: []string{"models (harness/model/aead, bit-serial GF(2^128)) anchored on the GCM specification test cases and RFC 3610 vectors at worker start-up",
			"after a failed Open the output region must be all zero or untouched and must not hold the plaintext"},
	})
}

func genC04(r *sim.Rand, tier string) *sim.Program {
	p := &sim.Program{Prop: "C04"}
	ccm := r.Chance(2, 5)
	p.SetCB("key", r.Bytes(16))
	p.SetC("path", r.Weighted(4, 1))
	p.SetC("conv", r.Weighted(2, 1))
	p.SetC("sib", r.PickInt(0, 0, 0, 1, 2, 3, 7))
	if ccm {
		p.SetC("ccm", 1)
		p.SetC("nonce", r.Range(7, 13))
		p.SetC("tag", 2*r.Range(2, 8))
	} else {
		switch r.Intn(3) {
		case 0:
			p.SetC("nonce", 12)
			p.SetC("tag", 16)
		case 1:
			p.SetC("nonce", 12)
			p.SetC("tag", r.Range(12, 16))
		default:
			p.SetC("nonce", r.PickInt(1, 7, 8, 11, 13, 15, 16, 16, 16, 17, 32, 33, 64))
			p.SetC("tag", 16)
		}
	}
	big := r.Chance(1, 30)
	nrec := r.Range(1, 3)
	lenPick := func() int {
		n := r.Near(300, 0, 1, 15, 16, 17, 31, 32, 33, 63, 64, 65, 127, 128, 129, 255, 256, 257)
		if big && r.Chance(1, 2) {
			n = r.Range(1000, 9000)
		}
		return n
	}
	for i := 0; i < nrec; i++ {
		al := r.Near(80, 0, 1, 15, 16, 17, 32, 64)
		if r.Chance(1, 40) {
			// the associated-data length encodings of CCM change at 2^16-2^8 and 2^16 (RFC 3610); same classes for GCM
			al = r.PickInt(0xfeff, 0xff00, 0xff01, 0xff80, 0xffff, 0x10000, 0x10001)
		}
		pl := lenPick()
		if ccm && p.C("nonce") == 13 && r.Chance(1, 12) {
			pl = 65535 - r.Intn(19) // within a tag length of the CCM maximum for a 2-octet length field
		}
		op := p.Add("seal", pl, al, r.Weighted(4, 3, 2, 2, 1, 2), r.Intn(256))
		nonce := r.Bytes(p.C("nonce"))
		if !ccm && p.C("nonce") == 16 && r.Chance(1, 2) {
			// crafted later from this J0: low 32 bits just below the wrap
			j0 := r.Bytes(16)
			copy(j0[12:], []byte{0xff, 0xff, 0xff, byte(0xff - r.Intn(18))})
			if r.Chance(1, 3) {
				for k := 0; k < 12; k++ {
					j0[k] = 0xff
				}
			}
			op.WithB(nonce, j0)
		} else {
			op.WithB(nonce)
		}
	}
	ndel := r.Range(1, 8)
	for i := 0; i < ndel; i++ {
		rec := r.Intn(nrec)
		switch r.Intn(10) {
		case 0, 1:
			p.Add("open", rec, r.Weighted(3, 2, 1))
		case 2, 3, 4:
			p.Add("flip", rec, r.Intn(4), r.Intn(1<<20), 1+r.Intn(255), r.Weighted(3, 2, 1))
		case 5:
			p.Add("all", rec)
		case 6:
			p.Add("trunc", rec, 1+r.Intn(20))
		case 7:
			p.Add("extend", rec, 1+r.Intn(20))
		default:
			p.Add("swap", rec, r.Intn(nrec), r.Intn(4))
		}
	}
	return p
}

type c04Rec struct {
	nonce, aad, pt, sealed []byte
}

func execC04(t *testing.T, p *sim.Program, c *sim.Ctx) {
	ccm := p.C("ccm") == 1
	ns, ts := p.C("nonce"), p.C("tag")
	key := fitKey(p.CB("key"), 16)
	path := p.C("path") & 1
	if ccm {
		if ns < 7 || ns > 13 {
			ns = 12
		}
		if ts < 4 || ts > 16 || ts%2 != 0 {
			ts = 16
		}
	} else {
		if ns < 1 || ns > 128 {
			ns = 12
		}
		if ts < 12 || ts > 16 {
			ts = 16
		}
		if ns != 12 {
			ts = 16 // the public constructors allow one of the two to differ from the default
		}
	}
	lb, err := sm4.NewCipher(key)
	if err != nil {
		c.Fail("setup", -1, "setup", "%v", err)
		return
	}
	if path == 1 {
		lb = plainBlock{lb}
	}
	mb, _ := sm4m.NewCipher(key)
	var a cipher.AEAD
	switch {
	case ccm && ns == 12 && ts == 16 && p.C("conv")&1 == 1:
		a, err = gcipher.NewCCM(lb) // the convenience constructors must select the documented defaults
		c.Hit("probe:ccm-convenience-constructor")
	case ccm && ns == 12 && p.C("conv")&1 == 1:
		a, err = gcipher.NewCCMWithTagSize(lb, ts)
		c.Hit("probe:ccm-convenience-constructor")
	case ccm && ts == 16 && p.C("conv")&1 == 1:
		a, err = gcipher.NewCCMWithNonceSize(lb, ns)
		c.Hit("probe:ccm-convenience-constructor")
	case ccm:
		a, err = gcipher.NewCCMWithNonceAndTagSize(lb, ns, ts)
	case ns != 12:
		a, err = cipher.NewGCMWithNonceSize(lb, ns)
	case ts != 16:
		a, err = cipher.NewGCMWithTagSize(lb, ts)
	default:
		a, err = cipher.NewGCM(lb)
	}
	if err != nil {
		c.Fail("setup", -1, "setup", "constructor: %v", err)
		return
	}
	if a.NonceSize() != ns || a.Overhead() != ts {
		c.Fail("parameters", -1, "setup", "NonceSize/Overhead = %d/%d, requested %d/%d", a.NonceSize(), a.Overhead(), ns, ts)
		return
	}
	if sib := p.C("sib"); sib > 0 && !ccm {
		// other AEADs are made from the SAME block value afterwards, with other parameters, and used: the first one
		// must not notice (every AEAD is an object of its own)
		type sv struct{ ns, ts int }
		var vs []sv
		if sib&1 != 0 {
			vs = append(vs, sv{12, 12 + (ts-11)%4}) // a tag size other than this run's
		}
		if sib&2 != 0 {
			vs = append(vs, sv{16 - (ns&1)*3, 16}) // 16- or 13-octet nonces
		}
		if sib&4 != 0 {
			vs = append(vs, sv{12, 16})
		}
		for _, v := range vs {
			var b cipher.AEAD
			var berr error
			switch {
			case v.ns != 12:
				b, berr = cipher.NewGCMWithNonceSize(lb, v.ns)
			case v.ts != 16:
				b, berr = cipher.NewGCMWithTagSize(lb, v.ts)
			default:
				b, berr = cipher.NewGCM(lb)
			}
			if berr != nil {
				c.Fail("setup", -1, "setup", "sibling constructor: %v", berr)
				return
			}
			nonce := fitKey(p.CB("key"), v.ns)
			pt := []byte("sibling record")
			got := b.Seal(nil, nonce, pt, nil)
			if want := aead.GCMSeal(mb, nonce, pt, nil, v.ts); !bytes.Equal(got, want) {
				c.Fail("seal-mismatch", -1, "setup", "a second AEAD (nonce %d, tag %d) made from the same block seals differently from the model", v.ns, v.ts)
				return
			}
			c.Hit("probe:sibling-aead-from-same-block")
		}
		if a.NonceSize() != ns || a.Overhead() != ts {
			c.Fail("parameters", -1, "setup", "after other AEADs were made from the same block, NonceSize/Overhead of the first = %d/%d, requested %d/%d", a.NonceSize(), a.Overhead(), ns, ts)
			return
		}
	}
	if ml, ok := a.(interface{ MaxLength() int }); ok && ccm {
		// RFC 3610: the message length is carried in L = 15 - nonce size octets
		want := uint64(1<<63 - 1 - uint64(ts))
		if l := 15 - ns; l < 8 && uint64(1)<<(8*uint(l))-1 < want {
			want = uint64(1)<<(8*uint(l)) - 1
		}
		if uint64(ml.MaxLength()) != want {
			c.Fail("parameters", -1, "setup", "CCM MaxLength() = %d for a %d-octet nonce, RFC 3610 gives %d", ml.MaxLength(), ns, want)
			return
		}
	}
	c.Abs(ccm, ns, ts, path, p.C("conv")&1)
	mseal := func(nonce, pt, aad []byte) []byte {
		if ccm {
			return aead.CCMSeal(mb, nonce, pt, aad, ts)
		}
		return aead.GCMSeal(mb, nonce, pt, aad, ts)
	}
	mopen := func(nonce, sealed, aad []byte) ([]byte, bool) {
		if ccm {
			if l := 15 - len(nonce); l < 8 && len(sealed)-ts >= 1<<(8*uint(l)) {
				return nil, false // longer than the length field of this nonce size can express: not a CCM message
			}
			return aead.CCMOpen(mb, nonce, sealed, aad, ts)
		}
		return aead.GCMOpen(mb, nonce, sealed, aad, ts)
	}
	var recs []*c04Rec
	// deliver hands (nonce, aad, sealed) to the receiver; expectOK says what the transport did
	deliver := func(i int, kind string, nonce, aad, sealed []byte, knob int, origPT []byte) {
		wantPT, wantOK := mopen(nonce, sealed, aad)
		ptLen := len(sealed) - ts
		if ptLen < 0 {
			ptLen = 0
		}
		var out []byte
		var err error
		var region []byte // the output region the receiver offered
		pre := []byte{0xAA, 0xBB, 0xCC}
		switch knob {
		case 1: // in place
			buf := append([]byte{}, sealed...)
			out, err = a.Open(buf[:0], nonce, buf, aad)
			region = buf[:ptLen]
		case 2: // prefix, no spare capacity (Open allocates)
			d := append(make([]byte, 0, 3), pre...)
			out, err = a.Open(d, nonce, sealed, aad)
			if err == nil {
				if len(out) < 3 || !bytes.Equal(out[:3], pre) {
					c.Fail("open-prefix", i, kind, "Open did not keep the dst prefix")
					return
				}
				out = out[3:]
			}
		default: // spare capacity filled with a canary
			cn := sim.NewCanary(3, 8, ptLen+24, 0xA7)
			copy(cn.Buf, pre)
			d := cn.WithSpare(ptLen + 8)
			out, err = a.Open(d, nonce, sealed, aad)
			full := d[:cap(d)]
			region = full[3 : 3+ptLen]
			if ok, off := cn.Intact(3 + ptLen + 8); !ok {
				c.Fail("out-of-slice-write", i, kind, "Open wrote outside dst's capacity at %d", off)
				return
			}
			for j := 3 + ptLen; j < len(full); j++ {
				if full[j] != 0xA7 {
					c.Fail("out-of-slice-write", i, kind, "Open modified dst beyond the plaintext length (offset %d)", j)
					return
				}
			}
			if err == nil {
				if len(out) < 3 || !bytes.Equal(out[:3], pre) {
					c.Fail("open-prefix", i, kind, "Open did not keep the dst prefix")
					return
				}
				out = out[3:]
			}
		}
		c.OutErr(kind, err)
		if wantOK {
			if err != nil {
				c.Fail("open-refused-valid", i, kind, "ccm=%v nonce %d tag %d: Open refused a record the model accepts (%d plaintext bytes, %d AAD bytes): %v", ccm, ns, ts, ptLen, len(aad), err)
				return
			}
			c.Out("pt", out)
			if !bytes.Equal(out, wantPT) {
				c.Fail("plaintext-mismatch", i, kind, "ccm=%v: Open returned wrong plaintext (first difference at %d of %d)", ccm, firstDiff(out, wantPT), len(wantPT))
			}
			return
		}
		if err == nil {
			c.Fail("tampering-accepted", i, kind, "ccm=%v nonce %d tag %d path %d: Open accepted an altered record (%s), returning %d bytes", ccm, ns, ts, path, kind, len(out))
			return
		}
		if out != nil && len(out) > 0 {
			c.Fail("plaintext-released", i, kind, "Open returned %d bytes together with an error", len(out))
			return
		}
		c.Hit("fault:altered-record-refused")
		// released nothing: the offered output region is all zero or untouched, and never the plaintext
		if region != nil && ptLen > 0 {
			allZero, allCanary := true, true
			for _, x := range region {
				if x != 0 {
					allZero = false
				}
				if x != 0xA7 {
					allCanary = false
				}
			}
			unchangedInPlace := knob == 1 && bytes.Equal(region, sealed[:ptLen])
			if !allZero && !(knob != 1 && allCanary) && !unchangedInPlace {
				c.Fail("plaintext-released", i, kind, "ccm=%v path %d: after a failed Open the output region (%d bytes) is neither zeroed nor untouched", ccm, path, ptLen)
				return
			}
			if origPT != nil && ptLen >= 8 && len(origPT) >= ptLen && bytes.Equal(region, origPT[:ptLen]) {
				c.Fail("plaintext-released", i, kind, "after a failed Open the output region holds the plaintext")
			}
		}
	}
	sealsDone, deliveries := 0, 0
	for i, op := range p.Ops {
		if c.Failed() {
			return
		}
		c.OpsDone++
		switch op.K {
		case "seal":
			pl, al, knob, pat := op.Int(0), op.Int(1), op.Int(2), byte(op.Int(3))
			if pl < 0 {
				pl = 0
			}
			if al < 0 {
				al = 0
			}
			if al > 1<<17 {
				al = 1 << 17
			}
			if al >= 0xfeff {
				c.Hit("probe:aad-length-encoding-boundary")
			}
			if pl > 1<<16 {
				pl = 1 << 16
			}
			if ccm && ns == 13 && pl > 65535 {
				pl = 65535
			}
			nonce := fitKey(op.Bytes(0), ns)
			if j0 := op.Bytes(1); !ccm && ns == 16 && len(j0) == 16 {
				nonce = aead.NonceForJ0(mb, j0)
				c.Hit("probe:gcm-counter-wrap-nonce")
			}
			pt := make([]byte, pl)
			for j := range pt {
				pt[j] = pat + byte(j)*13 + byte(j>>8)
			}
			aad := make([]byte, al)
			for j := range aad {
				aad[j] = pat ^ byte(j)*5
			}
			c.Abs("s", sim.LenClass(pl, 16), pl/64%2, sim.LenClass(pl, 128), sim.LenClass(al, 16), knob)
			want := mseal(nonce, pt, aad)
			var got []byte
			pre := []byte{1, 2, 3, 4, 5}
			switch knob {
			case 1: // in place: dst = plaintext[:0] with room for the tag
				buf := make([]byte, pl, pl+ts)
				copy(buf, pt)
				got = a.Seal(buf[:0], nonce, buf, aad)
				c.Hit("probe:seal-in-place")
			case 2: // prefix with exact spare capacity: must append in place
				cn := sim.NewCanary(len(pre), 8, pl+ts+16, 0x5a)
				copy(cn.Buf, pre)
				d := cn.WithSpare(pl + ts)
				out := a.Seal(d, nonce, pt, aad)
				if len(out) != len(pre)+pl+ts || !bytes.Equal(out[:len(pre)], pre) {
					c.Fail("seal-append", i, op.K, "Seal did not append to dst (len %d, prefix kept %v)", len(out), len(out) >= len(pre) && bytes.Equal(out[:len(pre)], pre))
					return
				}
				if ok, off := cn.Intact(len(pre) + pl + ts); !ok {
					c.Fail("out-of-slice-write", i, op.K, "Seal wrote outside dst's capacity at %d", off)
					return
				}
				got = out[len(pre):]
			case 3: // prefix without capacity: must reallocate and leave dst's array alone
				d := append(make([]byte, 0, len(pre)), pre...)
				out := a.Seal(d, nonce, pt, aad)
				if len(out) != len(pre)+pl+ts || !bytes.Equal(out[:len(pre)], pre) || !bytes.Equal(d, pre) {
					c.Fail("seal-append", i, op.K, "Seal did not append to dst")
					return
				}
				got = out[len(pre):]
			case 5: // prefix with MORE spare capacity than needed: only the appended region may be written
				cn := sim.NewCanary(len(pre), 8, pl+ts+48, 0x5a)
				copy(cn.Buf, pre)
				d := cn.WithSpare(pl + ts + 32)
				out := a.Seal(d, nonce, pt, aad)
				if len(out) != len(pre)+pl+ts || !bytes.Equal(out[:len(pre)], pre) {
					c.Fail("seal-append", i, op.K, "Seal did not append to dst")
					return
				}
				if ok, off := cn.Intact(len(pre) + pl + ts); !ok {
					c.Fail("out-of-slice-write", i, op.K, "Seal wrote behind the appended region (offset %d of a dst with %d bytes of spare capacity; %d were appended)", off, pl+ts+32, pl+ts)
					return
				}
				got = out[len(pre):]
				c.Hit("probe:seal-into-larger-capacity")
			case 4: // plaintext and aad flush against guard pages
				g1, g2 := sim.GuardEnd(pl), sim.GuardEnd(al)
				copy(g1.Buf, pt)
				copy(g2.Buf, aad)
				got = a.Seal(nil, nonce, g1.Buf, g2.Buf)
				g1.Free()
				g2.Free()
				c.Hit("probe:guard-page-buffers")
			default:
				ptc := append([]byte{}, pt...)
				got = a.Seal(nil, nonce, ptc, aad)
				if !bytes.Equal(ptc, pt) {
					c.Fail("source-modified", i, op.K, "Seal modified the plaintext")
					return
				}
			}
			c.Out("sealed", got)
			if !bytes.Equal(got, want) {
				where := "ciphertext"
				if d := firstDiff(got, want); d >= pl {
					where = "tag"
				}
				c.Fail("seal-mismatch", i, op.K, "ccm=%v nonce %d tag %d path %d knob %d: sealed output (%d plaintext, %d AAD bytes) differs from the model in the %s at byte %d", ccm, ns, ts, path, knob, pl, al, where, firstDiff(got, want))
				return
			}
			recs = append(recs, &c04Rec{nonce: nonce, aad: aad, pt: pt, sealed: append([]byte{}, got...)})
			sealsDone++
		case "open", "flip", "all", "trunc", "extend", "swap":
			if len(recs) == 0 {
				continue
			}
			r := recs[((op.Int(0)%len(recs))+len(recs))%len(recs)]
			deliveries++
			switch op.K {
			case "open":
				c.Abs("o", op.Int(1))
				deliver(i, "open", r.nonce, r.aad, r.sealed, op.Int(1), r.pt)
			case "flip":
				field, pos, val, knob := op.Int(1)&3, op.Int(2), byte(op.Int(3)), op.Int(4)
				if val == 0 {
					val = 1
				}
				n, ad, s := append([]byte{}, r.nonce...), append([]byte{}, r.aad...), append([]byte{}, r.sealed...)
				ctLen := len(s) - ts
				var tgt []byte
				name := ""
				switch field {
				case 0:
					tgt, name = n, "nonce"
				case 1:
					tgt, name = ad, "aad"
				case 2:
					tgt, name = s[:ctLen], "ciphertext"
				default:
					tgt, name = s[ctLen:], "tag"
				}
				if len(tgt) == 0 {
					continue
				}
				if pos < 0 {
					pos = -pos
				}
				tgt[pos%len(tgt)] ^= val
				c.Abs("f", name, knob)
				c.Hit("fault:byte-altered-" + name)
				deliver(i, "flip-"+name, n, ad, s, knob, r.pt)
			case "all":
				// exhaustive: every single byte position of nonce | aad | ciphertext | tag
				c.Abs("all", sim.LenClass(len(r.sealed), 16))
				total := len(r.nonce) + len(r.aad) + len(r.sealed)
				stride := 1
				if total > 700 {
					stride = (total + 699) / 700 // long records: evenly sampled positions (exhaustive up to 700 bytes)
				}
				if total > 8000 {
					stride = (total + 47) / 48 // very long associated data: the bit-serial model dominates
				}
				for pos := 0; pos < total && !c.Failed(); pos += stride {
					n, ad, s := append([]byte{}, r.nonce...), append([]byte{}, r.aad...), append([]byte{}, r.sealed...)
					val := byte(1) << (pos % 8)
					name := "nonce"
					switch {
					case pos < len(n):
						n[pos] ^= val
					case pos < len(n)+len(ad):
						ad[pos-len(n)] ^= val
						name = "aad"
					default:
						s[pos-len(n)-len(ad)] ^= val
						name = "sealed"
					}
					deliver(i, "all-"+name, n, ad, s, pos%3, r.pt)
				}
				c.HitN("fault:exhaustive-single-byte-positions", (total+stride-1)/stride)
			case "trunc":
				k := op.Int(1)
				if k < 1 {
					k = 1
				}
				if k > len(r.sealed) {
					k = len(r.sealed)
				}
				c.Abs("t", k >= ts)
				c.Hit("fault:truncated")
				deliver(i, "trunc", r.nonce, r.aad, r.sealed[:len(r.sealed)-k], 0, r.pt)
			case "extend":
				k := op.Int(1)
				if k < 1 {
					k = 1
				}
				if k > 64 {
					k = 64
				}
				c.Abs("e")
				c.Hit("fault:extended")
				deliver(i, "extend", r.nonce, r.aad, append(append([]byte{}, r.sealed...), make([]byte, k)...), 0, r.pt)
			case "swap":
				o := recs[((op.Int(1)%len(recs))+len(recs))%len(recs)]
				f := op.Int(2) & 3
				n, ad, s := r.nonce, r.aad, append([]byte{}, r.sealed...)
				switch f {
				case 0:
					n = o.nonce
				case 1:
					ad = o.aad
				case 2: // other record's ciphertext with this record's tag
					s = append(append([]byte{}, o.sealed[:len(o.sealed)-ts]...), r.sealed[len(r.sealed)-ts:]...)
				default: // this ciphertext with the other tag
					s = append(append([]byte{}, r.sealed[:len(r.sealed)-ts]...), o.sealed[len(o.sealed)-ts:]...)
				}
				c.Abs("sw", f, o == r)
				c.Hit("fault:field-substituted")
				deliver(i, "swap", n, ad, s, 0, nil)
			}
		}
	}
	if sealsDone > 0 && deliveries > 0 {
		c.Nontriv = true
	}
}
