package props

import (
	"bytes"
	"crypto/ecdsa"
	"crypto/elliptic"
	"fmt"
	"math/big"
	"testing"

	"github.com/emmansun/gmsm/ecdh"
	"github.com/emmansun/gmsm/sm2"
	"github.com/emmansun/gmsm/sm3"
	"github.com/emmansun/gmsm/verifhook"

	"verif/harness/model/sm2m"
	"verif/harness/model/sm3m"
	"verif/harness/sim"
)

// C08: initiator and responder nodes run the real three-message protocol -
// each with either the sm2.KeyExchange object or the byte-oriented ecdh
// functions - over a simulated transport on which messages are serialised
// to bytes. The model is an executable protocol party: the verdict and
// output of every step are compared with it on the bytes actually delivered.

func init() {
	register(&Prop{
		ID:        "C08",
		Level:     "exploration",
		Nodes:     func(tier string) []string { return []string{"avx2", "avx", "noadx", "purego"} },
		Cross:     true,
		Gen:       genC08,
		Exec:      execC08,
		QuickSecs: 30, ThoroughSecs: 600, RunsPerJob: 60,
		Rule: "a run fixes two static keys (edge scalars included), user IDs (empty = default, up to 8191 bytes), key length and confirmation on/off, and plays 1-3 sessions; each session picks an implementation per role (sm2.KeyExchange object or ecdh functions), scripted ephemeral scalars, and a fault on one of the three messages (R_A; R_B,S_B; S_A): byte corruption, substitution of R by another valid point / an off-curve point / (0,0) / coordinates >= p, corrupted confirmation, replay of the message recorded in the previous session, drop followed by a restarted session; plus plain ECDH in both directions; " +
			"abstract history = (key kinds, uid classes, confirmation) + per session (implementations, fault kind and message); non-trivial = a completed or faulted session; distinct = distinct abstract histories",
		Real:  []string{"sm2.KeyExchange (NewKeyExchange, InitKeyExchange, RepondKeyExchange, ConfirmResponder, ConfirmInitiator)", "ecdh (NewPrivateKey/NewPublicKey, ECDH, SM2MQV, SM2SharedKey, SM2ZA)", "internal/sm2ec MQV (per node)"},
		Stubs: []string{"ephemeral scalar source: scripted reader", "transport: messages as bytes; corruption, substitution, replay, drop", "confirmation values of the ecdh-function party are computed by the harness from the library's V (the ecdh package has no confirmation API)"},
		Assume: []string{"model party: GB/T 32918.3 with exact integers (harness/model/sm2m, anchored on the GB/T 32918.5 key-exchange example at worker start-up)",
			"without confirmation an undetected substitution of a valid point legitimately yields different keys (only per-step agreement with the model party is required)"},
	})
}

func genC08(r *sim.Rand, tier string) *sim.Program {
	p := &sim.Program{Prop: "C08"}
	p.SetC("ka", r.Weighted(8, 1, 1))
	p.SetC("kb", r.Weighted(8, 1, 1))
	p.SetCB("da", r.Bytes(32))
	p.SetCB("db", r.Bytes(32))
	uid := func() []byte { return r.Bytes(r.PickInt(0, 0, 1, 16, 17, 64, 200, 8191)) }
	p.SetCB("ida", uid())
	p.SetCB("idb", uid())
	p.SetC("klen", r.PickInt(1, 16, 16, 32, 33, 48, 100, 200, 225, 300, 1000))
	p.SetC("conf", r.Weighted(1, 3))
	ns := r.Range(1, 3)
	for i := 0; i < ns; i++ {
		fault := 0
		if r.Chance(1, 2) {
			fault = r.Range(1, 12)
		}
		// impl A, impl B, fault kind, message index (0..2), position, value, scalar seeds
		degenerate := 0
		if r.Chance(1, 10) {
			degenerate = r.Range(1, 2) // 1: the responder's static key makes P_B + [x~_B]R_B the point at infinity; 2: same for the initiator
		}
		reuse := 0
		if i > 0 && r.Chance(1, 3) {
			reuse = 1 // the sm2.KeyExchange objects of the previous session are used again
		}
		mixed := 0
		if r.Chance(1, 5) {
			mixed = r.Range(1, 2) // 1: only the responder generates confirmation values; 2: only the initiator does
		}
		p.Add("session", r.Intn(2), r.Intn(2), fault, r.Intn(3), r.Intn(1<<16), 1+r.Intn(255), r.Intn(1<<30), r.Intn(1<<30), degenerate, reuse, mixed, r.PickInt(0, 0, 1, 2, 3), r.PickInt(0, 0, 0, 1, 2, 3, 6, 7, 4))
	}
	if r.Chance(1, 3) {
		p.Add("ecdh")
	}
	if r.Chance(1, 12) {
		p.Add("overlong", r.Intn(2), r.PickInt(8192, 8192, 8193, 9000, 65536), r.Intn(1<<30))
	}
	return p
}

type c08Party struct {
	impl         int
	initiator    bool
	priv         *sm2.PrivateKey
	d            *big.Int
	peerPub      *ecdsa.PublicKey
	uid, peerUID []byte
	klen         int
	conf         bool
	// sm2.KeyExchange implementation
	ke *sm2.KeyExchange
	// ecdh implementation
	es, ee *ecdh.PrivateKey
	rEph   *big.Int
	V      *ecdh.PublicKey
	ra, rb []byte // 65-byte encodings of the ephemeral points as this party saw them
}

func pt65(x, y *big.Int) []byte {
	return append(append([]byte{4}, x.FillBytes(make([]byte, 32))...), y.FillBytes(make([]byte, 32))...)
}

func (q *c08Party) confirmations() (s1, s2 []byte) {
	// S1 = SM3(0x02 || yV || SM3(xV || ZA || ZB || x1 || y1 || x2 || y2)), S2 with 0x03
	vb := q.V.Bytes()
	xv, yv := vb[1:33], vb[33:65]
	selfPub, _ := q.es.PublicKey().SM2ZA(sm3.New(), q.uid)
	pp, _ := ecdh.P256().NewPublicKey(pt65(q.peerPub.X, q.peerPub.Y))
	peerZ, _ := pp.SM2ZA(sm3.New(), q.peerUID)
	za, zb := selfPub, peerZ
	if !q.initiator {
		za, zb = peerZ, selfPub
	}
	inner := sm3m.SumParts(xv, za, zb, q.ra[1:], q.rb[1:])
	a := sm3m.SumParts([]byte{2}, yv, inner[:])
	b := sm3m.SumParts([]byte{3}, yv, inner[:])
	return a[:], b[:]
}

func execC08(t *testing.T, p *sim.Program, c *sim.Ctx) {
	verifhook.SetMaybeReadDecider(func() bool { return false })
	defer verifhook.SetMaybeReadDecider(nil)
	ka, kb := ((p.C("ka")%3)+3)%3, ((p.C("kb")%3)+3)%3
	privA0, dA0, err := c06Key(ka, p.CB("da"))
	if err != nil {
		c.Fail("setup", -1, "setup", "%v", err)
		return
	}
	privB0, dB0, err := c06Key(kb, p.CB("db"))
	if err != nil {
		c.Fail("setup", -1, "setup", "%v", err)
		return
	}
	idA, idB := p.CB("ida"), p.CB("idb")
	if len(idA) > 8191 {
		idA = idA[:8191]
	}
	if len(idB) > 8191 {
		idB = idB[:8191]
	}
	// both identifiers live in ONE message buffer, ID_A directly in front of ID_B, followed by other data: the slices
	// handed to the library have spare capacity that belongs to somebody else. The library may read them, nothing more.
	packed := append(append(append([]byte{}, idA...), idB...), bytes.Repeat([]byte{0xC3}, 256)...)
	packedWant := append([]byte{}, packed...)
	idA, idB = packed[:len(idA)], packed[len(idA):len(idA)+len(idB)]
	bufferIntact := func(i int, kind string) bool {
		if !bytes.Equal(packed, packedWant) {
			c.Fail("caller-buffer-modified", i, kind, "the buffer holding ID_A || ID_B || other data was written to at offset %d (ID_A %d bytes, ID_B %d bytes)", firstDiff(packed, packedWant), len(idA), len(idB))
			return false
		}
		return true
	}
	klen := p.C("klen")
	if klen < 1 || klen > 4096 {
		klen = 16
	}
	conf := p.C("conf") != 0
	eff := func(u []byte) []byte {
		if len(u) == 0 {
			return sm2m.DefaultUID
		}
		return u
	}
	PA0, PB0 := sm2m.Point{X: privA0.X, Y: privA0.Y}, sm2m.Point{X: privB0.X, Y: privB0.Y}
	zA0, zB0 := sm2m.ZA(eff(idA), PA0), sm2m.ZA(eff(idB), PB0)
	var keepA, keepB *sm2.KeyExchange // objects of the previous session (reuse knob)
	c.Abs(ka, kb, sim.LenClass(len(idA), 64), sim.LenClass(len(idB), 64), conf, sim.LenClass(klen, 32))
	var prevM2 []byte // R_B || S_B of the previous session (for replay)
	var prevM1, prevM3 []byte
	scalar := func(seed int, tag string) *big.Int {
		b := derive(append([]byte(fmt.Sprint(seed)), p.CB("da")...), tag, 32)
		b[0] &= 0x7f
		b[31] |= 1
		return new(big.Int).SetBytes(b)
	}
	newParty := func(impl int, initiator bool, r *big.Int, privA, privB *sm2.PrivateKey, dA, dB *big.Int, reuseKE *sm2.KeyExchange, conf bool, late bool) (*c08Party, error) {
		q := &c08Party{impl: impl, initiator: initiator, klen: klen, conf: conf, rEph: r}
		if initiator {
			q.priv, q.d, q.peerPub, q.uid, q.peerUID = privA, dA, &ecdsa.PublicKey{Curve: privB.Curve, X: privB.X, Y: privB.Y}, idA, idB
		} else {
			q.priv, q.d, q.peerPub, q.uid, q.peerUID = privB, dB, &ecdsa.PublicKey{Curve: privA.Curve, X: privA.X, Y: privA.Y}, idB, idA
		}
		var err error
		if impl == 0 {
			if reuseKE != nil {
				q.ke = reuseKE
				c.Hit("probe:key-exchange-object-reused")
				return q, nil
			}
			if late {
				// the peer is not known when the object is made (TLCP): parameters are supplied by the one permitted
				// SetPeerParameters call; an empty peer identifier means the default one there too
				c.Hit("probe:late-peer-parameters")
				if q.ke, err = sm2.NewKeyExchange(q.priv, nil, q.uid, nil, klen, conf); err != nil {
					return q, err
				}
				return q, q.ke.SetPeerParameters(q.peerPub, q.peerUID)
			}
			q.ke, err = sm2.NewKeyExchange(q.priv, q.peerPub, q.uid, q.peerUID, klen, conf)
			return q, err
		}
		if q.es, err = ecdh.P256().NewPrivateKey(q.d.FillBytes(make([]byte, 32))); err != nil {
			return q, err
		}
		q.ee, err = ecdh.P256().NewPrivateKey(r.FillBytes(make([]byte, 32)))
		return q, err
	}
	defer func() {
		if !c.Failed() {
			bufferIntact(len(p.Ops)-1, "session")
		}
	}()
	for i, op := range p.Ops {
		if c.Failed() {
			return
		}
		if i > 0 && !bufferIntact(i-1, p.Ops[i-1].K) {
			return
		}
		if op.K == "overlong" {
			// an identifier of 8192 bytes or more has no ENTL (its bit length does not fit 16 bits): Z is undefined, so no
			// implementation may hand out a key - and the two implementations must not disagree about it
			c.OpsDone++
			n := op.Int(1)
			if n < 8192 || n > 70000 {
				n = 8192
			}
			long := derive(p.CB("da"), "overlong id", n)
			side := op.Int(0) & 1
			c.Abs("overlong", side, n == 8192)
			c.Hit("probe:identifier-too-long")
			ida, idb := idA, idB
			if side == 0 {
				ida = long
			} else {
				idb = long
			}
			pubB := &ecdsa.PublicKey{Curve: privB0.Curve, X: privB0.X, Y: privB0.Y}
			_, e1 := sm2.NewKeyExchange(privA0, pubB, ida, idb, klen, conf)
			c.OutErr("overlong-sm2", e1)
			ea, _ := ecdh.P256().NewPrivateKey(dA0.FillBytes(make([]byte, 32)))
			eb, _ := ecdh.P256().NewPrivateKey(dB0.FillBytes(make([]byte, 32)))
			rA, rB := scalar(op.Int(2), "ra"), scalar(op.Int(2), "rb")
			eea, _ := ecdh.P256().NewPrivateKey(rA.FillBytes(make([]byte, 32)))
			eeb, _ := ecdh.P256().NewPrivateKey(rB.FillBytes(make([]byte, 32)))
			if ea == nil || eb == nil || eea == nil || eeb == nil {
				continue
			}
			va, ev := ea.SM2MQV(eea, eb.PublicKey(), eeb.PublicKey())
			if ev != nil {
				continue
			}
			for role := 0; role < 2; role++ {
				// initiator's view (ida is its own identifier) and responder's view of the same pair
				var key []byte
				var e2 error
				if role == 0 {
					key, e2 = va.SM2SharedKey(false, klen, ea.PublicKey(), eb.PublicKey(), ida, idb)
				} else {
					key, e2 = va.SM2SharedKey(true, klen, eb.PublicKey(), ea.PublicKey(), idb, ida)
				}
				c.OutErr("overlong-ecdh", e2)
				if e2 == nil {
					c.Fail("invalid-identifier-accepted", i, op.K, "ecdh SM2SharedKey (responder=%v) returns a %d-byte key for an identifier of %d bytes (side %d), for which Z is undefined; sm2.NewKeyExchange: %v", role == 1, len(key), n, side, e1)
					return
				}
			}
			if e1 == nil {
				c.Fail("invalid-identifier-accepted", i, op.K, "sm2.NewKeyExchange accepts an identifier of %d bytes (side %d), for which Z is undefined", n, side)
				return
			}
			continue
		}
		if op.K == "ecdh" {
			c.OpsDone++
			c.Abs("ecdh")
			privA, dA, dB, PB := privA0, dA0, dB0, PB0
			ea, e1 := ecdh.P256().NewPrivateKey(dA.FillBytes(make([]byte, 32)))
			eb, e2 := ecdh.P256().NewPrivateKey(dB.FillBytes(make([]byte, 32)))
			if e1 != nil || e2 != nil {
				c.Fail("ecdh-key", i, op.K, "ecdh.NewPrivateKey refused a valid scalar: %v %v", e1, e2)
				return
			}
			s1, e1 := ea.ECDH(eb.PublicKey())
			s2, e2 := eb.ECDH(ea.PublicKey())
			want := sm2m.ScalarMult(dA, PB).X.FillBytes(make([]byte, 32))
			c.Out("ecdh", s1)
			if e1 != nil || e2 != nil || !bytes.Equal(s1, s2) || !bytes.Equal(s1, want) {
				c.Fail("ecdh-mismatch", i, op.K, "plain ECDH: the two directions or the model disagree (%v %v)", e1, e2)
			}
			// ONE peer key object used again and again: every use gives the model's value, whatever the object was used for before
			pb2, e3 := ecdh.P256().NewPublicKey(sm2m.MarshalUncompressed(PB))
			dC := scalar(i+7, "ecdh-c")
			ec, e4 := ecdh.P256().NewPrivateKey(dC.FillBytes(make([]byte, 32)))
			if e3 != nil || e4 != nil {
				c.Fail("ecdh-key", i, op.K, "ecdh refused a valid key: %v %v", e3, e4)
				return
			}
			wantC := sm2m.ScalarMult(dC, PB).X.FillBytes(make([]byte, 32))
			for round := 0; round < 2 && !c.Failed(); round++ {
				for _, pk := range []*ecdh.PublicKey{pb2, eb.PublicKey()} {
					sa, ea1 := ea.ECDH(pk)
					sc, ec1 := ec.ECDH(pk)
					if ea1 != nil || ec1 != nil || !bytes.Equal(sa, want) || !bytes.Equal(sc, wantC) {
						c.Fail("ecdh-mismatch", i, op.K, "plain ECDH with a peer key OBJECT that was used before (round %d) differs from the model (%v %v)", round, ea1, ec1)
						break
					}
				}
			}
			if !c.Failed() {
				c.Hit("probe:peer-key-object-reused")
				// implicit-signature agreement with the used object as the peer's static key = with a fresh object
				eph, _ := ecdh.P256().NewPrivateKey(scalar(i+8, "ecdh-e").FillBytes(make([]byte, 32)))
				fresh, _ := ecdh.P256().NewPublicKey(sm2m.MarshalUncompressed(PB))
				if eph != nil && fresh != nil {
					v1, m1 := ea.SM2MQV(eph, pb2, ec.PublicKey())
					v2, m2 := ea.SM2MQV(eph, fresh, ec.PublicKey())
					if (m1 == nil) != (m2 == nil) || (m1 == nil && !bytes.Equal(v1.Bytes(), v2.Bytes())) {
						c.Fail("ecdh-mismatch", i, op.K, "SM2MQV with a peer key object that was used for plain ECDH before differs from SM2MQV with a fresh object of the same key (%v / %v)", m1, m2)
					}
				}
				if !bytes.Equal(pb2.Bytes(), sm2m.MarshalUncompressed(PB)) {
					c.Fail("ecdh-mismatch", i, op.K, "the peer key object no longer serialises to its key")
				}
			}
			// the sm2 key converts to the same ecdh key
			if k, err := privA.ECDH(); err != nil || !bytes.Equal(k.Bytes(), ea.Bytes()) || !bytes.Equal(k.PublicKey().Bytes(), ea.PublicKey().Bytes()) {
				c.Fail("ecdh-conversion", i, op.K, "sm2.PrivateKey.ECDH() does not give the same key")
			}
			continue
		}
		if op.K != "session" {
			continue
		}
		c.OpsDone++
		c.Nontriv = true
		implA, implB := op.Int(0)&1, op.Int(1)&1
		fault, fmsg, fpos, fval := op.Int(2), ((op.Int(3)%3)+3)%3, op.Int(4), byte(op.Int(5))
		if fault < 0 || fault > 12 {
			fault = 0
		}
		if fval == 0 {
			fval = 1
		}
		rA, rB := scalar(op.Int(6), "ra"), scalar(op.Int(7), "rb")
		degenerate, reuse := op.Int(8), op.Int(9) == 1
		// confirmation options per party (GB/T 32918.3: the confirmation values are optional); a party checks a value it RECEIVES
		confA, confB := conf, conf
		switch op.Int(10) {
		case 1:
			confA, confB = false, true
			reuse = false
		case 2:
			confA, confB = true, false
			reuse = false
		}
		if confA != confB {
			implA, implB = 0, 0 // the harness-computed confirmations of the ecdh party assume symmetric options
			c.Hit("probe:mixed-confirmation-options")
		}
		// session-local static keys (a degenerate party's static key is derived from its ephemeral key)
		privA, dA, PA, zA := privA0, dA0, PA0, zA0
		privB, dB, PB, zB := privB0, dB0, PB0, zB0
		if degenerate == 1 || degenerate == 2 {
			fault = 0
			reuse = false
			r := rB
			if degenerate == 2 {
				r = rA
			}
			R := sm2m.ScalarBaseMult(r)
			xt := new(big.Int).And(R.X, new(big.Int).Sub(new(big.Int).Lsh(big.NewInt(1), 127), big.NewInt(1)))
			xt.Add(xt, new(big.Int).Lsh(big.NewInt(1), 127))
			dd := new(big.Int).Mul(xt, r)
			dd.Neg(dd)
			dd.Mod(dd, sm2m.N) // d = -(x~ * r) mod n  =>  P + [x~]R = O and t = 0
			if dd.Sign() > 0 && dd.Cmp(new(big.Int).Sub(sm2m.N, big.NewInt(1))) < 0 {
				if k, err := sm2.NewPrivateKey(dd.FillBytes(make([]byte, 32))); err == nil {
					if degenerate == 1 {
						privB, dB, PB = k, dd, sm2m.Point{X: k.X, Y: k.Y}
						zB = sm2m.ZA(eff(idB), PB)
					} else {
						privA, dA, PA = k, dd, sm2m.Point{X: k.X, Y: k.Y}
						zA = sm2m.ZA(eff(idA), PA)
					}
					c.Hit("probe:degenerate-static-key-V-is-infinity")
				}
			}
		}
		c.Abs("s", implA, implB, fault, fmsg, degenerate, reuse, op.Int(10))
		attempts := 1
		if fault == 9 {
			attempts = 2 // a dropped message: the session is restarted and must then complete in three deliveries
		}
		for attempt := 0; attempt < attempts && !c.Failed(); attempt++ {
			f := fault
			if attempt == 1 {
				f = 0
				c.Hit("probe:restarted-session-completes")
			}
			var ruA, ruB *sm2.KeyExchange
			if reuse && attempt == 0 {
				ruA, ruB = keepA, keepB
			}
			A, err := newParty(implA, true, rA, privA, privB, dA, dB, ruA, confA, op.Int(11)&1 == 1)
			if err != nil {
				c.Fail("setup", i, op.K, "initiator: %v", err)
				return
			}
			B, err := newParty(implB, false, rB, privA, privB, dA, dB, ruB, confB, op.Int(11)&2 == 2)
			if err != nil {
				c.Fail("setup", i, op.K, "responder: %v", err)
				return
			}
			if degenerate == 0 && confA == conf && confB == conf {
				keepA, keepB = A.ke, B.ke
			} else {
				keepA, keepB = nil, nil
			}
			// the *ecdsa.PublicKey objects the application hands to the library or receives from it stay the application's
			var heldObj []*ecdsa.PublicKey
			var heldWant [][]byte
			// both parties in one process, handing the objects they got from the library straight to the peer's object (as the
			// package's own tests do) instead of bytes: only in fault-free sessions between two sm2.KeyExchange objects
			shareObjs := op.Int(12)&4 == 4 && implA == 0 && implB == 0 && f == 0
			var sharedRA, sharedRB *ecdsa.PublicKey
			hold := func(k *ecdsa.PublicKey) *ecdsa.PublicKey {
				if k != nil && k.X != nil && k.Y != nil {
					heldObj = append(heldObj, k)
					heldWant = append(heldWant, pt65(k.X, k.Y))
				}
				return k
			}
			heldIntact := func(when string) bool {
				for j, k := range heldObj {
					if k.X == nil || k.Y == nil || k.X.BitLen() > 256 || k.Y.BitLen() > 256 || !bytes.Equal(pt65(k.X, k.Y), heldWant[j]) {
						c.Fail("destroy-damaged-caller-data", i, op.K, "%s: an ephemeral public key object that the application received from / handed to the library was changed (object %d)", when, j)
						return false
					}
				}
				return true
			}
			// ---- A: message 1
			var m1 []byte
			if A.impl == 0 {
				R, err := A.ke.InitKeyExchange(&sim.ScriptReader{Data: rA.FillBytes(make([]byte, 32))})
				if err != nil {
					c.Fail("init-failed", i, op.K, "InitKeyExchange: %v", err)
					return
				}
				sharedRA = R
				m1 = pt65(R.X, R.Y)
			} else {
				m1 = A.ee.PublicKey().Bytes()
			}
			RA := sm2m.ScalarBaseMult(rA)
			if !bytes.Equal(m1, sm2m.MarshalUncompressed(RA)) {
				c.Fail("ephemeral-mismatch", i, op.K, "R_A is not [r_A]G")
				return
			}
			A.ra = m1
			c.Out("m1", m1)
			// transport
			d1 := c08Fault(c, f, fmsg == 0, m1, prevM1, fpos, fval, 65)
			if d1 == nil {
				c.Hit("fault:message-dropped")
				continue
			}
			// ---- B: message 2
			RAseen, okRA := sm2m.Unmarshal(d1)
			var mres sm2m.KAResult
			mok := false
			RB := sm2m.ScalarBaseMult(rB)
			if okRA {
				mres, mok = sm2m.KeyAgreement(false, dB, rB, PA, RAseen, zA, zB, RAseen, RB, klen)
			}
			var m2 []byte
			var berr error
			B.ra = d1
			if B.impl == 0 {
				rx, ry := new(big.Int).SetBytes(d1[1:33]), new(big.Int).SetBytes(d1[33:65])
				if d1[0] != 4 {
					berr = fmt.Errorf("harness: message 1 is not an uncompressed point") // the application's deserialiser
				} else {
					R, s, err := B.ke.RepondKeyExchange(&sim.ScriptReader{Data: rB.FillBytes(make([]byte, 32))}, func() *ecdsa.PublicKey {
						if shareObjs && sharedRA != nil {
							c.Hit("probe:ephemeral-key-objects-shared-between-parties")
							return sharedRA
						}
						if f == 12 && fmsg == 0 {
							return &ecdsa.PublicKey{Curve: elliptic.P256(), X: rx, Y: ry}
						}
						return hold(&ecdsa.PublicKey{Curve: privB.Curve, X: rx, Y: ry})
					}())
					berr = err
					if err == nil {
						sharedRB = R
						m2 = append(pt65(R.X, R.Y), s...)
					}
				}
			} else {
				pa, _ := ecdh.P256().NewPublicKey(pt65(privA.X, privA.Y))
				era, err := ecdh.P256().NewPublicKey(d1)
				berr = err
				if err == nil {
					B.V, berr = B.es.SM2MQV(B.ee, pa, era)
				}
				if berr == nil {
					B.rb = B.ee.PublicKey().Bytes()
					m2 = append([]byte{}, B.rb...)
					if confB {
						s1, _ := B.confirmations()
						m2 = append(m2, s1...)
					}
				}
			}
			c.OutErr("b-respond", berr)
			if !mok {
				if berr == nil {
					c.Fail("invalid-point-accepted", i, op.K, "the responder continued although the initiator point is invalid or the agreed point V is the point at infinity (fault %d, degenerate %d): %x", f, degenerate, d1)
					return
				}
				c.Hit("fault:invalid-point-rejected")
				continue
			}
			if berr != nil {
				c.Fail("responder-failed", i, op.K, "the responder (impl %d) refused a valid R_A (fault %d): %v", B.impl, f, berr)
				return
			}
			wantM2 := sm2m.MarshalUncompressed(RB)
			if confB {
				wantM2 = append(wantM2, mres.S1[:]...)
			}
			c.Out("m2", m2)
			if !bytes.Equal(m2, wantM2) {
				c.Fail("responder-output", i, op.K, "responder (impl %d): R_B / S_B differ from the GB/T 32918.3 values (first difference at byte %d)", B.impl, firstDiff(m2, wantM2))
				return
			}
			B.rb = m2[:65]
			d2 := c08Fault(c, f, fmsg == 1, m2, prevM2, fpos, fval, len(m2))
			if d2 == nil {
				c.Hit("fault:message-dropped")
				continue
			}
			// ---- A: message 3
			RBseen, okRB := sm2m.Unmarshal(d2[:65])
			sbSeen := d2[65:]
			var ares sm2m.KAResult
			aok := false
			if okRB {
				ares, aok = sm2m.KeyAgreement(true, dA, rA, PB, RBseen, zA, zB, RA, RBseen, klen)
				if aok && len(sbSeen) > 0 && !bytes.Equal(sbSeen, ares.S1[:]) {
					aok = false // a confirmation value that was received must be right, whatever this party's own option
				}
			}
			var keyA, m3 []byte
			var aerr error
			A.rb = d2[:65]
			if A.impl == 0 {
				rx, ry := new(big.Int).SetBytes(d2[1:33]), new(big.Int).SetBytes(d2[33:65])
				if d2[0] != 4 {
					aerr = fmt.Errorf("harness: message 2 does not start with an uncompressed point")
				} else {
					inRB := hold(&ecdsa.PublicKey{Curve: privA.Curve, X: rx, Y: ry})
					if f == 12 && fmsg == 1 {
						inRB = &ecdsa.PublicKey{Curve: elliptic.P256(), X: rx, Y: ry}
					}
					if shareObjs && sharedRB != nil {
						inRB = sharedRB
					}
					keyA, m3, aerr = A.ke.ConfirmResponder(inRB, sbSeen)
					if aerr == nil && op.Int(12)&2 == 2 {
						// the initiator is done and wipes its protocol object while the responder still waits for S_A
						m3 = append([]byte{}, m3...)
						keyA = append([]byte{}, keyA...)
						A.ke.Destroy()
						keepA = nil
						c.Hit("probe:initiator-destroyed-before-responder-finished")
						if !heldIntact("Destroy of the initiator's object in mid-session") {
							return
						}
					}
				}
			} else {
				pb, _ := ecdh.P256().NewPublicKey(pt65(privB.X, privB.Y))
				erb, err := ecdh.P256().NewPublicKey(d2[:65])
				aerr = err
				if err == nil {
					A.V, aerr = A.es.SM2MQV(A.ee, pb, erb)
				}
				if aerr == nil {
					s1, s2 := A.confirmations()
					if len(sbSeen) > 0 && !bytes.Equal(s1, sbSeen) {
						aerr = fmt.Errorf("harness: S_B mismatch")
					} else {
						keyA, aerr = A.V.SM2SharedKey(false, klen, A.es.PublicKey(), pb, idA, idB)
						if confA {
							m3 = s2
						}
					}
				}
			}
			c.OutErr("a-confirm", aerr)
			if !aok {
				if aerr == nil {
					c.Fail("altered-message-accepted", i, op.K, "the initiator (impl %d) accepted an altered / invalid second message (fault %d on message %d) and returned a key", A.impl, f, fmsg)
					return
				}
				c.Hit("fault:altered-message-rejected")
				continue
			}
			if aerr != nil {
				c.Fail("initiator-failed", i, op.K, "the initiator (impl %d) refused a valid second message (fault %d): %v", A.impl, f, aerr)
				return
			}
			c.Out("keyA", keyA)
			if !bytes.Equal(keyA, ares.Key) {
				c.Fail("key-mismatch", i, op.K, "initiator (impl %d): key differs from the GB/T 32918.3 value", A.impl)
				return
			}
			if confA && !bytes.Equal(m3, ares.S2[:]) {
				c.Fail("confirmation-mismatch", i, op.K, "initiator (impl %d): S_A differs from the GB/T 32918.3 value", A.impl)
				return
			}
			var d3 []byte
			if confA {
				d3 = c08Fault(c, f, fmsg == 2, m3, prevM3, fpos, fval, 32)
				if d3 == nil {
					c.Hit("fault:message-dropped")
					continue
				}
			}
			// ---- B: finish
			bok := d3 == nil || bytes.Equal(d3, mres.S2[:])
			var keyB []byte
			if B.impl == 0 {
				keyB, berr = B.ke.ConfirmInitiator(d3)
			} else {
				_, s2 := B.confirmations()
				if d3 != nil && !bytes.Equal(s2, d3) {
					berr = fmt.Errorf("harness: S_A mismatch")
				} else {
					pa, _ := ecdh.P256().NewPublicKey(pt65(privA.X, privA.Y))
					keyB, berr = B.V.SM2SharedKey(true, klen, B.es.PublicKey(), pa, idB, idA)
				}
			}
			c.OutErr("b-finish", berr)
			if !bok {
				if berr == nil {
					c.Fail("altered-message-accepted", i, op.K, "the responder (impl %d) accepted a wrong confirmation value S_A", B.impl)
					return
				}
				c.Hit("fault:altered-message-rejected")
				continue
			}
			if berr != nil {
				c.Fail("responder-failed", i, op.K, "the responder (impl %d) refused a valid S_A: %v", B.impl, berr)
				return
			}
			c.Out("keyB", keyB)
			if !bytes.Equal(keyB, mres.Key) {
				c.Fail("key-mismatch", i, op.K, "responder (impl %d): key differs from the GB/T 32918.3 value", B.impl)
				return
			}
			if (confA || confB) && !bytes.Equal(keyA, keyB) {
				c.Fail("keys-differ", i, op.K, "both parties finished with confirmation but hold different keys")
				return
			}
			if f == 0 {
				c.Hit("probe:session-completed-in-three-deliveries")
				if !bytes.Equal(keyA, keyB) {
					c.Fail("keys-differ", i, op.K, "fault-free session: the parties hold different keys")
					return
				}
			}
			prevM1, prevM2, prevM3 = m1, m2, m3
			if op.Int(12)&1 == 1 {
				// both applications wipe their protocol objects: everything that was handed to or is owned by the callers must survive
				snap := func() []byte {
					var b []byte
					for _, x := range [][]byte{keyA, keyB, m1, m2, m3, idA, idB, privA.D.Bytes(), privA.X.Bytes(), privA.Y.Bytes(), privB.D.Bytes(), privB.X.Bytes(), privB.Y.Bytes()} {
						b = append(append(b, byte(len(x)), byte(len(x)>>8)), x...)
					}
					return b
				}
				before := snap()
				if A.ke != nil {
					A.ke.Destroy()
				}
				if B.ke != nil {
					B.ke.Destroy()
				}
				if A.ke != nil || B.ke != nil {
					c.Hit("probe:destroy-after-session")
				}
				keepA, keepB = nil, nil
				if !heldIntact("Destroy after the session") {
					return
				}
				if !bytes.Equal(before, snap()) {
					c.Fail("destroy-damaged-caller-data", i, op.K, "Destroy on the key-exchange objects changed the agreed key, a message, an identifier or a static key that belongs to the caller")
					return
				}
			}
		}
	}
}

// c08Fault applies fault kind f to message m if it is the targeted one. nil = dropped.
func c08Fault(c *sim.Ctx, f int, targeted bool, m, prev []byte, pos int, val byte, n int) []byte {
	if f == 0 || !targeted {
		return m
	}
	out := append([]byte{}, m...)
	if pos < 0 {
		pos = -pos
	}
	switch f {
	case 1: // byte corruption anywhere
		out[pos%len(out)] ^= val
		c.Hit("fault:byte-corrupted")
	case 2: // corruption inside the point coordinates (or the confirmation if there is no point)
		k := len(out)
		if k > 65 {
			k = 65
		}
		out[1+pos%(k-1)] ^= val
		c.Hit("fault:byte-corrupted")
	case 3: // R replaced by another valid point
		if len(out) >= 65 {
			q := sm2m.ScalarBaseMult(big.NewInt(int64(2 + pos%1000)))
			copy(out, sm2m.MarshalUncompressed(q))
			c.Hit("fault:point-substituted-valid")
		} else {
			out[pos%len(out)] ^= val
		}
	case 4: // off-curve point
		if len(out) >= 65 {
			out[64] ^= 1
			c.Hit("fault:point-substituted-off-curve")
		} else {
			out[pos%len(out)] ^= val
		}
	case 5: // (0,0)
		if len(out) >= 65 {
			for j := 1; j < 65; j++ {
				out[j] = 0
			}
			c.Hit("fault:point-substituted-zero")
		} else {
			for j := range out {
				out[j] = 0
			}
		}
	case 6: // x coordinate >= p
		if len(out) >= 65 {
			for j := 1; j < 33; j++ {
				out[j] = 0xff
			}
			c.Hit("fault:point-coordinate-out-of-range")
		} else {
			out[0] ^= val
		}
	case 7: // corrupted confirmation value (tail of the message)
		out[len(out)-1-pos%min(32, len(out))] ^= val
		c.Hit("fault:confirmation-corrupted")
	case 8: // replay of the same message of the previous session
		if len(prev) == len(out) {
			copy(out, prev)
			c.Hit("fault:replayed-from-earlier-session")
		} else {
			out[pos%len(out)] ^= val
		}
	case 9:
		return nil
	case 12: // a point of ANOTHER curve (the base point of NIST P-256); the application hands it over tagged with that curve
		if len(out) >= 65 {
			p := elliptic.P256().Params()
			copy(out, pt65(p.Gx, p.Gy))
			c.Hit("fault:point-of-another-curve")
		} else {
			out[pos%len(out)] ^= val
		}
	case 10, 11: // a NON-CANONICAL encoding congruent to a real point: ordinate y + p (10) or abscissa x + p (11)
		if len(out) >= 65 {
			pt := sm2m.SmallYPoint(pos)
			if f == 11 {
				pt = sm2m.SmallXPoint(pos)
			}
			if enc, ok := sm2m.NonCanonical(pt, 11-f); ok {
				copy(out, enc)
				c.Hit("fault:point-non-canonical-congruent")
				break
			}
		}
		out[pos%len(out)] ^= val
	}
	return out
}
