package props

import (
	"crypto/x509"
	"crypto/x509/pkix"
	"fmt"
	"math/big"
	"net"
	"time"

	"github.com/emmansun/gmsm/sm2"
	"github.com/emmansun/gmsm/smx509"

	"verif/harness/sim"
)

// opIPNC: a self-contained two-certificate PKI (root with IP-range name constraints -> leaf with IP addresses) at an
// explicit verification time, judged in both directions by bit-exact prefix arithmetic (RFC 5280 4.2.1.10: an address
// is inside a range iff address AND mask == network AND mask). The same leaf is then offered to an IMPOSTOR root:
// another key under the same subject and the same SubjectKeyId as the real root - what an earlier successful check
// of the leaf may have left behind anywhere must not make it pass.
//
// ints: seed, family (0 v4, 1 v6), prefix length selector, permitted/excluded selector, leaf address selector
func (r *c15Run) opIPNC(i int, op sim.Op) {
	c := r.c
	r.check++
	seed := append([]byte(fmt.Sprint("ipnc", op.Int(0))), r.seed...)
	now := time.Date(2031, 6, 1, 0, 0, 0, 0, time.UTC)
	v6 := op.Int(1)&1 == 1
	alen, abits := 4, 32
	if v6 {
		alen, abits = 16, 128
	}
	plens := []int{0, 1, 7, 8, 9, 12, 15, 16, 17, 20, 23, 24, 25, 28, 31, 32}
	if v6 {
		plens = []int{0, 1, 7, 8, 9, 33, 47, 48, 49, 63, 64, 65, 100, 127, 128}
	}
	plen := plens[c15Mod(op.Int(2), len(plens))]
	if plen > abits {
		plen = abits
	}
	mask := net.CIDRMask(plen, abits)
	base := derive(seed, "net", alen)
	netw := make(net.IP, alen)
	for k := range netw {
		netw[k] = base[k] & mask[k]
	}
	rng := &net.IPNet{IP: netw, Mask: mask}
	excluded := op.Int(3)&1 == 1
	// the leaf address: inside the range, or differing from it in ONE bit - the last bit of the prefix, the first bit
	// behind it, the first bit of the last prefix octet ...
	addr := make(net.IP, alen)
	rest := derive(seed, "host", alen)
	for k := range addr {
		addr[k] = netw[k] | (rest[k] &^ mask[k])
	}
	flip := -1
	switch c15Mod(op.Int(4), 6) {
	case 1:
		flip = plen - 1 // last prefix bit: outside
	case 2:
		flip = plen // first host bit: still inside
	case 3:
		flip = (plen - 1) / 8 * 8 // first bit of the octet that holds the end of the prefix
	case 4:
		flip = plen - 2
	case 5:
		flip = 0
	}
	if flip >= 0 && flip < abits {
		addr[flip/8] ^= 0x80 >> (flip % 8)
	}
	inside := true
	for k := range addr {
		if addr[k]&mask[k] != netw[k]&mask[k] {
			inside = false
		}
	}
	wantOK := inside != excluded
	c.Abs("ipnc", v6, plen%8 == 0, excluded, inside)

	rk, e1 := sm2.NewPrivateKey(scalarFrom(seed, "root"))
	ik, e2 := sm2.NewPrivateKey(scalarFrom(seed, "impostor"))
	lk, e3 := sm2.NewPrivateKey(scalarFrom(seed, "leaf"))
	if e1 != nil || e2 != nil || e3 != nil {
		return
	}
	ski := derive(seed, "ski", 20)
	rootT := func() *x509.Certificate {
		t := &x509.Certificate{SerialNumber: big.NewInt(31000), Subject: pkix.Name{Organization: []string{"verif"}, CommonName: "verif ip-constrained root"},
			NotBefore: now.AddDate(-1, 0, 0), NotAfter: now.AddDate(1, 0, 0), BasicConstraintsValid: true, IsCA: true, KeyUsage: x509.KeyUsageCertSign, SubjectKeyId: ski}
		if excluded {
			t.ExcludedIPRanges = []*net.IPNet{rng}
		} else {
			t.PermittedIPRanges = []*net.IPNet{rng}
		}
		t.PermittedDNSDomainsCritical = true
		return t
	}
	mk := func(t, parent *x509.Certificate, pub any, key *sm2.PrivateKey, tag string) *smx509.Certificate {
		der, err := smx509.CreateCertificate(&sim.ScriptReader{Data: scalarFrom(seed, "sig "+tag), Fill: 3, Step: 7}, t, parent, pub, key)
		if err != nil {
			c.Fail("create-refused", i, op.K, "CreateCertificate (%s): %v", tag, err)
			return nil
		}
		crt, err := smx509.ParseCertificate(der)
		if err != nil {
			c.Fail("issued-object-unparsable", i, op.K, "ParseCertificate (%s): %v", tag, err)
			return nil
		}
		return crt
	}
	rt := rootT()
	root := mk(rt, rt, &rk.PublicKey, rk, "root")
	if root == nil {
		return
	}
	lt := &x509.Certificate{SerialNumber: big.NewInt(31001), Subject: pkix.Name{Organization: []string{"verif"}, CommonName: "verif ip leaf"},
		NotBefore: now.AddDate(-1, 0, 0), NotAfter: now.AddDate(1, 0, 0), KeyUsage: x509.KeyUsageDigitalSignature, IPAddresses: []net.IP{addr}, AuthorityKeyId: ski}
	leaf := mk(lt, rt, &lk.PublicKey, rk, "leaf")
	if leaf == nil {
		return
	}
	it := rootT()
	it.PermittedIPRanges, it.ExcludedIPRanges = nil, nil
	imp := mk(it, it, &ik.PublicKey, ik, "impostor")
	if imp == nil {
		return
	}
	pool := func(cs ...*smx509.Certificate) *smx509.CertPool {
		p := smx509.NewCertPool()
		for _, x := range cs {
			p.AddCert(x)
		}
		return p
	}
	opts := func(p *smx509.CertPool) smx509.VerifyOptions {
		return smx509.VerifyOptions{Roots: p, CurrentTime: now, KeyUsages: []smx509.ExtKeyUsage{smx509.ExtKeyUsageAny}}
	}
	chains, err := leaf.Verify(opts(pool(root)))
	c.OutErr("ipnc", err)
	c.Hit("probe:ip-name-constraint")
	if plen%8 != 0 {
		c.Hit("probe:ip-name-constraint-prefix-not-octet-aligned")
	}
	switch {
	case err == nil && !wantOK:
		c.Fail("chain-violates-name-constraints", i, op.K, "Verify returned %d chain(s) for a leaf with address %v under a root whose %s IP range is %v (inside=%v)", len(chains), addr, map[bool]string{true: "EXCLUDED", false: "PERMITTED"}[excluded], rng, inside)
		return
	case err != nil && wantOK:
		c.Fail("valid-chain-refused", i, op.K, "Verify refused a leaf with address %v under a root whose %s IP range is %v (inside=%v): %v", addr, map[bool]string{true: "excluded", false: "permitted"}[excluded], rng, inside, err)
		return
	}
	// the real root first (above and here), then the impostor
	if e := leaf.CheckSignatureFrom(root); e != nil {
		c.Fail("honest-signature-rejected", i, op.K, "CheckSignatureFrom(real issuer): %v", e)
		return
	}
	c.Hit("probe:impostor-root-with-same-subject-and-key-id")
	if e := leaf.CheckSignatureFrom(imp); e == nil {
		c.Fail("wrong-issuer-accepted", i, op.K, "after the leaf had been checked under its issuer, CheckSignatureFrom accepts ANOTHER key that sits under the same subject and SubjectKeyId")
		return
	}
	if ch, e := leaf.Verify(opts(pool(imp))); e == nil {
		c.Fail("chain-ends-outside-roots", i, op.K, "Verify with an impostor root (same subject and SubjectKeyId, another key) as the only root returned %d chain(s)", len(ch))
	}
}
