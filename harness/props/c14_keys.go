package props

import (
	"bytes"
	"crypto/ecdsa"
	"crypto/elliptic"
	"crypto/rsa"
	"crypto/x509"
	"encoding/pem"
	"errors"
	"fmt"
	"math/big"
	"sync"

	"github.com/emmansun/gmsm/ecdh"
	"github.com/emmansun/gmsm/sm2"
	"github.com/emmansun/gmsm/sm9"
	"github.com/emmansun/gmsm/smx509"
	"github.com/emmansun/gmsm/verifhook"

	"verif/harness/fixtures"
	"verif/harness/model/sm2m"
	"verif/harness/sim"
)

// Key kinds of the vault.
const (
	c14SM2 = iota
	c14EC256
	c14EC384
	c14RSA1024
	c14RSA2048
	c14ECDH
	c14SM9SignMaster
	c14SM9EncMaster
	c14SM9SignUser
	c14SM9EncUser
	c14SM9SignMasterPub
	c14SM9EncMasterPub
	c14KeyKinds
)

var c14KindName = []string{"sm2", "ecdsa-p256", "ecdsa-p384", "rsa1024", "rsa2048", "ecdh-sm2", "sm9-sign-master", "sm9-enc-master", "sm9-sign-user", "sm9-enc-user", "sm9-sign-master-pub", "sm9-enc-master-pub"}

// Scalar classes (private scalars of SM2 / ECDH / derived ECDSA / SM9 master keys).
const (
	c14ScRand     = iota // seeded, top bit clear
	c14ScOne             // 1
	c14ScMax             // order-2 (largest scalar valid for every curve here)
	c14ScLead1           // one leading zero byte
	c14ScLead2Hi         // two leading zero bytes, next byte has its top bit set
	c14ScLeadHalf        // upper half zero
	c14ScByte            // a single non-zero byte
	c14ScTrail           // two low bytes zero
	c14ScHiBit           // top bit set (DER INTEGER needs a pad byte)
	c14ScTwo             // 2
	c14ScFixture         // the fixture key of this kind (ECDSA, RSA: always; SM2: the leaf key of the fixture chain)
	c14ScClasses
)

// c14Key is a ledger entry: a key the vault owns, with everything needed to
// decide equality without asking the container code.
type c14Key struct {
	kind, sclass int
	scalar       []byte // fixed-width big-endian private scalar (EC kinds, SM9 master private keys); nil otherwise
	pub          []byte // 04||X||Y (EC kinds); SM9: Bytes() of the (master) public key
	raw          []byte // SM9: Bytes() of the key when it was created
	obj          any    // the key object handed to the Marshal functions
	masterPub    []byte // SM9 user keys: Bytes() of the master public key bound to the key
}

var c14Fix struct {
	once    sync.Once
	err     error
	rsa     [2]*rsa.PrivateKey
	ec      [2]*ecdsa.PrivateKey
	leafDER []byte
	leafKey []byte
	leafPub []byte // 04||X||Y
	leafOff int    // offset of leafPub inside leafDER
	leaf    *smx509.Certificate
}

// c14Init parses the fixtures once per process. RSA / ECDSA fixtures are parsed
// with the standard library (an independent path); the certificate is parsed
// with smx509 because cfca.MarshalSM2 wants that type.
func c14Init() error {
	c14Fix.once.Do(func() {
		f := &c14Fix
		for i, s := range []string{fixtures.RSAKey0PEM, fixtures.RSAKey1PEM} {
			b, _ := pem.Decode([]byte(s))
			if b == nil {
				f.err = errors.New("c14: RSA fixture is not PEM")
				return
			}
			k, err := x509.ParsePKCS8PrivateKey(b.Bytes)
			if err != nil {
				f.err = err
				return
			}
			rk, ok := k.(*rsa.PrivateKey)
			if !ok {
				f.err = errors.New("c14: RSA fixture has another type")
				return
			}
			f.rsa[i] = rk
		}
		for i, s := range []string{fixtures.ECDSAKey0PEM, fixtures.ECDSAKey1PEM} {
			b, _ := pem.Decode([]byte(s))
			if b == nil {
				f.err = errors.New("c14: ECDSA fixture is not PEM")
				return
			}
			k, err := x509.ParsePKCS8PrivateKey(b.Bytes)
			if err != nil {
				f.err = err
				return
			}
			ek, ok := k.(*ecdsa.PrivateKey)
			if !ok {
				f.err = errors.New("c14: ECDSA fixture has another type")
				return
			}
			f.ec[i] = ek
		}
		b, _ := pem.Decode([]byte(fixtures.LeafPEM))
		if b == nil {
			f.err = errors.New("c14: leaf certificate is not PEM")
			return
		}
		f.leafDER = b.Bytes
		f.leafKey = unhex(fixtures.LeafKeyHex)
		q := sm2m.ScalarBaseMult(new(big.Int).SetBytes(f.leafKey))
		f.leafPub = sm2m.MarshalUncompressed(q)
		f.leafOff = bytes.Index(f.leafDER, f.leafPub)
		if f.leafOff < 0 || bytes.Index(f.leafDER[f.leafOff+1:], f.leafPub) >= 0 {
			f.err = errors.New("c14: leaf certificate does not carry the public key of LeafKeyHex exactly once")
			return
		}
		cert, err := smx509.ParseCertificate(f.leafDER)
		if err != nil {
			f.err = err
			return
		}
		f.leaf = cert
	})
	return c14Fix.err
}

// c14Order returns the group order and the scalar width of a key kind.
func c14Order(kind int) (*big.Int, int) {
	switch kind {
	case c14EC256:
		return elliptic.P256().Params().N, 32
	case c14EC384:
		return elliptic.P384().Params().N, 48
	case c14SM9SignMaster, c14SM9EncMaster:
		return verifhook.Order, 32
	}
	return sm2m.N, 32
}

// c14Scalar derives the private scalar of class sc; every class lies in [1, order-2].
func c14Scalar(seed []byte, sc int, order *big.Int, size int) []byte {
	b := derive(seed, "c14-scalar", size)
	b[0] &= 0x7f
	b[size-1] |= 1
	switch sc {
	case c14ScOne:
		b = make([]byte, size)
		b[size-1] = 1
	case c14ScTwo:
		b = make([]byte, size)
		b[size-1] = 2
	case c14ScMax:
		b = new(big.Int).Sub(order, big.NewInt(2)).FillBytes(make([]byte, size))
	case c14ScLead1:
		b[0] = 0
		b[1] |= 1
	case c14ScLead2Hi:
		b[0], b[1] = 0, 0
		b[2] |= 0x80
	case c14ScLeadHalf:
		for i := 0; i < size/2; i++ {
			b[i] = 0
		}
		b[size/2] |= 0x80
	case c14ScByte:
		v := b[size-1] | 3
		b = make([]byte, size)
		b[size-1] = v
	case c14ScTrail:
		b[0] |= 0x40
		b[size-1], b[size-2] = 0, 0
	case c14ScHiBit:
		b[0] = 0x80 | (b[0] & 0x1f)
	}
	return b
}

func c14EllipticPub(curve elliptic.Curve, x, y *big.Int) []byte {
	n := (curve.Params().BitSize + 7) / 8
	out := make([]byte, 1+2*n)
	out[0] = 4
	x.FillBytes(out[1 : 1+n])
	y.FillBytes(out[1+n:])
	return out
}

type c14Keys struct {
	seed  []byte
	mrb   bool // the generators consume one byte of the reader before the scalar
	cache map[string]*c14Key
	sm    *sm9.SignMasterPrivateKey
	em    *sm9.EncryptMasterPrivateKey
}

func (ks *c14Keys) masters() error {
	if ks.sm != nil {
		return nil
	}
	var err error
	if ks.sm, err = c14SM9SignMasterFrom(scalarFrom(ks.seed, "c14-sm9-sign"), ks.mrb); err != nil {
		return err
	}
	ks.em, err = c14SM9EncMasterFrom(scalarFrom(ks.seed, "c14-sm9-enc"), ks.mrb)
	return err
}

// The SM9 master keys are produced by the generator functions from a scripted
// reader (the generator xors 0x42 into byte 1 of what it reads).
func c14SM9SignMasterFrom(scalar []byte, mrb bool) (*sm9.SignMasterPrivateKey, error) {
	in := append([]byte{}, scalar...)
	in[1] ^= 0x42
	if mrb {
		in = append([]byte{0x5a}, in...)
	}
	return sm9.GenerateSignMasterKey(&sim.ScriptReader{Data: in})
}

func c14SM9EncMasterFrom(scalar []byte, mrb bool) (*sm9.EncryptMasterPrivateKey, error) {
	in := append([]byte{}, scalar...)
	in[1] ^= 0x42
	if mrb {
		in = append([]byte{0x5a}, in...)
	}
	return sm9.GenerateEncryptMasterKey(&sim.ScriptReader{Data: in})
}

// get returns (creating it on first use) the key of the given kind / scalar class / seed.
func (ks *c14Keys) get(kind, sc int, kseed []byte) (*c14Key, error) {
	id := fmt.Sprintf("%d/%d/%x", kind, sc, kseed)
	if k, ok := ks.cache[id]; ok {
		return k, nil
	}
	seed := append(append([]byte{}, ks.seed...), kseed...)
	k := &c14Key{kind: kind, sclass: sc}
	order, size := c14Order(kind)
	switch kind {
	case c14SM2:
		if sc == c14ScFixture {
			k.scalar = append([]byte{}, c14Fix.leafKey...)
		} else {
			k.scalar = c14Scalar(seed, sc, order, size)
		}
		priv, err := sm2.NewPrivateKey(k.scalar)
		if err != nil {
			return nil, fmt.Errorf("sm2.NewPrivateKey refused a valid scalar of class %d: %v", sc, err)
		}
		k.obj = priv
		// the public point of the ledger comes from the model, not from the library
		k.pub = sm2m.MarshalUncompressed(sm2m.ScalarBaseMult(new(big.Int).SetBytes(k.scalar)))
		if !bytes.Equal(k.pub, c14EllipticPub(sm2.P256(), priv.X, priv.Y)) {
			return nil, fmt.Errorf("sm2.NewPrivateKey computed a public key that differs from the model (scalar class %d)", sc)
		}
	case c14ECDH:
		if sc == c14ScFixture {
			sc = c14ScRand
		}
		k.scalar = c14Scalar(seed, sc, order, size)
		priv, err := ecdh.P256().NewPrivateKey(k.scalar)
		if err != nil {
			return nil, fmt.Errorf("ecdh NewPrivateKey refused a valid scalar of class %d: %v", sc, err)
		}
		k.obj = priv
		k.pub = sm2m.MarshalUncompressed(sm2m.ScalarBaseMult(new(big.Int).SetBytes(k.scalar)))
		if !bytes.Equal(k.pub, priv.PublicKey().Bytes()) {
			return nil, fmt.Errorf("ecdh public key differs from the model (scalar class %d)", sc)
		}
		// the application wipes the copies it was handed: the key object must not notice (Bytes returns a copy)
		sb, pb := priv.Bytes(), priv.PublicKey().Bytes()
		for i := range sb {
			sb[i] = 0xEE
		}
		for i := range pb {
			pb[i] = 0xEE
		}
		if !bytes.Equal(priv.Bytes(), k.scalar) || !bytes.Equal(priv.PublicKey().Bytes(), k.pub) {
			return nil, fmt.Errorf("ecdh key object changed after the caller overwrote the slices returned by Bytes(): they alias the key's own storage")
		}
	case c14EC256, c14EC384:
		if sc == c14ScFixture || sc == c14ScRand {
			f := c14Fix.ec[kind-c14EC256]
			k.obj = f
			k.scalar = f.D.FillBytes(make([]byte, size))
			k.pub = c14EllipticPub(f.Curve, f.X, f.Y)
		} else {
			curve := elliptic.P256()
			if kind == c14EC384 {
				curve = elliptic.P384()
			}
			k.scalar = c14Scalar(seed, sc, order, size)
			priv, err := ecdsa.ParseRawPrivateKey(curve, k.scalar)
			if err != nil {
				return nil, fmt.Errorf("ecdsa.ParseRawPrivateKey: %v", err)
			}
			k.obj = priv
			k.pub = c14EllipticPub(curve, priv.X, priv.Y)
		}
	case c14RSA1024, c14RSA2048:
		k.obj = c14Fix.rsa[kind-c14RSA1024]
	case c14SM9SignMaster:
		if sc == c14ScFixture {
			sc = c14ScRand
		}
		k.scalar = c14Scalar(seed, sc, order, size)
		m, err := c14SM9SignMasterFrom(k.scalar, ks.mrb)
		if err != nil {
			return nil, err
		}
		if !bytes.Equal(m.Bytes(), k.scalar) {
			return nil, fmt.Errorf("sm9 sign master key generator did not take the scripted scalar (class %d)", sc)
		}
		k.obj, k.raw, k.pub = m, m.Bytes(), m.PublicKey().Bytes()
	case c14SM9EncMaster:
		if sc == c14ScFixture {
			sc = c14ScRand
		}
		k.scalar = c14Scalar(seed, sc, order, size)
		m, err := c14SM9EncMasterFrom(k.scalar, ks.mrb)
		if err != nil {
			return nil, err
		}
		if !bytes.Equal(m.Bytes(), k.scalar) {
			return nil, fmt.Errorf("sm9 encrypt master key generator did not take the scripted scalar (class %d)", sc)
		}
		k.obj, k.raw, k.pub = m, m.Bytes(), m.PublicKey().Bytes()
	case c14SM9SignUser, c14SM9EncUser, c14SM9SignMasterPub, c14SM9EncMasterPub:
		if err := ks.masters(); err != nil {
			return nil, err
		}
		uid := derive(seed, "c14-uid", 1+int(derive(seed, "c14-uidlen", 1)[0])%24)
		switch kind {
		case c14SM9SignUser:
			u, err := ks.sm.GenerateUserKey(uid, 1)
			if err != nil {
				return nil, err
			}
			k.obj, k.raw, k.masterPub = u, u.Bytes(), ks.sm.PublicKey().Bytes()
		case c14SM9EncUser:
			u, err := ks.em.GenerateUserKey(uid, 3)
			if err != nil {
				return nil, err
			}
			k.obj, k.raw, k.masterPub = u, u.Bytes(), ks.em.PublicKey().Bytes()
		case c14SM9SignMasterPub:
			k.obj, k.raw = ks.sm.PublicKey(), ks.sm.PublicKey().Bytes()
		default:
			k.obj, k.raw = ks.em.PublicKey(), ks.em.PublicKey().Bytes()
		}
	default:
		return nil, fmt.Errorf("unknown key kind %d", kind)
	}
	k.sclass = sc
	ks.cache[id] = k
	return k, nil
}

// c14Fingerprint: deterministic bytes describing a returned key (trace only).
// c14Consistent: the public part of a returned EC private key is [d]G on its curve ("" if so, or not an EC key).
func c14Consistent(got any) string {
	chk := func(cv elliptic.Curve, d, x, y *big.Int) string {
		if cv == nil || d == nil || x == nil || y == nil {
			return "missing field"
		}
		dm := new(big.Int).Mod(d, cv.Params().N)
		if dm.Sign() == 0 {
			return ""
		}
		wx, wy := cv.ScalarBaseMult(dm.Bytes())
		if wx.Cmp(x) != 0 || wy.Cmp(y) != 0 {
			return fmt.Sprintf("public point (%x.., %x..) is not [d]G (%x.., %x..)", trunc(x.Bytes(), 6), trunc(y.Bytes(), 6), trunc(wx.Bytes(), 6), trunc(wy.Bytes(), 6))
		}
		return ""
	}
	switch g := got.(type) {
	case *sm2.PrivateKey:
		if g != nil {
			return chk(g.Curve, g.D, g.X, g.Y)
		}
	case *ecdsa.PrivateKey:
		if g != nil {
			return chk(g.Curve, g.D, g.X, g.Y)
		}
	}
	return ""
}

func c14Fingerprint(got any) []byte {
	switch g := got.(type) {
	case *sm2.PrivateKey:
		if g == nil || g.D == nil {
			return []byte("nil-sm2")
		}
		return append([]byte("sm2:"), g.D.Bytes()...)
	case *ecdsa.PrivateKey:
		if g == nil || g.D == nil {
			return []byte("nil-ecdsa")
		}
		return append([]byte("ec:"), g.D.Bytes()...)
	case *rsa.PrivateKey:
		if g == nil || g.D == nil {
			return []byte("nil-rsa")
		}
		return append([]byte("rsa:"), g.D.Bytes()...)
	case *ecdsa.PublicKey:
		if g == nil || g.X == nil || g.Y == nil {
			return []byte("nil-ecpub")
		}
		return append(append([]byte("ecpub:"), g.X.Bytes()...), g.Y.Bytes()...)
	case *rsa.PublicKey:
		if g == nil || g.N == nil {
			return []byte("nil-rsapub")
		}
		return append([]byte("rsapub:"), g.N.Bytes()...)
	case *sm9.SignMasterPrivateKey:
		if g == nil {
			return []byte("nil")
		}
		return append([]byte("s9sm:"), g.Bytes()...)
	case *sm9.EncryptMasterPrivateKey:
		if g == nil {
			return []byte("nil")
		}
		return append([]byte("s9em:"), g.Bytes()...)
	case *sm9.SignPrivateKey:
		if g == nil {
			return []byte("nil")
		}
		return append([]byte("s9su:"), g.Bytes()...)
	case *sm9.EncryptPrivateKey:
		if g == nil {
			return []byte("nil")
		}
		return append([]byte("s9eu:"), g.Bytes()...)
	case *sm9.SignMasterPublicKey:
		if g == nil {
			return []byte("nil")
		}
		return append([]byte("s9sp:"), g.Bytes()...)
	case *sm9.EncryptMasterPublicKey:
		if g == nil {
			return []byte("nil")
		}
		return append([]byte("s9ep:"), g.Bytes()...)
	case nil:
		return []byte("nil")
	}
	return []byte(fmt.Sprintf("%T", got))
}

// c14Same decides whether a returned object is the ledger key k. publicOnly:
// the container stores the public half only (PKIX). It returns "" or the reason.
func c14Same(k *c14Key, got any, publicOnly bool) string {
	_, size := c14Order(k.kind)
	ecPriv := func(g *ecdsa.PrivateKey, curve elliptic.Curve) string {
		if g == nil || g.D == nil || g.X == nil || g.Y == nil {
			return "nil key"
		}
		if g.Curve != curve {
			return "another curve"
		}
		if g.D.Sign() < 0 || g.D.BitLen() > size*8 || !bytes.Equal(g.D.FillBytes(make([]byte, size)), k.scalar) {
			return fmt.Sprintf("private scalar differs (got %x)", g.D.Bytes())
		}
		if !bytes.Equal(c14EllipticPub(curve, g.X, g.Y), k.pub) {
			return "public point differs from the point of the stored key"
		}
		return ""
	}
	ecPub := func(g *ecdsa.PublicKey, curve elliptic.Curve) string {
		if g == nil || g.X == nil || g.Y == nil {
			return "nil key"
		}
		if g.Curve != curve {
			return "another curve"
		}
		if !bytes.Equal(c14EllipticPub(curve, g.X, g.Y), k.pub) {
			return "public point differs"
		}
		return ""
	}
	switch k.kind {
	case c14SM2:
		orig := k.obj.(*sm2.PrivateKey)
		if publicOnly {
			g, ok := got.(*ecdsa.PublicKey)
			if !ok {
				return fmt.Sprintf("type %T", got)
			}
			if r := ecPub(g, sm2.P256()); r != "" {
				return r
			}
			if !orig.PublicKey.Equal(g) || !g.Equal(&orig.PublicKey) {
				return "PublicKey.Equal is false"
			}
			return ""
		}
		switch g := got.(type) {
		case *sm2.PrivateKey:
			if g == nil {
				return "nil key"
			}
			if r := ecPriv(&g.PrivateKey, sm2.P256()); r != "" {
				return r
			}
			if !orig.Equal(g) || !g.Equal(orig) {
				return "PrivateKey.Equal is false"
			}
			return ""
		case *ecdsa.PrivateKey: // ParseECPrivateKey returns the SM2 key in the ecdsa type
			if r := ecPriv(g, sm2.P256()); r != "" {
				return r
			}
			if !orig.PrivateKey.Equal(g) {
				return "ecdsa.PrivateKey.Equal is false"
			}
			return ""
		}
		return fmt.Sprintf("type %T", got)
	case c14ECDH:
		orig := k.obj.(*ecdh.PrivateKey)
		if publicOnly {
			g, ok := got.(*ecdsa.PublicKey)
			if !ok {
				return fmt.Sprintf("type %T", got)
			}
			if r := ecPub(g, sm2.P256()); r != "" {
				return r
			}
			e, err := sm2.PublicKeyToECDH(g)
			if err != nil || !e.Equal(orig.PublicKey()) {
				return "ecdh PublicKey.Equal is false"
			}
			return ""
		}
		switch g := got.(type) {
		case *sm2.PrivateKey: // an ECDH key comes back from PKCS#8 as an SM2 key
			if g == nil {
				return "nil key"
			}
			if r := ecPriv(&g.PrivateKey, sm2.P256()); r != "" {
				return r
			}
			e, err := g.ECDH()
			if err != nil {
				return "conversion back to ecdh failed: " + err.Error()
			}
			if !e.Equal(orig) || !orig.Equal(e) || !bytes.Equal(e.Bytes(), k.scalar) {
				return "ecdh PrivateKey.Equal is false"
			}
			return ""
		case *ecdh.PrivateKey:
			if g == nil || !g.Equal(orig) || !bytes.Equal(g.Bytes(), k.scalar) {
				return "ecdh PrivateKey.Equal is false"
			}
			return ""
		}
		return fmt.Sprintf("type %T", got)
	case c14EC256, c14EC384:
		orig := k.obj.(*ecdsa.PrivateKey)
		if publicOnly {
			g, ok := got.(*ecdsa.PublicKey)
			if !ok {
				return fmt.Sprintf("type %T", got)
			}
			if r := ecPub(g, orig.Curve); r != "" {
				return r
			}
			if !orig.PublicKey.Equal(g) {
				return "PublicKey.Equal is false"
			}
			return ""
		}
		g, ok := got.(*ecdsa.PrivateKey)
		if !ok {
			return fmt.Sprintf("type %T", got)
		}
		if r := ecPriv(g, orig.Curve); r != "" {
			return r
		}
		if !orig.Equal(g) || !g.Equal(orig) {
			return "PrivateKey.Equal is false"
		}
		return ""
	case c14RSA1024, c14RSA2048:
		orig := k.obj.(*rsa.PrivateKey)
		if publicOnly {
			g, ok := got.(*rsa.PublicKey)
			if !ok {
				return fmt.Sprintf("type %T", got)
			}
			if g == nil || g.N == nil || g.N.Cmp(orig.N) != 0 || g.E != orig.E || !orig.PublicKey.Equal(g) {
				return "RSA public key differs"
			}
			return ""
		}
		g, ok := got.(*rsa.PrivateKey)
		if !ok {
			return fmt.Sprintf("type %T", got)
		}
		if g == nil || g.N == nil || g.D == nil || g.N.Cmp(orig.N) != 0 || g.D.Cmp(orig.D) != 0 || g.E != orig.E || len(g.Primes) != len(orig.Primes) {
			return "RSA key differs"
		}
		for i := range g.Primes {
			if g.Primes[i] == nil || g.Primes[i].Cmp(orig.Primes[i]) != 0 {
				return "RSA primes differ"
			}
		}
		if !orig.Equal(g) || !g.Equal(orig) {
			return "PrivateKey.Equal is false"
		}
		return ""
	case c14SM9SignMaster:
		g, ok := got.(*sm9.SignMasterPrivateKey)
		if !ok {
			return fmt.Sprintf("type %T", got)
		}
		if g == nil || !bytes.Equal(g.Bytes(), k.scalar) || !g.Equal(k.obj) || g.PublicKey() == nil || !bytes.Equal(g.PublicKey().Bytes(), k.pub) {
			return "sm9 sign master private key differs"
		}
		return ""
	case c14SM9EncMaster:
		g, ok := got.(*sm9.EncryptMasterPrivateKey)
		if !ok {
			return fmt.Sprintf("type %T", got)
		}
		if g == nil || !bytes.Equal(g.Bytes(), k.scalar) || !g.Equal(k.obj) || g.PublicKey() == nil || !bytes.Equal(g.PublicKey().Bytes(), k.pub) {
			return "sm9 encrypt master private key differs"
		}
		return ""
	case c14SM9SignUser:
		g, ok := got.(*sm9.SignPrivateKey)
		if !ok {
			return fmt.Sprintf("type %T", got)
		}
		if g == nil || !bytes.Equal(g.Bytes(), k.raw) || !g.Equal(k.obj) {
			return "sm9 sign user key differs"
		}
		return ""
	case c14SM9EncUser:
		g, ok := got.(*sm9.EncryptPrivateKey)
		if !ok {
			return fmt.Sprintf("type %T", got)
		}
		if g == nil || !bytes.Equal(g.Bytes(), k.raw) || !g.Equal(k.obj) {
			return "sm9 encrypt user key differs"
		}
		return ""
	case c14SM9SignMasterPub:
		g, ok := got.(*sm9.SignMasterPublicKey)
		if !ok {
			return fmt.Sprintf("type %T", got)
		}
		if g == nil || !bytes.Equal(g.Bytes(), k.raw) || !g.Equal(k.obj) {
			return "sm9 sign master public key differs"
		}
		return ""
	case c14SM9EncMasterPub:
		g, ok := got.(*sm9.EncryptMasterPublicKey)
		if !ok {
			return fmt.Sprintf("type %T", got)
		}
		if g == nil || !bytes.Equal(g.Bytes(), k.raw) || !g.Equal(k.obj) {
			return "sm9 encrypt master public key differs"
		}
		return ""
	}
	return "unknown key kind"
}
