package props

import (
	"crypto"
	"crypto/ecdsa"
	"fmt"
	"math/big"
	"testing"

	"github.com/emmansun/gmsm/sm2"
	"github.com/emmansun/gmsm/verifhook"

	"verif/harness/model/sm2m"
	"verif/harness/sim"
)

// C06: signer nodes with long-lived key objects, verifier nodes, and a
// transport that delivers every produced signature untouched and altered.
// The math/big model decides acceptance of every delivered byte string.

func init() {
	register(&Prop{
		ID:        "C06",
		Level:     "exploration",
		Nodes:     func(tier string) []string { return []string{"avx2", "noadx", "purego"} },
		Cross:     true,
		Gen:       genC06,
		Exec:      execC06,
		QuickSecs: 30, ThoroughSecs: 600, RunsPerJob: 40,
		Rule: "a run fixes a signer key (from bytes, incl. d = 1, n-2; or built as a struct with d in {n-1, n, n+1, 0}) and plays a history over {sign via SignASN1+SM2 option / PrivateKey.Sign on a digest / SignWithSM2 with a scripted nonce and a user ID of length 0..8191, deliver untouched, deliver with a byte substituted / every byte position altered / truncated / extended / r or s replaced by 0, n, n+r, 2^256-1, n-s, negative, non-minimal, wrong tags / cross-delivered to another message, user ID or key, repeated signing with a rejected key}; every delivery goes to both verification entry points and is compared with the model's verdict; " +
			"abstract history = (key kind) + sequence of (op kind, entry point, uid length class, mutation kind); non-trivial = at least 2 ops; distinct = distinct abstract histories",
		Real:  []string{"sm2 (SignASN1, PrivateKey.Sign, SignWithSM2, VerifyASN1, VerifyASN1WithSM2, CalculateSM2Hash)", "internal/sm2ec, internal/bigmod (per node)"},
		Stubs: []string{"nonce source: scripted reader", "transport between signer and verifier (alteration, truncation, extension, field substitution, cross-delivery)"},
		Assume: []string{"acceptance oracle: strict DER SEQUENCE of two INTEGERs in [1, n-1] satisfying the GB/T 32918.2 equation, computed with math/big affine arithmetic (harness/model/sm2m, anchored on the GB/T 32918.5 appendix examples at worker start-up)",
			"an empty user ID means the default user ID at every entry point that takes one (documented behaviour of the library)"},
	})
}

func genC06(r *sim.Rand, tier string) *sim.Program {
	p := &sim.Program{Prop: "C06"}
	kk := r.Weighted(20, 2, 2, 2, 2, 2, 2, 1, 1, 1)
	p.SetC("keykind", kk) // 0 random, 1 d=1, 2 d=n-2, 3 d=n-1 (struct), 4 d=n (struct), 5 d=n+1 (struct), 6 d=0 (struct), 7 d=2^256, 8 d=2^300+1, 9 d=3n+7 (struct)
	p.SetCB("d", r.Bytes(32))
	p.SetCB("d2", r.Bytes(32))
	nops := r.Range(2, 10)
	uidLen := func() int {
		return r.PickInt(0, 0, 1, 15, 16, 17, 55, 56, 64, 119, 128, 1000, 8191)
	}
	nsig := 0
	for i := 0; i < nops; i++ {
		if kk >= 3 {
			p.Add("sign", r.Intn(8), r.Intn(1<<30)).WithB(r.Bytes(uidLen()), r.Bytes(r.PickInt(0, 1, 32, 33, 100)))
			continue
		}
		if nsig == 0 || r.Chance(1, 4) {
			switch r.Intn(9) {
			case 5:
				// constructive: a public key, digest and pair chosen backwards from a curve point whose abscissa lies in [n, p)
				p.Add("x1over", r.Intn(1<<30), r.Intn(1<<16))
			case 0:
				// constructive: the digest is chosen after the nonce so that r is small (top 32..64 bits zero)
				p.Add("smallr", r.Intn(1<<30), r.PickInt(4, 4, 5, 8, 16, 28)).WithB(r.Bytes(28))
			case 1:
				// constructive: the digest makes the FIRST scripted nonce hit a retry condition (r = 0, r+k = n, s = 0)
				p.Add("signretry", r.Intn(1<<30), r.Intn(3))
			case 2:
				// constructive forgery attempt: r + s = n with the digest that would satisfy the equation if t = 0 were not refused
				p.Add("tzero", r.Intn(1<<30))
			case 3:
				// constructive: the pair for which [s]G + [t]P is the point at infinity (only the key holder can build it)
				p.Add("infinity", r.Intn(1<<30))
			case 4:
				if r.Chance(1, 2) {
					p.Add("rekey", r.Intn(1<<30), r.Intn(2))
				} else {
					p.Add("sign", r.Intn(8), r.Intn(1<<30)).WithB(r.Bytes(uidLen()), r.Bytes(r.PickInt(0, 1, 32, 33, 100, 300)))
				}
			default:
				p.Add("sign", r.Intn(8), r.Intn(1<<30)).WithB(r.Bytes(uidLen()), r.Bytes(r.PickInt(0, 1, 32, 33, 100, 300)))
			}
			nsig++
			continue
		}
		s := r.Intn(nsig)
		switch r.Intn(13) {
		case 0:
			p.Add("deliver", s)
		case 1, 2, 3:
			p.Add("subst", s, r.Intn(1<<16), r.PickInt(0, 0xff, 1, 0x80, 0x30, 0x02, r.Intn(256)))
		case 4:
			p.Add("allbytes", s, 1+r.Intn(255))
		case 5:
			p.Add("trunc", s, r.Intn(80))
		case 6:
			p.Add("extend", s, 1+r.Intn(4))
		case 7, 8, 9:
			p.Add("field", s, r.Intn(2), r.Intn(12)) // which integer, replacement kind
		case 10:
			p.Add("cross", s, r.Intn(4))
		case 11:
			p.Add("bigint", s)
		default:
			p.Add("random", s).WithB(r.Bytes(32), r.Bytes(32))
		}
	}
	return p
}

type c06Sig struct {
	uid, msg, e, sig []byte
	raw              bool // signature over a raw digest e (no user ID / message): only VerifyASN1 applies
}

func c06Key(kk int, dBytes []byte) (*sm2.PrivateKey, *big.Int, error) {
	n := sm2m.N
	d := new(big.Int)
	switch kk {
	case 0:
		b := fitKey(dBytes, 32)
		b[0] &= 0x7f
		b[31] |= 1
		d.SetBytes(b)
	case 1:
		d.SetInt64(1)
	case 2:
		d.Sub(n, big.NewInt(2))
	case 3:
		d.Sub(n, big.NewInt(1))
	case 4:
		d.Set(n)
	case 5:
		d.Add(n, big.NewInt(1))
	case 7:
		d.Lsh(big.NewInt(1), 256)
	case 8:
		d.Lsh(big.NewInt(1), 300)
		d.Add(d, big.NewInt(1))
	case 9:
		d.Mul(n, big.NewInt(3))
		d.Add(d, big.NewInt(7))
	default:
		d.SetInt64(0)
	}
	if kk <= 2 {
		k, err := sm2.NewPrivateKey(d.FillBytes(make([]byte, 32)))
		return k, d, err
	}
	// a key object the constructors would refuse, built directly (the fields are exported)
	k := new(sm2.PrivateKey)
	k.Curve = sm2.P256()
	k.D = d
	g := sm2m.G()
	k.X, k.Y = g.X, g.Y
	return k, d, nil
}

func execC06(t *testing.T, p *sim.Program, c *sim.Ctx) {
	verifhook.SetMaybeReadDecider(func() bool { return false })
	defer verifhook.SetMaybeReadDecider(nil)
	kk := ((p.C("keykind") % 10) + 10) % 10
	priv, d, err := c06Key(kk, p.CB("d"))
	if kk <= 2 && err != nil {
		c.Fail("setup", -1, "setup", "NewPrivateKey refused a valid scalar (kind %d): %v", kk, err)
		return
	}
	other, _, _ := c06Key(0, p.CB("d2"))
	c.Abs(kk)
	if len(p.Ops) >= 2 {
		c.Nontriv = true
	}
	pub := sm2m.Point{X: priv.X, Y: priv.Y}
	opub := sm2m.Point{X: other.X, Y: other.Y}
	effUID := func(u []byte) []byte {
		if len(u) == 0 {
			return sm2m.DefaultUID
		}
		return u
	}
	var sigs []*c06Sig
	// deliver: both verification entry points against the model
	var rawDigest []byte // when set, the delivery is about a signature over this raw digest
	deliver := func(i int, kind string, key *ecdsa.PublicKey, mpub sm2m.Point, uid, msg, sig []byte) {
		za := sm2m.ZA(effUID(uid), mpub)
		e := sm2m.DigestE(za, msg)
		if rawDigest != nil {
			copy(e[:], rawDigest)
		}
		want := sm2m.VerifyASN1Model(mpub, e[:], sig)
		got1 := sm2.VerifyASN1(key, e[:], sig)
		got2 := sm2.VerifyASN1WithSM2(key, uid, msg, sig)
		if rawDigest != nil {
			got2 = got1
		}
		c.Out(kind, []byte{b2i(got1), b2i(got2)})
		if r, s, ok := sm2m.ParseStrictDERSig(sig); ok {
			// the same pair through the (r, s *big.Int) entry points
			got3 := sm2.Verify(key, e[:], r, s)
			got4 := got3
			if rawDigest == nil {
				got4 = sm2.VerifyWithSM2(key, uid, msg, r, s)
			}
			c.Out(kind+"/big", []byte{b2i(got3), b2i(got4)})
			if got3 != want || got4 != want {
				cls := "valid-signature-rejected"
				if !want {
					cls = "invalid-signature-accepted"
				}
				c.Fail(cls, i, kind, "the big.Int entry points disagree with the model after %s (Verify=%v, VerifyWithSM2=%v, model=%v): r=%x s=%x", kind, got3, got4, want, r, s)
				return
			}
		}
		if want {
			c.Hit("probe:delivery-model-accepts")
		} else {
			c.Hit("probe:delivery-model-rejects")
		}
		if got1 != want || got2 != want {
			verb := "rejected a valid"
			cls := "valid-signature-rejected"
			if !want {
				verb, cls = "accepted an invalid", "invalid-signature-accepted"
			}
			c.Fail(cls, i, kind, "verification %s signature after %s (VerifyASN1=%v, VerifyASN1WithSM2=%v, model=%v; uid %d bytes, msg %d bytes): %x", verb, kind, got1, got2, want, len(uid), len(msg), sig)
		}
	}
	for i, op := range p.Ops {
		if c.Failed() {
			return
		}
		c.OpsDone++
		if op.K == "sign" {
			entry := ((op.Int(0) % 8) + 8) % 8
			uid, msg := op.Bytes(0), op.Bytes(1)
			if len(uid) > 8191 {
				uid = uid[:8191]
			}
			if len(uid) == 0 {
				// "no identifier" has three representations in Go; all of them mean the default identifier
				switch op.Int(1) % 3 {
				case 0:
					uid = nil
				case 1:
					uid = []byte{}
				default:
					uid = []byte("spare")[:0]
				}
				c.Hit("probe:empty-identifier-representations")
			}
			nonce := derive(append([]byte(fmt.Sprint(op.Int(1))), p.CB("d")...), "nonce", 64)
			nonce[0] &= 0x7f
			rd := &sim.ScriptReader{Data: nonce, Fill: 5, Step: 3}
			c.Abs("sign", entry, sim.LenClass(len(uid), 64), len(msg) == 0)
			var sig []byte
			var err error
			za := sm2m.ZA(effUID(uid), pub)
			e := sm2m.DigestE(za, msg)
			switch entry {
			case 0:
				sig, err = sm2.SignASN1(rd, priv, msg, sm2.NewSM2SignerOption(true, uid))
			case 1:
				// digest computed by the library's own helper, signed as a plain digest
				var h []byte
				h, err = sm2.CalculateSM2Hash(&priv.PublicKey, msg, uid)
				if err == nil {
					if string(h) != string(e[:]) {
						c.Fail("digest-mismatch", i, op.K, "CalculateSM2Hash (uid %d bytes, msg %d bytes) differs from SM3(ZA || M) of the model", len(uid), len(msg))
						return
					}
					sig, err = priv.Sign(rd, h, nil)
				}
			case 3, 4:
				// the package-level functions that take the embedded ecdsa key and return (r, s); the digest for entry 3
				// comes from the streaming hasher (NewHashWithUserID), used twice with a Reset in between
				var rr, ss *big.Int
				if entry == 3 {
					hs, herr := sm2.NewHashWithUserID(&priv.PublicKey, effUID(uid)) // this entry point hashes the identifier it is given: empty means empty, the default has to be named
					if herr != nil {
						err = herr
						break
					}
					hs.Write([]byte("another message first"))
					hs.Sum(nil)
					hs.Reset()
					half := len(msg) / 2
					hs.Write(msg[:half])
					hs.Sum(nil) // Sum must not disturb the running state
					hs.Write(msg[half:])
					h := hs.Sum(nil)
					if string(h) != string(e[:]) {
						c.Fail("digest-mismatch", i, op.K, "the streaming hasher (NewHashWithUserID, reused after Reset; uid %d bytes, msg %d bytes) does not give SM3(ZA || M) of the model", len(uid), len(msg))
						return
					}
					rr, ss, err = sm2.Sign(rd, &priv.PrivateKey, h)
				} else {
					rr, ss, err = sm2.SignWithSM2(rd, &priv.PrivateKey, uid, msg)
				}
				if err == nil {
					if rr == nil || ss == nil {
						c.Fail("sign-failed", i, op.K, "package-level Sign returned neither numbers nor an error")
						return
					}
					sig = sm2m.MarshalDERSig(rr, ss)
				}
			case 5:
				// the application hashes on its own and signs the digest as it is; the option object may carry an identifier
				sig, err = priv.Sign(rd, e[:], sm2.NewSM2SignerOption(false, uid))
			case 6:
				sig, err = sm2.SignASN1(rd, priv, e[:], sm2.NewSM2SignerOption(false, uid))
			case 7:
				sig, err = priv.Sign(rd, e[:], crypto.SHA256) // any crypto.Hash as options: the digest is signed as it is
			default:
				sig, err = priv.SignWithSM2(rd, uid, msg)
			}
			c.OutErr("sign", err)
			if kk >= 3 {
				// d outside [1, n-2]: must be an error on every call, never a panic
				c.Hit("probe:sign-with-rejected-key")
				if kk == 3 {
					c.Hit("probe:sign-with-d=n-1")
				}
				if err == nil && kk != 6 {
					// the statement covers scalars of n-1 and above; d = 0 is only required not to panic
					c.Fail("signed-with-invalid-key", i, op.K, "signing with a private scalar of n-1 or above (key kind %d) returned a signature", kk)
				}
				continue
			}
			if err != nil {
				c.Fail("sign-failed", i, op.K, "signing with a valid key failed: %v", err)
				return
			}
			c.Out("sig", sig)
			r, s, ok := sm2m.ParseStrictDERSig(sig)
			if !ok {
				c.Fail("signature-not-der", i, op.K, "signature is not a strict DER SEQUENCE of two INTEGERs: %x", sig)
				return
			}
			if !sm2m.VerifyRS(pub, e[:], r, s) {
				c.Fail("honest-signature-invalid", i, op.K, "signature does not satisfy the GB/T 32918.2 equation (entry %d, uid %d bytes)", entry, len(uid))
				return
			}
			// the nonce is the scripted one
			if k := sm2m.RecoverK(d, r, s); k.Cmp(new(big.Int).SetBytes(nonce[:32])) != 0 {
				c.Fail("nonce-mismatch", i, op.K, "recovered nonce differs from the scripted one")
				return
			}
			sg := &c06Sig{uid: uid, msg: msg, e: e[:], sig: sig}
			sigs = append(sigs, sg)
			deliver(i, "sign", &priv.PublicKey, pub, uid, msg, sig)
			continue
		}
		if op.K == "rekey" {
			// ONE key object used with another key first (which fills whatever the object caches per key) and then given
			// this run's key through the exported FromECPrivateKey: it must sign as this run's key from then on
			if kk > 2 {
				continue
			}
			c.Abs("rekey", op.Int(1)&1)
			c.Hit("probe:key-object-rekeyed")
			obj := new(sm2.PrivateKey)
			if _, err := obj.FromECPrivateKey(&other.PrivateKey); err != nil {
				c.Fail("setup", i, op.K, "FromECPrivateKey: %v", err)
				return
			}
			warm := derive(append([]byte(fmt.Sprint(op.Int(0))), p.CB("d")...), "rekey warm", 64)
			warm[0] &= 0x7f
			if _, err := obj.SignWithSM2(&sim.ScriptReader{Data: warm, Fill: 5, Step: 3}, nil, []byte("warm")); err != nil {
				c.Fail("sign-failed", i, op.K, "signing with the first key of the object failed: %v", err)
				return
			}
			if _, err := obj.FromECPrivateKey(&priv.PrivateKey); err != nil {
				c.Fail("setup", i, op.K, "FromECPrivateKey (second key): %v", err)
				return
			}
			nonce := derive(append([]byte(fmt.Sprint(op.Int(0))), p.CB("d")...), "rekey nonce", 64)
			nonce[0] &= 0x7f
			msg := []byte("after re-keying")
			sig, err := obj.SignWithSM2(&sim.ScriptReader{Data: nonce, Fill: 5, Step: 3}, nil, msg)
			c.OutErr("rekey-sign", err)
			if err != nil {
				c.Fail("sign-failed", i, op.K, "signing after FromECPrivateKey gave the object another key failed: %v", err)
				return
			}
			c.Out("sig", sig)
			za := sm2m.ZA(sm2m.DefaultUID, pub)
			e := sm2m.DigestE(za, msg)
			r, s2, ok := sm2m.ParseStrictDERSig(sig)
			if !ok || !sm2m.VerifyRS(pub, e[:], r, s2) {
				c.Fail("honest-signature-invalid", i, op.K, "a key object that had signed with another key and was then given this key through FromECPrivateKey produces a signature that does not satisfy the equation under this key")
				return
			}
			deliver(i, "rekeyed-object", &priv.PublicKey, pub, nil, msg, sig)
			continue
		}
		if op.K == "tzero" {
			// (r, s) with t = (r+s) mod n = 0 and e = r - x([s]G): R = (e + x([s]G + [0]P)) = r, so only the explicit
			// t = 0 rejection of GB/T 32918.2 7.1 step B6 stands between this pair and acceptance under ANY public key
			n := sm2m.N
			sb := derive(append([]byte(fmt.Sprint(op.Int(0))), p.CB("d")...), "tz", 32)
			sb[0] &= 0x7f
			sb[31] |= 1
			sv := new(big.Int).SetBytes(sb)
			rv := new(big.Int).Sub(n, sv)
			x1 := sm2m.ScalarBaseMult(sv).X
			e := new(big.Int).Sub(rv, x1)
			e.Mod(e, n)
			c.Abs("tzero")
			c.Hit("probe:t-zero-forgery-attempt")
			rawDigest = e.FillBytes(make([]byte, 32))
			deliver(i, "t-zero-forgery", &priv.PublicKey, pub, nil, nil, sm2m.MarshalDERSig(rv, sv))
			deliver(i, "t-zero-forgery-other-key", &other.PublicKey, opub, nil, nil, sm2m.MarshalDERSig(rv, sv))
			rawDigest = nil
			continue
		}
		if op.K == "x1over" {
			// The abscissa x1 of [s]G + [t]P is a field element; B6 reduces it mod n. About 2^-128 of all points have
			// x1 in [n, p), which no honest signature reaches - but a triple can be built backwards: take such a point R,
			// choose s and t, let P = t^-1 (R - [s]G) be the public key, r = t - s and e = r - x1 mod n.
			n := sm2m.N
			x := new(big.Int).Add(n, big.NewInt(int64(op.Int(1)&0xffff)))
			var R sm2m.Point
			for tries := 0; tries < 64; tries++ {
				rhs := new(big.Int).Exp(x, big.NewInt(3), sm2m.P)
				rhs.Add(rhs, new(big.Int).Mul(sm2m.A, x))
				rhs.Add(rhs, sm2m.B)
				rhs.Mod(rhs, sm2m.P)
				if y := new(big.Int).ModSqrt(rhs, sm2m.P); y != nil && x.Cmp(sm2m.P) < 0 {
					R = sm2m.Point{X: new(big.Int).Set(x), Y: y}
					break
				}
				x.Add(x, big.NewInt(1))
			}
			if R.X == nil || !sm2m.OnCurve(R) {
				continue
			}
			sb := derive(append([]byte(fmt.Sprint(op.Int(0))), p.CB("d")...), "x1over", 64)
			sv := new(big.Int).Mod(new(big.Int).SetBytes(sb[:32]), n)
			tv := new(big.Int).Mod(new(big.Int).SetBytes(sb[32:]), n)
			rv := new(big.Int).Mod(new(big.Int).Sub(tv, sv), n)
			if sv.Sign() == 0 || tv.Sign() == 0 || rv.Sign() == 0 {
				continue
			}
			Q := sm2m.ScalarMult(new(big.Int).ModInverse(tv, n), sm2m.Add(R, sm2m.Neg(sm2m.ScalarBaseMult(sv))))
			if Q.Inf || !sm2m.OnCurve(Q) {
				continue
			}
			ev := new(big.Int).Mod(new(big.Int).Sub(rv, new(big.Int).Mod(R.X, n)), n)
			key, kerr := sm2.NewPublicKey(sm2m.MarshalUncompressed(Q))
			if kerr != nil {
				c.Fail("setup", i, op.K, "NewPublicKey refused a valid point: %v", kerr)
				return
			}
			c.Abs("x1over")
			c.Hit("probe:abscissa-above-n-triple")
			rawDigest = ev.FillBytes(make([]byte, 32))
			deliver(i, "abscissa-above-n", key, Q, nil, nil, sm2m.MarshalDERSig(rv, sv))
			rawDigest = nil
			continue
		}
		if op.K == "infinity" {
			// a pair the KEY HOLDER can craft: r = e mod n, s = -r d (1+d)^-1, so that [s]G + [r+s]P is the point at
			// infinity. It has no abscissa: B6/B7 cannot be evaluated and the pair must be refused (an implementation
			// that lets x1 default to 0 accepts it, because R = e + 0 = r).
			if kk >= 3 || d.Sign() == 0 {
				continue
			}
			n := sm2m.N
			eb := derive(append([]byte(fmt.Sprint(op.Int(0))), p.CB("d")...), "inf", 32)
			rv := new(big.Int).Mod(new(big.Int).SetBytes(eb), n)
			dp1 := new(big.Int).Add(d, big.NewInt(1))
			sv := new(big.Int).Mul(rv, d)
			sv.Mul(sv, dp1.ModInverse(dp1, n))
			sv.Neg(sv)
			sv.Mod(sv, n)
			if rv.Sign() == 0 || sv.Sign() == 0 || new(big.Int).Mod(new(big.Int).Add(rv, sv), n).Sign() == 0 {
				continue
			}
			c.Abs("infinity")
			c.Hit("probe:point-at-infinity-pair")
			rawDigest = eb
			deliver(i, "point-at-infinity-pair", &priv.PublicKey, pub, nil, nil, sm2m.MarshalDERSig(rv, sv))
			rawDigest = nil
			continue
		}
		if op.K == "smallr" || op.K == "signretry" {
			if kk >= 3 {
				continue
			}
			n := sm2m.N
			seedb := append([]byte(fmt.Sprint(op.Int(0))), p.CB("d")...)
			k0b := derive(seedb, "k0", 32)
			k0b[0] &= 0x7f
			k0b[31] |= 1
			k1b := derive(seedb, "k1", 32)
			k1b[0] &= 0x7f
			k1b[31] |= 1
			k0, k1 := new(big.Int).SetBytes(k0b), new(big.Int).SetBytes(k1b)
			x1 := sm2m.ScalarBaseMult(k0).X
			e := new(big.Int)
			wantNonce := k0
			var rd *sim.ScriptReader
			if op.K == "smallr" {
				zeroBytes := op.Int(1)
				if zeroBytes < 1 || zeroBytes > 30 {
					zeroBytes = 4
				}
				rt := new(big.Int).SetBytes(fitKey(op.Bytes(0), 32-zeroBytes))
				if rt.Sign() == 0 {
					rt.SetInt64(1)
				}
				e.Sub(rt, x1)
				e.Mod(e, n) // r = (e + x1) mod n = rt: small
				rd = &sim.ScriptReader{Data: k0b, Fill: 5, Step: 3}
				c.Abs("smallr", zeroBytes)
				c.Hit("probe:signature-with-small-r")
			} else {
				which := ((op.Int(1) % 3) + 3) % 3
				switch which {
				case 0: // r = 0
					e.Neg(x1)
				case 1: // r + k = n
					e.Add(k0, x1)
					e.Neg(e)
				default: // s = 0  <=>  k = r*d  <=>  r = k*d^-1
					rr := new(big.Int).ModInverse(d, n)
					rr.Mul(rr, k0)
					e.Sub(rr, x1)
				}
				e.Mod(e, n)
				wantNonce = k1
				rd = &sim.ScriptReader{Data: append(append([]byte{}, k0b...), k1b...), Fill: 5, Step: 3}
				c.Abs("signretry", which)
				c.Hit("probe:sign-retry-branch-taken")
			}
			eb := e.FillBytes(make([]byte, 32))
			sig, err := priv.Sign(rd, eb, nil)
			c.OutErr(op.K, err)
			if err != nil {
				c.Fail("sign-failed", i, op.K, "signing a digest chosen to hit a rare branch failed (the algorithm must draw the next nonce): %v", err)
				return
			}
			c.Out("sig", sig)
			r, s2, ok := sm2m.ParseStrictDERSig(sig)
			if !ok || !sm2m.VerifyRS(pub, eb, r, s2) {
				c.Fail("honest-signature-invalid", i, op.K, "signature over a chosen digest does not satisfy the GB/T 32918.2 equation: %x", sig)
				return
			}
			if got := sm2m.RecoverK(d, r, s2); got.Cmp(wantNonce) != 0 {
				c.Fail("nonce-mismatch", i, op.K, "the signature was not made with the expected scripted nonce (retry conditions r = 0, r+k = n, s = 0 must skip exactly the first nonce)")
				return
			}
			sg := &c06Sig{e: eb, sig: sig, raw: true}
			sigs = append(sigs, sg)
			rawDigest = eb
			deliver(i, op.K, &priv.PublicKey, pub, nil, nil, sig)
			// the out-of-range twins of this signature
			deliver(i, op.K+"-r+n", &priv.PublicKey, pub, nil, nil, sm2m.MarshalDERSig(new(big.Int).Add(r, n), s2))
			deliver(i, op.K+"-s+n", &priv.PublicKey, pub, nil, nil, sm2m.MarshalDERSig(r, new(big.Int).Add(s2, n)))
			rawDigest = nil
			continue
		}
		if len(sigs) == 0 {
			continue
		}
		sg := sigs[((op.Int(0)%len(sigs))+len(sigs))%len(sigs)]
		rawDigest = nil
		if sg.raw {
			rawDigest = sg.e
		}
		r, s, _ := sm2m.ParseStrictDERSig(sg.sig)
		switch op.K {
		case "deliver":
			c.Abs("d")
			deliver(i, "untouched", &priv.PublicKey, pub, sg.uid, sg.msg, sg.sig)
		case "subst":
			m := append([]byte{}, sg.sig...)
			pos := op.Int(1) % len(m)
			if pos < 0 {
				pos = -pos
			}
			v := byte(op.Int(2))
			if m[pos] == v {
				v ^= 1
			}
			m[pos] = v
			c.Abs("sub", pos < 4)
			c.Hit("fault:byte-substituted")
			deliver(i, "byte-substitution", &priv.PublicKey, pub, sg.uid, sg.msg, m)
		case "allbytes":
			x := byte(op.Int(1))
			if x == 0 {
				x = 1
			}
			c.Abs("all")
			for pos := 0; pos < len(sg.sig) && !c.Failed(); pos++ {
				m := append([]byte{}, sg.sig...)
				m[pos] ^= x
				deliver(i, "every-byte-position", &priv.PublicKey, pub, sg.uid, sg.msg, m)
			}
			c.HitN("fault:exhaustive-byte-positions", len(sg.sig))
		case "trunc":
			k := op.Int(1) % (len(sg.sig) + 1)
			if k < 0 {
				k = 0
			}
			if k == len(sg.sig) {
				k = len(sg.sig) - 1
			}
			c.Abs("tr", k == 0)
			c.Hit("fault:truncated")
			deliver(i, "truncation", &priv.PublicKey, pub, sg.uid, sg.msg, sg.sig[:k])
		case "extend":
			k := op.Int(1)
			if k < 1 || k > 16 {
				k = 1
			}
			c.Abs("ex")
			c.Hit("fault:extended")
			deliver(i, "trailing-bytes", &priv.PublicKey, pub, sg.uid, sg.msg, append(append([]byte{}, sg.sig...), make([]byte, k)...))
			// trailing bytes inside the SEQUENCE
			inner := append(append([]byte{}, sg.sig[2:]...), 0)
			deliver(i, "trailing-bytes-inside", &priv.PublicKey, pub, sg.uid, sg.msg, append([]byte{0x30, byte(len(inner))}, inner...))
		case "field":
			which, kind := op.Int(1)&1, op.Int(2)
			n := sm2m.N
			v := new(big.Int)
			orig := r
			if which == 1 {
				orig = s
			}
			var raw []byte // explicit INTEGER content when the encoding itself is the fault
			switch kind {
			case 0:
				v.SetInt64(0)
			case 1:
				v.Set(n)
			case 2:
				v.Add(n, orig)
			case 3:
				v.Sub(new(big.Int).Lsh(big.NewInt(1), 256), big.NewInt(1))
			case 4:
				v.Sub(n, orig)
			case 5: // non-minimal: extra leading zero
				raw = append([]byte{0}, sm2m.MarshalDERSig(orig, big.NewInt(1))[4:4+int(sm2m.MarshalDERSig(orig, big.NewInt(1))[3])]...)
			case 6: // negative: the two's complement of the value
				b := orig.FillBytes(make([]byte, 32))
				b[0] |= 0x80
				raw = b
			case 7: // n-1
				v.Sub(n, big.NewInt(1))
			case 9: // the value plus a multiple of 2^256 whose low octet is zero: 01 00 || value (33 / 34 octets, strict DER)
				v.Add(orig, new(big.Int).Lsh(big.NewInt(1), 264))
			case 10:
				v.Add(orig, new(big.Int).Lsh(big.NewInt(0x0300), 256+8))
			case 11: // the value plus 2^256 (one extra octet 01)
				v.Add(orig, new(big.Int).Lsh(big.NewInt(1), 256))
			default:
				v.SetInt64(1)
			}
			c.Abs("fld", which, kind)
			c.Hit("fault:field-substituted")
			var m []byte
			if raw != nil {
				ri, si := sm2m.MarshalDERSig(r, s), []byte(nil)
				_ = si
				// rebuild by hand: SEQUENCE { INTEGER a, INTEGER b }
				enc := func(x *big.Int) []byte { e := sm2m.MarshalDERSig(x, big.NewInt(1)); return e[2 : 4+int(e[3])] }
				a, b := enc(r), enc(s)
				rawInt := append([]byte{0x02, byte(len(raw))}, raw...)
				if which == 0 {
					a = rawInt
				} else {
					b = rawInt
				}
				body := append(append([]byte{}, a...), b...)
				m = append([]byte{0x30, byte(len(body))}, body...)
				_ = ri
			} else if which == 0 {
				m = sm2m.MarshalDERSig(v, s)
			} else {
				m = sm2m.MarshalDERSig(r, v)
			}
			deliver(i, fmt.Sprintf("field-%d-kind-%d", which, kind), &priv.PublicKey, pub, sg.uid, sg.msg, m)
		case "cross":
			c.Abs("x", op.Int(1)&3)
			c.Hit("fault:cross-delivered")
			switch op.Int(1) & 3 {
			case 0: // another message
				deliver(i, "other-message", &priv.PublicKey, pub, sg.uid, append(append([]byte{}, sg.msg...), 1), sg.sig)
			case 1: // another user ID
				ou := append(append([]byte{}, effUID(sg.uid)...), 'x')
				if len(ou) > 8191 {
					ou = ou[1:]
					ou[0] ^= 1
				}
				deliver(i, "other-uid", &priv.PublicKey, pub, ou, sg.msg, sg.sig)
			case 2: // another key
				deliver(i, "other-key", &other.PublicKey, opub, sg.uid, sg.msg, sg.sig)
			default: // another signature of this signer
				o := sigs[(op.Int(0)+1)%len(sigs)]
				deliver(i, "other-signature", &priv.PublicKey, pub, sg.uid, sg.msg, o.sig)
			}
		case "random":
			rr, ss := new(big.Int).SetBytes(op.Bytes(0)), new(big.Int).SetBytes(op.Bytes(1))
			c.Abs("rnd")
			deliver(i, "random-r-s", &priv.PublicKey, pub, sg.uid, sg.msg, sm2m.MarshalDERSig(rr, ss))
		case "bigint":
			// values that only the (r, s *big.Int) entry points can be handed: negative numbers, and the usual range ends
			n := sm2m.N
			neg := func(x *big.Int) *big.Int { return new(big.Int).Neg(x) }
			pairs := [][2]*big.Int{{r, neg(s)}, {neg(r), s}, {neg(r), neg(s)}, {r, new(big.Int)}, {new(big.Int), s}, {r, new(big.Int).Add(s, n)}, {new(big.Int).Add(r, n), s},
				{r, new(big.Int).Sub(s, n)}, {new(big.Int).Sub(r, n), s}, {r, n}, {n, s}}
			c.Abs("big")
			c.Hit("fault:bigint-out-of-range")
			e := sg.e
			for k, pr := range pairs {
				got := sm2.Verify(&priv.PublicKey, e, pr[0], pr[1])
				got2 := got
				if !sg.raw {
					got2 = sm2.VerifyWithSM2(&priv.PublicKey, sg.uid, sg.msg, pr[0], pr[1])
				}
				c.Out("big", []byte{b2i(got), b2i(got2)})
				if got || got2 {
					c.Fail("invalid-signature-accepted", i, op.K, "the big.Int entry points accept a pair outside [1, n-1] (variant %d: Verify=%v VerifyWithSM2=%v): r=%s s=%s", k, got, got2, pr[0].Text(16), pr[1].Text(16))
					break
				}
			}
			// and the honest pair is accepted there
			if kk <= 2 && (!sm2.Verify(&priv.PublicKey, e, r, s) || (!sg.raw && !sm2.VerifyWithSM2(&priv.PublicKey, sg.uid, sg.msg, r, s))) {
				c.Fail("valid-signature-rejected", i, op.K, "the big.Int entry points reject the honest pair")
			}
		}
	}
}

func b2i(b bool) byte {
	if b {
		return 1
	}
	return 0
}
