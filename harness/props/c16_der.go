package props

import (
	"bytes"
	"sort"

	"verif/harness/sim"
)

// TLV helpers of the C16 transport: locating the parts of a PKCS#7 message,
// element substitution with consistent lengths, BER re-encodings and a
// generator of structurally-DER inputs for the BER normaliser.

func c16Len(n int) []byte {
	switch {
	case n < 0x80:
		return []byte{byte(n)}
	case n < 0x100:
		return []byte{0x81, byte(n)}
	case n < 0x10000:
		return []byte{0x82, byte(n >> 8), byte(n)}
	default:
		return []byte{0x83, byte(n >> 16), byte(n >> 8), byte(n)}
	}
}

func c16Raw(der []byte, t *sim.TLV) []byte {
	return der[t.Off : t.Off+t.HdrLen+len(t.Content)]
}

// c16Body returns the root and the inner SEQUENCE (SignedData, EnvelopedData, ...) of a ContentInfo.
func c16Body(der []byte) (root, body *sim.TLV) {
	root = sim.ParseAllTLV(der)
	if root == nil || root.Tag != 0x30 || len(root.Children) != 2 {
		return nil, nil
	}
	w := root.Children[1]
	if w.Tag != 0xa0 || len(w.Children) != 1 || w.Children[0].Tag != 0x30 || len(w.Children[0].Children) == 0 {
		return nil, nil
	}
	return root, w.Children[0]
}

func c16SignerSet(body *sim.TLV) *sim.TLV {
	if body == nil || len(body.Children) < 2 {
		return nil
	}
	last := body.Children[len(body.Children)-1]
	if last.Tag != 0x31 {
		return nil
	}
	return last
}

func c16RecipientSet(body *sim.TLV) *sim.TLV {
	if body == nil || len(body.Children) < 3 || body.Children[1].Tag != 0x31 {
		return nil
	}
	// EnvelopedData / SignedAndEnvelopedData: version, recipientInfos, ...
	// (SignedData has digestAlgorithms at index 1: told apart by the caller through the message kind)
	return body.Children[1]
}

func c16CertsIdx(body *sim.TLV) int {
	if body == nil {
		return -1
	}
	for i, k := range body.Children {
		if k.Tag == 0xa0 {
			return i
		}
	}
	return -1
}

// c16EncContent returns the EncryptedContentInfo SEQUENCE (first SEQUENCE child of the body).
func c16EncContent(body *sim.TLV) *sim.TLV {
	if body == nil {
		return nil
	}
	for _, k := range body.Children {
		if k.Tag == 0x30 {
			return k
		}
	}
	return nil
}

// c16SIView is the harness' own reading of one SignerInfo of a produced (DER) message.
type c16SIView struct {
	issuer, serial []byte
	digOID         []byte
	hasAttr        bool
	attrs          []byte // canonical: sorted DER attributes, concatenated
	attrsSet       []byte // 0x31-tagged SET OF encoding with the attributes in message order: the to-be-signed bytes
	mdAttr         []byte // value of the messageDigest attribute
	stAttr         []byte // raw value TLV of the signing-time attribute
	sig            []byte
	encOID         []byte   // digestEncryptionAlgorithm OID content
	unauth         [][]byte // OID contents of the unauthenticated attributes ([1] after the signature value)
	hasUnauth      bool
}

var c16OIDMessageDigest = []byte{0x2a, 0x86, 0x48, 0x86, 0xf7, 0x0d, 0x01, 0x09, 0x04}
var c16OIDSigningTime = []byte{0x2a, 0x86, 0x48, 0x86, 0xf7, 0x0d, 0x01, 0x09, 0x05}

func c16Canon(elems [][]byte) []byte {
	s := make([][]byte, len(elems))
	copy(s, elems)
	sort.Slice(s, func(i, j int) bool { return bytes.Compare(s[i], s[j]) < 0 })
	out := []byte{}
	for _, e := range s {
		out = append(out, e...)
	}
	return out
}

func c16ReadSigners(der []byte, body *sim.TLV) ([]c16SIView, bool) {
	set := c16SignerSet(body)
	if set == nil {
		return nil, false
	}
	var out []c16SIView
	for _, si := range set.Children {
		k := si.Children
		if si.Tag != 0x30 || len(k) < 5 || k[1].Tag != 0x30 || len(k[1].Children) != 2 || k[2].Tag != 0x30 || len(k[2].Children) < 1 {
			return nil, false
		}
		v := c16SIView{issuer: c16Raw(der, k[1].Children[0]), serial: k[1].Children[1].Content, digOID: k[2].Children[0].Content}
		seenAlg := false
		for _, e := range k[3:] {
			switch {
			case e.Tag == 0xa0 && !seenAlg:
				v.hasAttr = true
				var elems [][]byte
				for _, a := range e.Children {
					elems = append(elems, c16Raw(der, a))
					if a.Tag == 0x30 && len(a.Children) == 2 && a.Children[1].Tag == 0x31 && len(a.Children[1].Children) == 1 {
						if bytes.Equal(a.Children[0].Content, c16OIDMessageDigest) {
							v.mdAttr = a.Children[1].Children[0].Content
						}
						if bytes.Equal(a.Children[0].Content, c16OIDSigningTime) {
							v.stAttr = c16Raw(der, a.Children[1].Children[0])
						}
					}
				}
				v.attrs = c16Canon(elems)
				v.attrsSet = append(append([]byte{0x31}, c16Len(len(e.Content))...), e.Content...)
			case e.Tag == 0x30 && !seenAlg:
				seenAlg = true
				if len(e.Children) > 0 {
					v.encOID = e.Children[0].Content
				}
			case e.Tag == 0x04 && seenAlg && v.sig == nil:
				v.sig = append([]byte{}, e.Content...)
			case e.Tag == 0xa1 && v.sig != nil:
				v.hasUnauth = true
				for _, a := range e.Children {
					if a.Tag == 0x30 && len(a.Children) > 0 {
						v.unauth = append(v.unauth, a.Children[0].Content)
					}
				}
			}
		}
		if v.sig == nil {
			return nil, false
		}
		out = append(out, v)
	}
	return out, true
}

// c16RIView is the harness' own reading of one RecipientInfo of a produced (DER) message.
type c16RIView struct {
	version        int
	issuer, serial []byte // version 0 / 1: issuerAndSerialNumber
	ski            []byte // version 2: [0] subjectKeyIdentifier
	keyAlg         []byte // keyEncryptionAlgorithm OID content
	encKey         []byte
}

func c16ReadRecipients(der []byte, body *sim.TLV) ([]c16RIView, bool) {
	set := c16RecipientSet(body)
	if set == nil {
		return nil, false
	}
	var out []c16RIView
	for _, ri := range set.Children {
		k := ri.Children
		if ri.Tag != 0x30 || len(k) < 4 || k[0].Tag != 0x02 || len(k[0].Content) != 1 {
			return nil, false
		}
		v := c16RIView{version: int(k[0].Content[0])}
		switch {
		case k[1].Tag == 0x30 && len(k[1].Children) == 2:
			v.issuer, v.serial = c16Raw(der, k[1].Children[0]), k[1].Children[1].Content
		case k[1].Tag == 0x80:
			v.ski = k[1].Content
		default:
			return nil, false
		}
		last := k[len(k)-1]
		if last.Tag != 0x04 {
			return nil, false
		}
		v.encKey = last.Content
		if alg := k[len(k)-2]; alg.Tag == 0x30 && len(alg.Children) > 0 {
			v.keyAlg = alg.Children[0].Content
		}
		out = append(out, v)
	}
	return out, true
}

// c16AttachedContent returns the attached content of a SignedData body.
func c16AttachedContent(body *sim.TLV) (*sim.TLV, bool) {
	if body == nil || len(body.Children) < 3 || body.Children[2].Tag != 0x30 {
		return nil, false
	}
	ci := body.Children[2]
	if len(ci.Children) < 2 || ci.Children[1].Tag != 0xa0 || len(ci.Children[1].Children) != 1 || ci.Children[1].Children[0].Tag != 0x04 {
		return nil, false
	}
	return ci.Children[1].Children[0], true
}

func c16Prim(tag byte, content []byte) *sim.TLV { return &sim.TLV{Tag: tag, Content: content} }
func c16Cons(tag byte, kids ...*sim.TLV) *sim.TLV {
	if kids == nil {
		kids = []*sim.TLV{}
	}
	return &sim.TLV{Tag: tag, Children: kids}
}

// c16Opaque wraps already encoded elements as the opaque content of a constructed element.
func c16Opaque(tag byte, encoded []byte) *sim.TLV { return &sim.TLV{Tag: tag, Content: encoded} }

// c16Indef re-encodes a ContentInfo with indefinite lengths: depth 1 = outer
// SEQUENCE, 2 = also the [0] EXPLICIT wrapper, 3 = also the inner SEQUENCE.
func c16Indef(der []byte, depth int) []byte {
	root, body := c16Body(der)
	if root == nil {
		return nil
	}
	oid := c16Raw(der, root.Children[0])
	wrap := root.Children[1]
	inner := c16Raw(der, body)
	if depth >= 3 {
		inner = append(append([]byte{0x30, 0x80}, body.Content...), 0, 0)
	}
	var w []byte
	if depth >= 2 {
		w = append(append([]byte{0xa0, 0x80}, inner...), 0, 0)
	} else {
		w = append(append([]byte{0xa0}, c16Len(len(inner))...), inner...)
	}
	_ = wrap
	out := append([]byte{0x30, 0x80}, oid...)
	out = append(out, w...)
	return append(out, 0, 0)
}

// c16GenDER produces a structurally-DER element (definite, minimal lengths;
// low and high tag numbers) from seeded choices.
func c16GenDER(r *sim.Rand, depth int, budget *int) []byte {
	tagBytes := func(constructed bool) []byte {
		c := byte(0)
		if constructed {
			c = 0x20
		}
		switch r.Intn(8) {
		case 0: // high tag number, one octet (31..127)
			return []byte{[]byte{0x80, 0x40, 0xc0, 0x00}[r.Intn(4)] | c | 0x1f, byte(r.Range(31, 127))}
		case 1: // high tag number, two octets (128..16383), minimal
			return []byte{[]byte{0x80, 0x40, 0xc0}[r.Intn(3)] | c | 0x1f, 0x80 | byte(r.Range(1, 127)), byte(r.Intn(128))}
		case 2, 3:
			return []byte{0x80 | c | byte(r.Intn(31))}
		default:
			if constructed {
				return []byte{[]byte{0x30, 0x31, 0x24, 0x23}[r.Intn(4)]}
			}
			return []byte{[]byte{0x01, 0x02, 0x03, 0x04, 0x05, 0x06, 0x0c, 0x13, 0x17, 0x18, 0x0a, 0x1e}[r.Intn(12)]}
		}
	}
	wrapLen := func(tag, content []byte) []byte {
		return append(append(append([]byte{}, tag...), c16Len(len(content))...), content...)
	}
	if depth >= 4 || *budget <= 0 || r.Chance(2, 5) {
		n := r.PickInt(0, 0, 1, 2, 3, 16, 126, 127, 128, 129, 200, 254, 255, 256, 257, 1000)
		if r.Chance(1, 60) {
			n = r.PickInt(65534, 65535, 65536, 65537, 70000)
		}
		if n > *budget {
			n = r.Intn(4)
		}
		*budget -= n + 4
		content := r.Bytes(n)
		return wrapLen(tagBytes(false), content)
	}
	var content []byte
	nk := r.PickInt(0, 1, 1, 2, 2, 3, 4, 6)
	for i := 0; i < nk; i++ {
		content = append(content, c16GenDER(r, depth+1, budget)...)
	}
	if r.Chance(1, 6) && len(content) < 127 {
		// pad the constructed element to a length next to the 127/128 boundary with an OCTET STRING child
		need := r.PickInt(126, 127, 128, 129) - len(content) - 2
		if need >= 0 && need < 126 {
			content = append(content, wrapLen([]byte{0x04}, r.Bytes(need))...)
		}
	}
	return wrapLen(tagBytes(true), content)
}
