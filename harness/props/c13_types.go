package props

import (
	"bytes"
	"crypto"
	"crypto/rand"
	"crypto/x509"
	"crypto/x509/pkix"
	"encoding/asn1"
	"encoding/base64"
	"encoding/pem"
	"fmt"
	"math/big"
	"net"
	"time"

	"github.com/emmansun/gmsm/cfca"
	"github.com/emmansun/gmsm/ecdh"
	"github.com/emmansun/gmsm/padding"
	"github.com/emmansun/gmsm/pkcs"
	"github.com/emmansun/gmsm/pkcs7"
	"github.com/emmansun/gmsm/pkcs8"
	"github.com/emmansun/gmsm/sm2"
	"github.com/emmansun/gmsm/sm3"
	"github.com/emmansun/gmsm/sm9"
	"github.com/emmansun/gmsm/smx509"

	"verif/harness/model/sm2m"
	"verif/harness/sim"
)

// c13Type is one entry of the artefact catalogue.
type c13Type struct {
	name     string
	variants int
	build    func(w *c13World, v int) (*c13Art, error)
}

// c13RunBudgetUS is the target cost of one slice (microseconds on the development machine).
const c13RunBudgetUS = 40000

// dim returns the static estimates {bytes of the delivered form, lie items,
// microseconds per hostile input over all consumers} of one variant. They are
// used ONLY to choose slice widths and generator weights; the executor takes
// slice indices modulo the slice count of the actual artefact.
func (t *c13Type) dim(v int) [3]int {
	if d, ok := c13Dims[t.name]; ok && v >= 0 && v < len(d) {
		x := d[v]
		x[1] = x[1] * 14 / 3 // the table counts the first block of element lies (30 variants); there are about 140 by now
		return x
	}
	return [3]int{256, 300, 300}
}

// widths returns the slice widths {trunc, subst, lie, tiny} of one variant.
func (t *c13Type) widths(v int) [4]int {
	c := t.dim(v)[2]
	if c < 1 {
		c = 1
	}
	n := c13RunBudgetUS / c // hostile inputs per slice
	if n < 24 {
		n = 24
	}
	if n > 1000 {
		n = 1000
	}
	return [4]int{n * 2 /* most truncations are refused early */, (n + 6) / 7, n, max(4*n, len(c13Tiny))}
}

func (t *c13Type) classCells(v int) [5]int {
	d, w := t.dim(v), t.widths(v)
	return [5]int{c13Slices(d[0], w[0]), c13Slices(d[0], w[1]), c13Slices(d[1], w[2]), c13MultiSlices, c13Slices(len(c13Tiny), w[3])}
}

func (t *c13Type) cells(v int) int {
	n := 0
	for _, x := range t.classCells(v) {
		n += x
	}
	return n
}

var c13Types []*c13Type

func c13Register(t *c13Type) { c13Types = append(c13Types, t) }

// consumer constructors
func c13C(name string, want bool, f func(in []byte) error) c13Cons {
	return c13Cons{name: name, wantOK: want, f: func(in []byte, _ any) bool { return f(in) == nil }}
}

func c13B(name string, want bool, f func(in []byte) bool) c13Cons {
	return c13Cons{name: name, wantOK: want, f: func(in []byte, _ any) bool { return f(in) }}
}

var (
	c13PW      = []byte("correct horse")
	c13WrongPW = []byte("battery staple")
)

// c13SM2SigByz: signatures a hostile signer derives from the very digest the verifier will use - well-formed DER,
// values in algebraic relation to it: R = [s]G (the recovered key is the point at infinity), r+s = n, r = e
// (x(R) = 0), r-e just below / above the second candidate abscissa, and the range ends of r and s.
func c13SM2SigByz(hash []byte, v int) []c13Byz {
	n := sm2m.N
	e := new(big.Int).SetBytes(hash)
	var out []c13Byz
	add := func(desc string, r, s *big.Int) {
		out = append(out, c13Byz{desc, sm2m.MarshalDERSig(r, s)})
	}
	for i, s := range []*big.Int{big.NewInt(1), big.NewInt(2), new(big.Int).SetBytes(scalarFrom([]byte{byte(v)}, "c13 byz s")), new(big.Int).Sub(n, big.NewInt(1))} {
		pt := sm2m.ScalarBaseMult(s)
		r := new(big.Int).Add(pt.X, e)
		r.Mod(r, n)
		if r.Sign() != 0 {
			add(fmt.Sprintf("signature with R = [s]G (#%d): the recovered key is the point at infinity", i), r, s)
		}
	}
	r0 := new(big.Int).SetBytes(scalarFrom([]byte{byte(v)}, "c13 byz r"))
	add("signature with r+s = n", r0, new(big.Int).Sub(n, r0))
	if re := new(big.Int).Mod(e, n); re.Sign() != 0 {
		add("signature with r = e mod n (x(R) = 0)", re, r0)
	}
	// r - e + n just below p / exactly p-n .. : the second candidate abscissa of the recovery
	pn := new(big.Int).Sub(sm2m.P, n)
	for d := int64(-1); d <= 1; d++ {
		r := new(big.Int).Add(pn, big.NewInt(d))
		r.Add(r, e)
		r.Mod(r, n)
		if r.Sign() != 0 {
			add(fmt.Sprintf("signature with r-e = p-n%+d", d), r, r0)
		}
	}
	one, nm1 := big.NewInt(1), new(big.Int).Sub(n, big.NewInt(1))
	max := new(big.Int).Sub(new(big.Int).Lsh(one, 256), one)
	for _, x := range [][2]*big.Int{{new(big.Int), one}, {one, new(big.Int)}, {n, one}, {one, n}, {nm1, nm1}, {max, one}, {one, max}, {one, one}, {nm1, one}} {
		add(fmt.Sprintf("signature with (r, s) = (%x.., %x..)", trunc(x[0].Bytes(), 4), trunc(x[1].Bytes(), 4)), x[0], x[1])
	}
	return out
}

func init() {
	// ------------------------------------------------------------------ SM2
	c13Register(&c13Type{name: "sm2-signature", variants: 2, build: func(w *c13World, v int) (*c13Art, error) {
		priv := w.fx.leafKey
		msg := derive([]byte{byte(v)}, "c13 sm2 msg", 45)
		hash := sm3.Sum(msg)
		var sig []byte
		var err error
		if v == 0 {
			sig, err = sm2.SignASN1(rand.Reader, priv, hash[:], nil)
		} else {
			sig, err = priv.Sign(rand.Reader, msg, sm2.DefaultSM2SignerOpts)
		}
		if err != nil {
			return nil, err
		}
		pub := &priv.PublicKey
		return &c13Art{data: sig, byz: c13SM2SigByz(hash[:], v), cons: []c13Cons{
			c13B("sm2.VerifyASN1", v == 0, func(in []byte) bool { return sm2.VerifyASN1(pub, hash[:], in) }),
			c13B("sm2.VerifyASN1WithSM2", v == 1, func(in []byte) bool { return sm2.VerifyASN1WithSM2(pub, nil, msg, in) }),
			c13C("sm2.RecoverPublicKeysFromSM2Signature", v == 0, func(in []byte) error { _, err := sm2.RecoverPublicKeysFromSM2Signature(hash[:], in); return err }),
		}}, nil
	}})
	sm2RawCons := func(w *c13World, want int) []c13Cons {
		priv, other := w.fx.leafKey, w.fx.otherKey
		return []c13Cons{
			c13C("sm2.Decrypt", want == 0, func(in []byte) error { _, err := sm2.Decrypt(priv, in); return err }),
			c13C("sm2.PrivateKey.Decrypt(C1C2C3)", want == 1, func(in []byte) error {
				_, err := priv.Decrypt(nil, in, sm2.NewPlainDecrypterOpts(sm2.C1C2C3))
				return err
			}),
			c13C("sm2.PrivateKey.Decrypt(ASN1)", want == 2, func(in []byte) error { _, err := priv.Decrypt(nil, in, sm2.ASN1DecrypterOpts); return err }),
			c13C("sm2.Decrypt(unrelated key)", false, func(in []byte) error { _, err := sm2.Decrypt(other, in); return err }),
			c13C("sm2.AdjustCiphertextSplicingOrder(C1C3C2->C1C2C3)", want != 2, func(in []byte) error {
				_, err := sm2.AdjustCiphertextSplicingOrder(in, sm2.C1C3C2, sm2.C1C2C3)
				return err
			}),
			c13C("sm2.AdjustCiphertextSplicingOrder(C1C2C3->C1C3C2)", want != 2, func(in []byte) error {
				_, err := sm2.AdjustCiphertextSplicingOrder(in, sm2.C1C2C3, sm2.C1C3C2)
				return err
			}),
			c13C("sm2.PlainCiphertext2ASN1(C1C3C2)", want != 2, func(in []byte) error { _, err := sm2.PlainCiphertext2ASN1(in, sm2.C1C3C2); return err }),
			c13C("sm2.PlainCiphertext2ASN1(C1C2C3)", want != 2, func(in []byte) error { _, err := sm2.PlainCiphertext2ASN1(in, sm2.C1C2C3); return err }),
			c13C("sm2.ASN1Ciphertext2Plain", want == 2, func(in []byte) error { _, err := sm2.ASN1Ciphertext2Plain(in, nil); return err }),
			c13C("sm2.ASN1Ciphertext2Plain(compressed C1C2C3)", want == 2, func(in []byte) error {
				_, err := sm2.ASN1Ciphertext2Plain(in, sm2.NewPlainEncrypterOpts(sm2.MarshalCompressed, sm2.C1C2C3))
				return err
			}),
		}
	}
	c13Register(&c13Type{name: "sm2-ciphertext-raw", variants: 6, build: func(w *c13World, v int) (*c13Art, error) {
		modes := []struct {
			comp  int
			order int
		}{{0, 0}, {0, 1}, {1, 0}, {1, 1}, {2, 0}, {2, 1}}
		m := modes[v]
		msg := derive([]byte{byte(v)}, "c13 sm2 pt", []int{40, 1, 33, 64, 17, 40}[v])
		var opts *sm2.EncrypterOpts
		switch {
		case m.comp == 0 && m.order == 0:
			opts = sm2.NewPlainEncrypterOpts(sm2.MarshalUncompressed, sm2.C1C3C2)
		case m.comp == 0:
			opts = sm2.NewPlainEncrypterOpts(sm2.MarshalUncompressed, sm2.C1C2C3)
		case m.comp == 1 && m.order == 0:
			opts = sm2.NewPlainEncrypterOpts(sm2.MarshalCompressed, sm2.C1C3C2)
		case m.comp == 1:
			opts = sm2.NewPlainEncrypterOpts(sm2.MarshalCompressed, sm2.C1C2C3)
		case m.order == 0:
			opts = sm2.NewPlainEncrypterOpts(sm2.MarshalHybrid, sm2.C1C3C2)
		default:
			opts = sm2.NewPlainEncrypterOpts(sm2.MarshalHybrid, sm2.C1C2C3)
		}
		ct, err := sm2.Encrypt(rand.Reader, &w.fx.leafKey.PublicKey, msg, opts)
		if err != nil {
			return nil, err
		}
		c1 := 65
		if m.comp == 1 {
			c1 = 33
		}
		if len(ct) < c1+32+len(msg) {
			return nil, fmt.Errorf("short ciphertext")
		}
		var fields [][]byte
		fields = append(fields, ct[:1], ct[1:33])
		if c1 == 65 {
			fields = append(fields, ct[33:65])
		}
		if m.order == 0 {
			fields = append(fields, ct[c1:c1+32], ct[c1+32:])
		} else {
			fields = append(fields, ct[c1:len(ct)-32], ct[len(ct)-32:])
		}
		return &c13Art{data: ct, raw: true, fields: fields, cons: sm2RawCons(w, m.order)}, nil
	}})
	c13Register(&c13Type{name: "sm2-ciphertext-asn1", variants: 2, build: func(w *c13World, v int) (*c13Art, error) {
		msg := derive([]byte{byte(v)}, "c13 sm2 pt asn1", []int{1, 100}[v])
		ct, err := sm2.EncryptASN1(rand.Reader, &w.fx.leafKey.PublicKey, msg)
		if err != nil {
			return nil, err
		}
		return &c13Art{data: ct, cons: sm2RawCons(w, 2)}, nil
	}})
	c13Register(&c13Type{name: "sm2-public-key-raw", variants: 3, build: func(w *c13World, v int) (*c13Art, error) {
		pub := &w.fx.leafKey.PublicKey
		x, y := pub.X.FillBytes(make([]byte, 32)), pub.Y.FillBytes(make([]byte, 32))
		var f [][]byte
		switch v {
		case 0:
			f = [][]byte{{4}, x, y}
		case 1:
			f = [][]byte{{2 + byte(pub.Y.Bit(0))}, x}
		default:
			f = [][]byte{{6 + byte(pub.Y.Bit(0))}, x, y}
		}
		return &c13Art{data: bytes.Join(f, nil), raw: true, fields: f, cons: []c13Cons{
			c13C("sm2.NewPublicKey", v == 0, func(in []byte) error { _, err := sm2.NewPublicKey(in); return err }),
			c13C("ecdh.P256().NewPublicKey", v == 0, func(in []byte) error { _, err := ecdh.P256().NewPublicKey(in); return err }),
		}}, nil
	}})
	c13Register(&c13Type{name: "sm2-private-key-raw", variants: 2, build: func(w *c13World, v int) (*c13Art, error) {
		d := w.fx.leafKey.D.FillBytes(make([]byte, 32))
		if v == 1 {
			// the largest valid scalar: n-2
			n := new(big.Int).Sub(sm2.P256().Params().N, big.NewInt(2))
			d = n.FillBytes(make([]byte, 32))
		}
		return &c13Art{data: d, raw: true, fields: [][]byte{d}, cons: []c13Cons{
			c13C("sm2.NewPrivateKey", true, func(in []byte) error { _, err := sm2.NewPrivateKey(in); return err }),
			c13C("ecdh.P256().NewPrivateKey", true, func(in []byte) error { _, err := ecdh.P256().NewPrivateKey(in); return err }),
		}}, nil
	}})
	keyDERCons := func(w *c13World, want string) []c13Cons {
		return []c13Cons{
			c13C("smx509.ParseSM2PrivateKey", want == "sec1-sm2", func(in []byte) error { _, err := smx509.ParseSM2PrivateKey(in); return err }),
			c13C("smx509.ParseECPrivateKey", want == "sec1-sm2" || want == "sec1", func(in []byte) error { _, err := smx509.ParseECPrivateKey(in); return err }),
			c13C("smx509.ParseTypedECPrivateKey", want == "sec1-sm2" || want == "sec1", func(in []byte) error { _, err := smx509.ParseTypedECPrivateKey(in); return err }),
			c13C("smx509.ParsePKCS8PrivateKey", want == "pkcs8", func(in []byte) error { _, err := smx509.ParsePKCS8PrivateKey(in); return err }),
			c13C("smx509.ParsePKCS1PrivateKey", want == "pkcs1", func(in []byte) error { _, err := smx509.ParsePKCS1PrivateKey(in); return err }),
			c13C("smx509.ParsePKCS1PublicKey", want == "pkcs1pub", func(in []byte) error { _, err := smx509.ParsePKCS1PublicKey(in); return err }),
			c13C("smx509.ParsePKIXPublicKey", want == "pkix", func(in []byte) error { _, err := smx509.ParsePKIXPublicKey(in); return err }),
		}
	}
	c13Register(&c13Type{name: "sec1-private-key", variants: 2, build: func(w *c13World, v int) (*c13Art, error) {
		var der []byte
		var err error
		want := "sec1"
		switch v {
		case 0:
			der, err = smx509.MarshalSM2PrivateKey(w.fx.leafKey)
			want = "sec1-sm2"
		case 1:
			der, err = smx509.MarshalECPrivateKey(w.fx.ecdsa0)
		default:
			der, err = smx509.MarshalECPrivateKey(w.fx.ecdsa1)
		}
		return &c13Art{data: der, cons: keyDERCons(w, want)}, err
	}})
	c13Register(&c13Type{name: "pkix-public-key", variants: 4, build: func(w *c13World, v int) (*c13Art, error) {
		var pub any
		switch v {
		case 0:
			pub = &w.fx.leafKey.PublicKey
		case 1:
			pub = &w.fx.rsa0.PublicKey
		case 2:
			pub = &w.fx.ecdsa0.PublicKey
		default:
			p, err := sm2.PublicKeyToECDH(&w.fx.leafKey.PublicKey)
			if err != nil {
				return nil, err
			}
			pub = p
		}
		der, err := smx509.MarshalPKIXPublicKey(pub)
		return &c13Art{data: der, cons: keyDERCons(w, "pkix")}, err
	}})
	c13Register(&c13Type{name: "pkcs1-rsa-key", variants: 2, build: func(w *c13World, v int) (*c13Art, error) {
		if v == 0 {
			return &c13Art{data: smx509.MarshalPKCS1PrivateKey(w.fx.rsa0), cons: keyDERCons(w, "pkcs1")}, nil
		}
		return &c13Art{data: smx509.MarshalPKCS1PublicKey(&w.fx.rsa0.PublicKey), cons: keyDERCons(w, "pkcs1pub")}, nil
	}})
	pkcs8Cons := func(w *c13World, kind string, pw []byte) []c13Cons {
		enc := pw != nil
		out := []c13Cons{
			c13C("pkcs8.ParsePrivateKey", true, func(in []byte) error { _, _, err := pkcs8.ParsePrivateKey(in, pw); return err }),
			c13C("pkcs8.ParsePKCS8PrivateKey", true, func(in []byte) error {
				if pw == nil {
					_, err := pkcs8.ParsePKCS8PrivateKey(in)
					return err
				}
				_, err := pkcs8.ParsePKCS8PrivateKey(in, pw)
				return err
			}),
			c13C("pkcs8.ParsePKCS8PrivateKey(wrong password)", false, func(in []byte) error { _, err := pkcs8.ParsePKCS8PrivateKey(in, c13WrongPW); return err }),
			c13C("smx509.ParsePKCS8PrivateKey", !enc, func(in []byte) error { _, err := smx509.ParsePKCS8PrivateKey(in); return err }),
			c13C("pkcs8.ParsePKCS8PrivateKeySM2", kind == "sm2", func(in []byte) error {
				if pw == nil {
					_, err := pkcs8.ParsePKCS8PrivateKeySM2(in)
					return err
				}
				_, err := pkcs8.ParsePKCS8PrivateKeySM2(in, pw)
				return err
			}),
		}
		if enc {
			out = append(out, c13C("pkcs8.ParsePKCS8PrivateKey(no password)", false, func(in []byte) error { _, err := pkcs8.ParsePKCS8PrivateKey(in); return err }))
			return out
		}
		typed := map[string]c13Cons{
			"rsa":   c13C("pkcs8.ParsePKCS8PrivateKeyRSA", true, func(in []byte) error { _, err := pkcs8.ParsePKCS8PrivateKeyRSA(in); return err }),
			"ecdsa": c13C("pkcs8.ParsePKCS8PrivateKeyECDSA", true, func(in []byte) error { _, err := pkcs8.ParsePKCS8PrivateKeyECDSA(in); return err }),
			"sm9sm": c13C("pkcs8.ParseSM9SignMasterPrivateKey", true, func(in []byte) error { _, err := pkcs8.ParseSM9SignMasterPrivateKey(in); return err }),
			"sm9s":  c13C("pkcs8.ParseSM9SignPrivateKey", true, func(in []byte) error { _, err := pkcs8.ParseSM9SignPrivateKey(in); return err }),
			"sm9em": c13C("pkcs8.ParseSM9EncryptMasterPrivateKey", true, func(in []byte) error { _, err := pkcs8.ParseSM9EncryptMasterPrivateKey(in); return err }),
			"sm9e":  c13C("pkcs8.ParseSM9EncryptPrivateKey", true, func(in []byte) error { _, err := pkcs8.ParseSM9EncryptPrivateKey(in); return err }),
		}
		if c, ok := typed[kind]; ok {
			out[len(out)-1] = c // instead of the SM2 typed parser
		}
		return out
	}
	c13Register(&c13Type{name: "pkcs8-plain", variants: 9, build: func(w *c13World, v int) (*c13Art, error) {
		var key any
		kind := ""
		switch v {
		case 0:
			key, kind = w.fx.leafKey, "sm2"
		case 1:
			key, kind = w.fx.rsa0, "rsa"
		case 2:
			key, kind = w.fx.ecdsa0, "ecdsa"
		case 3:
			key, kind = w.fx.ecdsa1, "ecdsa"
		case 4:
			k, err := w.fx.leafKey.ECDH()
			if err != nil {
				return nil, err
			}
			key, kind = k, "sm2"
		default:
			if err := w.fx.sm9(); err != nil {
				return nil, err
			}
			switch v {
			case 5:
				key, kind = w.fx.sm9SignMaster, "sm9sm"
			case 6:
				key, kind = w.fx.sm9SignUser, "sm9s"
			case 7:
				key, kind = w.fx.sm9EncMaster, "sm9em"
			default:
				key, kind = w.fx.sm9EncUser, "sm9e"
			}
		}
		der, err := smx509.MarshalPKCS8PrivateKey(key)
		return &c13Art{data: der, costGuard: true, cons: pkcs8Cons(w, kind, nil)}, err
	}})
	c13Register(&c13Type{name: "pkcs8-encrypted", variants: 13, build: func(w *c13World, v int) (*c13Art, error) {
		pb := func(h pkcs.Hash) pkcs.KDFOpts { return pkcs.NewPBKDF2Opts(h, 8, 16) }
		sc := pkcs.NewScryptOpts(8, 16, 2, 1)
		var e pkcs.PBESEncrypter
		switch v {
		case 0:
			e = pkcs.NewPBESEncrypter(pkcs.SM4CBC, pb(pkcs.SM3))
		case 1:
			e = pkcs.NewSMPBESEncrypter(16, 8)
		case 2:
			e = pkcs.NewPBESEncrypter(pkcs.SM4GCM, pb(pkcs.SHA256))
		case 3:
			e = pkcs.NewPBESEncrypter(pkcs.AES128CBC, pb(pkcs.SHA1))
		case 4:
			e = pkcs.NewPBESEncrypter(pkcs.AES192CBC, pb(pkcs.SHA224))
		case 5:
			e = pkcs.NewPBESEncrypter(pkcs.AES256CBC, sc)
		case 6:
			e = pkcs.NewPBESEncrypter(pkcs.AES128GCM, pb(pkcs.SHA384))
		case 7:
			e = pkcs.NewPBESEncrypter(pkcs.AES256GCM, pb(pkcs.SHA512))
		case 8:
			e = pkcs.NewPBESEncrypter(pkcs.DESCBC, pb(pkcs.SHA512_224))
		case 9:
			e = pkcs.NewPBESEncrypter(pkcs.TripleDESCBC, pb(pkcs.SHA512_256))
		case 10:
			e = pkcs.NewPBESEncrypter(pkcs.SM4, sc)
		case 11:
			e = pkcs.NewPBESEncrypter(pkcs.SM4ECB, pb(pkcs.SM3))
		default:
			e = pkcs.NewPBESEncrypter(pkcs.AES192GCM, sc)
		}
		der, err := pkcs8.MarshalPrivateKey(w.fx.leafKey, c13PW, e)
		return &c13Art{data: der, costGuard: true, cons: pkcs8Cons(w, "sm2", c13PW)}, err
	}})
	c13Register(&c13Type{name: "pkcs8-pbes1", variants: 6, build: func(w *c13World, v int) (*c13Art, error) {
		mk := []func() (*pkcs.PBES1, error){
			func() (*pkcs.PBES1, error) { return pkcs.NewPbeWithMD2AndDESCBC(rand.Reader, 8, 16) },
			func() (*pkcs.PBES1, error) { return pkcs.NewPbeWithMD2AndRC2CBC(rand.Reader, 8, 16) },
			func() (*pkcs.PBES1, error) { return pkcs.NewPbeWithMD5AndDESCBC(rand.Reader, 8, 16) },
			func() (*pkcs.PBES1, error) { return pkcs.NewPbeWithMD5AndRC2CBC(rand.Reader, 8, 16) },
			func() (*pkcs.PBES1, error) { return pkcs.NewPbeWithSHA1AndDESCBC(rand.Reader, 8, 16) },
			func() (*pkcs.PBES1, error) { return pkcs.NewPbeWithSHA1AndRC2CBC(rand.Reader, 8, 16) },
		}
		e, err := mk[v]()
		if err != nil {
			return nil, err
		}
		der, err := pkcs8.MarshalPrivateKey(w.fx.leafKey, c13PW, e)
		return &c13Art{data: der, costGuard: true, cons: pkcs8Cons(w, "sm2", c13PW)}, err
	}})
	c13Register(&c13Type{name: "legacy-encrypted-pem", variants: 6, build: func(w *c13World, v int) (*c13Art, error) {
		algs := []smx509.PEMCipher{smx509.PEMCipherDES, smx509.PEMCipher3DES, smx509.PEMCipherAES128, smx509.PEMCipherAES192, smx509.PEMCipherAES256, smx509.PEMCipherSM4}
		sec1, err := smx509.MarshalSM2PrivateKey(w.fx.leafKey)
		if err != nil {
			return nil, err
		}
		blk, err := smx509.EncryptPEMBlock(rand.Reader, "EC PRIVATE KEY", sec1, c13PW, algs[v])
		if err != nil {
			return nil, err
		}
		dek := blk.Headers["DEK-Info"]
		comma := bytes.IndexByte([]byte(dek), ',')
		if comma < 0 {
			return nil, fmt.Errorf("no DEK-Info")
		}
		join := func(f [][]byte) []byte {
			if len(f) < 3 {
				for len(f) < 3 {
					f = append(f, nil)
				}
			}
			return pem.EncodeToMemory(&pem.Block{Type: "EC PRIVATE KEY", Headers: map[string]string{"Proc-Type": "4,ENCRYPTED", "DEK-Info": string(f[0]) + "," + string(f[1])}, Bytes: bytes.Join(f[2:], nil)})
		}
		dec := func(pw []byte) func(in []byte) error {
			return func(in []byte) error {
				b, _ := pem.Decode(in)
				if b == nil {
					return errC13
				}
				if !smx509.IsEncryptedPEMBlock(b) {
					return errC13
				}
				_, err := smx509.DecryptPEMBlock(b, pw)
				return err
			}
		}
		return &c13Art{data: pem.EncodeToMemory(blk), fields: [][]byte{[]byte(dek[:comma]), []byte(dek[comma+1:]), blk.Bytes}, join: join, wrapTiny: func(in []byte) []byte {
			return join([][]byte{[]byte(dek[:comma]), []byte(dek[comma+1:]), in}) // a tiny body under a well-formed DEK-Info header
		}, cons: []c13Cons{
			c13C("pem.Decode+smx509.DecryptPEMBlock", true, dec(c13PW)),
			c13C("pem.Decode+smx509.DecryptPEMBlock(wrong password)", false, dec(c13WrongPW)),
		}}, nil
	}})
	c13Register(&c13Type{name: "sm2-enveloped-key", variants: 1, build: func(w *c13World, v int) (*c13Art, error) {
		recip := w.fx.leafKey
		der, err := sm2.MarshalEnvelopedPrivateKey(rand.Reader, &recip.PublicKey, w.fx.encKey)
		if err != nil {
			return nil, err
		}
		a := &c13Art{data: der, cons: []c13Cons{
			c13C("sm2.ParseEnvelopedPrivateKey", true, func(in []byte) error { _, err := sm2.ParseEnvelopedPrivateKey(recip, in); return err }),
			c13C("sm2.ParseEnvelopedPrivateKey(unrelated key)", false, func(in []byte) error { _, err := sm2.ParseEnvelopedPrivateKey(w.fx.otherKey, in); return err }),
		}}
		// Byzantine sender: the SM2-encrypted symmetric key has the wrong size
		if root := sim.ParseAllTLV(der); root != nil && len(root.Children) == 4 {
			for _, n := range []int{0, 5, 32} {
				ek, err := sm2.EncryptASN1(rand.Reader, &recip.PublicKey, make([]byte, n))
				if err != nil {
					continue // empty plaintexts are refused by the producer
				}
				c := root.Clone()
				if k := sim.ParseAllTLV(ek); k != nil {
					c.Children[1] = k
					a.byz = append(a.byz, c13Byz{fmt.Sprintf("symmetric key of %d bytes", n), c.Encode()})
				}
			}
		}
		return a, nil
	}})
	// ------------------------------------------------------------------ CFCA
	c13Register(&c13Type{name: "cfca-sm2-blob", variants: 1, build: func(w *c13World, v int) (*c13Art, error) {
		der, err := cfca.MarshalSM2(c13PW, w.fx.leafKey, w.fx.leaf)
		return &c13Art{data: der, cons: []c13Cons{
			c13C("cfca.ParseSM2", true, func(in []byte) error { _, _, err := cfca.ParseSM2(c13PW, in); return err }),
			c13C("cfca.ParseSM2(wrong password)", false, func(in []byte) error { _, _, err := cfca.ParseSM2(c13WrongPW, in); return err }),
			c13C("cfca.ParseSM2(empty password)", false, func(in []byte) error { _, _, err := cfca.ParseSM2(nil, in); return err }),
		}}, err
	}})
	c13Register(&c13Type{name: "cfca-sm4cbc", variants: 3, build: func(w *c13World, v int) (*c13Art, error) {
		ct, err := cfca.EncryptBySM4CBC(derive([]byte{byte(v)}, "c13 cfca pt", []int{5, 16, 40}[v]), c13PW)
		if err != nil {
			return nil, err
		}
		var f [][]byte
		for i := 0; i < len(ct); i += 16 {
			f = append(f, ct[i:min(i+16, len(ct))])
		}
		return &c13Art{data: ct, raw: true, fields: f, cons: []c13Cons{
			c13C("cfca.DecryptBySM4CBC", true, func(in []byte) error { _, err := cfca.DecryptBySM4CBC(in, c13PW); return err }),
			c13C("cfca.DecryptBySM4CBC(wrong password)", false, func(in []byte) error { _, err := cfca.DecryptBySM4CBC(in, c13WrongPW); return err }),
			c13C("cfca.DecryptBySM4CBC(empty password)", false, func(in []byte) error { _, err := cfca.DecryptBySM4CBC(in, nil); return err }),
		}}, nil
	}})
	c13Register(&c13Type{name: "cfca-escrow-key", variants: 3, build: func(w *c13World, v int) (*c13Art, error) {
		tmp, key := w.fx.leafKey, w.fx.encKey
		pt := append(append(key.X.FillBytes(make([]byte, 32)), key.Y.FillBytes(make([]byte, 32))...), key.D.FillBytes(make([]byte, 32))...)
		ct, err := sm2.Encrypt(rand.Reader, &tmp.PublicKey, pt, nil) // C1 || C3 || C2; the blob carries it without the 0x04 octet
		if err != nil {
			return nil, err
		}
		der, err := asn1.Marshal(struct {
			Version      int
			EncryptedKey []byte
		}{1, ct[1:]})
		if err != nil {
			return nil, err
		}
		wrap := func(der []byte) []byte {
			b := []byte(base64.StdEncoding.EncodeToString(der))
			if v == 2 {
				var o []byte
				for i := 0; i < len(b); i += 64 {
					if i > 0 {
						o = append(o, ',')
					}
					o = append(o, b[i:min(i+64, len(b))]...)
				}
				b = o
			}
			if v == 1 {
				b = append([]byte(fmt.Sprintf("0000000000000001000000000000000100000000000000000000000000000000%016d", len(b))), b...)
			}
			return b
		}
		// a hostile CA: blobs VALIDLY encrypted to the temporary key (C3 authenticates the plaintext, so no alteration of
		// an honest blob can change its length) around plaintexts of other lengths than the 96 octets X || Y || d
		var byz []c13Byz
		for _, n := range []int{1, 2, 31, 32, 33, 63, 64, 65, 95, 97, 100, 128} {
			hp := derive([]byte{byte(n), byte(v)}, "c13 escrow byz", n)
			hct, err := sm2.Encrypt(rand.Reader, &tmp.PublicKey, hp, nil)
			if err != nil {
				return nil, err
			}
			hder, err := asn1.Marshal(struct {
				Version      int
				EncryptedKey []byte
			}{1, hct[1:]})
			if err != nil {
				return nil, err
			}
			// the entry point refuses texts below 268 octets up front: trailing octets behind the DER carry the blob over it
			byz = append(byz, c13Byz{fmt.Sprintf("escrow blob around a %d-octet plaintext", n), wrap(append(hder, make([]byte, 210)...))})
		}
		return &c13Art{data: wrap(der), inner: der, wrap: wrap, byz: byz, wrapTiny: func(in []byte) []byte {
			// the entry point refuses everything below 268 octets up front: tiny DER stubs travel padded inside the base64 layer
			return wrap(append(append([]byte{}, in...), make([]byte, 210)...))
		}, cons: []c13Cons{
			c13C("cfca.ParseEscrowPrivateKey", true, func(in []byte) error { _, err := cfca.ParseEscrowPrivateKey(tmp, in); return err }),
			c13C("cfca.ParseEscrowPrivateKey(unrelated key)", false, func(in []byte) error { _, err := cfca.ParseEscrowPrivateKey(w.fx.otherKey, in); return err }),
		}}, nil
	}})
	csrCons := func(w *c13World, cfcaOK, pemOK bool) []c13Cons {
		return []c13Cons{
			c13C("smx509.ParseCertificateRequest+CheckSignature", !pemOK, func(in []byte) error {
				r, err := smx509.ParseCertificateRequest(in)
				if err != nil {
					return err
				}
				return r.CheckSignature()
			}),
			c13C("smx509.ParseCFCACertificateRequest+CheckSignature", !pemOK, func(in []byte) error {
				r, err := smx509.ParseCFCACertificateRequest(in)
				if err != nil {
					return err
				}
				return r.CheckSignature()
			}),
			c13C("cfca.ParseCertificateRequest", !pemOK, func(in []byte) error { _, err := cfca.ParseCertificateRequest(in); return err }),
			c13C("smx509.ParseCertificateRequestPEM", pemOK, func(in []byte) error { _, err := smx509.ParseCertificateRequestPEM(in); return err }),
		}
	}
	csrTemplate := func() *x509.CertificateRequest {
		return &x509.CertificateRequest{
			Subject:         pkix.Name{Country: []string{"CN"}, Organization: []string{"verif"}, CommonName: "csr.verif.example"},
			DNSNames:        []string{"csr.verif.example", "alt.verif.example"},
			EmailAddresses:  []string{"csr@verif.example"},
			IPAddresses:     []net.IP{net.IPv4(10, 0, 0, 1)},
			ExtraExtensions: []pkix.Extension{{Id: asn1.ObjectIdentifier{2, 5, 29, 15}, Critical: true, Value: []byte{0x03, 0x02, 0x05, 0xa0}}},
		}
	}
	c13Register(&c13Type{name: "cfca-csr", variants: 2, build: func(w *c13World, v int) (*c13Art, error) {
		var der []byte
		var err error
		if v == 0 {
			der, err = cfca.CreateCertificateRequest(rand.Reader, csrTemplate(), w.fx.leafKey, &w.fx.encKey.PublicKey, "challenge")
		} else {
			der, err = cfca.CreateCertificateRequest(rand.Reader, csrTemplate(), w.fx.rsa0, &w.fx.rsa0.PublicKey, "challenge")
		}
		return &c13Art{data: der, cons: csrCons(w, true, false)}, err
	}})
	c13Register(&c13Type{name: "csr", variants: 4, build: func(w *c13World, v int) (*c13Art, error) {
		var key any = w.fx.leafKey
		switch v {
		case 1:
			key = w.fx.ecdsa0
		case 2:
			key = w.fx.rsa0
		}
		der, err := smx509.CreateCertificateRequest(rand.Reader, csrTemplate(), key)
		if err != nil {
			return nil, err
		}
		if v == 3 {
			wr := c13PEM("CERTIFICATE REQUEST")
			return &c13Art{data: wr(der), inner: der, wrap: wr, wrapTiny: wr, cons: csrCons(w, false, true)}, nil
		}
		return &c13Art{data: der, cons: csrCons(w, false, false)}, nil
	}})
	c13Register(&c13Type{name: "csr-response", variants: 2, build: func(w *c13World, v int) (*c13Art, error) {
		var der []byte
		var err error
		if v == 0 {
			der, err = smx509.MarshalCSRResponse([]*smx509.Certificate{w.fx.leaf, w.fx.inter}, w.fx.encKey, []*smx509.Certificate{w.fx.encCert})
		} else {
			der, err = smx509.MarshalCSRResponse([]*smx509.Certificate{w.fx.leaf}, nil, nil)
		}
		return &c13Art{data: der, cons: []c13Cons{
			c13C("smx509.ParseCSRResponse", true, func(in []byte) error { _, err := smx509.ParseCSRResponse(w.fx.leafKey, in); return err }),
			c13C("smx509.ParseCSRResponse(unrelated key)", false, func(in []byte) error { _, err := smx509.ParseCSRResponse(w.fx.otherKey, in); return err }),
		}}, err
	}})
	c13Register(&c13Type{name: "crl", variants: 2, build: func(w *c13World, v int) (*c13Art, error) {
		tmpl := &x509.RevocationList{
			Number:     big.NewInt(7),
			ThisUpdate: c13Now.AddDate(0, 0, -1), NextUpdate: c13Now.AddDate(0, 1, 0),
			RevokedCertificateEntries: []x509.RevocationListEntry{
				{SerialNumber: big.NewInt(3), RevocationTime: c13Now.AddDate(0, 0, -3), ReasonCode: 1},
				{SerialNumber: big.NewInt(0x1234567890), RevocationTime: c13Now.AddDate(0, 0, -2), ExtraExtensions: []pkix.Extension{{Id: asn1.ObjectIdentifier{2, 5, 29, 24}, Value: []byte{0x18, 0x0f, '2', '0', '2', '9', '0', '1', '0', '1', '0', '0', '0', '0', '0', '0', 'Z'}}}},
				{SerialNumber: big.NewInt(5), RevocationTime: c13Now.AddDate(0, 0, -1)},
			},
			ExtraExtensions: []pkix.Extension{{Id: asn1.ObjectIdentifier{1, 2, 3, 9}, Value: []byte{0x05, 0x00}}},
		}
		der, err := smx509.CreateRevocationList(rand.Reader, tmpl, w.fx.inter, w.fx.interKey)
		if err != nil {
			return nil, err
		}
		cons := []c13Cons{
			c13C("smx509.ParseRevocationList+CheckSignatureFrom", v == 0, func(in []byte) error {
				rl, err := smx509.ParseRevocationList(in)
				if err != nil {
					return err
				}
				return rl.CheckSignatureFrom(w.fx.inter)
			}),
			c13C("smx509.ParseCRL+CheckCRLSignature", true, func(in []byte) error {
				l, err := smx509.ParseCRL(in)
				if err != nil {
					return err
				}
				return w.fx.inter.CheckCRLSignature(l)
			}),
			c13C("smx509.ParseDERCRL", v == 0, func(in []byte) error { _, err := smx509.ParseDERCRL(in); return err }),
		}
		if v == 1 {
			wr := c13PEM("X509 CRL")
			return &c13Art{data: wr(der), inner: der, wrap: wr, wrapTiny: wr, cons: cons}, nil
		}
		return &c13Art{data: der, cons: cons}, nil
	}})
	// ------------------------------------------------------------------ certificates
	verifyOpts := func(w *c13World, inter *smx509.CertPool) smx509.VerifyOptions {
		return smx509.VerifyOptions{Roots: w.fx.rootPool, Intermediates: inter, CurrentTime: c13Now, KeyUsages: []x509.ExtKeyUsage{x509.ExtKeyUsageAny}}
	}
	certCons := func(w *c13World, isLeaf bool) []c13Cons {
		return []c13Cons{
			c13C("smx509.ParseCertificate+Verify", true, func(in []byte) error {
				c, err := smx509.ParseCertificate(in)
				if err != nil {
					return err
				}
				_ = c.VerifyHostname("leaf.verif.example")
				_ = c.CheckSignatureFrom(w.fx.inter)
				_, err = c.Verify(verifyOpts(w, w.fx.interPool))
				return err
			}),
			c13C("smx509.ParseCertificates", true, func(in []byte) error { _, err := smx509.ParseCertificates(in); return err }),
			c13C("smx509.CertPool.AppendCertsFromPEM+Verify(as intermediate)", !isLeaf, func(in []byte) error {
				// the hostile certificate sits in the intermediate pool while the fixture leaf is verified
				pool := smx509.NewCertPool()
				if !pool.AppendCertsFromPEM(pem.EncodeToMemory(&pem.Block{Type: "CERTIFICATE", Bytes: in})) {
					return errC13
				}
				_, err := w.fx.leaf.Verify(verifyOpts(w, pool))
				return err
			}),
			c13C("smx509.ParseCertificatePEM", false, func(in []byte) error { _, err := smx509.ParseCertificatePEM(in); return err }),
		}
	}
	c13Register(&c13Type{name: "certificate", variants: 6, build: func(w *c13World, v int) (*c13Art, error) {
		c := []*smx509.Certificate{w.fx.leaf, w.fx.inter, w.fx.root, w.fx.richCert, w.fx.rsaCert, w.fx.ecdsaCert}[v]
		return &c13Art{data: c.Raw, cons: certCons(w, v != 1)}, nil
	}})
	c13Register(&c13Type{name: "certificate-bundle", variants: 2, build: func(w *c13World, v int) (*c13Art, error) {
		if v == 0 {
			der := append(append(append([]byte{}, w.fx.leaf.Raw...), w.fx.inter.Raw...), w.fx.root.Raw...)
			// three concatenated elements: the Byzantine producer lies about a SEQUENCE that holds them, delivered without its header
			outer := (&sim.TLV{Tag: 0x30, Content: der}).Encode()
			strip := func(d []byte) []byte {
				if t, n, ok := sim.ParseTLV(d, 0, 0); ok && n == len(d) {
					return d[t.HdrLen:]
				}
				return d
			}
			return &c13Art{data: der, inner: outer, wrap: strip, cons: []c13Cons{
				c13C("smx509.ParseCertificates", true, func(in []byte) error { _, err := smx509.ParseCertificates(in); return err }),
				c13C("smx509.ParseCertificate", false, func(in []byte) error { _, err := smx509.ParseCertificate(in); return err }),
			}}, nil
		}
		data := []byte(fixturesBundlePEM(w))
		return &c13Art{data: data, byz: c13MeshBundles(), fields: bytes.SplitAfter(data, []byte("\n")), wrapTiny: c13PEM("CERTIFICATE"), cons: []c13Cons{
			c13C("smx509.ParseCertificatePEM+Verify(first of bundle, rest as intermediates)", false, func(in []byte) error {
				// a peer presents its certificate followed by whatever else it likes; the verifier's roots are its own
				var first *smx509.Certificate
				pool := smx509.NewCertPool()
				for rest := in; ; {
					var blk *pem.Block
					if blk, rest = pem.Decode(rest); blk == nil {
						break
					}
					crt, err := smx509.ParseCertificate(blk.Bytes)
					if err != nil {
						return err
					}
					if first == nil {
						first = crt
					} else {
						pool.AddCert(crt)
					}
				}
				if first == nil {
					return errC13
				}
				_, err := first.Verify(verifyOpts(w, pool))
				return err
			}),
			c13C("smx509.ParseCertificatePEM", true, func(in []byte) error { _, err := smx509.ParseCertificatePEM(in); return err }),
			c13C("smx509.CertPool.AppendCertsFromPEM+Verify", true, func(in []byte) error {
				pool := smx509.NewCertPool()
				if !pool.AppendCertsFromPEM(in) {
					return errC13
				}
				// the hostile bundle is the only source of intermediates AND roots
				_, err := w.fx.leaf.Verify(smx509.VerifyOptions{Roots: pool, Intermediates: pool, CurrentTime: c13Now, KeyUsages: []x509.ExtKeyUsage{x509.ExtKeyUsageAny}})
				return err
			}),
		}}, nil
	}})
	// ------------------------------------------------------------------ PKCS#7
	content := derive([]byte("c13"), "p7 content", 37)
	digest := sm3.Sum(content)
	signedCons := func(w *c13World, v int) []c13Cons {
		cons := []c13Cons{
			{name: "pkcs7.Parse", wantOK: true, pf: func(in []byte) (any, bool) { p, err := pkcs7.Parse(in); return p, err == nil && p != nil }},
			{name: "pkcs7.PKCS7.Verify", needPre: true, wantOK: v == 0 || v == 1 || v == 4 || v == 6, f: func(_ []byte, pre any) bool { return pre.(*pkcs7.PKCS7).Verify() == nil }},
			{name: "pkcs7.PKCS7.VerifyWithChainAtTime", needPre: true, wantOK: v == 0, f: func(_ []byte, pre any) bool {
				now := c13Now
				return pre.(*pkcs7.PKCS7).VerifyWithChainAtTime(w.fx.rootPool, &now) == nil
			}},
			{name: "pkcs7.PKCS7.VerifyAsDigest", needPre: true, f: func(_ []byte, pre any) bool { return pre.(*pkcs7.PKCS7).VerifyAsDigest() == nil }},
			{name: "pkcs7.PKCS7.GetOnlySigner+UnmarshalSignedAttribute", needPre: true, f: func(_ []byte, pre any) bool {
				p := pre.(*pkcs7.PKCS7)
				s := p.GetOnlySigner()
				var t time.Time
				var d []byte
				e1 := p.UnmarshalSignedAttribute(pkcs7.OIDAttributeSigningTime, &t)
				e2 := p.UnmarshalSignedAttribute(pkcs7.OIDAttributeMessageDigest, &d)
				_, _ = p.GetRecipients()
				_, _ = p.Decrypt(w.fx.leaf, w.fx.leafKey)
				return s != nil && e1 == nil && e2 == nil
			}},
		}
		if v == 0 || v == 4 || v == 6 {
			// produced by pkcs7 itself (attributes, chains): the cfca wrappers (Parse + Verify) get the cfca-produced variants
			return cons
		}
		return append(cons,
			c13C("cfca.VerifyMessageAttach", v == 1, func(in []byte) error { return cfca.VerifyMessageAttach(in) }),
			c13C("cfca.VerifyMessageDetach", v == 1 || v == 2, func(in []byte) error { return cfca.VerifyMessageDetach(in, content) }),
			c13C("cfca.VerifyDigestDetach", v == 3, func(in []byte) error { return cfca.VerifyDigestDetach(in, digest[:]) }),
		)
	}
	buildSigned := func(w *c13World, v int) ([]byte, error) {
		switch v {
		case 0:
			sd, err := pkcs7.NewSMSignedData(content)
			if err != nil {
				return nil, err
			}
			if err := sd.AddSignerChain(w.fx.leaf, w.fx.leafKey, []*smx509.Certificate{w.fx.inter}, pkcs7.SignerInfoConfig{}); err != nil {
				return nil, err
			}
			return sd.Finish()
		case 1:
			return cfca.SignMessageAttach(content, w.fx.leaf, w.fx.leafKey)
		case 2:
			return cfca.SignMessageDetach(content, w.fx.leaf, w.fx.leafKey)
		case 3:
			return cfca.SignDigestDetach(digest[:], w.fx.leaf, w.fx.leafKey)
		case 4:
			sd, err := pkcs7.NewSignedData(content)
			if err != nil {
				return nil, err
			}
			sd.SetDigestAlgorithm(pkcs7.OIDDigestAlgorithmSHA256)
			cfg := pkcs7.SignerInfoConfig{
				ExtraSignedAttributes:   []pkcs7.Attribute{{Type: asn1.ObjectIdentifier{1, 2, 3, 4, 5, 6}, Value: "signed attribute"}},
				ExtraUnsignedAttributes: []pkcs7.Attribute{{Type: asn1.ObjectIdentifier{1, 2, 3, 4, 5, 7}, Value: 42}},
			}
			if err = sd.AddSigner(w.fx.rsaCert, w.fx.rsa0, cfg); err != nil {
				return nil, err
			}
			return sd.Finish()
		case 6: // SM2 signer with attributes, one certificate
			sd, err := pkcs7.NewSMSignedData(content)
			if err != nil {
				return nil, err
			}
			if err := sd.AddSigner(w.fx.leaf, w.fx.leafKey, pkcs7.SignerInfoConfig{}); err != nil {
				return nil, err
			}
			return sd.Finish()
		default:
			return pkcs7.DegenerateCertificate(w.fx.leaf.Raw)
		}
	}
	splitSignedContent := func(root *sim.TLV) *sim.TLV { return c13Path(root, 1, 0, 2, 1, 0) }
	c13Register(&c13Type{name: "pkcs7-signed", variants: 6, build: func(w *c13World, v int) (*c13Art, error) {
		der, err := buildSigned(w, v)
		return &c13Art{data: der, cons: signedCons(w, v)}, err
	}})
	c13Register(&c13Type{name: "pkcs7-signed-ber", variants: 3, build: func(w *c13World, v int) (*c13Art, error) {
		uv := []int{6, 1, 1}[v]
		der, err := buildSigned(w, uv)
		if err != nil {
			return nil, err
		}
		wr := func(d []byte) []byte {
			switch v {
			case 1:
				return c13ToBER(d, splitSignedContent, 1)
			case 2:
				return c13Long81(d)
			}
			return c13ToBER(d, nil, 0)
		}
		return &c13Art{data: wr(der), inner: der, wrap: wr, cons: signedCons(w, uv)}, nil
	}})
	type recip struct {
		cert *smx509.Certificate
		key  crypto.PrivateKey
	}
	envCons := func(w *c13World, r recip, v int) []c13Cons {
		var other crypto.PrivateKey = w.fx.otherKey
		cons := []c13Cons{
			{name: "pkcs7.Parse", wantOK: true, pf: func(in []byte) (any, bool) { p, err := pkcs7.Parse(in); return p, err == nil && p != nil }},
			{name: "pkcs7.PKCS7.Decrypt", needPre: true, wantOK: v != 2, f: func(_ []byte, pre any) bool { _, err := pre.(*pkcs7.PKCS7).Decrypt(r.cert, r.key); return err == nil }},
			{name: "pkcs7.PKCS7.DecryptCFCA", needPre: true, wantOK: v == 2, f: func(_ []byte, pre any) bool {
				_, err := pre.(*pkcs7.PKCS7).DecryptCFCA(r.cert, r.key)
				return err == nil
			}},
			{name: "pkcs7.PKCS7.Decrypt(unrelated key)", needPre: true, f: func(_ []byte, pre any) bool { _, err := pre.(*pkcs7.PKCS7).Decrypt(r.cert, other); return err == nil }},
			{name: "pkcs7.PKCS7.Decrypt(unrelated certificate)", needPre: true, f: func(_ []byte, pre any) bool {
				_, err := pre.(*pkcs7.PKCS7).Decrypt(w.fx.otherRoot, r.key)
				return err == nil
			}},
			{name: "pkcs7.PKCS7.GetRecipients+Verify+DecryptUsingPSK", needPre: true, f: func(_ []byte, pre any) bool {
				p := pre.(*pkcs7.PKCS7)
				_, err := p.GetRecipients()
				_ = p.Verify()
				_, _ = p.DecryptUsingPSK(make([]byte, 16))
				_, _ = p.DecryptAndVerifyOnlyOne(other, nil)
				return err == nil
			}},
			c13C("cfca.OpenEnvelopedMessage", v != 2, func(in []byte) error { _, err := cfca.OpenEnvelopedMessage(in, r.cert, r.key); return err }),
			c13C("cfca.OpenEnvelopedMessageLegacy", v == 2, func(in []byte) error { _, err := cfca.OpenEnvelopedMessageLegacy(in, r.cert, r.key); return err }),
		}
		if v == 4 {
			// RSA recipient (every call costs a private-key operation): the CFCA legacy layout is SM2-only
			return append(cons[:2:2], cons[3], cons[4], cons[5], cons[6])
		}
		return cons
	}
	buildEnv := func(w *c13World, v int) ([]byte, recip, error) {
		sm2r := recip{w.fx.leaf, w.fx.leafKey}
		rsar := recip{w.fx.rsaCert, w.fx.rsa0}
		one := func(c *smx509.Certificate) []*smx509.Certificate { return []*smx509.Certificate{c} }
		switch v {
		case 0:
			d, err := pkcs7.EncryptSM(pkcs.SM4CBC, content, one(sm2r.cert))
			return d, sm2r, err
		case 1:
			d, err := pkcs7.EncryptSM(pkcs.SM4GCM, content, one(sm2r.cert))
			return d, sm2r, err
		case 2:
			d, err := cfca.EnvelopeMessageLegacy(pkcs.SM4, content, one(sm2r.cert))
			return d, sm2r, err
		case 3:
			r := recip{w.fx.inter, w.fx.interKey} // carries a SubjectKeyIdentifier
			d, err := cfca.EnvelopeMessage(pkcs.SM4, content, one(r.cert))
			return d, r, err
		case 4:
			d, err := pkcs7.Encrypt(pkcs.AES128CBC, content, one(rsar.cert))
			return d, rsar, err
		case 5:
			d, err := pkcs7.Encrypt(pkcs.AES256GCM, content, one(sm2r.cert))
			return d, sm2r, err
		case 6:
			d, err := pkcs7.EncryptSM(pkcs.SM4ECB, content, []*smx509.Certificate{w.fx.inter, sm2r.cert})
			return d, sm2r, err
		default:
			d, err := pkcs7.Encrypt(pkcs.TripleDESCBC, content, one(sm2r.cert))
			return d, sm2r, err
		}
	}
	splitEnvContent := func(root *sim.TLV) *sim.TLV { return c13Path(root, 1, 0, 2, 2) }
	c13Register(&c13Type{name: "pkcs7-enveloped", variants: 8, build: func(w *c13World, v int) (*c13Art, error) {
		der, r, err := buildEnv(w, v)
		return &c13Art{data: der, cons: envCons(w, r, v)}, err
	}})
	c13Register(&c13Type{name: "pkcs7-enveloped-ber", variants: 3, build: func(w *c13World, v int) (*c13Art, error) {
		uv := []int{0, 2, 1}[v]
		der, r, err := buildEnv(w, uv)
		if err != nil {
			return nil, err
		}
		wr := func(d []byte) []byte {
			if v == 0 {
				return c13ToBER(d, splitEnvContent, 2)
			}
			return c13ToBER(d, nil, 0)
		}
		return &c13Art{data: wr(der), inner: der, wrap: wr, cons: envCons(w, r, uv)}, nil
	}})
	pskCons := func(w *c13World, key []byte) []c13Cons {
		wrong := derive(key, "wrong psk", len(key))
		return []c13Cons{
			{name: "pkcs7.Parse", wantOK: true, pf: func(in []byte) (any, bool) { p, err := pkcs7.Parse(in); return p, err == nil && p != nil }},
			{name: "pkcs7.PKCS7.DecryptUsingPSK", needPre: true, wantOK: true, f: func(_ []byte, pre any) bool { _, err := pre.(*pkcs7.PKCS7).DecryptUsingPSK(key); return err == nil }},
			{name: "pkcs7.PKCS7.DecryptUsingPSK(unrelated key)", needPre: true, f: func(_ []byte, pre any) bool { _, err := pre.(*pkcs7.PKCS7).DecryptUsingPSK(wrong); return err == nil }},
			{name: "pkcs7.PKCS7.DecryptUsingPSK(5-byte key)", needPre: true, f: func(_ []byte, pre any) bool {
				_, err := pre.(*pkcs7.PKCS7).DecryptUsingPSK(wrong[:5])
				return err == nil
			}},
			{name: "pkcs7.PKCS7.Decrypt+Verify", needPre: true, f: func(_ []byte, pre any) bool {
				p := pre.(*pkcs7.PKCS7)
				_, err := p.Decrypt(w.fx.leaf, w.fx.leafKey)
				_ = p.Verify()
				return err == nil
			}},
		}
	}
	buildPSK := func(v int) ([]byte, []byte, error) {
		k := func(n int) []byte { return derive([]byte{byte(v)}, "c13 psk", n) }
		switch v {
		case 0:
			d, err := pkcs7.EncryptSMUsingPSK(pkcs.SM4CBC, content, k(16))
			return d, k(16), err
		case 1:
			d, err := pkcs7.EncryptUsingPSK(pkcs.AES256GCM, content, k(32))
			return d, k(32), err
		case 2:
			d, err := pkcs7.EncryptUsingPSK(pkcs.DESCBC, content, k(8))
			return d, k(8), err
		case 3:
			d, err := pkcs7.EncryptSMUsingPSK(pkcs.SM4GCM, content, k(16))
			return d, k(16), err
		case 4:
			d, err := pkcs7.EncryptUsingPSK(pkcs.TripleDESCBC, content, k(24))
			return d, k(24), err
		default:
			d, err := pkcs7.EncryptSMUsingPSK(pkcs.SM4ECB, content, k(16))
			return d, k(16), err
		}
	}
	c13Register(&c13Type{name: "pkcs7-encrypted", variants: 6, build: func(w *c13World, v int) (*c13Art, error) {
		der, key, err := buildPSK(v)
		return &c13Art{data: der, cons: pskCons(w, key)}, err
	}})
	c13Register(&c13Type{name: "pkcs7-encrypted-ber", variants: 2, build: func(w *c13World, v int) (*c13Art, error) {
		der, key, err := buildPSK(v)
		if err != nil {
			return nil, err
		}
		wr := func(d []byte) []byte {
			if v == 0 {
				return c13ToBER(d, func(root *sim.TLV) *sim.TLV { return c13Path(root, 1, 0, 1, 2) }, 2)
			}
			return c13ToBER(d, nil, 0)
		}
		return &c13Art{data: wr(der), inner: der, wrap: wr, cons: pskCons(w, key)}, nil
	}})
	sedCons := func(w *c13World, r recip) []c13Cons {
		return []c13Cons{
			{name: "pkcs7.Parse", wantOK: true, pf: func(in []byte) (any, bool) { p, err := pkcs7.Parse(in); return p, err == nil && p != nil }},
			{name: "pkcs7.PKCS7.DecryptAndVerify", needPre: true, wantOK: true, f: func(_ []byte, pre any) bool {
				p := pre.(*pkcs7.PKCS7)
				_, err := p.DecryptAndVerify(r.cert, r.key, func() error { return p.Verify() })
				return err == nil
			}},
			{name: "pkcs7.PKCS7.DecryptAndVerifyOnlyOne", needPre: true, wantOK: true, f: func(_ []byte, pre any) bool {
				p := pre.(*pkcs7.PKCS7)
				_, err := p.DecryptAndVerifyOnlyOne(r.key, func() error { return p.Verify() })
				return err == nil
			}},
			{name: "pkcs7.PKCS7.DecryptAndVerify(unrelated key)", needPre: true, f: func(_ []byte, pre any) bool {
				p := pre.(*pkcs7.PKCS7)
				_, err := p.DecryptAndVerify(r.cert, w.fx.otherKey, func() error { return p.Verify() })
				return err == nil
			}},
			{name: "pkcs7.PKCS7.GetRecipients+GetOnlySigner+Decrypt(unrelated certificate)", needPre: true, f: func(_ []byte, pre any) bool {
				p := pre.(*pkcs7.PKCS7)
				_, err := p.GetRecipients()
				_ = p.GetOnlySigner()
				_, _ = p.Decrypt(w.fx.otherRoot, r.key)
				return err == nil
			}},
		}
	}
	buildSED := func(w *c13World, v int) ([]byte, recip, error) {
		if v == 0 {
			r := recip{w.fx.inter, w.fx.interKey}
			s, err := pkcs7.NewSMSignedAndEnvelopedData(content, pkcs.SM4CBC)
			if err != nil {
				return nil, r, err
			}
			if err = s.AddSigner(w.fx.leaf, w.fx.leafKey); err != nil {
				return nil, r, err
			}
			if err = s.AddRecipient(r.cert); err != nil {
				return nil, r, err
			}
			d, err := s.Finish()
			return d, r, err
		}
		r := recip{w.fx.inter, w.fx.interKey}
		s, err := pkcs7.NewSignedAndEnvelopedData(content, pkcs.AES128GCM)
		if err != nil {
			return nil, r, err
		}
		s.SetDigestAlgorithm(pkcs7.OIDDigestAlgorithmSHA256)
		if err = s.AddSigner(w.fx.ecdsaCert, w.fx.ecdsa0); err != nil {
			return nil, r, err
		}
		if err = s.AddRecipient(r.cert); err != nil {
			return nil, r, err
		}
		d, err := s.Finish()
		return d, r, err
	}
	c13Register(&c13Type{name: "pkcs7-signed-enveloped", variants: 2, build: func(w *c13World, v int) (*c13Art, error) {
		der, r, err := buildSED(w, v)
		return &c13Art{data: der, cons: sedCons(w, r)}, err
	}})
	c13Register(&c13Type{name: "pkcs7-signed-enveloped-ber", variants: 1, build: func(w *c13World, v int) (*c13Art, error) {
		der, r, err := buildSED(w, 0)
		if err != nil {
			return nil, err
		}
		wr := func(d []byte) []byte {
			return c13ToBER(d, func(root *sim.TLV) *sim.TLV { return c13Path(root, 1, 0, 3, 2) }, 2)
		}
		return &c13Art{data: wr(der), inner: der, wrap: wr, cons: sedCons(w, r)}, nil
	}})
	// ------------------------------------------------------------------ SM9
	c13Register(&c13Type{name: "sm9-signature", variants: 1, build: func(w *c13World, v int) (*c13Art, error) {
		if err := w.fx.sm9(); err != nil {
			return nil, err
		}
		hash := sm3.Sum(content)
		sig, err := sm9.SignASN1(rand.Reader, w.fx.sm9SignUser, hash[:])
		if err != nil {
			return nil, err
		}
		pub := w.fx.sm9SignMaster.PublicKey()
		return &c13Art{data: sig, cons: []c13Cons{
			c13B("sm9.VerifyASN1", true, func(in []byte) bool { return sm9.VerifyASN1(pub, c13UID, c13HidSign, hash[:], in) }),
			c13B("sm9.SignMasterPublicKey.Verify(other uid)", false, func(in []byte) bool { return pub.Verify([]byte("bob"), c13HidSign, hash[:], in) }),
		}}, nil
	}})
	sm9Opts := []sm9.EncrypterOpts{sm9.DefaultEncrypterOpts, sm9.SM4ECBEncrypterOpts, sm9.SM4CBCEncrypterOpts, sm9.SM4CFBEncrypterOpts, sm9.SM4OFBEncrypterOpts}
	sm9EncTypes := []int{0, 1, 2, 8, 4}
	// Byzantine sender: honest C1, a C2 of every length 0..48 and the C3 that matches it
	sm9Byz := func(w *c13World, v int, asn bool) func(l int) c13Byz {
		pub := w.fx.sm9EncMaster.PublicKey()
		return func(l int) c13Byz {
			k1 := 16
			if v == 0 {
				k1 = l
			}
			key, c1, err := sm9.WrapKey(rand.Reader, pub, c13UID, c13HidEnc, k1+32)
			if err != nil || len(key) != k1+32 || len(c1) < 64 {
				return c13Byz{}
			}
			c2 := derive([]byte{byte(l), byte(v)}, "c13 byz c2", l)
			h := sm3.New()
			h.Write(c2)
			h.Write(key[k1:])
			c3 := h.Sum(nil)
			var in []byte
			if asn {
				c1e := c1
				if len(c1e) == 64 {
					c1e = append([]byte{4}, c1e...)
				}
				seq := &sim.TLV{Tag: 0x30, Children: []*sim.TLV{{Tag: 0x02, Content: []byte{byte(sm9EncTypes[v])}}, {Tag: 0x03, Content: append([]byte{0}, c1e...)}, {Tag: 0x04, Content: c3}, {Tag: 0x04, Content: c2}}}
				in = seq.Encode()
			} else {
				c1r := c1
				if len(c1r) == 65 {
					c1r = c1r[1:]
				}
				in = append(append(append([]byte{}, c1r...), c3...), c2...)
			}
			return c13Byz{fmt.Sprintf("C2 of %d bytes with matching C3", l), in}
		}
	}
	c13Register(&c13Type{name: "sm9-ciphertext-raw", variants: 5, build: func(w *c13World, v int) (*c13Art, error) {
		if err := w.fx.sm9(); err != nil {
			return nil, err
		}
		pt := derive([]byte{byte(v)}, "c13 sm9 pt", []int{20, 20, 33, 7, 40}[v])
		ct, err := sm9.Encrypt(rand.Reader, w.fx.sm9EncMaster.PublicKey(), c13UID, c13HidEnc, pt, sm9Opts[v])
		if err != nil {
			return nil, err
		}
		if len(ct) < 97 {
			return nil, fmt.Errorf("short sm9 ciphertext")
		}
		priv := w.fx.sm9EncUser
		du, err := sm9.NewDecrypterOptsWithUID(sm9Opts[v], c13UID)
		if err != nil {
			return nil, err
		}
		return &c13Art{data: ct, raw: true, fields: [][]byte{ct[:32], ct[32:64], ct[64:96], ct[96:]}, byzN: 49, byzAt: sm9Byz(w, v, false), cons: []c13Cons{
			c13C("sm9.Decrypt", true, func(in []byte) error { _, err := sm9.Decrypt(priv, c13UID, in, sm9Opts[v]); return err }),
			c13C("sm9.EncryptPrivateKey.Decrypt(DecrypterOptsWithUID)", true, func(in []byte) error { _, err := priv.Decrypt(nil, in, du); return err }),
			c13C("sm9.Decrypt(other mode)", false, func(in []byte) error { _, err := sm9.Decrypt(priv, c13UID, in, sm9Opts[(v+2)%5]); return err }),
		}}, nil
	}})
	c13Register(&c13Type{name: "sm9-ciphertext-asn1", variants: 5, build: func(w *c13World, v int) (*c13Art, error) {
		if err := w.fx.sm9(); err != nil {
			return nil, err
		}
		pt := derive([]byte{byte(v)}, "c13 sm9 pt asn1", []int{20, 16, 1, 33, 40}[v])
		ct, err := sm9.EncryptASN1(rand.Reader, w.fx.sm9EncMaster.PublicKey(), c13UID, c13HidEnc, pt, sm9Opts[v])
		if err != nil {
			return nil, err
		}
		priv := w.fx.sm9EncUser
		du, err := sm9.NewDecrypterOptsWithUID(nil, c13UID)
		if err != nil {
			return nil, err
		}
		// Byzantine relay: the (unauthenticated) mode field names another mode
		var modeLies []c13Byz
		if root := sim.ParseAllTLV(ct); root != nil && len(root.Children) == 4 {
			for _, m := range sm9EncTypes {
				c := root.Clone()
				c.Children[0].Content = []byte{byte(m)}
				modeLies = append(modeLies, c13Byz{fmt.Sprintf("encType := %d", m), c.Encode()})
			}
		}
		return &c13Art{data: ct, byz: modeLies, byzN: 49, byzAt: sm9Byz(w, v, true), cons: []c13Cons{
			c13C("sm9.DecryptASN1", true, func(in []byte) error { _, err := sm9.DecryptASN1(priv, c13UID, in); return err }),
			c13C("sm9.EncryptPrivateKey.Decrypt(DecrypterOptsWithUID, nil opts)", true, func(in []byte) error { _, err := priv.Decrypt(nil, in, du); return err }),
		}}, nil
	}})
	c13Register(&c13Type{name: "sm9-wrapped-key", variants: 3, build: func(w *c13World, v int) (*c13Art, error) {
		if err := w.fx.sm9(); err != nil {
			return nil, err
		}
		pub, priv := w.fx.sm9EncMaster.PublicKey(), w.fx.sm9EncUser
		switch v {
		case 0: // SM9KeyPackage
			der, err := pub.WrapKeyASN1(rand.Reader, c13UID, c13HidEnc, 32)
			return &c13Art{data: der, cons: []c13Cons{
				c13C("sm9.UnmarshalSM9KeyPackage+UnwrapKey", true, func(in []byte) error {
					_, ci, err := sm9.UnmarshalSM9KeyPackage(in)
					if err != nil {
						return err
					}
					_, err = sm9.UnwrapKey(priv, c13UID, ci, 32)
					return err
				}),
			}}, err
		case 1: // SM9PublicKey1 (BIT STRING)
			_, der, err := pub.WrapKey(rand.Reader, c13UID, c13HidEnc, 32)
			return &c13Art{data: der, cons: []c13Cons{
				c13C("sm9.EncryptPrivateKey.UnwrapKey", true, func(in []byte) error { _, err := priv.UnwrapKey(c13UID, in, 32); return err }),
				c13C("sm9.EncryptPrivateKey.UnwrapKey(other user, kLen 0)", false, func(in []byte) error { _, err := w.fx.sm9OtherEncUser.UnwrapKey([]byte("bob"), in, 0); return err }),
			}}, err
		default: // raw point
			_, ci, err := sm9.WrapKey(rand.Reader, pub, c13UID, c13HidEnc, 32)
			if err != nil {
				return nil, err
			}
			f := [][]byte{ci[:len(ci)-64], ci[len(ci)-64 : len(ci)-32], ci[len(ci)-32:]}
			return &c13Art{data: ci, raw: true, fields: f, cons: []c13Cons{
				c13C("sm9.UnwrapKey", true, func(in []byte) error { _, err := sm9.UnwrapKey(priv, c13UID, in, 32); return err }),
				c13C("sm9.UnwrapKey(kLen 1)", true, func(in []byte) error { _, err := sm9.UnwrapKey(priv, c13UID, in, 1); return err }),
			}}, nil
		}
	}})
	sm9ASN1Cons := func() []c13Cons {
		return []c13Cons{
			c13C("sm9.UnmarshalSignMasterPrivateKeyASN1", false, func(in []byte) error { _, err := sm9.UnmarshalSignMasterPrivateKeyASN1(in); return err }),
			c13C("sm9.UnmarshalSignMasterPublicKeyASN1", false, func(in []byte) error { _, err := sm9.UnmarshalSignMasterPublicKeyASN1(in); return err }),
			c13C("sm9.UnmarshalSignPrivateKeyASN1", false, func(in []byte) error { _, err := sm9.UnmarshalSignPrivateKeyASN1(in); return err }),
			c13C("sm9.UnmarshalEncryptMasterPrivateKeyASN1", false, func(in []byte) error { _, err := sm9.UnmarshalEncryptMasterPrivateKeyASN1(in); return err }),
			c13C("sm9.UnmarshalEncryptMasterPublicKeyASN1", false, func(in []byte) error { _, err := sm9.UnmarshalEncryptMasterPublicKeyASN1(in); return err }),
			c13C("sm9.UnmarshalEncryptPrivateKeyASN1", false, func(in []byte) error { _, err := sm9.UnmarshalEncryptPrivateKeyASN1(in); return err }),
		}
	}
	bitstr := func(b []byte) *sim.TLV { return &sim.TLV{Tag: 0x03, Content: append([]byte{0}, b...)} }
	c13Register(&c13Type{name: "sm9-key-asn1", variants: 10, build: func(w *c13World, v int) (*c13Art, error) {
		if err := w.fx.sm9(); err != nil {
			return nil, err
		}
		fx := w.fx
		var der []byte
		var err error
		want := 0
		switch v {
		case 0:
			der, err = fx.sm9SignMaster.MarshalASN1()
			want = 0 // also a valid encryption master private key
		case 1:
			der, err = fx.sm9SignMaster.PublicKey().MarshalASN1()
			want = 1
		case 2:
			der, err = fx.sm9SignMaster.PublicKey().MarshalCompressedASN1()
			want = 1
		case 3:
			der, err = fx.sm9SignUser.MarshalASN1()
			want = 2
		case 4: // SEQUENCE { user key, master public key }
			der = (&sim.TLV{Tag: 0x30, Children: []*sim.TLV{bitstr(fx.sm9SignUser.Bytes()), bitstr(fx.sm9SignMaster.PublicKey().Bytes())}}).Encode()
			want = 2
		case 5:
			der, err = fx.sm9EncMaster.MarshalASN1()
			want = 3
		case 6:
			der, err = fx.sm9EncMaster.PublicKey().MarshalASN1()
			want = 4
		case 7:
			der, err = fx.sm9EncUser.MarshalCompressedASN1()
			want = 5
		case 8:
			der = (&sim.TLV{Tag: 0x30, Children: []*sim.TLV{bitstr(fx.sm9EncUser.Bytes()), bitstr(fx.sm9EncMaster.PublicKey().Bytes())}}).Encode()
			want = 5
		default: // SEQUENCE { master private key INTEGER, master public key }
			d, e := fx.sm9EncMaster.MarshalASN1()
			if e != nil {
				return nil, e
			}
			der = (&sim.TLV{Tag: 0x30, Children: []*sim.TLV{sim.ParseAllTLV(d), bitstr(fx.sm9EncMaster.PublicKey().Bytes())}}).Encode()
			want = 3
		}
		cons := sm9ASN1Cons()
		cons[want].wantOK = true
		return &c13Art{data: der, cons: cons}, err
	}})
	c13Register(&c13Type{name: "sm9-key-raw", variants: 6, build: func(w *c13World, v int) (*c13Art, error) {
		if err := w.fx.sm9(); err != nil {
			return nil, err
		}
		fx := w.fx
		var b []byte
		want := 0
		switch v {
		case 0:
			b, want = fx.sm9SignMaster.PublicKey().Bytes(), 0
		case 1:
			b, want = fx.sm9SignUser.Bytes(), 1
		case 2:
			b, want = fx.sm9EncMaster.PublicKey().Bytes(), 2
		case 3:
			b, want = fx.sm9EncUser.Bytes(), 3
		case 4: // compressed G1 point
			p, err := g1FromBytes(fx.sm9SignUser.Bytes())
			if err != nil {
				return nil, err
			}
			b, want = p.MarshalCompressed(), 1
		default: // compressed G2 point
			p, err := g2FromBytes(fx.sm9EncUser.Bytes())
			if err != nil {
				return nil, err
			}
			b, want = p.MarshalCompressed(), 3
		}
		var f [][]byte
		f = append(f, b[:1])
		for i := 1; i < len(b); i += 32 {
			f = append(f, b[i:min(i+32, len(b))])
		}
		cons := []c13Cons{
			c13C("sm9.UnmarshalSignMasterPublicKeyRaw", false, func(in []byte) error { _, err := sm9.UnmarshalSignMasterPublicKeyRaw(in); return err }),
			c13C("sm9.UnmarshalSignPrivateKeyRaw", false, func(in []byte) error { _, err := sm9.UnmarshalSignPrivateKeyRaw(in); return err }),
			c13C("sm9.UnmarshalEncryptMasterPublicKeyRaw", false, func(in []byte) error { _, err := sm9.UnmarshalEncryptMasterPublicKeyRaw(in); return err }),
			c13C("sm9.UnmarshalEncryptPrivateKeyRaw", false, func(in []byte) error { _, err := sm9.UnmarshalEncryptPrivateKeyRaw(in); return err }),
		}
		cons[want].wantOK = true
		return &c13Art{data: b, raw: true, fields: f, cons: cons}, nil
	}})
	c13Register(&c13Type{name: "sm9-master-public-key-pem", variants: 2, build: func(w *c13World, v int) (*c13Art, error) {
		if err := w.fx.sm9(); err != nil {
			return nil, err
		}
		var der []byte
		var err error
		var wr func([]byte) []byte
		if v == 0 {
			der, err = w.fx.sm9SignMaster.PublicKey().MarshalASN1()
			wr = c13PEM("SM9 SIGN MASTER PUBLIC KEY")
		} else {
			der, err = w.fx.sm9EncMaster.PublicKey().MarshalASN1()
			wr = c13PEM("SM9 ENC MASTER PUBLIC KEY")
		}
		if err != nil {
			return nil, err
		}
		return &c13Art{data: wr(der), inner: der, wrap: wr, wrapTiny: wr, cons: []c13Cons{
			c13C("sm9.ParseSignMasterPublicKeyPEM", v == 0, func(in []byte) error { _, err := sm9.ParseSignMasterPublicKeyPEM(in); return err }),
			c13C("sm9.ParseEncryptMasterPublicKeyPEM", v == 1, func(in []byte) error { _, err := sm9.ParseEncryptMasterPublicKeyPEM(in); return err }),
		}}, nil
	}})
	// ------------------------------------------------------------------ padding
	c13Register(&c13Type{name: "padded-plaintext", variants: 20, build: func(w *c13World, v int) (*c13Art, error) {
		bss := []uint{8, 16, 1, 255, 32}
		bs := bss[v%5]
		scheme := v / 5
		mk := []func(uint) padding.Padding{padding.NewPKCS7Padding, padding.NewANSIX923Padding, padding.NewISO9797M2Padding, padding.NewISO9797M3Padding}
		names := []string{"PKCS7", "ANSIX923", "ISO9797M2", "ISO9797M3"}
		msg := derive([]byte{byte(v)}, "c13 pad", []int{5, 16, 3, 40, 33}[v%5])
		if scheme == 3 && bs == 1 {
			// method 3 writes a length block: block size 1 cannot hold it; use a multi-block message under block size 8 instead
			bs = 8
			msg = derive([]byte{byte(v)}, "c13 pad", 21)
		}
		padded := mk[scheme](bs).Pad(append([]byte{}, msg...))
		var f [][]byte
		for i := 0; i < len(padded); i += int(bs) {
			f = append(f, padded[i:min(i+int(bs), len(padded))])
		}
		var cons []c13Cons
		for s := range mk {
			p := mk[s](bs)
			cons = append(cons, c13C(fmt.Sprintf("padding.New%sPadding(%d).Unpad", names[s], bs), s == scheme, func(in []byte) error { _, err := p.Unpad(in); return err }))
		}
		return &c13Art{data: padded, raw: true, fields: f, cons: cons}, nil
	}})
}

func fixturesBundlePEM(w *c13World) string {
	var b bytes.Buffer
	for _, c := range []*smx509.Certificate{w.fx.leaf, w.fx.inter, w.fx.root} {
		pem.Encode(&b, &pem.Block{Type: "CERTIFICATE", Bytes: c.Raw})
	}
	return b.String()
}

// c13MeshBundles: what a hostile peer can present instead of a certificate chain - a leaf followed by N CAs that have
// all cross-certified one another (N(N-1) certificates, every signature VALID), none of them trusted. Path building must
// give up after a bounded amount of work (the documented signature-check budget); every check succeeds, so only a budget
// that counts successful checks too stops the N! walk.
var c13MeshCache [][]byte

func c13MeshBundles() []c13Byz {
	if c13MeshCache == nil {
		for _, n := range []int{5, 9, 12} {
			type ca struct {
				key  *sm2.PrivateKey
				tmpl *x509.Certificate
			}
			serial := int64(90000 + 1000*n)
			issue := func(subject string, pub any, isCA bool, issuer *x509.Certificate, key *sm2.PrivateKey) (*x509.Certificate, []byte) {
				serial++
				t := &x509.Certificate{SerialNumber: big.NewInt(serial), Subject: pkix.Name{CommonName: subject}, NotBefore: c13Now.AddDate(-1, 0, 0), NotAfter: c13Now.AddDate(1, 0, 0),
					KeyUsage: x509.KeyUsageCertSign | x509.KeyUsageDigitalSignature, BasicConstraintsValid: true, IsCA: isCA}
				if issuer == nil {
					issuer = t
				}
				der, err := smx509.CreateCertificate(&sim.ScriptReader{Data: scalarFrom([]byte(subject), fmt.Sprint("mesh sig ", serial)), Fill: 7, Step: 3}, t, issuer, pub, key)
				if err != nil {
					return t, nil
				}
				return t, der
			}
			cas := make([]ca, n)
			for i := range cas {
				k, err := sm2.NewPrivateKey(scalarFrom([]byte{byte(n), byte(i)}, "mesh ca"))
				if err != nil {
					return nil
				}
				t, _ := issue(fmt.Sprintf("verif bridge CA %d", i), &k.PublicKey, true, nil, k)
				cas[i] = ca{k, t}
			}
			lk, err := sm2.NewPrivateKey(scalarFrom([]byte{byte(n)}, "mesh leaf"))
			if err != nil {
				return nil
			}
			_, leaf := issue("verif mesh leaf", &lk.PublicKey, false, cas[0].tmpl, cas[0].key)
			out := pem.EncodeToMemory(&pem.Block{Type: "CERTIFICATE", Bytes: leaf})
			for i := range cas {
				for j := range cas {
					if i != j {
						_, der := issue(cas[i].tmpl.Subject.CommonName, &cas[i].key.PublicKey, true, cas[j].tmpl, cas[j].key)
						out = append(out, pem.EncodeToMemory(&pem.Block{Type: "CERTIFICATE", Bytes: der})...)
					}
				}
			}
			c13MeshCache = append(c13MeshCache, out)
		}
	}
	var items []c13Byz
	for i, b := range c13MeshCache {
		items = append(items, c13Byz{fmt.Sprintf("leaf under a mesh of cross-certified untrusted CAs (bundle %d, %d bytes)", i, len(b)), b})
	}
	return items
}
