// Package props holds one executor per claimed property: a seeded program
// generator, a step function driving the real library, and the oracle.
package props

import (
	"testing"

	"verif/harness/sim"
)

// Prop describes one property check.
type Prop struct {
	ID     string
	Level  string // exploration | fault_enumeration
	Nodes  func(tier string) []string
	Cross  bool // compare the trace digest of the same run across nodes
	Gen    func(r *sim.Rand, tier string) *sim.Program
	Exec   func(t *testing.T, p *sim.Program, c *sim.Ctx)
	Rule   string
	Real   []string
	Stubs  []string
	Assume []string
	// Budget: target wall seconds of exploration per tier (driver stops handing out work after it).
	QuickSecs, ThoroughSecs int
	// RunsPerJob: how many run indices one worker job covers.
	RunsPerJob int
	// HangSecs > 0: the property forbids non-termination (C13). A worker that spends more than 3*HangSecs on one
	// job is killed, the run it had logged is re-executed alone with a HangSecs budget, twice; reproduced => "hang".
	HangSecs int
	// WarmKnob: programs of this property understand Cfg["warm"] = 1: "use every process-wide lazily initialised
	// singleton once, sequentially, before the program starts". The driver retries a candidate that does not reproduce in
	// a fresh (cold) process with the knob set.
	WarmKnob bool
	// GlobalRand: run every program in a subtest with testing/cryptotest.SetGlobalRandom(t, Cfg["grand"]+1).
	GlobalRand bool
	// Init, if set, runs once per worker process before any run (model self-tests, fixtures).
	Init func() error
}

var Registry = map[string]*Prop{}

func register(p *Prop) { Registry[p.ID] = p }

// SelfTests lists all model self-tests (run in the worker's "selftest" mode).
var SelfTests []func() error

// SelfTestsOf maps a property id to the self-tests of the models its oracle
// uses; they run at the start of every worker process of that property and a
// failure is exit 2 (never a verdict).
var SelfTestsOf = map[string][]func() error{}

func selfTests(prop string, fns ...func() error) {
	SelfTests = append(SelfTests, fns...)
	SelfTestsOf[prop] = append(SelfTestsOf[prop], fns...)
}

// RunLimit is the wall-clock budget of ONE run in seconds. Every property
// states what a call returns, so a call that never returns breaks it: the
// worker ends itself when a single run exceeds this budget, and the driver
// reports class "hang" only after the same run exceeded it again in two
// separate processes of its own.
func (p *Prop) RunLimit() int {
	if p.HangSecs > 0 {
		return p.HangSecs
	}
	return 30
}
