package props

import (
	"bytes"
	"crypto/aes"
	"encoding/hex"
	"fmt"
	"math/big"
	"testing"

	"github.com/emmansun/gmsm/padding"
	"github.com/emmansun/gmsm/sm4"
	"github.com/emmansun/gmsm/sm9"
	"github.com/emmansun/gmsm/verifhook"

	"verif/harness/model/sm3m"
	"verif/harness/sim"
)

// C10: a KGC node, user nodes and key-exchange pairs. Every key travels from
// the KGC to its user in serialised form; signatures, wrapped keys,
// ciphertexts and key-exchange messages travel on a faulty transport. There
// is no independent pairing model: the oracle is made of the GM/T 0044
// example transcripts (reproduced with a scripted reader), round trips,
// rejection of every alteration, the SM3-KDF/MAC model over the library's
// pairing value, and per-run byte equality of the whole transcript across
// build configurations.

func init() {
	register(&Prop{
		ID:        "C10",
		Level:     "exploration",
		Nodes:     func(tier string) []string { return []string{"avx2", "avx", "noadx", "purego"} },
		Cross:     true,
		Gen:       genC10,
		Exec:      execC10,
		QuickSecs: 40, ThoroughSecs: 900, RunsPerJob: 24,
		Rule: "a run creates a KGC (sign and encrypt master keys from a scripted reader), users with IDs of length 0..200 (every length mod 64) whose keys travel serialised (raw / ASN.1 / compressed ASN.1) and plays {sign+verify, signature under another ID / message, signature with a byte altered or every value byte altered, wrap+unwrap with the KDF model, encrypt+decrypt in XOR/ECB/CBC/CFB/OFB mode raw and ASN.1 with model reconstruction of the XOR-mode ciphertext, ciphertext with a byte altered / every value byte altered / truncated, three-message key exchange with a fault on one message, GM/T 0044 example transcripts, serialise-parse-equal of all six key kinds}; the transcript digest is compared across avx2 / avx / noadx / purego; " +
			"abstract history = sequence of (op kind, uid length mod 64, message-length class, mode, encoding, fault kind); non-trivial = at least 2 ops; distinct = distinct abstract histories",
		Real:  []string{"sm9 (all public entry points)", "internal/sm9, internal/sm9/bn256 (asm / generic per node)", "internal/sm3 KDF (lane paths per node)"},
		Stubs: []string{"random source: scripted reader", "KGC-to-user channel: serialised keys", "transport: alteration, truncation, cross-delivery, key-exchange message faults"},
		Assume: []string{"no independent pairing model: e(C, de) is computed with the library's pairing (through the verif-tagged re-export) and only KDF, MAC and XOR-mode ciphertext layout are modelled on top of it",
			"portability is decided by transcript-digest equality of the same deterministic run on four build configurations",
			"alterations of ASN.1 structure bytes and of the (unauthenticated) mode field are only required not to panic; alterations of value bytes of h, S, C1, C2, C3 must be rejected",
			"altered wrapped keys (no MAC in key encapsulation) are only required not to panic and not to return the original key"},
	})
}

func genC10(r *sim.Rand, tier string) *sim.Program {
	p := &sim.Program{Prop: "C10"}
	p.SetCB("seed", r.Bytes(32))
	nu := r.Range(2, 3)
	for i := 0; i < nu; i++ {
		l := r.PickInt(0, 1, 3, 5, 16, 59, 60, 61, 62, 63, 64, 65, 100, 124, 125, 126, 127, 128, 188, 191, 200)
		if r.Chance(1, 3) {
			l = r.Intn(201)
		}
		p.Add("user", r.Intn(256), r.Intn(3), r.Intn(3)).WithB(r.Bytes(l)) // hid seed, sign key format, enc key format
	}
	nops := r.Range(2, 6)
	msgLen := func() int {
		if r.Chance(1, 40) {
			return r.PickInt(8129, 8200, 8300) // XOR mode: KDF output past 8160 bytes (block counter beyond one byte)
		}
		return r.PickInt(1, 15, 16, 17, 32, 33, 64, 65, 96, 97, 100, 192, 224, 225, 300)
	}
	for i := 0; i < nops; i++ {
		u := r.Intn(nu)
		switch r.Intn(14) {
		case 0, 1:
			p.Add("sign", u, r.Intn(1<<30), r.Intn(6), r.Intn(1<<16)).WithB(r.Bytes(msgLen()))
		case 2:
			p.Add("signall", u, r.Intn(1<<30)).WithB(r.Bytes(msgLen()))
		case 3, 4:
			p.Add("wrap", u, r.Intn(1<<30), r.PickInt(1, 16, 32, 33, 64, 65, 97, 128, 225, 300, 300, 8161, 8200), r.Intn(4), r.Intn(1<<16))
		case 5, 6, 7:
			p.Add("enc", u, r.Intn(1<<30), r.PickInt(0, 1, 2, 3, 4, 0, 1, 2, 3, 4, 5, 6, 7, 8), r.Intn(2), r.Intn(6), r.Intn(1<<16)).WithB(r.Bytes(msgLen()))
		case 8:
			p.Add("encall", u, r.Intn(1<<30), r.PickInt(0, 1, 2, 3, 4, 0, 1, 2, 3, 4, 5, 6, 7, 8), r.Intn(2)).WithB(r.Bytes(r.PickInt(1, 16, 33, 65)))
		case 9, 10:
			p.Add("kx", u, (u+1)%nu, r.Intn(1<<30), r.PickInt(16, 16, 32, 48, 100, 100, 8200), r.Intn(2), r.Intn(7), r.Intn(3), r.Intn(1<<16), r.PickInt(0, 0, r.Intn(12)), r.PickInt(0, 0, 0, 1))
		case 11:
			if r.Chance(1, 3) {
				// constructive: search a scalar for which the 1-byte derived key is zero, so that WrapKey must draw again
				p.Add("wrapretry", u, r.Intn(1<<30))
			} else {
				p.Add("kat")
			}
		default:
			p.Add("keyser", u)
		}
	}
	return p
}

// order of the SM9 groups (GM/T 0044.5), frozen literal
var c10OrderN, _ = new(big.Int).SetString("B640000002A3A6F1D603AB4FF58EC74449F2934B18EA8BEEE56EE19CD69ECF25", 16)

type c10User struct {
	uid        []byte
	uidBuf     []byte // the application's buffer: uid || other live data (0xA5...) - uid has spare capacity over it
	uidWant    []byte // private copy of the identifier
	hidS, hidE byte
	sign       *sm9.SignPrivateKey
	enc        *sm9.EncryptPrivateKey
}

// modes 0..4: the predefined option values; 5..8: options an application builds itself (another cipher, key size and
// padding scheme) - raw layout only, because the ASN.1 form names the mode but not the cipher
var c10Opts = []sm9.EncrypterOpts{sm9.DefaultEncrypterOpts, sm9.SM4ECBEncrypterOpts, sm9.SM4CBCEncrypterOpts, sm9.SM4CFBEncrypterOpts, sm9.SM4OFBEncrypterOpts,
	sm9.NewCBCEncrypterOpts(padding.NewISO9797M2Padding(16), aes.NewCipher, 32),
	sm9.NewECBEncrypterOpts(padding.NewANSIX923Padding(16), aes.NewCipher, 16),
	sm9.NewCFBEncrypterOpts(aes.NewCipher, 24),
	sm9.NewOFBEncrypterOpts(sm4.NewCipher, 16)}

func execC10(t *testing.T, p *sim.Program, c *sim.Ctx) {
	verifhook.SetMaybeReadDecider(func() bool { return false })
	defer verifhook.SetMaybeReadDecider(nil)
	seed := fitKey(p.CB("seed"), 32)
	if len(p.Ops) >= 3 {
		c.Nontriv = true
	}
	// ---- KGC
	signMaster, err := sm9.GenerateSignMasterKey(&sim.ScriptReader{Data: scalarFrom(seed, "ks")})
	if err != nil {
		c.Fail("setup", -1, "kgc", "%v", err)
		return
	}
	encMaster, err := sm9.GenerateEncryptMasterKey(&sim.ScriptReader{Data: scalarFrom(seed, "ke")})
	if err != nil {
		c.Fail("setup", -1, "kgc", "%v", err)
		return
	}
	c.Out("spub", signMaster.PublicKey().Bytes())
	c.Out("epub", encMaster.PublicKey().Bytes())
	// the master public keys travel to every party in serialised form
	spubDER, err := signMaster.PublicKey().MarshalASN1()
	if err != nil {
		c.Fail("key-serialisation", -1, "kgc", "%v", err)
		return
	}
	spub, err := sm9.UnmarshalSignMasterPublicKeyASN1(spubDER)
	if err != nil || !spub.Equal(signMaster.PublicKey()) {
		c.Fail("key-serialisation", -1, "kgc", "sign master public key does not survive ASN.1 serialisation: %v", err)
		return
	}
	epub, err := sm9.UnmarshalEncryptMasterPublicKeyRaw(encMaster.PublicKey().Bytes())
	if err != nil || !epub.Equal(encMaster.PublicKey()) {
		c.Fail("key-serialisation", -1, "kgc", "encrypt master public key does not survive raw serialisation: %v", err)
		return
	}
	eppG1, err := g1FromBytes(encMaster.PublicKey().Bytes())
	if err != nil {
		c.Fail("setup", -1, "kgc", "%v", err)
		return
	}
	_ = eppG1
	var users []*c10User
	rd := func(seedInt int, tag string) *sim.ScriptReader {
		d := derive(append([]byte(fmt.Sprint(seedInt)), seed...), tag, 96)
		d[0] &= 0x7f
		return &sim.ScriptReader{Data: d, Fill: 11, Step: 7}
	}
	kdfCheck := func(i int, kind string, u *c10User, cbytes, key []byte) bool {
		// key = KDF(C || e(C, de) || uid, klen), SM3 KDF from the model, pairing from the library
		C, err := g1FromBytes(cbytes)
		if err != nil {
			c.Fail("cipher-decode", i, kind, "C does not decode: %v", err)
			return false
		}
		de, err := g2FromBytes(u.enc.Bytes())
		if err != nil {
			c.Fail("key-decode", i, kind, "user key does not decode: %v", err)
			return false
		}
		w := verifhook.Pair(C, de)
		z := append(append(append([]byte{}, C.Marshal()...), w.Marshal()...), u.uid...)
		want := sm3m.KDF(z, len(key))
		if !bytes.Equal(key, want) {
			c.Fail("kdf-mismatch", i, kind, "derived key (%d bytes, uid %d bytes = %d mod 64) differs from SM3-KDF(C || w || uid) of the model at byte %d", len(key), len(u.uid), len(u.uid)%64, firstDiff(key, want))
			return false
		}
		return true
	}
	var prevKind string
	// every identifier is a sub-slice of a larger application buffer: no call may write behind (or into) it
	uidIntact := func(i int, kind string) bool {
		for _, u := range users {
			for k, b := range u.uidBuf {
				if (k < len(u.uidWant) && b != u.uidWant[k]) || (k >= len(u.uidWant) && b != 0xA5) {
					c.Fail("caller-buffer-modified", i, kind, "a call of this operation wrote into the buffer that holds a user identifier (%d bytes) at offset %d", len(u.uidWant), k)
					return false
				}
			}
		}
		return true
	}
	defer func() {
		if !c.Failed() {
			uidIntact(len(p.Ops)-1, prevKind)
		}
	}()
	for i, op := range p.Ops {
		if c.Failed() {
			return
		}
		if !uidIntact(i-1, prevKind) {
			return
		}
		prevKind = op.K
		c.OpsDone++
		switch op.K {
		case "user":
			uid := op.Bytes(0)
			if len(uid) > 200 {
				uid = uid[:200]
			}
			ub := append(append([]byte{}, uid...), bytes.Repeat([]byte{0xA5}, 24)...)
			uid = ub[:len(uid)] // spare capacity, with somebody else's live bytes behind
			u := &c10User{uid: uid, uidBuf: ub, uidWant: append([]byte{}, uid...), hidS: 1, hidE: 3}
			if op.Int(0)%5 == 0 {
				u.hidS, u.hidE = byte(op.Int(0)), byte(op.Int(0)>>3)
			}
			c.Abs("user", len(uid)%64, len(uid)/64, op.Int(1)%3, op.Int(2)%3)
			sk, err := signMaster.GenerateUserKey(uid, u.hidS)
			if err != nil {
				c.Fail("keygen", i, op.K, "sign user key: %v", err)
				return
			}
			ek, err := encMaster.GenerateUserKey(uid, u.hidE)
			if err != nil {
				c.Fail("keygen", i, op.K, "encrypt user key: %v", err)
				return
			}
			c.Out("sk", sk.Bytes())
			c.Out("ek", ek.Bytes())
			// KGC -> user channel: the user key travels as SEQUENCE { BIT STRING key, BIT STRING master public key }
			// (the only serialised form from which a usable private key can be rebuilt); the bare forms are
			// checked for Equal / byte stability
			bitstr := func(b []byte) []byte {
				return append(append([]byte{0x03}, derLenBytes(len(b)+1)...), append([]byte{0}, b...)...)
			}
			seq := func(parts ...[]byte) []byte {
				var body []byte
				for _, p := range parts {
					body = append(body, p...)
				}
				return append(append([]byte{0x30}, derLenBytes(len(body))...), body...)
			}
			var err2 error
			if u.sign, err2 = sm9.UnmarshalSignPrivateKeyASN1(seq(bitstr(sk.Bytes()), bitstr(signMaster.PublicKey().Bytes()))); err2 != nil {
				c.Fail("key-serialisation", i, op.K, "sign private key package: %v", err2)
				return
			}
			if u.enc, err2 = sm9.UnmarshalEncryptPrivateKeyASN1(seq(bitstr(ek.Bytes()), bitstr(encMaster.PublicKey().Bytes()))); err2 != nil {
				c.Fail("key-serialisation", i, op.K, "encrypt private key package: %v", err2)
				return
			}
			for fi, f := range []func() ([]byte, error){sk.MarshalASN1, sk.MarshalCompressedASN1} {
				der, err := f()
				if err != nil {
					c.Fail("key-serialisation", i, op.K, "sign private key form %d: %v", fi, err)
					return
				}
				k, err := sm9.UnmarshalSignPrivateKeyASN1(der)
				if err != nil || !k.Equal(sk) || !bytes.Equal(k.Bytes(), sk.Bytes()) {
					c.Fail("key-serialisation", i, op.K, "sign private key form %d does not parse back to an equal key: %v", fi, err)
					return
				}
			}
			if k, err := sm9.UnmarshalSignPrivateKeyRaw(sk.Bytes()); err != nil || !k.Equal(sk) {
				c.Fail("key-serialisation", i, op.K, "sign private key raw form: %v", err)
				return
			}
			for fi, f := range []func() ([]byte, error){ek.MarshalASN1, ek.MarshalCompressedASN1} {
				der, err := f()
				if err != nil {
					c.Fail("key-serialisation", i, op.K, "encrypt private key form %d: %v", fi, err)
					return
				}
				k, err := sm9.UnmarshalEncryptPrivateKeyASN1(der)
				if err != nil || !k.Equal(ek) || !bytes.Equal(k.Bytes(), ek.Bytes()) {
					c.Fail("key-serialisation", i, op.K, "encrypt private key form %d does not parse back to an equal key: %v", fi, err)
					return
				}
			}
			if k, err := sm9.UnmarshalEncryptPrivateKeyRaw(ek.Bytes()); err != nil || !k.Equal(ek) {
				c.Fail("key-serialisation", i, op.K, "encrypt private key raw form: %v", err)
				return
			}
			if !bytes.Equal(u.sign.Bytes(), sk.Bytes()) || !bytes.Equal(u.enc.Bytes(), ek.Bytes()) {
				c.Fail("key-serialisation", i, op.K, "a user key changed on the way from the KGC")
				return
			}
			users = append(users, u)
			continue
		case "kat":
			c.Abs("kat")
			c10KAT(c, i)
			continue
		}
		if len(users) == 0 {
			continue
		}
		u := users[((op.Int(0)%len(users))+len(users))%len(users)]
		other := users[(((op.Int(0)+1)%len(users))+len(users))%len(users)]
		switch op.K {
		case "sign", "signall":
			msg := op.Bytes(0)
			sig, err := sm9.SignASN1(rd(op.Int(1), "sig"), u.sign, msg)
			if err != nil {
				c.Fail("sign-failed", i, op.K, "%v", err)
				return
			}
			c.Out("sig", sig)
			if !sm9.VerifyASN1(spub, u.uid, u.hidS, msg, sig) {
				c.Fail("honest-signature-rejected", i, op.K, "signature of user (uid %d bytes) does not verify under the master public key", len(u.uid))
				return
			}
			tree := sim.ParseAllTLV(sig)
			if tree == nil || len(tree.Children) != 2 || len(tree.Children[0].Content) != 32 || len(tree.Children[1].Content) != 66 {
				c.Fail("signature-format", i, op.K, "unexpected signature encoding %x", sig)
				return
			}
			// the (h *big.Int, S []byte) entry points: the same signature must verify there, and a signature made
			// through sm9.Sign must verify through both entry-point families
			hBig := new(big.Int).SetBytes(tree.Children[0].Content)
			if hBig.BitLen() <= 248 {
				c.Hit("probe:sm9-signature-h-with-leading-zero-byte")
			}
			if !sm9.Verify(spub, u.uid, u.hidS, msg, hBig, tree.Children[1].Content[1:]) {
				c.Fail("honest-signature-rejected", i, op.K, "sm9.Verify (h as *big.Int, %d bits) rejects the signature that VerifyASN1 accepts", hBig.BitLen())
				return
			}
			// h is an integer in [1, N-1] (GM/T 0044.2 B.1: "check that h' is in [1, N-1]"); the congruent value h + N, where it
			// still fits into 32 octets, is another encoding of the same residue and must be refused by every entry point
			if hn := new(big.Int).Add(hBig, c10OrderN); hn.BitLen() <= 256 {
				alt := append([]byte{}, sig...)
				hn.FillBytes(alt[tree.Children[0].Off+tree.Children[0].HdrLen : tree.Children[0].Off+tree.Children[0].HdrLen+32])
				c.Hit("fault:h-plus-order")
				if sm9.VerifyASN1(spub, u.uid, u.hidS, msg, alt) || sm9.Verify(spub, u.uid, u.hidS, msg, hn, tree.Children[1].Content[1:]) {
					c.Fail("altered-signature-accepted", i, op.K, "a signature whose h was replaced by h + N (out of range, same residue) verifies")
					return
				}
			}
			if op.Int(1)%3 == 0 {
				h2, s2, err := sm9.Sign(rd(op.Int(1), "sig2"), u.sign, msg)
				if err != nil {
					c.Fail("sign-failed", i, op.K, "sm9.Sign: %v", err)
					return
				}
				c.Out("sig2", s2)
				if !sm9.Verify(spub, u.uid, u.hidS, msg, h2, s2) {
					c.Fail("honest-signature-rejected", i, op.K, "sm9.Verify rejects the output of sm9.Sign (h has %d bits)", h2.BitLen())
					return
				}
			}
			hOff := tree.Children[0].Off + tree.Children[0].HdrLen
			sOff := tree.Children[1].Off + tree.Children[1].HdrLen + 2 // skip unused-bits and point-format bytes
			valuePos := func(k int) int {
				k %= 96
				if k < 32 {
					return hOff + k
				}
				return sOff + k - 32
			}
			if op.K == "signall" {
				c.Abs("signall", len(u.uid)%64)
				for k := 0; k < 97 && !c.Failed(); k++ {
					m := append([]byte{}, sig...)
					m[valuePos(k)] ^= byte(1 << (k % 8))
					if sm9.VerifyASN1(spub, u.uid, u.hidS, msg, m) {
						c.Fail("altered-signature-accepted", i, op.K, "signature with value byte %d altered still verifies", valuePos(k))
					}
				}
				c.HitN("fault:exhaustive-value-bytes", 97)
				continue
			}
			kind := op.Int(2) % 6
			c.Abs("sign", len(u.uid)%64, sim.LenClass(len(msg), 32), kind)
			switch kind {
			case 0:
			case 1: // other user ID
				ouid := append(append([]byte{}, u.uid...), 'x')
				if sm9.VerifyASN1(spub, ouid, u.hidS, msg, sig) || (!bytes.Equal(other.uid, u.uid) && sm9.VerifyASN1(spub, other.uid, u.hidS, msg, sig)) {
					c.Fail("signature-accepted-for-other-id", i, op.K, "signature verifies under another user ID")
				}
				c.Hit("fault:cross-delivered")
			case 2: // other message
				if sm9.VerifyASN1(spub, u.uid, u.hidS, append(append([]byte{}, msg...), 0), sig) {
					c.Fail("signature-accepted-for-other-message", i, op.K, "signature verifies for another message")
				}
				c.Hit("fault:cross-delivered")
			case 3: // value byte altered
				m := append([]byte{}, sig...)
				m[valuePos(op.Int(3))] ^= byte(1 + op.Int(3)%255)
				if sm9.VerifyASN1(spub, u.uid, u.hidS, msg, m) {
					c.Fail("altered-signature-accepted", i, op.K, "signature with an altered value byte still verifies")
				}
				c.Hit("fault:byte-altered")
			case 4: // any byte altered / truncated: must not panic; acceptance only if it still decodes to the same values is tolerated
				m := append([]byte{}, sig...)
				m[op.Int(3)%len(m)] ^= byte(1 + op.Int(3)%255)
				c.Out("v", []byte{b2i(sm9.VerifyASN1(spub, u.uid, u.hidS, msg, m))})
				c.Out("v", []byte{b2i(sm9.VerifyASN1(spub, u.uid, u.hidS, msg, sig[:op.Int(3)%len(sig)]))})
				c.Hit("fault:byte-altered")
			default: // other hid
				if sm9.VerifyASN1(spub, u.uid, u.hidS+1, msg, sig) {
					c.Fail("signature-accepted-for-other-hid", i, op.K, "signature verifies under another hid")
				}
			}
		case "wrap":
			klen := op.Int(2)
			if klen < 1 || klen > 10000 {
				klen = 32
			}
			c.Abs("wrap", len(u.uid)%64, sim.LenClass(klen, 32), op.Int(3)%4)
			asn1 := op.Int(3)%2 == 1
			var key, ct []byte
			var err error
			if asn1 {
				var pkg []byte
				pkg, err = epub.WrapKeyASN1(rd(op.Int(1), "wrap"), u.uid, u.hidE, klen)
				if err == nil {
					key, ct, err = sm9.UnmarshalSM9KeyPackage(pkg)
				}
			} else {
				key, ct, err = sm9.WrapKey(rd(op.Int(1), "wrap"), epub, u.uid, u.hidE, klen)
			}
			if err != nil {
				c.Fail("wrap-failed", i, op.K, "%v", err)
				return
			}
			c.Out("wkey", key)
			c.Out("wct", ct)
			if len(key) != klen {
				c.Fail("wrap-length", i, op.K, "wrapped key has %d bytes, requested %d", len(key), klen)
				return
			}
			if !kdfCheck(i, op.K, u, ct, key) {
				return
			}
			got, err := sm9.UnwrapKey(u.enc, u.uid, ct, klen)
			if err != nil || !bytes.Equal(got, key) {
				c.Fail("unwrap-mismatch", i, op.K, "unwrap does not return the wrapped key (uid %d bytes, %d key bytes): %v", len(u.uid), klen, err)
				return
			}
			// altered cipher: never the original key, never a panic
			m := append([]byte{}, ct...)
			m[1+op.Int(4)%(len(m)-1)] ^= byte(1 + op.Int(4)%255)
			if got, err := sm9.UnwrapKey(u.enc, u.uid, m, klen); err == nil && bytes.Equal(got, key) && klen >= 8 {
				c.Fail("altered-cipher-unwrapped", i, op.K, "an altered key encapsulation unwraps to the original key")
			}
			c.Hit("fault:byte-altered")
		case "wrapretry":
			c.Abs("wrapretry", len(u.uid)%64)
			var hitR []byte
			for j := 0; j < 700 && hitR == nil; j++ {
				cand := scalarFrom(append([]byte(fmt.Sprint(op.Int(1), j)), seed...), "wr")
				pr := &sim.ScriptReader{Data: cand, Fill: 13, Step: 5}
				if _, _, err := sm9.WrapKey(pr, epub, u.uid, u.hidE, 1); err != nil {
					c.Fail("wrap-failed", i, op.K, "%v", err)
					return
				} else if pr.Off > 32 {
					hitR = cand // the first scalar was discarded: its 1-byte key was all zero
				}
			}
			if hitR == nil {
				continue
			}
			c.Hit("probe:wrap-zero-key-retry-taken")
			r2 := scalarFrom(append([]byte(fmt.Sprint(op.Int(1))), seed...), "wr2")
			pr := &sim.ScriptReader{Data: append(append([]byte{}, hitR...), r2...), Fill: 13, Step: 5}
			key, ct, err := sm9.WrapKey(pr, epub, u.uid, u.hidE, 1)
			if err != nil {
				c.Fail("wrap-failed", i, op.K, "%v", err)
				return
			}
			c.Out("wkey", key)
			c.Out("wct", ct)
			if !kdfCheck(i, op.K, u, ct, key) {
				return
			}
			if got, err := sm9.UnwrapKey(u.enc, u.uid, ct, 1); err != nil || !bytes.Equal(got, key) {
				c.Fail("unwrap-mismatch", i, op.K, "after a zero-key retry unwrap does not return the wrapped key: %v", err)
				return
			}
		case "enc", "encall":
			msg := op.Bytes(0)
			if len(msg) == 0 {
				msg = []byte{1}
			}
			mode := ((op.Int(2) % 9) + 9) % 9
			asn1 := op.Int(3)%2 == 1
			if mode >= 5 {
				asn1 = false
				c.Hit("probe:application-built-encrypter-options")
			}
			var ct []byte
			var err error
			reader := rd(op.Int(1), "enc")
			if asn1 {
				ct, err = sm9.EncryptASN1(reader, epub, u.uid, u.hidE, msg, c10Opts[mode])
			} else {
				ct, err = sm9.Encrypt(reader, epub, u.uid, u.hidE, msg, c10Opts[mode])
			}
			if err != nil {
				c.Fail("encrypt-failed", i, op.K, "mode %d asn1 %v: %v", mode, asn1, err)
				return
			}
			c.Out("ct", ct)
			// three ways in: the package functions, and the crypto.Decrypter method with either kind of options
			dec := func(b []byte) ([]byte, error) {
				switch {
				case asn1 && op.Int(1)%3 == 1:
					return u.enc.Decrypt(nil, b, u.uid)
				case op.Int(1)%3 == 2:
					return u.enc.Decrypt(nil, b, &sm9.DecrypterOptsWithUID{UID: u.uid, EncrypterOpts: c10Opts[mode]})
				case asn1:
					return sm9.DecryptASN1(u.enc, u.uid, b)
				}
				return sm9.Decrypt(u.enc, u.uid, b, c10Opts[mode])
			}
			pt, err := dec(ct)
			if err != nil || !bytes.Equal(pt, msg) {
				c.Fail("decrypt-mismatch", i, op.K, "mode %d asn1 %v, uid %d bytes, %d message bytes: decryption does not return the plaintext: %v", mode, asn1, len(u.uid), len(msg), err)
				return
			}
			// value-byte positions: C1 (64), C3 (32), C2 (rest)
			var valueOffs []int
			if asn1 {
				tree := sim.ParseAllTLV(ct)
				if tree == nil || len(tree.Children) != 4 {
					c.Fail("ciphertext-format", i, op.K, "unexpected ASN.1 ciphertext structure")
					return
				}
				c1e, c3e, c2e := tree.Children[1], tree.Children[2], tree.Children[3]
				// the unused-bits octet of C1's BIT STRING is part of its value; the point-format octet is not judged
				valueOffs = append(valueOffs, c1e.Off+c1e.HdrLen)
				for k := 2; k < len(c1e.Content); k++ {
					valueOffs = append(valueOffs, c1e.Off+c1e.HdrLen+k)
				}
				for k := range c3e.Content {
					valueOffs = append(valueOffs, c3e.Off+c3e.HdrLen+k)
				}
				for k := range c2e.Content {
					valueOffs = append(valueOffs, c2e.Off+c2e.HdrLen+k)
				}
			} else {
				for k := range ct {
					valueOffs = append(valueOffs, k)
				}
				if mode == 0 {
					// XOR mode, raw layout C1 || C3 || C2: reconstruct everything behind C1 with the model
					de, _ := g2FromBytes(u.enc.Bytes())
					C, err := g1FromBytes(ct[:64])
					if err != nil {
						c.Fail("cipher-decode", i, op.K, "C1 does not decode")
						return
					}
					w := verifhook.Pair(C, de)
					z := append(append(append([]byte{}, ct[:64]...), w.Marshal()...), u.uid...)
					k := sm3m.KDF(z, len(msg)+32)
					c2 := make([]byte, len(msg))
					for j := range msg {
						c2[j] = msg[j] ^ k[j]
					}
					c3 := sm3m.SumParts(c2, k[len(msg):])
					want := append(append(append([]byte{}, ct[:64]...), c3[:]...), c2...)
					if !bytes.Equal(ct, want) {
						c.Fail("ciphertext-mismatch", i, op.K, "XOR-mode ciphertext (uid %d bytes = %d mod 64, %d message bytes) differs from C1 || SM3(C2||K2) || M xor K1 of the model at byte %d", len(u.uid), len(u.uid)%64, len(msg), firstDiff(ct, want))
						return
					}
				}
			}
			if op.K == "encall" {
				c.Abs("encall", mode, asn1, len(u.uid)%64)
				stride := 1
				if len(valueOffs) > 150 {
					stride = (len(valueOffs) + 149) / 150
				}
				for k := 0; k < len(valueOffs) && !c.Failed(); k += stride {
					m := append([]byte{}, ct...)
					m[valueOffs[k]] ^= byte(1 << (k % 8))
					if got, err := dec(m); err == nil {
						c.Fail("altered-ciphertext-accepted", i, op.K, "mode %d asn1 %v: ciphertext with value byte %d altered decrypts (%d bytes returned)", mode, asn1, valueOffs[k], len(got))
					}
				}
				c.HitN("fault:exhaustive-value-bytes", (len(valueOffs)+stride-1)/stride)
				continue
			}
			kind := op.Int(4) % 6
			c.Abs("enc", mode, asn1, len(u.uid)%64, sim.LenClass(len(msg), 32), kind)
			switch kind {
			case 1: // value byte altered
				m := append([]byte{}, ct...)
				m[valueOffs[op.Int(5)%len(valueOffs)]] ^= byte(1 + op.Int(5)%255)
				if got, err := dec(m); err == nil {
					c.Fail("altered-ciphertext-accepted", i, op.K, "mode %d asn1 %v: ciphertext with an altered value byte decrypts (%d bytes)", mode, asn1, len(got))
				}
				c.Hit("fault:byte-altered")
			case 2: // any byte altered (structure included): no panic, never a different plaintext than the original
				m := append([]byte{}, ct...)
				m[op.Int(5)%len(m)] ^= byte(1 + op.Int(5)%255)
				if got, err := dec(m); err == nil && !bytes.Equal(got, msg) {
					// only the unauthenticated mode field can lead here
					tree := sim.ParseAllTLV(ct)
					modeOff := -1
					if asn1 && tree != nil && len(tree.Children) > 0 {
						modeOff = tree.Children[0].Off + tree.Children[0].HdrLen
					}
					if op.Int(5)%len(m) != modeOff {
						c.Fail("altered-ciphertext-accepted", i, op.K, "an altered ciphertext decrypts to a different plaintext")
					}
				}
				c.Hit("fault:byte-altered")
			case 3: // truncation
				k := 1 + op.Int(5)%len(ct)
				if k >= len(ct) {
					k = len(ct) - 1
				}
				if !asn1 && len(ct)-k < 96 {
					k = len(ct) - 96 // shorter raw inputs are C13's business (out of contract: fixed offsets)
				}
				if k > 0 {
					if got, err := dec(ct[:len(ct)-k]); err == nil && len(got) > 0 && bytes.Equal(got, msg) {
						c.Fail("altered-ciphertext-accepted", i, op.K, "a truncated ciphertext decrypts to the original plaintext")
					} else if err == nil && mode == 0 {
						c.Fail("altered-ciphertext-accepted", i, op.K, "a truncated XOR-mode ciphertext decrypts")
					}
					c.Hit("fault:truncated")
				}
			case 4: // wrong recipient
				if !bytes.Equal(other.uid, u.uid) || other.hidE != u.hidE {
					var got []byte
					var err error
					if asn1 {
						got, err = sm9.DecryptASN1(other.enc, other.uid, ct)
					} else {
						got, err = sm9.Decrypt(other.enc, other.uid, ct, c10Opts[mode])
					}
					if err == nil {
						c.Fail("non-recipient-decrypts", i, op.K, "another user's key decrypts the ciphertext (%d bytes returned)", len(got))
					}
					c.Hit("fault:wrong-recipient")
				}
			case 5: // right key, wrong uid argument
				var err error
				if asn1 {
					_, err = sm9.DecryptASN1(u.enc, append(append([]byte{}, u.uid...), 1), ct)
				} else {
					_, err = sm9.Decrypt(u.enc, append(append([]byte{}, u.uid...), 1), ct, c10Opts[mode])
				}
				if err == nil {
					c.Fail("wrong-uid-decrypts", i, op.K, "decryption under another uid succeeds")
				}
			}
		case "kx":
			a, b := u, users[((op.Int(1)%len(users))+len(users))%len(users)]
			klen := op.Int(3)
			if klen < 1 || klen > 10000 {
				klen = 16
			}
			conf := op.Int(4)%2 == 1
			fault, fmsg := op.Int(5)%7, op.Int(6)%3
			c.Abs("kx", len(a.uid)%64, len(b.uid)%64, sim.LenClass(klen, 32), conf, fault, fmsg)
			hid := byte(2)
			// key exchange uses encrypt-type user keys generated with hid 2: issue them now (KGC hop: raw serialisation)
			ka, err1 := encMaster.GenerateUserKey(a.uid, hid)
			kb, err2 := encMaster.GenerateUserKey(b.uid, hid)
			if err1 != nil || err2 != nil {
				c.Fail("keygen", i, op.K, "%v %v", err1, err2)
				return
			}
			// object re-use (knob, argument 8): bit 0 - the initiator keeps its KeyExchange object for the next agreement,
			// bit 1 - the responder does; (knob >> 2) % 3 further agreements follow on those objects. Faults are injected
			// into the last agreement only, so that the earlier ones complete and leave the objects in their final state.
			knob := op.Int(8)
			rounds := 1 + (knob>>2)%3
			if rounds < 1 {
				rounds = 1
			}
			var A, B sm9.KeyExchange
			var doneKey, liveKeyA, liveKeyB []byte // key of the last untouched, completed agreement (copy / the slices the library returned)
			var key0 []byte                        // ... of round 0
			exchange := func(round int, faultsOn bool) int {
				corrupt := func(m []byte, target bool) []byte {
					if !target || fault == 0 || len(m) == 0 || !faultsOn {
						return m
					}
					o := append([]byte{}, m...)
					switch fault {
					case 1, 2:
						o[op.Int(7)%len(o)] ^= byte(1 + op.Int(7)%255)
						c.Hit("fault:byte-corrupted")
					case 3:
						o[len(o)-1] ^= 1
						c.Hit("fault:byte-corrupted")
					case 4: // zero the message
						for k := range o {
							o[k] = 0
						}
						c.Hit("fault:zeroed")
					case 5: // truncate
						o = o[:len(o)-1]
						c.Hit("fault:truncated")
					default:
						return nil
					}
					return o
				}
				ra, err := A.InitKeyExchange(rd(op.Int(2)+round, "kxa"), hid)
				if err != nil {
					c.Fail("kx-failed", i, op.K, "init: %v", err)
					return 2
				}
				c.Out("ra", ra)
				m1 := corrupt(ra, fmsg == 0)
				if m1 == nil {
					c.Hit("fault:message-dropped")
					return 1
				}
				altered := !bytes.Equal(m1, ra)
				rb, sb, err := B.RespondKeyExchange(rd(op.Int(2)+round, "kxb"), hid, m1)
				c.OutErr("kx-b", err)
				if err != nil {
					if !altered {
						c.Fail("kx-failed", i, op.K, "responder refused an untouched R_A: %v", err)
					}
					return 1
				}
				c.Out("rb", rb)
				c.Out("sb", sb)
				m2r, m2s := rb, sb
				if fmsg == 1 {
					if conf && op.Int(7)%2 == 1 {
						m2s = corrupt(sb, true)
					} else {
						m2r = corrupt(rb, true)
					}
					if m2r == nil || (conf && m2s == nil) {
						c.Hit("fault:message-dropped")
						return 1
					}
				}
				altered = altered || !bytes.Equal(m2r, rb) || !bytes.Equal(m2s, sb)
				keyA, sa, err := A.ConfirmResponder(m2r, m2s)
				c.OutErr("kx-a", err)
				if err != nil {
					if !altered {
						c.Fail("kx-failed", i, op.K, "initiator refused untouched messages: %v", err)
					}
					return 1
				}
				if altered && conf {
					c.Fail("altered-message-accepted", i, op.K, "with confirmation on, the initiator accepted altered key-exchange messages (fault %d on message %d)", fault, fmsg)
					return 2
				}
				c.Out("keyA", keyA)
				m3 := sa
				if fmsg == 2 && conf {
					m3 = corrupt(sa, true)
					if m3 == nil {
						c.Hit("fault:message-dropped")
						return 1
					}
				}
				altered3 := !bytes.Equal(m3, sa)
				keyB, err := B.ConfirmInitiator(m3)
				c.OutErr("kx-b2", err)
				if err != nil {
					if !altered && !altered3 {
						c.Fail("kx-failed", i, op.K, "responder refused an untouched confirmation: %v", err)
					}
					return 1
				}
				if altered3 && conf {
					c.Fail("altered-message-accepted", i, op.K, "the responder accepted an altered confirmation value")
					return 2
				}
				c.Out("keyB", keyB)
				if !altered && !bytes.Equal(keyA, keyB) {
					c.Fail("keys-differ", i, op.K, "both parties finished an untouched exchange with different keys (uid lengths %d / %d, %d key bytes)", len(a.uid), len(b.uid), klen)
					return 2
				}
				if conf && !bytes.Equal(keyA, keyB) {
					c.Fail("keys-differ", i, op.K, "with confirmation on both parties returned keys, but different ones")
					return 2
				}
				if len(keyA) != klen {
					c.Fail("key-length", i, op.K, "key has %d bytes, requested %d", len(keyA), klen)
				}
				if !altered {
					c.Hit("probe:key-exchange-completed")
					doneKey = append([]byte{}, keyA...)
					liveKeyA, liveKeyB = keyA, keyB
					return 0
				}
				return 1
			}
			for round := 0; round < rounds; round++ {
				if A == nil || knob&1 == 0 {
					A = ka.NewKeyExchange(a.uid, b.uid, klen, conf)
				} else {
					c.Hit("probe:key-exchange-object-reused")
				}
				if B == nil || knob&2 == 0 {
					B = kb.NewKeyExchange(b.uid, a.uid, klen, conf)
				} else {
					c.Hit("probe:key-exchange-object-reused")
				}
				doneKey = nil
				st := exchange(round, round == rounds-1)
				if st == 2 {
					return
				}
				if round == 0 && st == 0 {
					key0 = doneKey
				}
				if st == 1 {
					break
				}
			}
			if op.Int(9)&1 == 1 && A != nil && B != nil {
				// both applications wipe their protocol objects. What the callers hold (returned keys, identifiers, user keys, the
				// master public key with its lazily built tables) must survive: the agreement of round 0 repeated on fresh
				// objects with the same scripted scalars gives the same key.
				ua, ub := append([]byte{}, a.uid...), append([]byte{}, b.uid...)
				A.Destroy()
				B.Destroy()
				c.Hit("probe:destroy-after-key-exchange")
				if doneKey != nil && (!bytes.Equal(liveKeyA, doneKey) || !bytes.Equal(liveKeyB, doneKey)) {
					c.Fail("destroy-damaged-caller-data", i, op.K, "Destroy wiped the key that had been returned to the caller")
					return
				}
				if !bytes.Equal(ua, a.uid) || !bytes.Equal(ub, b.uid) {
					c.Fail("destroy-damaged-caller-data", i, op.K, "Destroy changed the caller's identifier")
					return
				}
				if key0 != nil {
					A = ka.NewKeyExchange(a.uid, b.uid, klen, conf)
					B = kb.NewKeyExchange(b.uid, a.uid, klen, conf)
					doneKey = nil
					if st := exchange(0, false); st == 2 {
						return
					}
					if !bytes.Equal(doneKey, key0) {
						c.Fail("destroy-damaged-caller-data", i, op.K, "after Destroy of earlier protocol objects the same agreement (same keys, identifiers and scripted scalars) on FRESH objects gives another key or fails")
						return
					}
				}
			}
		case "keyser":
			c.Abs("keyser")
			// all six key kinds: serialise, parse, equal, re-serialise to the same bytes
			type rt struct {
				name string
				f    func() error
			}
			checks := []rt{
				{"sign master private ASN.1", func() error {
					der, err := signMaster.MarshalASN1()
					if err != nil {
						return err
					}
					k, err := sm9.UnmarshalSignMasterPrivateKeyASN1(der)
					if err != nil {
						return err
					}
					if !k.Equal(signMaster) || !bytes.Equal(k.Bytes(), signMaster.Bytes()) || !k.PublicKey().Equal(signMaster.PublicKey()) {
						return fmt.Errorf("not equal after parse")
					}
					return nil
				}},
				{"encrypt master private ASN.1", func() error {
					der, err := encMaster.MarshalASN1()
					if err != nil {
						return err
					}
					k, err := sm9.UnmarshalEncryptMasterPrivateKeyASN1(der)
					if err != nil {
						return err
					}
					if !k.Equal(encMaster) || !bytes.Equal(k.Bytes(), encMaster.Bytes()) {
						return fmt.Errorf("not equal after parse")
					}
					return nil
				}},
				{"sign master public (raw, ASN.1, compressed)", func() error {
					for n, enc := range [][]byte{signMaster.PublicKey().Bytes()} {
						k, err := sm9.UnmarshalSignMasterPublicKeyRaw(enc)
						if err != nil || !k.Equal(signMaster.PublicKey()) {
							return fmt.Errorf("raw %d: %v", n, err)
						}
					}
					for n, f := range []func() ([]byte, error){signMaster.PublicKey().MarshalASN1, signMaster.PublicKey().MarshalCompressedASN1} {
						der, err := f()
						if err != nil {
							return err
						}
						k, err := sm9.UnmarshalSignMasterPublicKeyASN1(der)
						if err != nil || !k.Equal(signMaster.PublicKey()) || !bytes.Equal(k.Bytes(), signMaster.PublicKey().Bytes()) {
							return fmt.Errorf("ASN.1 form %d: %v", n, err)
						}
					}
					return nil
				}},
				{"encrypt master public (ASN.1, compressed)", func() error {
					for n, f := range []func() ([]byte, error){encMaster.PublicKey().MarshalASN1, encMaster.PublicKey().MarshalCompressedASN1} {
						der, err := f()
						if err != nil {
							return err
						}
						k, err := sm9.UnmarshalEncryptMasterPublicKeyASN1(der)
						if err != nil || !k.Equal(encMaster.PublicKey()) || !bytes.Equal(k.Bytes(), encMaster.PublicKey().Bytes()) {
							return fmt.Errorf("ASN.1 form %d: %v", n, err)
						}
					}
					return nil
				}},
				{"user keys equal", func() error {
					sk, _ := signMaster.GenerateUserKey(u.uid, u.hidS)
					ek, _ := encMaster.GenerateUserKey(u.uid, u.hidE)
					if !sk.Equal(u.sign) || !ek.Equal(u.enc) {
						return fmt.Errorf("parsed user key is not Equal to the issued one")
					}
					return nil
				}},
			}
			for _, ch := range checks {
				if err := ch.f(); err != nil {
					c.Fail("key-serialisation", i, op.K, "%s: %v", ch.name, err)
					return
				}
			}
		}
	}
}

func derLenBytes(n int) []byte {
	switch {
	case n < 0x80:
		return []byte{byte(n)}
	case n < 0x100:
		return []byte{0x81, byte(n)}
	default:
		return []byte{0x82, byte(n >> 8), byte(n)}
	}
}

func unhex(s string) []byte {
	b, err := hex.DecodeString(s)
	if err != nil {
		panic(err)
	}
	return b
}

// c10KAT reproduces the GM/T 0044 example transcripts through the public API with a scripted reader.
func c10KAT(c *sim.Ctx, i int) {
	xor42 := func(k []byte) []byte { o := append([]byte{}, k...); o[1] ^= 0x42; return o }
	pad32 := func(s string) []byte { b := unhex(s); return append(make([]byte, 32-len(b)), b...) }
	// signature example
	sm, err := sm9.GenerateSignMasterKey(&sim.ScriptReader{Data: xor42(pad32("0130E78459D78545CB54C587E02CF480CE0B66340F319F348A1D5B1F2DC5F4"))})
	if err != nil {
		c.Fail("kat", i, "kat", "sign master: %v", err)
		return
	}
	user, err := sm.GenerateUserKey([]byte("Alice"), 1)
	if err != nil {
		c.Fail("kat", i, "kat", "%v", err)
		return
	}
	h, s, err := sm9.Sign(&sim.ScriptReader{Data: pad32("033C8616B06704813203DFD00965022ED15975C662337AED648835DC4B1CBE")}, user, []byte("Chinese IBS standard"))
	if err != nil {
		c.Fail("kat", i, "kat", "%v", err)
		return
	}
	wantH := new(big.Int).SetBytes(unhex("823c4b21e4bd2dfe1ed92c606653e996668563152fc33f55d7bfbb9bd9705adb"))
	wantS := unhex("0473bf96923ce58b6ad0e13e9643a406d8eb98417c50ef1b29cef9adb48b6d598c856712f1c2e0968ab7769f42a99586aed139d5b8b3e15891827cc2aced9baa05")
	c.Out("kat-s", s)
	if h.Cmp(wantH) != 0 || !bytes.Equal(s, wantS) {
		c.Fail("kat-mismatch", i, "kat", "GM/T 0044 signature example not reproduced (h = %x)", h)
		return
	}
	// key encapsulation and encryption examples
	em, err := sm9.GenerateEncryptMasterKey(&sim.ScriptReader{Data: xor42(pad32("01EDEE3778F441F8DEA3D9FA0ACC4E07EE36C93F9A08618AF4AD85CEDE1C22"))})
	if err != nil {
		c.Fail("kat", i, "kat", "%v", err)
		return
	}
	bob, err := em.GenerateUserKey([]byte("Bob"), 3)
	if err != nil {
		c.Fail("kat", i, "kat", "%v", err)
		return
	}
	if !bytes.Equal(bob.Bytes()[1:], unhex("94736acd2c8c8796cc4785e938301a139a059d3537b6414140b2d31eecf41683115bae85f5d8bc6c3dbd9e5342979acccf3c2f4f28420b1cb4f8c0b59a19b1587aa5e47570da7600cd760a0cf7beaf71c447f3844753fe74fa7ba92ca7d3b55f27538a62e7f7bfb51dce08704796d94c9d56734f119ea44732b50e31cdeb75c1")) {
		c.Fail("kat-mismatch", i, "kat", "GM/T 0044 user encryption key not reproduced")
		return
	}
	key, ct, err := sm9.WrapKey(&sim.ScriptReader{Data: pad32("74015F8489C01EF4270456F9E6475BFB602BDE7F33FD482AB4E3684A6722")}, em.PublicKey(), []byte("Bob"), 3, 32)
	if err != nil || !bytes.Equal(key, unhex("4ff5cf86d2ad40c8f4bac98d76abdbde0c0e2f0a829d3f911ef5b2bce0695480")) || !bytes.Equal(ct[1:], unhex("1edee2c3f465914491de44cefb2cb434ab02c308d9dc5e2067b4fed5aaac8a0f1c9b4c435eca35ab83bb734174c0f78fde81a53374aff3b3602bbc5e37be9a4c")) {
		c.Fail("kat-mismatch", i, "kat", "GM/T 0044 key encapsulation example not reproduced: %v", err)
		return
	}
	enc, err := sm9.Encrypt(&sim.ScriptReader{Data: pad32("AAC0541779C8FC45E3E2CB25C12B5D2576B2129AE8BB5EE2CBE5EC9E785C")}, em.PublicKey(), []byte("Bob"), 3, []byte("Chinese IBE standard"), nil)
	if err != nil || !bytes.Equal(enc, unhex("2445471164490618e1ee20528ff1d545b0f14c8bcaa44544f03dab5dac07d8ff42ffca97d57cddc05ea405f2e586feb3a6930715532b8000759f13059ed59ac0ba672387bcd6de5016a158a52bb2e7fc429197bcab70b25afee37a2b9db9f3671b5f5b0e951489682f3e64e1378cdd5da9513b1c")) {
		c.Fail("kat-mismatch", i, "kat", "GM/T 0044 encryption example not reproduced: %v", err)
		return
	}
	// key exchange example
	km, err := sm9.GenerateEncryptMasterKey(&sim.ScriptReader{Data: xor42(pad32("02E65B0762D042F51F0D23542B13ED8CFA2E9A0E7206361E013A283905E31F"))})
	if err != nil {
		c.Fail("kat", i, "kat", "%v", err)
		return
	}
	ka, _ := km.GenerateUserKey([]byte("Alice"), 2)
	kb, _ := km.GenerateUserKey([]byte("Bob"), 2)
	A := ka.NewKeyExchange([]byte("Alice"), []byte("Bob"), 16, true)
	B := kb.NewKeyExchange([]byte("Bob"), []byte("Alice"), 16, true)
	ra, err := A.InitKeyExchange(&sim.ScriptReader{Data: pad32("5879DD1D51E175946F23B1B41E93BA31C584AE59A426EC1046A4D03B06C8")}, 2)
	if err != nil || !bytes.Equal(ra, unhex("047cba5b19069ee66aa79d490413d11846b9ba76dd22567f809cf23b6d964bb265a9760c99cb6f706343fed05637085864958d6c90902aba7d405fbedf7b781599")) {
		c.Fail("kat-mismatch", i, "kat", "GM/T 0044 key-exchange R_A not reproduced: %v", err)
		return
	}
	rb, sb, err := B.RespondKeyExchange(&sim.ScriptReader{Data: pad32("018B98C44BEF9F8537FB7D071B2C928B3BC65BD3D69E1EEE213564905634FE")}, 2, ra)
	if err != nil || !bytes.Equal(sb, unhex("3bb4bcee8139c960b4d6566db1e0d5f0b2767680e5e1bf934103e6c66e40ffee")) {
		c.Fail("kat-mismatch", i, "kat", "GM/T 0044 key-exchange S_B not reproduced: %v", err)
		return
	}
	k1, sa, err := A.ConfirmResponder(rb, sb)
	if err != nil || !bytes.Equal(k1, unhex("c5c13a8f59a97cdeae64f16a2272a9e7")) || !bytes.Equal(sa, unhex("195d1b7256ba7e0e67c71202a25f8c94ff8241702c2f55d613ae1c6b98215172")) {
		c.Fail("kat-mismatch", i, "kat", "GM/T 0044 key-exchange key / S_A not reproduced: %v", err)
		return
	}
	k2, err := B.ConfirmInitiator(sa)
	if err != nil || !bytes.Equal(k2, k1) {
		c.Fail("kat-mismatch", i, "kat", "GM/T 0044 key-exchange responder key not reproduced: %v", err)
		return
	}
	c.Hit("probe:gmt0044-examples-reproduced")
}
