package props

import (
	"bytes"
	"crypto/ecdsa"
	"crypto/rsa"
	"crypto/x509"
	"crypto/x509/pkix"
	"encoding/asn1"
	"encoding/hex"
	"encoding/pem"
	"errors"
	"fmt"
	"math/big"
	"net"
	"net/url"
	"sync"

	"github.com/emmansun/gmsm/sm2"
	"github.com/emmansun/gmsm/sm9"
	"github.com/emmansun/gmsm/smx509"

	"verif/harness/fixtures"
	"verif/harness/sim"
)

// ---------------------------------------------------------------- artefacts

// c13Cons is one consumer entry point of an artefact type.
type c13Cons struct {
	name    string
	f       func(in []byte, pre any) bool // true = returned without error / accepted
	pf      func(in []byte) (any, bool)   // pre-parser: its value is handed to the consumers that follow (pkcs7.Parse)
	needPre bool                          // method of the pre-parsed object: not called when the pre-parser refused
	wantOK  bool                          // expected to accept the valid artefact (development check, counted only)
}

// c13Art is one valid artefact together with everything the fault models need.
type c13Art struct {
	typ, name string
	data      []byte                  // the valid artefact in its delivered form
	inner     []byte                  // DER structure the Byzantine producer lies about (nil: none)
	wrap      func(der []byte) []byte // DER -> delivered form (nil: identity); PEM, base64, BER-indefinite
	fields    [][]byte                // raw layout for artefacts without DER structure
	join      func(f [][]byte) []byte // fields -> delivered form (nil: concatenation)
	byz       []c13Byz                // Byzantine-sender inputs with consistent integrity fields
	byzN      int                     // further Byzantine-sender inputs, produced on demand by byzAt(0..byzN-1)
	byzAt     func(i int) c13Byz
	raw       bool // raw byte-string consumer: guard-page deliveries
	costGuard bool // password-based container: inputs whose KDF cost exceeds c13CostOK's bounds are not delivered
	cons      []c13Cons
	wrapTiny  func(in []byte) []byte // how a tiny input reaches the consumer (nil: as is)

	root   *sim.TLV
	flat   int
	excl   [][2]int     // byte ranges of data excluded from substitution (KDF cost parameters)
	exclEl map[int]bool // element indices excluded from lies
}

type c13Byz struct {
	desc string
	in   []byte
}

var (
	c13OIDPBKDF2   = []byte{0x2a, 0x86, 0x48, 0x86, 0xf7, 0x0d, 0x01, 0x05, 0x0c}
	c13OIDSMPBKDF  = []byte{0x2a, 0x81, 0x1c, 0xcf, 0x55, 0x06, 0x04, 0x01, 0x05, 0x01}
	c13OIDScrypt   = []byte{0x2b, 0x06, 0x01, 0x04, 0x01, 0xda, 0x47, 0x04, 0x0b}
	c13OIDPBES1Pre = []byte{0x2a, 0x86, 0x48, 0x86, 0xf7, 0x0d, 0x01, 0x05} // + one of 1,3,4,6,10,11
)

// finish parses the DER structure and locates the KDF cost parameters.
func (a *c13Art) finish() {
	if a.inner == nil && a.fields == nil && a.wrap == nil {
		// plain DER artefact (if it parses)
		if t := sim.ParseAllTLV(a.data); t != nil {
			a.inner = a.data
		}
	}
	if a.inner != nil {
		a.root = sim.ParseAllTLV(a.inner)
	}
	if a.root == nil {
		return
	}
	flat := a.root.Flatten()
	a.flat = len(flat)
	index := map[*sim.TLV]int{}
	for i, e := range flat {
		index[e] = i
	}
	a.exclEl = map[int]bool{}
	mark := func(e *sim.TLV) {
		if e == nil || e.Tag != 0x02 {
			return
		}
		a.exclEl[index[e]] = true
		if a.wrap == nil {
			a.excl = append(a.excl, [2]int{e.Off, e.Off + e.HdrLen + len(e.Content)})
		}
		// instead of free alteration the cost parameter takes a short list of bounded values
		for _, v := range [][]byte{{0}, {1}, {2}, {3}, {5}, {17}, {0x7f}, {0xff}, {0x80}, {0, 0xff}, {1, 0}, {}} {
			c := a.root.Clone()
			c.Flatten()[index[e]].Content = v
			der := c.Encode()
			if a.wrap != nil {
				der = a.wrap(der)
			}
			a.byz = append(a.byz, c13Byz{fmt.Sprintf("KDF cost parameter (element %d) := %x", index[e], v), der})
		}
	}
	for _, e := range flat {
		// AlgorithmIdentifier ::= SEQUENCE { OID, parameters SEQUENCE { salt OCTET STRING, cost INTEGER ... } }
		if e.Tag != 0x30 || len(e.Children) != 2 || e.Children[0].Tag != 0x06 || e.Children[1].Tag != 0x30 {
			continue
		}
		oid, par := e.Children[0].Content, e.Children[1].Children
		if len(par) < 2 || par[0].Tag != 0x04 {
			continue
		}
		switch {
		case bytes.Equal(oid, c13OIDPBKDF2), bytes.Equal(oid, c13OIDSMPBKDF):
			mark(par[1])
		case bytes.Equal(oid, c13OIDScrypt):
			for _, k := range par[1:min(4, len(par))] {
				mark(k)
			}
		case len(oid) == len(c13OIDPBES1Pre)+1 && bytes.HasPrefix(oid, c13OIDPBES1Pre) && oid[len(oid)-1] != 0x0c && oid[len(oid)-1] != 0x0d:
			mark(par[1])
		}
	}
}

// c13CostOK is the safety net behind the KDF-cost exclusion: it decodes a
// hostile password-based container with encoding/asn1 exactly as the library
// does (same structure shapes, same lenient decoder) and reports whether the
// password-KDF cost it names is within bounds. The seeded multi-fault class
// can reach a cost parameter in spite of the per-byte exclusion (a swap that
// enlarges the INTEGER's length octet yields 2^36 PBKDF2 iterations and the
// decoder ignores the displaced trailing elements); such an input is a
// legitimately expensive call, not a hang, and is not delivered.
func c13CostOK(in []byte) bool {
	var epki struct {
		Alg  pkix.AlgorithmIdentifier
		Data []byte
	}
	if _, err := asn1.Unmarshal(in, &epki); err != nil {
		return true // refused by the library's first decoding step as well
	}
	const maxIter, maxN, maxRP = 1 << 16, 1 << 12, 1 << 9
	kdfOK := func(alg pkix.AlgorithmIdentifier) bool {
		oid, _ := asn1.Marshal(alg.Algorithm)
		if len(oid) < 2 {
			return true
		}
		oid = oid[2:]
		switch {
		case bytes.Equal(oid, c13OIDPBKDF2), bytes.Equal(oid, c13OIDSMPBKDF):
			var k struct {
				Salt   []byte
				Iter   int
				KeyLen int                      `asn1:"optional"`
				PRF    pkix.AlgorithmIdentifier `asn1:"optional"`
			}
			if _, err := asn1.Unmarshal(alg.Parameters.FullBytes, &k); err != nil {
				return true
			}
			return k.Iter <= maxIter
		case bytes.Equal(oid, c13OIDScrypt):
			var k struct {
				Salt    []byte
				N, R, P int
				KeyLen  int `asn1:"optional"`
			}
			if _, err := asn1.Unmarshal(alg.Parameters.FullBytes, &k); err != nil {
				return true
			}
			return k.N <= maxN && k.R <= maxRP && k.P <= maxRP
		}
		return true
	}
	oid, _ := asn1.Marshal(epki.Alg.Algorithm)
	if len(oid) < 2 {
		return true
	}
	oid = oid[2:]
	if len(oid) == len(c13OIDPBES1Pre)+1 && bytes.HasPrefix(oid, c13OIDPBES1Pre) && oid[len(oid)-1] != 0x0c && oid[len(oid)-1] != 0x0d {
		var k struct {
			Salt []byte
			Iter int
		}
		if _, err := asn1.Unmarshal(epki.Alg.Parameters.FullBytes, &k); err != nil {
			return true
		}
		return k.Iter <= maxIter
	}
	// PBES2 / SM-PBES (and anything else that carries a KDF AlgorithmIdentifier in first position)
	var p struct{ KDF, Enc pkix.AlgorithmIdentifier }
	if _, err := asn1.Unmarshal(epki.Alg.Parameters.FullBytes, &p); err != nil {
		return true
	}
	return kdfOK(p.KDF)
}

func (a *c13Art) excluded(off int) bool {
	for _, r := range a.excl {
		if off >= r[0] && off < r[1] {
			return true
		}
	}
	return false
}

// ---------------------------------------------------------------- lies

type c13LieVar struct {
	kind, k int
	name    string
}

const (
	c13LieKeep1 = 100 + iota // keep only the first content octet of a primitive (e.g. BIT STRING 03 01 00)
	c13LieKeep2
)

var c13LieVars = func() []c13LieVar {
	var out []c13LieVar
	for _, k := range []int{1, 2, 8, 15, 16, 17} {
		out = append(out, c13LieVar{sim.LieGrow, k, fmt.Sprintf("grow%d", k)})
	}
	for _, k := range []int{1, 2, 8, 15, 16, 17} {
		out = append(out, c13LieVar{sim.LieShrink, k, fmt.Sprintf("shrink%d", k)})
	}
	out = append(out, c13LieVar{sim.LieEmpty, 1, "empty"}, c13LieVar{sim.LieDelete, 1, "delete"}, c13LieVar{sim.LieDuplicate, 1, "duplicate"},
		c13LieVar{sim.LieSwapNext, 1, "swapnext"}, c13LieVar{sim.LieWrap, 1, "wrap"}, c13LieVar{sim.LieZero, 1, "zero"},
		c13LieVar{c13LieKeep1, 1, "keep1"}, c13LieVar{c13LieKeep2, 1, "keep2"})
	for k := 0; k < 10; k++ {
		out = append(out, c13LieVar{sim.LieTag, k, fmt.Sprintf("tag%d", k)})
	}
	return out
}()

func (a *c13Art) lieElems() int {
	if a.root != nil {
		return a.flat
	}
	return len(a.fields)
}

// c13LieVarsExtra is a second block of lie variants, enumerated AFTER the Byzantine-sender items so that
// the item indices of the first block (used by stored regression programs) stay stable: keep only the
// first N content octets of a primitive (a re-encoded field that keeps its recognisable prefix but is far
// shorter than the fixed offsets a consumer slices), and halve it.
const c13LieKeepN = 200

var c13LieVarsExtra = func() []c13LieVar {
	var out []c13LieVar
	for _, n := range []int{3, 4, 7, 8, 9, 12, 16, 20, 31, 32, 33, 40, 64, 65, 72, 100, 104} {
		out = append(out, c13LieVar{c13LieKeepN, n, fmt.Sprintf("keep%d", n)})
	}
	out = append(out, c13LieVar{c13LieKeepN, -2, "keephalf"}, c13LieVar{sim.LieGrow, 64, "grow64"}, c13LieVar{sim.LieGrow, 256, "grow256"})
	return out
}()

// c13LieVarsCompound is a third block (after the second, for the same reason): type confusion with a short
// content - a primitive element re-tagged as another universal type (the string, time and small scalar types that
// the first block's tag list leaves out) and, at the same time, cut to its first 0..3 content octets or kept.
// DER structures only (raw layouts have no tags).
const c13LieRetag = 300

var c13RetagTags = []byte{0x1e, 0x13, 0x16, 0x14, 0x1c, 0x0c, 0x17, 0x18, 0x01, 0x0a}

var c13LieVarsCompound = func() []c13LieVar {
	var out []c13LieVar
	for ti, tag := range c13RetagTags {
		for ci, cn := range []string{"", "+empty", "+keep1", "+keep2", "+keep3"} {
			out = append(out, c13LieVar{c13LieRetag, ti*8 + ci, fmt.Sprintf("retag%02x%s", tag, cn)})
		}
	}
	return out
}()

// c13LieVarsHostile is a fourth block: the VALUE of a string-like primitive (the universal string and time types and
// context-tagged primitives such as GeneralName alternatives: rfc822Name, dNSName, URI, iPAddress) replaced by a
// string from a fixed list of syntactically hostile values - dangling escapes and quotes, empty labels, lone
// separators, unbalanced brackets, control and high octets - re-encoded with consistent lengths. The text parsers
// behind the DER layer (mailbox, domain, URI, IP and time syntax) are consumers of hostile bytes like any other.
const c13LieContent = 400

var c13HostileStrings = []string{"\\", "\\@\\", "a\\", "abc\\", "a\\@b.c\\", "\"", "\"a", "\"a\\", "a@", "@", "@b", "a@b@", "a@[", ".", "..", "a..b", "*.", "*", ".a.", "%", "%zz", ":",
	"http://", "http://[", "http://[::1", "//", "a://b:c", "[::1", "\x00", "a\x00b", "\xff\xff\xff\xff", "\x80", " ", "\n", "990101000000", "9901010000Z", "19990101000000+", "-"}

// c13HostileOIDs: content octets of algorithm identifiers that exist but are rarely available (digests that are
// registered in crypto.Hash without an implementation linked in, retired digests), of the common ones (so that an
// element naming one algorithm names another), and malformed arcs.
var c13HostileOIDs = [][]byte{
	{0x2B, 0x24, 0x03, 0x02, 0x01},                                     // RIPEMD-160
	{0x60, 0x86, 0x48, 0x01, 0x65, 0x03, 0x04, 0x02, 0x08},             // SHA3-256
	{0x60, 0x86, 0x48, 0x01, 0x65, 0x03, 0x04, 0x02, 0x0A},             // SHA3-512
	{0x60, 0x86, 0x48, 0x01, 0x65, 0x03, 0x04, 0x02, 0x04},             // SHA-224
	{0x60, 0x86, 0x48, 0x01, 0x65, 0x03, 0x04, 0x02, 0x05},             // SHA-512/224
	{0x60, 0x86, 0x48, 0x01, 0x65, 0x03, 0x04, 0x02, 0x06},             // SHA-512/256
	{0x2A, 0x86, 0x48, 0x86, 0xF7, 0x0D, 0x02, 0x04},                   // MD4
	{0x2A, 0x86, 0x48, 0x86, 0xF7, 0x0D, 0x02, 0x05},                   // MD5
	{0x2A, 0x86, 0x48, 0x86, 0xF7, 0x0D, 0x02, 0x02},                   // MD2
	{0x2B, 0x0E, 0x03, 0x02, 0x1A},                                     // SHA-1
	{0x2B, 0x06, 0x01, 0x04, 0x01, 0x8D, 0x3A, 0x0C, 0x02, 0x01, 0x08}, // BLAKE2b-256
	{0x2A, 0x81, 0x1C, 0xCF, 0x55, 0x01, 0x83, 0x11},                   // SM3
	{0x60, 0x86, 0x48, 0x01, 0x65, 0x03, 0x04, 0x02, 0x01},             // SHA-256
	{0x60, 0x86, 0x48, 0x01, 0x65, 0x03, 0x04, 0x02, 0x03},             // SHA-512
	{0x2A, 0x86, 0x48, 0x86, 0xF7, 0x0D, 0x01, 0x01, 0x01},             // rsaEncryption
	{0x2A, 0x81, 0x1C, 0xCF, 0x55, 0x01, 0x82, 0x2D},                   // sm2 (1.2.156.10197.1.301)
	{0x80, 0x01}, // leading 0x80 in an arc
	{0x2A, 0xFF}, // truncated multi-octet arc
	{0xFF, 0xFF, 0xFF, 0xFF, 0xFF, 0xFF, 0xFF, 0xFF, 0xFF, 0x7F}, // arc beyond 64 bits
}

// c13HostileInts: content octets of extreme INTEGER values (2^63-1, 2^63, 2^64-1, 2^32-1, 2^31, 2^31-1, -1, -2^63, 2^16, 0,
// and a 33-octet value).
var c13HostileInts = [][]byte{
	{0x7f, 0xff, 0xff, 0xff, 0xff, 0xff, 0xff, 0xff},
	{0x00, 0x80, 0x00, 0x00, 0x00, 0x00, 0x00, 0x00, 0x00},
	{0x00, 0xff, 0xff, 0xff, 0xff, 0xff, 0xff, 0xff, 0xff},
	{0x00, 0xff, 0xff, 0xff, 0xff},
	{0x00, 0x80, 0x00, 0x00, 0x00},
	{0x7f, 0xff, 0xff, 0xff},
	{0xff},
	{0x80, 0x00, 0x00, 0x00, 0x00, 0x00, 0x00, 0x00},
	{0x01, 0x00, 0x00},
	{0x00},
	{0x01, 0, 0, 0, 0, 0, 0, 0, 0, 0, 0, 0, 0, 0, 0, 0, 0, 0, 0, 0, 0, 0, 0, 0, 0, 0, 0, 0, 0, 0, 0, 0, 0x01},
}

var c13LieVarsHostile = func() []c13LieVar {
	var out []c13LieVar
	for k := range c13HostileStrings {
		out = append(out, c13LieVar{c13LieContent, k, fmt.Sprintf("value:=%q", c13HostileStrings[k])})
	}
	return out
}()

func c13StringLike(t *sim.TLV) bool {
	if t.Children != nil || t.Tag&0x20 != 0 {
		return false
	}
	switch t.Tag {
	case 0x0c, 0x13, 0x14, 0x16, 0x1a, 0x1b, 0x1c, 0x1e, 0x17, 0x18, 0x12:
		return true
	}
	return t.Tag&0xc0 == 0x80
}

func (a *c13Art) lieItems() int {
	n := a.lieElems()*len(c13LieVars) + len(a.byz) + a.byzN + a.lieElems()*len(c13LieVarsExtra)
	if a.root != nil {
		n += a.lieElems() * (len(c13LieVarsCompound) + len(c13LieVarsHostile))
	}
	return n
}

// nextSibling returns the Flatten index of the next sibling of element idx (-1 if none).
func c13NextSibling(root *sim.TLV, idx int) int {
	flat := root.Flatten()
	if idx < 0 || idx >= len(flat) {
		return -1
	}
	target := flat[idx]
	for _, e := range flat {
		for i, kid := range e.Children {
			if kid == target && i+1 < len(e.Children) {
				for j, x := range flat {
					if x == e.Children[i+1] {
						return j
					}
				}
			}
		}
	}
	return -1
}

// lie returns the hostile input of lie item it (nil: not applicable / excluded / a no-op).
func (a *c13Art) lie(it int) ([]byte, string) {
	nv := len(c13LieVars)
	ne := a.lieElems()
	if it >= ne*nv {
		b := it - ne*nv
		if b >= 0 && b < len(a.byz) {
			return a.byz[b].in, "byzantine:" + a.byz[b].desc
		}
		b -= len(a.byz)
		if b >= a.byzN {
			// second block of element lies
			x := b - a.byzN
			nx := len(c13LieVarsExtra)
			if x < 0 {
				return nil, ""
			}
			if x >= ne*nx {
				// third block
				x -= ne * nx
				nc := len(c13LieVarsCompound)
				if a.root == nil {
					return nil, ""
				}
				if x >= ne*nc {
					// fourth block
					x -= ne * nc
					nh := len(c13LieVarsHostile)
					if x >= ne*nh {
						return nil, ""
					}
					return a.lieVariant(x/nh, c13LieVarsHostile[x%nh])
				}
				return a.lieVariant(x/nc, c13LieVarsCompound[x%nc])
			}
			return a.lieVariant(x/nx, c13LieVarsExtra[x%nx])
		}
		if b < 0 || a.byzAt == nil {
			return nil, ""
		}
		x := a.byzAt(b)
		if x.in == nil {
			return nil, ""
		}
		return x.in, "byzantine:" + x.desc
	}
	return a.lieVariant(it/nv, c13LieVars[it%nv])
}

// lieVariant applies lie variant v to element / field el.
func (a *c13Art) lieVariant(el int, v c13LieVar) ([]byte, string) {
	desc := fmt.Sprintf("elem %d %s", el, v.name)
	var out []byte
	if a.root != nil {
		if a.exclEl[el] {
			return nil, ""
		}
		if v.kind == sim.LieSwapNext {
			if nx := c13NextSibling(a.root, el); nx >= 0 && a.exclEl[nx] {
				return nil, ""
			}
		}
		var der []byte
		switch v.kind {
		case c13LieContent:
			c := a.root.Clone()
			t := c.Flatten()[el]
			if t.Children == nil && t.Tag == 0x06 {
				// an OBJECT IDENTIFIER names an algorithm: its VALUE is replaced by identifiers of algorithms a library may know by
				// name but not implement (or not have linked in), and by malformed arcs
				if v.k >= len(c13HostileOIDs) || bytes.Equal(t.Content, c13HostileOIDs[v.k]) {
					return nil, ""
				}
				t.Content = append([]byte{}, c13HostileOIDs[v.k]...)
				return c.Encode(), fmt.Sprintf("oid:=%x", c13HostileOIDs[v.k])
			}
			if t.Children == nil && t.Tag == 0x02 {
				// an INTEGER names a size, a count or a version: its VALUE is replaced by extreme ones (re-encoded with
				// consistent lengths; the cost parameters of password KDFs are excluded like everywhere else)
				if v.k >= len(c13HostileInts) || bytes.Equal(t.Content, c13HostileInts[v.k]) {
					return nil, ""
				}
				t.Content = append([]byte{}, c13HostileInts[v.k]...)
				return c.Encode(), fmt.Sprintf("int:=%x", c13HostileInts[v.k])
			}
			if !c13StringLike(t) {
				return nil, ""
			}
			t.Content = []byte(c13HostileStrings[v.k%len(c13HostileStrings)])
			der = c.Encode()
		case c13LieRetag:
			c := a.root.Clone()
			t := c.Flatten()[el]
			if t.Children != nil || t.Tag&0x20 != 0 {
				return nil, ""
			}
			tag := c13RetagTags[(v.k/8)%len(c13RetagTags)]
			if keep := v.k%8 - 1; keep >= 0 {
				if len(t.Content) < keep {
					return nil, ""
				}
				t.Content = t.Content[:keep]
			} else if tag == t.Tag {
				return nil, ""
			}
			t.Tag = tag
			der = c.Encode()
		case c13LieKeep1, c13LieKeep2, c13LieKeepN:
			keep := 1 + v.kind - c13LieKeep1
			if v.kind == c13LieKeepN {
				keep = v.k
				if keep == -2 {
					keep = len(a.root.Flatten()[el].Content) / 2
				}
			}
			c := a.root.Clone()
			t := c.Flatten()[el]
			if t.Children != nil || t.Tag&0x20 != 0 || len(t.Content) <= keep {
				return nil, ""
			}
			t.Content = t.Content[:keep]
			der = c.Encode()
		default:
			der = sim.ApplyLie(a.root, el, v.kind, v.k)
		}
		if der == nil || bytes.Equal(der, a.inner) {
			return nil, ""
		}
		if a.wrap != nil {
			out = a.wrap(der)
		} else {
			out = der
		}
	} else {
		kind, k := v.kind, v.k
		if kind == c13LieKeepN {
			if el < 0 || el >= len(a.fields) {
				return nil, ""
			}
			n := len(a.fields[el])
			if k == -2 {
				k = n / 2
			}
			if k >= n {
				return nil, ""
			}
			kind, k = sim.LieShrink, n-k
		}
		f := c13FieldLie(a.fields, el, kind, k)
		if f == nil {
			return nil, ""
		}
		if a.join != nil {
			out = a.join(f)
		} else {
			out = bytes.Join(f, nil)
		}
	}
	if out == nil || bytes.Equal(out, a.data) {
		return nil, ""
	}
	return out, desc
}

// c13FieldLie is the Byzantine producer for raw layouts (no tags, no lengths).
func c13FieldLie(fields [][]byte, idx, kind, k int) [][]byte {
	if idx < 0 || idx >= len(fields) {
		return nil
	}
	f := make([][]byte, len(fields))
	for i := range fields {
		f[i] = append([]byte{}, fields[i]...)
	}
	t := f[idx]
	switch kind {
	case sim.LieGrow:
		for i := 0; i < k; i++ {
			t = append(t, byte(0xA0+i))
		}
		f[idx] = t
	case sim.LieShrink:
		if len(t) == 0 {
			return nil
		}
		if k > len(t) {
			k = len(t)
		}
		f[idx] = t[:len(t)-k]
	case sim.LieEmpty:
		f[idx] = nil
	case sim.LieZero:
		if len(t) == 0 {
			return nil
		}
		f[idx] = make([]byte, len(t))
	case sim.LieDelete:
		f = append(f[:idx:idx], f[idx+1:]...)
	case sim.LieDuplicate:
		g := append([][]byte{}, f[:idx+1]...)
		g = append(g, append([]byte{}, t...))
		f = append(g, f[idx+1:]...)
	case sim.LieSwapNext:
		if idx+1 >= len(f) {
			return nil
		}
		f[idx], f[idx+1] = f[idx+1], f[idx]
	case c13LieKeep1, c13LieKeep2:
		keep := 1 + kind - c13LieKeep1
		if len(t) <= keep {
			return nil
		}
		f[idx] = t[:keep]
	case sim.LieTag:
		// no tags in a raw layout: the first octet (format / type octet) takes one of 10 values
		if len(t) == 0 {
			return nil
		}
		vals := []byte{0x00, 0x02, 0x03, 0x04, 0x05, 0x06, 0x07, 0x30, 0x80, 0xff}
		if t[0] == vals[k%len(vals)] {
			return nil
		}
		t[0] = vals[k%len(vals)]
	default:
		return nil
	}
	return f
}

// c13ToBER re-encodes a DER structure with indefinite lengths on every
// constructed element whose children the TLV reader could parse. split, if
// not nil, selects one primitive element that is emitted as a constructed,
// indefinite-length string of `chunks` OCTET STRING chunks (1 or 2).
func c13ToBER(der []byte, split func(root *sim.TLV) *sim.TLV, chunks int) []byte {
	root := sim.ParseAllTLV(der)
	if root == nil {
		return der
	}
	var sp *sim.TLV
	if split != nil {
		sp = split(root)
	}
	var enc func(t *sim.TLV) []byte
	enc = func(t *sim.TLV) []byte {
		if t == sp && t.Tag&0x20 == 0 && t.Children == nil && len(t.Content) >= 2 {
			h := len(t.Content) / 2
			if chunks < 2 {
				h = len(t.Content)
			}
			out := []byte{t.Tag | 0x20, 0x80}
			out = append(out, (&sim.TLV{Tag: 0x04, Content: t.Content[:h]}).Encode()...)
			if h < len(t.Content) {
				out = append(out, (&sim.TLV{Tag: 0x04, Content: t.Content[h:]}).Encode()...)
			}
			return append(out, 0, 0)
		}
		if t.Tag&0x20 != 0 && t.Children != nil {
			out := []byte{t.Tag, 0x80}
			for _, k := range t.Children {
				out = append(out, enc(k)...)
			}
			return append(out, 0, 0)
		}
		return t.Encode()
	}
	return enc(root)
}

// c13Long81 re-encodes a DER structure with the (non-DER, but legal BER)
// long length form 81 xx for every length below 128 and definite lengths
// otherwise.
func c13Long81(der []byte) []byte {
	root := sim.ParseAllTLV(der)
	if root == nil {
		return der
	}
	var enc func(t *sim.TLV) []byte
	enc = func(t *sim.TLV) []byte {
		var body []byte
		if t.Tag&0x20 != 0 && t.Children != nil {
			for _, k := range t.Children {
				body = append(body, enc(k)...)
			}
		} else {
			e := t.Encode()
			body = e[t2hdr(e):]
		}
		out := []byte{t.Tag}
		if len(body) > 0 && len(body) < 128 { // 81 00 is refused by the reader as "leading zero"
			out = append(out, 0x81, byte(len(body)))
		} else {
			out = append(out, derLenBytes(len(body))...)
		}
		return append(out, body...)
	}
	return enc(root)
}

// t2hdr returns the header length (tag + length octets) of a DER element.
func t2hdr(e []byte) int {
	if len(e) < 2 {
		return len(e)
	}
	if e[1]&0x80 == 0 {
		return 2
	}
	return 2 + int(e[1]&0x7f)
}

func c13Path(root *sim.TLV, path ...int) *sim.TLV {
	t := root
	for _, i := range path {
		if t == nil || i >= len(t.Children) {
			return nil
		}
		t = t.Children[i]
	}
	return t
}

func c13PEM(typ string) func(der []byte) []byte {
	return func(der []byte) []byte { return pem.EncodeToMemory(&pem.Block{Type: typ, Bytes: der}) }
}

// ---------------------------------------------------------------- fixtures

type c13Fixtures struct {
	root, inter, leaf, otherRoot *smx509.Certificate
	rootKey, interKey, leafKey   *sm2.PrivateKey
	otherKey, richKey, encKey    *sm2.PrivateKey
	rsa0                         *rsa.PrivateKey
	ecdsa0, ecdsa1               *ecdsa.PrivateKey
	rsa0DER, ecdsa0DER           []byte
	rsaCert, ecdsaCert           *smx509.Certificate // issued by the intermediate
	richCert, encCert            *smx509.Certificate
	rootPool, interPool          *smx509.CertPool

	sm9Once                     sync.Once
	sm9Err                      error
	sm9SignMaster               *sm9.SignMasterPrivateKey
	sm9EncMaster                *sm9.EncryptMasterPrivateKey
	sm9SignUser                 *sm9.SignPrivateKey
	sm9EncUser, sm9OtherEncUser *sm9.EncryptPrivateKey
}

var (
	c13FixOnce sync.Once
	c13Fix     *c13Fixtures
	c13FixErr  error
)

var c13UID = []byte("alice@verif.example")

const (
	c13HidSign = 0x01
	c13HidEnc  = 0x03
)

func c13PEMBytes(s string) []byte {
	b, _ := pem.Decode([]byte(s))
	if b == nil {
		return nil
	}
	return b.Bytes
}

func c13SM2Key(tag string) *sm2.PrivateKey {
	k, err := sm2.NewPrivateKey(scalarFrom([]byte("c13-fixture"), tag))
	if err != nil {
		panic(err)
	}
	return k
}

func c13Reader(tag string) *sim.ScriptReader {
	d := derive([]byte("c13-fixture-rand"), tag, 96)
	d[0] &= 0x7f
	return &sim.ScriptReader{Data: d, Fill: 11, Step: 7}
}

// c13GetFixtures parses / derives everything that does not depend on the run:
// the certificate chain, keys, and a few more certificates issued by the
// intermediate CA with a scripted random source (so they are identical in
// every process and do not consume the run's global random stream).
func c13GetFixtures() (*c13Fixtures, error) {
	c13FixOnce.Do(func() {
		fx := &c13Fixtures{}
		fail := func(what string, err error) { c13FixErr = fmt.Errorf("c13 fixtures: %s: %v", what, err) }
		var err error
		parseCert := func(p string) *smx509.Certificate {
			c, e := smx509.ParseCertificatePEM([]byte(p))
			if e != nil && err == nil {
				err = e
			}
			return c
		}
		fx.root, fx.inter, fx.leaf, fx.otherRoot = parseCert(fixtures.RootPEM), parseCert(fixtures.IntermediatePEM), parseCert(fixtures.LeafPEM), parseCert(fixtures.OtherRootPEM)
		if err != nil {
			fail("certificates", err)
			return
		}
		key := func(h string) *sm2.PrivateKey {
			b, _ := hex.DecodeString(h)
			k, e := sm2.NewPrivateKey(b)
			if e != nil && err == nil {
				err = e
			}
			return k
		}
		fx.rootKey, fx.interKey, fx.leafKey = key(fixtures.RootKeyHex), key(fixtures.IntermediateKeyHex), key(fixtures.LeafKeyHex)
		if err != nil {
			fail("keys", err)
			return
		}
		fx.otherKey, fx.richKey, fx.encKey = c13SM2Key("other"), c13SM2Key("rich"), c13SM2Key("enc")
		fx.rsa0DER, fx.ecdsa0DER = c13PEMBytes(fixtures.RSAKey0PEM), c13PEMBytes(fixtures.ECDSAKey0PEM)
		k, err := smx509.ParsePKCS8PrivateKey(fx.rsa0DER)
		if err != nil {
			fail("rsa key", err)
			return
		}
		fx.rsa0 = k.(*rsa.PrivateKey)
		if k, err = smx509.ParsePKCS8PrivateKey(fx.ecdsa0DER); err != nil {
			fail("ecdsa key 0", err)
			return
		}
		fx.ecdsa0 = k.(*ecdsa.PrivateKey)
		if k, err = smx509.ParsePKCS8PrivateKey(c13PEMBytes(fixtures.ECDSAKey1PEM)); err != nil {
			fail("ecdsa key 1", err)
			return
		}
		fx.ecdsa1 = k.(*ecdsa.PrivateKey)
		fx.rootPool, fx.interPool = smx509.NewCertPool(), smx509.NewCertPool()
		fx.rootPool.AddCert(fx.root)
		fx.interPool.AddCert(fx.inter)
		issue := func(tag string, serial int64, cn string, pub any, rich bool) *smx509.Certificate {
			tmpl := &x509.Certificate{
				SerialNumber: big.NewInt(serial),
				Subject:      pkix.Name{Organization: []string{"verif"}, CommonName: cn},
				NotBefore:    c13Now.AddDate(-5, 0, 0), NotAfter: c13Now.AddDate(20, 0, 0),
				KeyUsage:     x509.KeyUsageDigitalSignature | x509.KeyUsageKeyEncipherment | x509.KeyUsageDataEncipherment,
				SubjectKeyId: derive([]byte(tag), "ski", 20),
			}
			if rich {
				u, _ := url.Parse("https://verif.example/path?q=1")
				tmpl.Subject = pkix.Name{Country: []string{"CN"}, Province: []string{"ZJ"}, Locality: []string{"HZ"}, Organization: []string{"verif", "second"}, OrganizationalUnit: []string{"unit"}, CommonName: cn, SerialNumber: "42",
					ExtraNames: []pkix.AttributeTypeAndValue{{Type: asn1.ObjectIdentifier{1, 2, 840, 113549, 1, 9, 1}, Value: "x@verif.example"}}}
				tmpl.KeyUsage |= x509.KeyUsageCertSign | x509.KeyUsageCRLSign
				tmpl.ExtKeyUsage = []x509.ExtKeyUsage{x509.ExtKeyUsageServerAuth, x509.ExtKeyUsageClientAuth, x509.ExtKeyUsageEmailProtection}
				tmpl.UnknownExtKeyUsage = []asn1.ObjectIdentifier{{1, 2, 3, 4}}
				tmpl.BasicConstraintsValid, tmpl.IsCA, tmpl.MaxPathLen = true, true, 1
				tmpl.DNSNames = []string{"rich.verif.example", "*.w.verif.example"}
				tmpl.EmailAddresses = []string{"rich@verif.example"}
				tmpl.IPAddresses = []net.IP{net.IPv4(10, 1, 2, 3), net.ParseIP("2001:db8::1")}
				tmpl.URIs = []*url.URL{u}
				tmpl.OCSPServer = []string{"http://ocsp.verif.example"}
				tmpl.IssuingCertificateURL = []string{"http://ca.verif.example/ca.cer"}
				tmpl.CRLDistributionPoints = []string{"http://crl.verif.example/a.crl", "http://crl.verif.example/b.crl"}
				tmpl.PolicyIdentifiers = []asn1.ObjectIdentifier{{2, 5, 29, 32, 0}, {1, 2, 156, 10197, 1}}
				tmpl.PermittedDNSDomainsCritical = true
				tmpl.PermittedDNSDomains = []string{"verif.example"}
				tmpl.ExcludedDNSDomains = []string{"bad.verif.example"}
				_, n1, _ := net.ParseCIDR("10.0.0.0/8")
				_, n2, _ := net.ParseCIDR("192.168.0.0/16")
				tmpl.PermittedIPRanges = []*net.IPNet{n1}
				tmpl.ExcludedIPRanges = []*net.IPNet{n2}
				tmpl.PermittedEmailAddresses = []string{"verif.example"}
				tmpl.PermittedURIDomains = []string{".verif.example"}
				tmpl.ExtraExtensions = []pkix.Extension{{Id: asn1.ObjectIdentifier{1, 2, 3, 4, 5}, Critical: false, Value: []byte{0x04, 0x03, 1, 2, 3}}}
			}
			der, e := smx509.CreateCertificate(c13Reader(tag), tmpl, fx.inter, pub, fx.interKey)
			if e != nil {
				if err == nil {
					err = fmt.Errorf("issue %s: %v", tag, e)
				}
				return nil
			}
			c, e := smx509.ParseCertificate(der)
			if e != nil && err == nil {
				err = fmt.Errorf("parse issued %s: %v", tag, e)
			}
			return c
		}
		err = nil
		fx.rsaCert = issue("rsa", 101, "verif rsa", &fx.rsa0.PublicKey, false)
		fx.ecdsaCert = issue("ecdsa", 102, "verif ecdsa", &fx.ecdsa0.PublicKey, false)
		fx.richCert = issue("rich", 103, "verif rich", &fx.richKey.PublicKey, true)
		fx.encCert = issue("enc", 104, "verif enc", &fx.encKey.PublicKey, false)
		if err != nil {
			fail("issued certificates", err)
			return
		}
		c13Fix = fx
	})
	return c13Fix, c13FixErr
}

// sm9 returns the KGC and user keys (scripted random source: identical in every process).
func (fx *c13Fixtures) sm9() error {
	fx.sm9Once.Do(func() {
		seed := []byte("c13-sm9")
		var err error
		if fx.sm9SignMaster, err = sm9.GenerateSignMasterKey(&sim.ScriptReader{Data: scalarFrom(seed, "ks")}); err != nil {
			fx.sm9Err = err
			return
		}
		if fx.sm9EncMaster, err = sm9.GenerateEncryptMasterKey(&sim.ScriptReader{Data: scalarFrom(seed, "ke")}); err != nil {
			fx.sm9Err = err
			return
		}
		if fx.sm9SignUser, err = fx.sm9SignMaster.GenerateUserKey(c13UID, c13HidSign); err != nil {
			fx.sm9Err = err
			return
		}
		if fx.sm9EncUser, err = fx.sm9EncMaster.GenerateUserKey(c13UID, c13HidEnc); err != nil {
			fx.sm9Err = err
			return
		}
		if fx.sm9OtherEncUser, err = fx.sm9EncMaster.GenerateUserKey([]byte("bob"), c13HidEnc); err != nil {
			fx.sm9Err = err
			return
		}
	})
	return fx.sm9Err
}

var errC13 = errors.New("c13")
