package props

import (
	"bytes"
	"crypto/ecdsa"
	"crypto/rand"
	"crypto/x509"
	"crypto/x509/pkix"
	"encoding/asn1"
	"fmt"
	"io"
	"math/big"
	"runtime/debug"
	"testing"
	"testing/synctest"
	"time"

	"github.com/emmansun/gmsm/smx509"
	"github.com/emmansun/gmsm/verifhook"

	"verif/harness/model/sm2m"
	"verif/harness/sim"
)

const c15MaxCerts = 14
const c15MaxSleep = 24 * time.Hour

// c15Obj is any DER object that travelled from its producer to a verifier.
type c15Obj struct {
	kind   string // cert | csr | cfca | crl
	der    []byte
	issuer *c15Cert // verifying certificate for cert / crl
	gated  bool     // issuer qualifies for the gated check (CheckSignatureFrom); otherwise only the raw CheckSignature path applies
	reg    c15Regions
	tbs    []byte // the original decoded triple
	alg    x509.SignatureAlgorithm
	sig    []byte
	oid    asn1.ObjectIdentifier // crl1: the outer algorithm of the original as the deprecated parser reads it
	legacy bool                  // crl1: the last probe was accepted through the deprecated parser / check pair only
}

type c15Run struct {
	p     *sim.Program
	c     *sim.Ctx
	seed  []byte
	keys  map[string]*c15Key
	certs []*c15Cert
	byRaw map[string]*c15Cert
	objs  []*c15Obj
	epoch time.Time
	slept time.Duration
	nrd   int
	check int // checking ops executed
}

func execC15(t *testing.T, p *sim.Program, c *sim.Ctx) {
	var pan any
	var stack string
	verifhook.SetMaybeReadDecider(func() bool { return false })
	defer verifhook.SetMaybeReadDecider(nil)
	synctest.Test(t, func(t *testing.T) {
		defer func() {
			if r := recover(); r != nil {
				pan = r
				stack = string(debug.Stack())
			}
		}()
		execC15Bubble(p, c)
	})
	if pan != nil {
		if len(stack) > 1500 {
			stack = stack[:1500]
		}
		kind := "?"
		if c.OpsDone-1 >= 0 && c.OpsDone-1 < len(p.Ops) {
			kind = p.Ops[c.OpsDone-1].K
		}
		c.V = nil
		c.Fail("panic", c.OpsDone-1, kind, "panic: %v\n%s", pan, stack)
	}
}

func execC15Bubble(p *sim.Program, c *sim.Ctx) {
	r := &c15Run{p: p, c: c, seed: fitKey(p.CB("seed"), 32), keys: map[string]*c15Key{}, byRaw: map[string]*c15Cert{}, epoch: time.Now()}
	defer func() { c.SimNS += int64(r.slept) }()
	for i, op := range p.Ops {
		if c.Failed() {
			return
		}
		c.OpsDone++
		switch op.K {
		case "cert":
			r.opCert(i, op)
		case "clock", "sleep":
			r.opClock(i, op)
		case "verify":
			r.opVerify(i, op)
		case "chk":
			r.opChk(i, op)
		case "csr":
			r.opCSR(i, op)
		case "crl":
			r.opCRL(i, op)
		case "crl1":
			r.opCRL1(i, op)
		case "sig":
			r.opSig(i, op)
		case "ipnc":
			r.opIPNC(i, op)
		case "alter", "alterall", "trunc":
			r.opFault(i, op)
		}
	}
	if len(r.objs) > 0 && r.check > 0 {
		c.Nontriv = true
	}
}

func c15Mod(x, n int) int {
	if n <= 0 {
		return 0
	}
	return ((x % n) + n) % n
}

func c15Clamp(x, lo, hi int) int {
	if x < lo {
		return lo
	}
	if x > hi {
		return hi
	}
	return x
}

func (r *c15Run) key(typ, idx int) (*c15Key, error) {
	probe, err := c15MakeKeyID(typ, idx)
	if err == nil {
		if k := r.keys[probe]; k != nil {
			return k, nil
		}
	}
	k, err := c15MakeKey(r.seed, typ, idx)
	if err != nil {
		return nil, err
	}
	r.keys[k.id] = k
	return k, nil
}

func c15MakeKeyID(typ, idx int) (string, error) {
	typ = c15Mod(typ, c15KeyTypes)
	idx = c15Mod(idx, 4)
	if typ == c15RSA1024 || typ == c15RSA2048 {
		idx = 0
	}
	return fmt.Sprintf("%s/%d", c15KeyNames[typ], idx), nil
}

// randomness handed to the library's create functions: the (seeded) global source or a scripted reader
func (r *c15Run) rnd(mode int) io.Reader {
	if mode&1 == 0 {
		return rand.Reader
	}
	r.nrd++
	d := derive(r.seed, fmt.Sprintf("c15rd%d", r.nrd), 96)
	return &sim.ScriptReader{Data: d, Fill: d[1], Step: 7}
}

var c15KUTable = []x509.KeyUsage{0, x509.KeyUsageCertSign | x509.KeyUsageCRLSign, x509.KeyUsageDigitalSignature, x509.KeyUsageCertSign,
	x509.KeyUsageCRLSign | x509.KeyUsageDigitalSignature, x509.KeyUsageDigitalSignature | x509.KeyUsageKeyEncipherment | x509.KeyUsageCertSign | x509.KeyUsageCRLSign, x509.KeyUsageKeyEncipherment | x509.KeyUsageDataEncipherment}
var c15EKUTable = [][]x509.ExtKeyUsage{nil, {x509.ExtKeyUsageServerAuth}, {x509.ExtKeyUsageClientAuth}, {x509.ExtKeyUsageServerAuth, x509.ExtKeyUsageClientAuth}, {x509.ExtKeyUsageAny}, {x509.ExtKeyUsageCodeSigning}}

// sm2ModelCheck verifies an SM2-SM3 signature over the signed portion of der
// with the harness' own SM2 implementation (ZA with the default user id).
func (r *c15Run) sm2ModelCheck(i int, kind string, der []byte, signer *c15Key) bool {
	pub, ok := signer.pub.(*ecdsa.PublicKey)
	reg := c15Locate(der)
	if !ok || !reg.ok {
		return true
	}
	pt := sm2m.Point{X: pub.X, Y: pub.Y}
	e := sm2m.DigestE(sm2m.ZA(sm2m.DefaultUID, pt), der[reg.tbs[0]:reg.tbs[1]])
	r.c.Hit("probe:sm2-model-verify")
	if !sm2m.VerifyASN1Model(pt, e[:], der[reg.sig[0]:reg.sig[1]]) {
		r.c.Fail("sm2-signature-not-standard", i, kind, "the SM2-SM3 signature of the issued %s does not verify with the model (e = SM3(ZA(default id, signer key) || signed bytes), GB/T 32918.2 7.1)", kind)
		return false
	}
	return true
}

// opCert: a CA node issues a certificate for a subscriber key.
func (r *c15Run) opCert(i int, op sim.Op) {
	c := r.c
	if len(r.certs) >= c15MaxCerts {
		return
	}
	m := &c15Cert{idx: len(r.certs)}
	var err error
	// subject: own name and key, or both copied from an existing certificate (cross-signing)
	copyOf := op.Int(11)
	if copyOf > 0 && len(r.certs) > 0 {
		src := r.certs[c15Mod(copyOf-1, len(r.certs))]
		m.cn, m.key = src.cn, src.key
	} else {
		copyOf = 0
		m.cn = c15CleanCN(op.Str(0))
		if m.key, err = r.key(op.Int(1), op.Int(2)); err != nil {
			c.Fail("setup", i, op.K, "key: %v", err)
			return
		}
	}
	// issuer
	var parent *c15Cert
	if op.Int(0) >= 0 && len(r.certs) > 0 {
		parent = r.certs[c15Mod(op.Int(0), len(r.certs))]
		m.signer, m.issuerCN = parent.key, parent.cn
	} else {
		m.signer, m.issuerCN = m.key, m.cn
	}
	now := time.Now().UTC().Truncate(time.Second)
	m.nb = now.Add(time.Duration(c15Clamp(op.Int(3), -600000, 600000)) * time.Hour)
	m.na = now.Add(time.Duration(c15Clamp(op.Int(4), -600000, 600000)) * time.Hour)
	m.bc = op.Int(5)&1 == 1
	tmplCA := op.Int(6)&1 == 1
	m.ca = m.bc && tmplCA
	pathSel := c15Mod(op.Int(7), 4) // 0 none, 1 -> 0, 2 -> 1, 3 -> 2
	m.pathLen = -1
	m.ku = c15KUTable[c15Mod(op.Int(8), len(c15KUTable))]
	m.eku = c15EKUTable[c15Mod(op.Int(9), len(c15EKUTable))]
	m.dns = c15CleanNames(op.Str(1), false)
	m.permitted = c15CleanNames(op.Str(2), true)
	m.excluded = c15CleanNames(op.Str(3), true)
	algTmpl, algWant, sha1, refuse := c15SigAlg(m.signer.typ, op.Int(10))
	m.sha1 = sha1
	serial := op.Int(12)

	t := &smx509.Certificate{}
	t.Subject = pkix.Name{CommonName: m.cn, Organization: []string{"verif"}}
	t.SerialNumber = big.NewInt(int64(serial))
	t.NotBefore, t.NotAfter = m.nb, m.na
	t.BasicConstraintsValid, t.IsCA = m.bc, tmplCA
	t.MaxPathLen = -1
	pathRefused := false
	if pathSel > 0 {
		t.MaxPathLen = pathSel - 1
		t.MaxPathLenZero = pathSel == 1
		if m.bc && m.ca {
			m.pathLen = pathSel - 1
		} else if m.bc {
			pathRefused = true // "only CAs are allowed to specify MaxPathLen"
		}
	}
	t.KeyUsage = m.ku
	t.ExtKeyUsage = m.eku
	t.DNSNames = m.dns
	t.PermittedDNSDomains, t.ExcludedDNSDomains = m.permitted, m.excluded
	t.PermittedDNSDomainsCritical = op.Int(13)&1 == 1
	t.SignatureAlgorithm = algTmpl
	if serial < 0 {
		refuse = true
	}
	if m.signer.typ == c15RSA1024 && algTmpl == x509.SHA512WithRSAPSS {
		refuse = true // 2*64+2 bytes do not fit a 1024-bit modulus
	}
	c.Abs("cert", c15KeyNames[m.key.typ], c15KeyNames[m.signer.typ], parent == nil, copyOf > 0, m.bc, m.ca, m.pathLen, int(m.ku), len(m.eku), len(m.dns), len(m.permitted), len(m.excluded), int(algTmpl),
		m.nb.After(now), m.na.Before(now), !m.na.After(m.nb))

	var parentArg any = t.ToX509()
	if parent != nil {
		parentArg = parent.x
		if op.Int(14)&2 == 2 {
			parentArg = parent.x.ToX509()
		}
	}
	der, err := smx509.CreateCertificate(r.rnd(op.Int(14)), t.ToX509(), parentArg, m.key.pub, m.signer.signer)
	c.OutErr("create", err)
	if err != nil {
		if refuse || pathRefused {
			c.Hit("probe:unsupported-combination-refused")
			return
		}
		c.Fail("create-refused", i, op.K, "CreateCertificate refused a supported template (subject key %s, signer key %s, algorithm %v): %v", m.key.id, m.signer.id, algTmpl, err)
		return
	}
	c.Out("cert", der)
	if refuse {
		// not demanded by the property: note it and go on with what the library produced
		c.Hit("probe:unexpected-combination-issued")
	}
	// ---- the subscriber / verifier parses what the CA sent
	x, err := smx509.ParseCertificate(der)
	if err != nil {
		c.Fail("issued-object-unparsable", i, op.K, "a certificate the library just issued does not parse: %v", err)
		return
	}
	m.der, m.x = der, x
	bad := func(field string, got, want any) {
		c.Fail("roundtrip-mismatch", i, op.K, "certificate field %s parses back as %v, the template said %v", field, got, want)
	}
	switch {
	case x.Version != 3:
		bad("Version", x.Version, 3)
	case x.Subject.CommonName != m.cn:
		bad("Subject.CommonName", x.Subject.CommonName, m.cn)
	case x.Issuer.CommonName != m.issuerCN:
		bad("Issuer.CommonName", x.Issuer.CommonName, m.issuerCN)
	case x.SerialNumber == nil || x.SerialNumber.Cmp(big.NewInt(int64(serial))) != 0:
		bad("SerialNumber", x.SerialNumber, serial)
	case !x.NotBefore.Equal(m.nb):
		bad("NotBefore", x.NotBefore, m.nb)
	case !x.NotAfter.Equal(m.na):
		bad("NotAfter", x.NotAfter, m.na)
	case x.BasicConstraintsValid != m.bc:
		bad("BasicConstraintsValid", x.BasicConstraintsValid, m.bc)
	case x.IsCA != m.ca:
		bad("IsCA", x.IsCA, m.ca)
	case m.bc && x.MaxPathLen != m.pathLen:
		bad("MaxPathLen", x.MaxPathLen, m.pathLen)
	case m.bc && x.MaxPathLenZero != (m.pathLen == 0):
		bad("MaxPathLenZero", x.MaxPathLenZero, m.pathLen == 0)
	case x.KeyUsage != m.ku:
		bad("KeyUsage", int(x.KeyUsage), int(m.ku))
	case fmt.Sprint(x.ExtKeyUsage) != fmt.Sprint(m.eku) && !(len(x.ExtKeyUsage) == 0 && len(m.eku) == 0):
		bad("ExtKeyUsage", x.ExtKeyUsage, m.eku)
	case !c15SameStrings(x.DNSNames, m.dns):
		bad("DNSNames", x.DNSNames, m.dns)
	case !c15SameStrings(x.PermittedDNSDomains, m.permitted):
		bad("PermittedDNSDomains", x.PermittedDNSDomains, m.permitted)
	case !c15SameStrings(x.ExcludedDNSDomains, m.excluded):
		bad("ExcludedDNSDomains", x.ExcludedDNSDomains, m.excluded)
	case !c15PubEqual(m.key.pub, x.PublicKey):
		bad("PublicKey", fmt.Sprintf("%T", x.PublicKey), m.key.id)
	case !refuse && x.SignatureAlgorithm != algWant:
		bad("SignatureAlgorithm", x.SignatureAlgorithm, algWant)
	case len(x.UnhandledCriticalExtensions) != 0:
		bad("UnhandledCriticalExtensions", x.UnhandledCriticalExtensions, "none")
	case !bytes.Equal(x.Raw, der):
		bad("Raw", len(x.Raw), len(der))
	}
	if c.Failed() {
		return
	}
	// ---- signature under the issuer key, fault-free
	issuer := parent
	if issuer == nil {
		issuer = m // self-signed: the key inside
	}
	// (one path here - the gated one whenever the issuer qualifies; "chk" ops exercise both paths on arbitrary pairs)
	gated := issuer.canSignCerts() && !m.sha1
	if gated {
		if err := x.CheckSignatureFrom(issuer.x); err != nil {
			c.Fail("honest-signature-rejected", i, op.K, "CheckSignatureFrom of the issued certificate under its issuer (CA with keyCertSign, key %s, %v) fails: %v", m.signer.id, x.SignatureAlgorithm, err)
			return
		}
	} else if err := issuer.x.CheckSignature(x.SignatureAlgorithm, x.RawTBSCertificate, x.Signature); err != nil {
		c.Fail("honest-signature-rejected", i, op.K, "the signature of the issued certificate (signer key %s, %v) does not verify under the issuer's public key (CheckSignature): %v", m.signer.id, x.SignatureAlgorithm, err)
		return
	}
	if x.SignatureAlgorithm == smx509.SM2WithSM3 && op.Int(15)&1 == 1 {
		if !r.sm2ModelCheck(i, op.K, der, m.signer) {
			return
		}
	}
	reg := c15Locate(der)
	if !reg.ok || !bytes.Equal(der[reg.tbs[0]:reg.tbs[1]], x.RawTBSCertificate) {
		c.Fail("der-layout", i, op.K, "the harness' TLV reader and the library disagree on the signed portion of the certificate")
		return
	}
	if prev := r.byRaw[string(der)]; prev == nil {
		r.byRaw[string(der)] = m
	}
	r.certs = append(r.certs, m)
	r.objs = append(r.objs, &c15Obj{kind: "cert", der: der, issuer: issuer, gated: gated, reg: reg, tbs: x.RawTBSCertificate, alg: x.SignatureAlgorithm, sig: x.Signature})
	c.Hit("probe:issued-" + c15KeyNames[m.signer.typ])
}

var c15Deltas = []time.Duration{-time.Second, -time.Nanosecond, 0, time.Nanosecond, time.Second, -time.Hour - time.Second, time.Hour + time.Second, -30 * time.Minute, 500 * time.Millisecond}

func (r *c15Run) boundary(cert, which, delta int) (time.Time, bool) {
	if len(r.certs) == 0 {
		return time.Time{}, false
	}
	m := r.certs[c15Mod(cert, len(r.certs))]
	b := m.nb
	if which&1 == 1 {
		b = m.na
	}
	return b.Add(c15Deltas[c15Mod(delta, len(c15Deltas))]), true
}

// opClock: the simulator advances the fake clock (never backwards).
func (r *c15Run) opClock(i int, op sim.Op) {
	var d time.Duration
	if op.K == "sleep" {
		d = time.Duration(c15Clamp(op.Int(0), 0, 48))*time.Hour + time.Duration(c15Clamp(op.Int(1), 0, 999_999_999))
	} else {
		target, ok := r.boundary(op.Int(0), op.Int(1), op.Int(2))
		if !ok {
			return
		}
		d = target.Sub(time.Now())
	}
	// total simulated time per run is bounded (the driver adds the nanoseconds of all runs into one int64)
	if d <= 0 || r.slept+d > c15MaxSleep {
		r.c.Abs("clk-skip")
		return
	}
	r.c.Abs("clk", op.K, c15Mod(op.Int(1), 2), c15Mod(op.Int(2), len(c15Deltas)))
	time.Sleep(d)
	r.slept += d
	r.c.Hit("fault:clock-advance")
}
