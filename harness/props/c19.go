package props

import (
	"bytes"
	"crypto/aes"
	"crypto/cipher"
	"crypto/des"
	"hash"
	"testing"

	"github.com/emmansun/gmsm/cbcmac"
	"github.com/emmansun/gmsm/padding"
	"github.com/emmansun/gmsm/sm4"

	"verif/harness/model/macm"
	"verif/harness/model/sm4m"
	"verif/harness/sim"
)

// C19: block-cipher MAC objects used over histories: several messages on one
// object, streaming writes whose splits the simulated pipe decides, Sum
// interleavings, reset / abandon-and-reuse, against the GB/T 15852.1 models.

func init() {
	selfTests("C19", sm4m.SelfTest, func() error { return macm.SelfTest(sm4m.NewCipher) })
	register(&Prop{
		ID:        "C19",
		Level:     "exploration",
		Nodes:     func(tier string) []string { return []string{"avx2", "noaes", "purego"} },
		Cross:     true,
		Gen:       genC19,
		Exec:      execC19,
		QuickSecs: 20, ThoroughSecs: 600, RunsPerJob: 2000,
		Rule: "a run fixes (construction, cipher, tag size, padding, keys) and plays a history over one long-lived MAC object: mac(msg, spare capacity), and for CMAC write(chunk)/sum/sum-append/reset/abandon, size(), replace-by-fresh-object, single-bit-difference pairs in the last block; " +
			"abstract history = (construction, cipher, size class, padding) + sequence of (op kind, message length class mod block size, buffered-state class); non-trivial = at least 2 ops; distinct = distinct abstract histories",
		Real:  []string{"cbcmac (all eight constructions)", "padding (methods 2, 3, PKCS#7 as used by the constructions)", "sm4 block (asm / generic per node); crypto/aes and crypto/des from the Go standard library as 16- and 8-byte blocks"},
		Stubs: []string{"simulated pipe deciding Write chunking", "restart = abandoning a message mid-stream and reusing the object"},
		Assume: []string{"model constructions (harness/model/macm) anchored on RFC 4493, SP 800-38B TDEA and the GB/T 15852.1 appendix vectors at worker start-up",
			"LMAC is exercised only with key length = block length (the derivation for other key lengths could not be settled offline)",
			"CBCR on the empty message is checked for history independence only (repository vector #0 and the rotate definition with 10* padding disagree; unsettled offline)"},
	})
}

var c19Constructions = []string{"cbcmac", "emac", "ansi", "macdes", "cmac", "lmac", "trcbc", "cbcr"}
var c19Ciphers = []string{"sm4", "aes128", "des", "3des", "aes256"}

func c19Block(ci string) (lib macm.NewBlock, model macm.NewBlock, keyLen, bs int) {
	switch ci {
	case "sm4":
		return sm4.NewCipher, sm4m.NewCipher, 16, 16
	case "aes128":
		return aes.NewCipher, aes.NewCipher, 16, 16
	case "aes256":
		return aes.NewCipher, aes.NewCipher, 32, 16
	case "des":
		return des.NewCipher, des.NewCipher, 8, 8
	default:
		return des.NewTripleDESCipher, des.NewTripleDESCipher, 24, 8
	}
}

func genC19(r *sim.Rand, tier string) *sim.Program {
	p := &sim.Program{Prop: "C19"}
	con := r.Intn(len(c19Constructions))
	ci := r.Weighted(6, 2, 2, 1, 1)
	if c19Constructions[con] == "lmac" && (ci == 3 || ci == 4) {
		ci = r.PickInt(0, 1, 2)
	}
	_, _, kl, bs := c19Block(c19Ciphers[ci])
	p.SetC("con", con)
	p.SetC("cipher", ci)
	size := bs
	if r.Chance(1, 2) {
		size = r.Range(1, bs)
	}
	p.SetC("size", size)
	p.SetC("pad", r.PickInt(0, 0, 2, 3, 7)) // 0 = constructor default
	p.SetCB("k1", r.Bytes(kl))
	p.SetCB("k2", r.Bytes(kl))
	nops := r.Range(2, 14)
	isCmac := c19Constructions[con] == "cmac"
	nest := !isCmac && r.Chance(1, 6)
	if nest {
		p.SetC("nest", 1) // the object is built over a block whose Encrypt can re-enter the object (overlapping MAC calls)
	}
	bigMsgs := r.Chance(1, 40)
	msgLen := func() int {
		if bigMsgs && r.Chance(1, 2) {
			return r.Range(8*bs, 160*bs)
		}
		return r.Near(6*bs+3, 0, 1, bs-1, bs, bs+1, 2*bs-1, 2*bs, 2*bs+1, 3*bs, 4*bs+bs/2)
	}
	for i := 0; i < nops; i++ {
		var k string
		if isCmac {
			k = r.PickStr("mac", "write", "write", "write", "sum", "sumapp", "reset", "fresh", "bitpair", "size", "stream")
		} else {
			k = r.PickStr("mac", "mac", "mac", "bitpair", "size", "fresh")
			if nest && r.Chance(1, 2) {
				k = "nestmac"
			}
		}
		switch k {
		case "mac":
			p.Add("mac", r.PickInt(0, 0, 1, bs, 2*bs, 64)).WithB(r.Bytes(msgLen()))
		case "nestmac":
			// MAC(m1) is interrupted at its k-th block encryption by a complete MAC(m2) on the SAME object
			p.Add("nestmac", r.PickInt(0, 1, 1, 2, 3, r.Intn(12))).WithB(r.Bytes(msgLen()), r.Bytes(msgLen()))
		case "stream":
			// one message delivered through the simulated pipe in chunks, then Sum
			m := r.Bytes(msgLen())
			op := p.Add("stream")
			op.WithB(m)
			for rem := len(m); rem > 0; {
				n := r.PickInt(1, 1, bs-1, bs, bs+1, 2*bs, rem)
				if n > rem {
					n = rem
				}
				op.I = append(op.I, int64(n))
				rem -= n
			}
		case "write":
			p.Add("write").WithB(r.Bytes(r.Near(3*bs+2, 0, 1, bs-1, bs, bs+1, 2*bs)))
		case "bitpair":
			n := msgLen()
			if n == 0 {
				n = 1
			}
			lastStart := (n - 1) / bs * bs
			bit := r.Intn((n - lastStart) * 8)
			if r.Chance(1, 3) {
				bit = 0 // the top bit of the final block
			}
			p.Add("bitpair", lastStart*8+bit).WithB(r.Bytes(n))
		default:
			p.Add(k)
		}
	}
	return p
}

type c19Obj struct {
	mac  cbcmac.BlockCipherMAC
	h    hash.Hash // CMAC only
	con  string
	size int
}

func c19PadFunc(pad int) padding.NewPaddingFunc {
	switch pad {
	case 2:
		return padding.NewISO9797M2Padding
	case 3:
		return padding.NewISO9797M3Padding
	case 7:
		return padding.NewPKCS7Padding
	}
	return nil
}

func c19New(con string, nb macm.NewBlock, k1, k2 []byte, size, pad int) (o *c19Obj, err error) {
	o = &c19Obj{con: con, size: size}
	pf := c19PadFunc(pad)
	var b cipher.Block
	if con == "cbcmac" || con == "cmac" || con == "trcbc" || con == "cbcr" {
		if b, err = nb(k1); err != nil {
			return nil, err
		}
	}
	switch con {
	case "cbcmac":
		if pf != nil {
			o.mac = cbcmac.NewCBCMACWithPadding(b, size, pf)
		} else {
			o.mac = cbcmac.NewCBCMAC(b, size)
		}
	case "emac":
		if pf != nil {
			o.mac = cbcmac.NewEMACWithPadding(nb, k1, k2, size, pf)
		} else {
			o.mac = cbcmac.NewEMAC(nb, k1, k2, size)
		}
	case "ansi":
		if pf != nil {
			o.mac = cbcmac.NewANSIRetailMACWithPadding(nb, k1, k2, size, pf)
		} else {
			o.mac = cbcmac.NewANSIRetailMAC(nb, k1, k2, size)
		}
	case "macdes":
		if pf != nil {
			o.mac = cbcmac.NewMACDESWithPadding(nb, k1, k2, size, pf)
		} else {
			o.mac = cbcmac.NewMACDES(nb, k1, k2, size)
		}
	case "cmac":
		cm := cbcmac.NewCMAC(b, size)
		o.mac = cm
		o.h = cm
	case "lmac":
		if pf != nil {
			o.mac = cbcmac.NewLMACWithPadding(nb, k1, size, pf)
		} else {
			o.mac = cbcmac.NewLMAC(nb, k1, size)
		}
	case "trcbc":
		o.mac = cbcmac.NewTRCBCMAC(b, size)
	case "cbcr":
		o.mac = cbcmac.NewCBCRMAC(b, size)
	}
	return o, nil
}

func c19Model(con string, nb macm.NewBlock, k1, k2 []byte, size, pad int, msg []byte) ([]byte, error) {
	if pad == 0 {
		pad = macm.PadM2
	}
	switch con {
	case "cbcmac":
		return macm.CBCMAC(nb, k1, pad, size, msg)
	case "emac":
		return macm.EMAC(nb, k1, k2, pad, size, msg)
	case "ansi":
		return macm.ANSIRetailMAC(nb, k1, k2, pad, size, msg)
	case "macdes":
		return macm.MACDES(nb, k1, k2, pad, size, msg)
	case "cmac":
		return macm.CMAC(nb, k1, size, msg)
	case "lmac":
		return macm.LMAC(nb, k1, pad, size, msg)
	case "trcbc":
		return macm.TRCBCMAC(nb, k1, size, msg)
	}
	return macm.CBCRMAC(nb, k1, size, msg)
}

func execC19(t *testing.T, p *sim.Program, c *sim.Ctx) {
	con := c19Constructions[((p.C("con")%8)+8)%8]
	ci := c19Ciphers[((p.C("cipher")%5)+5)%5]
	lib, model, kl, bs := c19Block(ci)
	size, pad := p.C("size"), p.C("pad")
	if size < 1 || size > bs {
		size = bs
	}
	if pad != 2 && pad != 3 && pad != 7 {
		pad = 0
	}
	if con == "lmac" && kl != bs {
		return // unsettled derivation; not explored
	}
	k1, k2 := fitKey(p.CB("k1"), kl), fitKey(p.CB("k2"), kl)
	if len(p.Ops) >= 2 {
		c.Nontriv = true
	}
	c.Abs(con, ci, size == bs, pad)
	hook := &c19Hook{}
	if p.C("nest") == 1 && con != "cmac" {
		inner := lib
		lib = func(key []byte) (cipher.Block, error) {
			b, err := inner(key)
			if err != nil {
				return nil, err
			}
			return &c19HookBlock{Block: b, h: hook}, nil
		}
	}
	obj, err := c19New(con, lib, k1, k2, size, pad)
	if err != nil {
		c.Fail("setup", -1, "setup", "constructor: %v", err)
		return
	}
	var streamed []byte // CMAC: bytes written since the last reset
	want := func(msg []byte) []byte {
		w, err := c19Model(con, model, k1, k2, size, pad, msg)
		if err != nil {
			c.Fail("model-error", -1, "model", "model: %v", err)
		}
		return w
	}
	// compare one tag with the model, applying the known-finding predicates
	check := func(i int, kind string, msg, got []byte) {
		c.Out(kind, got)
		if len(got) != size {
			c.Fail("tag-length", i, kind, "%s/%s: tag has %d bytes, requested size %d", con, ci, len(got), size)
			return
		}
		if con == "cbcr" && len(msg) == 0 {
			return // unsettled (see Assume); history independence is still enforced by the trace digest of repeated ops
		}
		w := want(msg)
		if c.Failed() || bytes.Equal(got, w) {
			return
		}
		if con == "cbcr" && len(msg)%bs != 0 {
			if d, err := macm.CBCRMACDefect(model, k1, size, msg); err == nil && bytes.Equal(got, d) {
				c.KnownOrFail("cbcr-left-shift", "tag-mismatch", i, kind, "cbcr/%s len %d: tag %x equals the shift-left variant, definition (rotate) gives %x", ci, len(msg), got, w)
				return
			}
		}
		c.Fail("tag-mismatch", i, kind, "%s/%s size %d pad %d len %d: tag %x, model %x", con, ci, size, pad, len(msg), got, w)
	}
	for i, op := range p.Ops {
		if c.Failed() {
			return
		}
		c.OpsDone++
		switch op.K {
		case "mac":
			msg := op.Bytes(0)
			spare := op.Int(0)
			if spare < 0 {
				spare = 0
			}
			c.Abs("m", sim.LenClass(len(msg), bs), spare > 0, bufClassN(len(streamed), bs))
			// the caller's slice: exact copy with `spare` bytes of capacity behind it, canary filled
			cn := sim.NewCanary(len(msg), 8, spare+8, 0xC5)
			copy(cn.Buf, msg)
			arg := cn.WithSpare(spare)
			got := obj.mac.MAC(arg)
			if !bytes.Equal(cn.Buf, msg) {
				c.Fail("message-modified", i, op.K, "%s/%s pad %d: MAC modified the caller's message bytes (len %d, spare capacity %d)", con, ci, pad, len(msg), spare)
				return
			}
			if ok, off := cn.Intact(len(msg) + spare); !ok {
				c.Fail("out-of-slice-write", i, op.K, "%s/%s: write outside the slice capacity at offset %d", con, ci, off)
				return
			}
			check(i, op.K, msg, got)
			streamed = append(streamed[:0], msg...) // CMAC.MAC() is Reset+Write+Sum: the message stays absorbed
		case "nestmac":
			// Two MAC calls on one object that overlap in time, made deterministic: the block cipher under the object
			// calls back into the harness at the k-th block encryption of MAC(m1), and the harness runs MAC(m2) on the same
			// object to completion there. The tag depends only on (key, message): both must be the model's.
			// CMAC is a running hash.Hash (single-user by design) and is not interleaved.
			m1, m2 := op.Bytes(0), op.Bytes(1)
			k := op.Int(0)
			if k < 0 {
				k = 0
			}
			c.Abs("nm", sim.LenClass(len(m1), bs), sim.LenClass(len(m2), bs), k)
			if obj.h != nil {
				continue
			}
			var t2 []byte
			fired := false
			hook.arm(k, func() {
				fired = true
				t2 = obj.mac.MAC(append([]byte{}, m2...))
			})
			t1 := obj.mac.MAC(append([]byte{}, m1...))
			hook.disarm()
			check(i, op.K, m1, t1)
			if fired {
				c.Hit("probe:overlapping-mac-calls-on-one-object")
				if !c.Failed() {
					check(i, op.K, m2, t2)
				}
			}
		case "write":
			if obj.h == nil {
				continue
			}
			b := op.Bytes(0)
			c.Abs("w", sim.LenClass(len(b), bs), bufClassN(len(streamed), bs))
			n, err := obj.h.Write(b)
			if n != len(b) || err != nil {
				c.Fail("write-result", i, op.K, "Write returned %d,%v", n, err)
			}
			streamed = append(streamed, b...)
		case "stream":
			if obj.h == nil {
				continue
			}
			msg := op.Bytes(0)
			c.Abs("st", sim.LenClass(len(msg), bs), len(op.I), bufClassN(len(streamed), bs))
			obj.h.Reset()
			off := 0
			for _, n := range op.I {
				if n <= 0 || off+int(n) > len(msg) {
					break
				}
				obj.h.Write(msg[off : off+int(n)])
				off += int(n)
			}
			obj.h.Write(msg[off:])
			c.Hit("probe:streamed-message")
			check(i, op.K, msg, obj.h.Sum(nil))
			streamed = append(streamed[:0], msg...)
		case "sum":
			if obj.h == nil {
				continue
			}
			c.Abs("s", bufClassN(len(streamed), bs))
			check(i, op.K, streamed, obj.h.Sum(nil))
		case "sumapp":
			if obj.h == nil {
				continue
			}
			c.Abs("sa", bufClassN(len(streamed), bs))
			pre := []byte{9, 8, 7}
			out := obj.h.Sum(pre)
			if len(out) < 3 || !bytes.Equal(out[:3], pre) {
				c.Fail("sum-prefix", i, op.K, "Sum did not keep the prefix")
				return
			}
			check(i, op.K, streamed, out[3:])
		case "reset":
			if obj.h == nil {
				continue
			}
			c.Abs("r", bufClassN(len(streamed), bs))
			if len(streamed)%bs != 0 {
				c.Hit("fault:abandoned-mid-block")
			}
			obj.h.Reset()
			streamed = streamed[:0]
		case "fresh":
			c.Abs("f")
			if obj, err = c19New(con, lib, k1, k2, size, pad); err != nil {
				c.Fail("setup", i, op.K, "constructor: %v", err)
				return
			}
			streamed = streamed[:0]
		case "size":
			c.Abs("z")
			if obj.mac.Size() != size {
				c.Fail("size-mismatch", i, op.K, "%s: Size() = %d, requested %d", con, obj.mac.Size(), size)
			}
		case "bitpair":
			msg := op.Bytes(0)
			bit := op.Int(0)
			if len(msg) == 0 || bit < 0 || bit/8 >= len(msg) {
				continue
			}
			c.Abs("bp", sim.LenClass(len(msg), bs), bit%(8*bs) == 0)
			m2 := append([]byte{}, msg...)
			m2[bit/8] ^= 0x80 >> (bit % 8)
			t1 := obj.mac.MAC(append([]byte{}, msg...))
			t2 := obj.mac.MAC(m2)
			streamed = append(streamed[:0], m2...)
			check(i, op.K, msg, t1)
			check(i, op.K, m2, t2)
			if c.Failed() {
				return
			}
			if size == bs && bytes.Equal(t1, t2) {
				// a collision of full-size tags contradicts injectivity of the final transformation
				if con == "cbcr" && len(msg)%bs != 0 && bit == (len(msg)-1)/bs*bs*8 {
					c.KnownOrFail("cbcr-left-shift", "tag-collision", i, op.K, "cbcr: messages differing only in the top bit of the final block collide (%x)", t1)
					continue
				}
				c.Fail("tag-collision", i, op.K, "%s/%s: equal-length messages differing in bit %d share the full-size tag %x", con, ci, bit, t1)
			}
		}
	}
}

// c19Hook lets the harness run code at the k-th Encrypt call made by a MAC object (counted over all blocks of the object).
type c19Hook struct {
	left int
	f    func()
}

func (h *c19Hook) arm(k int, f func()) { h.left, h.f = k, f }
func (h *c19Hook) disarm()             { h.f = nil }

type c19HookBlock struct {
	cipher.Block
	h *c19Hook
}

func (b *c19HookBlock) Encrypt(dst, src []byte) {
	if b.h.f != nil {
		if b.h.left == 0 {
			f := b.h.f
			b.h.f = nil
			f()
		} else {
			b.h.left--
		}
	}
	b.Block.Encrypt(dst, src)
}

func fitKey(k []byte, n int) []byte {
	out := make([]byte, n)
	copy(out, k)
	return out
}

func bufClassN(n, bs int) string {
	switch r := n % bs; {
	case n == 0:
		return "e"
	case r == 0:
		return "f"
	default:
		return "p"
	}
}
