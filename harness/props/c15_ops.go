package props

import (
	"bytes"
	"crypto/x509"
	"encoding/pem"
	"errors"
	"fmt"
	"time"

	"github.com/emmansun/gmsm/smx509"

	"verif/harness/sim"
)

var c15VerifyEKU = [][]x509.ExtKeyUsage{{x509.ExtKeyUsageAny}, nil, {x509.ExtKeyUsageClientAuth}, {x509.ExtKeyUsageServerAuth, x509.ExtKeyUsageClientAuth}, {x509.ExtKeyUsageCodeSigning, x509.ExtKeyUsageAny},
	{x509.ExtKeyUsageServerAuth}, {x509.ExtKeyUsageCodeSigning}, {x509.ExtKeyUsageEmailProtection, x509.ExtKeyUsageClientAuth}}

func c15PEM(der []byte) []byte {
	return pem.EncodeToMemory(&pem.Block{Type: "CERTIFICATE", Bytes: der})
}

// opVerify: a verifier node configured with trust anchors and a bag of
// intermediates verifies a certificate.
func (r *c15Run) opVerify(i int, op sim.Op) {
	c := r.c
	if len(r.certs) == 0 {
		return
	}
	r.check++
	n := len(r.certs)
	leaf := r.certs[c15Mod(op.Int(0), n)]
	rootsMask, intersMask := op.Int(1), op.Int(2)
	tamper := -1
	if op.Int(10) > 0 && intersMask>>uint(c15Mod(op.Int(10)-1, n))&1 == 1 {
		tamper = c15Mod(op.Int(10)-1, n)
	}
	roots, inters := map[int]bool{}, map[int]bool{}
	var tampered []byte
	// one pool member may be configured with a per-certificate constraint callback (AddCertWithConstraint)
	consT, consPools := -1, 0
	var cons *c15Cons
	pc := &c15PoolCons{roots: map[int]*c15Cons{}, inters: map[int]*c15Cons{}}
	if op.Int(13) > 0 {
		consT, consPools = c15Mod(op.Int(13)-1, n), c15Mod(op.Int(14), 4)
		cons = &c15Cons{kind: c15Mod(op.Int(15), 4), param: op.Int(16)}
		if cons.kind == 1 {
			cons.param = r.byRaw[string(r.certs[c15Mod(op.Int(16), n)].der)].idx
		}
	}
	// trust anchors are configured out of band; only the bag of intermediates travels
	build := func(mask int, viaPEM bool, set map[int]bool, transported bool) *smx509.CertPool {
		pool := smx509.NewCertPool()
		var pemText []byte
		// the constrained member goes in first: a pool keeps the first entry of identical certificates
		if poolBit := 1 + b2iInt(transported); consT >= 0 && consPools&poolBit != 0 && mask>>uint(consT)&1 == 1 && !(consT == tamper && transported) {
			m := r.certs[consT]
			pool.AddCertWithConstraint(m.x, r.consCallback(cons))
			rec := r.byRaw[string(m.der)].idx
			set[rec] = true
			if transported {
				pc.inters[rec] = cons
			} else {
				pc.roots[rec] = cons
			}
		}
		for k := 0; k < n; k++ {
			if mask>>uint(k)&1 == 0 {
				continue
			}
			m := r.certs[k]
			if k == tamper && transported {
				// this certificate reaches the verifier with one byte altered: for the model it is not there
				if tampered == nil {
					tampered = append([]byte{}, m.der...)
					tampered[c15Mod(op.Int(11), len(tampered))] ^= byte(1 + c15Mod(op.Int(12)-1, 255))
				}
				if viaPEM {
					pemText = append(pemText, c15PEM(tampered)...)
				} else if x, err := smx509.ParseCertificate(tampered); err == nil {
					pool.AddCert(x)
				}
				c.Hit("fault:pool-member-altered")
				continue
			}
			// identical DER = identical certificate: the model keeps the first record
			set[r.byRaw[string(m.der)].idx] = true
			if viaPEM {
				pemText = append(pemText, c15PEM(m.der)...)
			} else {
				pool.AddCert(m.x)
			}
		}
		if viaPEM && len(pemText) > 0 {
			pool.AppendCertsFromPEM(pemText)
		}
		return pool
	}
	opts := smx509.VerifyOptions{
		Roots:         build(rootsMask, op.Int(3)&1 == 1, roots, false),
		Intermediates: build(intersMask, op.Int(3)&2 == 2, inters, true),
		KeyUsages:     c15VerifyEKU[c15Mod(op.Int(8), len(c15VerifyEKU))],
		DNSName:       op.Str(0),
	}
	// a small budget of name-constraint comparisons per candidate certificate (0 = the library default)
	maxCmp := c15Clamp(op.Int(17), -1, 8)
	opts.MaxConstraintComparisions = maxCmp
	if len(opts.DNSName) > 80 {
		opts.DNSName = ""
	}
	now := time.Now()
	t := now
	timeMode := c15Mod(op.Int(4), 3)
	switch timeMode {
	case 1:
		if b, ok := r.boundary(op.Int(5), op.Int(6), op.Int(7)); ok {
			opts.CurrentTime, t = b, b
		}
	case 2:
		t = now.Add(time.Duration(c15Clamp(op.Int(7), -24*4000, 24*4000)) * time.Hour)
		opts.CurrentTime = t
	}
	// the verified certificate is looked up like a pool member: the model record of its DER
	leafRec := r.byRaw[string(leaf.der)]
	ekuFree := false
	for _, u := range opts.KeyUsages {
		if u == x509.ExtKeyUsageAny {
			ekuFree = true
		}
	}
	// time relation of the leaf and of the whole topology to t (abstract only)
	rel := func(m *c15Cert) int {
		switch {
		case t.Before(m.nb):
			return 0
		case t.Equal(m.nb):
			return 1
		case t.Equal(m.na):
			return 3
		case t.After(m.na):
			return 4
		}
		return 2
	}
	chains, err := leaf.x.Verify(opts)
	c.OutErr("verify", err)
	c.Out("nchains", []byte{byte(len(chains))})
	accepted := err == nil
	consAbs := -1
	if len(pc.roots)+len(pc.inters) > 0 {
		consAbs = cons.kind*4 + b2iInt(len(pc.roots) > 0) + 2*b2iInt(len(pc.inters) > 0)
	}
	c.Abs("verify", len(roots), len(inters), op.Int(3)&3, timeMode, rel(leafRec), c15Mod(op.Int(8), len(c15VerifyEKU)), opts.DNSName != "", tamper >= 0, accepted, len(chains), consAbs, maxCmp)
	if accepted {
		c.Hit("probe:verify-accepted")
	} else {
		c.Hit("probe:verify-rejected")
	}
	// coverage: what the model thinks of the genuinely signed paths that exist
	paths := c15ModelPaths(r.certs, leafRec, roots, inters, t)
	seen := map[string]bool{}
	for _, cl := range paths {
		if seen[cl] {
			continue
		}
		seen[cl] = true
		switch {
		case cl == "" && accepted:
			c.Hit("probe:accepted-valid-path")
		case cl == "":
			c.Hit("probe:rejected-for-eku-dnsname-sha1-or-tampered-pool")
		case accepted:
			c.Hit("probe:accepted-beside-refuted-path-" + cl)
		default:
			c.Hit("probe:rejected-path-" + cl)
		}
	}
	if len(paths) == 0 {
		sameName := false
		for _, m := range r.certs {
			if roots[m.idx] && m.cn == leafRec.issuerCN && m.key.id != leafRec.signer.id {
				sameName = true
			}
		}
		if sameName {
			c.Hit("probe:no-signed-path-but-same-name-root-configured")
		} else {
			c.Hit("probe:no-signed-path")
		}
	}
	// ---- soundness: every returned chain must be justified by the model
	if accepted && len(chains) == 0 {
		c.Fail("accepted-without-chain", i, op.K, "Verify returned no error and no chain")
		return
	}
	for _, ch := range chains {
		var recs []*c15Cert
		for k, x := range ch {
			m := r.byRaw[string(x.Raw)]
			if m == nil {
				c.Fail("chain-contains-unissued-certificate", i, op.K, "position %d of a returned chain holds a certificate (subject %q) that no CA of the simulation issued in this form (altered in transit)", k, x.Subject.CommonName)
				return
			}
			recs = append(recs, m)
			c.Out("chain", []byte{byte(m.idx)})
		}
		if recs[0] != leafRec {
			c.Fail("chain-does-not-start-at-leaf", i, op.K, "a returned chain starts with certificate #%d, not with the verified certificate #%d", recs[0].idx, leafRec.idx)
			return
		}
		if class, why := c15JudgeChain(recs, t, roots); class != "" {
			c.Fail(class, i, op.K, "Verify (time %s, %d roots, %d intermediates) returned a chain of %d certificates that the topology model refutes: %s", t.UTC().Format(time.RFC3339Nano), len(roots), len(inters), len(recs), why)
			return
		}
		// pool constraints: the last certificate came from the roots, every other non-leaf one from the intermediates
		for pos := 1; pos < len(recs); pos++ {
			asRoot := pos == len(recs)-1
			if !pc.okAt(asRoot, recs[pos], recs[:pos]) {
				c.Fail("chain-violates-pool-constraint", i, op.K, "Verify returned a chain of %d certificates through certificate #%d (%q, position %d), which was added to the pool with a constraint callback (%s) that refuses the %d certificates below it", len(recs), recs[pos].idx, recs[pos].cn, pos, cons, pos)
				return
			}
			if pc.has(asRoot, recs[pos]) {
				c.Hit("probe:chain-through-constrained-member")
			}
		}
		// extended key usage: some requested usage must be permitted by every certificate of the chain
		if !ekuFree {
			if !c15EKUCompatible(recs, opts.KeyUsages) {
				c.Fail("chain-eku-incompatible", i, op.K, "Verify with KeyUsages %v returned a chain of %d certificates in which no requested usage is permitted by every certificate (extended key usages, leaf first: %s)", opts.KeyUsages, len(recs), c15EKUList(recs))
				return
			}
			for _, m := range recs {
				if len(m.eku) > 0 {
					c.Hit("probe:eku-compatible-chain-accepted")
					break
				}
			}
		}
		if len(recs) >= 3 {
			c.Hit("probe:chain-with-intermediates")
		}
	}
	if !accepted {
		var inv x509.CertificateInvalidError
		if errors.As(err, &inv) && inv.Reason == x509.IncompatibleUsage {
			c.Hit("probe:eku-mismatch-refused")
		}
		if errors.As(err, &inv) && inv.Reason == x509.TooManyConstraints {
			c.Hit("probe:too-many-constraint-comparisons")
		}
	}
	if maxCmp != 0 {
		// coverage only: what the default budget says (the budget is not part of the statement: soundness is all that is asserted)
		o3 := opts
		o3.MaxConstraintComparisions = 0
		o3.Roots, o3.Intermediates = build(rootsMask, op.Int(3)&1 == 1, map[int]bool{}, false), build(intersMask, op.Int(3)&2 == 2, map[int]bool{}, true)
		ch3, err3 := leaf.x.Verify(o3)
		c.OutErr("verify-default-budget", err3)
		switch {
		case err3 == nil && !accepted:
			c.Hit("probe:comparison-budget-rejects-otherwise-valid")
		case err3 == nil && len(ch3) > len(chains):
			c.Hit("probe:comparison-budget-drops-a-chain")
		default:
			c.Hit("probe:comparison-budget-no-effect")
		}
	}
	// ---- the same question through the other time path must get the same answer
	if op.Int(9)&1 == 1 {
		o2 := opts
		if timeMode == 0 {
			o2.CurrentTime = now
		}
		o2.Roots, o2.Intermediates = build(rootsMask, op.Int(3)&1 == 0, map[int]bool{}, false), build(intersMask, op.Int(3)&2 == 0, map[int]bool{}, true)
		ch2, err2 := leaf.x.Verify(o2)
		if (err2 == nil) != accepted || len(ch2) != len(chains) {
			c.Fail("verdict-depends-on-presentation", i, op.K, "the same verification with the other pool construction (AddCert / AppendCertsFromPEM) and an explicit CurrentTime equal to the clock gives %d chains (err %v) instead of %d (err %v)", len(ch2), err2, len(chains), err)
			return
		}
		c.Hit("probe:dual-verify")
	}
	// ---- completeness on plain chains only
	// (the library gives up after 100 signature checks per verification: no completeness claim for pools crowded with one name)
	crowd := map[string]int{}
	crowded := false
	for _, m := range r.certs {
		if roots[m.idx] || inters[m.idx] {
			crowd[m.cn]++
			if crowd[m.cn]*(len(roots)+len(inters)) > 60 {
				crowded = true
			}
		}
	}
	if !accepted && tamper < 0 && opts.DNSName == "" && !crowded {
		plain := c15ModelChains(r.certs, leafRec, roots, inters, t, true, ekuFree, pc)
		if plain {
			c.Fail("valid-chain-rejected", i, op.K, "the model finds a plain chain (all windows contain %s with more than an hour to spare, all issuers CAs with keyCertSign, no constraints) from certificate #%d to a configured root, but Verify fails: %v", t.UTC().Format(time.RFC3339Nano), leafRec.idx, err)
			return
		}
		if c15ExactWindows && c15ExactPathExists(r.certs, leafRec, roots, inters, t, ekuFree, pc, maxCmp != 0) {
			c.Fail("valid-chain-rejected-at-boundary", i, op.K, "the model finds a genuinely signed path from certificate #%d to a configured root that is valid at %s with every constraint satisfied (validity ends inclusive per RFC 5280 4.1.2.5, path length not exceeded, DNS names inside the permitted and outside the excluded subtrees), but Verify fails: %v", leafRec.idx, t.UTC().Format(time.RFC3339Nano), err)
			return
		}
	}
	if !accepted && len(pc.roots)+len(pc.inters) > 0 && c15ExactPathExists(r.certs, leafRec, roots, inters, t, ekuFree, nil, false) && !c15ExactPathExists(r.certs, leafRec, roots, inters, t, ekuFree, pc, false) {
		c.Hit("probe:only-valid-paths-refused-by-constraint")
	}
	if accepted {
		for _, m := range r.certs {
			if k := rel(m); k == 1 || k == 3 {
				c.Hit("probe:accepted-exactly-at-boundary-of-some-certificate")
				break
			}
		}
	}
}

// opChk: signature of one certificate checked against an arbitrary other one
// (the right issuer, another CA with the same name, a non-CA, ...).
func (r *c15Run) opChk(i int, op sim.Op) {
	c := r.c
	if len(r.certs) == 0 {
		return
	}
	r.check++
	child := r.certs[c15Mod(op.Int(0), len(r.certs))]
	parent := r.certs[c15Mod(op.Int(1), len(r.certs))]
	keyOK := child.signer.id == parent.key.id
	errRaw := parent.x.CheckSignature(child.x.SignatureAlgorithm, child.x.RawTBSCertificate, child.x.Signature)
	errGated := child.x.CheckSignatureFrom(parent.x)
	c.OutErr("chk-raw", errRaw)
	c.OutErr("chk-gated", errGated)
	c.Abs("chk", keyOK, parent.canSignCerts(), child.sha1, child.cn == parent.cn, c15KeyNames[child.signer.typ], c15KeyNames[parent.key.typ], errRaw == nil, errGated == nil)
	switch {
	case !keyOK && (errRaw == nil || errGated == nil):
		c.Hit("fault:issuer-substituted")
		c.Fail("wrong-issuer-accepted", i, op.K, "certificate #%d was signed with key %s, but its signature verifies under certificate #%d (%q) carrying key %s (CheckSignature err=%v, CheckSignatureFrom err=%v)",
			child.idx, child.signer.id, parent.idx, parent.cn, parent.key.id, errRaw, errGated)
	case keyOK && errRaw != nil:
		c.Fail("honest-signature-rejected", i, op.K, "certificate #%d was signed with key %s, which certificate #%d carries, but CheckSignature fails: %v", child.idx, child.signer.id, parent.idx, errRaw)
	case keyOK && parent.canSignCerts() && !child.sha1 && errGated != nil:
		c.Fail("honest-signature-rejected", i, op.K, "certificate #%d was signed by the key of CA certificate #%d (CA, keyCertSign), but CheckSignatureFrom fails: %v", child.idx, parent.idx, errGated)
	case keyOK && !parent.canSignCerts() && errGated == nil:
		c.Fail("non-ca-issuer-accepted", i, op.K, "CheckSignatureFrom accepts certificate #%d (%q) as issuer although it is not entitled to sign certificates (basicConstraints=%v cA=%v keyUsage=%#x)", parent.idx, parent.cn, parent.bc, parent.ca, int(parent.ku))
	}
	if !keyOK {
		c.Hit("fault:issuer-substituted")
		if child.issuerCN == parent.cn {
			c.Hit("probe:same-name-other-key-refused")
		}
	}
}

// probe parses a (possibly altered) object and checks its signature the way
// its recipient would. accepted = parsed and some signature path succeeded;
// same = the decoded (signed bytes, algorithm, signature) triple is the original one.
func (o *c15Obj) probe(b []byte, both bool) (accepted, same bool, perr error) {
	var tbs, sig []byte
	var alg x509.SignatureAlgorithm
	var verr error
	o.legacy = false
	switch o.kind {
	case "cert":
		x, err := smx509.ParseCertificate(b)
		if err != nil {
			return false, false, err
		}
		tbs, alg, sig = x.RawTBSCertificate, x.SignatureAlgorithm, x.Signature
		if o.gated {
			verr = x.CheckSignatureFrom(o.issuer.x)
			if verr != nil && both {
				verr = o.issuer.x.CheckSignature(alg, tbs, sig)
			}
		} else {
			verr = o.issuer.x.CheckSignature(alg, tbs, sig)
		}
	case "csr":
		x, err := smx509.ParseCertificateRequest(b)
		if err != nil {
			return false, false, err
		}
		tbs, alg, sig = x.RawTBSCertificateRequest, x.SignatureAlgorithm, x.Signature
		verr = x.CheckSignature()
	case "cfca":
		x, err := smx509.ParseCFCACertificateRequest(b)
		if err != nil {
			return false, false, err
		}
		tbs, alg, sig = x.RawTBSCertificateRequest, x.SignatureAlgorithm, x.Signature
		verr = x.CheckSignature()
	case "crl", "crl1":
		var merr error
		x, err := smx509.ParseRevocationList(b)
		if err != nil {
			if o.kind == "crl" {
				return false, false, err
			}
			merr = err
		} else {
			tbs, alg, sig = x.RawTBSRevocationList, x.SignatureAlgorithm, x.Signature
			if o.gated {
				verr = x.CheckSignatureFrom(o.issuer.x)
				if verr != nil && both {
					verr = o.issuer.x.CheckSignature(alg, tbs, sig)
				}
			} else {
				verr = o.issuer.x.CheckSignature(alg, tbs, sig)
			}
		}
		if o.kind == "crl1" && (merr != nil || verr != nil) {
			// a list made by the deprecated CreateCRL may also reach a recipient that uses the deprecated parser and check
			cl, err := smx509.ParseCRL(b)
			if err != nil {
				if merr != nil {
					return false, false, merr
				}
				break
			}
			if cl2, err2 := smx509.ParseDERCRL(b); err2 != nil || !bytes.Equal(cl2.TBSCertList.Raw, cl.TBSCertList.Raw) {
				return false, false, fmt.Errorf("ParseCRL and ParseDERCRL disagree: %v", err2)
			}
			if lerr := o.issuer.x.CheckCRLSignature(cl); lerr == nil {
				o.legacy = true
				same = cl.SignatureAlgorithm.Algorithm.Equal(o.oid) && bytes.Equal(cl.TBSCertList.Raw, o.tbs) && bytes.Equal(cl.SignatureValue.RightAlign(), o.sig)
				return true, same, nil
			}
			if merr != nil {
				return false, false, nil
			}
		}
	}
	same = alg == o.alg && bytes.Equal(tbs, o.tbs) && bytes.Equal(sig, o.sig)
	return verr == nil, same, nil
}

var c15RegionNames = []string{"signed-portion", "signature-value", "envelope"}

// judgeAltered: verdict on one altered delivery.
func (r *c15Run) judgeAltered(i int, op sim.Op, o *c15Obj, pos int, x byte, both bool) {
	c := r.c
	b := append([]byte{}, o.der...)
	b[pos] ^= x
	region := o.reg.class(pos)
	accepted, same, perr := o.probe(b, both)
	if perr != nil {
		c.Hit("probe:altered-" + c15RegionNames[region] + "-parse-error")
		return
	}
	if !accepted {
		c.Hit("probe:altered-" + c15RegionNames[region] + "-signature-failure")
		return
	}
	if region == 2 && same && (o.kind == "csr" || o.kind == "cfca" || (o.kind == "crl1" && o.legacy)) {
		// a request has no inner copy of the algorithm identifier; the library ignores the parameters
		// field of PKCS#1 v1.5 / ECDSA / SM2 identifiers, so e.g. another tag on the NULL decodes to
		// the identical algorithm. Certificates and revocation lists get no such allowance: their
		// outer identifier must equal the signed inner one byte for byte.
		// (the same holds for the deprecated ParseCRL + CheckCRLSignature pair, which reads the algorithm from the outer identifier only)
		c.Hit("probe:benign-envelope-alteration")
		return
	}
	c.Fail("tampering-accepted", i, op.K, "%s of %d bytes with byte %d (%s) changed from %02x to %02x still parses and its signature still verifies", o.kind, len(o.der), pos, c15RegionNames[region], o.der[pos], b[pos])
}

// opFault: transport faults on a DER object on its way to the party that checks it.
func (r *c15Run) opFault(i int, op sim.Op) {
	c := r.c
	if len(r.objs) == 0 {
		return
	}
	r.check++
	o := r.objs[c15Mod(op.Int(0), len(r.objs))]
	// the untouched delivery first: must be accepted through the path the faults are judged with
	if ok, _, perr := o.probe(o.der, true); !ok {
		c.Fail("honest-signature-rejected", i, op.K, "the untouched %s is refused by its recipient (parse error: %v)", o.kind, perr)
		return
	}
	switch op.K {
	case "alter":
		region := c15Mod(op.Int(1), 3)
		var pos int
		switch region {
		case 0:
			pos = o.reg.tbs[0] + c15Mod(op.Int(2), o.reg.tbs[1]-o.reg.tbs[0])
		case 1:
			pos = o.reg.sig[0] + c15Mod(op.Int(2), o.reg.sig[1]-o.reg.sig[0])
		default:
			pos = c15Mod(op.Int(2), len(o.der))
		}
		x := byte(1 + c15Mod(op.Int(3)-1, 255))
		c.Abs("alter", o.kind, c15RegionNames[o.reg.class(pos)], o.gated)
		c.Hit("fault:byte-altered-" + c15RegionNames[o.reg.class(pos)])
		r.judgeAltered(i, op, o, pos, x, true)
		if c.Failed() || o.kind != "cert" {
			return
		}
		// an altered certificate must not chain to its own issuer either
		b := append([]byte{}, o.der...)
		b[pos] ^= x
		if xc, err := smx509.ParseCertificate(b); err == nil {
			roots := smx509.NewCertPool()
			inters := smx509.NewCertPool()
			for _, m := range r.certs {
				if m.signer.id == m.key.id && m.issuerCN == m.cn {
					roots.AddCert(m.x)
				} else {
					inters.AddCert(m.x)
				}
			}
			roots.AddCert(o.issuer.x)
			mid := o.issuer.nb.Add(o.issuer.na.Sub(o.issuer.nb) / 2)
			chains, err := xc.Verify(smx509.VerifyOptions{Roots: roots, Intermediates: inters, CurrentTime: mid, KeyUsages: []x509.ExtKeyUsage{x509.ExtKeyUsageAny}})
			if err == nil {
				c.Fail("tampering-accepted", i, op.K, "certificate with byte %d (%s) altered is accepted by Verify with its issuer as trust anchor (%d chains)", pos, c15RegionNames[o.reg.class(pos)], len(chains))
			}
		}
	case "alterall":
		const maxPos = 144
		n := len(o.der)
		stride := (n + maxPos - 1) / maxPos
		if stride < 1 {
			stride = 1
		}
		start := c15Mod(op.Int(1), stride)
		c.Abs("alterall", o.kind, o.gated, stride > 1)
		cnt := 0
		for pos := start; pos < n && !c.Failed(); pos += stride {
			x := byte(1 + c15Mod(op.Int(2)+pos*7, 255))
			if pos%3 == 0 {
				x = 1 << uint(c15Mod(op.Int(2)+pos, 8))
			}
			r.judgeAltered(i, op, o, pos, x, false)
			cnt++
		}
		c.HitN("fault:exhaustive-byte-alteration", cnt)
	case "trunc":
		keep := c15Mod(op.Int(1), len(o.der))
		c.Abs("trunc", o.kind, keep == 0, keep >= o.reg.tbs[1])
		c.Hit("fault:truncated")
		if ok, _, _ := o.probe(o.der[:keep], true); ok {
			c.Fail("tampering-accepted", i, op.K, "%s truncated from %d to %d bytes still parses and verifies", o.kind, len(o.der), keep)
		}
	}
}

var _ = fmt.Sprint
var _ sim.Op
