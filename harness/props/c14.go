package props

import (
	"bytes"
	"crypto/ecdsa"
	"encoding/asn1"
	"encoding/pem"
	"fmt"
	"math/big"
	"testing"

	"github.com/emmansun/gmsm/cfca"
	"github.com/emmansun/gmsm/ecdh"
	"github.com/emmansun/gmsm/pkcs8"
	"github.com/emmansun/gmsm/sm2"
	"github.com/emmansun/gmsm/sm4"
	"github.com/emmansun/gmsm/sm9"
	"github.com/emmansun/gmsm/smx509"
	"github.com/emmansun/gmsm/verifhook"

	"verif/harness/model/sm2m"
	"verif/harness/sim"
)

// C14: a key vault on a faulty disk. Keys are stored into every container the
// library offers, under passwords / wrapping keys, and loaded back - from the
// untouched disk, with a wrong secret, after storage faults, and from a
// Byzantine producer that writes well-formed containers around out-of-range
// scalars. The ledger (which key, which secret, which bytes are protected)
// decides every load.

func init() {
	register(&Prop{
		ID:         "C14",
		Level:      "exploration",
		Nodes:      func(tier string) []string { return []string{"avx2", "noclmul", "purego"} },
		Cross:      true,
		GlobalRand: true,
		Init:       c14Init,
		Gen:        genC14,
		Exec:       execC14,
		QuickSecs:  40, ThoroughSecs: 900, RunsPerJob: 40,
		Rule: "a run owns a disk of 4 slots and plays {store(key kind x scalar class, container kind, cipher, KDF, salt size, cost, password; salt/IV from the seeded global source or from a scripted reader with short reads / errors; the hidden 0/1-byte pre-read of the randomness consumers is a knob), load(entry point variant), load with a wrong password (bit flipped, shortened, extended, foreign, empty) or wrong unwrapping key, rewrap (load, then store the loaded object under another scheme in the same slot), " +
			"storage faults before a load: byte substitution, every byte position altered, torn write (prefix), lost write (zero-filled range), duplicated range, misdirected write (tails of two slots swapped), stale read (previous version of the slot read with the current secret), Byzantine re-encoding of one element (grown, shrunk, emptied, zeroed, deleted, duplicated, swapped, retagged, wrapped) with consistent lengths, " +
			"Byzantine producer: well-formed SEC1 / PKCS#8 / encrypted PKCS#8 / legacy PEM / enveloped / CFCA / SM9 containers and constructor calls carrying the scalars 0, n-1, n, n+1, 2^k-1, 2^k plus in-range controls}; every store is read back at once; " +
			"abstract history = sequence of (op kind, key kind, scalar class, container kind, encrypter family, cipher, KDF, salt class, password-length class, fault kind, whether protected bytes were hit); non-trivial = at least one container stored, one further load judged and 2 ops executed; distinct = distinct abstract histories",
		Real: []string{"smx509 (MarshalPKCS8PrivateKey, ParsePKCS8PrivateKey, MarshalSM2PrivateKey, MarshalECPrivateKey, ParseSM2PrivateKey, ParseECPrivateKey, ParseTypedECPrivateKey, MarshalPKIXPublicKey, ParsePKIXPublicKey, EncryptPEMBlock, DecryptPEMBlock, ParseCertificate)",
			"pkcs8 (MarshalPrivateKey, ParsePrivateKey, ParsePKCS8PrivateKey, ParsePKCS8PrivateKeySM2/ECDSA/RSA, ParseSM9*)", "pkcs (PBES2 / SM-PBES / PBES1 encrypters, all registered ciphers, PBKDF2 with every PRF, SM-PBKDF2, scrypt)",
			"sm2 (NewPrivateKey, NewPrivateKeyFromInt, MarshalEnvelopedPrivateKey, ParseEnvelopedPrivateKey, EncryptASN1/Decrypt underneath)", "cfca (MarshalSM2, ParseSM2)", "sm9 (master key generators, GenerateUserKey, Marshal*/Unmarshal* of all six key kinds, Parse*PEM)", "ecdh (NewPrivateKey, PublicKey)", "sm3, sm4, internal/sm2ec, internal/sm9/bn256 (per node)"},
		Stubs: []string{"the disk (slots, versions, storage faults)", "salt / IV / ephemeral randomness: crypto/rand seeded per program by the worker, or a scripted reader", "the Byzantine producer (TLV re-encoder, hand-placed scalars; uses the library's Encrypt / SM4 / SM2 encryption only as tools)",
			"certificates of non-fixture SM2 keys: the leaf certificate with its public-key point replaced (cfca.ParseSM2 parses but does not verify the certificate)"},
		Assume: []string{"ledger equality: private scalars and SM2 public points come from the generator and the math/big model, RSA / ECDSA fixtures from crypto/x509; SM9 user keys and public keys are compared with their bytes at creation time (no independent pairing-curve model)",
			"an unauthenticated container (plain encodings, CBC / ECB encrypted PKCS#8, PBES1, legacy PEM) under alteration only has to be handled without a panic: a different key may legitimately come out",
			"an authenticating container (GCM PKCS#8, SM2 enveloped key, CFCA blob): alteration of a protected value byte must be refused; the unused-bits octet of the two BIT STRINGs of the SM2 enveloped key counts as a value byte (DER makes the count part of the string's value); other framing octets inside protected elements (INTEGER sign pad, point-format octet) and all other bytes may be refused or yield the identical key",
			"every loader works on a private copy of the container that is overwritten when it returns: the decoded key must not change (no aliasing of the caller's buffer), and a returned EC private key must satisfy public = [d]G whatever was altered",
			"wrong password = a password that differs from the right one by more than trailing zero bytes (HMAC pads keys with zeros, so PBKDF2 cannot tell those apart); 'never a key' is demanded, the error may come from the decryption or from the inner parse",
			"KDF cost parameters are not fault targets: an altered container that announces more than 4096 PBKDF2 iterations or scrypt N*r*p > 2^15 is not handed to the library (counted as skip:kdf-cost-limit)",
			"SM9 master scalar n-1 (allowed by GM/T 0044, refused by the library) is not judged; ECDSA scalar n-1 is a valid key and must load",
			"a rewrap of an SM9 user key that was loaded from a bare SM9 encoding (no master public key inside) into PKCS#8 may be refused with an error",
			"a store through a reader that returns an error may fail; a store that succeeds must read back",
			"a stale read is judged (old key with the same secret, error with another secret) only when the previous version has the container format and key type of the current one; bytes of one format under the parser of another only have to be handled without a panic"},
	})
}

var c14KindWeights = []int{8, 2, 1, 1, 1, 2, 1, 1, 1, 1, 1, 1}

func c14GenSpec(r *sim.Rand, kind int, faulty bool) []int {
	var cks []int
	for ck := 0; ck < c14ContainerKinds; ck++ {
		if c14Compatible(kind, ck) {
			cks = append(cks, ck)
			if ck == c14P8Enc {
				cks = append(cks, ck, ck, ck)
			}
			if ck == c14Envelope || ck == c14CFCA {
				cks = append(cks, ck)
			}
		}
	}
	ck := cks[r.Intn(len(cks))]
	ek := r.Weighted(10, 1, 2, 3)
	cipher := r.Intn(len(c14Ciphers))
	if ek == c14EkPBES2 && r.Chance(1, 3) {
		cipher = r.PickInt(1, 4, 6, 8) // GCM
	}
	salt := r.PickInt(0, 1, 7, 8, 8, 9, 16, 16, 20, 32, 40)
	chunk, rfAt, rfKind := 0, 0, 0
	if r.Chance(1, 4) {
		chunk = r.PickInt(1, 3, 7, 8, 15)
	}
	if faulty && r.Chance(1, 6) {
		rfAt, rfKind = r.Intn(3), 1+r.Intn(4)
	}
	// ck, ek, cipher, kdf, salt, iter, sub, path, rcpt, chunk, rfAt, rfKind
	return []int{ck, ek, cipher, r.Intn(c14KDFs), salt, r.Range(1, 16), r.Intn(12), r.PickInt(0, 1, 0, 1, 2, 3), r.Intn(2), chunk, rfAt, rfKind}
}

func c14GenPassword(r *sim.Rand) []byte {
	n := r.PickInt(1, 1, 2, 8, 8, 16, 32, 63, 64, 65, 127, 128, 129, 200)
	b := r.Bytes(n)
	switch r.Intn(4) {
	case 0: // printable
		for i := range b {
			b[i] = 0x21 + b[i]%94
		}
	case 1: // ends in a zero byte
		b[n-1] = 0
	}
	return b
}

func genC14(r *sim.Rand, tier string) *sim.Program {
	p := &sim.Program{Prop: "C14"}
	p.SetC("grand", r.Intn(1<<30))
	p.SetC("mrb", r.Intn(2))
	p.SetCB("seed", r.Bytes(32))
	faulty := r.Bool() // half of the runs inject nothing
	// the generator follows which slots hold what, so that later operations refer to something
	var used []int
	kindOf, versions := map[int]int{}, map[int]int{}
	addStore := func() {
		kind := r.Weighted(c14KindWeights...)
		sc := r.Intn(c14ScClasses)
		slot := r.Intn(4)
		args := append([]int{slot, kind, sc}, c14GenSpec(r, kind, faulty)...)
		p.Add("store", args...).WithB(r.Bytes(4), c14GenPassword(r))
		if versions[slot] == 0 {
			used = append(used, slot)
		}
		kindOf[slot] = kind
		versions[slot]++
	}
	addRewrap := func(slot int) {
		args := append([]int{slot}, c14GenSpec(r, kindOf[slot], faulty)...)
		p.Add("rewrap", args...).WithB(c14GenPassword(r))
		versions[slot]++
	}
	for n := r.Range(1, 3); n > 0; n-- {
		addStore()
	}
	for n := r.Range(2, 6); n > 0; n-- {
		slot := used[r.Intn(len(used))]
		if !faulty {
			switch r.Intn(8) {
			case 0, 1, 2:
				p.Add("load", slot, r.Intn(12))
			case 3, 4, 5:
				addRewrap(slot)
			default:
				addStore()
			}
			continue
		}
		switch r.Weighted(1, 1, 2, 3, 2, 2, 1, 1, 1, 1, 1, 3, 2) {
		case 0:
			p.Add("load", slot, r.Intn(12))
		case 1:
			addStore()
		case 2:
			addRewrap(slot)
		case 3:
			p.Add("wrongpw", slot, r.Intn(6), r.Intn(12), r.Intn(1<<16)).WithB(c14GenPassword(r))
		case 4:
			p.Add("subst", slot, r.Intn(1<<16), 1+r.Intn(255), r.Intn(12))
		case 5:
			p.Add("allbytes", slot, r.PickInt(1, 1, 2, 3, 4, 7, 0x80, 0xff, 1+r.Intn(255), 1+r.Intn(255)), r.Intn(12))
		case 6:
			p.Add("trunc", slot, r.Intn(1<<16), r.Intn(12), r.Intn(4))
		case 7:
			p.Add("zero", slot, r.Intn(1<<16), r.PickInt(1, 2, 8, 16, 32), r.Intn(12))
		case 8:
			p.Add("dup", slot, r.Intn(1<<16), r.PickInt(1, 2, 8, 16), r.Intn(12))
		case 9:
			if len(used) < 2 {
				addStore()
			}
			other := used[r.Intn(len(used))]
			if other == slot {
				other = used[(r.Intn(len(used))+1)%len(used)]
			}
			p.Add("swap", slot, other, r.Intn(1<<16), r.Intn(12))
		case 10:
			if versions[slot] < 2 {
				addRewrap(slot)
			}
			p.Add("stale", slot, r.Intn(12))
		case 11:
			sel := r.Intn(64)
			if r.Chance(2, 3) {
				sel = -1 - r.Intn(6) // aimed: a protected element, or one of the last leaves (ciphertext, IV / nonce, parameters)
			}
			p.Add("lie", slot, sel, r.Intn(sim.LieKinds), r.Intn(40), r.Intn(12))
		default:
			p.Add("byz", r.Intn(c14ByzTargets), r.Intn(c14ByzKinds), r.Intn(8), r.Intn(len(c14Ciphers)), r.Intn(c14KDFs), r.Intn(1<<16)).WithB(c14GenPassword(r))
		}
	}
	return p
}

type c14Env struct {
	c      *sim.Ctx
	seed   []byte
	keys   *c14Keys
	slots  [4][]*c14Rec
	rcpt   [2]*sm2.PrivateKey
	stores int
	loads  int
}

// Judgement modes of a delivery.
const (
	c14JUntouched = iota
	c14JWrongSecret
	c14JAltered // byte-level alteration of rec.bytes
	c14JLie     // element-level re-encoding of rec.bytes
	c14JEither  // an error or the wanted key, never anything else
	c14JNoPanic // no demand beyond termination
)

func c14Canon(pw []byte) []byte { return bytes.TrimRight(pw, "\x00") }

func (e *c14Env) latest(slot int) *c14Rec {
	v := e.slots[c14Mod(slot, 4)]
	if len(v) == 0 {
		return nil
	}
	return v[len(v)-1]
}

func (e *c14Env) reader(tag string, chunk, at, kind int) *sim.ScriptReader {
	d := derive(e.seed, "c14-rd"+tag, 128)
	d[16] &= 0x7f
	if chunk < 0 || chunk > 64 {
		chunk = 0
	}
	return &sim.ScriptReader{Data: d, Fill: d[1], Step: 7, Chunk: chunk, FaultAt: c14Mod(at, 8), FaultKind: c14Mod(kind, 5)}
}

// deliver hands data to the loader of load (kind of container, entry point,
// key type) with the given secret and judges the result against want.
func (e *c14Env) deliver(i int, opKind, what string, load *c14Rec, want *c14Key, data, pw []byte, rcpt, variant, mode int, orig *c14Rec) {
	c := e.c
	// the loader is handed a buffer of its own, which is overwritten as soon as it returns: a decoded key must not
	// live in its caller's buffer
	buf := append([]byte{}, data...)
	got, err := c14Load(load, buf, pw, e.rcpt[c14Mod(rcpt, 2)], variant)
	if err == errC14Cost {
		c.Hit("skip:kdf-cost-limit")
		return
	}
	e.loads++
	c.OutErr(what, err)
	if err == nil {
		fp := c14Fingerprint(got)
		for k := range buf {
			buf[k] = ^buf[k]
		}
		if fp2 := c14Fingerprint(got); !bytes.Equal(fp, fp2) {
			c.Fail("key-aliases-input", i, opKind, "%s: the decoded key changes when the caller reuses the buffer it was decoded from (%s key in %s): %x -> %x", what, c14KindName[want.kind], c14ContainerName[load.spec.ck], trunc(fp, 24), trunc(fp2, 24))
			return
		}
		if r := c14Consistent(got); r != "" {
			c.Fail("inconsistent-key", i, opKind, "%s: the loader returned a key whose public part does not belong to its private part (%s in %s): %s", what, c14KindName[want.kind], c14ContainerName[load.spec.ck], r)
			return
		}
		c.Out("key", fp)
	}
	desc := func() string {
		return fmt.Sprintf("%s key (scalar class %d) in %s [%s], %d bytes", c14KindName[want.kind], want.sclass, c14ContainerName[load.spec.ck], load.desc, len(data))
	}
	publicOnly := load.spec.ck == c14PKIX
	if mode == c14JAltered || mode == c14JLie {
		if bytes.Equal(data, orig.bytes) {
			mode = c14JUntouched
		} else if !orig.auth {
			mode = c14JNoPanic
		}
	}
	switch mode {
	case c14JUntouched:
		if err != nil {
			c.Fail("roundtrip-refused", i, opKind, "%s: the untouched container is refused with the right secret (%s): %v", what, desc(), err)
			return
		}
		if r := c14Same(want, got, publicOnly); r != "" {
			c.Fail("roundtrip-mismatch", i, opKind, "%s: the untouched container decodes to another key (%s): %s", what, desc(), r)
			return
		}
		if (load.spec.ck == c14P8Plain || load.spec.ck == c14P8Enc) && want.masterPub != nil {
			var mp []byte
			switch g := got.(type) {
			case *sm9.SignPrivateKey:
				if m := g.MasterPublic(); m != nil {
					mp = m.Bytes()
				}
			case *sm9.EncryptPrivateKey:
				if m := g.MasterPublic(); m != nil {
					mp = m.Bytes()
				}
			}
			if !bytes.Equal(mp, want.masterPub) {
				c.Fail("roundtrip-mismatch", i, opKind, "%s: the SM9 user key comes back bound to another master public key (%s)", what, desc())
			}
		}
	case c14JWrongSecret:
		c.Hit("fault:wrong-secret/" + c14ContainerName[load.spec.ck])
		if err == nil {
			c.Fail("wrong-secret-accepted", i, opKind, "%s: a wrong secret produced a key without an error (%s); returned %x", what, desc(), trunc(c14Fingerprint(got), 40))
		}
	case c14JAltered:
		if c14Touches(orig.prot, orig.bytes, data) {
			c.Hit("fault:protected-byte-altered")
			if err == nil {
				c.Fail("tampering-accepted", i, opKind, "%s: an alteration of protected bytes (first difference at offset %d) is accepted (%s); returned %x", what, firstDiff(orig.bytes, data), desc(), trunc(c14Fingerprint(got), 40))
			}
			return
		}
		c.Hit("fault:unprotected-byte-altered")
		if err == nil {
			if r := c14Same(want, got, publicOnly); r != "" {
				c.Fail("different-key-accepted", i, opKind, "%s: an altered authenticated container (first difference at offset %d) yields a different key (%s): %s", what, firstDiff(orig.bytes, data), desc(), r)
				return
			}
			c.Hit("probe:unprotected-alteration-same-key")
		}
	case c14JLie:
		was, now := c14ProtectedValues(orig, orig.bytes), c14ProtectedValues(orig, data)
		changed := false
		if was != nil && now != nil && len(was) == len(now) {
			for k := range was {
				if !bytes.Equal(was[k], now[k]) {
					changed = true
				}
			}
		}
		if changed {
			c.Hit("fault:protected-value-re-encoded")
			if err == nil {
				c.Fail("tampering-accepted", i, opKind, "%s: a re-encoding that changes a protected value is accepted (%s); returned %x", what, desc(), trunc(c14Fingerprint(got), 40))
			}
			return
		}
		if err == nil {
			if r := c14Same(want, got, publicOnly); r != "" {
				c.Fail("different-key-accepted", i, opKind, "%s: a re-encoded authenticated container yields a different key (%s): %s", what, desc(), r)
			}
		}
	case c14JEither:
		if err == nil {
			if r := c14Same(want, got, publicOnly); r != "" {
				c.Fail("different-key-accepted", i, opKind, "%s: neither an error nor the key that the bytes hold (%s): %s", what, desc(), r)
			}
		}
	case c14JNoPanic:
		if err == nil {
			c.Hit("probe:altered-unauthenticated-container-parsed")
		}
	}
}

func (e *c14Env) specFrom(op *sim.Op, base int) c14Spec {
	s := c14Spec{
		ck: c14Mod(op.Int(base), c14ContainerKinds), ek: c14Mod(op.Int(base+1), c14EkKinds), cipher: c14Mod(op.Int(base+2), len(c14Ciphers)), kdf: c14Mod(op.Int(base+3), c14KDFs),
		salt: c14Mod(op.Int(base+4), 41), iter: 1 + c14Mod(op.Int(base+5)-1, 16), sub: c14Mod(op.Int(base+6), 12), path: c14Mod(op.Int(base+7), 4), rcpt: c14Mod(op.Int(base+8), 2),
	}
	return s
}

// store writes key into slot under spec, records it in the ledger and reads it back at once.
func (e *c14Env) store(i int, opKind string, key *c14Key, spec c14Spec, slot int, rd *sim.ScriptReader, tolerate bool) *c14Rec {
	c := e.c
	slot = c14Mod(slot, 4)
	out, desc, bare, err := c14StoreBytes(key, &spec, rd, e.rcpt[spec.rcpt])
	c.OutErr("store", err)
	if err != nil {
		switch {
		case rd.Fired:
			c.Hit("fault:reader-fault-during-store")
		case tolerate:
			c.Hit("probe:sm9-user-key-without-master-public-key-refused")
		default:
			c.Fail("store-failed", i, opKind, "storing a %s key (scalar class %d) into %s [%s] failed: %v", c14KindName[key.kind], key.sclass, c14ContainerName[spec.ck], desc, err)
		}
		return nil
	}
	if rd.Fired {
		c.Hit("fault:reader-fault-survived")
	}
	if rd.Chunk > 0 && rd.Calls > 0 {
		c.Hit("fault:reader-short-reads")
	}
	c.Out("disk", out)
	rec := &c14Rec{slot: slot, ver: len(e.slots[slot]), spec: spec, key: key, bytes: out, bare: bare, desc: desc}
	rec.auth = spec.gcm() || spec.ck == c14Envelope || spec.ck == c14CFCA
	if rec.auth {
		prot, ok := c14Protected(rec)
		if !ok {
			c.Fail("container-format", i, opKind, "%s [%s]: the container does not have the documented structure", c14ContainerName[spec.ck], desc)
			return nil
		}
		rec.prot = prot
	}
	e.stores++
	c.Hit("probe:container/" + c14ContainerName[spec.ck])
	c.Hit("probe:key/" + c14KindName[key.kind])
	if spec.ck == c14P8Enc {
		switch spec.ek {
		case c14EkPBES2:
			c.Hit("probe:pbes2-cipher/" + c14CipherName[spec.cipher])
			c.Hit("probe:kdf/" + c14KDFName[spec.kdf])
		case c14EkSMPBES:
			c.Hit("probe:encrypter/sm-pbes")
		case c14EkSMPBESKDF:
			c.Hit("probe:encrypter/sm-pbes-with-kdf")
			c.Hit("probe:kdf/" + c14KDFName[spec.kdf])
		default:
			c.Hit("probe:encrypter/pbes1-" + c14PBES1Name[c14Mod(spec.cipher, len(c14PBES1))])
		}
		c.Hit(fmt.Sprintf("probe:salt-source/%d", spec.path&1))
		if spec.path&2 != 0 {
			c.Hit("probe:encrypter-object-reuse-requested")
		}
	}
	if spec.ck == c14PEM || spec.ck == c14SM9 {
		c.Hit("probe:" + desc)
	}
	if key.scalar != nil {
		c.Hit(fmt.Sprintf("probe:scalar-class/%d", key.sclass))
	}
	e.deliver(i, opKind, "read-back", rec, key, out, spec.pw, spec.rcpt, spec.sub, c14JUntouched, rec)
	if c.Failed() {
		return nil
	}
	e.slots[slot] = append(e.slots[slot], rec)
	return rec
}

func c14PwClass(pw []byte) string {
	switch n := len(pw); {
	case n == 0:
		return "0"
	case n < 64:
		return "<64"
	case n == 64:
		return "64"
	case n < 128:
		return "<128"
	case n == 128:
		return "128"
	}
	return ">128"
}

func c14Password(b []byte) []byte {
	if len(b) == 0 {
		return []byte{'p'}
	}
	return trunc(b, 256)
}

func execC14(t *testing.T, p *sim.Program, c *sim.Ctx) {
	mrb := p.C("mrb")%2 != 0
	verifhook.SetMaybeReadDecider(func() bool { return mrb }) // the hidden 0/1-byte pre-read of the randomness consumers is a program knob
	defer verifhook.SetMaybeReadDecider(nil)
	if err := c14Init(); err != nil {
		c.Fail("setup", -1, "setup", "%v", err)
		return
	}
	c14LastEnc.enc = nil
	e := &c14Env{c: c, seed: fitKey(p.CB("seed"), 32)}
	e.keys = &c14Keys{seed: e.seed, mrb: mrb, cache: map[string]*c14Key{}}
	for k := range e.rcpt {
		var err error
		if e.rcpt[k], err = sm2.NewPrivateKey(scalarFrom(e.seed, fmt.Sprintf("c14-rcpt%d", k))); err != nil {
			c.Fail("setup", -1, "setup", "%v", err)
			return
		}
	}
	defer func() {
		if e.stores >= 1 && e.loads >= 2 && c.OpsDone >= 2 {
			c.Nontriv = true
		}
	}()
	for i := range p.Ops {
		op := &p.Ops[i]
		if c.Failed() {
			return
		}
		c.OpsDone++
		switch op.K {
		case "store":
			kind, sc := c14Mod(op.Int(1), c14KeyKinds), c14Mod(op.Int(2), c14ScClasses)
			spec := e.specFrom(op, 3)
			if !c14Compatible(kind, spec.ck) {
				continue
			}
			spec.pw = c14Password(op.Bytes(1))
			key, err := e.keys.get(kind, sc, trunc(op.Bytes(0), 8))
			if err != nil {
				c.Fail("key-construction", i, op.K, "%v", err)
				return
			}
			c.Abs("store", kind, key.sclass, spec.ck, spec.ek, spec.cipher, spec.kdf, spec.salt, c14PwClass(spec.pw), spec.path, op.Int(12) > 0, c14Mod(op.Int(14), 5))
			rd := e.reader(fmt.Sprintf("s%d", i), op.Int(12), op.Int(13), op.Int(14))
			e.store(i, op.K, key, spec, op.Int(0), rd, false)
		case "load":
			rec := e.latest(op.Int(0))
			if rec == nil {
				continue
			}
			c.Abs("load", rec.key.kind, rec.spec.ck, c14Mod(op.Int(1), 12))
			e.deliver(i, op.K, "load", rec, rec.key, rec.bytes, rec.spec.pw, rec.spec.rcpt, op.Int(1), c14JUntouched, rec)
		case "rewrap":
			rec := e.latest(op.Int(0))
			if rec == nil {
				continue
			}
			spec := e.specFrom(op, 1)
			if rec.spec.ck == c14PKIX || rec.key.kind >= c14SM9SignMasterPub {
				continue // a public half cannot be rewrapped into a private-key container
			}
			if !c14Compatible(rec.key.kind, spec.ck) || spec.ck == c14PKIX {
				spec.ck = c14P8Enc // holds every private key kind
			}
			spec.pw = c14Password(op.Bytes(0))
			got, err := c14Load(rec, rec.bytes, rec.spec.pw, e.rcpt[rec.spec.rcpt], op.Int(7))
			e.loads++
			c.OutErr("rewrap-load", err)
			if err != nil {
				c.Fail("roundtrip-refused", i, op.K, "rewrap: the untouched %s [%s] is refused with the right secret: %v", c14ContainerName[rec.spec.ck], rec.desc, err)
				return
			}
			if r := c14Same(rec.key, got, false); r != "" {
				c.Fail("roundtrip-mismatch", i, op.K, "rewrap: the untouched %s [%s] decodes to another key: %s", c14ContainerName[rec.spec.ck], rec.desc, r)
				return
			}
			// the object that goes into the new container is the loaded one; the ledger keeps the original
			carrier := *rec.key
			if carrier.obj, err = c14Carrier(rec.key, got); err != nil {
				c.Fail("roundtrip-mismatch", i, op.K, "rewrap: the loaded key does not convert back to its type: %v", err)
				return
			}
			tolerate := rec.bare && (spec.ck == c14P8Plain || spec.ck == c14P8Enc || spec.ck == c14PEM)
			c.Abs("rewrap", rec.key.kind, rec.key.sclass, rec.spec.ck, spec.ck, spec.ek, spec.cipher, spec.kdf, spec.salt, c14PwClass(spec.pw))
			rd := e.reader(fmt.Sprintf("w%d", i), op.Int(10), op.Int(11), op.Int(12))
			nrec := e.store(i, op.K, &carrier, spec, rec.slot, rd, tolerate)
			if nrec != nil {
				nrec.key = rec.key
				c.Hit("probe:rewrapped")
			}
		case "wrongpw":
			rec := e.latest(op.Int(0))
			if rec == nil {
				continue
			}
			mode := c14Mod(op.Int(1), 6)
			pw, rcpt := append([]byte{}, rec.spec.pw...), rec.spec.rcpt
			switch rec.spec.ck {
			case c14Envelope:
				rcpt = 1 - rcpt
				mode = 9
			case c14P8Enc, c14PEM, c14CFCA:
				switch mode {
				case 0:
					pw[c14Mod(op.Int(3), len(pw))] ^= 1 << uint(c14Mod(op.Int(3)>>8, 8))
				case 1:
					pw = pw[:len(pw)-1]
				case 2:
					pw = append(pw, 1)
				case 3:
					pw = c14Password(op.Bytes(0))
				case 4:
					pw = nil
				default:
					for k := range pw { // case change / high bit: every byte altered
						pw[k] ^= 0x20
					}
				}
				if bytes.Equal(c14Canon(pw), c14Canon(rec.spec.pw)) {
					continue // indistinguishable for HMAC-based KDFs: not a wrong secret
				}
			default:
				continue // no secret
			}
			c.Abs("wrongpw", rec.key.kind, rec.spec.ck, rec.spec.ek, rec.spec.cipher, rec.spec.kdf, mode, c14PwClass(pw))
			e.deliver(i, op.K, "wrong-secret", rec, rec.key, rec.bytes, pw, rcpt, op.Int(2), c14JWrongSecret, rec)
		case "subst", "trunc", "zero", "dup":
			rec := e.latest(op.Int(0))
			if rec == nil || len(rec.bytes) == 0 {
				continue
			}
			n := len(rec.bytes)
			var m []byte
			variant := op.Int(3)
			switch op.K {
			case "subst":
				m = append([]byte{}, rec.bytes...)
				x := byte(op.Int(2))
				if x == 0 {
					x = 1
				}
				m[c14Mod(op.Int(1), n)] ^= x
			case "trunc":
				keep := c14Mod(op.Int(1), n)
				switch c14Mod(op.Int(3), 4) { // torn writes happen at every prefix; the short ones are the rare ones
				case 0:
					keep = c14Mod(op.Int(1), 4)
				case 1:
					keep = n - 1 - c14Mod(op.Int(1), 17)
				}
				if keep < 0 {
					keep = 0
				}
				if keep >= n {
					keep = n - 1
				}
				m = append([]byte{}, rec.bytes[:keep]...)
				variant = op.Int(2)
			case "zero":
				m = append([]byte{}, rec.bytes...)
				start := c14Mod(op.Int(1), n)
				for k := 0; k < 1+c14Mod(op.Int(2)-1, 64) && start+k < n; k++ {
					m[start+k] = 0
				}
			case "dup":
				start := c14Mod(op.Int(1), n)
				l := 1 + c14Mod(op.Int(2)-1, 64)
				if start+l > n {
					l = n - start
				}
				m = append(append(append([]byte{}, rec.bytes[:start+l]...), rec.bytes[start:start+l]...), rec.bytes[start+l:]...)
			}
			if bytes.Equal(m, rec.bytes) {
				continue
			}
			c.Abs(op.K, rec.key.kind, rec.spec.ck, rec.spec.ek, rec.spec.cipher, rec.auth, rec.auth && c14Touches(rec.prot, rec.bytes, m), len(m) == 0)
			c.Hit("fault:" + op.K)
			e.deliver(i, op.K, op.K, rec, rec.key, m, rec.spec.pw, rec.spec.rcpt, variant, c14JAltered, rec)
		case "allbytes":
			rec := e.latest(op.Int(0))
			if rec == nil || len(rec.bytes) == 0 {
				continue
			}
			x := byte(op.Int(1))
			if x == 0 {
				x = 1
			}
			n := len(rec.bytes)
			stride, first := 1, 0
			if n > 240 {
				stride = (n + 239) / 240
				first = c14Mod(op.Int(1)+op.Int(2), stride)
			}
			c.Abs("allbytes", rec.key.kind, rec.spec.ck, rec.spec.ek, rec.spec.cipher, rec.spec.kdf, rec.auth)
			cnt := 0
			for pos := first; pos < n && !c.Failed(); pos += stride {
				m := append([]byte{}, rec.bytes...)
				m[pos] ^= x
				e.deliver(i, op.K, "every-byte-position", rec, rec.key, m, rec.spec.pw, rec.spec.rcpt, op.Int(2), c14JAltered, rec)
				cnt++
			}
			c.HitN("fault:exhaustive-byte-positions", cnt)
		case "swap":
			a, b := e.latest(op.Int(0)), e.latest(op.Int(1))
			if a == nil || b == nil || a == b || len(a.bytes) < 2 || len(b.bytes) < 2 {
				continue
			}
			lim := len(a.bytes)
			if len(b.bytes) < lim {
				lim = len(b.bytes)
			}
			k := 1 + c14Mod(op.Int(2), lim-1)
			ma := append(append([]byte{}, a.bytes[:len(a.bytes)-k]...), b.bytes[len(b.bytes)-k:]...)
			mb := append(append([]byte{}, b.bytes[:len(b.bytes)-k]...), a.bytes[len(a.bytes)-k:]...)
			if bytes.Equal(ma, b.bytes) || bytes.Equal(mb, a.bytes) {
				// the swapped tails reach back to where the two containers start to differ: each slot now simply holds
				// the OTHER container, whole and untouched - not an alteration (and it may well hold the same key)
				c.Hit("probe:swap-exchanged-whole-containers")
				continue
			}
			c.Abs("swap", a.key.kind, a.spec.ck, a.auth, b.key.kind, b.spec.ck, b.auth, sim.LenClass(k, 16))
			c.Hit("fault:misdirected-write")
			// a slot whose protected values all come from the OTHER container is that container with an altered
			// unprotected head: it is judged as such (it may legitimately decode, to the other key)
			sameProt := func(rec *c14Rec, m []byte) bool {
				was, now := c14ProtectedValues(rec, rec.bytes), c14ProtectedValues(rec, m)
				if was == nil || now == nil || len(was) != len(now) {
					return false
				}
				for k := range was {
					if !bytes.Equal(was[k], now[k]) {
						return false
					}
				}
				return true
			}
			oa, ob := a, b
			if a.spec.ck == b.spec.ck && a.auth && b.auth {
				if sameProt(b, ma) {
					oa = b
				}
				if sameProt(a, mb) {
					ob = a
				}
			}
			e.deliver(i, op.K, "tail-swapped", oa, oa.key, ma, oa.spec.pw, oa.spec.rcpt, op.Int(3), c14JAltered, oa)
			if !c.Failed() {
				e.deliver(i, op.K, "tail-swapped", ob, ob.key, mb, ob.spec.pw, ob.spec.rcpt, op.Int(3), c14JAltered, ob)
			}
		case "stale":
			v := e.slots[c14Mod(op.Int(0), 4)]
			if len(v) < 2 {
				continue
			}
			old, cur := v[len(v)-2], v[len(v)-1]
			sameKind := old.spec.ck == cur.spec.ck && old.key.kind == cur.key.kind && (old.spec.ck != c14SM9 || c14Mod(old.spec.sub, 4) == c14Mod(cur.spec.sub, 4) || (c14Mod(old.spec.sub, 4)%3 != 0 && c14Mod(cur.spec.sub, 4)%3 != 0))
			sameSecret := bytes.Equal(old.spec.pw, cur.spec.pw)
			secretDiffers := !bytes.Equal(c14Canon(old.spec.pw), c14Canon(cur.spec.pw))
			switch old.spec.ck {
			case c14Envelope:
				sameSecret = old.spec.rcpt == cur.spec.rcpt
				secretDiffers = !sameSecret
			case c14P8Plain, c14SEC1, c14PKIX, c14SM9:
				sameSecret, secretDiffers = true, false
			}
			// another container format or key type under the current loader: format confusion is not part of the
			// property (only termination is demanded); same format: the old bytes decide
			mode := c14JNoPanic
			switch {
			case sameKind && sameSecret:
				mode = c14JUntouched
			case sameKind && secretDiffers:
				mode = c14JWrongSecret
			case sameKind:
				mode = c14JEither // passwords that differ only in trailing zero bytes
			}
			c.Abs("stale", old.key.kind, old.spec.ck, cur.key.kind, cur.spec.ck, mode)
			c.Hit("fault:stale-read")
			// the vault believes it reads the current version: loader and secret of cur, bytes of old
			ld := *cur
			if sameKind {
				ld.desc = old.desc
			}
			e.deliver(i, op.K, "stale-version", &ld, old.key, old.bytes, cur.spec.pw, cur.spec.rcpt, op.Int(1), mode, old)
		case "lie":
			rec := e.latest(op.Int(0))
			if rec == nil {
				continue
			}
			var m []byte
			kind := c14Mod(op.Int(2), sim.LieKinds)
			if rec.spec.ck == c14PEM {
				blk, _ := pem.Decode(rec.bytes)
				if blk == nil {
					continue
				}
				dek := blk.Headers["DEK-Info"]
				switch kind % 5 {
				case 0:
					if len(dek) > 2 {
						blk.Headers["DEK-Info"] = dek[:len(dek)-2] // IV one byte short
					}
				case 1:
					if len(blk.Bytes) > 1 {
						blk.Bytes = blk.Bytes[:len(blk.Bytes)-1-c14Mod(op.Int(3), 7)%len(blk.Bytes)] // body not a multiple of the block size
					}
				case 2:
					blk.Headers["DEK-Info"] = "X" + dek
				case 3:
					delete(blk.Headers, "DEK-Info")
				default:
					blk.Bytes = nil
				}
				m = pem.EncodeToMemory(blk)
			} else {
				root := sim.ParseAllTLV(rec.bytes)
				if root == nil {
					continue // raw SM9 encodings have no structure to lie about
				}
				flat := root.Flatten()
				idx := c14Mod(op.Int(1), len(flat))
				if op.Int(1) < 0 {
					// aimed lie: one of the protected elements of an authenticating container, else one of the last leaves
					// (ciphertext, IV / nonce, cipher parameters)
					var aim []*sim.TLV
					if rec.auth {
						aim, _, _ = c14ProtectedElems(&rec.spec, root)
					}
					if len(aim) == 0 {
						for _, el := range flat {
							if el.Children == nil {
								aim = append(aim, el)
							}
						}
						if len(aim) > 3 {
							aim = aim[len(aim)-3:]
						}
					}
					if len(aim) > 0 {
						target := aim[c14Mod(-op.Int(1)-1, len(aim))]
						for k, el := range flat {
							if el == target {
								idx = k
							}
						}
					}
				}
				m = sim.ApplyLie(root, idx, kind, 1+c14Mod(op.Int(3), 40))
			}
			if m == nil || bytes.Equal(m, rec.bytes) {
				continue
			}
			c.Abs("lie", rec.key.kind, rec.spec.ck, rec.spec.ek, rec.spec.cipher, rec.auth, kind, op.Int(1) < 0)
			c.Hit("fault:byzantine-re-encoding")
			e.deliver(i, op.K, fmt.Sprintf("re-encoded(lie %d)", kind), rec, rec.key, m, rec.spec.pw, rec.spec.rcpt, op.Int(4), c14JLie, rec)
		case "byz":
			e.byzantine(i, op)
		}
	}
}

// c14Carrier gives a loaded object the Go type the Marshal functions expect for
// this key kind (ParseECPrivateKey returns SM2 keys in the ecdsa type, PKCS#8
// returns ECDH keys as SM2 keys).
func c14Carrier(k *c14Key, got any) (any, error) {
	switch k.kind {
	case c14SM2:
		if g, ok := got.(*ecdsa.PrivateKey); ok {
			return new(sm2.PrivateKey).FromECPrivateKey(g)
		}
	case c14ECDH:
		if g, ok := got.(*sm2.PrivateKey); ok {
			return g.ECDH()
		}
	}
	return got, nil
}

func c14MarshalSEC1(k *c14Key) ([]byte, error) {
	switch o := k.obj.(type) {
	case *sm2.PrivateKey:
		return smx509.MarshalSM2PrivateKey(o)
	case *ecdsa.PrivateKey:
		return smx509.MarshalECPrivateKey(o)
	}
	return nil, fmt.Errorf("not an EC key")
}

// ---- Byzantine producer: out-of-range scalars in well-formed containers

const (
	c14BzSEC1SM2 = iota
	c14BzP8SM2
	c14BzP8EncSM2
	c14BzEnvelope
	c14BzCFCA
	c14BzSEC1P256
	c14BzP8P256
	c14BzSM9SignBare
	c14BzSM9SignP8
	c14BzSM9EncBare
	c14BzSM9EncP8
	c14BzConstructors
	c14BzPEMSM2
	c14BzP8EncSM9
	c14ByzTargets
)

var c14BzName = []string{"sec1/sm2", "pkcs8/sm2", "pkcs8-encrypted/sm2", "sm2-enveloped", "cfca", "sec1/p256", "pkcs8/p256", "sm9-sign-master/asn1", "sm9-sign-master/pkcs8", "sm9-enc-master/asn1", "sm9-enc-master/pkcs8", "constructors", "legacy-pem/sm2", "pkcs8-encrypted/sm9-sign-master"}

func (e *c14Env) byzantine(i int, op *sim.Op) {
	c := e.c
	target, sk, variant := c14Mod(op.Int(0), c14ByzTargets), c14Mod(op.Int(1), c14ByzKinds), c14Mod(op.Int(2), 8)
	pw := c14Password(op.Bytes(0))
	kind := c14SM2
	switch target {
	case c14BzSEC1P256, c14BzP8P256:
		kind = c14EC256
	case c14BzSM9SignBare, c14BzSM9SignP8, c14BzP8EncSM9:
		kind = c14SM9SignMaster
	case c14BzSM9EncBare, c14BzSM9EncP8:
		kind = c14SM9EncMaster
	}
	order, size := c14Order(kind)
	d := c14ByzScalar(sk, order, size)
	octets := c14ScalarOctets(d, size)
	if sk == c14ByzZero && variant&2 != 0 {
		octets = []byte{0} // a producer that strips leading zeros
	}
	// expectation
	const (
		refuse = iota
		accept
		either
	)
	expect := refuse
	switch {
	case sk >= c14ByzCtlMax:
		expect = accept
	case sk == c14ByzNm1 && kind == c14EC256:
		expect = accept // n-1 is a valid ECDSA key
	case sk == c14ByzNm1 && (kind == c14SM9SignMaster || kind == c14SM9EncMaster):
		expect = either // GM/T 0044 allows n-1, the library refuses it: not judged
	}
	c.Abs("byz", target, sk, variant&3, expect)
	c.Hit("fault:byzantine-producer/" + c14BzName[target])
	tmpl, err := e.keys.get(kind, c14ScTwo, nil)
	if err != nil {
		c.Fail("key-construction", i, op.K, "%v", err)
		return
	}
	what := fmt.Sprintf("%s carrying the scalar %s", c14BzName[target], c14ByzName[sk])
	judge := func(entry string, got any, err error, gotScalar func() *big.Int) {
		if c.Failed() {
			return
		}
		c.OutErr("byz", err)
		switch expect {
		case refuse:
			if err == nil {
				c.Fail("out-of-range-scalar-accepted", i, op.K, "%s: %s returned a key (%x) instead of an error", what, entry, trunc(c14Fingerprint(got), 40))
			}
		case accept:
			if err != nil {
				c.Fail("valid-container-refused", i, op.K, "%s: %s refused a well-formed container around a valid scalar: %v", what, entry, err)
				return
			}
			if g := gotScalar(); g == nil || g.Cmp(d) != 0 {
				c.Fail("roundtrip-mismatch", i, op.K, "%s: %s returned the scalar %x", what, entry, g)
				return
			}
			if r := c14Consistent(got); r != "" {
				c.Fail("inconsistent-key", i, op.K, "%s: %s returned a key whose public part does not belong to its private part: %s", what, entry, r)
			}
		}
	}
	scalarOf := func(got any) func() *big.Int {
		return func() *big.Int {
			switch g := got.(type) {
			case *sm2.PrivateKey:
				if g != nil {
					return g.D
				}
			case *sm9.SignMasterPrivateKey:
				if g != nil {
					return new(big.Int).SetBytes(g.Bytes())
				}
			case *sm9.EncryptMasterPrivateKey:
				if g != nil {
					return new(big.Int).SetBytes(g.Bytes())
				}
			case *ecdh.PrivateKey:
				if g != nil {
					return new(big.Int).SetBytes(g.Bytes())
				}
			case *ecdsa.PrivateKey:
				if g != nil {
					return g.D
				}
			}
			return nil
		}
	}
	// the point a consistent producer would publish for d (G when d = 0 mod n)
	pubFor := func() []byte {
		dm := new(big.Int).Mod(d, sm2m.N)
		if dm.Sign() == 0 {
			dm.SetInt64(1)
		}
		x, y := sm2.P256().ScalarBaseMult(dm.FillBytes(make([]byte, 32)))
		return c14EllipticPub(sm2.P256(), x, y)
	}
	setLeaf := func(el *sim.TLV, content []byte) {
		el.Children = nil
		el.Content = content
	}
	// plain containers are built from the library's own encoding of the key d = 2
	buildSEC1 := func() []byte {
		der, err := c14MarshalSEC1(tmpl)
		if err != nil {
			return nil
		}
		root := sim.ParseAllTLV(der)
		el := c14Child(root, 1)
		if el == nil || el.Tag != 0x04 {
			return nil
		}
		setLeaf(el, octets)
		if variant&1 != 0 && len(root.Children) > 2 {
			root.Children = root.Children[:len(root.Children)-1] // without the optional public key
		}
		return root.Encode()
	}
	buildP8 := func() []byte {
		der, err := smx509.MarshalPKCS8PrivateKey(tmpl.obj)
		if err != nil {
			return nil
		}
		root := sim.ParseAllTLV(der)
		var el *sim.TLV
		var content []byte
		if kind == c14SM9SignMaster || kind == c14SM9EncMaster {
			el, content = c14Child(root, 2, 0, 0), c14DERInt(d)
			if el == nil || el.Tag != 0x02 {
				return nil
			}
		} else {
			el, content = c14Child(root, 2, 0, 1), octets
			if el == nil || el.Tag != 0x04 {
				return nil
			}
		}
		setLeaf(el, content)
		return root.Encode()
	}
	malformed := func() {
		c.Fail("container-format", i, op.K, "%s: the library's encoding of the template key does not have the documented structure", what)
	}
	rd := e.reader(fmt.Sprintf("b%d", i), 0, 0, 0)
	switch target {
	case c14BzSEC1SM2, c14BzSEC1P256:
		der := buildSEC1()
		if der == nil {
			malformed()
			return
		}
		c.Out("byz-disk", der)
		if kind == c14SM2 {
			got, err := smx509.ParseSM2PrivateKey(der)
			judge("smx509.ParseSM2PrivateKey", got, err, scalarOf(got))
		}
		got, err := smx509.ParseTypedECPrivateKey(der)
		judge("smx509.ParseTypedECPrivateKey", got, err, scalarOf(got))
		got2, err := smx509.ParseECPrivateKey(der)
		judge("smx509.ParseECPrivateKey", got2, err, scalarOf(got2))
	case c14BzP8SM2, c14BzP8P256, c14BzSM9SignP8, c14BzSM9EncP8:
		der := buildP8()
		if der == nil {
			malformed()
			return
		}
		c.Out("byz-disk", der)
		got, err := smx509.ParsePKCS8PrivateKey(der)
		judge("smx509.ParsePKCS8PrivateKey", got, err, scalarOf(got))
		got, _, err = pkcs8.ParsePrivateKey(der, nil)
		judge("pkcs8.ParsePrivateKey", got, err, scalarOf(got))
	case c14BzP8EncSM2, c14BzP8EncSM9:
		plain := buildP8()
		if plain == nil {
			malformed()
			return
		}
		spec := c14Spec{ck: c14P8Enc, ek: c14EkPBES2, cipher: c14Mod(op.Int(3), len(c14Ciphers)), kdf: c14Mod(op.Int(4), c14KDFs), salt: 8, iter: 1 + c14Mod(op.Int(5), 4), pw: pw}
		enc, name, err := c14Encrypter(&spec, rd)
		if err != nil {
			c.Fail("store-failed", i, op.K, "%s: %v", name, err)
			return
		}
		alg, data, err := enc.Encrypt(rd, pw, plain)
		if err != nil || alg == nil {
			c.Fail("store-failed", i, op.K, "%s: Encrypt failed: %v", name, err)
			return
		}
		der, err := asn1.Marshal(c14EPKI{Alg: *alg, Data: data})
		if err != nil {
			c.Fail("harness", i, op.K, "%v", err)
			return
		}
		c.Out("byz-disk", der)
		what += " under " + name
		got, _, err := pkcs8.ParsePrivateKey(der, pw)
		judge("pkcs8.ParsePrivateKey", got, err, scalarOf(got))
	case c14BzPEMSM2:
		inner := buildSEC1()
		if inner == nil {
			malformed()
			return
		}
		blk, err := smx509.EncryptPEMBlock(rd, "EC PRIVATE KEY", inner, pw, smx509.PEMCipher(1+c14Mod(op.Int(3), 6)))
		if err != nil {
			c.Fail("store-failed", i, op.K, "EncryptPEMBlock: %v", err)
			return
		}
		text := pem.EncodeToMemory(blk)
		c.Out("byz-disk", text)
		back, _ := pem.Decode(text)
		if back == nil {
			c.Fail("harness", i, op.K, "PEM text does not decode")
			return
		}
		der, err := smx509.DecryptPEMBlock(back, pw)
		if err != nil {
			c.Fail("roundtrip-refused", i, op.K, "%s: DecryptPEMBlock refused the right password: %v", what, err)
			return
		}
		got, err := smx509.ParseSM2PrivateKey(der)
		judge("DecryptPEMBlock + ParseSM2PrivateKey", got, err, scalarOf(got))
	case c14BzSM9SignBare, c14BzSM9EncBare:
		body := c14DERInt(d)
		der := append(append([]byte{0x02}, derLenBytes(len(body))...), body...)
		if variant&1 != 0 { // SEQUENCE { INTEGER } form
			der = append(append([]byte{0x30}, derLenBytes(len(der))...), der...)
		}
		c.Out("byz-disk", der)
		if kind == c14SM9SignMaster {
			got, err := sm9.UnmarshalSignMasterPrivateKeyASN1(der)
			judge("sm9.UnmarshalSignMasterPrivateKeyASN1", got, err, scalarOf(got))
		} else {
			got, err := sm9.UnmarshalEncryptMasterPrivateKeyASN1(der)
			judge("sm9.UnmarshalEncryptMasterPrivateKeyASN1", got, err, scalarOf(got))
		}
	case c14BzEnvelope:
		o := tmpl.obj.(*sm2.PrivateKey)
		rcpt := e.rcpt[variant&1]
		der, err := sm2.MarshalEnvelopedPrivateKey(rd, &rcpt.PublicKey, o)
		if err != nil {
			c.Fail("store-failed", i, op.K, "MarshalEnvelopedPrivateKey: %v", err)
			return
		}
		root := sim.ParseAllTLV(der)
		if root == nil || len(root.Children) != 4 || root.Children[2].Tag != 0x03 || root.Children[3].Tag != 0x03 {
			malformed()
			return
		}
		symKey := rd.Stream(16) // the first 16 bytes the producer drew
		blk, err := sm4.NewCipher(symKey)
		if err != nil {
			c.Fail("harness", i, op.K, "%v", err)
			return
		}
		pt := octets
		if len(pt)%16 != 0 {
			pt = append(make([]byte, 16-len(pt)%16), pt...)
		}
		ct := make([]byte, len(pt))
		for k := 0; k < len(pt); k += 16 {
			blk.Encrypt(ct[k:k+16], pt[k:k+16])
		}
		setLeaf(root.Children[2], append([]byte{0}, pubFor()...))
		setLeaf(root.Children[3], append([]byte{0}, ct...))
		m := root.Encode()
		c.Out("byz-disk", m)
		got, err := sm2.ParseEnvelopedPrivateKey(rcpt, m)
		judge("sm2.ParseEnvelopedPrivateKey", got, err, scalarOf(got))
	case c14BzCFCA:
		fake := new(sm2.PrivateKey) // the key object of a producer that does not validate: D as given, the public point it claims
		fake.Curve = sm2.P256()
		fake.D = d
		claimed := pubFor()
		fake.X, fake.Y = new(big.Int).SetBytes(claimed[1:33]), new(big.Int).SetBytes(claimed[33:])
		cert, err := c14SurgeryCert(claimed)
		if err != nil {
			c.Fail("harness", i, op.K, "certificate: %v", err)
			return
		}
		der, err := cfca.MarshalSM2(pw, fake, cert)
		if err != nil {
			c.Fail("store-failed", i, op.K, "cfca.MarshalSM2: %v", err)
			return
		}
		c.Out("byz-disk", der)
		got, _, err := cfca.ParseSM2(pw, der)
		judge("cfca.ParseSM2", got, err, scalarOf(got))
	case c14BzConstructors:
		got, err := sm2.NewPrivateKey(octets)
		judge("sm2.NewPrivateKey", got, err, scalarOf(got))
		got, err = sm2.NewPrivateKeyFromInt(d)
		judge("sm2.NewPrivateKeyFromInt", got, err, scalarOf(got))
		eg, err := ecdh.P256().NewPrivateKey(octets)
		judge("ecdh.P256().NewPrivateKey", eg, err, scalarOf(eg))
	}
}
