package props

import (
	"bytes"
	"crypto"
	"crypto/ecdsa"
	"crypto/sha1"
	"crypto/sha256"
	"crypto/sha512"
	"crypto/x509"
	"crypto/x509/pkix"
	"errors"
	"fmt"
	"math/big"
	"strings"
	"time"

	"github.com/emmansun/gmsm/smx509"

	"verif/harness/model/sm2m"
	"verif/harness/model/sm3m"
	"verif/harness/sim"
)

// ---------------------------------------------------------------------------
// per-certificate pool constraints (CertPool.AddCertWithConstraint)

// c15Cons is the deterministic predicate a verifier attaches to one pool
// member. It judges the certificates BELOW the constrained one (leaf first).
// Every kind is monotone: a refused list stays refused when certificates are
// appended, so the oracle's demand (the predicate accepts the part of a
// returned chain below the constrained certificate) is the weakest one under
// both readings of "the whole chain" (with or without the candidate and what
// follows it).
//
//	kind 0: refuse more than param certificates below
//	kind 1: refuse if certificate #param (model record) is below
//	kind 2: refuse everything
//	kind 3: accept everything
type c15Cons struct{ kind, param int }

func (k *c15Cons) String() string {
	if k == nil {
		return "none"
	}
	return fmt.Sprintf([...]string{"at most %d certificates below", "certificate #%d not below", "refuse all (%d)", "accept all (%d)"}[c15Mod(k.kind, 4)], k.param)
}

func (k *c15Cons) accept(below []*c15Cert) bool {
	switch c15Mod(k.kind, 4) {
	case 0:
		return len(below) <= k.param
	case 1:
		for _, m := range below {
			if m != nil && m.idx == k.param {
				return false
			}
		}
		return true
	case 2:
		return false
	}
	return true
}

// c15PoolCons: the constraints in force in one verification, by model record, per pool.
type c15PoolCons struct{ roots, inters map[int]*c15Cons }

func (pc *c15PoolCons) has(asRoot bool, m *c15Cert) bool {
	if pc == nil || m == nil {
		return false
	}
	if asRoot {
		return pc.roots[m.idx] != nil
	}
	return pc.inters[m.idx] != nil
}

func (pc *c15PoolCons) okAt(asRoot bool, m *c15Cert, below []*c15Cert) bool {
	if !pc.has(asRoot, m) {
		return true
	}
	if asRoot {
		return pc.roots[m.idx].accept(below)
	}
	return pc.inters[m.idx].accept(below)
}

var errC15Refused = errors.New("c15: chain refused by the verifier's constraint on this pool member")

// consCallback is what the library gets: it translates the certificates it is
// handed into model records (by their DER) and applies the predicate.
func (r *c15Run) consCallback(k *c15Cons) func([]*smx509.Certificate) error {
	return func(chain []*smx509.Certificate) error {
		below := make([]*c15Cert, 0, len(chain))
		for _, x := range chain {
			if x == nil {
				below = append(below, nil)
				continue
			}
			below = append(below, r.byRaw[string(x.Raw)])
		}
		r.c.Hit("probe:constraint-callback-called")
		if !k.accept(below) {
			r.c.Hit("probe:constraint-callback-refused")
			return errC15Refused
		}
		return nil
	}
}

// ---------------------------------------------------------------------------
// extended key usage (VerifyOptions.KeyUsages)

// c15EKUCompatible: the documented rule ("A chain is accepted if it allows any
// of the listed values. An empty list means ExtKeyUsageServerAuth", enforced
// "nested down a chain"): some requested usage u exists such that every
// certificate of the chain has no extended key usage, or anyExtendedKeyUsage,
// or lists u. Callers handle a requested ExtKeyUsageAny themselves.
func c15EKUCompatible(chain []*c15Cert, requested []x509.ExtKeyUsage) bool {
	if len(requested) == 0 {
		requested = []x509.ExtKeyUsage{x509.ExtKeyUsageServerAuth}
	}
	for _, u := range requested {
		all := true
		for _, m := range chain {
			if len(m.eku) == 0 {
				continue
			}
			permits := false
			for _, e := range m.eku {
				if e == u || e == x509.ExtKeyUsageAny {
					permits = true
				}
			}
			if !permits {
				all = false
				break
			}
		}
		if all {
			return true
		}
	}
	return false
}

func c15EKUList(chain []*c15Cert) string {
	var parts []string
	for _, m := range chain {
		parts = append(parts, fmt.Sprintf("#%d%v", m.idx, m.eku))
	}
	return strings.Join(parts, " ")
}

// ---------------------------------------------------------------------------
// direct signature checks (Certificate.CheckSignature / CheckSignatureWithDigest)

// c15Digest computes, without the library, the digest a signature of algorithm
// alg is made over: the named hash of msg, or for SM2-SM3 e = SM3(ZA || msg)
// with ZA from the default user id and the signer's public key. ok=false: the
// algorithm has no separate digest (Ed25519) or is not known here.
func c15Digest(alg x509.SignatureAlgorithm, pub crypto.PublicKey, msg []byte) (d []byte, ok bool) {
	switch alg {
	case x509.SHA1WithRSA, x509.ECDSAWithSHA1:
		h := sha1.Sum(msg)
		return h[:], true
	case x509.SHA256WithRSA, x509.SHA256WithRSAPSS, x509.ECDSAWithSHA256:
		h := sha256.Sum256(msg)
		return h[:], true
	case x509.SHA384WithRSA, x509.SHA384WithRSAPSS, x509.ECDSAWithSHA384:
		h := sha512.Sum384(msg)
		return h[:], true
	case x509.SHA512WithRSA, x509.SHA512WithRSAPSS, x509.ECDSAWithSHA512:
		h := sha512.Sum512(msg)
		return h[:], true
	case smx509.SM2WithSM3:
		p, isEC := pub.(*ecdsa.PublicKey)
		if !isEC || p.X == nil || p.Y == nil {
			return nil, false
		}
		if p.X.BitLen() > 256 || p.Y.BitLen() > 256 {
			// a key of a larger curve has no ZA; something of the right length keeps the call meaningful (it must be refused)
			h := sm3m.Sum(msg)
			return h[:], true
		}
		e := sm2m.DigestE(sm2m.ZA(sm2m.DefaultUID, sm2m.Point{X: p.X, Y: p.Y}), msg)
		return e[:], true
	}
	return nil, false
}

func c15AlgName(a x509.SignatureAlgorithm) string {
	if a == smx509.SM2WithSM3 {
		return "SM2-SM3"
	}
	return a.String()
}

// c15OtherAlg: an algorithm of the same key family with another hash or padding.
func c15OtherAlg(alg x509.SignatureAlgorithm, sel int) x509.SignatureAlgorithm {
	var fam []x509.SignatureAlgorithm
	switch alg {
	case x509.SHA1WithRSA, x509.SHA256WithRSA, x509.SHA384WithRSA, x509.SHA512WithRSA, x509.SHA256WithRSAPSS, x509.SHA384WithRSAPSS, x509.SHA512WithRSAPSS:
		fam = []x509.SignatureAlgorithm{x509.SHA256WithRSA, x509.SHA384WithRSA, x509.SHA512WithRSA, x509.SHA256WithRSAPSS, x509.SHA384WithRSAPSS, x509.SHA1WithRSA}
	case x509.ECDSAWithSHA1, x509.ECDSAWithSHA256, x509.ECDSAWithSHA384, x509.ECDSAWithSHA512:
		fam = []x509.SignatureAlgorithm{x509.ECDSAWithSHA256, x509.ECDSAWithSHA384, x509.ECDSAWithSHA512, x509.ECDSAWithSHA1, smx509.SM2WithSM3}
	case smx509.SM2WithSM3:
		fam = []x509.SignatureAlgorithm{x509.ECDSAWithSHA256, x509.ECDSAWithSHA384}
	default:
		fam = []x509.SignatureAlgorithm{x509.ECDSAWithSHA256, x509.SHA256WithRSA, smx509.SM2WithSM3}
	}
	for k := 0; k < len(fam); k++ {
		if a := fam[c15Mod(sel+k, len(fam))]; a != alg {
			return a
		}
	}
	return x509.ECDSAWithSHA256
}

// opSig: a verifier holding an issuer certificate checks a signature directly:
// the honest (algorithm, signed bytes, signature) triple of an issued
// certificate or revocation list, then the triple with the signature altered,
// the message / digest altered, another certificate's key, another algorithm.
//
//	sig [obj, pos, xor, otherCert, algSel]
func (r *c15Run) opSig(i int, op sim.Op) {
	c := r.c
	var cands []*c15Obj
	for _, o := range r.objs {
		if o.issuer != nil && (o.kind == "cert" || o.kind == "crl" || o.kind == "crl1") {
			cands = append(cands, o)
		}
	}
	if len(cands) == 0 {
		return
	}
	r.check++
	o := cands[c15Mod(op.Int(0), len(cands))]
	signer := o.issuer
	kt := c15KeyNames[signer.key.typ]
	// the triple as the harness' own TLV reader finds it in the DER object
	tbs := o.der[o.reg.tbs[0]:o.reg.tbs[1]]
	sig := o.der[o.reg.sig[0]:o.reg.sig[1]]
	alg := o.alg
	digest, hasDigest := c15Digest(alg, signer.key.pub, tbs)
	c.Abs("sig", o.kind, kt, int(alg), hasDigest)
	c.Hit("probe:direct-check-" + kt)

	// ---- honest
	if err := signer.x.CheckSignature(alg, tbs, sig); err != nil {
		c.Fail("honest-signature-rejected", i, op.K, "CheckSignature(%s) of the signed portion of an issued %s under the certificate carrying the signing key %s fails: %v", c15AlgName(alg), o.kind, signer.key.id, err)
		return
	}
	if hasDigest {
		if err := signer.x.CheckSignatureWithDigest(alg, digest, sig); err != nil {
			c.Fail("honest-signature-rejected", i, op.K, "CheckSignatureWithDigest(%s) with the digest of the signed portion of an issued %s (computed by the harness; for SM2: SM3(ZA || signed bytes) with the default user id) under the certificate carrying the signing key %s fails: %v", c15AlgName(alg), o.kind, signer.key.id, err)
			return
		}
		c.Hit("probe:direct-digest-check-" + kt)
	} else {
		// Ed25519 has no pre-hashed form; the function documents RSA, ECDSA and SM2 only: outcome recorded, not judged
		c.OutErr("sig-digest-ed25519", signer.x.CheckSignatureWithDigest(alg, tbs, sig))
	}

	bad := func(slug, what string, errRaw, errDig error, digTried bool) bool {
		c.Hit("fault:direct-check-" + slug)
		if errRaw == nil {
			c.Fail("tampering-accepted", i, op.K, "CheckSignature(%s) under certificate #%d (key %s) accepts the signature of an issued %s with %s", c15AlgName(alg), signer.idx, signer.key.id, o.kind, what)
			return true
		}
		if digTried && errDig == nil {
			c.Fail("tampering-accepted", i, op.K, "CheckSignatureWithDigest(%s) under certificate #%d (key %s) accepts the signature of an issued %s with %s", c15AlgName(alg), signer.idx, signer.key.id, o.kind, what)
			return true
		}
		return false
	}
	x := byte(1 + c15Mod(op.Int(2)-1, 255))
	// ---- signature value altered
	{
		s2 := append([]byte{}, sig...)
		s2[c15Mod(op.Int(1), len(s2))] ^= x
		var e2 error
		if hasDigest {
			e2 = signer.x.CheckSignatureWithDigest(alg, digest, s2)
		}
		if bad("signature-altered", "the signature value altered", signer.x.CheckSignature(alg, tbs, s2), e2, hasDigest) {
			return
		}
	}
	// ---- message altered / digest altered
	{
		m2 := append([]byte{}, tbs...)
		m2[c15Mod(op.Int(1), len(m2))] ^= x
		var e2 error
		if hasDigest {
			d2 := append([]byte{}, digest...)
			// ECDSA uses the leftmost bits of a digest longer than the group order only (FIPS 186-4 6.4): alter inside that part
			used := len(d2)
			if ec, isEC := signer.key.pub.(*ecdsa.PublicKey); isEC && ec.Curve != nil {
				if ob := ec.Curve.Params().N.BitLen() / 8; ob < used {
					used = ob
				}
			}
			d2[c15Mod(op.Int(1), used)] ^= x
			e2 = signer.x.CheckSignatureWithDigest(alg, d2, sig)
		}
		if bad("message-or-digest-altered", "the signed bytes (the digest) altered", signer.x.CheckSignature(alg, m2, sig), e2, hasDigest) {
			return
		}
	}
	// ---- digest of another length / empty signature
	if hasDigest {
		if err := signer.x.CheckSignatureWithDigest(alg, digest[:len(digest)-1], sig); err == nil {
			c.Fail("tampering-accepted", i, op.K, "CheckSignatureWithDigest(%s) accepts a digest of %d bytes", c15AlgName(alg), len(digest)-1)
			return
		}
		if bad("empty-signature", "an empty signature", signer.x.CheckSignature(alg, tbs, nil), signer.x.CheckSignatureWithDigest(alg, digest, nil), true) {
			return
		}
	}
	// ---- SM2: the digest without ZA, and with the ZA of another key
	if alg == smx509.SM2WithSM3 && hasDigest {
		plain := sm3m.SumParts(tbs)
		if err := signer.x.CheckSignatureWithDigest(alg, plain[:], sig); err == nil {
			c.Fail("tampering-accepted", i, op.K, "CheckSignatureWithDigest(SM2-SM3) accepts the signature with the plain SM3 digest of the signed bytes (no ZA)")
			return
		}
		c.Hit("fault:direct-check-sm2-digest-without-za")
	}
	// ---- another certificate's key
	var other *c15Cert
	for k := 0; k < len(r.certs); k++ {
		m := r.certs[c15Mod(op.Int(3)+k, len(r.certs))]
		if m.key.id != signer.key.id {
			other = m
			break
		}
	}
	if other != nil {
		var e2 error
		d2, ok2 := c15Digest(alg, other.key.pub, tbs) // what an honest verifier would compute for that key
		if ok2 {
			e2 = other.x.CheckSignatureWithDigest(alg, d2, sig)
		}
		e1 := other.x.CheckSignature(alg, tbs, sig)
		if e1 == nil || (ok2 && e2 == nil) {
			c.Hit("fault:issuer-substituted")
			c.Fail("wrong-issuer-accepted", i, op.K, "the %s was signed with key %s, but its signature verifies under certificate #%d carrying key %s (CheckSignature err=%v, CheckSignatureWithDigest tried=%v err=%v)", o.kind, signer.key.id, other.idx, other.key.id, e1, ok2, e2)
			return
		}
		c.Hit("fault:issuer-substituted")
		if other.key.typ == signer.key.typ {
			c.Hit("probe:direct-check-other-key-same-type-refused")
		}
	}
	// ---- another algorithm of the family (other hash, other padding) with the digest an honest verifier would compute for it
	{
		a2 := c15OtherAlg(alg, op.Int(4))
		d2, ok2 := c15Digest(a2, signer.key.pub, tbs)
		var e2 error
		if ok2 {
			e2 = signer.x.CheckSignatureWithDigest(a2, d2, sig)
		}
		e1 := signer.x.CheckSignature(a2, tbs, sig)
		c.Hit("fault:direct-check-other-algorithm")
		if e1 == nil || (ok2 && e2 == nil) {
			c.Fail("tampering-accepted", i, op.K, "a signature made with %s by key %s verifies as %s (CheckSignature err=%v, CheckSignatureWithDigest tried=%v err=%v)", c15AlgName(alg), signer.key.id, c15AlgName(a2), e1, ok2, e2)
			return
		}
		// the digest of the ORIGINAL algorithm under another algorithm's name
		if hasDigest {
			if err := signer.x.CheckSignatureWithDigest(a2, digest, sig); err == nil {
				c.Fail("tampering-accepted", i, op.K, "a signature made with %s by key %s verifies with its digest under the name of %s", c15AlgName(alg), signer.key.id, c15AlgName(a2))
				return
			}
		}
	}
}

// ---------------------------------------------------------------------------
// the deprecated revocation list producer (Certificate.CreateCRL) and parsers (ParseCRL, ParseDERCRL)

// opCRL1: a CA node publishes a revocation list with the deprecated
// Certificate.CreateCRL; a verifier parses it with both generations of
// parsers and checks it under the issuer.
//
//	crl1 [issuer, entries, thisH, nextH, signWith(0 issuer key, k+1 key of cert k), randMode, modelCheck, pos, xor]
func (r *c15Run) opCRL1(i int, op sim.Op) {
	c := r.c
	if len(r.certs) == 0 {
		return
	}
	r.check++
	issuer := r.certs[c15Mod(op.Int(0), len(r.certs))]
	signKey := issuer.key
	if op.Int(4) > 0 {
		signKey = r.certs[c15Mod(op.Int(4)-1, len(r.certs))].key
	}
	foreign := signKey.id != issuer.key.id
	_, algWant, _, _ := c15SigAlg(signKey.typ, 0)
	now := time.Now().UTC().Truncate(time.Second)
	this := now.Add(time.Duration(c15Clamp(op.Int(2), -24*400, 24*400)) * time.Hour)
	next := this.Add(time.Duration(c15Clamp(op.Int(3), 0, 24*400)) * time.Hour)
	nent := c15Clamp(op.Int(1), 0, 6)
	var revoked []pkix.RevokedCertificate
	for k := 0; k < nent; k++ {
		revoked = append(revoked, pkix.RevokedCertificate{SerialNumber: big.NewInt(int64(2000 + 13*k + c15Mod(op.Int(7), 89))), RevocationTime: this.Add(-time.Duration(k+1) * time.Hour)})
	}
	c.Abs("crl1", c15KeyNames[signKey.typ], foreign, nent, issuer.canSignCRLs())
	der, err := issuer.x.CreateCRL(r.rnd(op.Int(5)), signKey.signer, revoked, this, next)
	c.OutErr("crl1-create", err)
	if err != nil {
		c.Fail("create-refused", i, op.K, "Certificate.CreateCRL (issuer #%d, key %s) refused: %v", issuer.idx, signKey.id, err)
		return
	}
	c.Out("crl1", der)
	c.Hit("probe:legacy-crl")
	bad := func(parser, field string, got, want any) {
		c.Fail("roundtrip-mismatch", i, op.K, "legacy revocation list field %s parses back (%s) as %v, the request said %v", field, parser, got, want)
	}
	reg := c15Locate(der)
	if !reg.ok {
		c.Fail("der-layout", i, op.K, "the harness' TLV reader cannot find the three parts of the legacy revocation list")
		return
	}
	// ---- old parsers
	var oid []int
	for _, parser := range []string{"ParseCRL", "ParseDERCRL"} {
		var cl *pkix.CertificateList
		if parser == "ParseCRL" {
			cl, err = smx509.ParseCRL(der)
		} else {
			cl, err = smx509.ParseDERCRL(der)
		}
		if err != nil {
			c.Fail("issued-object-unparsable", i, op.K, "a revocation list made by Certificate.CreateCRL does not parse with %s: %v", parser, err)
			return
		}
		oid = cl.SignatureAlgorithm.Algorithm
		var icn string
		var name pkix.Name
		name.FillFromRDNSequence(&cl.TBSCertList.Issuer)
		icn = name.CommonName
		switch {
		case !bytes.Equal(cl.TBSCertList.Raw, der[reg.tbs[0]:reg.tbs[1]]):
			bad(parser, "TBSCertList.Raw", len(cl.TBSCertList.Raw), reg.tbs[1]-reg.tbs[0])
		case icn != issuer.cn:
			bad(parser, "Issuer.CommonName", icn, issuer.cn)
		case !cl.TBSCertList.ThisUpdate.Equal(this):
			bad(parser, "ThisUpdate", cl.TBSCertList.ThisUpdate, this)
		case !cl.TBSCertList.NextUpdate.Equal(next):
			bad(parser, "NextUpdate", cl.TBSCertList.NextUpdate, next)
		case len(cl.TBSCertList.RevokedCertificates) != nent:
			bad(parser, "len(RevokedCertificates)", len(cl.TBSCertList.RevokedCertificates), nent)
		}
		for k := 0; k < nent && !c.Failed(); k++ {
			e, w := cl.TBSCertList.RevokedCertificates[k], revoked[k]
			if e.SerialNumber == nil || e.SerialNumber.Cmp(w.SerialNumber) != 0 || !e.RevocationTime.Equal(w.RevocationTime) {
				bad(parser, "RevokedCertificates", e.SerialNumber, w.SerialNumber)
			}
		}
		if c.Failed() {
			return
		}
		errOld := issuer.x.CheckCRLSignature(cl)
		c.OutErr("crl1-old", errOld)
		switch {
		case foreign && errOld == nil:
			c.Fail("wrong-issuer-accepted", i, op.K, "the legacy revocation list was signed with key %s but CheckCRLSignature succeeds under issuer certificate #%d carrying key %s", signKey.id, issuer.idx, issuer.key.id)
		case !foreign && errOld != nil:
			c.Fail("honest-signature-rejected", i, op.K, "CheckCRLSignature of the legacy revocation list (%s, key %s) under its issuer fails: %v", parser, signKey.id, errOld)
		}
		if c.Failed() {
			return
		}
	}
	// ---- current parser
	rl, err := smx509.ParseRevocationList(der)
	if err != nil {
		c.Fail("issued-object-unparsable", i, op.K, "a revocation list made by Certificate.CreateCRL does not parse with ParseRevocationList: %v", err)
		return
	}
	switch {
	case !bytes.Equal(rl.RawTBSRevocationList, der[reg.tbs[0]:reg.tbs[1]]):
		bad("ParseRevocationList", "RawTBSRevocationList", len(rl.RawTBSRevocationList), reg.tbs[1]-reg.tbs[0])
	case rl.Issuer.CommonName != issuer.cn:
		bad("ParseRevocationList", "Issuer.CommonName", rl.Issuer.CommonName, issuer.cn)
	case !rl.ThisUpdate.Equal(this):
		bad("ParseRevocationList", "ThisUpdate", rl.ThisUpdate, this)
	case !rl.NextUpdate.Equal(next):
		bad("ParseRevocationList", "NextUpdate", rl.NextUpdate, next)
	case !bytes.Equal(rl.AuthorityKeyId, issuer.x.SubjectKeyId):
		bad("ParseRevocationList", "AuthorityKeyId", rl.AuthorityKeyId, issuer.x.SubjectKeyId)
	case len(rl.RevokedCertificateEntries) != nent:
		bad("ParseRevocationList", "len(RevokedCertificateEntries)", len(rl.RevokedCertificateEntries), nent)
	case rl.SignatureAlgorithm != algWant:
		bad("ParseRevocationList", "SignatureAlgorithm", rl.SignatureAlgorithm, algWant)
	case !bytes.Equal(rl.Signature, der[reg.sig[0]:reg.sig[1]]):
		bad("ParseRevocationList", "Signature", len(rl.Signature), reg.sig[1]-reg.sig[0])
	}
	for k := 0; k < nent && !c.Failed(); k++ {
		e, w := rl.RevokedCertificateEntries[k], revoked[k]
		if e.SerialNumber == nil || e.SerialNumber.Cmp(w.SerialNumber) != 0 || !e.RevocationTime.Equal(w.RevocationTime) {
			bad("ParseRevocationList", "RevokedCertificateEntries", e.SerialNumber, w.SerialNumber)
		}
	}
	if c.Failed() {
		return
	}
	errRaw := issuer.x.CheckSignature(rl.SignatureAlgorithm, rl.RawTBSRevocationList, rl.Signature)
	errGated := rl.CheckSignatureFrom(issuer.x)
	c.OutErr("crl1-raw", errRaw)
	c.OutErr("crl1-gated", errGated)
	switch {
	case foreign && (errRaw == nil || errGated == nil):
		c.Fail("wrong-issuer-accepted", i, op.K, "the legacy revocation list was signed with key %s but verifies under issuer certificate #%d carrying key %s (raw err=%v, CheckSignatureFrom err=%v)", signKey.id, issuer.idx, issuer.key.id, errRaw, errGated)
	case !foreign && errRaw != nil:
		c.Fail("honest-signature-rejected", i, op.K, "the legacy revocation list signed with key %s (%v) does not verify under its issuer's key: %v", signKey.id, rl.SignatureAlgorithm, errRaw)
	case !foreign && issuer.canSignCRLs() && errGated != nil:
		c.Fail("honest-signature-rejected", i, op.K, "CheckSignatureFrom of the legacy revocation list under its issuer (CA with cRLSign) fails: %v", errGated)
	case !foreign && !issuer.canSignCRLs() && errGated == nil:
		c.Fail("non-ca-issuer-accepted", i, op.K, "RevocationList.CheckSignatureFrom accepts certificate #%d (basicConstraints=%v cA=%v keyUsage=%#x) as issuer of the legacy revocation list", issuer.idx, issuer.bc, issuer.ca, int(issuer.ku))
	}
	if c.Failed() {
		return
	}
	if foreign {
		c.Hit("fault:issuer-substituted")
		return
	}
	if rl.SignatureAlgorithm == smx509.SM2WithSM3 && op.Int(6)&1 == 1 {
		if !r.sm2ModelCheck(i, op.K, der, signKey) {
			return
		}
	}
	o := &c15Obj{kind: "crl1", der: der, issuer: issuer, gated: issuer.canSignCRLs(), reg: reg, tbs: rl.RawTBSRevocationList, alg: rl.SignatureAlgorithm, sig: rl.Signature, oid: oid}
	r.objs = append(r.objs, o)
	c.Hit("probe:legacy-crl-" + c15KeyNames[signKey.typ])
	// ---- one byte of the signed portion, one of the signature value altered: every parser / check pair must refuse
	x := byte(1 + c15Mod(op.Int(8)-1, 255))
	for _, pos := range []int{reg.tbs[0] + c15Mod(op.Int(7), reg.tbs[1]-reg.tbs[0]), reg.sig[0] + c15Mod(op.Int(7), reg.sig[1]-reg.sig[0])} {
		c.Hit("fault:byte-altered-" + c15RegionNames[reg.class(pos)])
		r.judgeAltered(i, op, o, pos, x, true)
		if c.Failed() {
			return
		}
	}
}
