package props

import (
	"bytes"
	"crypto/ecdsa"
	"crypto/elliptic"
	"fmt"
	"io"
	"math/big"
	"testing"

	"github.com/emmansun/gmsm/ecdh"
	"github.com/emmansun/gmsm/sm2"
	"github.com/emmansun/gmsm/sm9"
	"github.com/emmansun/gmsm/verifhook"

	"verif/harness/model/sm2m"
	"verif/harness/model/sm3m"
	"verif/harness/sim"
)

// C12: every operation that draws a secret scalar gets the simulator's
// scripted reader. Fidelity: the scalar actually used (recovered from the
// output with the private key) equals the first in-range 32-byte block of the
// stream, and exactly the expected number of bytes was consumed. Failure: the
// operation is re-executed once per (read index, fault kind) - an exhaustive
// enumeration per operation instance - and must return an error and nothing
// else, without panicking, leaving its objects usable.

func init() {
	selfTests("C12", sm3m.SelfTest, sm2m.SelfTest)
	for _, id := range []string{"C06", "C07", "C08", "C15", "C16"} {
		SelfTestsOf[id] = append(SelfTestsOf[id], sm3m.SelfTest, sm2m.SelfTest)
	}
	SelfTestsOf["C10"] = append(SelfTestsOf["C10"], sm3m.SelfTest)
	register(&Prop{
		ID:        "C12",
		Level:     "fault_enumeration",
		Nodes:     func(tier string) []string { return []string{"avx2", "purego"} },
		Cross:     true,
		Gen:       genC12,
		Exec:      execC12,
		QuickSecs: 30, ThoroughSecs: 600, RunsPerJob: 60,
		Rule: "a run is one operation instance (SM2 keygen / sign / encrypt / key-exchange init and respond, ECDH keygen, SM9 sign- and encrypt-master keygen / sign / wrap / encrypt / key-exchange init) with a scripted random stream (32-byte blocks chosen from {0, 1, n-2, n-1, n, n+1, 2^256-1, random} in seeded order, read chunk size 1..32 or unlimited, hidden pre-read decided by the hook); phase 1 checks fidelity of the scalar and of the number of bytes consumed; phase 2 enumerates EVERY read index of the fault-free execution x {error, EOF, partial data + error, partial data + EOF} (sticky) and requires an error, empty outputs and no panic; phase 3 re-runs the operation fault-free on the same objects; " +
			"abstract case = (operation, block-kind sequence, pre-read, chunk class); non-trivial = at least one fault execution; distinct = distinct abstract cases",
		Real:  []string{"sm2 (GenerateKey, SignASN1, Encrypt, KeyExchange)", "ecdh.GenerateKey", "sm9 + internal/sm9 (master key generation, Sign, WrapKey, Encrypt, KeyExchange)", "internal/randutil (MaybeReadByte, through the verif hook)"},
		Stubs: []string{"random source: scripted reader (content, short reads, sticky faults at every read index)", "MaybeReadByte coin: decided by the program"},
		Assume: []string{"SM2 scalars are recovered with the math/big model (harness/model/sm2m): k = s(1+d)+rd mod n, C1 = [k]G, R = [r]G",
			"SM9 scalars are verified in the groups through the verif-tagged re-export of bn256: S = [r-h]dsA for signatures, e(C, de) = e(Ppub, P2)^r for wrap / encrypt / key exchange (library group arithmetic is trusted for this comparison; the sampling code is what is checked)",
			"retry branches other than range rejection (r = 0, s = 0, all-zero mask) have negligible probability and are not driven here"},
	})
}

var c12Ops = []string{"sm2.keygen", "sm2.sign", "sm2.encrypt", "sm2.kxinit", "sm2.kxrespond", "ecdh.keygen", "sm9.skeygen", "sm9.ekeygen", "sm9.sign", "sm9.wrap", "sm9.encrypt", "sm9.kxinit", "legacy.sign", "legacy.encrypt", "sm9.kxrespond", "sm2.signretry", "sm9.wrapretry", "sm2.envelope", "sm9.kxinit2"}

func genC12(r *sim.Rand, tier string) *sim.Program {
	p := &sim.Program{Prop: "C12"}
	op := r.Weighted(6, 8, 6, 4, 4, 6, 2, 2, 2, 2, 2, 2, 2, 2, 1, 2, 1, 3, 1)
	p.SetC("op", op)
	p.SetC("pre", r.Intn(2))
	p.SetC("chunk", r.PickInt(0, 0, 1, 7, 16, 31, 32, 33))
	p.SetCB("seed", r.Bytes(32))
	// block kinds: some rejected specials first (with some probability), then a block that must be accepted
	nrej := r.PickInt(0, 0, 0, 1, 1, 2, 3)
	o := p.Add("stream")
	for i := 0; i < nrej; i++ {
		o.I = append(o.I, int64(r.PickInt(0, 3, 4, 5, 6, 0, 4, 6)))
	}
	o.I = append(o.I, int64(r.PickInt(7, 7, 7, 1, 2, 3)))
	o.WithB(r.Bytes(32), r.Bytes(8))
	p.Add("msg").WithB(r.Bytes(r.PickInt(1, 16, 32, 33, 100)))
	return p
}

// secp160r1 (SEC 2): a curve whose ORDER (161 bits) is longer than its field (160 bits) - the block that a nonce is drawn
// from is sized by the order (FIPS 186-4 B.5.2), not by the field. crypto/elliptic's generic arithmetic applies (a = -3).
var c12Secp160r1 = func() *elliptic.CurveParams {
	h := func(s string) *big.Int { v, _ := new(big.Int).SetString(s, 16); return v }
	return &elliptic.CurveParams{Name: "secp160r1", BitSize: 160,
		P:  h("FFFFFFFFFFFFFFFFFFFFFFFFFFFFFFFF7FFFFFFF"),
		N:  h("0100000000000000000001F4C8F927AED3CA752257"),
		B:  h("1C97BEFC54BD7A8B65ACF89F81D4D4ADC565FA45"),
		Gx: h("4A96B5688EF573284664698968C38BB913CBFC82"),
		Gy: h("23A628553168947D59DCC912042351377AC5FB32")}
}()

var c12SM9Order = func() *big.Int {
	n, _ := new(big.Int).SetString("B640000002A3A6F1D603AB4FF58EC74449F2934B18EA8BEEE56EE19CD69ECF25", 16)
	return n
}()

type c12Case struct {
	name    string
	order   *big.Int
	hiOff   int64 // accepted range is [1, order-hiOff]
	xor42   bool
	run     func(rd io.Reader) ([][]byte, error)
	check   func(k *big.Int, outs [][]byte) string // "" if the outputs were produced with scalar k
	usesPre bool
	// reject, if set, is a further legitimate reason of the algorithm to discard an in-range block and draw the next one
	reject func(k *big.Int) bool
	// prepare, if set, is told the first in-range block of the stream before the run and arranges the inputs of the
	// operation so that the ALGORITHM legitimately discards exactly that block (reject then answers for it)
	prepare func(first *big.Int)
	// findRejected, if set, searches a block that the algorithm legitimately discards for the fixed inputs of the case
	// (nil if none was found within the budget); the executor puts it in front of the stream
	findRejected func() []byte
	// blockLen / shift: curves other than 256-bit ones (sm2_legacy.go randFieldElement, the FIPS 186-4 B.5.2 procedure
	// its comment pins down: ceil(bitlen(n)/8) bytes, the excess bits shifted out of the FIRST byte). 0 / 0 = the
	// 32-byte blocks of the statement.
	blockLen int
	shift    uint
}

func (cs *c12Case) bl() int {
	if cs.blockLen > 0 {
		return cs.blockLen
	}
	return 32
}

// enc: the stream bytes from which the library derives the value v.
func (cs *c12Case) enc(v *big.Int) []byte {
	b := v.FillBytes(make([]byte, cs.bl()))
	b[0] <<= cs.shift
	return b
}

// dec: the value the library derives from a block of stream bytes.
func (cs *c12Case) dec(b []byte) *big.Int {
	c := append([]byte{}, b...)
	c[0] >>= cs.shift
	return new(big.Int).SetBytes(c)
}

// block returns the stream bytes of a block of the given kind and the value it stands for.
func (cs *c12Case) block(kind int, rnd []byte) ([]byte, *big.Int) {
	if cs.blockLen == 0 {
		b := c12Block(kind, cs.order, rnd)
		return b, new(big.Int).SetBytes(b)
	}
	v := new(big.Int)
	switch kind {
	case 0:
	case 1:
		v.SetInt64(1)
	case 2:
		v.Sub(cs.order, big.NewInt(2))
	case 3:
		v.Sub(cs.order, big.NewInt(1))
	case 4:
		v.Set(cs.order)
	case 5:
		v.Add(cs.order, big.NewInt(1))
	case 6:
		b := bytes.Repeat([]byte{0xff}, cs.bl())
		return b, cs.dec(b)
	default:
		b := fitKey(rnd, cs.bl())
		return b, cs.dec(b)
	}
	return cs.enc(v), v
}

func c12Block(kind int, order *big.Int, rnd []byte) []byte {
	v := new(big.Int)
	switch kind {
	case 0:
	case 1:
		v.SetInt64(1)
	case 2:
		v.Sub(order, big.NewInt(2))
	case 3:
		v.Sub(order, big.NewInt(1))
	case 4:
		v.Set(order)
	case 5:
		v.Add(order, big.NewInt(1))
	case 6:
		v.Sub(new(big.Int).Lsh(big.NewInt(1), 256), big.NewInt(1))
	default:
		// uniform 32 bytes: the top bits are deliberately NOT cleared (a value >= order is simply rejected)
		return fitKey(rnd, 32)
	}
	return v.FillBytes(make([]byte, 32))
}

func g1FromBytes(b []byte) (*verifhook.G1, error) {
	if len(b) == 65 && b[0] == 4 {
		b = b[1:]
	}
	g := new(verifhook.G1)
	_, err := g.Unmarshal(b)
	return g, err
}

func g2FromBytes(b []byte) (*verifhook.G2, error) {
	if len(b) == 129 && b[0] == 4 {
		b = b[1:]
	}
	g := new(verifhook.G2)
	_, err := g.Unmarshal(b)
	return g, err
}

func execC12(t *testing.T, p *sim.Program, c *sim.Ctx) {
	opn := c12Ops[((p.C("op")%len(c12Ops))+len(c12Ops))%len(c12Ops)]
	pre := p.C("pre")&1 == 1
	chunk := p.C("chunk")
	if chunk < 0 || chunk > 64 {
		chunk = 0
	}
	seed := fitKey(p.CB("seed"), 32)
	var kinds []int
	var rnd, fill, msg []byte
	for _, op := range p.Ops {
		switch op.K {
		case "stream":
			for _, k := range op.I {
				kinds = append(kinds, int(k))
			}
			rnd, fill = op.Bytes(0), fitKey(op.Bytes(1), 8)
		case "msg":
			msg = op.Bytes(0)
		}
	}
	if len(kinds) == 0 {
		kinds = []int{7}
	}
	if len(kinds) > 12 {
		kinds = kinds[:12]
	}
	if len(msg) == 0 {
		msg = []byte{0x61}
	}
	preCalls := 0
	verifhook.SetMaybeReadDecider(func() bool { preCalls++; return pre })
	defer verifhook.SetMaybeReadDecider(nil)

	cs, err := c12Build(opn, seed, msg)
	if err != nil {
		c.Fail("setup", -1, "setup", "%v", err)
		return
	}
	// materialise the stream
	var stream []byte
	if pre && cs.usesPre {
		stream = append(stream, 0x99)
	}
	var expect *big.Int
	rejected := 0
	hiAll := new(big.Int).Sub(cs.order, big.NewInt(cs.hiOff))
	var front []byte
	if cs.findRejected != nil {
		if front = cs.findRejected(); front != nil {
			c.Hit("probe:algorithm-rejected-block-constructed")
			stream = append(stream, front...)
			rejected++
		}
	}
	if cs.prepare != nil {
		// the first in-range block of the scripted stream (or the fallback block below) is the one to be discarded
		var first *big.Int
		for _, k := range kinds {
			_, v := cs.block(k, rnd)
			if v.Sign() > 0 && v.Cmp(hiAll) <= 0 {
				first = v
				break
			}
		}
		if first != nil {
			cs.prepare(first)
			c.Hit("probe:algorithm-rejected-block-constructed")
		}
	}
	for _, k := range kinds {
		b, v := cs.block(k, rnd)
		if cs.xor42 {
			b[1] ^= 0x42 // so that the value after the documented XOR is the special value
		}
		stream = append(stream, b...)
		hi := new(big.Int).Sub(cs.order, big.NewInt(cs.hiOff))
		if expect == nil {
			if v.Sign() > 0 && v.Cmp(hi) <= 0 && (cs.reject == nil || !cs.reject(v)) {
				expect = v
			} else {
				rejected++
				if v.Sign() > 0 && v.Cmp(hi) <= 0 {
					c.Hit("probe:sm2-encrypt-zero-mask-retry")
				}
			}
		}
	}
	if expect == nil {
		// no acceptable block scripted: the filler decides; make the filler's first block acceptable and known
		b := fitKey(append(append([]byte{}, fill...), rnd...), cs.bl())
		b[0] &= 0x7f // guaranteed in range for both group orders (only this fallback block is constrained)
		if cs.blockLen > 0 {
			b[0] = 0
		}
		b[cs.bl()-1] |= 1
		v := cs.dec(b)
		if cs.xor42 {
			b[1] ^= 0x42
		}
		stream = append(stream, b...)
		expect = v
		if cs.reject != nil && cs.reject(v) {
			// the fallback block meets the algorithm's own discard condition as well (identical blocks in a minimised
			// program, or the 1-in-256 coincidence): what follows is drawn from the filler pattern; not judged
			c.Hit("probe:fallback-block-discarded-not-judged")
			return
		}
	}
	if rejected > 0 {
		c.Hit("probe:rejection-sampling-looped")
	}
	c.Abs(opn, fmt.Sprint(kinds), pre, chunk == 0, chunk == 1, chunk < 32)
	newReader := func() *sim.ScriptReader {
		return &sim.ScriptReader{Data: stream, Fill: fill[0] | 1, Step: 29, Chunk: chunk}
	}

	// phase 1: fidelity
	preCalls = 0
	rd := newReader()
	outs, err := c12Run(cs, rd)
	c.OpsDone++
	if err != nil {
		c.Fail("operation-failed", 0, opn, "%s failed on a healthy random source: %v", opn, err)
		return
	}
	for _, o := range outs {
		c.Out(opn, o)
	}
	if d := cs.check(expect, outs); d != "" {
		c.Fail("scalar-infidelity", 0, opn, "%s: the secret scalar is not the first in-range block of the random stream (blocks %v, %d rejected, pre-read %v): %s", opn, kinds, rejected, pre, d)
		return
	}
	wantOff := cs.bl() * (rejected + 1)
	if pre && preCalls > 0 {
		wantOff += preCalls
	}
	if rd.Off != wantOff {
		c.Fail("bytes-consumed", 0, opn, "%s consumed %d bytes of the random stream, expected %d (%d rejected blocks, %d pre-read bytes)", opn, rd.Off, wantOff, rejected, wantOff-cs.bl()*(rejected+1))
		return
	}
	kmax := rd.Calls

	// phase 2: every read index x fault kind (sticky)
	step := 1
	if kmax > 48 {
		step = (kmax + 47) / 48
	}
	faults := 0
	for k := 0; k < kmax; k += step {
		for kind := sim.RFError; kind <= sim.RFPartialEOF; kind++ {
			fr := newReader()
			fr.FaultAt, fr.FaultKind, fr.Sticky = k, kind, true
			outs, err := c12Run(cs, fr)
			c.OpsDone++
			faults++
			if !fr.Fired {
				continue
			}
			c.Hit(fmt.Sprintf("fault:reader-kind-%d", kind))
			c.OutErr("fault", err)
			if err == nil {
				c.Fail("rng-failure-ignored", 1, opn, "%s returned no error although the random source failed (kind %d) at read %d of %d (sticky)", opn, kind, k, kmax)
				return
			}
			for _, o := range outs {
				if len(o) != 0 {
					c.Fail("output-with-error", 1, opn, "%s returned %d output bytes together with the error after a source failure at read %d", opn, len(o), k)
					return
				}
			}
		}
	}
	// phase 2b: a TRANSIENT fault - one read returns part of what was asked for together with an error, later reads
	// succeed. The operation has not received the bytes it asked for and must report the error (io.ReadFull semantics);
	// the hidden one-octet pre-read swallows errors by design and is not judged.
	for k := 0; k < kmax; k += step {
		fr := newReader()
		fr.FaultAt, fr.FaultKind, fr.Sticky = k, sim.RFPartialErr, false
		outs, err := c12Run(cs, fr)
		c.OpsDone++
		if !fr.Fired || (k < len(fr.Reads) && fr.Reads[k] == 1 && k == 0 && cs.usesPre) {
			continue
		}
		c.Hit("fault:reader-transient-partial-error")
		c.OutErr("fault1", err)
		if err == nil {
			c.Fail("rng-failure-ignored", 1, opn, "%s returned no error although read %d of %d of the random source returned an error together with only part of the requested bytes (later reads succeed)", opn, k, kmax)
			return
		}
		for _, o := range outs {
			if len(o) != 0 {
				c.Fail("output-with-error", 1, opn, "%s returned %d output bytes together with the error after a transient source failure at read %d", opn, len(o), k)
				return
			}
		}
	}
	if faults > 0 {
		c.Nontriv = true
	}
	// phase 3: the objects remain usable
	preCalls = 0
	rd = newReader()
	outs, err = c12Run(cs, rd)
	c.OpsDone++
	if err != nil {
		c.Fail("unusable-after-failure", 2, opn, "%s fails after earlier source failures: %v", opn, err)
		return
	}
	if d := cs.check(expect, outs); d != "" {
		c.Fail("scalar-infidelity", 2, opn, "%s after earlier source failures: %s", opn, d)
	}
}

// c12Run executes the operation, converting a panic into a violation-carrying error is NOT done here: panics propagate to the worker's recover.
func c12Run(cs *c12Case, rd io.Reader) ([][]byte, error) { return cs.run(rd) }

func c12Build(opn string, seed, msg []byte) (*c12Case, error) {
	n := sm2m.N
	switch opn {
	case "sm2.keygen":
		return &c12Case{name: opn, order: n, hiOff: 2, usesPre: true,
			run: func(rd io.Reader) ([][]byte, error) {
				k, err := sm2.GenerateKey(rd)
				if err != nil {
					if k != nil {
						return [][]byte{{1}}, err
					}
					return nil, err
				}
				return [][]byte{k.D.FillBytes(make([]byte, 32)), k.X.FillBytes(make([]byte, 32)), k.Y.FillBytes(make([]byte, 32))}, nil
			},
			check: func(k *big.Int, outs [][]byte) string {
				if new(big.Int).SetBytes(outs[0]).Cmp(k) != 0 {
					return fmt.Sprintf("private scalar %x, expected block %x", outs[0], k)
				}
				pt := sm2m.ScalarBaseMult(k)
				if pt.X.Cmp(new(big.Int).SetBytes(outs[1])) != 0 || pt.Y.Cmp(new(big.Int).SetBytes(outs[2])) != 0 {
					return "public key is not [d]G"
				}
				return ""
			}}, nil
	case "sm2.sign", "sm2.signretry", "sm2.encrypt", "sm2.envelope", "sm2.kxinit", "sm2.kxrespond":
		priv, err := sm2.NewPrivateKey(scalarFrom(seed, "d"))
		if err != nil {
			return nil, err
		}
		peer, err := sm2.NewPrivateKey(scalarFrom(seed, "peer"))
		if err != nil {
			return nil, err
		}
		d := new(big.Int).Set(priv.D)
		pub := sm2m.Point{X: priv.X, Y: priv.Y}
		switch opn {
		case "sm2.sign":
			return &c12Case{name: opn, order: n, hiOff: 1, usesPre: true,
				run: func(rd io.Reader) ([][]byte, error) {
					sig, err := sm2.SignASN1(rd, priv, msg, sm2.NewSM2SignerOption(true, nil))
					return [][]byte{sig}, err
				},
				check: func(k *big.Int, outs [][]byte) string {
					r, s, ok := sm2m.ParseStrictDERSig(outs[0])
					if !ok {
						return "signature is not strict DER"
					}
					got := sm2m.RecoverK(d, r, s)
					if got.Cmp(k) != 0 {
						return fmt.Sprintf("nonce recovered from the signature %x, expected block %x", got, k)
					}
					za := sm2m.ZA(sm2m.DefaultUID, pub)
					e := sm2m.DigestE(za, msg)
					if !sm2m.VerifyRS(pub, e[:], r, s) {
						return "signature does not verify in the model"
					}
					return ""
				}}, nil
		case "sm2.signretry":
			// the digest is chosen for the first in-range block k0 so that step A5 / A6 must discard it: r = 0 (e = -x1),
			// r + k = n (e = -k0 - x1) or s = 0 (e = k0/d - x1); the signature must then be made with the NEXT acceptable block
			var dg []byte
			cs := &c12Case{name: opn, order: n, hiOff: 1, usesPre: true}
			cs.prepare = func(first *big.Int) {
				k0 := new(big.Int).Set(first)
				x1 := sm2m.ScalarBaseMult(k0).X
				e := new(big.Int).Neg(x1)
				switch seed[0] % 3 {
				case 1:
					e.Sub(e, k0) // r + k = n
				case 2:
					// s = (1+d)^-1 (k - r d) = 0, i.e. r = k / d
					e.Add(e, new(big.Int).Mul(k0, new(big.Int).ModInverse(d, n)))
				}
				e.Mod(e, n)
				dg = e.FillBytes(make([]byte, 32))
			}
			// step A5 for the chosen digest, for ANY block (k and n-k share their abscissa, so the r = 0 digest of one
			// discards the other as well): r = (e + x([k]G)) mod n; discard if r = 0 or r + k = n
			cs.reject = func(k *big.Int) bool {
				if dg == nil {
					return false
				}
				r := new(big.Int).Add(new(big.Int).SetBytes(dg), sm2m.ScalarBaseMult(k).X)
				r.Mod(r, n)
				if r.Sign() == 0 || new(big.Int).Add(r, k).Cmp(n) == 0 {
					return true
				}
				s := new(big.Int).Sub(k, new(big.Int).Mul(r, d)) // s = 0 as well (the factor (1+d)^-1 is invertible)
				return s.Mod(s, n).Sign() == 0
			}
			cs.run = func(rd io.Reader) ([][]byte, error) {
				if dg == nil {
					h := sm3m.Sum(msg)
					dg = h[:]
				}
				sig, err := priv.Sign(rd, dg, nil)
				return [][]byte{sig}, err
			}
			cs.check = func(k *big.Int, outs [][]byte) string {
				r, s, ok := sm2m.ParseStrictDERSig(outs[0])
				if !ok {
					return "signature is not strict DER"
				}
				if got := sm2m.RecoverK(d, r, s); got.Cmp(k) != 0 {
					return fmt.Sprintf("nonce recovered from the signature %x, expected block %x (the first block meets a retry condition of step A5 and must be replaced)", got, k)
				}
				if !sm2m.VerifyRS(pub, dg, r, s) {
					return "signature does not verify in the model"
				}
				return ""
			}
			return cs, nil
		case "sm2.encrypt":
			return &c12Case{name: opn, order: n, hiOff: 1,
				// GB/T 32918.4 step A5: if the mask t is all zero the algorithm returns to A1 and draws a new k
				reject: func(k *big.Int) bool {
					for _, x := range sm2m.MaskT(pub, k, len(msg)) {
						if x != 0 {
							return false
						}
					}
					return true
				},
				run: func(rd io.Reader) ([][]byte, error) {
					ct, err := sm2.Encrypt(rd, &priv.PublicKey, msg, nil)
					return [][]byte{ct}, err
				},
				check: func(k *big.Int, outs [][]byte) string {
					c1, _, _, ok := sm2m.ParseRawCipher(outs[0], true)
					if !ok {
						return "ciphertext does not parse"
					}
					if !sm2m.Equal(c1, sm2m.ScalarBaseMult(k)) {
						return fmt.Sprintf("C1 is not [k]G for the expected block %x", k)
					}
					return ""
				}}, nil
		case "sm2.envelope":
			// sm2.MarshalEnvelopedPrivateKey draws a 16-octet SM4 key and then encrypts it to the recipient (EncryptASN1):
			// the ephemeral scalar of that encryption must come from the caller's source, directly behind the key
			symKey := derive(seed, "envelope key", 16)
			return &c12Case{name: opn, order: n, hiOff: 1,
				reject: func(k *big.Int) bool {
					for _, x := range sm2m.MaskT(pub, k, 16) {
						if x != 0 {
							return false
						}
					}
					return true
				},
				run: func(rd io.Reader) ([][]byte, error) {
					env, err := sm2.MarshalEnvelopedPrivateKey(io.MultiReader(bytes.NewReader(symKey), rd), &priv.PublicKey, peer)
					return [][]byte{env}, err
				},
				check: func(k *big.Int, outs [][]byte) string {
					tr := sim.ParseAllTLV(outs[0])
					if tr == nil || len(tr.Children) != 4 {
						return "enveloped key is not a SEQUENCE of four elements"
					}
					c1, _, _, ok := sm2m.ParseCipherASN1(outs[0][tr.Children[1].Off:tr.Children[2].Off])
					if !ok {
						return "the encrypted symmetric key is not an ASN.1 SM2 ciphertext"
					}
					if !sm2m.Equal(c1, sm2m.ScalarBaseMult(k)) {
						return fmt.Sprintf("C1 of the encrypted symmetric key is not [k]G for the expected block %x", k)
					}
					got, err := sm2.ParseEnvelopedPrivateKey(priv, outs[0])
					if err != nil || got.D.Cmp(peer.D) != 0 {
						return fmt.Sprintf("the envelope does not open to the enveloped key: %v", err)
					}
					return ""
				}}, nil
		default:
			responder := opn == "sm2.kxrespond"
			return &c12Case{name: opn, order: n, hiOff: 1,
				run: func(rd io.Reader) ([][]byte, error) {
					peerPub := ecdsa.PublicKey{Curve: peer.Curve, X: peer.X, Y: peer.Y}
					ke, err := sm2.NewKeyExchange(priv, &peerPub, []byte("A"), []byte("B"), 16, true)
					if err != nil {
						return nil, err
					}
					if !responder {
						R, err := ke.InitKeyExchange(rd)
						if err != nil {
							if R != nil {
								return [][]byte{{1}}, err
							}
							return nil, err
						}
						return [][]byte{R.X.FillBytes(make([]byte, 32)), R.Y.FillBytes(make([]byte, 32))}, nil
					}
					// the peer initiates with a fixed ephemeral key, this party responds drawing from rd
					selfPub := ecdsa.PublicKey{Curve: priv.Curve, X: priv.X, Y: priv.Y}
					pk, err := sm2.NewKeyExchange(peer, &selfPub, []byte("B"), []byte("A"), 16, true)
					if err != nil {
						return nil, err
					}
					ra, err := pk.InitKeyExchange(&sim.ScriptReader{Data: scalarFrom(seed, "ra")})
					if err != nil {
						return nil, err
					}
					R, s, err := ke.RepondKeyExchange(rd, ra)
					if err != nil {
						if R != nil || len(s) != 0 {
							return [][]byte{{1}}, err
						}
						return nil, err
					}
					return [][]byte{R.X.FillBytes(make([]byte, 32)), R.Y.FillBytes(make([]byte, 32))}, nil
				},
				check: func(k *big.Int, outs [][]byte) string {
					pt := sm2m.ScalarBaseMult(k)
					if pt.X.Cmp(new(big.Int).SetBytes(outs[0])) != 0 || pt.Y.Cmp(new(big.Int).SetBytes(outs[1])) != 0 {
						return fmt.Sprintf("ephemeral point is not [r]G for the expected block %x", k)
					}
					return ""
				}}, nil
		}
	case "legacy.sign", "legacy.encrypt":
		// the sm2 package also runs its algorithms over other curves (sm2_legacy.go, randFieldElement);
		// here NIST P-224, P-256, P-384 or P-521 (chosen by the program), with crypto/elliptic as the arithmetic oracle
		cv := []elliptic.Curve{elliptic.P256(), elliptic.P256(), elliptic.P224(), elliptic.P384(), elliptic.P521(), c12Secp160r1}[int(seed[1])%6]
		ln := cv.Params().N
		cbl, cshift := 0, uint(0)
		if ln.BitLen() != 256 {
			cbl = (ln.BitLen() + 7) / 8
			cshift = uint(cbl*8 - ln.BitLen())
		}
		db := derive(seed, "ld", (ln.BitLen()+7)/8)
		db[0] = 0
		db[len(db)-1] |= 1
		lp := new(sm2.PrivateKey)
		lp.Curve = cv
		lp.D = new(big.Int).SetBytes(db)
		lp.X, lp.Y = cv.ScalarBaseMult(db)
		if opn == "legacy.sign" {
			return &c12Case{name: opn, order: ln, hiOff: 1, usesPre: true, blockLen: cbl, shift: cshift,
				run: func(rd io.Reader) ([][]byte, error) {
					h := sm3m.Sum(msg)
					sig, err := sm2.SignASN1(rd, lp, h[:], nil)
					return [][]byte{sig}, err
				},
				check: func(k *big.Int, outs [][]byte) string {
					r, s2, ok := sm2m.ParseStrictDERSig(outs[0])
					if !ok {
						return "signature is not strict DER"
					}
					// k = s(1+d) + r d mod n (same equation over this curve's order)
					got := new(big.Int).Add(big.NewInt(1), lp.D)
					got.Mul(got, s2)
					got.Add(got, new(big.Int).Mul(r, lp.D))
					got.Mod(got, ln)
					if got.Cmp(k) != 0 {
						return fmt.Sprintf("nonce recovered from the signature %x, expected block %x", got, k)
					}
					return ""
				}}, nil
		}
		return &c12Case{name: opn, order: ln, hiOff: 1, blockLen: cbl, shift: cshift,
			// step A5 on this curve too: a scalar whose mask is all zero is legitimately replaced by the next block
			reject: func(k *big.Int) bool {
				x2, y2 := cv.ScalarMult(lp.X, lp.Y, k.Bytes())
				bl := (cv.Params().BitSize + 7) / 8
				z := append(x2.FillBytes(make([]byte, bl)), y2.FillBytes(make([]byte, bl))...)
				for _, x := range sm3m.KDF(z, len(msg)) {
					if x != 0 {
						return false
					}
				}
				return true
			},
			run: func(rd io.Reader) ([][]byte, error) {
				ct, err := sm2.Encrypt(rd, &lp.PublicKey, msg, nil)
				return [][]byte{ct}, err
			},
			check: func(k *big.Int, outs [][]byte) string {
				fl := (cv.Params().BitSize + 7) / 8
				if len(outs[0]) < 1+2*fl || outs[0][0] != 4 {
					return "ciphertext does not start with an uncompressed C1"
				}
				x, y := cv.ScalarBaseMult(k.Bytes())
				if x.Cmp(new(big.Int).SetBytes(outs[0][1:1+fl])) != 0 || y.Cmp(new(big.Int).SetBytes(outs[0][1+fl:1+2*fl])) != 0 {
					return fmt.Sprintf("C1 is not [k]G for the expected block %x", k)
				}
				return ""
			}}, nil
	case "ecdh.keygen":
		return &c12Case{name: opn, order: n, hiOff: 2, xor42: true, usesPre: true,
			run: func(rd io.Reader) ([][]byte, error) {
				k, err := ecdh.P256().GenerateKey(rd)
				if err != nil {
					if k != nil {
						return [][]byte{{1}}, err
					}
					return nil, err
				}
				return [][]byte{k.Bytes(), k.PublicKey().Bytes()}, nil
			},
			check: func(k *big.Int, outs [][]byte) string {
				if new(big.Int).SetBytes(outs[0]).Cmp(k) != 0 {
					return fmt.Sprintf("private key %x, expected block (after the documented XOR) %x", outs[0], k)
				}
				if !bytes.Equal(outs[1], sm2m.MarshalUncompressed(sm2m.ScalarBaseMult(k))) {
					return "public key is not [d]G"
				}
				return ""
			}}, nil
	case "sm9.skeygen":
		return &c12Case{name: opn, order: c12SM9Order, hiOff: 2, xor42: true, usesPre: true,
			run: func(rd io.Reader) ([][]byte, error) {
				k, err := sm9.GenerateSignMasterKey(rd)
				if err != nil {
					if k != nil {
						return [][]byte{{1}}, err
					}
					return nil, err
				}
				return [][]byte{k.Bytes(), k.PublicKey().Bytes()}, nil
			},
			check: func(k *big.Int, outs [][]byte) string {
				if new(big.Int).SetBytes(outs[0]).Cmp(k) != 0 {
					return fmt.Sprintf("master scalar %x, expected block (after the documented XOR) %x", outs[0], k)
				}
				want, err := new(verifhook.G2).ScalarBaseMult(k.FillBytes(make([]byte, 32)))
				if err != nil {
					return err.Error()
				}
				got, err := g2FromBytes(outs[1])
				if err != nil || !bytes.Equal(got.Marshal(), want.Marshal()) {
					return "master public key is not [ks]P2"
				}
				return ""
			}}, nil
	case "sm9.ekeygen":
		return &c12Case{name: opn, order: c12SM9Order, hiOff: 2, xor42: true, usesPre: true,
			run: func(rd io.Reader) ([][]byte, error) {
				k, err := sm9.GenerateEncryptMasterKey(rd)
				if err != nil {
					if k != nil {
						return [][]byte{{1}}, err
					}
					return nil, err
				}
				return [][]byte{k.Bytes(), k.PublicKey().Bytes()}, nil
			},
			check: func(k *big.Int, outs [][]byte) string {
				if new(big.Int).SetBytes(outs[0]).Cmp(k) != 0 {
					return fmt.Sprintf("master scalar %x, expected block (after the documented XOR) %x", outs[0], k)
				}
				want, err := new(verifhook.G1).ScalarBaseMult(k.FillBytes(make([]byte, 32)))
				if err != nil {
					return err.Error()
				}
				got, err := g1FromBytes(outs[1])
				if err != nil || !bytes.Equal(got.Marshal(), want.Marshal()) {
					return "master public key is not [ke]P1"
				}
				return ""
			}}, nil
	case "sm9.sign":
		master, err := sm9.GenerateSignMasterKey(&sim.ScriptReader{Data: scalarFrom(seed, "ks")})
		if err != nil {
			return nil, err
		}
		uid := []byte("alice")
		user, err := master.GenerateUserKey(uid, 1)
		if err != nil {
			return nil, err
		}
		dsA, err := g1FromBytes(user.Bytes())
		if err != nil {
			return nil, fmt.Errorf("user key bytes: %v", err)
		}
		return &c12Case{name: opn, order: c12SM9Order, hiOff: 1, usesPre: true,
			run: func(rd io.Reader) ([][]byte, error) {
				h, s, err := sm9.Sign(rd, user, msg)
				if err != nil {
					if h != nil || len(s) != 0 {
						return [][]byte{{1}}, err
					}
					return nil, err
				}
				return [][]byte{h.FillBytes(make([]byte, 32)), s}, nil
			},
			check: func(k *big.Int, outs [][]byte) string {
				h := new(big.Int).SetBytes(outs[0])
				S, err := g1FromBytes(outs[1])
				if err != nil {
					return "S does not decode: " + err.Error()
				}
				l := new(big.Int).Sub(k, h)
				l.Mod(l, c12SM9Order)
				want, err := new(verifhook.G1).ScalarMult(dsA, l.FillBytes(make([]byte, 32)))
				if err != nil {
					return err.Error()
				}
				if !bytes.Equal(S.Marshal(), want.Marshal()) { // (G1.Equal compares unnormalised coordinates)
					return fmt.Sprintf("S is not [r-h]dsA for the expected block r = %x", k)
				}
				if !sm9.Verify(master.PublicKey(), uid, 1, msg, h, outs[1]) {
					return "signature does not verify"
				}
				return ""
			}}, nil
	case "sm9.wrap", "sm9.wrapretry", "sm9.encrypt", "sm9.kxinit", "sm9.kxinit2", "sm9.kxrespond":
		master, err := sm9.GenerateEncryptMasterKey(&sim.ScriptReader{Data: scalarFrom(seed, "ke")})
		if err != nil {
			return nil, err
		}
		uid := []byte("bob")
		user, err := master.GenerateUserKey(uid, 3)
		if err != nil {
			return nil, err
		}
		alice, err := master.GenerateUserKey([]byte("alice"), 3)
		if err != nil {
			return nil, err
		}
		deB, err := g2FromBytes(user.Bytes())
		if err != nil {
			return nil, fmt.Errorf("user key bytes: %v", err)
		}
		ppub, err := g1FromBytes(master.PublicKey().Bytes())
		if err != nil {
			return nil, fmt.Errorf("master public bytes: %v", err)
		}
		g := verifhook.Pair(ppub, verifhook.Gen2)
		checkC := func(k *big.Int, cbytes []byte) string {
			C, err := g1FromBytes(cbytes)
			if err != nil {
				return "C does not decode: " + err.Error()
			}
			w := verifhook.Pair(C, deB)
			want := new(verifhook.GT).ScalarMult(g, k)
			if !bytes.Equal(w.Marshal(), want.Marshal()) {
				return fmt.Sprintf("e(C, de) is not e(Ppub, P2)^r for the expected block r = %x", k)
			}
			return ""
		}
		switch opn {
		case "sm9.wrap":
			return &c12Case{name: opn, order: c12SM9Order, hiOff: 1,
				run: func(rd io.Reader) ([][]byte, error) {
					key, ct, err := sm9.WrapKey(rd, master.PublicKey(), uid, 3, 32)
					if err != nil {
						return [][]byte{key, ct}, err
					}
					return [][]byte{ct, key}, nil
				},
				check: func(k *big.Int, outs [][]byte) string {
					if d := checkC(k, outs[0]); d != "" {
						return d
					}
					key, err := sm9.UnwrapKey(user, uid, outs[0], 32)
					if err != nil || !bytes.Equal(key, outs[1]) {
						return "unwrap does not return the wrapped key"
					}
					return ""
				}}, nil
		case "sm9.wrapretry":
			// a one-byte key: 1 scalar in 256 derives the all-zero key, which GM/T 0044 step A5 discards. WHICH block is
			// discarded is observed from the library (a stream of that block alone makes it read on); that the result is
			// then made with the NEXT block, and only with it, is checked independently (pairing equation, unwrap)
			var found *big.Int
			cs := &c12Case{name: opn, order: c12SM9Order, hiOff: 1}
			cs.findRejected = func() []byte {
				for j := 0; j < 1200; j++ {
					cand := scalarFrom(append([]byte{byte(j), byte(j >> 8)}, seed...), "c12 wrapretry")
					pr := &sim.ScriptReader{Data: cand, Fill: 13, Step: 5}
					if _, _, err := sm9.WrapKey(pr, master.PublicKey(), uid, 3, 1); err != nil {
						return nil
					} else if pr.Off > 32 {
						found = new(big.Int).SetBytes(cand)
						return cand
					}
				}
				return nil
			}
			// any other block may meet the same condition (1 in 256): every candidate is probed the same way
			probed := map[string]bool{}
			cs.reject = func(k *big.Int) bool {
				if found != nil && k.Cmp(found) == 0 {
					return true
				}
				kb := k.FillBytes(make([]byte, 32))
				if v, ok := probed[string(kb)]; ok {
					return v
				}
				pr := &sim.ScriptReader{Data: kb, Fill: 13, Step: 5}
				_, _, err := sm9.WrapKey(pr, master.PublicKey(), uid, 3, 1)
				probed[string(kb)] = err == nil && pr.Off > 32
				return probed[string(kb)]
			}
			cs.run = func(rd io.Reader) ([][]byte, error) {
				key, ct, err := sm9.WrapKey(rd, master.PublicKey(), uid, 3, 1)
				if err != nil {
					return [][]byte{key, ct}, err
				}
				return [][]byte{ct, key}, nil
			}
			cs.check = func(k *big.Int, outs [][]byte) string {
				if d := checkC(k, outs[0]); d != "" {
					return d
				}
				key, err := sm9.UnwrapKey(user, uid, outs[0], 1)
				if err != nil || !bytes.Equal(key, outs[1]) {
					return "unwrap does not return the wrapped key"
				}
				return ""
			}
			return cs, nil
		case "sm9.encrypt":
			return &c12Case{name: opn, order: c12SM9Order, hiOff: 1,
				run: func(rd io.Reader) ([][]byte, error) {
					ct, err := sm9.Encrypt(rd, master.PublicKey(), uid, 3, msg, nil)
					return [][]byte{ct}, err
				},
				check: func(k *big.Int, outs [][]byte) string {
					if len(outs[0]) < 64 {
						return "ciphertext too short"
					}
					return checkC(k, outs[0][:64])
				}}, nil
		case "sm9.kxrespond":
			// bob responds to alice: R_B = [r_B]Q_A, so e(R_B, de_alice) = e(Ppub, P2)^r_B
			deA, err := g2FromBytes(alice.Bytes())
			if err != nil {
				return nil, fmt.Errorf("user key bytes: %v", err)
			}
			return &c12Case{name: opn, order: c12SM9Order, hiOff: 1,
				run: func(rd io.Reader) ([][]byte, error) {
					ka := alice.NewKeyExchange([]byte("alice"), uid, 16, true)
					ra, err := ka.InitKeyExchange(&sim.ScriptReader{Data: scalarFrom(seed, "kra")}, 3)
					if err != nil {
						return nil, err
					}
					kb := user.NewKeyExchange(uid, []byte("alice"), 16, true)
					rb, sb, err := kb.RespondKeyExchange(rd, 3, ra)
					if err != nil {
						return [][]byte{rb, sb}, err
					}
					return [][]byte{rb}, nil
				},
				check: func(k *big.Int, outs [][]byte) string {
					C, err := g1FromBytes(outs[0])
					if err != nil {
						return "R_B does not decode: " + err.Error()
					}
					w := verifhook.Pair(C, deA)
					want := new(verifhook.GT).ScalarMult(g, k)
					if !bytes.Equal(w.Marshal(), want.Marshal()) {
						return fmt.Sprintf("e(R_B, de_A) is not e(Ppub, P2)^r for the expected block r = %x", k)
					}
					return ""
				}}, nil
		case "sm9.kxinit2":
			// a protocol object that has been initialised once (session abandoned) is initialised again: the second
			// ephemeral secret must again be the first in-range block of the source handed to THAT call
			return &c12Case{name: opn, order: c12SM9Order, hiOff: 1,
				run: func(rd io.Reader) ([][]byte, error) {
					ke := alice.NewKeyExchange([]byte("alice"), uid, 16, true)
					if _, err := ke.InitKeyExchange(&sim.ScriptReader{Data: scalarFrom(seed, "first init")}, 3); err != nil {
						return nil, err
					}
					ra, err := ke.InitKeyExchange(rd, 3)
					return [][]byte{ra}, err
				},
				check: func(k *big.Int, outs [][]byte) string { return checkC(k, outs[0]) }}, nil
		default:
			return &c12Case{name: opn, order: c12SM9Order, hiOff: 1,
				run: func(rd io.Reader) ([][]byte, error) {
					ke := alice.NewKeyExchange([]byte("alice"), uid, 16, true)
					ra, err := ke.InitKeyExchange(rd, 3)
					return [][]byte{ra}, err
				},
				check: func(k *big.Int, outs [][]byte) string { return checkC(k, outs[0]) }}, nil
		}
	}
	return nil, fmt.Errorf("unknown op %s", opn)
}
