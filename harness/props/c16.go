package props

import (
	"bytes"
	"crypto"
	"crypto/x509/pkix"
	"encoding/pem"
	"errors"
	"fmt"
	"math/big"
	"time"

	"github.com/emmansun/gmsm/sm2"
	"github.com/emmansun/gmsm/smx509"
	"github.com/emmansun/gmsm/verifhook"

	"verif/harness/fixtures"
	"verif/harness/sim"
)

// C16: PKCS#7. Signers, recipients, outsiders and PSK holders exchange
// SignedData / EnvelopedData / EncryptedData / SignedAndEnvelopedData over a
// faulty transport; crypto/rand.Reader and the clock belong to the simulator
// (cryptotest.SetGlobalRandom + testing/synctest), so every message is a pure
// function of the program.

func init() {
	register(&Prop{
		ID:         "C16",
		Level:      "exploration",
		Nodes:      func(tier string) []string { return []string{"avx2", "purego"} },
		Cross:      true,
		GlobalRand: true,
		Init:       c16Init,
		Gen:        genC16,
		Exec:       execC16,
		QuickSecs:  30, ThoroughSecs: 600, RunsPerJob: 150,
		Rule: "a run positions the fake clock relative to the 2020..2060 validity window of the fixture certificates and plays {sign(content 0..300 bytes, 1-3 signers out of SM2 / RSA-1024 / RSA-2048 / ECDSA P-256 / P-384 / self-signed / forged-certificate parties x digest SM3 / SHA-1/256/384/512, attached|detached, with|without attributes, digest-only, cfca wrappers, certificate options, SetEncryptionAlgorithm with an identifier fitting key and digest, RemoveUnauthenticatedAttributes / RemoveAuthenticatedAttributes before Finish), " +
			"envelope(content, one of the 12 registered content ciphers, 1-3 recipients, standard / GM / CFCA-legacy / SubjectKeyIdentifier recipient encodings, cfca wrappers), envelope-stepwise(New[SM2]EnvelopedData[WithSession] + AddRecipient per recipient with its own version 0/1/2 and ASN.1 / CFCA-legacy key encoding + Finish; key wrap by the caller's own code, DefaultSession or a caller-supplied Session that is transparent or keeps the data key under a mask; session failures in GenerateDataKey / EncryptdDataKey; every recipient and one outsider open the result at once), encrypt-psk, sign-and-envelope (+ AddCertificate), clock-to(t), der(shape), degenerate(certificate subset)} followed by deliveries {untouched, BER indefinite-length re-encoding (3 depths), one byte altered, every byte altered (7 alteration modes; exhaustive up to 1200 positions, evenly sampled above), truncation (+ spliced tail), extension, " +
			"signer-info / recipient-info swapped in from another message, certificate list dropped / replaced / forged certificate inserted, content replaced, digest algorithm substituted, unauthenticated attribute added, element-level Byzantine re-encoding, chunked ciphertext} to a verifier (Verify / VerifyWithChain / VerifyWithChainAtTime at the simulated now or at an explicit time next to NotBefore / NotAfter / 2050 / a year outside / VerifyAsDigest* / cfca.Verify*) or an opener (recipient, non-recipient, recipient certificate with a foreign key, right / wrong / mis-sized PSK), parsed by Parse or ParseWithSession (the builder's session, a transparent one, DefaultSession, a foreign masked one, one whose DecryptDataKey fails); " +
			"abstract history = clock class + sequence of (op kind, message kind, content length class mod 16, signer / recipient key kinds, digest, mode, cipher, fault kind, verifier or opener role); non-trivial = at least one message produced and one delivery judged; distinct = distinct abstract histories",
		Real: []string{"pkcs7 (sign, verify, envelope incl. the step-wise builder, encrypt, decrypt, sign_enveloped, session incl. ParseWithSession, ber, DegenerateCertificate)", "cfca (pkcs7_sign, pkcs7_envelope)", "pkcs (content ciphers)", "smx509 (certificate parsing, chain verification at the simulated time)", "sm2 / sm3 / sm4, Go crypto/rsa, crypto/ecdsa, crypto/aes, crypto/des"},
		Stubs: []string{"wall clock: testing/synctest fake clock (starts 2000-01-01, moves only when the simulator sleeps)", "crypto/rand.Reader and Go's internal randomness: testing/cryptotest.SetGlobalRandom seeded from the program; optional short-read / zero-length-read wrapper around crypto/rand.Reader; MaybeReadByte coin fixed by the program",
			"transport between producer and consumer (byte alteration, truncation, extension, element substitution, BER re-encoding)", "caller-supplied pkcs7.Session: harness implementation (data key = function of the program, wrap / unwrap through pkcs7.DefaultSession, optional mask, injected failures)", "certificates of the RSA / ECDSA / additional SM2 parties: created once per worker with a fixed random stream under the fixture SM2 root / intermediate (deterministic bytes)"},
		Assume: []string{
			"acceptance oracle: an accepted message is judged on the library's own parsed view after BER normalisation (Content, Signers, Certificates): every accepted signer-info must carry a signature value that some honest signer of the run produced, over the same digest, with the same authenticated attributes (compared as a sorted set of DER attributes: SET OF order is not significant), under the same public key (with a trust store: the same TBSCertificate and certificate signature value - elements after the signature inside the Certificate SEQUENCE are ignored by the certificate parser exactly as in Go's crypto/x509 and are not compared), found under the issuer+serial the signer-info names; dropping a signer, changing unauthenticated attributes, versions, length encodings, the certificate list or trailing bytes is not a violation",
			"ECDSA s -> n-s malleability and re-signing by another key without a trust store are outside the transport's fault set (they defeat the literal statement for any implementation)",
			"honest acceptance is demanded only when the signing time (attribute) or, without attributes, the verification time lies strictly inside the certificates' validity window, and with a trust store only for signers that chain to the fixture root with the intermediate present; outside the window the verdict is recorded, not judged (certificate validity belongs to C15)",
			"every honest signature is additionally checked by an independent verifier (Go crypto/rsa, crypto/ecdsa, sm2 package or the harness SM2 model; digest by Go SHA / harness SM3 model) over the DER SET OF encoding of the attributes or over the content, and the messageDigest attribute against the ledger content",
			"SM2 keys are used with SM3 only and RSA / ECDSA keys with SHA-1/256/384/512 only (other pairings are refused at creation or produce messages the library itself cannot verify; exec coerces them)",
			"unauthenticated content ciphers (CBC, ECB): a wrong key or an altered message may yield garbage without an error (ECB never reports a padding error); the violation is returning the original content to a non-recipient, or wrong content from a GCM cipher or from SignedAndEnvelopedData after successful verification",
			"a recipient certificate used with another party's private key must fail or (if that key belongs to a recipient) yield the content; RSA PKCS#1 v1.5 unwrap with a wrong key may succeed with probability ~2^-16 and is then judged by the content cipher rule",
			"crypto/rand read errors are not injected: since Go 1.24 crypto/rand.Read terminates the process when Reader fails; legal short reads and zero-length reads are injected",
			"the library is handed content slices with canary-filled spare capacity: writing padding into that capacity (CBC / ECB content ciphers do) is counted as a probe, modifying the content itself is a violation",
			"post-signing manipulation: RemoveUnauthenticatedAttributes must leave a message that verifies exactly as without it, carries no unauthenticated attribute and keeps authenticated attributes and signature values (read from the DER by the harness; the builder state before the call comes from GetSignedData); ExtraUnsignedAttributes must appear in the DER unless removed; after RemoveAuthenticatedAttributes on signers that signed attributes the message carries a signature over attributes it no longer has: by the property statement it must NOT verify (class attr-removed-still-verifies), the kept signature value must still be one over the removed attributes; on attribute-less signers the call changes nothing and honest acceptance stays demanded. That such a message is unverifiable although the method comment likens it to OpenSSL -noattr is recorded, not judged",
			"SetEncryptionAlgorithm: only identifiers that fit the signer key and digest are set (rsaEncryption / shaXWithRSA, the curve or ecdsa-with-SHAx identifiers, SM2-1); SignWithoutAttr must name the identifier in the signer-info (read from the DER) and the message must verify as usual; AddSigner / AddSignerChain ignore the setting (not judged); SignWithoutAttr ignoring ExtraUnsignedAttributes is not judged (not requested there)",
			"caller-supplied Session: GenerateDataKey must be asked exactly once for a key of the cipher's size, AddRecipient must hand the wrap function that key, a failure of GenerateDataKey / EncryptdDataKey / DecryptDataKey must surface as an error of New*WithSession / AddRecipient / Decrypt, and Decrypt after ParseWithSession(s) must obtain the content key of an EnvelopedData from s (the masked session makes this visible in the outcome: its messages open only through it). SignedAndEnvelopedData and EncryptedData never consult the session: there ParseWithSession is only demanded to behave like Parse",
			"produced EnvelopedData is read by the harness: one recipient-info per AddRecipient, identified by issuer+serial (version 0 / 1) or the certificate's SubjectKeyIdentifier (version 2) as the AddRecipient comment says; the keyEncryptionAlgorithm field is recorded only (it follows the certificate's signature algorithm, not the recipient key; Decrypt does not read it). GetRecipients of an unaltered message must name exactly the added recipients (as a set: SET OF is sorted by the encoder)",
			"GetOnlySigner of an unaltered message: the signer's certificate when exactly one signer signed and certificates are included, nil for 2+ signers and for a degenerate message; UnmarshalSignedAttribute(messageDigest / the extra signed attribute) of an unaltered message equals the ledger value of the first signer-info; a DegenerateCertificate message must parse to exactly the given certificates in order, no signer, no content, and must not verify through any verifier",
			"VerifyWithChainAtTime with an explicit time strictly outside [NotBefore, NotAfter] of the fixture certificates (all share one window) must reject whatever the clock and the signing-time attribute say (its documented contract); exactly at the edges the verdict is recorded only; strictly inside, honest acceptance is demanded as for the simulated now",
			"Ber2Der is reached through the verif-tagged export pkcs7.Ber2Der; DER inputs are all produced messages, all party certificates and generated TLV trees (definite minimal lengths, low and high tag numbers, lengths around 127/128, 255/256, 65535/65536)",
		},
	})
}

const (
	c16NB    = 1577836800 // 2020-01-01T00:00:00Z, NotBefore of every certificate
	c16NA    = 2840140800 // 2060-01-01T00:00:00Z, NotAfter of every certificate
	c16Y2050 = 2524608000 // UTCTime / GeneralizedTime switch of encoding/asn1
)

// key kinds
const (
	c16SM2 = iota
	c16RSA
	c16EC
)

type c16Party struct {
	name    string
	cert    *smx509.Certificate
	key     crypto.PrivateKey
	chain   []*smx509.Certificate // parents below the root (intermediate), nil if issued by a root or self-signed
	kind    int
	keyID   int  // parties with the same keyID hold the same private key
	trusted bool // chains to the fixture root
	canRecv bool // may be used as a recipient
	ski     bool
	slow    bool
}

type c16World struct {
	parties []*c16Party
	root    *smx509.Certificate
	inter   *smx509.Certificate
	pool    *smx509.CertPool
	extra   *smx509.Certificate // unrelated certificate for neutral list additions
}

var c16W *c16World

func c16PEMCert(s string) (*smx509.Certificate, error) {
	b, _ := pem.Decode([]byte(s))
	if b == nil {
		return nil, errors.New("c16: bad PEM")
	}
	return smx509.ParseCertificate(b.Bytes)
}

func c16PEMKey(s string) (crypto.PrivateKey, error) {
	b, _ := pem.Decode([]byte(s))
	if b == nil {
		return nil, errors.New("c16: bad PEM")
	}
	return smx509.ParsePKCS8PrivateKey(b.Bytes)
}

func c16MkCert(cn string, serial int64, parent *smx509.Certificate, pub any, signer any, ski bool) (*smx509.Certificate, error) {
	t := &smx509.Certificate{}
	t.SerialNumber = big.NewInt(serial)
	t.Subject = pkix.Name{CommonName: cn, Organization: []string{"verif"}}
	t.NotBefore, t.NotAfter = time.Unix(c16NB, 0).UTC(), time.Unix(c16NA, 0).UTC()
	t.BasicConstraintsValid = true
	t.KeyUsage = smx509.KeyUsageDigitalSignature | smx509.KeyUsageKeyEncipherment
	if ski {
		t.SubjectKeyId = derive([]byte(cn), "c16ski", 20)
	}
	p := parent
	if p == nil {
		p = t
	}
	rd := &sim.ScriptReader{Data: derive([]byte(cn), "c16cert", 512), Fill: 0x5a, Step: 13}
	der, err := smx509.CreateCertificate(rd, t.ToX509(), p.ToX509(), pub, signer)
	if err != nil {
		return nil, fmt.Errorf("c16: create %s: %w", cn, err)
	}
	return smx509.ParseCertificate(der)
}

func c16Init() error {
	if c16W != nil {
		return nil
	}
	verifhook.SetMaybeReadDecider(func() bool { return false })
	defer verifhook.SetMaybeReadDecider(nil)
	w := &c16World{}
	var err error
	if w.root, err = c16PEMCert(fixtures.RootPEM); err != nil {
		return err
	}
	if w.inter, err = c16PEMCert(fixtures.IntermediatePEM); err != nil {
		return err
	}
	leaf, err := c16PEMCert(fixtures.LeafPEM)
	if err != nil {
		return err
	}
	for _, c := range []*smx509.Certificate{w.root, w.inter, leaf} {
		if c.NotBefore.Unix() != c16NB || c.NotAfter.Unix() != c16NA {
			return errors.New("c16: fixture validity window is not 2020..2060")
		}
	}
	rootK, err := sm2.NewPrivateKey(unhex(fixtures.RootKeyHex))
	if err != nil {
		return err
	}
	interK, err := sm2.NewPrivateKey(unhex(fixtures.IntermediateKeyHex))
	if err != nil {
		return err
	}
	leafK, err := sm2.NewPrivateKey(unhex(fixtures.LeafKeyHex))
	if err != nil {
		return err
	}
	var keys [4]crypto.PrivateKey
	for i, s := range []string{fixtures.RSAKey0PEM, fixtures.RSAKey1PEM, fixtures.ECDSAKey0PEM, fixtures.ECDSAKey1PEM} {
		if keys[i], err = c16PEMKey(s); err != nil {
			return err
		}
	}
	pubOf := func(k crypto.PrivateKey) any { return k.(crypto.Signer).Public() }
	chainI := []*smx509.Certificate{w.inter}
	add := func(p *c16Party) { w.parties = append(w.parties, p) }
	// 0: the fixture leaf (issuer = intermediate, serial 3, no SubjectKeyId)
	add(&c16Party{name: "sm2-leaf", cert: leaf, key: leafK, chain: chainI, kind: c16SM2, keyID: 0, trusted: true, canRecv: true})
	// 1: RSA-1024 issued by the root with the SAME serial 3 (serial collision across issuers)
	c, err := c16MkCert("verif rsa1024", 3, w.root, pubOf(keys[0]), rootK, true)
	if err != nil {
		return err
	}
	add(&c16Party{name: "rsa1024", cert: c, key: keys[0], kind: c16RSA, keyID: 1, trusted: true, canRecv: true, ski: true})
	// 2: RSA-2048 issued by the intermediate
	if c, err = c16MkCert("verif rsa2048", 11, w.inter, pubOf(keys[1]), interK, true); err != nil {
		return err
	}
	add(&c16Party{name: "rsa2048", cert: c, key: keys[1], chain: chainI, kind: c16RSA, keyID: 2, trusted: true, canRecv: true, ski: true})
	// 3: ECDSA P-256 issued by the intermediate
	if c, err = c16MkCert("verif p256", 12, w.inter, pubOf(keys[2]), interK, true); err != nil {
		return err
	}
	add(&c16Party{name: "p256", cert: c, key: keys[2], chain: chainI, kind: c16EC, keyID: 3, trusted: true, ski: true})
	// 4: ECDSA P-384 issued by the root
	if c, err = c16MkCert("verif p384", 13, w.root, pubOf(keys[3]), rootK, true); err != nil {
		return err
	}
	add(&c16Party{name: "p384", cert: c, key: keys[3], kind: c16EC, keyID: 4, trusted: true, ski: true, slow: true})
	// 5: self-signed RSA-1024 (SHA256-RSA certificate signature), serial 3 again, NOT under the trust root
	if c, err = c16MkCert("verif rsa self", 3, nil, pubOf(keys[0]), keys[0], true); err != nil {
		return err
	}
	add(&c16Party{name: "rsa-self", cert: c, key: keys[0], kind: c16RSA, keyID: 1, canRecv: true, ski: true})
	// 6..8: further SM2 parties
	for i, spec := range []struct {
		cn     string
		serial int64
		byInt  bool
	}{{"verif sm2 b", 21, false}, {"verif sm2 c", 22, true}, {"verif sm2 d", 23, false}} {
		k, err := sm2.NewPrivateKey(scalarFrom([]byte(spec.cn), "c16key"))
		if err != nil {
			return err
		}
		par, sk, ch := w.root, rootK, []*smx509.Certificate(nil)
		if spec.byInt {
			par, sk, ch = w.inter, interK, chainI
		}
		if c, err = c16MkCert(spec.cn, spec.serial, par, &k.PublicKey, sk, true); err != nil {
			return err
		}
		add(&c16Party{name: fmt.Sprintf("sm2-%c", 'b'+i), cert: c, key: k, chain: ch, kind: c16SM2, keyID: 6 + i, trusted: true, canRecv: true, ski: true})
	}
	// 9: forged certificate: the leaf's DER with the public key replaced by the rogue's (same issuer+serial as
	// the leaf, certificate signature invalid); signs with the rogue key
	rk, err := sm2.NewPrivateKey(scalarFrom([]byte("verif rogue"), "c16key"))
	if err != nil {
		return err
	}
	lp := append(leafK.X.FillBytes(make([]byte, 32)), leafK.Y.FillBytes(make([]byte, 32))...)
	rp := append(rk.X.FillBytes(make([]byte, 32)), rk.Y.FillBytes(make([]byte, 32))...)
	i := bytes.Index(leaf.Raw, lp)
	if i < 0 {
		return errors.New("c16: leaf public key not found in its DER")
	}
	forged := append([]byte{}, leaf.Raw...)
	copy(forged[i:], rp)
	if c, err = smx509.ParseCertificate(forged); err != nil {
		return err
	}
	add(&c16Party{name: "sm2-rogue", cert: c, key: rk, kind: c16SM2, keyID: 9})
	// unrelated certificate for neutral additions to certificate lists
	ek, err := sm2.NewPrivateKey(scalarFrom([]byte("verif extra"), "c16key"))
	if err != nil {
		return err
	}
	if w.extra, err = c16MkCert("verif extra", 77, w.root, &ek.PublicKey, rootK, false); err != nil {
		return err
	}
	w.pool = smx509.NewCertPool()
	w.pool.AddCert(w.root)
	c16W = w
	return nil
}

const c16NParties = 10

var c16SignerPool = []int{0, 0, 0, 1, 2, 3, 4, 5, 6, 7, 9}
var c16RecvPool = []int{0, 0, 1, 1, 2, 5, 6, 7, 8}

func c16LenPick(r *sim.Rand) int {
	return r.Near(300, 0, 1, 7, 8, 9, 15, 16, 17, 31, 32, 33, 47, 48, 49, 63, 64, 65, 111, 127, 128, 129, 255, 256)
}

func c16PickDistinct(r *sim.Rand, pool []int, n int) []int {
	var out []int
	for tries := 0; len(out) < n && tries < 40; tries++ {
		x := pool[r.Intn(len(pool))]
		dup := false
		for _, y := range out {
			if y == x {
				dup = true
			}
		}
		if !dup {
			out = append(out, x)
		}
	}
	return out
}

func genC16(r *sim.Rand, tier string) *sim.Program {
	p := &sim.Program{Prop: "C16"}
	p.SetC("grand", r.Intn(1<<30))
	span := c16NA - c16NB
	switch r.Weighted(30, 3, 2, 2, 2) {
	case 0:
		p.SetC("t0", r.Intn(86400*365*3))
	case 1:
		p.SetC("t0", span-r.Range(2, 90)) // shortly before NotAfter: clock ops cross it
	case 2:
		p.SetC("t0", c16Y2050-c16NB+r.Range(-4, 2)) // signing-time attribute switches from UTCTime to GeneralizedTime
	case 3:
		p.SetC("t0", r.Intn(3)) // right after NotBefore
	default:
		p.SetC("early", 1) // the clock stays at 2000-01-01: before NotBefore, until a clock op moves it
	}
	if r.Chance(1, 6) {
		p.SetC("pre", 1) // MaybeReadByte consumes its byte
	}
	if r.Chance(1, 8) {
		p.SetC("mv", 1) // independent SM2 verification by the (slow) harness model instead of the sm2 package
	}
	clean := r.Chance(1, 2) // fault-free class
	rchunk := func() int {
		if clean || !r.Chance(1, 6) {
			return 0
		}
		return r.PickInt(1, 1, 3, 7, 100+r.Intn(6)) // >=100: one zero-length read at call (v-100), then 5-byte chunks
	}
	nm := r.Range(1, 3)
	sameKind := -1
	if r.Chance(1, 2) {
		sameKind = r.Weighted(5, 3, 1, 2)
	}
	var first []byte
	for i := 0; i < nm; i++ {
		content := r.Bytes(c16LenPick(r))
		if i == 0 {
			first = content
		} else if r.Chance(1, 3) {
			content = first
		}
		k := sameKind
		if k < 0 {
			k = r.Weighted(5, 3, 1, 2)
		}
		switch k {
		case 0: // sign
			mode := r.Weighted(8, 5, 2, 2, 2, 1)
			nsig := 1 + r.Weighted(6, 3, 1)
			if mode >= 3 {
				nsig = 1
			}
			ps := c16PickDistinct(r, c16SignerPool, nsig)
			if mode >= 4 {
				ps = []int{r.PickInt(0, 0, 6, 7, 8)}
			}
			ints := []int{r.Intn(2), mode, b2ii(r.Chance(1, 3)), r.Weighted(6, 2, 2, 1), r.Weighted(6, 1, 1, 1), rchunk(), len(ps)}
			for _, x := range ps {
				ints = append(ints, x, r.Weighted(1, 3, 1, 2)) // digest for RSA/ECDSA parties: sha1, sha256, sha384, sha512 (SM2 parties always use SM3)
			}
			// after the signer list: Remove{Unauthenticated,Authenticated}Attributes before Finish, SetEncryptionAlgorithm before each signer
			post, encSel := 0, 0
			if mode < 4 && r.Chance(1, 4) {
				post = r.Weighted(0, 3, 3, 1)
			}
			if mode < 4 && r.Chance(1, 4) {
				encSel = 1 + r.Intn(2)
			}
			ints = append(ints, post, encSel)
			p.Add("sign", ints...).WithB(content)
		case 1: // envelope
			flav := r.Weighted(4, 4, 3, 2, 1, 1)
			nr := 1 + r.Weighted(5, 3, 2)
			rs := c16PickDistinct(r, c16RecvPool, nr)
			if r.Chance(1, 40) {
				rs = append(rs, r.PickInt(3, 4)) // an ECDSA certificate cannot receive: creation-time error expected
			}
			if r.Chance(2, 5) {
				// the step-wise builder: per-recipient version and key encoding, optional caller-supplied session
				skind := r.Weighted(2, 2, 3, 3)
				sfault := 0
				if skind >= 2 && !clean && r.Chance(1, 6) {
					sfault = 1 + r.Intn(4)
				}
				ints := []int{r.Intn(12), r.Intn(2), skind, rchunk(), sfault, len(rs)}
				uniform := r.Chance(1, 2)
				v0, l0 := r.Weighted(3, 3, 2), r.Intn(2)
				for _, x := range rs {
					v, l := v0, l0
					if !uniform {
						v, l = r.Weighted(3, 3, 2), r.Intn(2)
					}
					if v == 2 && x == 0 && r.Chance(9, 10) {
						v = 1 // the fixture leaf has no SubjectKeyIdentifier: creation-time error expected (kept rare)
					}
					ints = append(ints, x, v, l)
				}
				ints = append(ints, r.Intn(c16NParties)) // where the search for an outsider starts
				p.Add("envs", ints...).WithB(content, r.Bytes(16))
				continue
			}
			ints := []int{r.Intn(12), flav, rchunk(), len(rs)}
			ints = append(ints, rs...)
			p.Add("env", ints...).WithB(content)
		case 2: // PSK
			p.Add("psk", r.Intn(12), r.Intn(2), rchunk()).WithB(content, r.Bytes(32))
		default: // sign-and-envelope
			ns := 1 + r.Weighted(6, 2)
			nr := 1 + r.Weighted(5, 3, 2)
			ss := c16PickDistinct(r, c16SignerPool, ns)
			rs := c16PickDistinct(r, c16RecvPool, nr)
			ints := []int{r.Intn(12), r.Intn(2), rchunk(), len(ss), len(rs)}
			for _, x := range ss {
				ints = append(ints, x, r.Weighted(1, 3, 1, 2))
			}
			ints = append(ints, rs...)
			ints = append(ints, b2ii(r.Chance(1, 4))) // AddCertificate(unrelated certificate)
			p.Add("sed", ints...).WithB(content)
		}
	}
	clockOp := func() {
		switch r.Intn(7) {
		case 0:
			p.Add("clockto", c16NA-1)
		case 1:
			p.Add("clockto", c16NA)
		case 2:
			p.Add("clockto", c16NA+1)
		case 3:
			p.Add("clockto", c16NB+r.Intn(3)-1)
		case 4:
			p.Add("clockto", c16NA+86400*r.Range(1, 400))
		case 5:
			p.Add("clockto", c16Y2050+r.Range(-2, 2))
		default:
			p.Add("clockto", c16NB+r.Intn(span))
		}
	}
	if !clean && r.Chance(1, 5) && len(p.Ops) > 1 {
		// a clock jump between two productions
		last := p.Ops[len(p.Ops)-1]
		p.Ops = p.Ops[:len(p.Ops)-1]
		clockOp()
		p.Ops = append(p.Ops, last)
	}
	nd := r.Range(2, 7)
	didAll := false
	for i := 0; i < nd; i++ {
		m := r.Intn(nm)
		party := r.Intn(c16NParties)
		if r.Chance(2, 3) {
			party = -1 - r.Intn(3) // the (-party-1)-th recipient of the message
		}
		vmode := r.Weighted(4, 4, 2, 1)
		variant := 0
		if r.Chance(1, 5) {
			variant = 1 + r.Intn(4)
		}
		via, at := 0, 0
		if r.Chance(1, 3) {
			via = r.Weighted(0, 6, 2, 2, 1) // ParseWithSession: the builder's / a transparent session, DefaultSession, a foreign session, a failing session
		}
		if vmode == 2 && r.Chance(1, 2) {
			at = 1 + r.Intn(10) // explicit time for VerifyWithChainAtTime (c16AtTimes)
		}
		if clean {
			f := 0
			if r.Chance(1, 4) {
				f = 6
			}
			if via >= 3 {
				via = 1 // a foreign / failing session is a fault
			}
			p.Add("dlv", m, f, r.Intn(3), 0, 0, party, vmode, variant, via, at, r.PickInt(0, 0, 0, 0, 0, 1)).WithB(r.Bytes(32))
			continue
		}
		if r.Chance(1, 8) {
			clockOp()
			continue
		}
		if !didAll && r.Chance(1, 40) {
			didAll = true
			cnt := 0 // all positions (capped at 1200 in exec)
			if r.Chance(1, 2) {
				cnt = r.Range(40, 300)
			}
			p.Add("all", m, r.Intn(7), 1+r.Intn(255), r.Intn(4096), cnt, party, r.Weighted(4, 2), 0)
			continue
		}
		f := r.Weighted(3, 8, 3, 1, 4, 4, 2, 3, 6, 1, 3, 2, 2, 2)
		a, b, c := r.Intn(1<<16), r.Intn(1<<16), r.Intn(1<<16)
		var extra []byte
		switch f {
		case 1:
			b = 1 + r.Intn(255)
			if r.Chance(1, 3) {
				b = 1 << uint(r.Intn(8))
			}
		case 2:
			if r.Chance(1, 3) {
				a = r.Intn(8)
			}
			if r.Chance(1, 3) {
				extra = [][]byte{{0x30, 0x81}, {0x1f, 0x80}, {0x30, 0x84, 0x80}, {0x30, 0x80}, {0x04, 0x82, 0x01}, {0xbf, 0x8f}}[r.Intn(6)]
			}
		case 3:
			extra = r.Bytes(r.Range(1, 9))
			if r.Chance(1, 3) {
				extra = []byte{0, 0}
			}
		case 4, 5, 10:
			b = r.Intn(nm)
		case 7:
			extra = r.Bytes(c16LenPick(r))
		case 8:
			b = r.Intn(sim.LieKinds)
			c = r.Range(1, 4)
		}
		if extra == nil {
			extra = r.Bytes(32)
		}
		p.Add("dlv", m, f, a, b, c, party, vmode, variant, via, at, r.PickInt(0, 0, 0, 0, 0, 1)).WithB(extra)
	}
	if r.Chance(1, 6) {
		p.Add("der", r.Intn(1<<30), r.Intn(3))
	}
	if r.Chance(1, 8) {
		mask := r.Intn(1 << 13)
		if r.Chance(1, 4) {
			mask = r.PickInt(0, 1, 1<<9, 1<<10|1, 1<<13-1)
		}
		p.Add("degen", mask, r.Intn(3), r.Intn(1<<16), 1+r.Intn(255))
	}
	return p
}

func b2ii(b bool) int {
	if b {
		return 1
	}
	return 0
}
