package props

import (
	"bytes"
	"encoding"
	"hash"
	"testing"

	"github.com/emmansun/gmsm/kdf"
	"github.com/emmansun/gmsm/sm3"

	"verif/harness/model/sm3m"
	"verif/harness/sim"
)

// C01: SM3 hash object histories (write splits, Sum, Reset, checkpoint,
// crash/restore, fork) and the SM3 KDF, against the model, on every tier.

func init() {
	selfTests("C01", sm3m.SelfTest)
	register(&Prop{
		ID:    "C01",
		Level: "exploration",
		Nodes: func(tier string) []string {
			return []string{"avx2", "avx", "sse", "scalar", "purego"}
		},
		Cross:        true,
		Gen:          genC01,
		Exec:         execC01,
		QuickSecs:    25,
		ThoroughSecs: 600,
		RunsPerJob:   4000,
		Rule: "a run is a seeded history over {write(chunk), sum, sum-append, reset, checkpoint(MarshalBinary/AppendBinary), crash-restore, fork, sm3.Sum, kdf(z,n), kdf-prefix, kdf via kdf.Kdf (optimised and marshal paths)}; " +
			"abstract history = sequence of (op kind, length class mod 64 / block-count class, buffered-bytes class); non-trivial = at least 2 ops; distinct = distinct abstract histories",
		Real:  []string{"sm3", "internal/sm3 (asm tiers per node; generic in purego)", "kdf"},
		Stubs: []string{"simulated pipe deciding Write chunking", "crash = object dropped and rebuilt from last exported state"},
		Assume: []string{"model SM3/KDF (harness/model/sm3m) is anchored on the GB/T 32905 appendix vectors at worker start-up",
			"only x86-64 tiers are reachable in this sandbox (arm64/ppc64/s390x assembly not executed)"},
	})
}

var sm3Boundaries = []int{0, 1, 55, 56, 57, 63, 64, 65, 119, 120, 128, 192, 256, 448, 512}

func genC01(r *sim.Rand, tier string) *sim.Program {
	p := &sim.Program{Prop: "C01"}
	// swarm: which op kinds are enabled in this run
	enSum := r.Chance(3, 4)
	enReset := r.Chance(1, 3)
	enCkpt := r.Chance(1, 2)
	enKdf := r.Chance(1, 2)
	hashOps := r.Chance(5, 6)
	big := r.Chance(1, 40)
	nops := r.Range(2, 24)
	if !hashOps {
		enKdf = true
	}
	for i := 0; i < nops; i++ {
		var choices []string
		if hashOps {
			choices = append(choices, "write", "write", "write")
			if enSum {
				choices = append(choices, "sum", "sumapp")
			}
			if enReset {
				choices = append(choices, "reset")
			}
			if enCkpt {
				choices = append(choices, "ckpt", "crash", "fork", "ckptapp")
			}
			choices = append(choices, "oneshot")
		}
		if enKdf {
			choices = append(choices, "kdf", "kdf", "kdfpre", "kdfvia", "kdfwrap", "kdfobj")
		}
		k := choices[r.Intn(len(choices))]
		switch k {
		case "write":
			n := r.Near(300, sm3Boundaries...)
			if big && r.Chance(1, 3) {
				n = r.Range(4096, 70000)
			}
			p.Add("write").WithB(r.Bytes(n))
		case "sum", "reset", "ckpt", "crash", "fork", "ckptapp":
			p.Add(k)
		case "sumapp":
			p.Add("sumapp", r.Intn(40), r.Intn(80)) // prefix length, spare capacity
		case "oneshot":
			p.Add("oneshot").WithB(r.Bytes(r.Near(300, sm3Boundaries...)))
		case "kdf", "kdfvia", "kdfwrap":
			zl := genZLen(r)
			n := genKLen(r)
			p.Add(k, n).WithB(r.Bytes(zl))
		case "kdfpre":
			zl := genZLen(r)
			n := genKLen(r)
			m := r.Intn(n + 1)
			p.Add("kdfpre", n, m).WithB(r.Bytes(zl))
		case "kdfobj":
			// the KDF through the method of a hash object that has a history: bytes written (and maybe a Sum taken),
			// then Kdf twice; knob: 0 method, 1 kdf.Kdf with a constructor that hands out that same object
			p.Add("kdfobj", genKLen(r), genKLen(r), r.Intn(2), r.Intn(2)).WithB(r.Bytes(r.Near(100, sm3Boundaries...)), r.Bytes(genZLen(r)), r.Bytes(genZLen(r)))
		}
	}
	return p
}

func genZLen(r *sim.Rand) int {
	switch r.Intn(4) {
	case 0:
		return r.Intn(64)
	case 1:
		return 64*r.Intn(4) + r.Range(50, 63) // neighbourhood of the padding boundary incl. 56..63
	case 2:
		return r.Intn(260)
	default:
		return 64*r.Intn(3) + r.Intn(64)
	}
}

func genKLen(r *sim.Rand) int {
	if r.Chance(1, 60) {
		return r.PickInt(8159, 8160, 8161, 8192, 8193, 16384, 20000, 65536+32, 65536+33) // block counter beyond one / two bytes
	}
	switch r.Intn(5) {
	case 0:
		return r.Range(0, 96) // 1-3 blocks
	case 1:
		return r.Range(97, 224) // 4-7 blocks
	case 2:
		return r.Range(225, 600) // >= 8 blocks
	case 3:
		return 32 * r.Range(1, 20)
	default:
		return 32*r.Range(1, 20) + r.PickInt(-1, 1)
	}
}

// hideKdf exposes only hash.Hash + marshalling, so kdf.Kdf takes its generic marshal path.
type hideKdf struct{ hash.Hash }

func (h hideKdf) MarshalBinary() ([]byte, error) {
	return h.Hash.(encoding.BinaryMarshaler).MarshalBinary()
}
func (h hideKdf) UnmarshalBinary(b []byte) error {
	return h.Hash.(encoding.BinaryUnmarshaler).UnmarshalBinary(b)
}

func bufClass(n int) string {
	r := n % 64
	switch {
	case r == 0:
		return "b0"
	case r < 56:
		return "blo"
	default:
		return "bhi"
	}
}

func execC01(t *testing.T, p *sim.Program, c *sim.Ctx) {
	h := sm3.New()
	var absorbed []byte // what the model believes object h has absorbed
	var ckpt []byte     // last exported state
	var ckptAbs []byte  // model bytes at that checkpoint
	haveCkpt := false
	var fork hash.Hash // second object continuing from a checkpoint
	var forkAbs []byte
	if len(p.Ops) >= 2 {
		c.Nontriv = true
	}
	checkSum := func(i int, kind string, hh hash.Hash, abs []byte, tag string) {
		got := hh.Sum(nil)
		want := sm3m.Sum(abs)
		c.Out(tag, got)
		if !bytes.Equal(got, want[:]) {
			c.Fail("digest-mismatch", i, kind, "%s: Sum over %d absorbed bytes = %x, model %x", tag, len(abs), got, want)
		}
	}
	for i, op := range p.Ops {
		if c.Failed() {
			return
		}
		c.OpsDone++
		switch op.K {
		case "write":
			b := op.Bytes(0)
			c.Abs("w", sim.LenClass(len(b), 64), bufClass(len(absorbed)))
			n, err := h.Write(b)
			if n != len(b) || err != nil {
				c.Fail("write-result", i, op.K, "Write returned %d,%v for %d bytes", n, err, len(b))
			}
			absorbed = append(absorbed, b...)
			if fork != nil {
				fork.Write(b)
				forkAbs = append(forkAbs, b...)
			}
		case "sum":
			c.Abs("s", bufClass(len(absorbed)))
			checkSum(i, op.K, h, absorbed, "sum")
			if fork != nil {
				checkSum(i, op.K, fork, forkAbs, "forksum")
			}
		case "sumapp":
			pre, spare := op.Int(0), op.Int(1)
			c.Abs("sa", bufClass(len(absorbed)), spare >= 32)
			buf := make([]byte, pre, pre+spare)
			for j := range buf {
				buf[j] = byte(0xA0 + j)
			}
			full := buf[:cap(buf)]
			for j := pre; j < len(full); j++ {
				full[j] = 0x5c
			}
			out := h.Sum(buf)
			want := sm3m.Sum(absorbed)
			c.Out("sumapp", out)
			if len(out) != pre+32 || !bytes.Equal(out[pre:], want[:]) {
				c.Fail("digest-mismatch", i, op.K, "Sum(prefix %d) wrong: got %x want ...%x", pre, out, want)
			}
			for j := 0; j < pre && j < len(out); j++ {
				if out[j] != byte(0xA0+j) {
					c.Fail("sum-clobbered-prefix", i, op.K, "prefix byte %d changed", j)
				}
			}
		case "reset":
			c.Abs("r", bufClass(len(absorbed)))
			h.Reset()
			absorbed = absorbed[:0]
		case "ckpt", "ckptapp":
			c.Abs("c", bufClass(len(absorbed)))
			var st []byte
			var err error
			if op.K == "ckpt" {
				st, err = h.(encoding.BinaryMarshaler).MarshalBinary()
			} else {
				pre := []byte{1, 2, 3}
				var out []byte
				out, err = h.(encoding.BinaryAppender).AppendBinary(pre)
				if err == nil {
					if len(out) < 3 || !bytes.Equal(out[:3], []byte{1, 2, 3}) {
						c.Fail("append-binary-prefix", i, op.K, "AppendBinary did not keep the prefix")
					}
					st = out[3:]
				}
			}
			if err != nil {
				c.Fail("marshal-error", i, op.K, "marshal: %v", err)
				break
			}
			c.Hit("checkpoint")
			ckpt = append([]byte{}, st...)
			ckptAbs = append([]byte{}, absorbed...)
			haveCkpt = true
		case "crash":
			// the running object is lost; only the exported state survives
			if !haveCkpt {
				c.Abs("x0")
				// nothing durable: a restart begins from the empty state
				h = sm3.New()
				absorbed = absorbed[:0]
				c.Hit("fault:crash-no-checkpoint")
				break
			}
			c.Abs("x", bufClass(len(ckptAbs)), len(absorbed)-len(ckptAbs) > 0)
			switch len(absorbed) % 3 { // derived from data, not PRNG
			case 0:
				h = sm3.New()
			case 1:
				// the state is imported into an object that has been used for something else (written to AND summed)
				h = sm3.New()
				h.Write([]byte("garbage that must be forgotten"))
				h.Sum(nil)
			default:
				// rewind: the state is imported into the SAME running object, right after a Sum
				h.Sum(nil)
				c.Hit("probe:state-imported-into-used-summed-object")
			}
			if err := h.(encoding.BinaryUnmarshaler).UnmarshalBinary(ckpt); err != nil {
				c.Fail("unmarshal-error", i, op.K, "unmarshal own state: %v", err)
				break
			}
			c.Hit("fault:crash-restore")
			absorbed = append(absorbed[:0], ckptAbs...)
		case "fork":
			if !haveCkpt {
				c.Abs("f0")
				break
			}
			c.Abs("f", bufClass(len(ckptAbs)))
			fork = sm3.New()
			if err := fork.(encoding.BinaryUnmarshaler).UnmarshalBinary(ckpt); err != nil {
				c.Fail("unmarshal-error", i, op.K, "unmarshal own state: %v", err)
				fork = nil
				break
			}
			forkAbs = append([]byte{}, ckptAbs...)
			c.Hit("fork")
		case "oneshot":
			b := op.Bytes(0)
			c.Abs("o", sim.LenClass(len(b), 64))
			got := sm3.Sum(b)
			want := sm3m.Sum(b)
			c.Out("oneshot", got[:])
			if got != want {
				c.Fail("digest-mismatch", i, op.K, "sm3.Sum(%d bytes) = %x, model %x", len(b), got, want)
			}
		case "kdf", "kdfvia", "kdfwrap":
			z := op.Bytes(0)
			n := op.Int(0)
			if n < 0 {
				n = 0
			}
			blocks := (n + 31) / 32
			bc := "1-3"
			if blocks >= 8 {
				bc = "8+"
				c.Hit("probe:kdf-blocks>=8")
			} else if blocks >= 4 {
				bc = "4-7"
				c.Hit("probe:kdf-blocks4-7")
			}
			if len(z)%64 >= 60 && blocks >= 4 {
				c.Hit("probe:kdf-zlen60-63-multilane")
			}
			c.Abs(op.K, len(z)%64, len(z)/64, bc, n%32 == 0)
			var got []byte
			switch op.K {
			case "kdf":
				got = sm3.Kdf(z, n)
			case "kdfvia":
				got = kdf.Kdf(sm3.New, z, n)
			case "kdfwrap":
				got = kdf.Kdf(func() hash.Hash { return hideKdf{sm3.New()} }, z, n)
			}
			want := sm3m.KDF(z, n)
			c.Out(op.K, got)
			if !bytes.Equal(got, want) {
				d := 0
				for d < len(got) && d < len(want) && got[d] == want[d] {
					d++
				}
				c.Fail("kdf-mismatch", i, op.K, "len(z)=%d n=%d: output differs from model at byte %d (len got %d want %d)", len(z), n, d, len(got), len(want))
			}
		case "kdfobj":
			pre, z1, z2 := op.Bytes(0), op.Bytes(1), op.Bytes(2)
			n1, n2 := op.Int(0), op.Int(1)
			if n1 < 0 {
				n1 = 0
			}
			if n2 < 0 {
				n2 = 0
			}
			c.Abs("kdfobj", len(pre)%64, len(pre) >= 64, len(z1)%64, (n1+31)/32 >= 4, op.Int(2)&1, op.Int(3)&1)
			u := sm3.New()
			u.Write(pre)
			if op.Int(2)&1 == 1 {
				u.Sum(nil)
			}
			ki, ok := u.(kdf.KdfInterface)
			if !ok {
				break
			}
			c.Hit("probe:kdf-on-used-object")
			for k, zn := range []struct {
				z []byte
				n int
			}{{z1, n1}, {z2, n2}} {
				var got []byte
				if op.Int(3)&1 == 1 {
					got = kdf.Kdf(func() hash.Hash { return u }, zn.z, zn.n)
				} else {
					got = ki.Kdf(zn.z, zn.n)
				}
				c.Out("kdfobj", got)
				if want := sm3m.KDF(zn.z, zn.n); !bytes.Equal(got, want) {
					c.Fail("kdf-mismatch", i, op.K, "Kdf call #%d on a hash object with a history (%d bytes written before): len(z)=%d n=%d differs from the model at byte %d", k+1, len(pre), len(zn.z), zn.n, firstDiff(got, want))
					break
				}
			}
		case "kdfpre":
			z := op.Bytes(0)
			n, m := op.Int(0), op.Int(1)
			if n < 0 {
				n = 0
			}
			if m < 0 {
				m = 0
			}
			if m > n {
				m = n
			}
			c.Abs("kp", len(z)%64, (n+31)/32 >= 4, (m+31)/32 >= 4)
			long := sm3.Kdf(z, n)
			short := sm3.Kdf(z, m)
			c.Out("kdfpre", short)
			if !bytes.Equal(long[:m], short) {
				c.Fail("kdf-prefix", i, op.K, "len(z)=%d: Kdf(%d) is not a prefix of Kdf(%d)", len(z), m, n)
			}
			if want := sm3m.KDF(z, n); !bytes.Equal(long, want) {
				c.Fail("kdf-mismatch", i, op.K, "len(z)=%d n=%d differs from model", len(z), n)
			}
		}
	}
	// final: whatever the history was, the object still equals the model
	if !c.Failed() {
		checkSum(len(p.Ops)-1, "final", h, absorbed, "final")
	}
}
