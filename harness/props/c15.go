package props

import (
	"strings"
	"time"

	"verif/harness/sim"
)

// C15: PKI parties (CA nodes, subscriber nodes, verifier nodes) with a
// simulated clock. A program issues a small topology with smx509, moves the
// fake clock, verifies chains / single signatures / requests / revocation
// lists and injects transport faults into the DER objects. The oracle is a
// topology model kept by the harness (who signed whom with which key,
// windows, CA flag, path length, key usage, name constraints).

// c15ExactWindows: completeness is also asserted AT the boundaries of
// constraints whose reading is undisputed: verification time anywhere inside
// every validity period including exactly at notBefore / notAfter (RFC 5280
// 4.1.2.5: "the period ... from notBefore through notAfter, inclusive"), path
// length constraint exactly used up, DNS names inside permitted / outside
// excluded subtrees (no leading-period constraints, no wildcard names).
// Violation class "valid-chain-rejected-at-boundary". false restricts the
// completeness direction to plain chains and times more than one hour away
// from both ends of every window (class "valid-chain-rejected").
const c15ExactWindows = true

func init() {
	register(&Prop{
		ID:         "C15",
		Level:      "exploration",
		Nodes:      func(tier string) []string { return []string{"avx2", "purego"} },
		Cross:      true,
		GlobalRand: true,
		Init:       c15Init,
		Gen:        genC15,
		Exec:       execC15,
		QuickSecs:  40, ThoroughSecs: 600, RunsPerJob: 60,
		Rule: "a run issues, inside a fake-clock bubble starting at 2000-01-01, a PKI topology with smx509.CreateCertificate (roots, 0-3 intermediates, optional second root with a cross-signed intermediate, optional unrelated root with the SAME subject and another key, leaf; per certificate a key of type SM2 / ECDSA P-256 / P-384 / RSA-1024 / RSA-2048 / Ed25519, a validity window relative to the clock, CA flag, path length, key usage, extended key usage, DNS names, permitted / excluded DNS subtrees, signature algorithm) and plays {advance the clock to just before / exactly at / just after a notBefore / notAfter, Certificate.Verify with chosen root and intermediate pools (AddCert or AppendCertsFromPEM), implicit or explicit time, optional tampered pool member, CheckSignatureFrom / CheckSignature between arbitrary pairs, certificate request (plain, CFCA via smx509 and via cfca) create-parse-check, revocation list create-parse-check incl. signing with a foreign key, one byte altered in the signed portion / signature value / envelope of any DER object, every (sampled) byte altered, truncation, " +
			"Verify with one pool member added through CertPool.AddCertWithConstraint (callback chosen by the program: at most k certificates below / certificate s not below / refuse all / accept all; in the roots, the intermediates or both), with a small VerifyOptions.MaxConstraintComparisions, with VerifyOptions.KeyUsages any / default / serverAuth / clientAuth / codeSigning / mixed against extended key usages nested down the path, Certificate.CheckSignature and CheckSignatureWithDigest driven directly with the honest triple of an issued object and with the signature / message / digest / key / algorithm replaced, the deprecated Certificate.CreateCRL parsed with ParseCRL, ParseDERCRL and ParseRevocationList and checked with CheckCRLSignature / CheckSignatureFrom}; " +
			"abstract history = sequence of (op kind, key types, template classes, pool shape, time relation to the windows, fault kind and region, verdict class); non-trivial = at least one object issued and one checking op executed; distinct = distinct abstract histories",
		Real:  []string{"smx509 (CreateCertificate, ParseCertificate, CheckSignatureFrom, CheckSignature, Verify, CertPool, CreateCertificateRequest, ParseCertificateRequest, CreateCFCACertificateRequest, ParseCFCACertificateRequest, CreateRevocationList, ParseRevocationList, ParsePKCS8PrivateKey, CertPool.AddCertWithConstraint, VerifyOptions.MaxConstraintComparisions / KeyUsages, Certificate.CheckSignatureWithDigest, Certificate.CreateCRL, ParseCRL, ParseDERCRL, Certificate.CheckCRLSignature)", "cfca (CreateCertificateRequest, ParseCertificateRequest)", "sm2 signing and verification (asm / generic per node), sm3", "Go crypto/rsa, crypto/ecdsa, crypto/ed25519 for the other key types"},
		Stubs: []string{"wall clock: testing/synctest fake clock (moves only when the simulator sleeps; cannot move backwards - earlier instants are reached with an explicit VerifyOptions.CurrentTime)", "crypto/rand and the standard library's signing randomness: testing/cryptotest.SetGlobalRandom seeded from the program", "transport between CA, subscriber and verifier: byte alteration, truncation, substitution of the issuer certificate"},
		Assume: []string{
			"chain soundness is judged for every returned chain against the harness' topology model by KEY IDENTITY; the model never reads a field of a parsed certificate",
			"path length counts every intermediate between the constrained certificate and the leaf (Go's reading, at least as strict as RFC 5280 which exempts self-issued ones; the generator issues no self-issued intermediates); name constraints of a CA are checked against the DNS names of every certificate below it in the chain (RFC 5280 6.1.3 (b),(c); no self-issued intermediates exist in the simulation); host name matching (VerifyOptions.DNSName) is not part of the statement: its outcome is recorded, never judged",
			"extended key usage, soundness only, by the rule the library documents (VerifyOptions.KeyUsages: \"A chain is accepted if it allows any of the listed values. An empty list means ExtKeyUsageServerAuth\"; Verify: \"enforced nested down a chain\"): unless ExtKeyUsageAny is requested, every returned chain must have a requested usage that each of its certificates permits (no extended key usage, anyExtendedKeyUsage, or the usage listed) - class chain-eku-incompatible; Verify is never REQUIRED to accept a chain that carries extended key usages unless any is requested",
			"pool constraints (AddCertWithConstraint): the callback is a deterministic monotone predicate over model records (refusing a list implies refusing every extension of it), so the demand - the predicate accepts the part of a returned chain BELOW the constrained certificate, which is what the library hands to it - is the weakest one under both readings of the documentation's \"the whole chain\"; a certificate that is both the verified one and a configured root yields the one-element chain without the callback being consulted (as in Go): not judged; completeness is asserted only for paths whose constraints accept",
			"MaxConstraintComparisions (values -1, 1..8): soundness only - returned chains satisfy the model whatever the budget, no panic; a budget may reject or drop chains the default budget accepts (counted as probes by a second Verify with the default budget); the completeness direction is kept for paths without name constraints only (the budget is consulted only for a CA that carries name constraints)",
			"direct checks: the honest (algorithm, signed bytes, signature value) triple located by the harness' TLV reader must verify with CheckSignature and, for RSA / ECDSA / SM2, with CheckSignatureWithDigest and the digest computed by the harness (Go hashes; SM3(ZA || m) from the harness' SM2 / SM3 models); an altered signature value, altered message, altered digest (inside the leftmost order-length bytes that ECDSA uses, FIPS 186-4 6.4), shortened digest, empty signature, another certificate's key, another algorithm of the family with the digest an honest verifier would compute for it, the original digest under another algorithm's name, and for SM2 the plain SM3 digest without ZA must all be refused; Ed25519 has no pre-hashed form (CheckSignatureWithDigest documents RSA, ECDSA, SM2): recorded only",
			"deprecated CreateCRL: must succeed for every key type with the default algorithm (it has no CA / cRLSign precondition), parse with all three parsers with equal issuer, times, entries and authority key id, verify under the issuer with CheckCRLSignature (ungated) and like any revocation list with CheckSignatureFrom / CheckSignature, fail under a foreign key; altered deliveries are judged through ParseRevocationList first and ParseCRL + ParseDERCRL + CheckCRLSignature second; the deprecated pair reads the algorithm from the outer identifier only, so an envelope alteration decoding to the identical triple is tolerated there as for requests",
			"trust anchors are whatever the verifier configured: the self-signature, validity of signature algorithm (SHA-1) of a root is not demanded, but its window, CA flag, key usage, path length and name constraints are (as for any non-leaf)",
			"completeness (Verify must succeed) is asserted only if the model finds a PLAIN chain: all certificates inside their windows (const c15ExactWindows: inclusive ends per RFC 5280 4.1.2.5; otherwise more than one hour from both ends), every issuer a CA with keyCertSign or no key usage, no path length, no name constraint, no SHA-1 signature, ExtKeyUsageAny requested or no EKU in the chain, no DNSName, no tampered pool member",
			"CheckSignatureFrom must refuse a parent that is not a CA or lacks keyCertSign (RFC 5280 4.2.1.9 / 4.2.1.3, quoted in the function); the ungated Certificate.CheckSignature is the path used to confirm signatures made by such issuers; SHA-1 certificate signatures: either verdict of CheckSignatureFrom is accepted",
			"alterations of the signed portion or of the signature value must always fail; alterations of envelope bytes (outer SEQUENCE header, outer AlgorithmIdentifier, BIT STRING header and unused-bits octet) must fail too for certificates and revocation lists (outer identifier = signed inner identifier); for requests, which carry no inner identifier, an envelope alteration that decodes to the identical (signed bytes, signature algorithm, signature bytes) triple is tolerated and counted as probe:benign-envelope-alteration (the parameters field of a PKCS#1 v1.5 identifier is ignored: NULL with another tag)",
			"objects larger than 144 bytes are altered at 144 evenly spaced positions per exhaustive op with a seeded phase, so every position is reached across runs",
			"creation errors for unsupported combinations (MD5, algorithm / key family mismatch, CRL issuer without cRLSign or key identifier, CFCA request with an Ed25519 / ECDSA key, PSS-SHA512 on RSA-1024) are not violations; a refusal of a supported combination is",
			"SM2 signatures of issued objects are additionally verified with the harness' own SM2 model (ZA with the default user id over the DER bytes located by the harness' TLV reader) when the op asks for it",
		},
	})
}

var c15DNSPool = []string{"www.example.com", "api.example.com", "example.com", "a.b.example.com", "www.example.org", "host.test.example", "WWW.Example.COM", "*.example.com", "example.net", "xn--80ak6aa92e.com"}
var c15ConstraintPool = []string{"example.com", ".example.com", "com", "example.org", "api.example.com", "test.example", "b.example.com", "Example.COM", ".com", "net"}

// op layouts (all ints; see execC15 for the clamping):
//   cert   [issuer(-1 self), ktype, kidx, nbH, naH, bc, ca, pathSel, kuSel, ekuSel, algSel, copyOf(0 none, k+1), serial, ncCritical, randMode, modelCheck]  S[cn, dns, permitted, excluded]
//   clock  [cert, which(0 nb,1 na), deltaKind]
//   sleep  [hours, nanos]
//   verify [leaf, rootsMask, intersMask, pemBits, timeMode, tCert, tWhich, tDelta, ekuSel, dual, tamper(0 none, k+1), tamperPos, tamperXor] S[dnsName]
//   chk    [child, parent]
//   csr    [ktype, kidx, algSel, flavour(0 plain,1 smx509 CFCA,2 cfca pkg), tmpKind, randMode, modelCheck] S[cn, dns, challenge]
//   crl    [issuer, number, entries, thisH, nextH, algSel, signWith(0 issuer key, k+1 key of cert k), randMode, modelCheck]
//   (verify, continued) [..., consCert(0 none, k+1), consPools(1 roots, 2 intermediates), consKind, consParam, maxConstraintComparisons]
//   sig    [obj, pos, xor, otherCert, algSel]
//   crl1   [issuer, entries, thisH, nextH, signWith(0 issuer key, k+1 key of cert k), randMode, modelCheck, pos, xor]
//   alter  [obj, region(0 tbs,1 sig,2 anywhere), pos, xor]
//   alterall [obj, phase, xorSeed]
//   trunc  [obj, keep]

func genC15(r *sim.Rand, tier string) *sim.Program {
	p := &sim.Program{Prop: "C15"}
	p.SetC("grand", r.Intn(1<<30))
	p.SetCB("seed", r.Bytes(32))

	keyType := func() int { return r.Weighted(40, 15, 4, 12, 8, 21) }
	uniform := -1
	if r.Chance(1, 2) {
		uniform = keyType()
		if r.Chance(1, 2) {
			uniform = c15SM2
		}
	}
	nextIdx := map[int]int{}
	newKey := func() (int, int) {
		t := uniform
		if t < 0 {
			t = keyType()
		}
		i := nextIdx[t]
		nextIdx[t]++
		if t == c15P384 && i > 1 { // derived P-384 keys are the slowest to build
			t, i = c15P256, nextIdx[c15P256]
			nextIdx[c15P256]++
		}
		return t, i % 4
	}

	faulty := r.Chance(1, 2)  // transport faults in this run?
	twisted := r.Chance(3, 5) // non-plain templates in this run?
	ncerts := 0
	type tmpl struct {
		issuer, kt, ki, nbH, naH, bc, ca, path, ku, eku, alg, copyOf, serial, crit int
		cn, dns, perm, excl                                                        string
	}
	def := func(cn string, issuer int, ca bool) *tmpl {
		t := &tmpl{issuer: issuer, cn: cn, nbH: -r.Range(2, 48), naH: r.PickInt(24*365, 24*3650, 24*30, 24*7), bc: 1}
		t.kt, t.ki = newKey()
		if ca {
			t.ca, t.ku = 1, r.PickInt(1, 1, 1, 0, 3, 5)
		} else {
			t.ku = r.PickInt(2, 2, 0, 6)
			if r.Chance(1, 4) {
				t.bc = 0
			}
		}
		t.serial = 1 + r.Intn(1<<20)
		return t
	}
	emit := func(t *tmpl) int {
		p.Add("cert", t.issuer, t.kt, t.ki, t.nbH, t.naH, t.bc, t.ca, t.path, t.ku, t.eku, t.alg, t.copyOf, t.serial, t.crit, r.PickInt(0, 0, 0, 0, 1, 2, 3), b2iInt(r.Chance(1, 40))).
			WithS(t.cn, t.dns, t.perm, t.excl)
		ncerts++
		return ncerts - 1
	}
	dnsList := func() string {
		n := r.PickInt(1, 1, 2, 0, 3)
		var l []string
		for i := 0; i < n; i++ {
			l = append(l, r.PickStr(c15DNSPool...))
		}
		return strings.Join(l, ",")
	}

	// ---- plan the topology
	nInter := r.PickInt(1, 1, 2, 2, 3, 0)
	var plan []*tmpl
	root0 := def("verif root", -1, true)
	plan = append(plan, root0)
	prev := 0
	var interIdx []int
	for i := 0; i < nInter; i++ {
		t := def("verif ca "+string(rune('A'+i)), prev, true)
		plan = append(plan, t)
		prev = len(plan) - 1
		interIdx = append(interIdx, prev)
	}
	leaf := def("verif leaf", prev, false)
	leaf.dns = dnsList()
	plan = append(plan, leaf)
	leafIdx := len(plan) - 1
	root1, twin, unrelated := -1, -1, -1
	if r.Chance(1, 3) && nInter > 0 {
		t := def("verif second root", -1, true)
		plan = append(plan, t)
		root1 = len(plan) - 1
		// the cross-signed intermediate: same subject and key as an existing intermediate, signed by the second root
		src := interIdx[r.Intn(len(interIdx))]
		x := *plan[src]
		x.issuer, x.copyOf, x.serial = root1, src+1, 1+r.Intn(1<<20)
		plan = append(plan, &x)
		twin = len(plan) - 1
	}
	if r.Chance(2, 5) {
		// unrelated root: SAME subject as the real root, another key (mostly of the same type)
		t := def(root0.cn, -1, true)
		if r.Chance(3, 4) {
			t.kt = root0.kt
			t.ki = (root0.ki + 1 + r.Intn(3)) % 4
			if t.kt == c15RSA1024 {
				t.kt = c15RSA2048
			} else if t.kt == c15RSA2048 {
				t.kt = c15RSA1024
			}
		}
		plan = append(plan, t)
		unrelated = len(plan) - 1
		if r.Chance(1, 3) {
			// and a leaf really issued by the unrelated root (same issuer name as one issued by the real root)
			l := def("verif other leaf", unrelated, false)
			l.dns = dnsList()
			plan = append(plan, l)
		}
	}
	// ---- twists
	shortWindow := -1
	ekuRun, ncRun := false, false
	if twisted {
		// the CAs on the main path (root first) and how many intermediates lie below each
		cas := append([]int{0}, interIdx...)
		below := func(ci int) int { return len(cas) - 1 - ci }
		anyCA := func() (int, *tmpl) {
			ci := r.Intn(len(cas))
			if twin >= 0 && r.Chance(1, 5) {
				return 0, plan[twin]
			}
			return ci, plan[cas[ci]]
		}
		// name constraints bind every certificate below the constraining CA, not only the leaf: in a third of the
		// twisted runs an intermediate carries DNS names of its own, and half of those leaves carry none
		if len(interIdx) > 0 && r.Chance(1, 3) {
			plan[interIdx[r.Intn(len(interIdx))]].dns = dnsList()
			if r.Chance(1, 2) {
				leaf.dns = ""
			}
		}
		// a constraint that does (hit) or does not contain a DNS name of the main path (leaf or intermediate)
		related := func(hit bool) string {
			names := c15CleanNames(leaf.dns, false)
			for _, ii := range interIdx {
				names = append(names, c15CleanNames(plan[ii].dns, false)...)
			}
			if len(names) == 0 || !hit {
				return r.PickStr(c15ConstraintPool...)
			}
			labels := strings.Split(strings.TrimPrefix(names[r.Intn(len(names))], "*."), ".")
			k := r.Range(1, len(labels))
			cst := strings.Join(labels[len(labels)-k:], ".")
			if r.Chance(1, 3) && k < len(labels) {
				cst = "." + cst
			}
			return cst
		}
		for n := r.PickInt(1, 1, 2, 3); n > 0; n-- {
			vi := r.Intn(len(plan))
			victim := plan[vi]
			switch r.Intn(21) {
			case 0: // already expired when issued
				victim.nbH, victim.naH = -r.Range(48, 96), -r.Range(1, 24)
			case 1: // not yet valid
				victim.nbH, victim.naH = r.Range(1, 48), 24*365
			case 2, 3: // short window: the clock ops will cross it
				victim.nbH, victim.naH = r.PickInt(-1, 0, 1, 2), r.Range(3, 6)
				shortWindow = vi
			case 4, 5: // a CA without the CA flag / without basic constraints
				_, v := anyCA()
				if r.Chance(2, 3) {
					v.ca = 0
				} else {
					v.bc = 0
				}
			case 6, 7: // a CA whose key usage lacks keyCertSign
				_, v := anyCA()
				v.ku = r.PickInt(2, 4, 6)
			case 8, 9, 10, 11: // path length: exactly enough, one too few, generous
				ci, v := anyCA()
				v.path = c15Clamp(below(ci)+r.PickInt(0, 0, 1, 1, 1, 2), 1, 3) // selector k means pathLenConstraint k-1
			case 12, 13, 14: // permitted subtrees
				_, v := anyCA()
				v.perm = related(r.Chance(1, 2))
				if r.Chance(1, 3) {
					v.perm += "," + r.PickStr(c15ConstraintPool...)
				}
				v.crit = r.Intn(2)
				ncRun = true
			case 15, 16: // excluded subtrees
				_, v := anyCA()
				v.excl = related(r.Chance(1, 2))
				v.crit = r.Intn(2)
				ncRun = true
			case 17: // signature algorithm other than the default (SHA-1, PSS, refused ones)
				victim.alg = r.Intn(10)
			case 18: // extended key usage
				victim.eku = r.Range(1, 5)
				ekuRun = true
			case 19: // window ends in the boundary years of the two ASN.1 time types (UTCTime covers 1950..2049)
				base := time.Date(2000, 1, 1, 0, 0, 0, 0, time.UTC)
				hrs := func(y int, m time.Month, d, h int) int {
					return int(time.Date(y, m, d, h, 0, 0, 0, time.UTC).Sub(base) / time.Hour)
				}
				switch r.Intn(5) {
				case 0: // expired long ago, last day in 1950
					victim.nbH, victim.naH = hrs(1949, 7, 1, 0), hrs(1950, 6, 30, 0)
				case 1: // first UTCTime instant
					victim.nbH, victim.naH = hrs(1950, 1, 1, 0), 24*3650
				case 2: // last UTCTime year / first GeneralizedTime year
					victim.nbH, victim.naH = -r.Range(2, 48), hrs(2049, 12, 31, 23)
				case 3:
					victim.nbH, victim.naH = -r.Range(2, 48), hrs(2050, 1, 1, 0)
				default:
					victim.nbH, victim.naH = hrs(1949, 12, 31, 23), hrs(2050, 6, 30, 0)
				}
			default: // inverted window: never valid
				victim.nbH, victim.naH = r.Range(2, 9), r.Range(-3, 1)
			}
		}
		// extended key usages nested down the main path: a CA that enumerates usages, a leaf inside or outside that list
		if r.Chance(1, 6) {
			_, v := anyCA()
			v.eku = r.PickInt(1, 1, 2, 3, 4, 5)
			if r.Chance(2, 3) {
				leaf.eku = r.PickInt(1, 1, 2, 3, 4, 5)
			}
			ekuRun = true
		}
	}
	if r.Chance(1, 3) {
		// one or two short windows in an otherwise unchanged topology: the clock ops walk across their ends
		for k := r.Range(1, 2); k > 0; k-- {
			vi := r.Intn(len(plan))
			plan[vi].nbH, plan[vi].naH = r.PickInt(-1, 0, 1, 2), r.Range(3, 6)
			shortWindow = vi
		}
	}
	for _, t := range plan {
		emit(t)
	}
	leaves := []int{leafIdx}
	for i, t := range plan {
		if t.cn == "verif other leaf" {
			leaves = append(leaves, i)
		}
	}
	if unrelated >= 0 && r.Chance(1, 2) {
		// a leaf with the same subject as the real leaf, issued by the unrelated root
		l := def(plan[leafIdx].cn, unrelated, false)
		l.dns = plan[leafIdx].dns
		leaves = append(leaves, emit(l))
	}
	if r.Chance(1, 8) {
		// a certificate issued by the leaf (an issuer that is no CA)
		l := def("verif sub leaf", leafIdx, false)
		l.dns = dnsList()
		if r.Chance(1, 4) {
			l.serial = r.PickInt(-1, 0, -1<<20) // negative serials must be refused, zero is tolerated
		}
		leaves = append(leaves, emit(l))
	}

	// ---- operations
	allInter := 0
	for _, i := range interIdx {
		allInter |= 1 << i
	}
	if twin >= 0 {
		allInter |= 1 << twin
	}
	anyCert := func() int { return r.Intn(ncerts) }
	nobjs := ncerts
	verifyOp := func() {
		lf := leaves[r.Intn(len(leaves))]
		if r.Chance(1, 2) {
			lf = leafIdx
		} else if r.Chance(1, 3) {
			lf = anyCert()
		}
		roots, inters := 1, allInter
		switch r.Intn(12) {
		case 0:
			if unrelated >= 0 {
				roots = 1 << unrelated
			}
		case 1:
			if root1 >= 0 {
				roots = 1 << root1
			}
		case 2:
			if root1 >= 0 {
				roots |= 1 << root1
			}
			if unrelated >= 0 {
				roots |= 1 << unrelated
			}
		case 3:
			roots = 0
		case 4:
			if len(interIdx) > 0 {
				inters &^= 1 << interIdx[r.Intn(len(interIdx))]
			}
		case 5:
			inters = (1 << ncerts) - 1
		case 6:
			roots, inters = r.Intn(1<<ncerts), r.Intn(1<<ncerts)
		case 7:
			roots |= 1 << lf
		case 8:
			if len(interIdx) > 0 { // an intermediate configured as trust anchor
				roots = 1 << interIdx[r.Intn(len(interIdx))]
			}
		}
		timeMode, tCert, tWhich, tDelta := 0, 0, 0, 0
		switch r.Intn(6) {
		case 0, 1:
			timeMode, tCert, tWhich, tDelta = 1, anyCert(), r.Intn(2), r.Intn(9)
			if shortWindow >= 0 && r.Chance(1, 2) {
				tCert = shortWindow
			}
		case 2:
			if r.Chance(1, 2) {
				timeMode, tDelta = 2, r.PickInt(-24*400, -100, -1, 1, 100, 24*400, 24*4000)
			}
		}
		eku := r.PickInt(0, 0, 0, 0, 1, 2, 3, 4, 5, 6, 7)
		if ekuRun && r.Chance(1, 2) {
			eku = r.PickInt(1, 2, 3, 5, 6, 7)
		}
		tamper, tpos, txor := 0, 0, 0
		if faulty && r.Chance(1, 4) {
			tamper, tpos, txor = 1+anyCert(), r.Intn(1<<16), 1+r.Intn(255)
		}
		// a pool member with a constraint callback (mostly a CA of the main path; in the roots, the intermediates or both)
		consT, consPools, consKind, consParam := 0, 0, 0, 0
		if r.Chance(1, 4) {
			cas := append([]int{0}, interIdx...)
			if twin >= 0 {
				cas = append(cas, twin)
			}
			consT = 1 + cas[r.Intn(len(cas))]
			if r.Chance(1, 6) {
				consT = 1 + anyCert()
			}
			consPools = r.PickInt(1, 2, 2, 3, 3)
			consKind = r.PickInt(0, 0, 1, 1, 2, 3)
			switch consKind {
			case 0:
				consParam = r.PickInt(1, 1, 2, 2, 3, 0)
			case 1:
				consParam = r.PickInt(lf, lf, anyCert(), anyCert())
			}
		}
		// a small budget of name constraint comparisons
		maxCmp := 0
		if (ncRun && r.Chance(1, 3)) || r.Chance(1, 16) {
			maxCmp = r.PickInt(1, 1, 2, 2, 3, 4, 6, 8, -1)
		}
		op := p.Add("verify", lf, roots, inters, r.Intn(4), timeMode, tCert, tWhich, tDelta, eku, b2iInt(r.Chance(1, 4)), tamper, tpos, txor, consT, consPools, consKind, consParam, maxCmp)
		if r.Chance(1, 5) {
			op.WithS(r.PickStr(c15DNSPool...))
		} else {
			op.WithS("")
		}
	}
	clockOp := func() {
		ci := anyCert()
		if shortWindow >= 0 && r.Chance(2, 3) {
			ci = shortWindow
		}
		if r.Chance(1, 5) || (shortWindow < 0 && r.Chance(1, 2)) {
			p.Add("sleep", r.PickInt(0, 0, 1, 1, 2, 5), r.Intn(1_000_000_000))
		} else {
			p.Add("clock", ci, r.Intn(2), r.Intn(9))
		}
	}
	faultOp := func() {
		o := r.Intn(nobjs)
		switch r.Intn(8) {
		case 0, 1, 2:
			p.Add("alter", o, r.Intn(2), r.Intn(1<<16), 1+r.Intn(255))
		case 3:
			p.Add("alter", o, 2, r.Intn(1<<16), 1+r.Intn(255))
		case 4, 5:
			p.Add("alterall", o, r.Intn(1<<16), r.Intn(1<<16))
		default:
			p.Add("trunc", o, r.Intn(1<<16))
		}
	}
	csrOp := func() {
		kt := keyType()
		flavour := r.PickInt(0, 0, 1, 2)
		if flavour != 0 && r.Chance(4, 5) {
			kt = r.PickInt(c15SM2, c15SM2, c15RSA1024, c15RSA2048)
		}
		alg := 0
		if r.Chance(1, 4) {
			alg = r.Intn(10)
		}
		p.Add("csr", kt, r.Intn(4), alg, flavour, r.Intn(4), b2iInt(r.Chance(1, 5)), b2iInt(r.Chance(1, 10))).
			WithS(r.PickStr("subscriber", "device 17", "verif leaf", ""), dnsList(), r.PickStr("secret", "pass word 1", "p@ss", "", "x"))
		nobjs++
	}
	crlOp := func() {
		iss := 0
		if r.Chance(1, 2) {
			iss = anyCert()
		}
		signWith := 0
		if r.Chance(1, 6) {
			signWith = 1 + anyCert()
		}
		alg := 0
		if r.Chance(1, 4) {
			alg = r.Intn(10)
		}
		p.Add("crl", iss, r.Intn(1<<20), r.PickInt(0, 1, 2, 5), -r.Intn(48), r.PickInt(24, 24*7, 0), alg, signWith, b2iInt(r.Chance(1, 5)), b2iInt(r.Chance(1, 10)))
		nobjs++
	}
	nops := r.Range(3, 8)
	if tier == "thorough" {
		nops = r.Range(4, 12)
	}
	sigOp := func() {
		p.Add("sig", r.Intn(nobjs+2), r.Intn(1<<16), 1+r.Intn(255), anyCert(), r.Intn(6))
	}
	crl1Op := func() {
		iss := 0
		if r.Chance(1, 2) {
			iss = anyCert()
		}
		signWith := 0
		if r.Chance(1, 6) {
			signWith = 1 + anyCert()
		}
		p.Add("crl1", iss, r.PickInt(0, 1, 2, 5), -r.Intn(48), r.PickInt(24, 24*7, 0), signWith, b2iInt(r.Chance(1, 5)), b2iInt(r.Chance(1, 10)), r.Intn(1<<16), 1+r.Intn(255))
		nobjs++
	}
	if r.Chance(1, 5) {
		p.Add("ipnc", r.Intn(1<<30), r.Intn(2), r.Intn(64), r.Intn(2), r.Intn(6))
	}
	for i := 0; i < nops; i++ {
		// (the mix of the older operations is left as it was; the direct checks and the deprecated revocation list come on top)
		if r.Chance(1, 8) {
			if r.Chance(2, 5) {
				crl1Op()
			} else {
				sigOp()
			}
		}
		switch x := r.Intn(20); {
		case x < 7:
			verifyOp()
		case x < 10:
			clockOp()
			verifyOp()
		case x < 12:
			p.Add("chk", anyCert(), anyCert())
		case x < 14:
			csrOp()
		case x < 16:
			crlOp()
		default:
			if faulty {
				faultOp()
			} else {
				p.Add("chk", anyCert(), anyCert())
			}
		}
	}
	return p
}

func b2iInt(b bool) int {
	if b {
		return 1
	}
	return 0
}
