package props

import (
	"bytes"
	"crypto/cipher"
	"crypto/ecdsa"
	"crypto/elliptic"
	"crypto/x509"
	"crypto/x509/pkix"
	"encoding/hex"
	"errors"
	"fmt"
	"math/big"
	"runtime"
	"slices"
	"testing"
	"time"

	gcipher "github.com/emmansun/gmsm/cipher"
	"github.com/emmansun/gmsm/ecdh"
	"github.com/emmansun/gmsm/sm2"
	"github.com/emmansun/gmsm/sm3"
	"github.com/emmansun/gmsm/sm4"
	"github.com/emmansun/gmsm/sm9"
	"github.com/emmansun/gmsm/smx509"
	"github.com/emmansun/gmsm/verifhook"

	"verif/harness/fixtures"
	"verif/harness/sim"
)

// C20: concurrent use of freshly created shared objects. Real goroutines are
// released one operation at a time by the seeded baton scheduler (sim.Baton),
// whose hand-off is invisible to the race detector; the detector is the
// happens-before monitor, and every result is compared with the same
// operation executed sequentially on private fresh objects.

func init() {
	register(&Prop{
		ID:    "C20",
		Level: "exploration",
		Nodes: func(tier string) []string {
			if tier == "thorough" {
				return []string{"race", "race-noclmul", "race-noaes", "race-purego"}
			}
			return []string{"race", "race-noclmul", "race-noaes"}
		},
		Cross: true,
		Gen:   genC20,
		Exec:  execC20,
		Init: func() error {
			runtime.GOMAXPROCS(8)
			verifhook.SetMaybeReadDecider(func() bool { return false })
			return nil
		},
		QuickSecs:    40,
		ThoroughSecs: 900,
		RunsPerJob:   3,
		WarmKnob:     true,
		Rule: "a run creates fresh shared objects (SM2 private key, ECDH private key, SM9 sign/encrypt master and user keys, SM4 block + GCM AEAD, lazily-parsed certificate pools) and 2-6 tasks; the program is the schedule: the ordered list of (task, operation) releases. " +
			"abstract history = ordered list of (task, op kind, first-use-or-steady flag); non-trivial = at least two different tasks touch the same shared object; distinct = distinct abstract histories",
		Real: []string{"sm2", "ecdh", "sm9 + internal/sm9 + bn256", "sm4 + internal/sm4 (GCM, CBC, CTR, ECB constructors)", "sm3", "smx509 (CertPool, Verify)", "Go race detector (happens-before monitor)"},
		Stubs: []string{"scheduler: seeded baton releasing exactly one parked goroutine at a time (raw pipe read/write, invisible to the race detector)",
			"random sources: per-operation scripted readers", "randutil.MaybeReadByte coin: hook returns 'no read'"},
		Assume: []string{"interleaving is at operation granularity: two tasks are never inside the library simultaneously, so only races the detector can see from unordered conflicting Go-level accesses, and result differences that survive serialised interleaving, are found",
			"assembly-only memory accesses are not instrumented by the race detector",
			"package-level singletons are raced only by the first run of each worker process (jobs are short so there are many processes)"},
	})
}

var c20Kinds = []string{
	"sm2.sign", "sm2.signsm2", "sm2.verify", "sm2.encrypt", "sm2.decrypt", "sm2.kx", "sm2.ecdh", "sm2.newhash", "sm2.otherza",
	"ecdh.pub", "ecdh.ecdh", "ecdh.mqv",
	"sm9.sign", "sm9.verify", "sm9.wrap", "sm9.unwrap", "sm9.enc", "sm9.dec", "sm9.genuser", "sm9.pub",
	"sm4.block", "sm4.gcm", "sm4.newgcm", "sm4.cbc", "sm4.ctr", "sm4.ecb",
	"sm3.sum", "pool.verify", "pool.clone", "fresh.sm2", "fresh.sm9", "fresh.ecdh", "fresh.sm9enc", "fresh.sm4", "fresh.x509", "fresh.sm9parse", "fresh.pem",
}

var c20Group = map[string]string{}

// c20Warmed: the warm-up (Cfg "warm") has run in this process. Process-wide lazily built tables are process state by
// nature; outputs of a run do not depend on it.
var c20Warmed bool

func init() {
	for _, k := range c20Kinds {
		g := k[:3]
		if k == "pool.verify" || k == "pool.clone" {
			g = "pool"
		}
		if k[:5] == "fresh" {
			g = "fresh"
		}
		c20Group[k] = g
	}
}

func genC20(r *sim.Rand, tier string) *sim.Program {
	p := &sim.Program{Prop: "C20"}
	nt := r.Range(2, 6)
	p.SetC("tasks", nt)
	p.SetCB("seed", r.Bytes(32))
	if r.Chance(1, 4) {
		// singleton program: no shared world is built in the scheduler goroutine; every task's FIRST operation
		// constructs and uses private objects, so that - when this is the first run of the worker process, as it
		// always is on replay - the process-wide lazily initialised singletons (curve parameters, generator
		// tables) see their first use from several tasks
		fresh := []string{"fresh.sm2", "fresh.sm9", "fresh.ecdh", "fresh.sm9enc", "fresh.sm4", "fresh.x509", "fresh.sm9parse", "fresh.pem"}
		k := fresh[r.Intn(len(fresh))]
		same := r.Chance(2, 3)
		for _, t := range r.Perm(nt) {
			if !same {
				k = fresh[r.Intn(len(fresh))]
			}
			p.Add(k, t, r.Intn(1<<30)).WithB(r.Bytes(r.PickInt(8, 16, 32)))
		}
		for i := r.Intn(nt + 1); i > 0; i-- {
			p.Add(fresh[r.Intn(len(fresh))], r.Intn(nt), r.Intn(1<<30)).WithB(r.Bytes(16))
		}
		return p
	}
	if r.Chance(1, 5) {
		// same-object program: every task makes its FIRST operation on the shared objects one of two kinds that use the
		// same lazily initialised per-object state (cached inverse, derived public key, pairing base and GT table,
		// lazily parsed certificates, GHASH tables ...), half of the time in a warm process
		pairs := [][2]string{{"sm2.sign", "sm2.signsm2"}, {"sm2.decrypt", "sm2.kx"}, {"sm2.verify", "sm2.encrypt"}, {"ecdh.pub", "ecdh.ecdh"}, {"ecdh.mqv", "ecdh.pub"},
			{"sm9.sign", "sm9.verify"}, {"sm9.verify", "sm9.verify"}, {"sm9.wrap", "sm9.enc"}, {"sm9.wrap", "sm9.wrap"}, {"sm9.unwrap", "sm9.dec"}, {"sm9.genuser", "sm9.pub"},
			{"pool.verify", "pool.clone"}, {"sm4.newgcm", "sm4.gcm"}, {"sm4.cbc", "sm4.ctr"}, {"sm2.otherza", "sm2.newhash"}, {"fresh.pem", "fresh.pem"}, {"fresh.x509", "fresh.pem"}}
		pr := pairs[r.Intn(len(pairs))]
		if r.Chance(1, 2) {
			p.SetC("warm", 1)
		}
		for _, t := range r.Perm(nt) {
			p.Add(pr[r.Intn(2)], t, r.Intn(1<<30)).WithB(r.Bytes(r.PickInt(16, 32, 33, 100)))
		}
		for i := r.Intn(3); i > 0; i-- {
			p.Add(pr[r.Intn(2)], r.Intn(nt), r.Intn(1<<30)).WithB(r.Bytes(r.PickInt(16, 32, 300)))
		}
		return p
	}
	if r.Chance(1, 2) {
		// warm process: every package-level singleton is used once, sequentially, before the tasks start. In a cold
		// process the first use of those singletons happens inside the tasks, and the library's own synchronisation of
		// that first use orders accesses to per-object state that are otherwise unordered (seeded change C10-12 was only
		// visible in runs that were not the first of their process).
		p.SetC("warm", 1)
	}
	// swarm: enabled groups (sm9 is expensive: enabled less often and with few ops)
	groups := []string{}
	if r.Chance(2, 3) {
		groups = append(groups, "sm2")
	}
	if r.Chance(1, 3) {
		groups = append(groups, "ecd")
	}
	if r.Chance(1, 3) {
		groups = append(groups, "sm9")
	}
	if r.Chance(1, 3) {
		groups = append(groups, "sm4")
	}
	if r.Chance(1, 4) {
		groups = append(groups, "pool")
	}
	if r.Chance(1, 6) {
		groups = append(groups, "sm3")
	}
	if len(groups) == 0 {
		groups = append(groups, "sm2")
	}
	if r.Chance(1, 3) {
		groups = append(groups, "fresh")
	}
	var kinds []string
	for _, k := range c20Kinds {
		for _, g := range groups {
			if c20Group[k] == g {
				kinds = append(kinds, k)
			}
		}
	}
	// phase 1 (bias): every task performs a first-use operation on the fresh objects before any second operation
	firstAll := r.Chance(2, 3)
	nops := r.Range(nt, 3*nt+2)
	hasSM9 := false
	for _, g := range groups {
		if g == "sm9" {
			hasSM9 = true
		}
	}
	if hasSM9 && nops > 2*nt {
		nops = 2 * nt
	}
	add := func(task int) {
		k := kinds[r.Intn(len(kinds))]
		p.Add(k, task, r.Intn(1<<30)).WithB(r.Bytes(r.PickInt(1, 16, 31, 32, 33, 64, 100, 300, 420)))
	}
	if firstAll {
		for _, t := range r.Perm(nt) {
			add(t)
		}
	}
	for len(p.Ops) < nops {
		add(r.Intn(nt))
	}
	return p
}

// c20World holds the shared objects of a run; a second instance built from
// the same seed provides the private fresh objects of the sequential oracle.
var c20Usages = []smx509.ExtKeyUsage{smx509.ExtKeyUsageCodeSigning, smx509.ExtKeyUsageEmailProtection, smx509.ExtKeyUsageTimeStamping, smx509.ExtKeyUsageOCSPSigning, smx509.ExtKeyUsageClientAuth, smx509.ExtKeyUsageServerAuth}

type c20World struct {
	usages        []smx509.ExtKeyUsage // the application's shared list of requested key usages
	ekuLeaf       *smx509.Certificate  // leaf whose extended key usages cover only part of that list
	seed          []byte
	sm2Priv       *sm2.PrivateKey
	sm2Peer       *sm2.PrivateKey
	sm2Other      *sm2.PrivateKey       // the SM2 algorithms over another curve (NIST P-256)
	twins         []*smx509.Certificate // self-signed certificates that all carry ONE subject: 3 in the root pool, the rest for clones
	sm2Sig        []byte                // made with an independent object
	sm2Ct         []byte
	ecdhPriv      *ecdh.PrivateKey
	ecdhEph       *ecdh.PrivateKey
	ecdhPeer      *ecdh.PrivateKey
	ecdhPeerE     *ecdh.PrivateKey
	signMaster    *sm9.SignMasterPrivateKey
	signPubParsed *sm9.SignMasterPublicKey    // the same master public keys as an application gets them: parsed from their encoding
	encPubParsed  *sm9.EncryptMasterPublicKey //
	ncLeaf        *smx509.Certificate         // leaf with DNS names under a pool root that carries name constraints
	ncRoot        *smx509.Certificate
	signUser      *sm9.SignPrivateKey
	encMaster     *sm9.EncryptMasterPrivateKey
	encUser       *sm9.EncryptPrivateKey
	sm9Sig        []byte
	sm9Ct         []byte
	sm9Wrapped    []byte
	block         cipher.Block
	gcm           cipher.AEAD
	roots, inters *smx509.CertPool
	leaf          *smx509.Certificate
}

// c20UID is the identity every SM9 operation of every task passes: ONE buffer with spare capacity behind its
// length, as a caller who cut it out of a larger buffer would hold it. The library must not write behind the length
// (c20UIDIntact is checked after every run; under the race detector a write from two tasks is a report of its own).
var c20UID = func() []byte {
	b := make([]byte, 11, 48)
	copy(b, "alice@verif")
	copy(b[11:48], c20UIDSpare)
	return b
}()

var c20UIDSpare = bytes.Repeat([]byte{0xA5}, 37)

func c20UIDIntact() bool {
	return string(c20UID) == "alice@verif" && bytes.Equal(c20UID[11:48], c20UIDSpare)
}

// c20LongPlain: 300 bytes = 10 KDF blocks (more than one 8-lane batch, not a multiple of 4: every SIMD tier has a tail)
var c20LongPlain = derive([]byte("c20"), "long plaintext", 300)

func derive(seed []byte, tag string, n int) []byte {
	out := make([]byte, 0, n)
	ctr := 0
	for len(out) < n {
		h := sm3.Sum(append(append([]byte(tag), byte(ctr)), seed...))
		out = append(out, h[:]...)
		ctr++
	}
	return out[:n]
}

func scalarFrom(seed []byte, tag string) []byte {
	b := derive(seed, tag, 32)
	b[0] &= 0x7f // below both group orders
	b[31] |= 1
	return b
}

func opReader(seed []byte, opseed int) *sim.ScriptReader {
	d := derive(seed, fmt.Sprintf("op%d", opseed), 64)
	d[0] &= 0x7f
	return &sim.ScriptReader{Data: d, Fill: d[1], Step: 7}
}

// newC20World creates fresh objects. groups limits which (expensive) objects are built.
func newC20World(seed []byte, need map[string]bool, withArtefacts *c20World) (*c20World, error) {
	w := &c20World{seed: seed, usages: slices.Clone(c20Usages)}
	var err error
	if need["sm2"] {
		if w.sm2Priv, err = sm2.NewPrivateKey(scalarFrom(seed, "sm2d")); err != nil {
			return nil, err
		}
		if w.sm2Peer, err = sm2.NewPrivateKey(scalarFrom(seed, "sm2peer")); err != nil {
			return nil, err
		}
		od := scalarFrom(seed, "sm2other")
		w.sm2Other = new(sm2.PrivateKey)
		w.sm2Other.Curve = elliptic.P256()
		w.sm2Other.D = new(big.Int).SetBytes(od)
		w.sm2Other.X, w.sm2Other.Y = elliptic.P256().ScalarBaseMult(od)
		if withArtefacts == nil {
			// artefacts are produced with an independent object so that the shared one stays unused
			ind, _ := sm2.NewPrivateKey(scalarFrom(seed, "sm2d"))
			if w.sm2Sig, err = ind.SignWithSM2(opReader(seed, -1), nil, []byte("fixed message")); err != nil {
				return nil, err
			}
			if w.sm2Ct, err = sm2.Encrypt(opReader(seed, -2), &ind.PublicKey, c20LongPlain, nil); err != nil {
				return nil, err
			}
		} else {
			w.sm2Sig, w.sm2Ct = withArtefacts.sm2Sig, withArtefacts.sm2Ct
		}
	}
	if need["ecd"] {
		c := ecdh.P256()
		if w.ecdhPriv, err = c.NewPrivateKey(scalarFrom(seed, "ecdh")); err != nil {
			return nil, err
		}
		w.ecdhEph, _ = c.NewPrivateKey(scalarFrom(seed, "ecdhe"))
		w.ecdhPeer, _ = c.NewPrivateKey(scalarFrom(seed, "ecdhp"))
		w.ecdhPeerE, _ = c.NewPrivateKey(scalarFrom(seed, "ecdhpe"))
	}
	if need["sm9"] {
		if w.signMaster, err = sm9.GenerateSignMasterKey(&sim.ScriptReader{Data: scalarFrom(seed, "sm9s")}); err != nil {
			return nil, err
		}
		if w.signUser, err = w.signMaster.GenerateUserKey(c20UID, 1); err != nil {
			return nil, err
		}
		if w.encMaster, err = sm9.GenerateEncryptMasterKey(&sim.ScriptReader{Data: scalarFrom(seed, "sm9e")}); err != nil {
			return nil, err
		}
		if w.encUser, err = w.encMaster.GenerateUserKey(c20UID, 3); err != nil {
			return nil, err
		}
		if der, e := w.signMaster.PublicKey().MarshalASN1(); e == nil {
			w.signPubParsed, _ = sm9.UnmarshalSignMasterPublicKeyASN1(der)
		}
		if der, e := w.encMaster.PublicKey().MarshalASN1(); e == nil {
			w.encPubParsed, _ = sm9.UnmarshalEncryptMasterPublicKeyASN1(der)
		}
		if w.signPubParsed == nil || w.encPubParsed == nil {
			return nil, fmt.Errorf("sm9 master public key does not parse back")
		}
		if withArtefacts == nil {
			im, _ := sm9.GenerateSignMasterKey(&sim.ScriptReader{Data: scalarFrom(seed, "sm9s")})
			iu, _ := im.GenerateUserKey(c20UID, 1)
			if w.sm9Sig, err = sm9.SignASN1(opReader(seed, -3), iu, []byte("fixed message")); err != nil {
				return nil, err
			}
			em, _ := sm9.GenerateEncryptMasterKey(&sim.ScriptReader{Data: scalarFrom(seed, "sm9e")})
			if w.sm9Ct, err = sm9.Encrypt(opReader(seed, -4), em.PublicKey(), c20UID, 3, []byte("fixed plaintext"), nil); err != nil {
				return nil, err
			}
			if _, w.sm9Wrapped, err = sm9.WrapKey(opReader(seed, -5), em.PublicKey(), c20UID, 3, 32); err != nil {
				return nil, err
			}
		} else {
			w.sm9Sig, w.sm9Ct, w.sm9Wrapped = withArtefacts.sm9Sig, withArtefacts.sm9Ct, withArtefacts.sm9Wrapped
		}
	}
	if need["sm4"] {
		if w.block, err = sm4.NewCipher(derive(seed, "sm4k", 16)); err != nil {
			return nil, err
		}
		if w.gcm, err = cipher.NewGCM(w.block); err != nil {
			return nil, err
		}
	}
	if need["pool"] {
		w.roots = smx509.NewCertPool()
		w.inters = smx509.NewCertPool()
		if !w.roots.AppendCertsFromPEM([]byte(fixtures.RootPEM + fixtures.OtherRootPEM)) {
			return nil, fmt.Errorf("root pem")
		}
		if !w.inters.AppendCertsFromPEM([]byte(fixtures.IntermediatePEM)) {
			return nil, fmt.Errorf("intermediate pem")
		}
		if w.leaf, err = smx509.ParseCertificatePEM([]byte(fixtures.LeafPEM)); err != nil {
			return nil, err
		}
		// eleven self-signed certificates with one and the same subject: three join the root pool (its per-subject
		// index then has spare capacity), the others are added by the tasks to their own clones of the pool
		if withArtefacts != nil {
			w.twins = withArtefacts.twins
		} else {
			for k := 0; k < 11; k++ {
				tk, err := sm2.NewPrivateKey(scalarFrom(seed, fmt.Sprintf("twin%d", k)))
				if err != nil {
					return nil, err
				}
				tmpl := &x509.Certificate{SerialNumber: big.NewInt(int64(7000 + k)), Subject: pkix.Name{Organization: []string{"verif"}, CommonName: "verif twin root"},
					NotBefore: c20VerifyTime.AddDate(-1, 0, 0), NotAfter: c20VerifyTime.AddDate(1, 0, 0), BasicConstraintsValid: true, IsCA: true, KeyUsage: x509.KeyUsageCertSign}
				der, err := smx509.CreateCertificate(opReader(seed, -100-k), tmpl, tmpl, &tk.PublicKey, tk)
				if err != nil {
					return nil, err
				}
				tc, err := smx509.ParseCertificate(der)
				if err != nil {
					return nil, err
				}
				w.twins = append(w.twins, tc)
				if k == 1 {
					// a root of its own with DNS name constraints (it joins the pool below) and a leaf with matching DNS names
					ck, err := sm2.NewPrivateKey(scalarFrom(seed, "ncroot"))
					if err != nil {
						return nil, err
					}
					ct := &x509.Certificate{SerialNumber: big.NewInt(7200), Subject: pkix.Name{Organization: []string{"verif"}, CommonName: "verif constrained root"},
						NotBefore: c20VerifyTime.AddDate(-1, 0, 0), NotAfter: c20VerifyTime.AddDate(1, 0, 0), BasicConstraintsValid: true, IsCA: true, KeyUsage: x509.KeyUsageCertSign,
						PermittedDNSDomainsCritical: true, PermittedDNSDomains: []string{"verif.example", "other.example"}, ExcludedDNSDomains: []string{"bad.verif.example"}}
					cder, err := smx509.CreateCertificate(opReader(seed, -300), ct, ct, &ck.PublicKey, ck)
					if err != nil {
						return nil, err
					}
					if w.ncRoot, err = smx509.ParseCertificate(cder); err != nil {
						return nil, err
					}
					nk, err := sm2.NewPrivateKey(scalarFrom(seed, "ncleaf"))
					if err != nil {
						return nil, err
					}
					nt := &x509.Certificate{SerialNumber: big.NewInt(7201), Subject: pkix.Name{Organization: []string{"verif"}, CommonName: "verif constrained leaf"},
						NotBefore: c20VerifyTime.AddDate(-1, 0, 0), NotAfter: c20VerifyTime.AddDate(1, 0, 0), KeyUsage: x509.KeyUsageDigitalSignature,
						DNSNames: []string{"a.verif.example", "b.c.verif.example", "www.other.example"}}
					nder, err := smx509.CreateCertificate(opReader(seed, -301), nt, ct, &nk.PublicKey, ck)
					if err != nil {
						return nil, err
					}
					if w.ncLeaf, err = smx509.ParseCertificate(nder); err != nil {
						return nil, err
					}
				}
				if k == 0 {
					// a leaf under the first twin root whose extended key usages allow only some of the usages an application asks for
					lk, err := sm2.NewPrivateKey(scalarFrom(seed, "ekuleaf"))
					if err != nil {
						return nil, err
					}
					lt := &x509.Certificate{SerialNumber: big.NewInt(7100), Subject: pkix.Name{Organization: []string{"verif"}, CommonName: "verif eku leaf"},
						NotBefore: c20VerifyTime.AddDate(-1, 0, 0), NotAfter: c20VerifyTime.AddDate(1, 0, 0), KeyUsage: x509.KeyUsageDigitalSignature,
						ExtKeyUsage: []x509.ExtKeyUsage{x509.ExtKeyUsageOCSPSigning, x509.ExtKeyUsageClientAuth}}
					lder, err := smx509.CreateCertificate(opReader(seed, -200), lt, tmpl, &lk.PublicKey, tk)
					if err != nil {
						return nil, err
					}
					if w.ekuLeaf, err = smx509.ParseCertificate(lder); err != nil {
						return nil, err
					}
				}
			}
		}
		if withArtefacts != nil {
			w.ekuLeaf, w.ncLeaf, w.ncRoot = withArtefacts.ekuLeaf, withArtefacts.ncLeaf, withArtefacts.ncRoot
		}
		if w.ncRoot != nil {
			w.roots.AddCert(w.ncRoot)
		}
		for _, tc := range w.twins[:3] {
			w.roots.AddCert(tc)
		}
	}
	return w, nil
}

var c20VerifyTime = time.Date(2030, 1, 1, 0, 0, 0, 0, time.UTC)

// c20Do performs one operation on world w and returns its observable result.
func c20Do(w *c20World, kind string, opseed int, msg []byte) (out []byte) {
	errb := func(err error) []byte { return []byte("ERR:" + err.Error()) }
	rd := opReader(w.seed, opseed)
	switch kind {
	case "sm2.sign":
		if opseed&4 != 0 {
			// message signing with the default identifier through the crypto.Signer method
			sig, err := w.sm2Priv.Sign(rd, msg, sm2.DefaultSM2SignerOpts)
			if err != nil {
				return errb(err)
			}
			if !sm2.VerifyASN1WithSM2(&w.sm2Priv.PublicKey, nil, msg, sig) {
				return errb(errors.New("a signature made with the default identifier does not verify"))
			}
			return sig
		}
		h := sm3.Sum(msg)
		sig, err := w.sm2Priv.Sign(rd, h[:], nil)
		if err != nil {
			return errb(err)
		}
		if !sm2.VerifyASN1(&w.sm2Priv.PublicKey, h[:], sig) {
			return errb(errors.New("a digest signature does not verify"))
		}
		return sig
	case "sm2.signsm2":
		uid := msg[:len(msg)/2]
		if opseed&2 != 0 {
			uid = nil // the default identifier
		}
		sig, err := w.sm2Priv.SignWithSM2(rd, uid, msg)
		if err != nil {
			return errb(err)
		}
		if !sm2.VerifyASN1WithSM2(&w.sm2Priv.PublicKey, uid, msg, sig) {
			return errb(errors.New("a signature made by SignWithSM2 does not verify"))
		}
		return sig
	case "sm2.verify":
		ok := sm2.VerifyASN1WithSM2(&w.sm2Priv.PublicKey, nil, []byte("fixed message"), w.sm2Sig)
		bad := sm2.VerifyASN1WithSM2(&w.sm2Priv.PublicKey, nil, msg, w.sm2Sig)
		return []byte(fmt.Sprint(ok, bad))
	case "sm2.encrypt":
		ct, err := sm2.Encrypt(rd, &w.sm2Priv.PublicKey, msg, nil)
		if err != nil {
			return errb(err)
		}
		return ct
	case "sm2.decrypt":
		pt, err := sm2.Decrypt(w.sm2Priv, w.sm2Ct)
		if err != nil {
			return errb(err)
		}
		return pt
	case "sm2.kx":
		// the shared private key initiates an exchange with a private responder
		idA, idB := []byte("A"), []byte("B")
		if opseed&1 != 0 {
			idA, idB = nil, nil // both sides use the default identifier
		}
		ini, err := sm2.NewKeyExchange(w.sm2Priv, &w.sm2Peer.PublicKey, idA, idB, 32, true)
		if err != nil {
			return errb(err)
		}
		peerCopy, _ := sm2.NewPrivateKey(w.sm2Peer.D.FillBytes(make([]byte, 32)))
		selfPub := ecdsa.PublicKey{Curve: w.sm2Priv.Curve, X: w.sm2Priv.X, Y: w.sm2Priv.Y}
		rsp, err := sm2.NewKeyExchange(peerCopy, &selfPub, idB, idA, 32, true)
		if err != nil {
			return errb(err)
		}
		// the protocol objects are single-user and are wiped when the session is over; the long-term key they were made
		// from is shared
		defer ini.Destroy()
		defer rsp.Destroy()
		ra, err := ini.InitKeyExchange(rd)
		if err != nil {
			return errb(err)
		}
		rb, sb, err := rsp.RepondKeyExchange(opReader(w.seed, opseed+1), ra)
		if err != nil {
			return errb(err)
		}
		k1, sa, err := ini.ConfirmResponder(rb, sb)
		if err != nil {
			return errb(err)
		}
		k2, err := rsp.ConfirmInitiator(sa)
		if err != nil {
			return errb(err)
		}
		return append(append([]byte{}, k1...), k2...)
	case "sm2.ecdh":
		k, err := w.sm2Priv.ECDH()
		if err != nil {
			return errb(err)
		}
		return k.PublicKey().Bytes()
	case "sm2.newhash":
		h, err := sm2.NewHash(&w.sm2Priv.PublicKey)
		if err != nil {
			return errb(err)
		}
		h.Write(msg)
		return h.Sum(nil)
	case "sm2.otherza":
		// the identity digest ZA over another curve (curve parameters are part of the hash input), next to the SM2 curve
		z1, err := sm2.CalculateZA(&w.sm2Other.PublicKey, msg)
		if err != nil {
			return errb(err)
		}
		z2, err := sm2.CalculateZA(&w.sm2Priv.PublicKey, msg)
		if err != nil {
			return errb(err)
		}
		return append(z1, z2...)
	case "ecdh.pub":
		return w.ecdhPriv.PublicKey().Bytes()
	case "ecdh.ecdh":
		s, err := w.ecdhPriv.ECDH(w.ecdhPeer.PublicKey())
		if err != nil {
			return errb(err)
		}
		return s
	case "ecdh.mqv":
		s, err := w.ecdhPriv.SM2MQV(w.ecdhEph, w.ecdhPeer.PublicKey(), w.ecdhPeerE.PublicKey())
		if err != nil {
			return errb(err)
		}
		return s.Bytes()
	case "sm9.sign":
		sig, err := sm9.SignASN1(rd, w.signUser, msg)
		if err != nil {
			return errb(err)
		}
		return sig
	case "sm9.verify":
		pub := w.signMaster.PublicKey()
		if opseed&8 != 0 {
			pub = w.signPubParsed
		}
		ok := sm9.VerifyASN1(pub, c20UID, 1, []byte("fixed message"), w.sm9Sig)
		bad := sm9.VerifyASN1(pub, c20UID, 1, msg, w.sm9Sig)
		return []byte(fmt.Sprint(ok, bad))
	case "sm9.wrap":
		epub := w.encMaster.PublicKey()
		if opseed&8 != 0 {
			epub = w.encPubParsed
		}
		k, c, err := sm9.WrapKey(rd, epub, c20UID, 3, 16+len(msg)%32)
		if err != nil {
			return errb(err)
		}
		return append(k, c...)
	case "sm9.unwrap":
		k, err := sm9.UnwrapKey(w.encUser, c20UID, w.sm9Wrapped, 32)
		if err != nil {
			return errb(err)
		}
		return k
	case "sm9.enc":
		var opts sm9.EncrypterOpts
		switch opseed % 3 {
		case 1:
			opts = sm9.SM4CBCEncrypterOpts
		case 2:
			opts = sm9.SM4ECBEncrypterOpts
		}
		epub := w.encMaster.PublicKey()
		if opseed&8 != 0 {
			epub = w.encPubParsed
		}
		ct, err := sm9.Encrypt(rd, epub, c20UID, 3, msg, opts)
		if err != nil {
			return errb(err)
		}
		return ct
	case "sm9.dec":
		pt, err := sm9.Decrypt(w.encUser, c20UID, w.sm9Ct, nil)
		if err != nil {
			return errb(err)
		}
		return pt
	case "sm9.genuser":
		u, err := w.signMaster.GenerateUserKey(msg, 1)
		if err != nil {
			return errb(err)
		}
		e, err := w.encMaster.GenerateUserKey(msg, 3)
		if err != nil {
			return errb(err)
		}
		return append(u.Bytes(), e.Bytes()...)
	case "sm9.pub":
		return append(w.signMaster.PublicKey().Bytes(), w.encMaster.PublicKey().Bytes()...)
	case "sm4.block":
		in := derive(msg, "blk", 16*(1+opseed%9))
		o := make([]byte, len(in))
		for i := 0; i+16 <= len(in); i += 16 {
			w.block.Encrypt(o[i:], in[i:])
		}
		d := make([]byte, 16)
		w.block.Decrypt(d, o[:16])
		return append(o, d...)
	case "sm4.gcm":
		nonce := derive(msg, "nonce", 12)
		ct := w.gcm.Seal(nil, nonce, msg, nonce[:4])
		pt, err := w.gcm.Open(nil, nonce, ct, nonce[:4])
		if err != nil {
			return errb(err)
		}
		return append(ct, pt...)
	case "sm4.newgcm":
		a, err := cipher.NewGCM(w.block)
		if err != nil {
			return errb(err)
		}
		nonce := derive(msg, "nonce", 12)
		return a.Seal(nil, nonce, msg, nil)
	case "sm4.cbc":
		in := derive(msg, "cbc", 16*(1+opseed%12))
		iv := derive(msg, "iv", 16)
		o := make([]byte, len(in))
		cipher.NewCBCEncrypter(w.block, iv).CryptBlocks(o, in)
		d := make([]byte, len(in))
		cipher.NewCBCDecrypter(w.block, iv).CryptBlocks(d, o)
		return append(o, d...)
	case "sm4.ctr":
		in := derive(msg, "ctr", 1+opseed%300)
		iv := derive(msg, "iv", 16)
		o := make([]byte, len(in))
		cipher.NewCTR(w.block, iv).XORKeyStream(o, in)
		return o
	case "sm4.ecb":
		in := derive(msg, "ecb", 16*(1+opseed%20))
		o := make([]byte, len(in))
		gcipher.NewECBEncrypter(w.block).CryptBlocks(o, in)
		return o
	case "sm3.sum":
		h := sm3.New()
		h.Write(msg)
		return h.Sum(nil)
	case "pool.verify":
		opts := smx509.VerifyOptions{Roots: w.roots, Intermediates: w.inters, CurrentTime: c20VerifyTime, KeyUsages: []smx509.ExtKeyUsage{smx509.ExtKeyUsageAny}}
		if opseed&1 != 0 {
			opts.KeyUsages = w.usages // ONE options template of the application, shared by all tasks: a list of six usages
		}
		leaf := w.leaf
		if opseed&3 == 3 && w.ekuLeaf != nil {
			leaf = w.ekuLeaf
		}
		if opseed&3 == 0 && w.ncLeaf != nil {
			leaf = w.ncLeaf // its chain goes through name-constraint matching
		}
		chains, err := leaf.Verify(opts)
		if opseed&1 != 0 {
			// the outcome depends on the fixture's extended key usages; what matters is that it is the same as sequentially,
			// and that the application's list is still what it was
			if !slices.Equal(w.usages, c20Usages) {
				return errb(fmt.Errorf("Verify changed the caller's VerifyOptions.KeyUsages to %v", w.usages))
			}
			if err != nil {
				return []byte("refused: " + err.Error())
			}
		}
		if err != nil {
			return errb(err)
		}
		var b bytes.Buffer
		for _, ch := range chains {
			for _, c := range ch {
				b.Write(c.SerialNumber.Bytes())
			}
			b.WriteByte('|')
		}
		return b.Bytes()
	case "pool.clone":
		// a private clone of the shared root pool, extended by one more certificate with the subject that three pool
		// members already carry; the clone must then verify that certificate and still verify the fixture leaf
		cl := w.roots.Clone()
		extra := w.twins[3+((opseed%8)+8)%8]
		cl.AddCert(extra)
		var b bytes.Buffer
		chains, err := extra.Verify(smx509.VerifyOptions{Roots: cl, CurrentTime: c20VerifyTime, KeyUsages: []smx509.ExtKeyUsage{smx509.ExtKeyUsageAny}})
		if err != nil {
			return errb(err)
		}
		for _, ch := range chains {
			for _, c := range ch {
				b.Write(c.SerialNumber.Bytes())
			}
			b.WriteByte('|')
		}
		chains, err = w.leaf.Verify(smx509.VerifyOptions{Roots: cl, Intermediates: w.inters, CurrentTime: c20VerifyTime, KeyUsages: []smx509.ExtKeyUsage{smx509.ExtKeyUsageAny}})
		if err != nil {
			return errb(err)
		}
		for _, ch := range chains {
			for _, c := range ch {
				b.Write(c.SerialNumber.Bytes())
			}
			b.WriteByte('|')
		}
		// the original pool does not know the extra certificate
		if _, err := extra.Verify(smx509.VerifyOptions{Roots: w.roots, CurrentTime: c20VerifyTime, KeyUsages: []smx509.ExtKeyUsage{smx509.ExtKeyUsageAny}}); err == nil {
			b.WriteString("extra-known-to-original")
		}
		return b.Bytes()
	case "fresh.sm2":
		// construct and use a private object: races package-level singletons in the first run of a process
		k, err := sm2.NewPrivateKey(scalarFrom(msg, "f"))
		if err != nil {
			return errb(err)
		}
		sig, err := k.SignWithSM2(rd, nil, msg)
		if err != nil {
			return errb(err)
		}
		if !sm2.VerifyASN1WithSM2(&k.PublicKey, nil, msg, sig) {
			return []byte("verify failed")
		}
		return sig
	case "fresh.sm9":
		m, err := sm9.GenerateSignMasterKey(&sim.ScriptReader{Data: scalarFrom(msg, "fm")})
		if err != nil {
			return errb(err)
		}
		u, err := m.GenerateUserKey(msg, 1)
		if err != nil {
			return errb(err)
		}
		sig, err := sm9.SignASN1(rd, u, msg)
		if err != nil {
			return errb(err)
		}
		return append(sig, fmt.Sprint(sm9.VerifyASN1(m.PublicKey(), msg, 1, msg, sig))...)
	case "fresh.sm9enc":
		m, err := sm9.GenerateEncryptMasterKey(&sim.ScriptReader{Data: scalarFrom(msg, "fem")})
		if err != nil {
			return errb(err)
		}
		u, err := m.GenerateUserKey(msg, 3)
		if err != nil {
			return errb(err)
		}
		key, ct, err := sm9.WrapKey(rd, m.PublicKey(), msg, 3, 32)
		if err != nil {
			return errb(err)
		}
		k2, err := sm9.UnwrapKey(u, msg, ct, 32)
		if err != nil {
			return errb(err)
		}
		return append(append(key, k2...), ct...)
	case "fresh.sm9parse":
		// master keys derived from their serialised form (public key = base-point multiplication)
		d := scalarFrom(msg, "fsp")
		d[0] |= 0x40 // a full-width positive INTEGER: 02 20 || d is its minimal DER encoding
		der := append([]byte{0x02, 0x20}, d...)
		sk, err := sm9.UnmarshalSignMasterPrivateKeyASN1(der)
		if err != nil {
			return errb(err)
		}
		ek, err := sm9.UnmarshalEncryptMasterPrivateKeyASN1(der)
		if err != nil {
			return errb(err)
		}
		return append(sk.PublicKey().Bytes(), ek.PublicKey().Bytes()...)
	case "fresh.sm4":
		b, err := sm4.NewCipher(derive(msg, "fk", 16))
		if err != nil {
			return errb(err)
		}
		a, err := cipher.NewGCM(b)
		if err != nil {
			return errb(err)
		}
		o := a.Seal(nil, derive(msg, "fn", 12), msg, nil)
		e := make([]byte, 64)
		gcipher.NewECBEncrypter(b).CryptBlocks(e, derive(msg, "fe", 64))
		return append(o, e...)
	case "fresh.x509":
		leaf, err := smx509.ParseCertificatePEM([]byte(fixtures.LeafPEM))
		if err != nil {
			return errb(err)
		}
		inter, err := smx509.ParseCertificatePEM([]byte(fixtures.IntermediatePEM))
		if err != nil {
			return errb(err)
		}
		if err := leaf.CheckSignatureFrom(inter); err != nil {
			return errb(err)
		}
		return leaf.SerialNumber.Bytes()
	case "fresh.pem":
		// package-level functions on private data: legacy PEM encryption (RFC 1423) and decryption with the task's own
		// password; whatever state the package keeps between calls is shared by all tasks
		alg := []smx509.PEMCipher{smx509.PEMCipherSM4, smx509.PEMCipherAES128, smx509.PEMCipherDES, smx509.PEMCipher3DES, smx509.PEMCipherAES256}[((opseed%5)+5)%5]
		pw := derive(msg, "pempw", 12)
		blk, err := smx509.EncryptPEMBlock(rd, "PRIVATE KEY", msg, pw, alg)
		if err != nil {
			return errb(err)
		}
		back, err := smx509.DecryptPEMBlock(blk, pw)
		if err != nil {
			return errb(err)
		}
		if !bytes.Equal(back, msg) {
			return errb(errors.New("legacy PEM decryption does not return what was encrypted"))
		}
		return append([]byte(blk.Headers["DEK-Info"]+"|"), blk.Bytes...)
	case "fresh.ecdh":
		k, err := ecdh.P256().NewPrivateKey(scalarFrom(msg, "fe"))
		if err != nil {
			return errb(err)
		}
		return k.PublicKey().Bytes()
	}
	return []byte("unknown op")
}

func execC20(t *testing.T, p *sim.Program, c *sim.Ctx) {
	nt := p.C("tasks")
	if nt < 1 {
		nt = 1
	}
	if nt > 8 {
		nt = 8
	}
	seed := p.CB("seed")
	if p.C("warm") == 1 && !c20Warmed {
		c20Warmed = true
		all := map[string]bool{}
		for _, k := range c20Kinds {
			if g := c20Group[k]; g != "fresh" {
				all[g] = true
			}
		}
		if w, err := newC20World(derive([]byte("warm-up"), "w", 32), all, nil); err == nil {
			for _, k := range c20Kinds {
				c20Do(w, k, 1, []byte("warm-up message 0123456789abcdef"))
			}
			c.Hit("probe:process-warmed-before-tasks")
		}
	}
	need := map[string]bool{}
	for _, op := range p.Ops {
		g := c20Group[op.K]
		if g != "" && g != "fresh" {
			need[g] = true
		}
	}
	shared, err := newC20World(seed, need, nil)
	if err != nil {
		c.Fail("setup", -1, "setup", "cannot build world: %v", err)
		return
	}
	results := make([][]byte, len(p.Ops))
	steps := make([][]func(), nt)
	firstUse := map[string]bool{}
	taskOfGroup := map[string]map[int]bool{}
	for i, op := range p.Ops {
		i, op := i, op
		task := op.Int(0) % nt
		if task < 0 {
			task = 0
		}
		if _, ok := c20Group[op.K]; !ok {
			continue
		}
		g := c20Group[op.K]
		c.Abs(task, op.K, !firstUse[g])
		firstUse[g] = true
		if taskOfGroup[g] == nil {
			taskOfGroup[g] = map[int]bool{}
		}
		taskOfGroup[g][task] = true
		steps[task] = append(steps[task], func() {
			results[i] = c20Do(shared, op.K, op.Int(1), op.Bytes(0))
		})
	}
	for _, g := range sim.SortedKeys(taskOfGroup) {
		if g != "fresh" && len(taskOfGroup[g]) >= 2 {
			c.Nontriv = true
			c.Hit("probe:shared-object-used-by>=2-tasks")
		}
		if g == "fresh" && len(taskOfGroup[g]) >= 2 {
			c.Nontriv = true
			c.Hit("probe:singleton-first-use-from>=2-tasks")
		}
	}
	// concurrent phase: the program order is the schedule
	remaining := make([]int, nt)
	for t := range steps {
		remaining[t] = len(steps[t])
	}
	b := sim.NewBaton(steps)
	for _, op := range p.Ops {
		if _, ok := c20Group[op.K]; !ok {
			continue
		}
		task := op.Int(0) % nt
		if task < 0 {
			task = 0
		}
		b.Step(task)
		remaining[task]--
		c.OpsDone++
	}
	b.Close(remaining)
	if !c20UIDIntact() {
		c.Fail("caller-buffer-modified", -1, "sm9", "the identity buffer shared by the tasks was written to (len 11, cap 48): now %x", c20UID[:48])
		copy(c20UID[:48], append([]byte("alice@verif"), c20UIDSpare...))
		return
	}
	// sequential oracle on private fresh objects (after the concurrent phase, so that it cannot pre-initialise anything)
	private, err := newC20World(seed, need, shared)
	if err != nil {
		c.Fail("setup", -1, "setup", "cannot build private world: %v", err)
		return
	}
	for i, op := range p.Ops {
		if _, ok := c20Group[op.K]; !ok {
			continue
		}
		// a fresh world per operation would be the purest oracle; one private world used sequentially is equivalent for deterministic operations
		want := c20Do(private, op.K, op.Int(1), op.Bytes(0))
		c.Out(op.K, results[i])
		if !bytes.Equal(want, results[i]) {
			c.Fail("concurrent-result-differs", i, op.K, "task %d: concurrent result %s differs from sequential %s", op.Int(0)%nt, hex.EncodeToString(trunc(results[i], 48)), hex.EncodeToString(trunc(want, 48)))
			return
		}
		if bytes.HasPrefix(want, []byte("ERR:")) {
			c.Fail("operation-failed", i, op.K, "operation failed on valid input: %s", want)
			return
		}
	}
}

func trunc(b []byte, n int) []byte {
	if len(b) > n {
		return b[:n]
	}
	return b
}
