package props

import (
	"bytes"
	"crypto"
	"encoding/asn1"
	"errors"
	"time"

	"github.com/emmansun/gmsm/cfca"
	"github.com/emmansun/gmsm/pkcs7"
	"github.com/emmansun/gmsm/smx509"

	"verif/harness/sim"
)

// Deliveries of C16: the transport builds the delivered bytes (fault), the
// consumer (verifier / opener) runs the real library, the oracle judges.

type c16Dlv struct {
	data     []byte
	altered  bool // not an honest delivery
	name     string
	supplied []byte // detached / digest-only: what the verifier supplies instead of the ledger value
	// viaDetach: an ATTACHED message reaches a verifier that vouches for data of its own (detached-style call:
	// cfca.VerifyMessageDetach, or pkcs7 with Content overridden); the embedded content must not stand in for it
	viaDetach bool
}

type c16Res struct {
	ok  bool
	out []byte
}

var c16KindNames = []string{"sign", "env", "psk", "sed"}

func c16OIDContent(oid asn1.ObjectIdentifier) []byte {
	b, err := asn1.Marshal(oid)
	if err != nil || len(b) < 2 {
		return nil
	}
	return b[2:]
}

func c16CopyKids(k []*sim.TLV) []*sim.TLV { return append([]*sim.TLV{}, k...) }

// insertCerts places a certificate-list element before the CRLs / signer-infos of a SignedData-like body.
func c16InsertCerts(body *sim.TLV, node *sim.TLV) {
	pos := len(body.Children) - 1
	for i, k := range body.Children {
		if k.Tag == 0xa1 {
			pos = i
			break
		}
	}
	if pos < 0 {
		pos = 0
	}
	kids := append(c16CopyKids(body.Children[:pos]), node)
	body.Children = append(kids, body.Children[pos:]...)
}

func (x *c16X) byteAlter(m *c16Msg, a, b int) *c16Dlv {
	data := append([]byte{}, m.der...)
	off := c16Mod(a, len(data))
	mask := byte(b)
	if mask == 0 {
		mask = 1
	}
	data[off] ^= mask
	return &c16Dlv{data: data, altered: true, name: "byte"}
}

// buildFault returns nil when the fault kind does not apply to the message.
func (x *c16X) buildFault(m *c16Msg, f, a, b, cc int, extra []byte) *c16Dlv {
	w := x.w
	der := m.der
	L := len(der)
	signed := m.kind == c16KSign || m.kind == c16KSed
	enveloped := m.kind == c16KEnv || m.kind == c16KSed
	switch f {
	case 0:
		return &c16Dlv{data: der, name: "none"}
	case 1:
		return x.byteAlter(m, a, b)
	case 9:
		return x.byteAlter(m, a, 1<<uint(c16Mod(b, 8)))
	case 2:
		n := c16Mod(a, L)
		data := append([]byte{}, der[:n]...)
		name := "trunc"
		if cc&1 == 1 && len(extra) > 0 {
			data = append(data, trunc(extra, 3)...)
			name = "trunc+tail"
		}
		return &c16Dlv{data: data, altered: true, name: name}
	case 3:
		tail := trunc(extra, 9)
		if len(tail) == 0 {
			tail = []byte{0}
		}
		return &c16Dlv{data: append(append([]byte{}, der...), tail...), altered: true, name: "extend"}
	case 6:
		d := c16Indef(der, 1+c16Mod(a, 3))
		if d == nil {
			return nil
		}
		return &c16Dlv{data: d, name: "ber"}
	case 8:
		root := sim.ParseAllTLV(der)
		if root == nil {
			return nil
		}
		n := len(root.Flatten())
		d := sim.ApplyLie(root, c16Mod(a, n), c16Mod(b, sim.LieKinds), 1+c16Mod(cc, 4))
		if d == nil || bytes.Equal(d, der) {
			return nil
		}
		return &c16Dlv{data: d, altered: true, name: "lie"}
	}
	root, body := c16Body(der)
	if root == nil {
		return nil
	}
	switch f {
	case 4:
		if len(x.msgs) == 0 {
			return nil
		}
		src := x.msgs[c16Mod(b, len(x.msgs))]
		_, sbody := c16Body(src.der)
		useRecip := enveloped && (!signed || (cc>>2)&1 == 1)
		var dset, sset *sim.TLV
		if useRecip {
			if src.kind != c16KEnv && src.kind != c16KSed {
				return nil
			}
			dset, sset = c16RecipientSet(body), c16RecipientSet(sbody)
		} else {
			if !signed || (src.kind != c16KSign && src.kind != c16KSed) {
				return nil
			}
			dset, sset = c16SignerSet(body), c16SignerSet(sbody)
		}
		if dset == nil || sset == nil || len(dset.Children) == 0 || len(sset.Children) == 0 {
			return nil
		}
		dk, sk := dset.Children, sset.Children
		j := c16Mod(a>>8, len(sk))
		switch c16Mod(cc, 4) {
		case 0:
			dset.Children = c16CopyKids(sk)
		case 2:
			dset.Children = append(c16CopyKids(dk), sk[j])
		default:
			nk := c16CopyKids(dk)
			nk[c16Mod(a, len(nk))] = sk[j]
			dset.Children = nk
		}
		name := "swap-signer"
		if useRecip {
			name = "swap-recipient"
		} else if c16Mod(cc, 4) == 3 {
			// also bring the other message's certificates along
			if si := c16CertsIdx(sbody); si >= 0 && sbody.Children[si].Children != nil {
				if di := c16CertsIdx(body); di >= 0 && body.Children[di].Children != nil {
					body.Children[di].Children = append(c16CopyKids(body.Children[di].Children), sbody.Children[si].Children...)
				} else if di < 0 {
					c16InsertCerts(body, sbody.Children[si])
				}
				name = "swap-signer+certs"
			}
		}
		d := root.Encode()
		if bytes.Equal(d, der) {
			return nil
		}
		return &c16Dlv{data: d, altered: true, name: name}
	case 5:
		if !signed {
			return nil
		}
		idx := c16CertsIdx(body)
		leaf, rogue := w.parties[0].cert, w.parties[9].cert
		name := ""
		switch c16Mod(cc, 5) {
		case 0:
			if idx < 0 {
				return nil
			}
			body.Children = append(c16CopyKids(body.Children[:idx]), body.Children[idx+1:]...)
			name = "certs-dropped"
		case 1:
			if len(x.msgs) == 0 {
				return nil
			}
			src := x.msgs[c16Mod(b, len(x.msgs))]
			_, sbody := c16Body(src.der)
			si := c16CertsIdx(sbody)
			if (src.kind != c16KSign && src.kind != c16KSed) || si < 0 {
				return nil
			}
			if idx >= 0 {
				nk := c16CopyKids(body.Children)
				nk[idx] = sbody.Children[si]
				body.Children = nk
			} else {
				c16InsertCerts(body, sbody.Children[si])
			}
			name = "certs-replaced"
		case 2, 3:
			if idx < 0 || body.Children[idx].Children == nil {
				return nil
			}
			kids := c16CopyKids(body.Children[idx].Children)
			changed := false
			if c16Mod(cc, 5) == 2 {
				for i, k := range kids {
					raw := c16Raw(der, k)
					if bytes.Equal(raw, leaf.Raw) {
						kids[i], changed = sim.ParseAllTLV(rogue.Raw), true
					} else if bytes.Equal(raw, rogue.Raw) {
						kids[i], changed = sim.ParseAllTLV(leaf.Raw), true
					}
				}
				name = "certs-forged-substituted"
			}
			if !changed {
				ins := rogue
				for _, rec := range m.recs {
					if rec.party == 9 {
						ins = leaf
					}
				}
				kids = append([]*sim.TLV{sim.ParseAllTLV(ins.Raw)}, kids...)
				name = "certs-forged-prepended"
			}
			body.Children[idx].Children = kids
		default:
			if idx < 0 || body.Children[idx].Children == nil {
				return nil
			}
			body.Children[idx].Children = append(c16CopyKids(body.Children[idx].Children), sim.ParseAllTLV(w.extra.Raw))
			name = "certs-extra-appended"
		}
		return &c16Dlv{data: root.Encode(), altered: true, name: name}
	case 7, 10:
		if m.kind != c16KSign {
			return nil
		}
		other := extra
		name := "content-replaced"
		if f == 10 {
			if len(x.msgs) == 0 {
				return nil
			}
			other = x.msgs[c16Mod(b, len(x.msgs))].content
			name = "content-from-other-message"
		}
		ledger := m.content
		if m.asDigest {
			ledger = m.digest
			if f == 7 {
				other = fitKey(other, len(ledger))
			} else {
				// the other message's digest under this message's first signer's rules
				other = x.recDigest(m.recs[0], other)
			}
		}
		if f == 7 && bytes.Equal(other, ledger) {
			other = append(append([]byte{}, other...), 0x5a)
			if m.asDigest {
				other = other[:len(ledger)]
				other[0] ^= 1
			}
		}
		differs := !bytes.Equal(other, ledger)
		if m.detached {
			return &c16Dlv{data: der, altered: differs, name: name, supplied: append([]byte{}, other...)}
		}
		if !m.asDigest && cc&3 == 1 && differs {
			// the blob keeps its embedded content; the verifier checks it against data of its own
			return &c16Dlv{data: der, altered: differs, name: name + "-by-detached-verifier", supplied: append([]byte{}, other...), viaDetach: true}
		}
		tc, ok := c16AttachedContent(body)
		if !ok {
			return nil
		}
		tc.Children, tc.Content = nil, other
		return &c16Dlv{data: root.Encode(), altered: differs, name: name}
	case 11:
		if !signed {
			return nil
		}
		set := c16SignerSet(body)
		if set == nil || len(set.Children) == 0 {
			return nil
		}
		si := set.Children[c16Mod(a, len(set.Children))]
		if len(si.Children) < 3 || len(si.Children[2].Children) < 1 {
			return nil
		}
		on := si.Children[2].Children[0]
		alg := c16Mod(cc, 5)
		if bytes.Equal(on.Content, c16OIDContent(c16DigestOID[alg])) {
			alg = (alg + 1) % 5
		}
		on.Content = c16OIDContent(c16DigestOID[alg])
		return &c16Dlv{data: root.Encode(), altered: true, name: "digest-alg-substituted"}
	case 12:
		if !signed {
			return nil
		}
		set := c16SignerSet(body)
		if set == nil || len(set.Children) == 0 {
			return nil
		}
		si := set.Children[c16Mod(a, len(set.Children))]
		attr := c16Cons(0x30, c16Prim(0x06, []byte{0x2a, 0x03, 0x04, 0x05, 0x08}), c16Cons(0x31, c16Prim(0x0c, trunc(extra, 5))))
		kids := c16CopyKids(si.Children)
		if len(kids) > 0 && kids[len(kids)-1].Tag == 0xa1 {
			kids[len(kids)-1] = c16Cons(0xa1, attr)
		} else {
			kids = append(kids, c16Cons(0xa1, attr))
		}
		si.Children = kids
		return &c16Dlv{data: root.Encode(), altered: true, name: "unauth-attr-added"}
	case 13:
		if m.kind == c16KSign {
			return nil
		}
		eci := c16EncContent(body)
		if eci == nil || len(eci.Children) != 3 || eci.Children[2].Tag != 0x80 {
			return nil
		}
		ct := eci.Children[2].Content
		sz := 1 + c16Mod(cc, 48)
		var chunks []*sim.TLV
		for i := 0; i < len(ct); i += sz {
			e := i + sz
			if e > len(ct) {
				e = len(ct)
			}
			chunks = append(chunks, c16Prim(0x04, ct[i:e]))
		}
		nk := c16CopyKids(eci.Children)
		nk[2] = c16Cons(0xa0, chunks...)
		eci.Children = nk
		return &c16Dlv{data: root.Encode(), altered: true, name: "ciphertext-chunked"}
	}
	return nil
}

func (x *c16X) resolveParty(m *c16Msg, party int) int {
	if party < 0 && len(m.recips) > 0 {
		return m.recips[c16Mod(-party-1, len(m.recips))]
	}
	return c16Mod(party, c16NParties)
}

func (x *c16X) doDeliver(o sim.Op) {
	c := x.c
	if len(x.msgs) == 0 {
		return
	}
	m := x.msgs[c16Mod(o.Int(0), len(x.msgs))]
	f := c16Mod(o.Int(1), 14)
	a, b, cc := o.Int(2), o.Int(3), o.Int(4)
	party, vmode, variant := o.Int(5), c16Mod(o.Int(6), 4), c16Mod(o.Int(7), 5)
	x.via, x.at = c16Mod(o.Int(8), 5), c16Mod(o.Int(9), len(c16AtTimes)+1)
	x.empty = c16Mod(o.Int(10), 2) == 1
	defer func() { x.via, x.at, x.empty = 0, 0, false }()
	d := x.buildFault(m, f, a, b, cc, o.Bytes(0))
	if d == nil {
		d = x.byteAlter(m, a, b)
	}
	role := ""
	if m.kind != c16KSign {
		role = x.w.parties[x.resolveParty(m, party)].name
	}
	c.Abs("dlv", c16KindNames[m.kind], d.name, vmode, variant, role, x.via, x.at)
	if d.altered {
		c.Hit("fault:" + d.name)
	} else if d.name == "ber" {
		c.Hit("fault:ber-reencoding")
	}
	if d.name == "ber" {
		// the DER form first, then the BER form: same verdict, same plaintext
		want := x.judge(m, &c16Dlv{data: m.der, name: "none"}, party, vmode, variant)
		if c.Failed() {
			return
		}
		nd, err := pkcs7.Ber2Der(d.data)
		if err != nil || !bytes.Equal(nd, m.der) {
			x.fail("ber2der-wrong", "Ber2Der of the indefinite-length form of a produced message does not give the DER message back: err=%v, first difference at %d", err, firstDiff(nd, m.der))
			return
		}
		got := x.judge(m, d, party, vmode, variant)
		if c.Failed() {
			return
		}
		if got.ok != want.ok || !bytes.Equal(got.out, want.out) {
			x.fail("ber-der-verdict-differs", "%s message: DER form ok=%v (%d bytes out), BER indefinite-length form ok=%v (%d bytes out)", c16KindNames[m.kind], want.ok, len(want.out), got.ok, len(got.out))
		}
		return
	}
	x.judge(m, d, party, vmode, variant)
}

func (x *c16X) judge(m *c16Msg, d *c16Dlv, party, vmode, variant int) c16Res {
	switch m.kind {
	case c16KSign:
		return x.judgeSigned(m, d, vmode)
	case c16KEnv:
		return x.judgeEnv(m, d, party, vmode, variant, x.via)
	case c16KPsk:
		return x.judgePsk(m, d, variant)
	default:
		return x.judgeSed(m, d, party, vmode, variant)
	}
}

// doAll: every position (or a window / an even sample) of the message altered, one at a time.
func (x *c16X) doAll(o sim.Op) {
	c := x.c
	if len(x.msgs) == 0 {
		return
	}
	m := x.msgs[c16Mod(o.Int(0), len(x.msgs))]
	mode := c16Mod(o.Int(1), 7)
	mask := byte(o.Int(2))
	if mask == 0 {
		mask = 0xff
	}
	L := len(m.der)
	start, cnt := c16Mod(o.Int(3), L), o.Int(4)
	party, vmode := o.Int(5), c16Mod(o.Int(6), 2)
	limit := 1200
	for _, rec := range m.recs {
		if x.w.parties[rec.party].slow {
			limit = 250 // P-384 verification costs more than a millisecond
		}
	}
	if m.kind == c16KEnv || m.kind == c16KSed {
		switch x.w.parties[x.resolveParty(m, party)].name {
		case "rsa2048":
			limit = 250 // one private-key operation per position
		case "rsa1024", "rsa-self":
			if limit > 600 {
				limit = 600
			}
		}
	}
	var pos []int
	switch {
	case cnt <= 0 || cnt >= L:
		if L <= limit {
			for i := 0; i < L; i++ {
				pos = append(pos, i)
			}
		} else {
			for i := 0; i < limit; i++ {
				pos = append(pos, (start+i*L/limit)%L)
			}
		}
	default:
		if cnt > limit {
			cnt = limit
		}
		for i := 0; i < cnt; i++ {
			pos = append(pos, (start+i)%L)
		}
	}
	c.Abs("all", c16KindNames[m.kind], mode, len(pos) == L, vmode)
	acc := 0
	for _, i := range pos {
		data := append([]byte{}, m.der...)
		old := data[i]
		switch mode {
		case 0:
			data[i] ^= mask
		case 1:
			data[i] ^= 1
		case 2:
			data[i]++
		case 3:
			data[i]--
		case 4:
			data[i] = 0
			if old == 0 {
				data[i] = 0xff
			}
		case 5:
			data[i] = 0x80
			if old == 0x80 {
				data[i] = 0
			}
		default:
			data[i] ^= 0x20
		}
		r := x.judge(m, &c16Dlv{data: data, altered: true, name: "byte"}, party, vmode, 0)
		if c.Failed() {
			c.V.Detail = "position " + itoa(i) + " of " + itoa(L) + " (byte " + hex2(old) + " -> " + hex2(data[i]) + "): " + c.V.Detail
			return
		}
		if r.ok {
			acc++
			if c.LogOn {
				c.Log = append(c.Log, "accepted alteration at "+itoa(i)+": "+hex2(old)+" -> "+hex2(data[i]))
			}
		}
	}
	c.HitN("fault:byte-every-position", len(pos))
}

func itoa(i int) string {
	if i == 0 {
		return "0"
	}
	neg := i < 0
	if neg {
		i = -i
	}
	var b []byte
	for i > 0 {
		b = append([]byte{byte('0' + i%10)}, b...)
		i /= 10
	}
	if neg {
		b = append([]byte{'-'}, b...)
	}
	return string(b)
}

func hex2(b byte) string {
	const h = "0123456789abcdef"
	return string([]byte{h[b>>4], h[b&15]})
}

func c16InWindow(sec int64) bool { return sec > c16NB && sec < c16NA }

// expect tells whether an honest delivery of m must be accepted by the given verification mode now.
func (x *c16X) expect(m *c16Msg, trust bool, atNow bool) bool {
	now := time.Now().Unix()
	if atNow && x.at > 0 {
		now = c16AtTimes[x.at-1] // the explicit time handed to VerifyWithChainAtTime
	}
	if m.stripped {
		return false // authenticated attributes removed after signing: the signature cannot fit
	}
	if !m.noattr && !c16InWindow(m.signSec) {
		return false // the signing-time attribute lies outside the signer certificate's validity
	}
	if !trust {
		return true
	}
	for _, rec := range m.recs {
		if !x.w.parties[rec.party].trusted {
			return false
		}
	}
	if !m.chainOK {
		return false
	}
	eff := m.signSec
	if m.noattr || atNow {
		eff = now
	}
	return c16InWindow(eff)
}

func c16PubEqual(a, b any) bool {
	type eq interface{ Equal(crypto.PublicKey) bool }
	e, ok := a.(eq)
	return ok && e.Equal(b)
}

func (x *c16X) judgeSigned(m *c16Msg, d *c16Dlv, vmode int) c16Res {
	c, w := x.c, x.w
	honest := !d.altered
	supplied := m.content
	if m.asDigest {
		supplied = m.digest
	}
	if d.supplied != nil {
		supplied = d.supplied
	}
	p7, err, _, _ := x.parse(m, d.data, x.via)
	c.OutErr("v.parse", err)
	x.judged++
	if err != nil {
		if honest {
			x.fail("honest-rejected", "Parse of an unaltered SignedData (%s) failed: %v", d.name, err)
		}
		return c16Res{}
	}
	if honest && !m.detached && !bytes.Equal(p7.Content, m.content) {
		x.fail("content-mismatch", "parsed content of an unaltered attached SignedData differs from the signed content at %d (%d vs %d bytes)", firstDiff(p7.Content, m.content), len(p7.Content), len(m.content))
		return c16Res{}
	}
	if honest && !x.honestViews(m, p7) {
		return c16Res{}
	}
	if m.detached || d.viaDetach {
		p7.Content = supplied
	}
	if !m.hasCerts {
		// certificates were left out on purpose: the verifier brings them
		seen := false
		for _, rec := range m.recs {
			p7.Certificates = append(p7.Certificates, w.parties[rec.party].cert)
			if w.parties[rec.party].chain != nil && !seen {
				p7.Certificates = append(p7.Certificates, w.inter)
				seen = true
			}
		}
		if vmode == 3 {
			vmode = 0
		}
	}
	trust := vmode == 1 || vmode == 2
	pool := w.pool
	if x.empty && trust {
		pool = smx509.NewCertPool() // "if truststore is not nil, it also verifies the chain of trust ... to a root in the truststore": there is none
	}
	var verr error
	switch {
	case m.asDigest && vmode == 3:
		verr = cfca.VerifyDigestDetach(d.data, supplied)
	case m.asDigest && trust:
		verr = p7.VerifyAsDigestWithChain(pool)
	case m.asDigest:
		verr = p7.VerifyAsDigest()
	case vmode == 3 && (m.detached || d.viaDetach):
		verr = cfca.VerifyMessageDetach(d.data, supplied)
	case vmode == 3:
		verr = cfca.VerifyMessageAttach(d.data)
	case vmode == 2:
		now := time.Now().UTC()
		if x.at > 0 {
			now = time.Unix(c16AtTimes[x.at-1], 0).UTC()
			c.Hit("probe:verify-at-explicit-time")
		}
		verr = p7.VerifyWithChainAtTime(pool, &now)
	case vmode == 1:
		verr = p7.VerifyWithChain(pool)
	default:
		verr = p7.Verify()
	}
	c.OutErr("v", verr)
	if x.empty && trust {
		c.Hit("fault:empty-trust-store")
		if verr == nil {
			x.fail("untrusted-signer-accepted", "verification against a trust store that holds NO certificate (non-nil empty pool, mode %d) accepted a SignedData (%s)", vmode, d.name)
		}
		return c16Res{}
	}
	if explicit := vmode == 2 && !m.asDigest && x.at > 0; explicit {
		at := c16AtTimes[x.at-1]
		switch {
		case at < c16NB || at > c16NA:
			// every certificate of the run is valid from NotBefore to NotAfter only
			if verr == nil {
				x.fail("accepted-at-time-outside-validity", "VerifyWithChainAtTime(trust store, %d) accepted a SignedData (%s) although every certificate of the run is valid only from %d to %d", at, d.name, c16NB, c16NA)
				return c16Res{}
			}
			c.Hit("probe:attime-outside-window-rejected")
		case verr == nil && (at-c16NB < 2 || c16NA-at < 2):
			c.Hit("probe:attime-edge-accepted")
		}
	}
	if verr != nil {
		if honest {
			if m.stripped {
				c.Hit("probe:attr-removed-rejected")
			} else if x.expect(m, trust, vmode == 2 && !m.asDigest) {
				x.fail("honest-rejected", "unaltered SignedData (%s, signed at %d, now %d, mode %d, attrs=%v) does not verify: %v", d.name, m.signSec, time.Now().Unix(), vmode, !m.noattr, verr)
			} else {
				c.Hit("probe:honest-not-accepted-outside-window-or-trust")
				eff := m.signSec
				if m.noattr || (vmode == 2 && !m.asDigest) {
					eff = time.Now().Unix()
					if vmode == 2 && !m.asDigest && x.at > 0 {
						eff = c16AtTimes[x.at-1]
					}
				}
				switch {
				case !m.noattr && m.signSec < c16NB, trust && eff < c16NB:
					c.Hit("probe:rejected-before-notbefore")
				case !m.noattr && m.signSec > c16NA, trust && eff > c16NA:
					c.Hit("probe:rejected-after-notafter")
				}
			}
		}
		return c16Res{}
	}
	if honest && m.stripped {
		x.fail("attr-removed-still-verifies", "SignedData whose authenticated attributes were removed after signing (RemoveAuthenticatedAttributes) verifies: the accepted signer-infos carry no attributes, the signatures were made over attributes")
		return c16Res{}
	}
	if honest {
		c.Hit("probe:honest-accepted")
		if !x.expect(m, trust, vmode == 2 && !m.asDigest) {
			c.Hit("probe:accepted-where-nothing-was-demanded")
		}
		if now := time.Now().Unix(); !m.noattr && c16InWindow(m.signSec) && now > c16NA {
			c.Hit("probe:signed-in-window-verified-after-notafter")
		}
	}
	if !x.acceptCheck(p7, p7.Content, m.asDigest, trust, honest) {
		return c16Res{}
	}
	if !honest {
		c.Hit("probe:altered-signed-accepted-with-protected-values-intact")
		if d.name != "byte" {
			c.Hit("accepted-intact:" + d.name)
		}
	}
	return c16Res{ok: true}
}

// acceptCheck: the library accepted; every accepted signer-info must be one
// that an honest signer of the run produced over this very content.
func (x *c16X) acceptCheck(p7 *pkcs7.PKCS7, content []byte, asDigest, trust, honest bool) bool {
	w := x.w
	class := "altered-message-verifies"
	if honest {
		class = "honest-view-mismatch"
	}
	if len(p7.Signers) == 0 {
		x.fail(class, "accepted although the message has no signer-info")
		return false
	}
	for si, s := range p7.Signers {
		// all honest signatures with this value (RSA PKCS#1 v1.5 is deterministic: two parties holding the
		// same key, or one party signing the same digest twice, produce equal values): one of them must fit
		var elems [][]byte
		for _, a := range s.AuthenticatedAttributes {
			enc, err := asn1.Marshal(struct {
				T asn1.ObjectIdentifier
				V asn1.RawValue
			}{a.Type, a.Value})
			if err != nil {
				x.fail(class, "accepted signer-info %d: authenticated attribute cannot be re-encoded: %v", si, err)
				return false
			}
			elems = append(elems, enc)
		}
		canon := c16Canon(elems)
		serial := s.IssuerAndSerialNumber.SerialNumber
		why, known, okRec := "", false, false
		for _, rec := range x.recs {
			if !bytes.Equal(rec.sig, s.EncryptedDigest) {
				continue
			}
			known = true
			pt := w.parties[rec.party]
			found, match := false, false
			for _, cert := range p7.Certificates {
				if serial == nil || cert.SerialNumber.Cmp(serial) != 0 || !bytes.Equal(cert.RawIssuer, s.IssuerAndSerialNumber.IssuerName.FullBytes) {
					continue
				}
				found = true
				if trust {
					// the whole certificate: TBSCertificate (which repeats the signature algorithm) and signature value.
					// Elements after the signature inside the Certificate SEQUENCE are ignored by the certificate parser
					// (as in Go's crypto/x509) and are not part of the comparison.
					match = match || (bytes.Equal(cert.RawTBSCertificate, pt.cert.RawTBSCertificate) && bytes.Equal(cert.Signature, pt.cert.Signature))
				} else {
					match = match || c16PubEqual(cert.PublicKey, pt.cert.PublicKey)
				}
			}
			D := content
			if !asDigest {
				D = x.recDigest(rec, content)
			}
			switch {
			case !found:
				why = "no certificate of the message has the issuer+serial it names"
			case !match:
				why = "signature of " + pt.name + " accepted under a certificate / public key that is not the signer's"
			case trust && !pt.trusted:
				x.fail("untrusted-signer-accepted", "signature of %s, whose certificate does not chain to the trust store, accepted by verification with the trust store", pt.name)
				return false
			case (len(elems) > 0) != rec.hasAttr || (rec.hasAttr && !bytes.Equal(canon, rec.attrs)):
				why = "signature of " + pt.name + ": authenticated attributes differ from the signed ones"
			case !bytes.Equal(D, rec.D):
				why = "signature of " + pt.name + ": the accepted content (" + itoa(len(content)) + " bytes) is not what was signed"
			default:
				okRec = true
			}
			if okRec {
				break
			}
		}
		if !known {
			x.fail(class, "accepted signer-info %d carries a signature value (%x..., %d bytes) that no signer of the run produced", si, trunc(s.EncryptedDigest, 8), len(s.EncryptedDigest))
			return false
		}
		if !okRec {
			x.fail(class, "accepted signer-info %d (trust store=%v): %s", si, trust, why)
			return false
		}
	}
	return true
}

// opener resolves certificate and key of an opening attempt.
func (x *c16X) opener(m *c16Msg, party, certVariant int) (cert *smx509.Certificate, key crypto.PrivateKey, name string, keyOK, legitKey bool) {
	cert, key, name, keyOK, legitKey, _ = x.opener2(m, party, certVariant)
	return
}

// opener2 also tells which recipient-info (index into m.recips, -1: none) the presented certificate belongs to.
func (x *c16X) opener2(m *c16Msg, party, certVariant int) (cert *smx509.Certificate, key crypto.PrivateKey, name string, keyOK, legitKey bool, ownerIdx int) {
	w := x.w
	op := x.resolveParty(m, party)
	pt := w.parties[op]
	cert, key, name = pt.cert, pt.key, pt.name
	owner := op
	if certVariant > 0 && len(m.recips) > 0 {
		owner = m.recips[c16Mod(certVariant-1, len(m.recips))]
		cert = w.parties[owner].cert
	}
	ownerIdx = -1
	for i, r := range m.recips {
		if w.parties[r].keyID == pt.keyID {
			legitKey = true
		}
		if r == owner && w.parties[owner].keyID == pt.keyID {
			keyOK = true
		}
		if r == owner {
			ownerIdx = i
		}
	}
	return
}

func (x *c16X) judgeOpen(m *c16Msg, d *c16Dlv, what string, out []byte, err error, fullyLegit, legitKey bool) c16Res {
	c := x.c
	gcm := c16Ciphers[m.cipher].gcm
	c.OutErr("o", err)
	x.judged++
	if err != nil {
		if !d.altered && fullyLegit {
			x.fail("recipient-rejected", "%s: the intended recipient / key holder cannot open an unaltered message (%s, cipher %s): %v", what, d.name, c16Ciphers[m.cipher].name, err)
		} else if !legitKey {
			c.Hit("probe:non-recipient-refused")
		}
		return c16Res{}
	}
	c.Out("o.pt", out)
	same := bytes.Equal(out, m.content)
	switch {
	case !d.altered && fullyLegit && !same:
		x.fail("roundtrip-mismatch", "%s: recipient got %d bytes differing from the %d-byte content at %d (cipher %s)", what, len(out), len(m.content), firstDiff(out, m.content), c16Ciphers[m.cipher].name)
	case !legitKey && same:
		x.fail("non-recipient-got-content", "%s: a key that belongs to no recipient obtained the original content (cipher %s, delivery %s)", what, c16Ciphers[m.cipher].name, d.name)
	case !same && gcm:
		x.fail("wrong-content-returned", "%s: %d bytes that are not the content returned without error by an authenticated cipher (%s, delivery %s)", what, len(out), c16Ciphers[m.cipher].name, d.name)
	case !same:
		c.Hit("probe:garbage-from-unauthenticated-cipher")
	case d.altered:
		c.Hit("probe:altered-" + c16KindNames[m.kind] + "-opened-to-original-content")
		if d.name != "byte" {
			c.Hit("accepted-intact:" + d.name)
		}
	}
	return c16Res{ok: true, out: out}
}

func (x *c16X) judgeEnv(m *c16Msg, d *c16Dlv, party, api, variant, via int) c16Res {
	cert, key, name, keyOK, legitKey, ownerIdx := x.opener2(m, party, variant)
	// the key encoding of the recipient-info the presented certificate selects (of the first one for a stranger)
	legacy := len(m.legacy) > 0 && m.legacy[0]
	if ownerIdx >= 0 && ownerIdx < len(m.legacy) {
		legacy = m.legacy[ownerIdx]
	}
	api = c16Mod(api, 3)
	useCFCA := legacy
	if api == 1 {
		useCFCA = !legacy
	}
	matching := api != 1
	if x.w.parties[x.resolveParty(m, party)].kind == c16RSA {
		matching = true // the RSA unwrap ignores the encoding flag
	}
	var out []byte
	var err error
	var used *c16Sess
	asked := 0
	sessionOK := m.sess == nil || !m.sess.masked
	if api == 2 {
		if legacy {
			out, err = cfca.OpenEnvelopedMessageLegacy(d.data, cert, key)
		} else {
			out, err = cfca.OpenEnvelopedMessage(d.data, cert, key)
		}
	} else {
		var p7 *pkcs7.PKCS7
		p7, err, used, sessionOK = x.parse(m, d.data, via)
		if err == nil {
			if !d.altered && !x.honestRecipients(m, p7) {
				return c16Res{}
			}
			if used != nil {
				asked = used.decCalls
			}
			if useCFCA {
				out, err = p7.DecryptCFCA(cert, key)
			} else {
				out, err = p7.Decrypt(cert, key)
			}
			if err == nil && keyOK && !d.altered && bytes.Equal(out, m.content) && (m.sess == nil || !m.sess.masked) {
				// the SAME parsed message, the same recipient certificate, but the key of somebody who holds another key of that
				// type: having been opened once must not make the object open for everybody
				me := x.w.parties[x.resolveParty(m, party)]
				for _, o := range x.w.parties {
					if o.kind != me.kind || o.keyID == me.keyID || o.slow {
						continue
					}
					var out2 []byte
					var err2 error
					if useCFCA {
						out2, err2 = p7.DecryptCFCA(cert, o.key)
					} else {
						out2, err2 = p7.Decrypt(cert, o.key)
					}
					x.c.Hit("fault:wrong-key-after-successful-open")
					if err2 == nil && bytes.Equal(out2, m.content) && len(m.content) > 0 {
						x.fail("non-recipient-opens", "after %s had opened the parsed EnvelopedData, Decrypt with the key of %s (another key) on the same object returns the content", name, o.name)
						return c16Res{}
					}
					break
				}
			}
		}
	}
	if err == nil && used != nil {
		// the content key of an EnvelopedData is unwrapped by the session the consumer supplied
		if used.failDec {
			x.fail("session-error-swallowed", "Decrypt by %s returned %d bytes although the session's DecryptDataKey failed", name, len(out))
			return c16Res{}
		}
		if used.decCalls == asked {
			x.fail("session-not-consulted", "ParseWithSession(caller's session) + Decrypt by %s returned %d bytes without asking the session for the data key", name, len(out))
			return c16Res{}
		}
		x.c.Hit("probe:session-consulted")
		if b, ok := used.decOpts[len(used.decOpts)-1].(bool); ok && b == useCFCA {
			x.c.Hit("probe:session-got-encoding-flag")
		}
	}
	if m.sess != nil && !sessionOK {
		x.c.Hit("probe:masked-session-message-opened-through-another-session")
	}
	if used != nil && used.failDec && err != nil && used.decCalls > asked {
		x.c.Hit("fault:session-unwrap-error")
	}
	return x.judgeOpen(m, d, "EnvelopedData opened by "+name, out, err, keyOK && matching && sessionOK, legitKey && sessionOK)
}

func (x *c16X) judgePsk(m *c16Msg, d *c16Dlv, variant int) c16Res {
	key := m.psk
	right := true
	switch variant {
	case 1:
		key = append([]byte{}, m.psk...)
		key[len(key)/2] ^= 0x40
		right = false
	case 2:
		key = m.psk[:len(m.psk)-1]
		right = false
	case 3:
		key = append(append([]byte{}, m.psk...), 0x01)
		right = false
	case 4:
		key = []byte{}
		right = false
	}
	p7, err, _, _ := x.parse(m, d.data, x.via)
	var out []byte
	if err == nil {
		out, err = p7.DecryptUsingPSK(key)
	}
	what := "EncryptedData opened with the pre-shared key"
	if !right {
		what = "EncryptedData opened with a wrong key (variant " + itoa(variant) + ")"
	}
	return x.judgeOpen(m, d, what, out, err, right, right)
}

func (x *c16X) judgeSed(m *c16Msg, d *c16Dlv, party, vmode, variant int) c16Res {
	c, w := x.c, x.w
	onlyOne := variant == 1
	cv := 0
	if variant >= 2 {
		cv = variant - 1
	}
	cert, key, name, keyOK, legitKey := x.opener(m, party, cv)
	trust := vmode&1 == 1
	p7, err, _, _ := x.parse(m, d.data, x.via)
	var out []byte
	if err == nil {
		if !d.altered && !x.honestRecipients(m, p7) {
			return c16Res{}
		}
		vf := func() error {
			if trust && x.empty {
				x.c.Hit("fault:empty-trust-store")
				e := p7.VerifyWithChain(smx509.NewCertPool())
				if e == nil {
					x.fail("untrusted-signer-accepted", "DecryptAndVerify: verification against a trust store that holds NO certificate accepted the signers")
					return errors.New("harness: empty trust store accepted")
				}
				return e
			}
			if trust {
				return p7.VerifyWithChain(w.pool)
			}
			return p7.Verify()
		}
		if onlyOne {
			out, err = p7.DecryptAndVerifyOnlyOne(key, vf)
			keyOK = len(m.recips) == 1 && w.parties[m.recips[0]].keyID == w.parties[x.resolveParty(m, party)].keyID
		} else {
			out, err = p7.DecryptAndVerify(cert, key, vf)
		}
	}
	demand := keyOK && x.expect(m, trust, false) && !(trust && x.empty)
	if x.c.Failed() {
		return c16Res{}
	}
	if err == nil {
		// decrypted AND verified: the signature part is judged like SignedData, on the returned content
		if legitKey || !bytes.Equal(out, m.content) {
			if !x.acceptCheck(p7, out, false, trust, !d.altered) {
				c.OutErr("o", err)
				return c16Res{}
			}
		}
	}
	return x.judgeOpen(m, d, "SignedAndEnvelopedData opened by "+name, out, err, demand, legitKey)
}
