package props

import (
	"bytes"
	"crypto/ecdsa"
	"crypto/rsa"
	"crypto/x509/pkix"
	"encoding/asn1"
	"encoding/pem"
	"errors"
	"fmt"
	"io"
	"math/big"

	"github.com/emmansun/gmsm/cfca"
	"github.com/emmansun/gmsm/ecdh"
	"github.com/emmansun/gmsm/pkcs"
	"github.com/emmansun/gmsm/pkcs8"
	"github.com/emmansun/gmsm/sm2"
	"github.com/emmansun/gmsm/sm9"
	"github.com/emmansun/gmsm/smx509"

	"verif/harness/sim"
)

// Container kinds of the vault.
const (
	c14P8Plain  = iota // PKCS#8 PrivateKeyInfo
	c14P8Enc           // PKCS#8 EncryptedPrivateKeyInfo (PBES2, SM-PBES, PBES1)
	c14SEC1            // SEC 1 ECPrivateKey
	c14PKIX            // SubjectPublicKeyInfo (public half)
	c14PEM             // RFC 1423 encrypted PEM block around SEC 1 / PKCS#8
	c14Envelope        // GB/T 35276 SM2 enveloped key
	c14CFCA            // CFCA SM2 key + certificate blob
	c14SM9             // raw / ASN.1 SM9 encodings
	c14ContainerKinds
)

var c14ContainerName = []string{"pkcs8", "pkcs8-encrypted", "sec1", "pkix", "legacy-pem", "sm2-enveloped", "cfca", "sm9-native"}

// Encrypter families of the encrypted PKCS#8 container.
const (
	c14EkPBES2     = iota // pkcs.NewPBESEncrypter(cipher, kdf)
	c14EkSMPBES           // pkcs.NewSMPBESEncrypter(salt, iterations)
	c14EkSMPBESKDF        // pkcs.NewSMPBESEncrypterWithKDF(kdf)
	c14EkPBES1            // pkcs.NewPbeWith*And*CBC
	c14EkKinds
)

var c14Ciphers = []pkcs.Cipher{pkcs.SM4CBC, pkcs.SM4GCM, pkcs.SM4ECB, pkcs.AES128CBC, pkcs.AES128GCM, pkcs.AES192CBC, pkcs.AES192GCM,
	pkcs.AES256CBC, pkcs.AES256GCM, pkcs.DESCBC, pkcs.TripleDESCBC, pkcs.SM4}
var c14CipherName = []string{"sm4-cbc", "sm4-gcm", "sm4-ecb", "aes128-cbc", "aes128-gcm", "aes192-cbc", "aes192-gcm", "aes256-cbc", "aes256-gcm", "des-cbc", "3des-cbc", "sm4(cfca oid)"}
var c14CipherGCM = []bool{false, true, false, false, true, false, true, false, true, false, false, false}

var c14Hashes = []pkcs.Hash{pkcs.SHA1, pkcs.SHA224, pkcs.SHA256, pkcs.SHA384, pkcs.SHA512, pkcs.SHA512_224, pkcs.SHA512_256, pkcs.SM3}

const c14KDFs = 10 // 0..7 PBKDF2 with c14Hashes[i], 8 SM-PBKDF2, 9 scrypt

var c14KDFName = []string{"pbkdf2-sha1", "pbkdf2-sha224", "pbkdf2-sha256", "pbkdf2-sha384", "pbkdf2-sha512", "pbkdf2-sha512/224", "pbkdf2-sha512/256", "pbkdf2-sm3", "sm-pbkdf2", "scrypt"}

var c14PBES1 = []func(io.Reader, int, int) (*pkcs.PBES1, error){pkcs.NewPbeWithMD2AndDESCBC, pkcs.NewPbeWithMD2AndRC2CBC, pkcs.NewPbeWithMD5AndDESCBC,
	pkcs.NewPbeWithMD5AndRC2CBC, pkcs.NewPbeWithSHA1AndDESCBC, pkcs.NewPbeWithSHA1AndRC2CBC}
var c14PBES1Name = []string{"md2-des", "md2-rc2", "md5-des", "md5-rc2", "sha1-des", "sha1-rc2"}

func c14Mod(x, n int) int { return ((x % n) + n) % n }

// c14Compatible: can a key of this kind be put into this container kind?
func c14Compatible(kind, ck int) bool {
	switch ck {
	case c14P8Plain, c14P8Enc:
		return kind <= c14SM9EncUser
	case c14SEC1:
		return kind == c14SM2 || kind == c14EC256 || kind == c14EC384
	case c14PKIX:
		return kind <= c14ECDH
	case c14PEM:
		return kind <= c14SM9EncUser
	case c14Envelope, c14CFCA:
		return kind == c14SM2
	case c14SM9:
		return kind >= c14SM9SignMaster
	}
	return false
}

// c14Spec is everything a store needs besides the key.
type c14Spec struct {
	ck, ek, cipher, kdf, salt, iter, sub, path int
	pw                                         []byte
	rcpt                                       int
}

// c14Rec is the ledger entry of one version of one slot of the disk.
type c14Rec struct {
	slot, ver int
	spec      c14Spec
	key       *c14Key
	bytes     []byte   // what is on the disk
	auth      bool     // the container authenticates (GCM PKCS#8, SM2 enveloped key, CFCA blob)
	prot      [][2]int // byte ranges the container protects
	bare      bool     // SM9 user key stored without its master public key
	desc      string
}

type c14EPKI struct {
	Alg  pkix.AlgorithmIdentifier
	Data []byte
}

type c14PBES2Params struct {
	KDF pkix.AlgorithmIdentifier
	Enc pkix.AlgorithmIdentifier
}

type c14PBKDF2Params struct {
	Salt   []byte
	Iter   int
	KeyLen int                      `asn1:"optional"`
	PRF    pkix.AlgorithmIdentifier `asn1:"optional"`
}

type c14ScryptParams struct {
	Salt    []byte
	N, R, P int
	KeyLen  int `asn1:"optional"`
}

type c14PBE1Params struct {
	Salt []byte
	Iter int
}

var errC14Cost = errors.New("c14: the container announces a key-derivation cost above the vault's limit; not loaded")

// c14CostOK inspects an (altered) EncryptedPrivateKeyInfo exactly the way the
// library will (same encoding/asn1 shapes) and refuses to hand it over when
// the announced KDF cost is large: cost parameters are not fault targets, but
// an alteration elsewhere (a length octet) can make them huge.
func c14CostOK(der []byte) bool {
	var e c14EPKI
	if _, err := asn1.Unmarshal(der, &e); err != nil {
		return true
	}
	oid := e.Alg.Algorithm.String()
	switch oid {
	case "1.2.840.113549.1.5.13", "1.2.156.10197.6.4.1.5.2":
		var p c14PBES2Params
		if _, err := asn1.Unmarshal(e.Alg.Parameters.FullBytes, &p); err != nil {
			return true
		}
		switch p.KDF.Algorithm.String() {
		case "1.2.840.113549.1.5.12", "1.2.156.10197.6.4.1.5.1":
			var k c14PBKDF2Params
			if _, err := asn1.Unmarshal(p.KDF.Parameters.FullBytes, &k); err != nil {
				return true
			}
			return k.Iter <= 4096
		case "1.3.6.1.4.1.11591.4.11":
			var k c14ScryptParams
			if _, err := asn1.Unmarshal(p.KDF.Parameters.FullBytes, &k); err != nil {
				return true
			}
			if k.N > 4096 || k.R > 64 || k.P > 64 {
				return false
			}
			if k.N > 0 && k.R > 0 && k.P > 0 && k.N*k.R*k.P > 1<<15 {
				return false
			}
			return true
		}
		return true
	case "1.2.840.113549.1.5.1", "1.2.840.113549.1.5.3", "1.2.840.113549.1.5.4", "1.2.840.113549.1.5.6", "1.2.840.113549.1.5.10", "1.2.840.113549.1.5.11":
		var k c14PBE1Params
		if _, err := asn1.Unmarshal(e.Alg.Parameters.FullBytes, &k); err != nil {
			return true
		}
		return k.Iter <= 4096
	}
	return true
}

// c14Encrypter builds the PBES encrypter of a spec. rd feeds the PBES1 constructors (they draw the salt themselves).
func c14Encrypter(s *c14Spec, rd io.Reader) (pkcs.PBESEncrypter, string, error) {
	salt := c14Mod(s.salt, 41)
	iter := 1 + c14Mod(s.iter-1, 16)
	kdfOpts := func() (pkcs.KDFOpts, string) {
		k := c14Mod(s.kdf, c14KDFs)
		switch {
		case k < 8:
			return pkcs.NewPBKDF2Opts(c14Hashes[k], salt, iter), c14KDFName[k]
		case k == 8:
			o := pkcs.NewSMPBKDF2Opts(salt, iter)
			// the ShangMi PBKDF2 OID combined with every PRF (its default is SM3; the option field is exported)
			if h := c14Mod(s.salt+s.iter, len(c14Hashes)+1); h > 0 {
				o.HMACHash = c14Hashes[h-1]
				return o, c14KDFName[k] + "+" + c14KDFName[h-1][7:]
			}
			return o, c14KDFName[k]
		}
		n := 2 << c14Mod(s.iter, 4) // 2, 4, 8, 16
		r := 1 + c14Mod(s.iter>>2, 2)
		return pkcs.NewScryptOpts(salt, n, r, 1), c14KDFName[k]
	}
	switch c14Mod(s.ek, c14EkKinds) {
	case c14EkSMPBES:
		return pkcs.NewSMPBESEncrypter(salt, iter), "sm-pbes", nil
	case c14EkSMPBESKDF:
		k, name := kdfOpts()
		return pkcs.NewSMPBESEncrypterWithKDF(k), "sm-pbes/" + name, nil
	case c14EkPBES1:
		v := c14Mod(s.cipher, len(c14PBES1))
		e, err := c14PBES1[v](rd, salt, iter)
		if err != nil {
			return nil, "", err
		}
		return e, "pbes1/" + c14PBES1Name[v], nil
	}
	ci := c14Mod(s.cipher, len(c14Ciphers))
	k, name := kdfOpts()
	return pkcs.NewPBESEncrypter(c14Ciphers[ci], k), "pbes2/" + c14CipherName[ci] + "/" + name, nil
}

func (s *c14Spec) gcm() bool {
	return s.ck == c14P8Enc && c14Mod(s.ek, c14EkKinds) == c14EkPBES2 && c14CipherGCM[c14Mod(s.cipher, len(c14Ciphers))]
}

// c14SurgeryCert: the leaf certificate with its subject public key replaced by
// pub (04||X||Y). The signature is not valid any more; cfca.ParseSM2 parses the
// certificate but does not verify it.
func c14SurgeryCert(pub []byte) (*smx509.Certificate, error) {
	if bytes.Equal(pub, c14Fix.leafPub) {
		return c14Fix.leaf, nil
	}
	der := append([]byte{}, c14Fix.leafDER...)
	copy(der[c14Fix.leafOff:], pub)
	return smx509.ParseCertificate(der)
}

// c14PKCS1: the legacy PEM container of this spec wraps an RSA key in PKCS#1 form ("RSA PRIVATE KEY").
func c14PKCS1(k *c14Key, s *c14Spec) bool {
	return (k.kind == c14RSA1024 || k.kind == c14RSA2048) && c14Mod(s.sub, 12) >= 6
}

// c14InnerDER: the unencrypted encoding wrapped by the legacy PEM container.
func c14InnerDER(k *c14Key, s *c14Spec) ([]byte, string, error) {
	switch o := k.obj.(type) {
	case *sm2.PrivateKey:
		b, err := smx509.MarshalSM2PrivateKey(o)
		return b, "EC PRIVATE KEY", err
	case *ecdsa.PrivateKey:
		b, err := smx509.MarshalECPrivateKey(o)
		return b, "EC PRIVATE KEY", err
	case *rsa.PrivateKey:
		if c14PKCS1(k, s) {
			return smx509.MarshalPKCS1PrivateKey(o), "RSA PRIVATE KEY", nil
		}
	}
	b, err := smx509.MarshalPKCS8PrivateKey(k.obj)
	return b, "PRIVATE KEY", err
}

// c14LastEnc: the encrypter object of the last encrypted PKCS#8 store of the run (reset by the executor).
var c14LastEnc struct {
	enc  pkcs.PBESEncrypter
	name string
	spec c14Spec
}

// c14StoreBytes asks the library for the container bytes.
func c14StoreBytes(k *c14Key, s *c14Spec, rd io.Reader, rcpt *sm2.PrivateKey) (out []byte, desc string, bare bool, err error) {
	switch s.ck {
	case c14P8Plain:
		out, err = smx509.MarshalPKCS8PrivateKey(k.obj)
		return out, "pkcs8", false, err
	case c14P8Enc:
		var enc pkcs.PBESEncrypter
		var name string
		if c14Mod(s.sub, 12) == 11 && c14Mod(s.iter, 4) == 3 && c14Mod(s.ek, c14EkKinds) == c14EkPBES2 && len(s.pw) > 0 {
			// no encrypter given: the package default (pkcs8.DefaultOpts: AES-256-CBC, PBKDF2-HMAC-SHA256, 2048 iterations)
			// through the convenience entry point
			s.cipher, s.kdf = 7, 2
			out, err = pkcs8.ConvertPrivateKeyToPKCS8(k.obj, s.pw)
			return out, "pbes2/default options via pkcs8.ConvertPrivateKeyToPKCS8", false, err
		}
		if s.path&2 != 0 && c14LastEnc.enc != nil {
			// the application keeps ONE encrypter object and protects the next key with it, under the next password
			enc, name = c14LastEnc.enc, c14LastEnc.name+" (encrypter object reused)"
			s.ek, s.cipher, s.kdf, s.salt, s.iter = c14LastEnc.spec.ek, c14LastEnc.spec.cipher, c14LastEnc.spec.kdf, c14LastEnc.spec.salt, c14LastEnc.spec.iter
		} else {
			if enc, name, err = c14Encrypter(s, rd); err != nil {
				return nil, name, false, err
			}
			c14LastEnc.enc, c14LastEnc.name, c14LastEnc.spec = enc, name, *s
		}
		if s.path%2 == 0 {
			out, err = pkcs8.MarshalPrivateKey(k.obj, s.pw, enc) // salt / IV from crypto/rand.Reader (seeded by the worker)
			return out, name + " via pkcs8.MarshalPrivateKey", false, err
		}
		plain, err := smx509.MarshalPKCS8PrivateKey(k.obj)
		if err != nil {
			return nil, name, false, err
		}
		alg, data, err := enc.Encrypt(rd, s.pw, plain) // salt / IV from the scripted reader
		if err != nil {
			return nil, name, false, err
		}
		if alg == nil {
			return nil, name, false, errors.New("Encrypt returned neither an algorithm identifier nor an error")
		}
		out, err = asn1.Marshal(c14EPKI{Alg: *alg, Data: data})
		return out, name + " via Encrypt(reader)", false, err
	case c14SEC1:
		switch o := k.obj.(type) {
		case *sm2.PrivateKey:
			out, err = smx509.MarshalSM2PrivateKey(o)
		case *ecdsa.PrivateKey:
			out, err = smx509.MarshalECPrivateKey(o)
		default:
			err = errors.New("not an EC key")
		}
		return out, "sec1", false, err
	case c14PKIX:
		var pub any
		switch o := k.obj.(type) {
		case *sm2.PrivateKey:
			pub = &o.PublicKey
		case *ecdsa.PrivateKey:
			pub = &o.PublicKey
		case *rsa.PrivateKey:
			pub = &o.PublicKey
		case *ecdh.PrivateKey:
			pub = o.PublicKey()
		default:
			return nil, "pkix", false, errors.New("no public half")
		}
		out, err = smx509.MarshalPKIXPublicKey(pub)
		return out, "pkix", false, err
	case c14PEM:
		inner, typ, err := c14InnerDER(k, s)
		if err != nil {
			return nil, "pem", false, err
		}
		alg := smx509.PEMCipher(1 + c14Mod(s.sub, 6))
		blk, err := smx509.EncryptPEMBlock(rd, typ, inner, s.pw, alg)
		if err != nil {
			return nil, "pem", false, err
		}
		return pem.EncodeToMemory(blk), fmt.Sprintf("legacy-pem cipher %d around %s", int(alg), typ), false, nil
	case c14Envelope:
		o, ok := k.obj.(*sm2.PrivateKey)
		if !ok {
			return nil, "enveloped", false, errors.New("not an SM2 key")
		}
		out, err = sm2.MarshalEnvelopedPrivateKey(rd, &rcpt.PublicKey, o)
		return out, "sm2-enveloped", false, err
	case c14CFCA:
		o, ok := k.obj.(*sm2.PrivateKey)
		if !ok {
			return nil, "cfca", false, errors.New("not an SM2 key")
		}
		cert, err := c14SurgeryCert(k.pub)
		if err != nil {
			return nil, "cfca", false, fmt.Errorf("certificate: %v", err)
		}
		out, err = cfca.MarshalSM2(s.pw, o, cert)
		return out, "cfca", false, err
	case c14SM9:
		form := c14Mod(s.sub, 4) // 0 raw, 1 ASN.1, 2 compressed ASN.1, 3 raw in the compressed point form 02/03 || x (written by another producer: the harness)
		desc = fmt.Sprintf("sm9-native form %d", form)
		type marshaler interface {
			Bytes() []byte
			MarshalASN1() ([]byte, error)
		}
		type compressor interface {
			MarshalCompressedASN1() ([]byte, error)
		}
		m, ok := k.obj.(marshaler)
		if !ok {
			return nil, desc, false, errors.New("not an SM9 key")
		}
		isMasterPriv := k.kind == c14SM9SignMaster || k.kind == c14SM9EncMaster
		switch {
		case form == 3 && !isMasterPriv && len(m.Bytes()) == 65 && m.Bytes()[0] == 4:
			// a point of G1 (signing user key, encryption master public key): 02 + parity(y) || x, GM/T 0044.1 6.2.8
			b := m.Bytes()
			out = append([]byte{2 + b[64]&1}, b[1:33]...)
		case (form == 0 || form == 3) && !isMasterPriv:
			out = m.Bytes()
		case form == 2:
			if cm, ok := k.obj.(compressor); ok {
				out, err = cm.MarshalCompressedASN1()
				break
			}
			fallthrough
		default:
			out, err = m.MarshalASN1()
		}
		return out, desc, k.kind == c14SM9SignUser || k.kind == c14SM9EncUser, err
	}
	return nil, "", false, errors.New("unknown container kind")
}

// c14Load hands disk bytes to the library. variant selects among the entry
// points that accept this container.
func c14Load(rec *c14Rec, data, pw []byte, unwrap *sm2.PrivateKey, variant int) (any, error) {
	k := rec.key
	p8typed := func(der []byte, pws ...[]byte) (any, error) {
		switch k.kind {
		case c14SM2, c14ECDH:
			return pkcs8.ParsePKCS8PrivateKeySM2(der, pws...)
		case c14EC256, c14EC384:
			return pkcs8.ParsePKCS8PrivateKeyECDSA(der, pws...)
		case c14RSA1024, c14RSA2048:
			return pkcs8.ParsePKCS8PrivateKeyRSA(der, pws...)
		case c14SM9SignMaster:
			return pkcs8.ParseSM9SignMasterPrivateKey(der, pws...)
		case c14SM9EncMaster:
			return pkcs8.ParseSM9EncryptMasterPrivateKey(der, pws...)
		case c14SM9SignUser:
			return pkcs8.ParseSM9SignPrivateKey(der, pws...)
		case c14SM9EncUser:
			return pkcs8.ParseSM9EncryptPrivateKey(der, pws...)
		}
		return pkcs8.ParsePKCS8PrivateKey(der, pws...)
	}
	switch rec.spec.ck {
	case c14P8Plain:
		switch c14Mod(variant, 4) {
		case 0:
			return smx509.ParsePKCS8PrivateKey(data)
		case 1:
			key, _, err := pkcs8.ParsePrivateKey(data, nil)
			return key, err
		case 2:
			return pkcs8.ParsePKCS8PrivateKey(data)
		}
		return p8typed(data)
	case c14P8Enc:
		if !c14CostOK(data) {
			return nil, errC14Cost
		}
		switch c14Mod(variant, 3) {
		case 0:
			key, _, err := pkcs8.ParsePrivateKey(data, pw)
			return key, err
		case 1:
			return pkcs8.ParsePKCS8PrivateKey(data, pw)
		}
		return p8typed(data, pw)
	case c14SEC1:
		switch c14Mod(variant, 3) {
		case 0:
			if k.kind == c14SM2 {
				return smx509.ParseSM2PrivateKey(data)
			}
			return smx509.ParseECPrivateKey(data)
		case 1:
			return smx509.ParseTypedECPrivateKey(data)
		}
		return smx509.ParseECPrivateKey(data)
	case c14PKIX:
		return smx509.ParsePKIXPublicKey(data)
	case c14PEM:
		blk, _ := pem.Decode(data)
		if blk == nil {
			return nil, errors.New("c14: the disk bytes are not a PEM block any more")
		}
		der, err := smx509.DecryptPEMBlock(blk, pw)
		if err != nil {
			return nil, err
		}
		if k.kind == c14SM2 || k.kind == c14EC256 || k.kind == c14EC384 {
			if c14Mod(variant, 2) == 0 {
				return smx509.ParseTypedECPrivateKey(der)
			}
			if k.kind == c14SM2 {
				return smx509.ParseSM2PrivateKey(der)
			}
			return smx509.ParseECPrivateKey(der)
		}
		if c14PKCS1(k, &rec.spec) {
			return smx509.ParsePKCS1PrivateKey(der)
		}
		return smx509.ParsePKCS8PrivateKey(der)
	case c14Envelope:
		return sm2.ParseEnvelopedPrivateKey(unwrap, data)
	case c14CFCA:
		key, cert, err := cfca.ParseSM2(pw, data)
		if err == nil && cert == nil {
			return key, errors.New("c14: cfca.ParseSM2 returned neither a certificate nor an error")
		}
		return key, err
	case c14SM9:
		raw := c14Mod(rec.spec.sub, 4) == 0 || c14Mod(rec.spec.sub, 4) == 3
		switch k.kind {
		case c14SM9SignMaster:
			return sm9.UnmarshalSignMasterPrivateKeyASN1(data)
		case c14SM9EncMaster:
			return sm9.UnmarshalEncryptMasterPrivateKeyASN1(data)
		case c14SM9SignUser:
			if raw {
				return sm9.UnmarshalSignPrivateKeyRaw(data)
			}
			return sm9.UnmarshalSignPrivateKeyASN1(data)
		case c14SM9EncUser:
			if raw {
				return sm9.UnmarshalEncryptPrivateKeyRaw(data)
			}
			return sm9.UnmarshalEncryptPrivateKeyASN1(data)
		case c14SM9SignMasterPub:
			if raw {
				return sm9.UnmarshalSignMasterPublicKeyRaw(data)
			}
			if variant%2 == 1 {
				return sm9.ParseSignMasterPublicKeyPEM(pem.EncodeToMemory(&pem.Block{Type: "SM9 SIGN MASTER PUBLIC KEY", Bytes: data}))
			}
			return sm9.UnmarshalSignMasterPublicKeyASN1(data)
		case c14SM9EncMasterPub:
			if raw {
				return sm9.UnmarshalEncryptMasterPublicKeyRaw(data)
			}
			if variant%2 == 1 {
				return sm9.ParseEncryptMasterPublicKeyPEM(pem.EncodeToMemory(&pem.Block{Type: "SM9 ENC MASTER PUBLIC KEY", Bytes: data}))
			}
			return sm9.UnmarshalEncryptMasterPublicKeyASN1(data)
		}
	}
	return nil, errors.New("c14: unknown container kind")
}

func c14Child(t *sim.TLV, path ...int) *sim.TLV {
	for _, i := range path {
		if t == nil || i < 0 || i >= len(t.Children) {
			return nil
		}
		t = t.Children[i]
	}
	return t
}

func c14Range(e *sim.TLV, skip int) [2]int {
	return [2]int{e.Off + e.HdrLen + skip, e.Off + e.HdrLen + len(e.Content)}
}

// c14ProtectedElems locates, in the structure of an authenticating container,
// the elements whose value bytes the container protects. skip[i] leading
// content bytes of element i are framing (BIT STRING unused-bits octet,
// INTEGER sign pad, point-format octet) and are left out conservatively.
func c14ProtectedElems(spec *c14Spec, root *sim.TLV) (elems []*sim.TLV, skip []int, ok bool) {
	if root == nil {
		return nil, nil, false
	}
	add := func(e *sim.TLV, s int) bool {
		if e == nil || e.Tag&0x20 != 0 && e.Children == nil || s > len(e.Content) {
			return false
		}
		elems, skip = append(elems, e), append(skip, s)
		return true
	}
	switch {
	case spec.gcm():
		// SEQ{ SEQ{ pbes2, SEQ{ kdf, SEQ{ gcm-oid, SEQ{ nonce, icvlen } } } }, OCTET STRING }
		nonce := c14Child(root, 0, 1, 1, 1, 0)
		data := c14Child(root, 1)
		if len(root.Children) != 2 || nonce == nil || nonce.Tag != 0x04 || data == nil || data.Tag != 0x04 {
			return nil, nil, false
		}
		return elems, skip, add(nonce, 0) && add(data, 0)
	case spec.ck == c14Envelope:
		// SEQ{ algid, SEQ{ x, y, hash, ciphertext }, BIT STRING pub, BIT STRING encrypted key }
		if len(root.Children) != 4 {
			return nil, nil, false
		}
		ct := root.Children[1]
		if len(ct.Children) != 4 || ct.Children[0].Tag != 0x02 || ct.Children[1].Tag != 0x02 || ct.Children[2].Tag != 0x04 || ct.Children[3].Tag != 0x04 ||
			root.Children[2].Tag != 0x03 || root.Children[3].Tag != 0x03 {
			return nil, nil, false
		}
		for _, e := range ct.Children[:2] {
			s := 0
			if len(e.Content) > 0 && e.Content[0] == 0 {
				s = 1
			}
			if !add(e, s) {
				return nil, nil, false
			}
		}
		if !add(ct.Children[2], 0) || !add(ct.Children[3], 0) || !add(root.Children[2], 2) || !add(root.Children[3], 1) {
			return nil, nil, false
		}
		return elems, skip, true
	case spec.ck == c14CFCA:
		// SEQ{ version, SEQ{ oid, oid, OCTET STRING encrypted key }, SEQ{ oid, OCTET STRING certificate } }
		enc := c14Child(root, 1, 2)
		if len(root.Children) != 3 || enc == nil {
			return nil, nil, false
		}
		return elems, skip, add(enc, 0)
	}
	return nil, nil, false
}

// c14Protected computes the protected byte ranges of a freshly stored container.
func c14Protected(rec *c14Rec) ([][2]int, bool) {
	elems, skip, ok := c14ProtectedElems(&rec.spec, sim.ParseAllTLV(rec.bytes))
	if !ok {
		return nil, false
	}
	var out [][2]int
	for i, e := range elems {
		out = append(out, c14Range(e, skip[i]))
	}
	if rec.spec.ck == c14Envelope {
		// the unused-bits octet of the two BIT STRINGs (public key, encrypted scalar) is part of the value DER gives
		// the string - a count of 1..7 over zero tail bits denotes a shorter bit string, not the same one - so a
		// byte-level alteration of it is an alteration of the protected value. (The point-format octet behind it
		// stays excluded: 04 -> 06/07 names the same point.)
		for _, e := range elems[len(elems)-2:] {
			out = append(out, [2]int{e.Off + e.HdrLen, e.Off + e.HdrLen + 1})
		}
	}
	if rec.spec.ck == c14CFCA {
		// the certificate's public key: X||Y behind the point-format octet
		off := bytes.Index(rec.bytes, rec.key.pub)
		if off < 0 {
			return nil, false
		}
		out = append(out, [2]int{off + 1, off + len(rec.key.pub)})
	}
	return out, true
}

// c14ProtectedValues extracts the protected values from (possibly re-encoded)
// container bytes; nil if the structure is not recognisable any more.
func c14ProtectedValues(rec *c14Rec, data []byte) [][]byte {
	elems, skip, ok := c14ProtectedElems(&rec.spec, sim.ParseAllTLV(data))
	if !ok {
		return nil
	}
	var out [][]byte
	for i, e := range elems {
		out = append(out, e.Content[skip[i]:])
	}
	if rec.spec.ck == c14CFCA {
		off := bytes.Index(data, rec.key.pub[1:])
		if off < 0 {
			return nil
		}
		out = append(out, data[off:off+len(rec.key.pub)-1])
	}
	return out
}

func c14InRanges(prot [][2]int, pos int) bool {
	for _, r := range prot {
		if pos >= r[0] && pos < r[1] {
			return true
		}
	}
	return false
}

// c14Touches: does the alteration orig -> m change a protected byte?
func c14Touches(prot [][2]int, orig, m []byte) bool {
	for _, r := range prot {
		for pos := r[0]; pos < r[1] && pos < len(orig); pos++ {
			if pos >= len(m) || m[pos] != orig[pos] {
				return true
			}
		}
	}
	return false
}

// ---- Byzantine producer

func c14DERInt(d *big.Int) []byte {
	b := d.Bytes()
	if len(b) == 0 {
		return []byte{0}
	}
	if b[0]&0x80 != 0 {
		b = append([]byte{0}, b...)
	}
	return b
}

// Out-of-range scalar kinds of the Byzantine producer (6 and 7 are in-range controls).
const (
	c14ByzZero = iota
	c14ByzNm1
	c14ByzN
	c14ByzNp1
	c14ByzAllOnes
	c14ByzWide // 2^(8*size): one byte wider than the field
	c14ByzCtlMax
	c14ByzCtlOne
	c14ByzKinds
)

var c14ByzName = []string{"0", "n-1", "n", "n+1", "2^k-1", "2^k", "n-2 (control)", "1 (control)"}

func c14ByzScalar(sk int, order *big.Int, size int) *big.Int {
	one := big.NewInt(1)
	switch sk {
	case c14ByzZero:
		return new(big.Int)
	case c14ByzNm1:
		return new(big.Int).Sub(order, one)
	case c14ByzN:
		return new(big.Int).Set(order)
	case c14ByzNp1:
		return new(big.Int).Add(order, one)
	case c14ByzAllOnes:
		return new(big.Int).Sub(new(big.Int).Lsh(one, uint(8*size)), one)
	case c14ByzWide:
		return new(big.Int).Lsh(one, uint(8*size))
	case c14ByzCtlMax:
		return new(big.Int).Sub(order, big.NewInt(2))
	}
	return big.NewInt(1)
}

// c14ScalarOctets: the octets a producer writes for scalar d in a fixed-width field (wider if it does not fit).
func c14ScalarOctets(d *big.Int, size int) []byte {
	if d.BitLen() > 8*size {
		return d.Bytes()
	}
	return d.FillBytes(make([]byte, size))
}
