package props

import (
	"bytes"
	"crypto/x509"
	"crypto/x509/pkix"
	"math/big"
	"time"
	"unicode/utf8"

	"github.com/emmansun/gmsm/cfca"
	"github.com/emmansun/gmsm/smx509"

	"verif/harness/sim"
)

// opCSR: a subscriber node builds a certification request (plain PKCS#10 or
// the CFCA flavour with a temporary public key and a challenge password); the
// CA node parses it and checks the proof of possession.
func (r *c15Run) opCSR(i int, op sim.Op) {
	c := r.c
	r.check++
	key, err := r.key(op.Int(0), op.Int(1))
	if err != nil {
		c.Fail("setup", i, op.K, "key: %v", err)
		return
	}
	flavour := c15Mod(op.Int(3), 3)
	algTmpl, algWant, _, refuse := c15SigAlg(key.typ, op.Int(2))
	if key.typ == c15RSA1024 && algTmpl == x509.SHA512WithRSAPSS {
		refuse = true
	}
	cn := c15CleanCN(op.Str(0))
	dns := c15CleanNames(op.Str(1), false)
	pw := op.Str(2)
	if len(pw) > 40 || !utf8.ValidString(pw) {
		pw = "secret"
	}
	tmpl := &x509.CertificateRequest{Subject: pkix.Name{CommonName: cn, Organization: []string{"verif"}}, SignatureAlgorithm: algTmpl}
	c.Abs("csr", flavour, c15KeyNames[key.typ], int(algTmpl), len(dns), len(pw) == 0)
	var der []byte
	var tmp *c15Key
	kind := "csr"
	if flavour == 0 {
		tmpl.DNSNames = dns
		der, err = smx509.CreateCertificateRequest(r.rnd(op.Int(5)), tmpl, key.signer)
	} else {
		kind = "cfca"
		// temporary key: SM2 for SM2 requests, RSA for RSA requests; tmpKind 3 deliberately picks the other family, 2 none
		var tmpPub any
		isRSA := key.typ == c15RSA1024 || key.typ == c15RSA2048
		if tk := c15Mod(op.Int(4), 4); tk != 2 {
			if isRSA != (tk == 3) {
				other := c15RSA2048
				if key.typ == c15RSA2048 {
					other = c15RSA1024
				}
				tmp, err = r.key(other, 0)
			} else {
				tmp, err = r.key(c15SM2, c15Mod(op.Int(1)+1+tk, 4))
			}
		}
		if err != nil {
			c.Fail("setup", i, op.K, "key: %v", err)
			return
		}
		if tmp != nil {
			tmpPub = tmp.pub
			if key.typ != c15SM2 && key.typ != c15RSA1024 && key.typ != c15RSA2048 {
				refuse = true // "only RSA or SM2 key is supported"
			}
			if (key.typ == c15SM2) != (tmp.typ == c15SM2) {
				refuse = true // temporary key of the other family
			}
			if pw == "" {
				refuse = true // "challenge password is required"
			}
		}
		if flavour == 1 {
			der, err = smx509.CreateCFCACertificateRequest(r.rnd(op.Int(5)), tmpl, key.signer, tmpPub, pw)
		} else {
			der, err = cfca.CreateCertificateRequest(r.rnd(op.Int(5)), tmpl, key.signer, tmpPub, pw)
		}
	}
	c.OutErr("csr-create", err)
	if err != nil {
		if refuse {
			c.Hit("probe:unsupported-combination-refused")
			return
		}
		c.Fail("create-refused", i, op.K, "request creation (flavour %d, key %s, algorithm %v) refused: %v", flavour, key.id, algTmpl, err)
		return
	}
	c.Out("csr", der)
	bad := func(field string, got, want any) {
		c.Fail("roundtrip-mismatch", i, op.K, "request field %s parses back as %v, the template said %v", field, got, want)
	}
	var q *smx509.CertificateRequest
	if flavour == 0 {
		q, err = smx509.ParseCertificateRequest(der)
	} else {
		var cq *smx509.CertificateRequestCFCA
		if flavour == 1 {
			cq, err = smx509.ParseCFCACertificateRequest(der)
		} else {
			cq, err = cfca.ParseCertificateRequest(der)
		}
		if err == nil {
			q = &cq.CertificateRequest
			switch {
			case tmp != nil && cq.ChallengePassword != pw:
				bad("ChallengePassword", cq.ChallengePassword, pw)
			case tmp != nil && !c15PubEqual(tmp.pub, cq.TmpPublicKey):
				bad("TmpPublicKey", cq.TmpPublicKey != nil, tmp.id)
			case tmp == nil && cq.TmpPublicKey != nil:
				bad("TmpPublicKey", "a key", "none")
			}
			// the plain parser must read the CFCA flavour too (it is a PKCS#10 request)
			if p2, err2 := smx509.ParseCertificateRequest(der); err2 != nil || !bytes.Equal(p2.RawTBSCertificateRequest, q.RawTBSCertificateRequest) {
				c.Fail("issued-object-unparsable", i, op.K, "the CFCA request does not parse as a PKCS#10 request: %v", err2)
			}
		}
	}
	if c.Failed() {
		return
	}
	if err != nil {
		c.Fail("issued-object-unparsable", i, op.K, "a request the library just created does not parse: %v", err)
		return
	}
	switch {
	case q.Subject.CommonName != cn:
		bad("Subject.CommonName", q.Subject.CommonName, cn)
	case flavour == 0 && !c15SameStrings(q.DNSNames, dns):
		bad("DNSNames", q.DNSNames, dns)
	case !c15PubEqual(key.pub, q.PublicKey):
		bad("PublicKey", q.PublicKey != nil, key.id)
	case !refuse && q.SignatureAlgorithm != algWant:
		bad("SignatureAlgorithm", q.SignatureAlgorithm, algWant)
	case q.Version != 0:
		bad("Version", q.Version, 0)
	}
	if c.Failed() {
		return
	}
	if err := q.CheckSignature(); err != nil {
		c.Fail("honest-signature-rejected", i, op.K, "the signature of the request (key %s, %v) does not verify under the key it carries: %v", key.id, q.SignatureAlgorithm, err)
		return
	}
	if q.SignatureAlgorithm == smx509.SM2WithSM3 && op.Int(6)&1 == 1 {
		if !r.sm2ModelCheck(i, op.K, der, key) {
			return
		}
	}
	reg := c15Locate(der)
	if !reg.ok || !bytes.Equal(der[reg.tbs[0]:reg.tbs[1]], q.RawTBSCertificateRequest) {
		c.Fail("der-layout", i, op.K, "the harness' TLV reader and the library disagree on the signed portion of the request")
		return
	}
	r.objs = append(r.objs, &c15Obj{kind: kind, der: der, reg: reg, tbs: q.RawTBSCertificateRequest, alg: q.SignatureAlgorithm, sig: q.Signature})
	c.Hit("probe:request-" + kind + "-" + c15KeyNames[key.typ])
}

// opCRL: a CA node publishes a revocation list; a verifier parses it and
// checks it against the issuer certificate (and against another one).
func (r *c15Run) opCRL(i int, op sim.Op) {
	c := r.c
	if len(r.certs) == 0 {
		return
	}
	r.check++
	issuer := r.certs[c15Mod(op.Int(0), len(r.certs))]
	signKey := issuer.key
	if op.Int(6) > 0 {
		signKey = r.certs[c15Mod(op.Int(6)-1, len(r.certs))].key // possibly a foreign key: CreateRevocationList does not compare it with the issuer
	}
	algTmpl, algWant, _, refuse := c15SigAlg(signKey.typ, op.Int(5))
	if signKey.typ == c15RSA1024 && algTmpl == x509.SHA512WithRSAPSS {
		refuse = true
	}
	if issuer.ku&x509.KeyUsageCRLSign == 0 || len(issuer.x.SubjectKeyId) == 0 {
		refuse = true // documented preconditions of CreateRevocationList
	}
	now := time.Now().UTC().Truncate(time.Second)
	this := now.Add(time.Duration(c15Clamp(op.Int(3), -24*400, 24*400)) * time.Hour)
	next := this.Add(time.Duration(c15Clamp(op.Int(4), 0, 24*400)) * time.Hour)
	number := big.NewInt(int64(c15Clamp(op.Int(1), 0, 1<<40)))
	nent := c15Clamp(op.Int(2), 0, 6)
	tmpl := &x509.RevocationList{Number: number, ThisUpdate: this, NextUpdate: next, SignatureAlgorithm: algTmpl}
	for k := 0; k < nent; k++ {
		tmpl.RevokedCertificateEntries = append(tmpl.RevokedCertificateEntries, x509.RevocationListEntry{
			SerialNumber: big.NewInt(int64(1000 + 17*k + op.Int(1)%97)), RevocationTime: this.Add(-time.Duration(k+1) * time.Hour), ReasonCode: k % 3})
	}
	foreign := signKey.id != issuer.key.id
	c.Abs("crl", c15KeyNames[signKey.typ], foreign, nent, int(algTmpl), issuer.canSignCRLs(), refuse)
	der, err := smx509.CreateRevocationList(r.rnd(op.Int(7)), tmpl, issuer.x, signKey.signer)
	c.OutErr("crl-create", err)
	if err != nil {
		if refuse {
			c.Hit("probe:unsupported-combination-refused")
			return
		}
		c.Fail("create-refused", i, op.K, "CreateRevocationList (issuer #%d, key %s, algorithm %v) refused: %v", issuer.idx, signKey.id, algTmpl, err)
		return
	}
	c.Out("crl", der)
	rl, err := smx509.ParseRevocationList(der)
	if err != nil {
		c.Fail("issued-object-unparsable", i, op.K, "a revocation list the library just created does not parse: %v", err)
		return
	}
	bad := func(field string, got, want any) {
		c.Fail("roundtrip-mismatch", i, op.K, "revocation list field %s parses back as %v, the template said %v", field, got, want)
	}
	switch {
	case rl.Number == nil || rl.Number.Cmp(number) != 0:
		bad("Number", rl.Number, number)
	case !rl.ThisUpdate.Equal(this):
		bad("ThisUpdate", rl.ThisUpdate, this)
	case !rl.NextUpdate.Equal(next):
		bad("NextUpdate", rl.NextUpdate, next)
	case rl.Issuer.CommonName != issuer.cn:
		bad("Issuer.CommonName", rl.Issuer.CommonName, issuer.cn)
	case !bytes.Equal(rl.AuthorityKeyId, issuer.x.SubjectKeyId):
		bad("AuthorityKeyId", rl.AuthorityKeyId, issuer.x.SubjectKeyId)
	case len(rl.RevokedCertificateEntries) != nent:
		bad("len(RevokedCertificateEntries)", len(rl.RevokedCertificateEntries), nent)
	case !refuse && rl.SignatureAlgorithm != algWant:
		bad("SignatureAlgorithm", rl.SignatureAlgorithm, algWant)
	}
	for k := 0; k < nent && !c.Failed(); k++ {
		e, w := rl.RevokedCertificateEntries[k], tmpl.RevokedCertificateEntries[k]
		if e.SerialNumber == nil || e.SerialNumber.Cmp(w.SerialNumber) != 0 || !e.RevocationTime.Equal(w.RevocationTime) || e.ReasonCode != w.ReasonCode {
			bad("RevokedCertificateEntries", e.SerialNumber, w.SerialNumber)
		}
	}
	if c.Failed() {
		return
	}
	// ---- signature: against the certificate whose key signed, against the named issuer, against a third party
	errRaw := issuer.x.CheckSignature(rl.SignatureAlgorithm, rl.RawTBSRevocationList, rl.Signature)
	errGated := rl.CheckSignatureFrom(issuer.x)
	c.OutErr("crl-raw", errRaw)
	c.OutErr("crl-gated", errGated)
	switch {
	case foreign && (errRaw == nil || errGated == nil):
		c.Fail("wrong-issuer-accepted", i, op.K, "the revocation list was signed with key %s but verifies under issuer certificate #%d carrying key %s (raw err=%v, CheckSignatureFrom err=%v)", signKey.id, issuer.idx, issuer.key.id, errRaw, errGated)
	case !foreign && errRaw != nil:
		c.Fail("honest-signature-rejected", i, op.K, "the revocation list signed with key %s (%v) does not verify under its issuer's key: %v", signKey.id, rl.SignatureAlgorithm, errRaw)
	case !foreign && issuer.canSignCRLs() && errGated != nil:
		c.Fail("honest-signature-rejected", i, op.K, "CheckSignatureFrom of the revocation list under its issuer (CA with cRLSign) fails: %v", errGated)
	case !foreign && !issuer.canSignCRLs() && errGated == nil:
		c.Fail("non-ca-issuer-accepted", i, op.K, "RevocationList.CheckSignatureFrom accepts certificate #%d (basicConstraints=%v cA=%v keyUsage=%#x) as issuer", issuer.idx, issuer.bc, issuer.ca, int(issuer.ku))
	}
	if c.Failed() {
		return
	}
	if foreign {
		c.Hit("fault:issuer-substituted")
	}
	for _, other := range r.certs {
		if other.key.id == signKey.id {
			continue
		}
		if e1, e2 := other.x.CheckSignature(rl.SignatureAlgorithm, rl.RawTBSRevocationList, rl.Signature), rl.CheckSignatureFrom(other.x); e1 == nil || e2 == nil {
			c.Fail("wrong-issuer-accepted", i, op.K, "the revocation list signed with key %s verifies under certificate #%d (%q) carrying key %s", signKey.id, other.idx, other.cn, other.key.id)
			return
		}
		c.Hit("fault:issuer-substituted")
		if other.cn == issuer.cn {
			c.Hit("probe:same-name-other-key-refused")
		}
		break
	}
	// certificates carrying the signing key without being entitled to issue revocation lists
	if !foreign {
		for _, other := range r.certs {
			if other.key.id != signKey.id || other == issuer {
				continue
			}
			e2 := rl.CheckSignatureFrom(other.x)
			c.OutErr("crl-samekey", e2)
			if other.canSignCRLs() && e2 != nil {
				c.Fail("honest-signature-rejected", i, op.K, "the revocation list does not verify under certificate #%d, a CA with cRLSign carrying the signing key %s: %v", other.idx, signKey.id, e2)
				return
			}
			if !other.canSignCRLs() && e2 == nil {
				c.Fail("non-ca-issuer-accepted", i, op.K, "RevocationList.CheckSignatureFrom accepts certificate #%d (basicConstraints=%v cA=%v keyUsage=%#x), which carries the signing key but may not issue revocation lists", other.idx, other.bc, other.ca, int(other.ku))
				return
			}
			c.Hit("probe:crl-against-same-key-certificate")
		}
	}
	if rl.SignatureAlgorithm == smx509.SM2WithSM3 && op.Int(8)&1 == 1 {
		if !r.sm2ModelCheck(i, op.K, der, signKey) {
			return
		}
	}
	if foreign {
		return // nothing a recipient could verify it with: not kept as a transport object
	}
	reg := c15Locate(der)
	if !reg.ok || !bytes.Equal(der[reg.tbs[0]:reg.tbs[1]], rl.RawTBSRevocationList) {
		c.Fail("der-layout", i, op.K, "the harness' TLV reader and the library disagree on the signed portion of the revocation list")
		return
	}
	r.objs = append(r.objs, &c15Obj{kind: "crl", der: der, issuer: issuer, gated: issuer.canSignCRLs(), reg: reg, tbs: rl.RawTBSRevocationList, alg: rl.SignatureAlgorithm, sig: rl.Signature})
	c.Hit("probe:crl-" + c15KeyNames[signKey.typ])
}

var _ sim.Op
